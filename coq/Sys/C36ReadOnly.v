(* C36 — concurrent read-only sessions: model and proofs.
   A concurrent execution is an interleaving (any list of (session, action) pairs) of
     ALocal     one micro-step of the session's query evaluation: it READS the shared database value and
                updates only the session's private state (results are part of that state),
     AReg e     one atomic step of the process list (the C37 model, Sys/ProcessList.v),
     AIncr d    one atomic increment of a global status counter (Questions, Com_select, ...).
   The database type, the private-state type and the evaluation step are arbitrary (Section variables):
   the theorems hold for every pure evaluator.  That evaluation steps do not write the database and that
   registry steps are atomic is the model's premise; its implementation-side observer is the race detector. *)
From Coq Require Import List NArith ZArith Lia Permutation.
Import ListNotations.
From GMS Require Import Sys.ProcessList Sys.ProcessListProofs.
Open Scope N_scope.

Section ReadOnly.
  Variable DB : Type.
  Variable loc : Type.
  Variable lstep : DB -> N -> loc -> loc.   (* session i's next evaluation micro-step *)

  Inductive action := ALocal | AReg (e : event) | AIncr (d : Z).

  Record gstate := mkG { gdb : DB; gloc : N -> loc; greg : state; gctr : Z }.

  Definition gstep (g : gstate) (ia : N * action) : gstate :=
    let '(i, a) := ia in
    match a with
    | ALocal => mkG (gdb g) (fun j => if N.eqb j i then lstep (gdb g) i (gloc g i) else gloc g j) (greg g) (gctr g)
    | AReg e => mkG (gdb g) (gloc g) (fst (step (greg g) e)) (gctr g)
    | AIncr d => mkG (gdb g) (gloc g) (greg g) (gctr g + d)
    end.

  Definition exec (g : gstate) (l : list (N * action)) : gstate := fold_left gstep l g.

  (* the actions of session i only / the registry events / the counter increments of a schedule *)
  Definition mine (i : N) (l : list (N * action)) : list (N * action) := filter (fun ia => N.eqb (fst ia) i) l.
  Fixpoint events (l : list (N * action)) : list event :=
    match l with [] => [] | (_, AReg e) :: r => e :: events r | _ :: r => events r end.
  Fixpoint total (l : list (N * action)) : Z :=
    match l with [] => 0%Z | (_, AIncr d) :: r => (d + total r)%Z | _ :: r => total r end.

  Lemma exec_app g l1 l2 : exec g (l1 ++ l2) = exec (exec g l1) l2.
  Proof. unfold exec. apply fold_left_app. Qed.

  Lemma exec_cons g x r : exec g (x :: r) = exec (gstep g x) r.
  Proof. reflexivity. Qed.

  Lemma db_never_written g l : gdb (exec g l) = gdb g.
  Proof.
    revert g. induction l as [|[i a] r IH]; intros g; [reflexivity|].
    rewrite exec_cons, IH. destruct a; reflexivity.
  Qed.

  (* non-interference: what session i computes under ANY interleaving with any other sessions is what it
     computes when its own actions run alone *)
  Theorem readonly_noninterference g l i :
    gloc (exec g l) i = gloc (exec g (mine i l)) i.
  Proof.
    revert g. induction l as [|[j a] r IH]; intros g; [reflexivity|].
    rewrite exec_cons. unfold mine at 1. cbn [filter fst]. fold (mine i r).
    destruct (N.eqb_spec j i) as [->|Hne].
    - rewrite exec_cons. apply IH.
    - rewrite IH.
      (* the skipped step of session j <> i changes neither the database nor i's private state *)
      assert (Hsame : forall g1 g2 l', gdb g1 = gdb g2 -> gloc g1 i = gloc g2 i ->
                 gloc (exec g1 (mine i l')) i = gloc (exec g2 (mine i l')) i).
      { intros g1 g2 l'. revert g1 g2. induction l' as [|[k b] r' IH']; intros g1 g2 Hd Hl; [exact Hl|].
        unfold mine. cbn [filter fst]. fold (mine i r').
        destruct (N.eqb_spec k i) as [->|Hk]; [|apply IH'; assumption].
        rewrite !exec_cons. apply IH'; destruct b; cbn; auto.
        rewrite N.eqb_refl, Hd, Hl. reflexivity. }
      apply Hsame; destruct a; cbn; auto.
      destruct (N.eqb_spec i j); [congruence|reflexivity].
  Qed.

  Theorem registry_is_run_of_events g l : greg (exec g l) = run (greg g) (events l).
  Proof.
    revert g. induction l as [|[i a] r IH]; intros g; [reflexivity|].
    rewrite exec_cons, IH. destruct a; reflexivity.
  Qed.

  Theorem counter_is_sum g l : gctr (exec g l) = (gctr g + total l)%Z.
  Proof.
    revert g. induction l as [|[i a] r IH]; intros g; [cbn; lia|].
    rewrite exec_cons, IH. destruct a; cbn; lia.
  Qed.

  Lemma total_perm l l' : Permutation l l' -> total l = total l'.
  Proof.
    induction 1 as [|[i a] l l' _ IH|[i a] [j b] l|l l' l'' _ IH1 _ IH2]; cbn [total]; try lia.
    - destruct a; lia.
    - destruct a, b; lia.
  Qed.

  (* the counters do not depend on the schedule: any reordering of the same actions gives the same value *)
  Theorem counter_schedule_independent g l l' :
    Permutation l l' -> gctr (exec g l) = gctr (exec g l').
  Proof. intros H. rewrite !counter_is_sum, (total_perm _ _ H). reflexivity. Qed.

  (* registries at quiescence: if the merged process-list history follows the call discipline (C37) then
     both thread counters agree with the history, and when every session has disconnected the list is
     empty and both counters are back to zero — for every interleaving *)
  Theorem registry_consistent g l sp :
    greg g = init -> srun sinit (events l) = Some sp ->
    let s := greg (exec g l) in
    tc s = cnt anyv (sess sp) /\ tr s = cnt is_squery (sess sp) /\
    (sess sp = [] -> processes s = [] /\ tc s = 0%Z /\ tr s = 0%Z).
  Proof.
    intros Hg Hs s. subst s. rewrite registry_is_run_of_events, Hg.
    destruct (threads_connected_eq _ _ Hs) as [Htc Htc2]. destruct (threads_running_eq _ _ Hs) as [Htr _].
    split; [exact Htc|]. split; [exact Htr|]. intros He. rewrite He in *. cbn in Htc, Htc2, Htr.
    split; [|split; assumption].
    assert (length (processes (run init (events l))) = 0%nat) as Hl by lia.
    destruct (processes (run init (events l))); [reflexivity|discriminate].
  Qed.
End ReadOnly.

(* ---------- the canonical (sequential) schedule of the registry events of n sessions, used by the
   correspondence: session c runs k queries: AddConnection, ConnectionReady, k x (BeginQuery, EndQuery,
   EndQuery), RemoveConnection; query pids are c * 1000 + j ---------- *)
Fixpoint session_queries (c : N) (k : nat) : list event :=
  match k with
  | O => []
  | S k' => session_queries c k' ++ [EBeginQ c (c * 1000 + N.of_nat k) 1; EEndQ c (c * 1000 + N.of_nat k); EEndQ c (c * 1000 + N.of_nat k)]
  end.

Definition session_events (c : N) (k : nat) : list event :=
  [EAddInc c; EAddIns c 0; EReady c 0 0 0] ++ session_queries c k ++ [ERemove c].

Fixpoint all_events (c : N) (ks : list nat) : list event :=
  match ks with [] => [] | k :: r => session_events c k ++ all_events (c + 1) r end.
