(* C45: the double-checked RLock/Lock protocol of Mapping.RedactIdent / RedactValue under EVERY interleaving.

   One call is at most two critical sections:
     phase Fresh :  RLock;  t, ok := map[orig];  RUnlock;   ok  -> return t         (read section)
                                                            !ok -> go on to phase Missed
     phase Missed:  Lock;  re-check map[orig]; if absent mint; Unlock; return        (write section)
   (RedactIdent("") returns "" before touching any lock.)  sync.RWMutex makes each section atomic with respect to
   the write sections of other goroutines, and read sections do not modify the maps, so a section is ONE step of
   the machine below (assumption: Go's RWMutex provides mutual exclusion between a writer and everybody else).
   Between the two sections of a call any other goroutine may run: that is the race the re-check is there for.
   A schedule is a list of goroutine numbers; the theorems quantify over all schedules and all programs. *)
From Coq Require Import List NArith Arith Bool Lia.
Import ListNotations.
From GMS Require Import Sys.Redact Sys.RedactProofs.

Inductive phase := Fresh | Missed.
Record thread := { todo : list call; ph : phase; outs : list (call * bytes) }.

Definition start (prog : list call) : thread := {| todo := prog; ph := Fresh; outs := [] |}.

(* the write section WITHOUT the re-check (what the code would be if the second lookup were dropped) *)
Definition mint (m : mapping) (c : call) : mapping * bytes :=
  match c with
  | CIdent o => let k := S (ncount m) in
      ({| idents := idents m ++ [(o, ntok k)]; values := values m; ncount := k; vcount := vcount m |}, ntok k)
  | CValue o => let k := S (vcount m) in
      ({| idents := idents m; values := values m ++ [(o, vtok k)]; ncount := ncount m; vcount := k |}, vtok k)
  end.

Definition step_thread (recheck : bool) (m : mapping) (th : thread) : mapping * thread :=
  match todo th with
  | [] => (m, th)
  | c :: rest =>
      match ph th with
      | Fresh =>
          match tok_of m c with
          | Some t => (m, {| todo := rest; ph := Fresh; outs := outs th ++ [(c, t)] |})
          | None => (m, {| todo := c :: rest; ph := Missed; outs := outs th |})
          end
      | Missed =>
          let '(m', t) := if recheck then do_call m c else mint m c in
          (m', {| todo := rest; ph := Fresh; outs := outs th ++ [(c, t)] |})
      end
  end.

Fixpoint set_nth {A} (i : nat) (x : A) (l : list A) : list A :=
  match l, i with
  | [], _ => []
  | _ :: l', O => x :: l'
  | y :: l', S i' => y :: set_nth i' x l'
  end.

Fixpoint run_sched (recheck : bool) (m : mapping) (ths : list thread) (sched : list nat) : mapping * list thread :=
  match sched with
  | [] => (m, ths)
  | i :: sched' =>
      match nth_error ths i with
      | None => run_sched recheck m ths sched'
      | Some th => let '(m', th') := step_thread recheck m th in run_sched recheck m' (set_nth i th' ths) sched'
      end
  end.

(* ---------- proofs ---------- *)
Lemma in_set_nth {A} i (x y : A) l : In y (set_nth i x l) -> y = x \/ In y l.
Proof.
  revert i. induction l as [|z l IH]; intros [|i]; cbn; try tauto.
  - intros [<-|H]; auto.
  - intros [<-|H]; auto. destruct (IH i H); auto.
Qed.

Definition consistent (m : mapping) (ths : list thread) : Prop :=
  WFm m /\ forall th c t, In th ths -> In (c, t) (outs th) -> tok_of m c = Some t.

Lemma step_consistent m ths i th : consistent m ths -> nth_error ths i = Some th ->
  consistent (fst (step_thread true m th)) (set_nth i (snd (step_thread true m th)) ths).
Proof.
  intros [W C] Hi. assert (Hin : In th ths) by (eapply nth_error_In; exact Hi).
  unfold step_thread. destruct (todo th) as [|c rest] eqn:T; cbn.
  - split; [exact W|]. intros th' c' t' H. apply in_set_nth in H. destruct H as [->|H]; eauto.
  - destruct (ph th).
    + destruct (tok_of m c) as [t|] eqn:L; cbn.
      * split; [exact W|]. intros th' c' t' H Ho. apply in_set_nth in H. destruct H as [->|H]; [|eauto].
        cbn in Ho. apply in_app_or in Ho. destruct Ho as [Ho|[E|[]]]; [eauto|]. injection E as <- <-. exact L.
      * split; [exact W|]. intros th' c' t' H Ho. apply in_set_nth in H. destruct H as [->|H]; eauto.
    + destruct (step_stable m c) as [S1 S2]. pose proof (wf_do_call m c W) as W'.
      destruct (do_call m c) as [m' t]. cbn in *. split; [exact W'|].
      intros th' c' t' H Ho. apply in_set_nth in H. destruct H as [->|H].
      * cbn in Ho. apply in_app_or in Ho. destruct Ho as [Ho|[E|[]]]; [apply S2; eauto|]. injection E as <- <-. exact S1.
      * apply S2. eauto.
Qed.

Lemma run_consistent sched : forall m ths, consistent m ths ->
  consistent (fst (run_sched true m ths sched)) (snd (run_sched true m ths sched)).
Proof.
  induction sched as [|i sched IH]; intros m ths H; cbn; [exact H|].
  destruct (nth_error ths i) as [th|] eqn:E; [|now apply IH].
  pose proof (step_consistent m ths i th H E) as H'. destruct (step_thread true m th) as [m' th']. cbn in H'. now apply IH.
Qed.

(* For EVERY schedule and EVERY set of goroutine programs sharing one fresh Mapping: the Mapping stays well formed
   (keys distinct, placeholders n1..nK / v1..vK without gap or repetition), and over all results returned to all
   goroutines equal (namespace, lexeme) <-> equal placeholder. *)
Theorem interleavings_functional_injective progs sched :
  let r := run_sched true empty_mapping (map start progs) sched in
  WFm (fst r) /\
  forall th1 th2 c1 t1 c2 t2, In th1 (snd r) -> In th2 (snd r) -> In (c1, t1) (outs th1) -> In (c2, t2) (outs th2) ->
    (c1 = c2 <-> t1 = t2).
Proof.
  intros r. assert (C0 : consistent empty_mapping (map start progs)).
  { split; [apply wf_empty|]. intros th c t H Ho. apply in_map_iff in H. destruct H as [p [<- _]]. destruct Ho. }
  destruct (run_consistent sched _ _ C0) as [W C]. fold r in W, C. split; [exact W|].
  intros th1 th2 c1 t1 c2 t2 H1 H2 O1 O2. pose proof (C _ _ _ H1 O1) as E1. pose proof (C _ _ _ H2 O2) as E2. split.
  - intros <-. congruence.
  - intros <-. eapply tok_of_inj; eassumption.
Qed.

(* the re-check is what makes it true: without it two goroutines first-minting the same lexeme get n1 and n2 *)
Example without_recheck_refuted :
  let r := run_sched false empty_mapping (map start [[CIdent [97%N]]; [CIdent [97%N]]]) [0; 1; 0; 1] in
  map outs (snd r) = [[(CIdent [97%N], ntok 1)]; [(CIdent [97%N], ntok 2)]] /\ ncount (fst r) = 2.
Proof. vm_compute. split; reflexivity. Qed.

Example with_recheck_same_schedule :
  let r := run_sched true empty_mapping (map start [[CIdent [97%N]]; [CIdent [97%N]]]) [0; 1; 0; 1] in
  map outs (snd r) = [[(CIdent [97%N], ntok 1)]; [(CIdent [97%N], ntok 1)]] /\ ncount (fst r) = 1.
Proof. vm_compute. split; reflexivity. Qed.
