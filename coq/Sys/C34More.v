(* C34 -- further built-in functions: TRIM/LTRIM/RTRIM, REPLACE, UPPER/LOWER, BIN/OCT/HEX of numbers, ABS/SIGN/MOD,
   ASCII/ORD/CHAR, SUBSTRING_INDEX, STRCMP, FIELD/ELT, CONCAT_WS, and the COMPRESS framing over a zlib oracle.
   Mirrors sql/expression/function: trim_ltrim_rtrim.go, reverse_repeat_replace.go (Replace), lower_upper.go,
   string.go (Bin, Hex of integers, Ascii, Ord), oct.go, absval.go, math.go/arithmetic (SIGN, MOD), char.go,
   substring.go (SubstringIndex), strcmp.go, field.go, elt.go, concat_ws.go, hash.go (Compress/Uncompress). *)
From Coq Require Import List NArith ZArith Bool Lia.
Import ListNotations.
From GMS Require Import Sys.C34Funcs.
Open Scope Z_scope.

Definition bytes_eq (a b : list N) : bool :=
  (fix go (a b : list N) := match a, b with
                            | [], [] => true
                            | x :: a', y :: b' => (x =? y)%N && go a' b'
                            | _, _ => false
                            end) a b.

(* ---------- TRIM ([LEADING | TRAILING | BOTH] pat FROM s), bytes ---------- *)
Fixpoint strip_lead (fuel : nat) (pat s : list N) : list N :=
  match fuel with
  | O => s
  | S k => if is_prefix N.eqb pat s then strip_lead k pat (drop (len pat) s) else s
  end.
(* dir: 0 both, 1 leading, 2 trailing *)
Definition trim_core (dir : Z) (pat s : list N) : list N :=
  match pat with
  | [] => s
  | _ =>
      let s1 := if (dir =? 0) || (dir =? 1) then strip_lead (length s) pat s else s in
      if (dir =? 0) || (dir =? 2) then rev (strip_lead (length s1) (rev pat) (rev s1)) else s1
  end.
Definition trim (dir : Z) (pat s : option (list N)) : out (list N) :=
  match pat, s with Some p, Some t => Val (trim_core dir (utf8 p) (utf8 t)) | _, _ => Null end.

(* LTRIM / RTRIM: strings.TrimLeftFunc / TrimRightFunc with r == ' ' *)
Fixpoint ltrim_sp (s : list N) : list N :=
  match s with c :: r => if (c =? 32)%N then ltrim_sp r else s | [] => [] end.
Fixpoint rtrim_sp (s : list N) : list N :=
  match s with
  | [] => []
  | c :: r => let t := rtrim_sp r in
              if (c =? 32)%N && (match t with [] => true | _ => false end) then [] else c :: t
  end.
Definition ltrim_fn (s : option (list N)) : out (list N) := match s with Some t => Val (ltrim_sp (utf8 t)) | None => Null end.
Definition rtrim_fn (s : option (list N)) : out (list N) := match s with Some t => Val (rtrim_sp (utf8 t)) | None => Null end.

(* ---------- REPLACE (strings.Replace(s, from, to, -1); an empty from leaves s unchanged) ---------- *)
Fixpoint replace_fuel (fuel : nat) (old new s : list N) : list N :=
  match fuel with
  | O => s
  | S k =>
      if is_prefix N.eqb old s then new ++ replace_fuel k old new (drop (len old) s)
      else match s with [] => [] | c :: r => c :: replace_fuel k old new r end
  end.
Fixpoint count_fuel (fuel : nat) (old s : list N) : Z :=
  match fuel with
  | O => 0
  | S k =>
      if is_prefix N.eqb old s then 1 + count_fuel k old (drop (len old) s)
      else match s with [] => 0 | _ :: r => count_fuel k old r end
  end.
Definition replace_core (s old new : list N) : list N :=
  match old with [] => s | _ => replace_fuel (S (length s)) old new s end.
Definition replace (s old new : option (list N)) : out (list N) :=
  match s, old, new with
  | Some s, Some o, Some n => Val (replace_core (utf8 s) (utf8 o) (utf8 n))
  | _, _, _ => Null
  end.

(* ---------- UPPER / LOWER on the code points the drivers use (ASCII and Latin-1 letters) ---------- *)
Definition lower2 (c : N) : N := (if c =? 376 then 255 else lower_cp c)%N.
Definition upper2 (c : N) : N :=
  (if (97 <=? c) && (c <=? 122) then c - 32
   else if (224 <=? c) && (c <=? 254) && negb (c =? 247) then c - 32
   else if c =? 255 then 376 else c)%N.
Definition lower_fn (s : option (list N)) : out (list N) := match s with Some t => Val (map lower2 t) | None => Null end.
Definition upper_fn (s : option (list N)) : out (list N) := match s with Some t => Val (map upper2 t) | None => Null end.

(* ---------- BIN / OCT / HEX of integers ---------- *)
(* binForNegativeInt64 prints the eight bytes of the two's complement one by one WITHOUT zero padding *)
Definition byte_of (u : Z) (i : Z) : Z := (u / 2 ^ (8 * i)) mod 256.
Definition bin_num (n : Z) : list N :=
  if n <? 0 then
    let u := n + 2 ^ 64 in
    flat_map (fun i => fmt_uint 2 (byte_of u i)) [7; 6; 5; 4; 3; 2; 1; 0]
  else fmt_uint 2 n.
Definition hex_num (n : Z) : list N := if n <? 0 then fmt_uint 16 (n + 2 ^ 64) else fmt_uint 16 n.
(* OCT(n) = CONV(n, 10, 8) on the decimal text of n *)
Definition oct_num (n : Z) : out (list N) := conv (Some (fmt_int 10 n)) (Some 10) (Some 8).

(* ---------- ABS / SIGN / MOD ---------- *)
Definition abs_int (n : Z) : Z := wrap64 (Z.abs n).           (* ABS(-2^63) wraps back to -2^63 *)
Definition sign_num (m : Z) : Z := Z.sgn m.
(* Sign.Eval converts a DECIMAL to BIGINT first (rounding half away from zero), so |x| < 0.5 has sign 0 *)
Definition sign_dec (m s : Z) : Z := Z.sgn (div_half_away m (10 ^ s)).
Definition mod_int (a b : Z) : option Z := if b =? 0 then None else Some (Z.rem a b).

(* ---------- ASCII / ORD / CHAR ---------- *)
Definition ascii_fn (s : list N) : Z := match utf8 s with [] => 0 | b :: _ => Z.of_N b end.
Definition be_num (bs : list N) : Z := fold_left (fun a b => a * 256 + Z.of_N b) bs 0.
Definition ord_fn (s : list N) : Z := match s with [] => 0 | c :: _ => be_num (utf8_1 c) end.
(* encodeUint32: big endian without leading zero bytes (at least one byte) *)
Definition encode_u32 (u : Z) : list N :=
  let bs := [Z.to_N (byte_of u 3); Z.to_N (byte_of u 2); Z.to_N (byte_of u 1); Z.to_N (byte_of u 0)] in
  if 16777216 <=? u then bs else if 65536 <=? u then skipn 1 bs else if 256 <=? u then skipn 2 bs else skipn 3 bs.
Definition u32_of (n : Z) : Z := if n <? 0 then n mod 2 ^ 32 else if 2 ^ 32 - 1 <? n then 2 ^ 32 - 1 else n.
Definition char_fn (args : list (option Z)) : list N :=
  flat_map (fun a => match a with Some n => encode_u32 (u32_of n) | None => [] end) args.

(* ---------- SUBSTRING_INDEX (strings.Split / Join), non-empty delimiter ---------- *)
Fixpoint split_fuel (fuel : nat) (d s cur : list N) : list (list N) :=
  match fuel with
  | O => [rev cur ++ s]
  | S k =>
      if is_prefix N.eqb d s then rev cur :: split_fuel k d (drop (len d) s) []
      else match s with [] => [rev cur] | c :: r => split_fuel k d r (c :: cur) end
  end.
Definition split (d s : list N) : list (list N) := split_fuel (S (length s)) d s [].
Fixpoint join (d : list N) (parts : list (list N)) : list N :=
  match parts with [] => [] | [p] => p | p :: r => p ++ d ++ join d r end.
Definition substring_index_core (s d : list N) (count : Z) : list N :=
  let parts := split d s in
  let n := len parts in
  if 0 <? count then join d (take (if count <? n then count else n) parts)
  else
    let c := wrap64 (- count) in
    if c <? 0 then [] else join d (drop (if c <? n then n - c else 0) parts).

(* ---------- STRCMP (binary collation: byte order) ---------- *)
Fixpoint strcmp_core (a b : list N) : Z :=
  match a, b with
  | [], [] => 0
  | [], _ :: _ => -1
  | _ :: _, [] => 1
  | x :: a', y :: b' => if (x <? y)%N then -1 else if (y <? x)%N then 1 else strcmp_core a' b'
  end.

(* ---------- FIELD (strings.EqualFold) / ELT ---------- *)
Definition fold_eq (a b : list N) : bool := bytes_eq (map lower2 a) (map lower2 b).
Fixpoint field_from (key : list N) (vals : list (option (list N))) (i : Z) : Z :=
  match vals with
  | [] => 0
  | None :: r => field_from key r (i + 1)
  | Some v :: r => if fold_eq key v then i else field_from key r (i + 1)
  end.
Definition field_fn (key : option (list N)) (vals : list (option (list N))) : Z :=
  match key with None => 0 | Some k => field_from k vals 1 end.
Definition elt_fn (n : option Z) (vals : list (option (list N))) : option (list N) :=
  match n with
  | None => None
  | Some i => if (i <=? 0) || (len vals <? i) then None else nth (Z.to_nat (i - 1)) vals None
  end.

(* ---------- CONCAT_WS ---------- *)
Fixpoint somes {A} (l : list (option A)) : list A :=
  match l with [] => [] | Some x :: r => x :: somes r | None :: r => somes r end.
Definition concat_ws (sep : option (list N)) (args : list (option (list N))) : out (list N) :=
  match sep with None => Null | Some d => Val (join d (somes args)) end.

(* ---------- COMPRESS / UNCOMPRESS over a zlib oracle ---------- *)
Section Compress.
  (* zlib.NewWriterLevel(BestCompression) + Write + Close, and the FIRST Read of zlib.NewReader into a buffer of the
     given size: the bytes delivered and whether the reader reported io.EOF with them *)
  Variable deflate : list N -> list N.
  Variable read1 : list N -> Z -> list N * bool.
  (* the oracle law, as far as Go's reader honours it: a payload below the 32 KiB window arrives complete, with EOF,
     in the first Read (Uncompress.Eval calls Read exactly once) *)
  Hypothesis read1_deflate : forall b, 0 < len b < 32768 -> read1 (deflate b) (len b) = (b, true).

  Definition le32 (n : Z) : list N :=
    [Z.to_N (byte_of n 0); Z.to_N (byte_of n 1); Z.to_N (byte_of n 2); Z.to_N (byte_of n 3)].
  Definition le32_val (bs : list N) : Z :=
    match bs with [a; b; c; d] => Z.of_N a + 256 * (Z.of_N b + 256 * (Z.of_N c + 256 * Z.of_N d)) | _ => 0 end.

  (* Compress.Eval: the empty string stays empty, otherwise a 4-byte little-endian length and the zlib stream *)
  Definition compress (b : list N) : list N := match b with [] => [] | _ => le32 (len b) ++ deflate b end.
  (* Uncompress.Eval: empty stays empty; at most 4 bytes give NULL; one Read into a buffer of the announced length;
     without io.EOF ("not enough room in output buffer") the result is NULL *)
  Definition uncompress (c : list N) : option (list N) :=
    match c with
    | [] => Some []
    | _ => if len c <=? 4 then None
           else let '(p, eof) := read1 (drop 4 c) (le32_val (take 4 c)) in if eof then Some p else None
    end.
  Definition uncompressed_length (c : list N) : option Z :=
    match c with [] => Some 0 | _ => if len c <=? 4 then None else Some (le32_val (take 4 c)) end.
End Compress.
