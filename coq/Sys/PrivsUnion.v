(* C39: UnionWith at the level of facts, well-formedness (unique map keys) as an invariant of every history, and
   allow/deny for accounts WITH roles. *)
From Coq Require Import List NArith Bool Lia.
Import ListNotations.
From GMS Require Import Sys.Privs Sys.PrivsProofs.
Open Scope N_scope.

(* ---- unique keys ---- *)
Fixpoint ukeys {V} (m : list (str * V)) : bool :=
  match m with
  | [] => true
  | (k, _) :: m' => negb (existsb (fun kv => seqb k (fst kv)) m') && ukeys m'
  end.

Section Keys.
  Context {V : Type}.
  Implicit Types m : list (str * V).

  Lemma aget_none_of_no_key m k : existsb (fun kv => seqb k (fst kv)) m = false -> aget k m = None.
  Proof.
    induction m as [|[k0 v0] m IH]; cbn; [reflexivity|]. intros E. apply orb_false_iff in E. destruct E as [E1 E2].
    rewrite E1. apply IH. exact E2.
  Qed.

  Lemma no_key_aput m k k' v : seqb k k' = false ->
    existsb (fun kv => seqb k (fst kv)) (aput k' v m) = existsb (fun kv => seqb k (fst kv)) m.
  Proof.
    intros Hn. induction m as [|[k0 v0] m IH]; cbn.
    - rewrite Hn. reflexivity.
    - destruct (seqb k' k0) eqn:E; cbn.
      + apply seqb_eq in E. subst k0. reflexivity.
      + rewrite IH. reflexivity.
  Qed.

  Lemma ukeys_aput m k v : ukeys m = true -> ukeys (aput k v m) = true.
  Proof.
    induction m as [|[k0 v0] m IH]; cbn; [reflexivity|]. intros E. apply andb_prop in E. destruct E as [E1 E2].
    destruct (seqb k k0) eqn:E; cbn.
    - apply seqb_eq in E. subst k0. rewrite E1, E2. reflexivity.
    - rewrite IH by exact E2. rewrite no_key_aput by (rewrite seqb_sym; exact E). rewrite E1. reflexivity.
  Qed.

  Lemma no_key_adel m k k' :
    existsb (fun kv => seqb k (fst kv)) m = false -> existsb (fun kv => seqb k (fst kv)) (adel k' m) = false.
  Proof.
    induction m as [|[k0 v0] m IH]; cbn; [reflexivity|]. intros E. apply orb_false_iff in E. destruct E as [E1 E2].
    destruct (seqb k' k0); cbn; [apply IH; exact E2|]. rewrite E1. apply IH. exact E2.
  Qed.

  Lemma ukeys_adel m k : ukeys m = true -> ukeys (adel k m) = true.
  Proof.
    induction m as [|[k0 v0] m IH]; cbn; [reflexivity|]. intros E. apply andb_prop in E. destruct E as [E1 E2].
    destruct (seqb k k0); cbn; [apply IH; exact E2|].
    rewrite IH by exact E2. apply negb_true_iff in E1. rewrite (no_key_adel _ _ _ E1). reflexivity.
  Qed.

  (* a property of all values of a map *)
  Definition allv (P : V -> bool) m : bool := forallb (fun kv => P (snd kv)) m.

  Lemma allv_aget P m k v : allv P m = true -> aget k m = Some v -> P v = true.
  Proof.
    induction m as [|[k0 v0] m IH]; cbn; [discriminate|]. intros E G. apply andb_prop in E. destruct E as [E1 E2].
    destruct (seqb k k0); [injection G as <-; exact E1|]. apply IH; assumption.
  Qed.

  Lemma allv_aput P m k v : allv P m = true -> P v = true -> allv P (aput k v m) = true.
  Proof.
    induction m as [|[k0 v0] m IH]; cbn; intros E Hv.
    - rewrite Hv. reflexivity.
    - apply andb_prop in E. destruct E as [E1 E2]. destruct (seqb k k0); cbn.
      + rewrite Hv, E2. reflexivity.
      + rewrite E1. apply IH; assumption.
  Qed.

  Lemma allv_adel P m k : allv P m = true -> allv P (adel k m) = true.
  Proof.
    induction m as [|[k0 v0] m IH]; cbn; [reflexivity|]. intros E. apply andb_prop in E. destruct E as [E1 E2].
    destruct (seqb k k0); cbn; [apply IH; exact E2|]. rewrite E1. apply IH. exact E2.
  Qed.
End Keys.

(* ---- merging one map into another (UnionWith / unionWith) ---- *)
Section Merge.
  Context {V : Type}.
  Variable dflt : V.
  Variable mg : V -> V -> V.
  Definition getd (k : str) (m : list (str * V)) : V := match aget k m with Some v => v | None => dflt end.
  Definition mstep (acc : list (str * V)) (kv : str * V) := aput (fst kv) (mg (getd (fst kv) acc) (snd kv)) acc.

  Lemma merge_get l : forall acc k, ukeys l = true ->
    aget k (fold_left mstep l acc) =
      match aget k l with Some v => Some (mg (getd k acc) v) | None => aget k acc end.
  Proof.
    induction l as [|[k0 v0] l IH]; intros acc k Hu; [reflexivity|].
    cbn [ukeys] in Hu. apply andb_prop in Hu. destruct Hu as [Hn Hu]. apply negb_true_iff in Hn.
    cbn [fold_left aget]. rewrite IH by exact Hu. unfold mstep at 1 2. cbn [fst snd].
    destruct (seqb k k0) eqn:E.
    - apply seqb_eq in E. subst k0. rewrite (aget_none_of_no_key _ _ Hn). rewrite aget_aput, seqb_refl. reflexivity.
    - unfold getd. rewrite aget_aput, E. reflexivity.
  Qed.

  Lemma merge_ukeys l : forall acc, ukeys acc = true -> ukeys (fold_left mstep l acc) = true.
  Proof.
    induction l as [|kv l IH]; intros acc Hu; [exact Hu|]. cbn [fold_left]. apply IH. apply ukeys_aput. exact Hu.
  Qed.
End Merge.

(* ---- well-formed privilege sets ---- *)
Definition wf_d (ds : dset) : bool := ukeys (d_tbls ds).
Definition wf_ps (ps : privset) : bool := ukeys (dbs ps) && allv wf_d (dbs ps).

Lemma wf_db_of ps d : wf_ps ps = true -> wf_d (db_of ps d) = true.
Proof.
  intros W. unfold db_of. destruct (aget d (dbs ps)) as [ds|] eqn:A; [|reflexivity].
  apply andb_prop in W. destruct W as [_ W]. exact (allv_aget _ _ _ _ W A).
Qed.

Lemma wf_put ps g d ds : wf_ps ps = true -> wf_d ds = true -> wf_ps (mkP g (aput d ds (dbs ps))) = true.
Proof.
  intros W Wd. apply andb_prop in W. destruct W as [W1 W2]. unfold wf_ps. cbn [dbs].
  rewrite ukeys_aput by exact W1. apply allv_aput; assumption.
Qed.

Lemma wf_del ps g d : wf_ps ps = true -> wf_ps (mkP g (adel d (dbs ps))) = true.
Proof.
  intros W. apply andb_prop in W. destruct W as [W1 W2]. unfold wf_ps. cbn [dbs].
  rewrite ukeys_adel by exact W1. apply allv_adel. exact W2.
Qed.

Lemma wf_add_at l p ps : wf_ps ps = true -> wf_ps (add_at l p ps) = true.
Proof.
  intros W. destruct l as [|d|d t]; cbn [add_at].
  - exact W.
  - unfold add_db. apply wf_put; [exact W|]. exact (wf_db_of ps d W).
  - unfold add_tbl. apply wf_put; [exact W|]. unfold wf_d. cbn [d_tbls]. apply ukeys_aput. exact (wf_db_of ps d W).
Qed.

Lemma wf_rem_at l p ps : wf_ps ps = true -> wf_ps (rem_at l p ps) = true.
Proof.
  intros W. destruct l as [|d|d t]; cbn [rem_at].
  - exact W.
  - unfold rem_db. destruct (aget d (dbs ps)) as [ds|] eqn:A; [|exact W].
    destruct (pempty _); [apply wf_del; exact W|]. apply wf_put; [exact W|].
    apply andb_prop in W. destruct W as [_ W]. exact (allv_aget _ _ _ _ W A).
  - unfold rem_tbl. destruct (aget d (dbs ps)) as [ds|] eqn:A; [|exact W].
    destruct (aget t (d_tbls ds)); [|exact W]. apply wf_put; [exact W|].
    unfold wf_d. cbn [d_tbls]. apply ukeys_aput.
    apply andb_prop in W. destruct W as [_ W]. exact (allv_aget _ _ _ _ W A).
Qed.

Lemma wf_clear_at l ps : wf_ps ps = true -> wf_ps (clear_at l ps) = true.
Proof.
  intros W. destruct l as [|d|d t]; cbn [clear_at].
  - exact W.
  - apply wf_del. exact W.
  - unfold clear_tbl. apply wf_put; [exact W|]. unfold wf_d. cbn [d_tbls]. apply ukeys_aput. exact (wf_db_of ps d W).
Qed.

Lemma wf_fold (f : N -> privset -> privset) qs :
  (forall p ps, wf_ps ps = true -> wf_ps (f p ps) = true) ->
  forall ps, wf_ps ps = true -> wf_ps (fold_left (fun acc p => f p acc) qs ps) = true.
Proof. intros Hf. induction qs as [|q qs IH]; intros ps W; [exact W|]. cbn [fold_left]. apply IH, Hf, W. Qed.

(* ---- UnionWith reads as the union of the facts ---- *)
Lemma union_tbls_get a b t : ukeys b = true ->
  match aget t (union_tbls a b) with Some s => s | None => [] end =
    match aget t b with Some s => punion (match aget t a with Some x => x | None => [] end) s
                      | None => match aget t a with Some x => x | None => [] end end.
Proof.
  intros Hu. unfold union_tbls.
  pose proof (merge_get ([] : pset) punion b a t Hu) as M. unfold mstep, getd in M. rewrite M.
  destruct (aget t b); reflexivity.
Qed.

Lemma union_dbs_get a b d : ukeys (dbs b) = true ->
  db_of (union_with a b) d =
    match aget d (dbs b) with Some v => union_d (db_of a d) v | None => db_of a d end.
Proof.
  intros Hu. unfold union_with, db_of at 1. cbn [dbs].
  pose proof (merge_get empty_d union_d (dbs b) (dbs a) d Hu) as M. unfold mstep, getd in M. rewrite M.
  unfold db_of. destruct (aget d (dbs b)); reflexivity.
Qed.

Theorem union_with_facts a b f : wf_ps b = true -> holds (union_with a b) f = holds a f || holds b f.
Proof.
  intros W. apply andb_prop in W. destruct W as [W1 W2].
  destruct f as [p|d p|d t p]; cbn [holds]; unfold has_g, has_d, has_t.
  - cbn. apply pmem_punion.
  - rewrite union_dbs_get by exact W1.
    replace (db_of b d) with (match aget d (dbs b) with Some v => v | None => empty_d end) by reflexivity.
    destruct (aget d (dbs b)) as [v|].
    + cbn [union_d d_privs]. apply pmem_punion.
    + cbn. rewrite orb_false_r. reflexivity.
  - rewrite union_dbs_get by exact W1.
    replace (db_of b d) with (match aget d (dbs b) with Some v => v | None => empty_d end) by reflexivity.
    destruct (aget d (dbs b)) as [v|] eqn:A.
    + assert (Wv : ukeys (d_tbls v) = true) by exact (allv_aget _ _ _ _ W2 A).
      unfold tbl_of at 1. cbn [union_d d_tbls]. rewrite (union_tbls_get _ _ t Wv).
      unfold tbl_of. destruct (aget t (d_tbls v)) as [s|].
      * apply pmem_punion.
      * cbn. rewrite orb_false_r. reflexivity.
    + cbn. rewrite orb_false_r. reflexivity.
Qed.

(* ---- well-formedness is an invariant of every history ---- *)
Definition state_wf (s : state) : Prop := forall u ps, aget u (users s) = Some ps -> wf_ps ps = true.

Lemma state_wf_upd s u f :
  state_wf s -> (forall ps, wf_ps ps = true -> wf_ps (f ps) = true) -> state_wf (upd_user s u f).
Proof.
  intros W Hf v ps. unfold upd_user. destruct (aget u (users s)) as [pu|] eqn:A; [|apply W].
  cbn [users]. rewrite aget_aput. destruct (seqb v u) eqn:E.
  - intros G. injection G as <-. apply Hf. exact (W u pu A).
  - apply W.
Qed.

Lemma exec_wf s st : state_wf s -> state_wf (exec s st).
Proof.
  intros W. destruct st as [u|u|u l qs|u l qs|u l|u l|r u|r u]; cbn [exec].
  - destruct (has_user s u); [exact W|]. intros v ps. cbn [users]. rewrite aget_aput.
    destruct (seqb v u); [intros G; injection G as <-; reflexivity|apply W].
  - destruct (has_user s u); [|exact W]. intros v ps. cbn [users]. rewrite aget_adel.
    destruct (seqb v u); [discriminate|apply W].
  - apply state_wf_upd; [exact W|]. intros ps. apply (wf_fold (add_at l)). intros p x. apply wf_add_at.
  - apply state_wf_upd; [exact W|]. intros ps. apply (wf_fold (rem_at l)). intros p x. apply wf_rem_at.
  - apply state_wf_upd; [exact W|]. intros ps. apply (wf_fold (add_at l)). intros p x. apply wf_add_at.
  - apply state_wf_upd; [exact W|]. intros ps. apply wf_clear_at.
  - destruct (has_user s u && has_user s r); exact W.
  - destruct (has_user s u && has_user s r); exact W.
Qed.

Theorem run_wf h : forall s, state_wf s -> state_wf (run s h).
Proof. induction h as [|st h IH]; intros s W; [exact W|]. apply IH, exec_wf, W. Qed.

Lemma init_wf : state_wf init.
Proof. intros u ps. cbn. discriminate. Qed.

(* ---- the active set of an account with roles ---- *)
Definition role_gives (s : state) (u : str) (f : fact) : bool :=
  existsb (fun e => seqb (snd e) u && match aget (fst e) (users s) with Some rps => holds rps f | None => false end) (edges s).

Lemma active_fold_facts s u f : state_wf s -> forall es acc,
  holds (fold_left (fun acc e => if seqb (snd e) u
                                 then match aget (fst e) (users s) with Some rps => union_with acc rps | None => acc end
                                 else acc) es acc) f =
  holds acc f ||
  existsb (fun e => seqb (snd e) u && match aget (fst e) (users s) with Some rps => holds rps f | None => false end) es.
Proof.
  intros W. induction es as [|e es IH]; intros acc; cbn [fold_left existsb]; [rewrite orb_false_r; reflexivity|].
  rewrite IH. destruct (seqb (snd e) u); cbn [andb orb]; [|reflexivity].
  destruct (aget (fst e) (users s)) as [rps|] eqn:A; [|reflexivity].
  rewrite union_with_facts by exact (W _ _ A). rewrite orb_assoc. reflexivity.
Qed.

Theorem active_facts s u f :
  state_wf s -> holds (active s u) f = has_user s u && (holds (privs_of s u) f || role_gives s u f).
Proof.
  intros W. unfold active, privs_of, has_user, role_gives. destruct (aget u (users s)) as [ps|]; cbn [andb].
  - apply active_fold_facts. exact W.
  - destruct f; reflexivity.
Qed.

(* allow / deny for every account, with or without roles, in every well-formed state (hence after every history):
   exactly coverage by the facts of its own set and of the sets of the roles granted to it *)
Theorem allowed_iff s u ops :
  state_wf s ->
  (allowed s u ops = true <->
   has_user s u = true /\
   ((holds (privs_of s u) (FG SUPER) || role_gives s u (FG SUPER)) = true \/
    forall o, In o ops -> exists f, (holds (privs_of s u) f || role_gives s u f) = true /\ covers f o = true)).
Proof.
  intros W. unfold allowed. rewrite andb_true_iff, set_has_iff. split; intros [Hu Hc]; (split; [exact Hu|]).
  - destruct Hc as [Hc|Hc].
    + left. rewrite active_facts, Hu in Hc by exact W. exact Hc.
    + right. intros o Ho. destruct (Hc o Ho) as [f [Hf Hv]]. exists f. split; [|exact Hv].
      rewrite active_facts, Hu in Hf by exact W. exact Hf.
  - destruct Hc as [Hc|Hc].
    + left. rewrite active_facts, Hu by exact W. exact Hc.
    + right. intros o Ho. destruct (Hc o Ho) as [f [Hf Hv]]. exists f. split; [|exact Hv].
      rewrite active_facts, Hu by exact W. exact Hf.
Qed.

Corollary allowed_iff_after_history h u ops :
  let s := run init h in
  allowed s u ops = true <->
   has_user s u = true /\
   ((holds (privs_of s u) (FG SUPER) || role_gives s u (FG SUPER)) = true \/
    forall o, In o ops -> exists f, (holds (privs_of s u) f || role_gives s u f) = true /\ covers f o = true).
Proof. cbv zeta. apply allowed_iff. apply run_wf. exact init_wf. Qed.
