(* C44 -- facts decided by computation on the generated registry gen/C44Vars.v, witnesses of the defects the faithful
   model has, and a non-vacuity example. *)
From Coq Require Import String Ascii ZArith NArith List Bool Lia Arith.
Import ListNotations.
From GMS Require Import Sys.C44SysVarsBase gen.C44Vars Sys.C44SysVars Sys.C44SysVarsProofs Sys.C44SysVarsStmt.
Open Scope Z_scope.

(* ---------- facts decided on the generated registry ---------- *)
Definition default_known_bad : list string := ["ft_max_word_len"%string].

Lemma defaults_valid_vars :
  forallb (fun sv => negb (checkable sv) || existsb (String.eqb (v_name sv)) default_known_bad || default_same_value sv) vars = true.
Proof. vm_compute. reflexivity. Qed.

Theorem defaults_valid : forall sv, In sv vars -> checkable sv = true -> ~ In (v_name sv) default_known_bad ->
  exists d, convert (v_type sv) (v_default sv) = Ok d /\
            gval_same_value (shown_t (v_type sv) d) (v_default sv) = true.
Proof.
  intros sv Hin Hc Hn. pose proof (proj1 (forallb_forall _ _) defaults_valid_vars sv Hin) as H.
  cbv beta in H. rewrite Hc in H. simpl negb in H. rewrite orb_false_l in H.
  destruct (existsb (String.eqb (v_name sv)) default_known_bad) eqn:E.
  - exfalso. apply Hn. apply existsb_exists in E as [k [Hk Hq]]. apply String.eqb_eq in Hq. subst. auto.
  - unfold default_same_value in H.
    destruct (convert (v_type sv) (v_default sv)) as [d| |]; try discriminate. eauto.
Qed.

Lemma defaults_refuted : exists sv, In sv vars /\ checkable sv = true /\ convert (v_type sv) (v_default sv) = Err.
Proof.
  destruct (lookup vars "ft_max_word_len") as [sv|] eqn:E; [|vm_compute in E; discriminate].
  exists sv. split.
  - unfold lookup in E. apply find_some in E. exact (proj1 E).
  - vm_compute in E. inversion E; subst. split; vm_compute; reflexivity.
Qed.

(* the Go kind of some defaults is not the kind Convert produces (int / int64 where the type stores int64 / uint64) *)
Lemma defaults_exact_type_refuted :
  exists sv d, In sv vars /\ convert (v_type sv) (v_default sv) = Ok d /\ d <> v_default sv /\
               gval_same_value d (v_default sv) = true.
Proof.
  destruct (lookup vars "validate_password.length") as [sv|] eqn:E; [|vm_compute in E; discriminate].
  exists sv, (GI KInt64 8). split.
  - unfold lookup in E. apply find_some in E. exact (proj1 E).
  - vm_compute in E. inversion E; subst. repeat split; try (vm_compute; reflexivity). discriminate.
Qed.

Definition enum_names_fixed (sv : sysvar) : bool :=
  match v_type sv with
  | TEnum vals => forallb (fun s => match convert (TEnum vals) (GS s) with Ok (GS s') => String.eqb s s' | _ => false end) vals
  | _ => true
  end.

(* every member name of a SET-typed variable converts to one bit that is shown back as that name; all members together
   are shown as the full list *)
Definition set_names_fixed (sv : sysvar) : bool :=
  match v_type sv with
  | TSet c vals =>
      forallb (fun s => match convert (TSet c vals) (GS s) with
                        | Ok d => gval_eqb (shown_t (TSet c vals) d) (GS s)
                        | _ => false end) vals
      && gval_eqb (shown_t (TSet c vals) (GI KUint64 (set_all vals))) (GS (String.concat "," vals))
  | _ => true
  end.

Lemma set_names_fixed_vars : forallb set_names_fixed vars = true.
Proof. vm_compute. reflexivity. Qed.

Theorem set_names_fixed_all : forall sv, In sv vars -> set_names_fixed sv = true.
Proof. intros sv Hin. exact (proj1 (forallb_forall _ _) set_names_fixed_vars sv Hin). Qed.

Lemma registry_wellformed_vars :
  keys_unique vars = true /\ forallb name_ok vars = true /\ forallb (fun sv => bounds_ok (v_type sv)) vars = true /\
  forallb (fun sv => enum_ok (v_type sv)) vars = true /\ forallb enum_names_fixed vars = true.
Proof.
  split; [vm_compute; reflexivity|]. split; [vm_compute; reflexivity|]. split; [vm_compute; reflexivity|].
  split; vm_compute; reflexivity.
Qed.

Theorem registry_wellformed :
  keys_unique vars = true /\
  forall sv, In sv vars -> name_ok sv = true /\ bounds_ok (v_type sv) = true /\ enum_ok (v_type sv) = true /\
                            enum_names_fixed sv = true.
Proof.
  destruct registry_wellformed_vars as [H1 [H2 [H3 [H4 H5]]]].
  split; [exact H1|]. intros sv Hin.
  split; [exact (proj1 (forallb_forall _ _) H2 sv Hin)|].
  split; [exact (proj1 (forallb_forall _ _) H3 sv Hin)|].
  split; [exact (proj1 (forallb_forall _ _) H4 sv Hin)|exact (proj1 (forallb_forall _ _) H5 sv Hin)].
Qed.

(* ---------- witnesses of the defects the faithful model has ---------- *)
Ltac with_var :=
  match goal with
  | |- context [lookup vars ?n] =>
      let E := fresh "E" in
      destruct (lookup vars n) as [sv|] eqn:E; [|vm_compute in E; discriminate]; exists sv
  end.

(* an unsigned variable accepts -1 as 2^64-1 *)
Lemma uint_negative_accepted :
  exists sv, lookup vars "group_concat_max_len" = Some sv /\
    convert (v_type sv) (GI KInt8 (-1)) = Ok (GI KUint64 18446744073709551615).
Proof. with_var. split; [reflexivity|]. vm_compute in E. inversion E; subst. vm_compute. reflexivity. Qed.

(* a signed variable accepts 2^64-1 as -1 *)
Lemma int_wraps_uint64 :
  exists sv, lookup vars "immediate_server_version" = Some sv /\
    convert (v_type sv) (GI KUint64 18446744073709551615) = Ok (GI KInt64 (-1)).
Proof. with_var. split; [reflexivity|]. vm_compute in E. inversion E; subst. vm_compute. reflexivity. Qed.

(* a decimal loses its sign on the unsigned path *)
Lemma uint_decimal_sign_dropped :
  exists sv, lookup vars "group_concat_max_len" = Some sv /\
    convert (v_type sv) (GD (-5) 1) = Ok (GI KUint64 5).
Proof. with_var. split; [reflexivity|]. vm_compute in E. inversion E; subst. vm_compute. reflexivity. Qed.

(* a fractional decimal is rounded half up on the unsigned path (a conversion to the variable's type), while the
   signed type rejects every fraction *)
Lemma uint_decimal_rounded :
  exists sv, lookup vars "group_concat_max_len" = Some sv /\
    convert (v_type sv) (GD 9 2) = Ok (GI KUint64 5).
Proof. with_var. split; [reflexivity|]. vm_compute in E. inversion E; subst. vm_compute. reflexivity. Qed.

(* SET GLOBAL of a GLOBAL-only variable is not what the bare @@x of an existing session (even the one that issued
   it) returns *)
Lemma bare_read_of_global_only_stale :
  let st := run vars (init vars) [NewSession; SetGlobal 0 "max_connections" (GI KUint8 200)] in
  (exists sv, lookup vars "max_connections" = Some sv /\ v_scope sv = ScGlobal) /\
  get_global st "max_connections" = GI KInt64 200 /\
  read_bare st 0 "max_connections" = RVal (GI KInt64 151).
Proof.
  cbv zeta. split.
  - with_var. split; [reflexivity|]. vm_compute in E. inversion E; subst. reflexivity.
  - split; vm_compute; reflexivity.
Qed.

(* non-vacuity: a two-session history in which everything the theorems talk about happens *)
Definition demo_ops : list op :=
  [NewSession; NewSession;
   SetSession 0 "wait_timeout" (GI KInt8 5);
   SetGlobal 1 "WAIT_TIMEOUT" (GI KInt8 77);
   SetSession 1 "wait_timeout" (GS "abc");
   SetUser 1 "u" (GS "x");
   NewSession].

Lemma demo :
  let st := run vars (init vars) demo_ops in
  read_bare st 0 "wait_timeout" = RVal (GI KInt64 5) /\
  read_bare st 1 "wait_timeout" = RVal (GI KInt64 28800) /\
  read_bare st 2 "wait_timeout" = RVal (GI KInt64 77) /\
  get_global st "wait_timeout" = GI KInt64 77 /\
  get_user st 1 "U" = RVal (GS "x") /\ get_user st 0 "u" = RVal GNil /\
  snd (step vars st (SetSession 1 "wait_timeout" (GS "abc"))) = Rejected /\
  snd (step vars st (SetSession 1 "version" (GS "9"))) = Rejected /\
  snd (step vars st (SetSession 1 "max_connections" (GI KInt8 9))) = Rejected /\
  snd (step vars st (SetGlobal 1 "insert_id" (GI KInt8 9))) = Rejected.
Proof. cbv zeta. repeat split; vm_compute; reflexivity. Qed.

(* ---------- whole statements over the generated registry ---------- *)
Definition x1 : xstate := fst (exec_stmt vars (xinit vars) SNew).

(* several assignments are NOT atomic when the failure is found while running: the first assignment stays *)
Lemma multi_set_not_atomic :
  let r := exec_stmt vars x1 (SSet 0 [(TgSession false "wait_timeout", SrcVal (GI KInt8 5));
                                      (TgSession false "auto_increment_increment", SrcVal (GI KInt8 0));
                                      (TgSession false "sql_log_bin", SrcVal (GI KInt8 1))]) in
  snd r = Rejected /\
  read_bare (base (fst r)) 0 "wait_timeout" = RVal (GI KInt64 5) /\
  read_bare (base (fst r)) 0 "auto_increment_increment" = RVal (GI KInt64 1) /\
  read_bare (base (fst r)) 0 "sql_log_bin" = RVal (GI KInt8 0).
Proof. cbv zeta. repeat split; vm_compute; reflexivity. Qed.

(* ... but atomic when the planbuilder finds it (an invalid string literal, an unknown name): nothing runs *)
Lemma multi_set_build_failure_atomic :
  let r := exec_stmt vars x1 (SSet 0 [(TgSession false "wait_timeout", SrcVal (GI KInt8 5));
                                      (TgSession false "wait_timeout", SrcVal (GS "abc"))]) in
  snd r = Rejected /\ read_bare (base (fst r)) 0 "wait_timeout" = RVal (GI KInt64 28800).
Proof. cbv zeta. split; vm_compute; reflexivity. Qed.

(* SET PERSIST of a read-only variable fails, yet the value has been persisted *)
Lemma persist_rejected_but_persisted :
  let r := exec_stmt vars x1 (SSet 0 [(TgPersist false "version", SrcVal (GS "y"))]) in
  snd r = Rejected /\ pers (fst r) 0 "version" = GS "y" /\ get_global (base (fst r)) "version" = GS "8.0.31".
Proof. cbv zeta. repeat split; vm_compute; reflexivity. Qed.

(* SET SESSION x = DEFAULT gives the compiled default, not the current global value *)
Lemma session_default_is_compiled_default :
  let xs := xrun vars x1 [SSet 0 [(TgGlobal "wait_timeout", SrcVal (GI KInt8 77))];
                          SSet 0 [(TgSession false "wait_timeout", SrcVal (GI KInt8 5))];
                          SSet 0 [(TgSession false "wait_timeout", SrcDefault)]] in
  read_bare (base xs) 0 "wait_timeout" = RVal (GI KInt64 28800) /\ get_global (base xs) "wait_timeout" = GI KInt64 77.
Proof. cbv zeta. split; vm_compute; reflexivity. Qed.

(* a SET-typed variable: names in any case and order, shown back in declaration order; copied to a user variable as text *)
Lemma sql_mode_roundtrip :
  let xs := xrun vars x1 [SSet 0 [(TgSession false "sql_mode", SrcVal (GS "ansi_quotes,,ANSI ,"));
                                  (TgUser "m", SrcBare "sql_mode")]] in
  shown vars "sql_mode" (match read_bare (base xs) 0 "sql_mode" with RVal v => v | _ => GNil end) = GS "ANSI_QUOTES,ANSI" /\
  get_user (base xs) 0 "m" = RVal (GS "ANSI_QUOTES,ANSI").
Proof. cbv zeta. split; vm_compute; reflexivity. Qed.
