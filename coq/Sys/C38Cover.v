(* C38 — ReleaseAll's name list covers every lock the session holds (invariant of the small-step model). *)
From Coq Require Import List NArith Bool Lia.
Import ListNotations.
From GMS Require Import Sys.Locks Sys.LocksProofs.
Open Scope N_scope.

(* n is known to session t's bookkeeping: in its lock set, or t has just won the CAS and AddLock is next *)
Definition cov (l : list N) (p : pc) (n : N) : Prop := In n l \/ exists b, p = PTAdd b n.

(* per program counter: while t is inside ReleaseAll every lock it still holds is still to be visited; once
   ReleaseAll is done (about to return its count) t holds nothing; between the releasing CAS of Unlock and
   DelLock t does not hold that name *)
Definition pcok (p : pc) (n : N) : Prop :=
  match p with
  | PRIter todo _ => In n todo
  | PRLoad m todo _ | PRCas m _ todo _ => n = m \/ In n todo
  | PRet (RCount _) => False
  | PUDel m => n <> m
  | _ => True
  end.

Definition Cover (s : cstate) : Prop :=
  forall t n id c, t <> 0 -> lk s n = Some (id, t, c) -> cov (sset s t) (pcs s t) n /\ pcok (pcs s t) n.

Lemma cover_init : Cover cinit.
Proof. intros t n id c _ H. discriminate. Qed.

Lemma in_add_name n m l : In n (add_name m l) <-> n = m \/ In n l.
Proof.
  unfold add_name. destruct (existsb (N.eqb m) l) eqn:E.
  - apply existsb_exists in E as (x & Hx & Ex). apply N.eqb_eq in Ex. subst x.
    split; [auto|]. intros [->|H]; auto.
  - cbn. split; intros [H|H]; auto.
Qed.

Lemma in_del_name n m l : In n (del_name m l) <-> n <> m /\ In n l.
Proof.
  unfold del_name. rewrite filter_In. split.
  - intros [H1 H2]. apply negb_true_iff, N.eqb_neq in H2. auto.
  - intros [H1 H2]. split; [auto|]. apply negb_true_iff, N.eqb_neq. auto.
Qed.

(* actor t0 moves without touching the pointers *)
Lemma cover_nolk s t0 l' p' :
  Cover s ->
  (forall n, (exists id c, lk s n = Some (id, t0, c)) -> cov (sset s t0) (pcs s t0) n -> pcok (pcs s t0) n ->
             cov l' p' n /\ pcok p' n) ->
  Cover (mkC (lk s) (nid s) (fupd (sset s) t0 l') (fupd (pcs s) t0 p')).
Proof.
  intros HC Hob t n id c Ht Hl. cbn in *. unfold fupd. destruct (N.eqb_spec t t0) as [->|Hne].
  - destruct (HC _ _ _ _ Ht Hl) as [H1 H2]. apply Hob; eauto.
  - apply (HC _ _ _ _ Ht Hl).
Qed.

Lemma cover_set_pc s t0 p' :
  Cover s ->
  (forall n, (exists id c, lk s n = Some (id, t0, c)) -> cov (sset s t0) (pcs s t0) n -> pcok (pcs s t0) n ->
             cov (sset s t0) p' n /\ pcok p' n) ->
  Cover (set_pc s t0 p').
Proof.
  intros HC Hob t n id c Ht Hl. cbn in *. unfold fupd. destruct (N.eqb_spec t t0) as [->|Hne].
  - destruct (HC _ _ _ _ Ht Hl) as [H1 H2]. apply Hob; eauto.
  - apply (HC _ _ _ _ Ht Hl).
Qed.

(* actor t0 installs a new cell {o, c} at name m, with o = 0 or o = t0 *)
Lemma cover_install s t0 m o c p' :
  Cover s -> o = 0 \/ o = t0 ->
  (forall n, n <> m -> (exists id c, lk s n = Some (id, t0, c)) -> cov (sset s t0) (pcs s t0) n -> pcok (pcs s t0) n ->
             cov (sset s t0) p' n /\ pcok p' n) ->
  (o = t0 -> t0 <> 0 -> cov (sset s t0) p' m /\ pcok p' m) ->
  Cover (install s m o c t0 p').
Proof.
  intros HC Ho Hob Hm t n id c0 Ht Hl. cbn in *. unfold fupd in *.
  destruct (N.eqb_spec n m) as [->|Hn].
  - injection Hl as <- <- <-. destruct Ho as [-> | ->]; [contradiction|].
    rewrite N.eqb_refl. now apply Hm.
  - destruct (N.eqb_spec t t0) as [->|Hne].
    + destruct (HC _ _ _ _ Ht Hl) as [H1 H2]. apply Hob; eauto.
    + apply (HC _ _ _ _ Ht Hl).
Qed.

Ltac covtriv :=
  intros; repeat match goal with
  | H : cov _ _ _ |- _ => destruct H as [H|[? H]]; [|try discriminate]
  | H : exists _, _ |- _ => destruct H
  end; try (split; [left; assumption|cbn; auto]).

Ltac fin Hc := destruct Hc as [Hc|[? Hc]]; [|try discriminate Hc]; try (split; [left; exact Hc|cbn in *; auto; try tauto]).

Lemma cover_step s a l s' : R s a -> Cover s -> cstep s l s' -> Cover s'.
Proof.
  intros HR HC Hstep. destruct Hstep.
  - (* c_inv *)
    apply cover_set_pc; [assumption|]. rewrite H0. intros n0 Hh Hc Hp. fin Hc.
    destruct o; cbn; auto.
  - (* c_resp *) apply cover_set_pc; [assumption|]. rewrite H. intros n0 Hh Hc Hp. fin Hc.
  - apply cover_set_pc; [assumption|]. rewrite H. intros n0 Hh Hc Hp. fin Hc.
  - apply cover_set_pc; [assumption|]. rewrite H. intros n0 Hh Hc Hp. fin Hc.
  - (* c_create_new *)
    apply cover_install; [assumption|now left| |intros; subst; contradiction].
    rewrite H. intros n0 Hn Hh Hc Hp. fin Hc.
  - apply cover_set_pc; [assumption|]. rewrite H. intros n0 Hh Hc Hp. fin Hc.
  - apply cover_set_pc; [assumption|]. rewrite H. intros n0 Hh Hc Hp. fin Hc.
  - (* c_tload_other *)
    apply cover_set_pc; [assumption|]. rewrite H. intros n0 Hh Hc Hp. fin Hc. destruct b; cbn; auto.
  - (* c_tcas_free *)
    apply cover_install; [assumption|now right| |].
    + rewrite H. intros n0 Hn Hh Hc Hp. fin Hc.
    + intros _ _. split; [right; eauto|cbn; auto].
  - (* c_tcas_own *)
    pose proof (r_thr _ _ HR t) as Ht. rewrite H in Ht. cbn in Ht.
    destruct Ht as (Ht0 & _ & _ & Ho & _ & Hfr). destruct Ho as [Ho|Ho]; [contradiction|]. subst o id'.
    destruct (Hfr _ _ _ H1 eq_refl) as [-> ->].
    destruct (HC _ _ _ _ Ht0 H1) as [Hc Hp]. rewrite H in Hc, Hp.
    apply cover_install; [assumption|now right| |].
    + rewrite H. intros n0 Hn Hh Hc0 Hp0. fin Hc0. destruct b; cbn; auto.
    + intros _ _. fin Hc. destruct b; cbn; auto.
  - apply cover_set_pc; [assumption|]. rewrite H. intros n0 Hh Hc Hp. fin Hc.
  - (* c_tadd *)
    apply cover_nolk; [assumption|]. rewrite H. intros n0 Hh Hc Hp.
    split; [|destruct b; cbn; auto]. left. apply in_add_name.
    destruct Hc as [Hc|[b0 Hc]]; [auto|]. injection Hc as _ <-. auto.
  - apply cover_set_pc; [assumption|]. rewrite H. intros n0 Hh Hc Hp. fin Hc.
  - apply cover_set_pc; [assumption|]. rewrite H. intros n0 Hh Hc Hp. fin Hc.
  - apply cover_set_pc; [assumption|]. rewrite H. intros n0 Hh Hc Hp. fin Hc.
  - apply cover_set_pc; [assumption|]. rewrite H. intros n0 Hh Hc Hp. fin Hc.
  - apply cover_set_pc; [assumption|]. rewrite H. intros n0 Hh Hc Hp. fin Hc.
  - apply cover_set_pc; [assumption|]. rewrite H. intros n0 Hh Hc Hp. fin Hc.
  - (* c_ucas_dec *)
    pose proof (r_thr _ _ HR t) as Ht. rewrite H in Ht. cbn in Ht.
    destruct Ht as (Ht0 & _ & _ & _ & Hfr). subst id'.
    destruct (Hfr _ _ _ H1 eq_refl) as [-> ->].
    destruct (HC _ _ _ _ Ht0 H1) as [Hc Hp]. rewrite H in Hc, Hp.
    apply cover_install; [assumption|now right| |].
    + rewrite H. intros n0 Hn Hh Hc0 Hp0. fin Hc0.
    + intros _ _. fin Hc.
  - (* c_ucas_free *)
    apply cover_install; [assumption|now left| |intros; subst; contradiction].
    rewrite H. intros n0 Hn Hh Hc Hp. fin Hc.
  - apply cover_set_pc; [assumption|]. rewrite H. intros n0 Hh Hc Hp. fin Hc.
  - (* c_udel *)
    apply cover_nolk; [assumption|]. rewrite H. intros n0 Hh Hc Hp. cbn in Hp.
    split; [|cbn; auto]. left. apply in_del_name. split; [exact Hp|].
    destruct Hc as [Hc|[b0 Hc]]; [exact Hc|discriminate].
  - (* c_riter_done *)
    apply cover_set_pc; [assumption|]. rewrite H. intros n0 Hh Hc Hp. cbn in Hp. contradiction.
  - (* c_riter_none *)
    apply cover_set_pc; [assumption|]. rewrite H. intros n0 Hh Hc Hp. fin Hc.
    destruct Hp as [<-|Hp]; [|exact Hp]. destruct Hh as (? & ? & Hh). congruence.
  - apply cover_set_pc; [assumption|]. rewrite H. intros n0 Hh Hc Hp. fin Hc.
    destruct Hp; auto.
  - (* c_rload_other *)
    apply cover_set_pc; [assumption|]. rewrite H. intros n0 Hh Hc Hp. fin Hc.
    destruct Hp as [->|Hp]; [|exact Hp]. destruct Hh as (? & ? & Hh). congruence.
  - apply cover_set_pc; [assumption|]. rewrite H. intros n0 Hh Hc Hp. fin Hc.
  - (* c_rcas_ok *)
    apply cover_install; [assumption|now left| |intros; subst; contradiction].
    rewrite H. intros n0 Hn Hh Hc Hp. fin Hc.
  - apply cover_set_pc; [assumption|]. rewrite H. intros n0 Hh Hc Hp. fin Hc.
  - apply cover_set_pc; [assumption|]. rewrite H. intros n0 Hh Hc Hp. fin Hc.
  - apply cover_set_pc; [assumption|]. rewrite H. intros n0 Hh Hc Hp. fin Hc.
  - apply cover_set_pc; [assumption|]. rewrite H. intros n0 Hh Hc Hp. fin Hc.
    destruct (N.eqb o 0); cbn; auto.
Qed.

Lemma cover_exec s a tr s' : R s a -> Cover s -> cexec s tr s' -> exists a', R s' a' /\ Cover s'.
Proof.
  intros HR HC He. revert a HR HC. induction He as [s|s l s1 tr s2 Hs He IH]; intros a HR HC.
  - exists a. split; assumption.
  - destruct (sim_step _ _ _ _ HR Hs) as (a1 & _ & HR1).
    apply (IH a1 HR1). exact (cover_step _ _ _ _ HR HC Hs).
Qed.

Theorem cover_reachable tr s : cexec cinit tr s -> Cover s.
Proof. intros He. destruct (cover_exec _ _ _ _ R_init cover_init He) as (a & _ & HC). exact HC. Qed.

(* when a session is idle — in particular at the moment it calls ReleaseAll, whose loop runs over exactly
   [sset s t] (start_pc) — every lock it holds is in its lock set *)
Theorem idle_session_set_covers_held_locks tr s t n id c :
  cexec cinit tr s -> t <> 0 -> pcs s t = PIdle -> lk s n = Some (id, t, c) -> In n (sset s t).
Proof.
  intros He Ht Hp Hl. destruct (cover_reachable _ _ He _ _ _ _ Ht Hl) as [[H|[b H]] _]; [exact H|].
  rewrite Hp in H. discriminate.
Qed.

(* while ReleaseAll runs, every lock the session still holds is still to be visited *)
Theorem release_all_todo_covers_held_locks tr s t todo k n id c :
  cexec cinit tr s -> t <> 0 -> pcs s t = PRIter todo k -> lk s n = Some (id, t, c) -> In n todo.
Proof.
  intros He Ht Hp Hl. destruct (cover_reachable _ _ He _ _ _ _ Ht Hl) as [_ H]. rewrite Hp in H. exact H.
Qed.

(* when ReleaseAll is about to return its count, the session holds no lock at all — under every interleaving *)
Theorem release_all_leaves_nothing_held tr s t k n id c :
  cexec cinit tr s -> t <> 0 -> pcs s t = PRet (RCount k) -> lk s n <> Some (id, t, c).
Proof.
  intros He Ht Hp Hl. destruct (cover_reachable _ _ He _ _ _ _ Ht Hl) as [_ H]. rewrite Hp in H. exact H.
Qed.
