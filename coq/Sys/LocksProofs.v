(* C38 — forward simulation from the CAS protocol of lock_subsystem.go to the atomic lock specification. *)
From Coq Require Import List NArith Bool Lia.
Import ListNotations.
From GMS Require Import Sys.Locks.
Open Scope N_scope.

Lemma fupd_same {A} (f : N -> A) k v : fupd f k v k = v.
Proof. unfold fupd. now rewrite N.eqb_refl. Qed.

Lemma fupd_other {A} (f : N -> A) k v x : x <> k -> fupd f k v x = f x.
Proof. unfold fupd. intros H. destruct (N.eqb_spec x k); [contradiction|reflexivity]. Qed.

(* abstraction of one pointer cell *)
Definition abs_cell (x : option (N * N * N)) : lstate :=
  match x with
  | None => LNone
  | Some (_, o, c) => if N.eqb o 0 then LFree else LHeld o c
  end.

(* the cell a thread loaded is still what the pointer refers to whenever the ids agree *)
Definition fresh_ok (lk : N -> option (N * N * N)) (n id o c : N) : Prop :=
  forall id' o' c', lk n = Some (id', o', c') -> id' = id -> o' = o /\ c' = c.

Definition trel (lk : N -> option (N * N * N)) (nid : N) (t : N) (p : pc) (ap : apc) : Prop :=
  match p with
  | PIdle => ap = AIdle
  | PGet b n | PCreate b n => t <> 0 /\ ap = APend (if b then OLock n else OTry n)
  | PTLoad b n => t <> 0 /\ wants_lock ap n b /\ lk n <> None
  | PTCas b n id o c =>
      t <> 0 /\ wants_lock ap n b /\ lk n <> None /\ (o = 0 \/ o = t) /\ id < nid /\ fresh_ok lk n id o c
  | PTAdd b n => ap = ADone (acquired b)
  | PTFail n => t <> 0 /\ ap = ABusy n /\ lk n <> None
  | PUGet n => t <> 0 /\ ap = APend (OUnlock n)
  | PULoad n => t <> 0 /\ ap = APend (OUnlock n) /\ lk n <> None
  | PUCas n id c => t <> 0 /\ ap = APend (OUnlock n) /\ lk n <> None /\ id < nid /\ fresh_ok lk n id t c
  | PUDel n => ap = ADone ROk
  | PRIter todo k => t <> 0 /\ ap = ARel todo k
  | PRLoad n todo k => t <> 0 /\ ap = ARel (n :: todo) k /\ lk n <> None
  | PRCas n id todo k =>
      t <> 0 /\ ap = ARel (n :: todo) k /\ lk n <> None /\ id < nid /\
      (forall id' o' c', lk n = Some (id', o', c') -> id' = id -> o' = t)
  | PSGet n => ap = APend (OState n)
  | PSLoad n => ap = APend (OState n) /\ lk n <> None
  | PRet r => ap = ADone r
  end.

Record R (s : cstate) (a : astate) : Prop := {
  r_abs : forall n, abs_cell (lk s n) = al a n;
  r_ids : forall n id o c, lk s n = Some (id, o, c) -> id < nid s;
  r_thr : forall t, trel (lk s) (nid s) t (pcs s t) (apcs a t)
}.

Lemma R_init : R cinit ainit.
Proof. split; cbn; intros; try discriminate; reflexivity. Qed.

(* other threads are not disturbed by the installation of a freshly allocated cell *)
Lemma trel_stable lk nid lk' nid' t p ap :
  (forall n, lk' n = lk n \/ exists o c, lk' n = Some (nid, o, c)) -> nid <= nid' ->
  trel lk nid t p ap -> trel lk' nid' t p ap.
Proof.
  intros Hlk Hle.
  assert (Hne : forall n, lk n <> None -> lk' n <> None).
  { intros n H. destruct (Hlk n) as [E|(o & c & E)]; rewrite E; [exact H|discriminate]. }
  assert (Hfr : forall n id o c, id < nid -> fresh_ok lk n id o c -> fresh_ok lk' n id o c).
  { intros n id o c Hid Hf id' o' c' E1 E2. destruct (Hlk n) as [E|(o0 & c0 & E)]; rewrite E in E1.
    - eapply Hf; eauto.
    - injection E1 as <- <- <-. lia. }
  destruct p; cbn; intros H; try exact H;
    repeat match goal with H : _ /\ _ |- _ => destruct H end; repeat split; auto; try lia.
  all: try (match goal with Hf : fresh_ok _ _ _ _ _, Hl : _ = Some (_, _, _) |- _ =>
                   destruct (Hfr _ _ _ _ ltac:(eassumption) Hf _ _ _ Hl ltac:(assumption)); assumption end).
  intros id' o' c' E1 E2. destruct (Hlk n) as [E|(o0 & c0 & E)]; rewrite E in E1.
  - eauto.
  - injection E1 as <- <- <-. lia.
Qed.

(* a step of thread t that leaves the pointers alone *)
Lemma R_nolk s a t p sset' a' :
  R s a -> (forall m, al a' m = al a m) -> (forall t', t' <> t -> apcs a' t' = apcs a t') ->
  trel (lk s) (nid s) t p (apcs a' t) ->
  R (mkC (lk s) (nid s) sset' (fupd (pcs s) t p)) a'.
Proof.
  intros [Ha Hi Ht] Hal Hoth Hp. split; cbn.
  - intros n. now rewrite Hal.
  - exact Hi.
  - intros t0. unfold fupd. destruct (N.eqb_spec t0 t) as [->|Hne]; [exact Hp|].
    rewrite Hoth by assumption. apply Ht.
Qed.

(* a step of thread t that installs a new cell {o, c} at name n *)
Lemma R_install s a t n o c p a' :
  R s a -> al a' n = abs_cell (Some (nid s, o, c)) -> (forall m, m <> n -> al a' m = al a m) ->
  (forall t', t' <> t -> apcs a' t' = apcs a t') ->
  trel (fupd (lk s) n (Some (nid s, o, c))) (nid s + 1) t p (apcs a' t) ->
  R (install s n o c t p) a'.
Proof.
  intros [Ha Hi Ht] Hn Hm Hoth Hp. split; cbn.
  - intros m. unfold fupd. destruct (N.eqb_spec m n) as [->|Hne]; [now rewrite Hn|].
    rewrite Hm by assumption. apply Ha.
  - intros m id o0 c0. unfold fupd. destruct (N.eqb_spec m n).
    + intros [= <- <- <-]. lia.
    + intros H. specialize (Hi _ _ _ _ H). lia.
  - intros t0. unfold fupd at 2. destruct (N.eqb_spec t0 t) as [->|Hne]; [exact Hp|].
    rewrite Hoth by assumption.
    eapply trel_stable; [| |apply Ht]; [|lia].
    intros m. unfold fupd. destruct (N.eqb_spec m n); eauto.
Qed.

Lemma aexec_tau1 a a' : astep a LTau a' -> aexec a [] a'.
Proof. intros H. change (@nil label) with (obs LTau ++ []). econstructor; [exact H|constructor]. Qed.

Lemma aexec_obs1 a l a' : astep a l a' -> aexec a (obs l) a'.
Proof. intros H. rewrite <- (app_nil_r (obs l)). econstructor; [exact H|constructor]. Qed.

Lemma aexec_app a tr1 a1 tr2 a2 : aexec a tr1 a1 -> aexec a1 tr2 a2 -> aexec a (tr1 ++ tr2) a2.
Proof.
  induction 1 as [|a l a1' tr a2' Hs He IH]; cbn; [auto|].
  intros H2. rewrite <- app_assoc. econstructor; [exact Hs|now apply IH].
Qed.

Lemma abs_cell_held id o c : o <> 0 -> abs_cell (Some (id, o, c)) = LHeld o c.
Proof. intros H. cbn. destruct (N.eqb_spec o 0); [contradiction|reflexivity]. Qed.

Lemma wants_lock_start (b : bool) (n : N) : wants_lock (APend (if b then OLock n else OTry n)) n b.
Proof. destruct b; cbn; auto. Qed.

Ltac use_thr HR H t :=
  let X := fresh "Hthr" in pose proof (r_thr _ _ HR t) as X; rewrite H in X; cbn in X.

(* side conditions about function updates *)
Ltac fu :=
  unfold set_apc, set_al, fupd; cbn; intros;
  repeat match goal with
  | |- context [N.eqb ?x ?y] => destruct (N.eqb_spec x y); subst
  end; try congruence; auto.

Ltac stutter HR :=
  eexists; split; [constructor|]; eapply R_nolk; [exact HR|reflexivity|reflexivity|].

Ltac tau_nolk HR Hstep :=
  eexists; split; [apply aexec_tau1; exact Hstep|]; eapply R_nolk; [exact HR|fu|fu|].

Lemma R_abs_some s a n id o c : R s a -> lk s n = Some (id, o, c) ->
  al a n = if N.eqb o 0 then LFree else LHeld o c.
Proof. intros HR E. rewrite <- (r_abs _ _ HR n), E. reflexivity. Qed.

Lemma R_abs_none s a n : R s a -> lk s n = None -> al a n = LNone.
Proof. intros HR E. rewrite <- (r_abs _ _ HR n), E. reflexivity. Qed.

Lemma some_not_none {A} (x : option A) y : x = Some y -> x <> None.
Proof. congruence. Qed.

Theorem sim_step s a l s' :
  R s a -> cstep s l s' -> exists a', aexec a (obs l) a' /\ R s' a'.
Proof.
  intros HR Hstep. destruct Hstep.
  - (* c_inv *)
    use_thr HR H0 t.
    assert (Hinv : astep a (LInv t o) (set_apc a t (APend o))) by now apply a_inv.
    destruct o as [n|n|n| |n]; cbn [start_pc].
    1-3, 5: (eexists; split; [apply aexec_obs1; exact Hinv|]; eapply R_nolk; [exact HR|fu|fu|fu]).
    exists (set_apc (set_apc a t (APend ORelAll)) t (ARel (sset s t) 0)). split.
    + change (obs (LInv t ORelAll)) with (obs (LInv t ORelAll) ++ []).
      econstructor; [exact Hinv|]. apply aexec_tau1. apply a_rel_start. fu.
    + eapply R_nolk; [exact HR|fu|fu|fu].
  - (* c_resp *)
    use_thr HR H t.
    eexists; split; [apply aexec_obs1; apply a_resp; exact Hthr|]. eapply R_nolk; [exact HR|fu|fu|fu].
  - (* c_get_some *)
    use_thr HR H t. destruct Hthr as [Ht0 Hap]. stutter HR. cbn. rewrite Hap.
    repeat split; auto; [apply wants_lock_start|congruence].
  - (* c_get_none *)
    use_thr HR H t. stutter HR. exact Hthr.
  - (* c_create_new *)
    use_thr HR H t. destruct Hthr as [Ht0 Hap].
    assert (Hw : wants_lock (apcs a t) n b) by (rewrite Hap; apply wants_lock_start).
    exists (set_al a n LFree t (apcs a t)). split.
    + apply aexec_tau1. eapply a_create; [exact Hw|]. eapply R_abs_none; eauto.
    + eapply R_install; [exact HR|fu|fu|fu|]. cbn. rewrite !fupd_same.
      repeat split; auto. discriminate.
  - (* c_create_old *)
    use_thr HR H t. destruct Hthr as [Ht0 Hap]. stutter HR. cbn. rewrite Hap.
    repeat split; auto; [apply wants_lock_start|congruence].
  - (* c_tload_mine *)
    use_thr HR H t. destruct Hthr as (Ht0 & Hw & Hne). stutter HR. cbn.
    repeat split; auto.
    + eapply r_ids; eauto.
    + congruence.
    + congruence.
  - (* c_tload_other *)
    use_thr HR H t. destruct Hthr as (Ht0 & Hw & Hne).
    assert (Hal : al a n = LHeld o c).
    { erewrite R_abs_some by eauto. destruct (N.eqb_spec o 0); [contradiction|reflexivity]. }
    assert (Hho : held_by_other t (al a n) = true).
    { rewrite Hal. cbn. destruct (N.eqb_spec o t); [contradiction|reflexivity]. }
    destruct b; cbn in Hw.
    + assert (Hst : astep a LTau (set_apc a t (ABusy n))) by (eapply a_lock_busy; [exact Hw|exact Hho]).
      tau_nolk HR Hst. fu; repeat split; auto.
    + assert (Hst : astep a LTau (set_apc a t (ADone (RBool false)))) by (eapply a_try_fail; eauto).
      tau_nolk HR Hst. fu.
  - (* c_tcas_free *)
    use_thr HR H t. destruct Hthr as (Ht0 & Hw & Hne & Ho & Hid & Hfr). subst id'.
    destruct (Hfr _ _ _ H0 eq_refl) as [-> ->].
    assert (Hal : al a n = LFree) by (erewrite R_abs_some by eauto; reflexivity).
    exists (set_al a n (LHeld t 1) t (ADone (acquired b))). split.
    + apply aexec_tau1. eapply a_acquire; [exact Hw|]. rewrite Hal. reflexivity.
    + eapply R_install; [exact HR| |fu|fu|fu]. rewrite abs_cell_held by assumption. fu.
  - (* c_tcas_own *)
    use_thr HR H t. destruct Hthr as (Ht0 & Hw & Hne & Ho & Hid & Hfr). subst id'.
    destruct Ho as [Ho|Ho]; [contradiction|]. subst o.
    destruct (Hfr _ _ _ H1 eq_refl) as [-> ->].
    assert (Hal : al a n = LHeld t c).
    { erewrite R_abs_some by eauto. destruct (N.eqb_spec t 0); [contradiction|reflexivity]. }
    exists (set_al a n (LHeld t (c + 1)) t (ADone (acquired b))). split.
    + apply aexec_tau1. eapply a_acquire; [exact Hw|]. rewrite Hal. cbn. now rewrite N.eqb_refl.
    + eapply R_install; [exact HR| |fu|fu|fu]. rewrite abs_cell_held by assumption. fu.
  - (* c_tcas_fail *)
    use_thr HR H t. destruct Hthr as (Ht0 & Hw & Hne & _). stutter HR. cbn. auto.
  - (* c_tadd *)
    use_thr HR H t. stutter HR. exact Hthr.
  - (* c_lock_retry *)
    use_thr HR H t. destruct Hthr as (Ht0 & Hap & Hne). stutter HR. cbn. rewrite Hap. auto.
  - (* c_lock_timeout *)
    use_thr HR H t. destruct Hthr as (Ht0 & Hap & Hne).
    assert (Hst : astep a LTau (set_apc a t (ADone RTimeout))) by (eapply a_lock_timeout; eauto).
    tau_nolk HR Hst. fu.
  - (* c_uget_none *)
    use_thr HR H t. destruct Hthr as (Ht0 & Hap).
    pose proof (a_unlock a t n Hap) as Hst. rewrite (R_abs_none _ _ _ HR H0) in Hst. cbn in Hst.
    tau_nolk HR Hst.
    + rewrite (R_abs_none _ _ _ HR H0). reflexivity.
    + fu.
  - (* c_uget_some *)
    use_thr HR H t. destruct Hthr as (Ht0 & Hap). stutter HR. cbn. repeat split; auto. congruence.
  - (* c_uload_other *)
    use_thr HR H t. destruct Hthr as (Ht0 & Hap & Hne).
    pose proof (a_unlock a t n Hap) as Hst.
    assert (Hrel : release t (al a n) = (al a n, RNotOwned)).
    { erewrite R_abs_some by eauto. destruct (N.eqb_spec o 0); [reflexivity|].
      cbn. destruct (N.eqb_spec o t); [contradiction|reflexivity]. }
    rewrite Hrel in Hst. cbn in Hst. tau_nolk HR Hst. fu.
  - (* c_uload_mine *)
    use_thr HR H t. destruct Hthr as (Ht0 & Hap & Hne). stutter HR. cbn. repeat split; auto.
    + eapply r_ids; eauto.
    + congruence.
    + congruence.
  - (* c_ucas_dec *)
    use_thr HR H t. destruct Hthr as (Ht0 & Hap & Hne & Hid & Hfr). subst id'.
    destruct (Hfr _ _ _ H1 eq_refl) as [-> ->].
    assert (Hal : al a n = LHeld t c).
    { erewrite R_abs_some by eauto. destruct (N.eqb_spec t 0); [contradiction|reflexivity]. }
    pose proof (a_unlock a t n Hap) as Hst. rewrite Hal in Hst. cbn in Hst. rewrite N.eqb_refl in Hst.
    destruct (N.ltb_spec 1 c); [|lia]. cbn in Hst.
    eexists; split; [apply aexec_tau1; exact Hst|].
    eapply R_install; [exact HR| |fu|fu|fu]. rewrite abs_cell_held by assumption. fu.
  - (* c_ucas_free *)
    use_thr HR H t. destruct Hthr as (Ht0 & Hap & Hne & Hid & Hfr). subst id'.
    destruct (Hfr _ _ _ H1 eq_refl) as [-> ->].
    assert (Hal : al a n = LHeld t c).
    { erewrite R_abs_some by eauto. destruct (N.eqb_spec t 0); [contradiction|reflexivity]. }
    pose proof (a_unlock a t n Hap) as Hst. rewrite Hal in Hst. cbn in Hst. rewrite N.eqb_refl in Hst.
    destruct (N.ltb_spec 1 c); [lia|]. cbn in Hst.
    eexists; split; [apply aexec_tau1; exact Hst|].
    eapply R_install; [exact HR|fu|fu|fu|fu].
  - (* c_ucas_fail *)
    use_thr HR H t. destruct Hthr as (Ht0 & Hap & Hne & _). stutter HR. cbn. auto.
  - (* c_udel *)
    use_thr HR H t. stutter HR. exact Hthr.
  - (* c_riter_done *)
    use_thr HR H t. destruct Hthr as (Ht0 & Hap).
    assert (Hst : astep a LTau (set_apc a t (ADone (RCount k)))) by (eapply a_rel_done; eauto).
    tau_nolk HR Hst. fu.
  - (* c_riter_none *)
    use_thr HR H t. destruct Hthr as (Ht0 & Hap).
    pose proof (a_rel1 a t n todo k Hap) as Hst. rewrite (R_abs_none _ _ _ HR H0) in Hst. cbn in Hst.
    rewrite N.add_0_r in Hst. tau_nolk HR Hst.
    + rewrite (R_abs_none _ _ _ HR H0). reflexivity.
    + fu.
  - (* c_riter_some *)
    use_thr HR H t. destruct Hthr as (Ht0 & Hap). stutter HR. cbn. repeat split; auto. congruence.
  - (* c_rload_other *)
    use_thr HR H t. destruct Hthr as (Ht0 & Hap & Hne).
    pose proof (a_rel1 a t n todo k Hap) as Hst.
    assert (Hrel : release_all1 t (al a n) = (al a n, 0)).
    { erewrite R_abs_some by eauto. destruct (N.eqb_spec o 0); [reflexivity|].
      cbn. destruct (N.eqb_spec o t); [contradiction|reflexivity]. }
    rewrite Hrel in Hst. cbn in Hst. rewrite N.add_0_r in Hst. tau_nolk HR Hst. fu.
  - (* c_rload_mine *)
    use_thr HR H t. destruct Hthr as (Ht0 & Hap & Hne). stutter HR. cbn. repeat split; auto.
    + eapply r_ids; eauto.
    + congruence.
  - (* c_rcas_ok *)
    use_thr HR H t. destruct Hthr as (Ht0 & Hap & Hne & Hid & Hown). subst id'.
    pose proof (Hown _ _ _ H0 eq_refl) as ->.
    assert (Hal : al a n = LHeld t c').
    { erewrite R_abs_some by eauto. destruct (N.eqb_spec t 0); [contradiction|reflexivity]. }
    pose proof (a_rel1 a t n todo k Hap) as Hst. rewrite Hal in Hst. cbn in Hst. rewrite N.eqb_refl in Hst.
    cbn in Hst.
    eexists; split; [apply aexec_tau1; exact Hst|].
    eapply R_install; [exact HR|fu|fu|fu|fu].
  - (* c_rcas_fail *)
    use_thr HR H t. destruct Hthr as (Ht0 & Hap & Hne & _). stutter HR. cbn. auto.
  - (* c_sget_none *)
    use_thr HR H t.
    pose proof (a_state a t n Hthr) as Hst. rewrite (R_abs_none _ _ _ HR H0) in Hst. cbn in Hst.
    tau_nolk HR Hst. fu.
  - (* c_sget_some *)
    use_thr HR H t. stutter HR. cbn. split; auto. congruence.
  - (* c_sload *)
    use_thr HR H t. destruct Hthr as (Hap & Hne).
    pose proof (a_state a t n Hap) as Hst. rewrite (R_abs_some _ _ _ _ _ _ HR H0) in Hst.
    tau_nolk HR Hst. fu.
Qed.

(* every execution of the CAS protocol, with any number of threads and any interleaving, has the same
   invocation/response history as an execution of the atomic specification *)
Theorem simulation_from s a tr s' :
  R s a -> cexec s tr s' -> exists a', aexec a tr a' /\ R s' a'.
Proof.
  intros HR He. revert a HR. induction He as [s|s l s1 tr s2 Hs He IH]; intros a HR.
  - exists a. split; [constructor|exact HR].
  - destruct (sim_step _ _ _ _ HR Hs) as (a1 & He1 & HR1).
    destruct (IH _ HR1) as (a2 & He2 & HR2). exists a2. split; [|exact HR2].
    eapply aexec_app; eauto.
Qed.

Theorem linearizable tr s :
  cexec cinit tr s ->
  exists a, aexec ainit tr a /\ (forall n, abs_cell (lk s n) = al a n).
Proof.
  intros He. destruct (simulation_from _ _ _ _ R_init He) as (a & Ha & HR).
  exists a. split; [exact Ha|]. exact (r_abs _ _ HR).
Qed.

(* ---- mutual exclusion ---- *)
(* concrete: at every moment of every execution a name has one cell, hence at most one owner; a thread that
   has just won the CAS (and is about to report success) is that owner *)
Definition owner_of (s : cstate) (n : N) : option N :=
  match lk s n with Some (_, o, _) => if N.eqb o 0 then None else Some o | None => None end.

Lemma holder_unique tr s a n t1 t2 c1 c2 :
  cexec cinit tr s -> aexec ainit tr a -> al a n = LHeld t1 c1 -> al a n = LHeld t2 c2 -> t1 = t2.
Proof. intros _ _ H1 H2. congruence. Qed.

(* abstract: while t1 holds n, another session can neither acquire nor release it, and sees it in use *)
Lemma spec_exclusion t1 t2 c : t1 <> t2 ->
  acquire t2 (LHeld t1 c) = None /\ held_by_other t2 (LHeld t1 c) = true /\
  release t2 (LHeld t1 c) = (LHeld t1 c, RNotOwned) /\
  release_all1 t2 (LHeld t1 c) = (LHeld t1 c, 0) /\
  state_of (LHeld t1 c) = RState 1 t1.
Proof.
  intros H. cbn. destruct (N.eqb_spec t1 t2); [contradiction|]. cbn. repeat split; reflexivity.
Qed.

(* a lock held by t1 is changed only by steps of t1 itself *)
Lemma held_lock_changed_only_by_holder a l a' n t1 c :
  astep a l a' -> al a n = LHeld t1 c ->
  al a' n = LHeld t1 c \/ (forall t2, t2 <> t1 -> apcs a' t2 = apcs a t2).
Proof.
  intros Hs Hh. destruct Hs; cbn; auto; unfold fupd.
  - destruct (N.eqb_spec n n0) as [->|]; [congruence|auto].
  - destruct (N.eqb_spec n n0) as [->|]; [|auto]. rewrite Hh in H0. cbn in H0.
    destruct (N.eqb_spec t1 t); [subst|discriminate].
    right. intros t2 Ht2. destruct (N.eqb_spec t2 t); [contradiction|reflexivity].
  - destruct (N.eqb_spec n n0) as [->|]; [|auto]. rewrite Hh. cbn.
    destruct (N.eqb_spec t1 t); [subst|auto].
    right. intros t2 Ht2. destruct (N.eqb_spec t2 t); [contradiction|reflexivity].
  - destruct (N.eqb_spec n n0) as [->|]; [|auto]. rewrite Hh. cbn.
    destruct (N.eqb_spec t1 t); [subst|auto].
    right. intros t2 Ht2. destruct (N.eqb_spec t2 t); [contradiction|reflexivity].
Qed.

(* re-entrancy: k+1 acquisitions need k+1 releases *)
Fixpoint acquire_n (t : N) (k : nat) (l : lstate) : option lstate :=
  match k with O => Some l | S k' => match acquire t l with Some l' => acquire_n t k' l' | None => None end end.
Fixpoint release_n (t : N) (k : nat) (l : lstate) : lstate :=
  match k with O => l | S k' => release_n t k' (fst (release t l)) end.

Lemma acquire_n_free t k : acquire_n t (S k) LFree = Some (LHeld t (N.of_nat (S k))).
Proof.
  cbn [acquire_n acquire]. assert (forall j c, acquire_n t j (LHeld t c) = Some (LHeld t (c + N.of_nat j))) as H.
  { induction j as [|j IH]; intros c; cbn [acquire_n acquire].
    - f_equal. f_equal. lia.
    - rewrite N.eqb_refl, IH. f_equal. f_equal. lia. }
  rewrite H. f_equal. f_equal. lia.
Qed.

Lemma release_n_held t j c : (N.of_nat j < c) -> release_n t j (LHeld t c) = LHeld t (c - N.of_nat j).
Proof.
  revert c. induction j as [|j IH]; intros c Hc; cbn [release_n].
  - f_equal. lia.
  - cbn [release fst]. rewrite N.eqb_refl. destruct (N.ltb_spec 1 c); [|lia]. cbn [fst].
    rewrite IH by lia. f_equal. lia.
Qed.

Lemma reentrant_count t k :
  exists l, acquire_n t (S k) LFree = Some l /\
            release_n t (S k) l = LFree /\
            forall j, (j <= k)%nat -> exists c, release_n t j l = LHeld t c /\ 0 < c.
Proof.
  exists (LHeld t (N.of_nat (S k))). split; [apply acquire_n_free|]. split.
  - replace (S k) with (k + 1)%nat at 1 by lia.
    assert (forall a b l, release_n t (a + b) l = release_n t b (release_n t a l)) as Happ.
    { induction a as [|a IH]; intros b l; cbn [release_n Nat.add]; [reflexivity|apply IH]. }
    rewrite Happ, release_n_held by lia. cbn [release_n release fst]. rewrite N.eqb_refl.
    destruct (N.ltb_spec 1 (N.of_nat (S k) - N.of_nat k)); [lia|reflexivity].
  - intros j Hj. exists (N.of_nat (S k) - N.of_nat j). split; [apply release_n_held; lia|lia].
Qed.

(* a waiting Lock either acquires or times out, and it can time out only after it saw the lock busy:
   in the specification ADone RTimeout is reachable only from ABusy *)
Lemma timeout_only_after_busy a l a' t :
  astep a l a' -> apcs a' t = ADone RTimeout -> apcs a t <> ADone RTimeout -> exists n, apcs a t = ABusy n.
Proof.
  intros Hs Hd Hn. destruct Hs; cbn in Hd; unfold fupd in Hd;
    (destruct (N.eqb_spec t t0) as [->|]; [|contradiction]);
    try discriminate; try contradiction; eauto.
  - destruct b; discriminate.
  - exfalso. destruct (al a n) as [| |t1 c]; cbn in Hd; try discriminate.
    destruct (N.eqb t1 t0); [destruct (N.ltb 1 c)|]; discriminate.
  - destruct (al a n); discriminate.
Qed.

(* ---- a concrete contended execution (non-vacuity of the semantics) ---- *)
Lemma ce_tau s s1 tr s2 : cstep s LTau s1 -> cexec s1 tr s2 -> cexec s tr s2.
Proof. intros H1 H2. change tr with (obs LTau ++ tr). econstructor; eauto. Qed.

Lemma ce_inv s t o s1 tr s2 : cstep s (LInv t o) s1 -> cexec s1 tr s2 -> cexec s (LInv t o :: tr) s2.
Proof. intros H1 H2. change (LInv t o :: tr) with (obs (LInv t o) ++ tr). econstructor; eauto. Qed.

Lemma ce_resp s t r s1 tr s2 : cstep s (LResp t r) s1 -> cexec s1 tr s2 -> cexec s (LResp t r :: tr) s2.
Proof. intros H1 H2. change (LResp t r :: tr) with (obs (LResp t r) ++ tr). econstructor; eauto. Qed.

Definition contended_history : list label :=
  [LInv 1 (OTry 5); LInv 2 (OTry 5); LResp 1 (RBool true); LResp 2 (RBool false)].

Lemma contended_execution :
  exists s, cexec cinit contended_history s /\ owner_of s 5 = Some 1 /\ sset s 1 = [5] /\ sset s 2 = [].
Proof.
  eexists. split.
  - unfold contended_history.
    eapply ce_inv; [apply c_inv; [discriminate|reflexivity]|]. cbn [start_pc].
    eapply ce_tau; [eapply (c_get_none _ 1); reflexivity|].
    eapply ce_tau; [eapply (c_create_new _ 1); reflexivity|].
    eapply ce_tau; [eapply (c_tload_mine _ 1); [reflexivity|reflexivity|now left]|].
    eapply ce_inv; [apply c_inv; [discriminate|reflexivity]|]. cbn [start_pc].
    eapply ce_tau; [eapply (c_get_some _ 2); reflexivity|].
    eapply ce_tau; [eapply (c_tload_mine _ 2); [reflexivity|reflexivity|now left]|].
    eapply ce_tau; [eapply (c_tcas_free _ 1); reflexivity|].
    eapply ce_tau; [eapply (c_tcas_fail _ 2); [reflexivity|reflexivity|discriminate]|].
    eapply ce_tau; [eapply (c_tload_other _ 2); [reflexivity|reflexivity|discriminate|discriminate]|].
    eapply ce_tau; [eapply (c_tadd _ 1); reflexivity|].
    eapply ce_resp; [eapply (c_resp _ 1); reflexivity|].
    eapply ce_resp; [eapply (c_resp _ 2); reflexivity|].
    apply ce_nil.
  - vm_compute. repeat split.
Qed.

(* ---- the executable sequential specification is a run of the atomic specification ---- *)
Lemma sget_sput s n l m : sget (sput s n l) m = if N.eqb m n then l else sget s m.
Proof. reflexivity. Qed.

Definition agrees (s : seq_state) (a : astate) : Prop := forall n, sget s n = al a n.

Lemma seq_try_refines t b s n a :
  wants_lock (apcs a t) n b -> agrees s a ->
  exists a', aexec a [] a' /\ apcs a' t = ADone (snd (seq_try t b s n)) /\
             agrees (fst (seq_try t b s n)) a' /\ (forall t', t' <> t -> apcs a' t' = apcs a t').
Proof.
  intros Hw Hag. unfold seq_try. rewrite (Hag n).
  (* first make the entry exist *)
  assert (Hex : exists a1, aexec a [] a1 /\ wants_lock (apcs a1 t) n b /\
                 al a1 n = (match al a n with LNone => LFree | x => x end) /\
                 (forall m, m <> n -> al a1 m = al a m) /\ (forall t', t' <> t -> apcs a1 t' = apcs a t')).
  { destruct (al a n) eqn:E.
    - exists (set_al a n LFree t (apcs a t)). split; [apply aexec_tau1; eapply a_create; eauto|].
      cbn. rewrite !fupd_same. repeat split; auto; intros; apply fupd_other; auto.
    - exists a. repeat split; auto. constructor.
    - exists a. repeat split; auto. constructor. }
  destruct Hex as (a1 & He1 & Hw1 & Hal1 & Hoth1 & Hthr1).
  remember (match al a n with LNone => LFree | x => x end) as l eqn:El.
  destruct (acquire t l) as [l'|] eqn:Eacq.
  - exists (set_al a1 n l' t (ADone (acquired b))). split.
    + eapply aexec_app with (tr1 := []) (tr2 := []); [exact He1|].
      apply aexec_tau1. eapply a_acquire; [exact Hw1|]. now rewrite Hal1.
    + cbn. rewrite fupd_same. repeat split; auto.
      * intros m. rewrite sget_sput. cbn. unfold fupd. destruct (N.eqb_spec m n); [reflexivity|].
        rewrite Hoth1 by assumption. apply Hag.
      * intros t' Ht'. rewrite fupd_other by assumption. auto.
  - assert (Hho : held_by_other t (al a1 n) = true).
    { rewrite Hal1. destruct l as [| |t0 c]; cbn in Eacq.
      - destruct (al a n); discriminate.
      - discriminate.
      - cbn. destruct (N.eqb t0 t); [discriminate|reflexivity]. }
    assert (Hagree : forall a2, (forall m, al a2 m = al a1 m) -> agrees (sput s n l) a2).
    { intros a2 H2 m. rewrite sget_sput, H2. destruct (N.eqb_spec m n) as [->|Hne]; [now rewrite Hal1|].
      rewrite Hoth1 by assumption. apply Hag. }
    destruct b; cbn [snd fst].
    + exists (set_apc (set_apc a1 t (ABusy n)) t (ADone RTimeout)). split.
      * eapply aexec_app with (tr1 := []) (tr2 := []); [exact He1|].
        eapply aexec_app with (tr1 := []) (tr2 := []); apply aexec_tau1.
        -- eapply a_lock_busy; eauto.
        -- eapply a_lock_timeout. cbn. apply fupd_same.
      * cbn. rewrite fupd_same. repeat split; auto.
        intros t' Ht'. rewrite !fupd_other by assumption. auto.
    + exists (set_apc a1 t (ADone (RBool false))). split.
      * eapply aexec_app with (tr1 := []) (tr2 := []); [exact He1|].
        apply aexec_tau1. eapply a_try_fail; eauto.
      * cbn. rewrite fupd_same. repeat split; auto.
        intros t' Ht'. rewrite fupd_other by assumption. auto.
Qed.

Lemma seq_relall_refines t names : forall s a k,
  apcs a t = ARel names k -> agrees s a ->
  exists a', aexec a [] a' /\ apcs a' t = ADone (RCount (snd (seq_relall t s names k))) /\
             agrees (fst (seq_relall t s names k)) a' /\ (forall t', t' <> t -> apcs a' t' = apcs a t').
Proof.
  induction names as [|n r IH]; intros s a k Hap Hag; cbn [seq_relall].
  - exists (set_apc a t (ADone (RCount k))). split; [apply aexec_tau1; now apply a_rel_done|].
    cbn. rewrite fupd_same. repeat split; auto. intros t' Ht'. now apply fupd_other.
  - rewrite (Hag n). destruct (release_all1 t (al a n)) as [l d] eqn:E.
    pose proof (a_rel1 a t n r k Hap) as Hst. rewrite E in Hst. cbn [fst snd] in Hst.
    destruct (IH (sput s n l) (set_al a n l t (ARel r (k + d))) (k + d)) as (a' & He & Hd & Hag' & Hoth).
    + cbn. apply fupd_same.
    + intros m. rewrite sget_sput. cbn. unfold fupd. destruct (N.eqb_spec m n); [reflexivity|apply Hag].
    + exists a'. split; [eapply aexec_app with (tr1 := []) (tr2 := []); [apply aexec_tau1; exact Hst|exact He]|].
      repeat split; auto. intros t' Ht'. rewrite Hoth by assumption. cbn. now apply fupd_other.
Qed.

Theorem seq_step_refines t o names s a :
  apcs a t = APend o -> agrees s a ->
  exists a', aexec a [] a' /\ apcs a' t = ADone (snd (seq_step t o names s)) /\
             agrees (fst (seq_step t o names s)) a' /\ (forall t', t' <> t -> apcs a' t' = apcs a t').
Proof.
  intros Hap Hag. destruct o as [n|n|n| |n]; cbn [seq_step].
  - apply seq_try_refines; [exact Hap|exact Hag].
  - apply seq_try_refines; [left; exact Hap|exact Hag].
  - rewrite (Hag n). destruct (release t (al a n)) as [l r] eqn:E.
    pose proof (a_unlock a t n Hap) as Hst. rewrite E in Hst. cbn [fst snd] in Hst.
    eexists. split; [apply aexec_tau1; exact Hst|]. cbn. rewrite fupd_same. repeat split; auto.
    + intros m. rewrite sget_sput. cbn. unfold fupd. destruct (N.eqb_spec m n); [reflexivity|apply Hag].
    + intros t' Ht'. now apply fupd_other.
  - destruct (seq_relall t s names 0) as [s' k] eqn:E.
    destruct (seq_relall_refines t names s (set_apc a t (ARel names 0)) 0) as (a' & He & Hd & Hag' & Hoth).
    + cbn. apply fupd_same.
    + exact Hag.
    + rewrite E in *. cbn [fst snd] in *. exists a'. split.
      * eapply aexec_app with (tr1 := []) (tr2 := []); [|exact He].
        apply aexec_tau1. apply a_rel_start. exact Hap.
      * repeat split; auto. intros t' Ht'. rewrite Hoth by assumption. cbn. now apply fupd_other.
  - pose proof (a_state a t n Hap) as Hst. eexists. split; [apply aexec_tau1; exact Hst|].
    cbn. rewrite fupd_same, (Hag n). repeat split; auto. intros t' Ht'. now apply fupd_other.
Qed.
