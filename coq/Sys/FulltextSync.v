(* C51 — index maintenance over arbitrary DML histories (insert, delete, update), including identical rows in
   keyless tables.  Continues Sys/FulltextProofs.v. *)
From Coq Require Import List NArith Arith Bool Lia Permutation.
Import ListNotations.
From GMS Require Import Sys.Fulltext Sys.FulltextProofs.
Open Scope N_scope.

Section Sync.
  Variable is_char : N -> bool.
  Variable rlen : N -> N.
  Variable ckey : list N -> list N.

  Notation uwords := (uwords is_char rlen ckey).
  Notation ukeys := (ukeys is_char rlen ckey).
  Notation ft_insert := (ft_insert is_char rlen ckey).
  Notation ft_delete := (ft_delete is_char rlen ckey).
  Notation ft_update := (ft_update is_char rlen ckey).
  Notation apply_op := (apply_op is_char rlen ckey).
  Notation run_ops := (run_ops is_char rlen ckey).
  Notation nrows_with := (nrows_with is_char rlen ckey).
  Notation all_short := (all_short rlen).

  (* ---------- the table as a bag of rows ---------- *)
  (* a row hash or a key identifies the whole row: PRIMARY KEY uniqueness for keyed tables (key = hash for keyless
     ones), and no two different rows with the same hash (HashRow assumed injective on the rows of the history) *)
  Definition wfb (rows : list row) : Prop :=
    forall x y, In x rows -> In y rows -> rh x = rh y \/ rk x = rk y -> x = y.

  Definition count_h (h : N) (rows : list row) : nat := length (filter (fun r => rh r =? h) rows).

  Definition req (x r : row) : bool := (rh x =? rh r) && (rk x =? rk r) && leqb (rdoc x) (rdoc r).

  Lemma req_spec x r : req x r = true <-> x = r.
  Proof.
    unfold req. rewrite !andb_true_iff, !N.eqb_eq, leqb_spec. destruct x, r; cbn. split.
    - intros [[-> ->] ->]. reflexivity.
    - intros H. injection H as -> -> ->. auto.
  Qed.

  Lemma remove_row_perm r rows : In r rows -> Permutation rows (r :: remove_row r rows).
  Proof.
    induction rows as [|x rows IH]; intros H; [destruct H|]. cbn [remove_row]. fold (req x r).
    destruct (req x r) eqn:E.
    - apply req_spec in E. subst x. apply Permutation_refl.
    - destruct H as [->|H]; [assert (req r r = true) as E' by (now apply req_spec); congruence|].
      eapply Permutation_trans; [apply perm_skip, (IH H)|apply perm_swap].
  Qed.

  Lemma filter_length_perm {A} (f : A -> bool) l l' : Permutation l l' -> length (filter f l) = length (filter f l').
  Proof.
    induction 1 as [|x l l' _ IH|x y l|l l' l'' _ IH1 _ IH2]; cbn; try reflexivity.
    - destruct (f x); cbn; now rewrite IH.
    - destruct (f x), (f y); reflexivity.
    - now rewrite IH1.
  Qed.

  Lemma wfb_sub rows rows' : (forall x, In x rows' -> In x rows) -> wfb rows -> wfb rows'.
  Proof. intros Hs Hw x y Hx Hy. apply Hw; auto. Qed.

  Lemma remove_row_sub r rows x : In x (remove_row r rows) -> In x rows.
  Proof.
    induction rows as [|y rows IH]; cbn [remove_row]; [tauto|]. fold (req y r).
    destruct (req y r); intros H; [now right|]. destruct H as [->|H]; [now left|right; auto].
  Qed.

  Lemma count_pos_exists h rows : (1 <= count_h h rows)%nat -> exists x, In x rows /\ rh x = h.
  Proof.
    unfold count_h. induction rows as [|y rows IH]; cbn; [lia|].
    destruct (rh y =? h) eqn:E; [intros _; exists y; split; [now left|now apply N.eqb_eq]|].
    intros H. destruct (IH H) as (x & Hx & Hh). exists x. split; [now right|assumption].
  Qed.

  Lemma count_zero_notin h rows x : count_h h rows = 0%nat -> In x rows -> rh x <> h.
  Proof.
    unfold count_h. intros H Hx Hh.
    assert (In x (filter (fun r => rh r =? h) rows)) as Hf by (apply filter_In; split; [assumption|now apply N.eqb_eq]).
    destruct (filter _ rows); [destruct Hf|discriminate].
  Qed.

  Lemma count_app h rows r : count_h h (rows ++ [r]) = (count_h h rows + (if N.eqb (rh r) h then 1 else 0))%nat.
  Proof. unfold count_h. rewrite filter_app, app_length. cbn. destruct (rh r =? h); reflexivity. Qed.

  (* ---------- the index is in sync with the bag (relational form, independent of the order of the rows) ---------- *)
  Record Inv2 (rows : list row) (s : ftst) : Prop := mkInv2 {
    J_rc : forall h, match get N.eqb (rc s) h with
                     | None => count_h h rows = 0%nat
                     | Some (n, u) => n = N.of_nat (count_h h rows) /\ (1 <= count_h h rows)%nat /\
                                      exists r, In r rows /\ rh r = h /\ u = N.of_nat (length (uwords (rdoc r)))
                     end;
    J_dc : forall k key, match get dkeqb (dc s) (k, key) with
                         | None => forall r, In r rows -> rk r = key -> kin k (uwords (rdoc r)) = false
                         | Some c => exists r, In r rows /\ rk r = key /\ ucnt k (uwords (rdoc r)) = Some c
                         end;
    J_gc : forall k, get leqb (gc s) k = if nrows_with k rows =? 0 then None else Some (nrows_with k rows) }.

  Lemma Inv2_empty : Inv2 [] empty_st.
  Proof. constructor; intros; cbn; try reflexivity. intros r []. Qed.

  (* ---------- decrementing folds ---------- *)
  Definition dec (o : option N) : option N :=
    match o with Some c => if 1 <? c then Some (c - 1) else None | None => None end.

  Lemma get_upd_glob_dec g k k' :
    get leqb (upd_glob g k false) k' = if leqb k' k then dec (get leqb g k) else get leqb g k'.
  Proof.
    unfold upd_glob, dec. destruct (leqb k' k) eqn:E.
    - apply leqb_spec in E. subst k'. destruct (get leqb g k) as [c|] eqn:G; [|exact G].
      destruct (1 <? c); [apply (get_set_same leqb leqb_spec)|apply (get_remove_same leqb)].
    - assert (k' <> k) as Hn by (intros ->; rewrite leqb_refl in E; discriminate).
      destruct (get leqb g k) as [c|]; [|reflexivity].
      destruct (1 <? c); [apply (get_set_other leqb leqb_spec)|apply (get_remove_other leqb leqb_spec)]; assumption.
  Qed.

  Lemma fold_dec u : nodupk u -> forall g k,
    get leqb (fold_left (fun g e => upd_glob g (snd (fst e)) false) u g) k =
    if kin k u then dec (get leqb g k) else get leqb g k.
  Proof.
    induction u as [|e u IH]; intros Hnd g k; [reflexivity|].
    cbn [fold_left]. inversion Hnd as [|? ? Hne Hnd']; subst.
    rewrite IH by assumption. cbn [kin existsb]. fold (kin k u). rewrite get_upd_glob_dec.
    change (snd (fst e)) with (ekey e).
    destruct (leqb k (ekey e)) eqn:E; cbn [orb]; [|reflexivity].
    apply leqb_spec in E. subst k.
    destruct (kin (ekey e) u) eqn:K; [apply kin_in in K; contradiction|reflexivity].
  Qed.

  Lemma fold_doc_del key u : forall (d : list ((list N * N) * N)) k key',
    get dkeqb (fold_left (fun d (e : list N * list N * N) => remove dkeqb d (snd (fst e), key)) u d) (k, key') =
    if (key' =? key) && kin k u then None else get dkeqb d (k, key').
  Proof.
    induction u as [|e u IH]; intros d k key'; [cbn; now rewrite andb_false_r|].
    cbn [fold_left]. rewrite IH. cbn [kin existsb]. fold (kin k u). change (snd (fst e)) with (ekey e).
    destruct (key' =? key) eqn:Ek; cbn [andb].
    - apply N.eqb_eq in Ek. subst key'. destruct (kin k u) eqn:K.
      + rewrite orb_true_r. reflexivity.
      + rewrite orb_false_r. destruct (leqb k (ekey e)) eqn:E.
        * apply leqb_spec in E. subst k. apply (get_remove_same dkeqb).
        * apply (get_remove_other dkeqb dkeqb_spec). intros H. injection H as H. subst k.
          rewrite leqb_refl in E. discriminate.
    - apply (get_remove_other dkeqb dkeqb_spec). intros H. injection H as _ H. subst key'.
      rewrite N.eqb_refl in Ek. discriminate.
  Qed.

  Lemma ucnt_some_kin k u c : pos_counts u -> ucnt k u = Some c -> kin k u = true.
  Proof. intros Hp H. pose proof (ucnt_kin k u Hp) as X. rewrite H in X. tauto. Qed.

  Lemma kin_ucnt_some k u : pos_counts u -> kin k u = true -> exists c, ucnt k u = Some c.
  Proof.
    intros Hp H. pose proof (ucnt_kin k u Hp) as X. destruct (ucnt k u) as [c|]; [eauto|congruence].
  Qed.

  Lemma nrows_with_cons k r rows :
    nrows_with k (r :: rows) = nrows_with k rows + (if kin k (uwords (rdoc r)) then 1 else 0).
  Proof.
    unfold FulltextProofs.nrows_with. cbn [filter]. destruct (kin k (uwords (rdoc r))); cbn [length]; lia.
  Qed.

  Lemma nrows_with_perm k rows rows' : Permutation rows rows' -> nrows_with k rows = nrows_with k rows'.
  Proof. intros H. unfold FulltextProofs.nrows_with. now rewrite (filter_length_perm _ _ _ H). Qed.

  (* ---------- insert ---------- *)
  Theorem insert_keeps_sync2 rows s r :
    Inv2 rows s -> wfb (rows ++ [r]) -> all_short (uwords (rdoc r)) -> Inv2 (rows ++ [r]) (ft_insert s r).
  Proof.
    intros HI Hw Hs. unfold Fulltext.ft_insert.
    assert (forall x, In x rows -> In x (rows ++ [r])) as Hsub by (intros; apply in_or_app; now left).
    assert (In r (rows ++ [r])) as Hr by (apply in_or_app; right; now left).
    pose proof (J_rc _ _ HI (rh r)) as Hrc.
    assert (forall k, get leqb (fold_left (fun g e => if short rlen e then upd_glob g (snd (fst e)) true else g)
                                          (uwords (rdoc r)) (gc s)) k =
                      if nrows_with k (rows ++ [r]) =? 0 then None else Some (nrows_with k (rows ++ [r]))) as Hgc.
    { intros k. rewrite fold_inc; [|apply uwords_nodup|assumption].
      rewrite nrows_with_app, (J_gc _ _ HI).
      destruct (kin k (uwords (rdoc r))).
      - destruct (nrows_with k rows =? 0) eqn:E.
        + apply N.eqb_eq in E. rewrite E. reflexivity.
        + apply N.eqb_neq in E. destruct (nrows_with k rows + 1 =? 0) eqn:E2; [apply N.eqb_eq in E2; lia|reflexivity].
      - rewrite N.add_0_r. reflexivity. }
    destruct (get N.eqb (rc s) (rh r)) as [[n uw]|] eqn:G.
    - (* a row with this hash is present: it is r itself *)
      destruct Hrc as (Hn & Hpos & x & Hx & Hhx & Hu).
      assert (x = r) as -> by (apply Hw; auto).
      constructor; cbn [rc dc gc]; [| |exact Hgc].
      + intros h. destruct (N.eq_dec h (rh r)) as [->|Hne].
        * rewrite (get_set_same N.eqb Neqb_spec), count_app, N.eqb_refl. repeat split; [lia|lia|].
          exists r. auto.
        * rewrite (get_set_other N.eqb Neqb_spec) by assumption. rewrite count_app.
          replace (rh r =? h) with false by (symmetry; apply N.eqb_neq; congruence). rewrite Nat.add_0_r.
          pose proof (J_rc _ _ HI h) as Hh. destruct (get N.eqb (rc s) h) as [[n' u']|]; [|exact Hh].
          destruct Hh as (H1 & H2 & y & Hy & Hy2 & Hy3). repeat split; try assumption. exists y. auto.
      + intros k key. pose proof (J_dc _ _ HI k key) as Hd.
        destruct (get dkeqb (dc s) (k, key)) as [c|].
        * destruct Hd as (y & Hy & Hy2 & Hy3). exists y. auto.
        * intros y Hy Hk. apply in_app_or in Hy. destruct Hy as [Hy|[<-|[]]]; [now apply Hd|now apply Hd].
    - (* no row with this hash, hence none with this key *)
      assert (forall x, In x rows -> rk x <> rk r) as Hkey.
      { intros x Hx Hk. assert (x = r) as -> by (apply Hw; auto).
        exact (count_zero_notin _ _ _ Hrc Hx eq_refl). }
      assert (forall k, get dkeqb (dc s) (k, rk r) = None) as Hfresh.
      { intros k. pose proof (J_dc _ _ HI k (rk r)) as Hd. destruct (get dkeqb (dc s) (k, rk r)); [|reflexivity].
        destruct Hd as (y & Hy & Hy2 & _). exfalso. exact (Hkey y Hy Hy2). }
      constructor; cbn [rc dc gc]; [| |exact Hgc].
      + intros h. destruct (N.eq_dec h (rh r)) as [->|Hne].
        * rewrite (get_set_same N.eqb Neqb_spec), count_app, N.eqb_refl, Hrc. repeat split; [lia|].
          exists r. auto.
        * rewrite (get_set_other N.eqb Neqb_spec) by assumption. rewrite count_app.
          replace (rh r =? h) with false by (symmetry; apply N.eqb_neq; congruence). rewrite Nat.add_0_r.
          pose proof (J_rc _ _ HI h) as Hh. destruct (get N.eqb (rc s) h) as [[n' u']|]; [|exact Hh].
          destruct Hh as (H1 & H2 & y & Hy & Hy2 & Hy3). repeat split; try assumption. exists y. auto.
      + intros k key. rewrite fold_doc_ins; [|apply uwords_nodup|assumption|intros; apply Hfresh].
        destruct (key =? rk r) eqn:E.
        * apply N.eqb_eq in E. subst key. cbn [andb].
          destruct (kin k (uwords (rdoc r))) eqn:K.
          -- destruct (kin_ucnt_some _ _ (uwords_pos is_char rlen ckey _) K) as [c Hc]. rewrite Hc. exists r. auto.
          -- rewrite Hfresh. intros y Hy Hk. apply in_app_or in Hy.
             destruct Hy as [Hy|[<-|[]]]; [exfalso; exact (Hkey y Hy Hk)|exact K].
        * cbn [andb]. pose proof (J_dc _ _ HI k key) as Hd. apply N.eqb_neq in E.
          destruct (get dkeqb (dc s) (k, key)) as [c|].
          -- destruct Hd as (y & Hy & Hy2 & Hy3). exists y. auto.
          -- intros y Hy Hk. apply in_app_or in Hy. destruct Hy as [Hy|[<-|[]]]; [now apply Hd|congruence].
  Qed.

  (* ---------- delete ---------- *)
  Theorem delete_keeps_sync2 rows s r :
    Inv2 rows s -> wfb rows -> In r rows -> Inv2 (remove_row r rows) (ft_delete s r).
  Proof.
    intros HI Hw Hr. unfold Fulltext.ft_delete.
    pose proof (remove_row_perm r rows Hr) as HP.
    assert (forall h, count_h h rows = ((if N.eqb (rh r) h then 1 else 0) + count_h h (remove_row r rows))%nat) as Hcnt.
    { intros h. unfold count_h. rewrite (filter_length_perm _ _ _ HP). cbn [filter].
      destruct (rh r =? h); reflexivity. }
    assert (forall x, In x rows -> x = r \/ In x (remove_row r rows)) as Hsplit.
    { intros x Hx. apply (Permutation_in _ HP) in Hx. destruct Hx as [<-|Hx]; auto. }
    pose proof (J_rc _ _ HI (rh r)) as Hrc.
    assert (forall k, get leqb (fold_left (fun g e => upd_glob g (snd (fst e)) false) (uwords (rdoc r)) (gc s)) k =
                      if nrows_with k (remove_row r rows) =? 0 then None else Some (nrows_with k (remove_row r rows))) as Hgc.
    { intros k. rewrite fold_dec by apply uwords_nodup. rewrite (J_gc _ _ HI).
      rewrite (nrows_with_perm k _ _ HP), nrows_with_cons.
      destruct (kin k (uwords (rdoc r))).
      - replace (nrows_with k (remove_row r rows) + 1 =? 0) with false by (symmetry; apply N.eqb_neq; lia).
        unfold dec. destruct (nrows_with k (remove_row r rows) =? 0) eqn:E.
        + apply N.eqb_eq in E. rewrite E. reflexivity.
        + apply N.eqb_neq in E. replace (1 <? nrows_with k (remove_row r rows) + 1) with true by (symmetry; apply N.ltb_lt; lia).
          f_equal. lia.
      - rewrite N.add_0_r. reflexivity. }
    destruct (get N.eqb (rc s) (rh r)) as [[n uw]|] eqn:G.
    2:{ exfalso. exact (count_zero_notin _ _ _ Hrc Hr eq_refl). }
    destruct Hrc as (Hn & Hpos & x & Hx & Hhx & Hu).
    assert (x = r) as -> by (apply Hw; auto).
    pose proof (Hcnt (rh r)) as Hc. rewrite N.eqb_refl in Hc.
    assert (forall h, h <> rh r ->
              match get N.eqb (rc s) h with
              | None => count_h h (remove_row r rows) = 0%nat
              | Some (n, u) => n = N.of_nat (count_h h (remove_row r rows)) /\ (1 <= count_h h (remove_row r rows))%nat /\
                               exists r0, In r0 (remove_row r rows) /\ rh r0 = h /\ u = N.of_nat (length (uwords (rdoc r0)))
              end) as Hother.
    { intros h Hne. pose proof (J_rc _ _ HI h) as Hh. rewrite (Hcnt h) in Hh.
      replace (rh r =? h) with false in Hh by (symmetry; apply N.eqb_neq; congruence). cbn [plus] in Hh.
      destruct (get N.eqb (rc s) h) as [[n' u']|]; [|exact Hh].
      destruct Hh as (H1 & H2 & y & Hy & Hy2 & Hy3). repeat split; try assumption. exists y.
      destruct (Hsplit y Hy) as [->|Hy']; [congruence|auto]. }
    destruct (1 <? n) eqn:E1.
    - (* other copies of the row remain *)
      apply N.ltb_lt in E1.
      assert (In r (remove_row r rows)) as Hr'.
      { destruct (count_pos_exists (rh r) (remove_row r rows)) as (y & Hy & Hy2); [lia|].
        assert (y = r) as <- by (apply Hw; [now apply (remove_row_sub r rows)|assumption|auto]). exact Hy. }
      constructor; cbn [rc dc gc]; [| |exact Hgc].
      + intros h. destruct (N.eq_dec h (rh r)) as [->|Hne].
        * rewrite (get_set_same N.eqb Neqb_spec). repeat split; [lia|lia|]. exists r. auto.
        * rewrite (get_set_other N.eqb Neqb_spec) by assumption. now apply Hother.
      + intros k key. pose proof (J_dc _ _ HI k key) as Hd.
        destruct (get dkeqb (dc s) (k, key)) as [c|].
        * destruct Hd as (y & Hy & Hy2 & Hy3). destruct (Hsplit y Hy) as [->|Hy']; [exists r; auto|exists y; auto].
        * intros y Hy. apply Hd. now apply (remove_row_sub r rows).
    - (* the last copy goes away *)
      apply N.ltb_ge in E1.
      assert (count_h (rh r) (remove_row r rows) = 0%nat) as Hz by lia.
      assert (forall y, In y (remove_row r rows) -> rk y <> rk r) as Hkey.
      { intros y Hy Hk. assert (y = r) as -> by (apply Hw; [now apply (remove_row_sub r rows)|assumption|auto]).
        exact (count_zero_notin _ _ _ Hz Hy eq_refl). }
      constructor; cbn [rc dc gc]; [| |exact Hgc].
      + intros h. destruct (N.eq_dec h (rh r)) as [->|Hne].
        * rewrite (get_remove_same N.eqb). exact Hz.
        * rewrite (get_remove_other N.eqb Neqb_spec) by assumption. now apply Hother.
      + intros k key. rewrite fold_doc_del.
        destruct (key =? rk r) eqn:Ek.
        * apply N.eqb_eq in Ek. subst key. cbn [andb].
          destruct (kin k (uwords (rdoc r))) eqn:K.
          -- intros y Hy Hk. exfalso. exact (Hkey y Hy Hk).
          -- pose proof (J_dc _ _ HI k (rk r)) as Hd. destruct (get dkeqb (dc s) (k, rk r)) as [c|].
             ++ destruct Hd as (y & Hy & Hy2 & Hy3). assert (y = r) as -> by (apply Hw; auto).
                rewrite (ucnt_some_kin _ _ _ (uwords_pos is_char rlen ckey _) Hy3) in K. discriminate.
             ++ intros y Hy Hk. exfalso. exact (Hkey y Hy Hk).
        * cbn [andb]. apply N.eqb_neq in Ek. pose proof (J_dc _ _ HI k key) as Hd.
          destruct (get dkeqb (dc s) (k, key)) as [c|].
          -- destruct Hd as (y & Hy & Hy2 & Hy3). destruct (Hsplit y Hy) as [->|Hy']; [congruence|exists y; auto].
          -- intros y Hy. apply Hd. now apply (remove_row_sub r rows).
  Qed.

  (* ---------- histories ---------- *)
  Notation apply_rows := Fulltext.apply_rows.

  Definition ok_op (rows : list row) (o : op) : Prop :=
    match o with
    | OIns r => wfb (rows ++ [r]) /\ all_short (uwords (rdoc r))
    | ODel r => In r rows
    | OUpd a b => In a rows /\ wfb (remove_row a rows ++ [b]) /\ all_short (uwords (rdoc b))
    end.

  Fixpoint valid_hist (rows : list row) (ops : list op) : Prop :=
    match ops with
    | [] => True
    | o :: t => ok_op rows o /\ valid_hist (apply_rows rows o) t
    end.

  Lemma wfb_app_l rows r : wfb (rows ++ [r]) -> wfb rows.
  Proof. apply wfb_sub. intros x Hx. apply in_or_app. now left. Qed.

  Lemma step_sync rows s o : wfb rows -> Inv2 rows s -> ok_op rows o ->
    wfb (apply_rows rows o) /\ Inv2 (apply_rows rows o) (apply_op s o).
  Proof.
    intros Hw HI Hok. destruct o as [r|r|a b]; cbn [ok_op Fulltext.apply_rows Fulltext.apply_op] in *.
    - destruct Hok as [Hw' Hs]. split; [assumption|now apply insert_keeps_sync2].
    - split; [apply (wfb_sub rows); [apply remove_row_sub|assumption]|now apply delete_keeps_sync2].
    - destruct Hok as (Ha & Hw' & Hs). split; [assumption|]. unfold Fulltext.ft_update.
      apply insert_keeps_sync2; [now apply delete_keeps_sync2|assumption|assumption].
  Qed.

  Lemma hist_sync ops : forall rows s, wfb rows -> Inv2 rows s -> valid_hist rows ops ->
    wfb (fold_left apply_rows ops rows) /\ Inv2 (fold_left apply_rows ops rows) (fold_left apply_op ops s).
  Proof.
    induction ops as [|o ops IH]; intros rows s Hw HI Hv; [split; assumption|].
    cbn [fold_left]. destruct Hv as [Hok Hv]. destruct (step_sync rows s o Hw HI Hok) as [Hw' HI'].
    now apply IH.
  Qed.

  (* index_sync: after ANY valid history of inserts, deletes and updates the index tables are exactly those
     determined by the current rows *)
  Theorem index_sync ops : valid_hist [] ops ->
    wfb (fold_left apply_rows ops []) /\ Inv2 (fold_left apply_rows ops []) (run_ops ops).
  Proof.
    intros Hv. apply hist_sync; [intros x y []|apply Inv2_empty|assumption].
  Qed.

  (* ---------- MATCH over a synced index (duplicates allowed) ---------- *)
  Lemma contributions_synced2 rows s r :
    Inv2 rows s -> wfb rows -> In r rows ->
    forall ks, flat_map (fun k =>
      match get dkeqb (dc s) (k, rk r) with
      | None => []
      | Some d => if d =? 0 then [] else
          match get leqb (gc s) k with
          | None => []
          | Some g => match get N.eqb (rc s) (rh r) with None => [] | Some (_, uw) => [(d, uw, g)] end
          end
      end) ks = [] <-> existsb (fun k => kin k (uwords (rdoc r))) ks = false.
  Proof.
    intros HI Hw Hin ks. induction ks as [|k ks IH]; cbn; [tauto|].
    pose proof (J_dc _ _ HI k (rk r)) as Hd.
    destruct (get dkeqb (dc s) (k, rk r)) as [d|].
    - destruct Hd as (y & Hy & Hy2 & Hy3). assert (y = r) as -> by (apply Hw; auto).
      pose proof (ucnt_kin k (uwords (rdoc r)) (uwords_pos is_char rlen ckey _)) as Hu. rewrite Hy3 in Hu.
      destruct Hu as [Hk Hd0]. rewrite Hk. apply N.eqb_neq in Hd0. rewrite Hd0.
      rewrite (J_gc _ _ HI). pose proof (nrows_with_pos is_char rlen ckey k rows r Hin Hk) as Hn.
      apply N.eqb_neq in Hn. rewrite Hn.
      pose proof (J_rc _ _ HI (rh r)) as Hrc. destruct (get N.eqb (rc s) (rh r)) as [[n uw]|].
      + cbn. split; discriminate.
      + exfalso. exact (count_zero_notin _ _ _ Hrc Hin eq_refl).
    - rewrite (Hd r Hin eq_refl). cbn. exact IH.
  Qed.

  Theorem matches_iff_shares_word2 rows s q r :
    Inv2 rows s -> wfb rows -> In r rows ->
    matches is_char rlen ckey s q r = shares_word is_char rlen ckey q r.
  Proof.
    intros HI Hw Hin. unfold matches, contributions, shares_word.
    pose proof (contributions_synced2 rows s r HI Hw Hin (ukeys q)) as H.
    assert (forall ks, existsb (fun k => existsb (leqb k) (ukeys (rdoc r))) ks = existsb (fun k => kin k (uwords (rdoc r))) ks) as E.
    { intros ks. induction ks as [|k ks IHk]; cbn; [reflexivity|]. rewrite IHk. f_equal.
      unfold Fulltext.ukeys. now rewrite kin_existsb. }
    rewrite E. destruct H as [H1 H2]. destruct (flat_map _ (ukeys q)) eqn:F.
    - symmetry. apply H1. reflexivity.
    - destruct (existsb (fun k => kin k (uwords (rdoc r))) (ukeys q)) eqn:X; [reflexivity|].
      discriminate (H2 eq_refl).
  Qed.

  Theorem contributions_in_range2 rows s q r :
    Inv2 rows s -> wfb rows -> In r rows ->
    Forall (fun c => let '(d, uw, g) := c in 1 <= d /\ 1 <= g <= N.of_nat (length rows))
           (contributions is_char rlen ckey s q r).
  Proof.
    intros HI Hw Hin. unfold contributions. generalize (ukeys q) as ks.
    induction ks as [|k ks IH]; cbn; [constructor|]. apply Forall_app. split; [|exact IH].
    pose proof (J_dc _ _ HI k (rk r)) as Hd.
    destruct (get dkeqb (dc s) (k, rk r)) as [d|]; [|constructor].
    destruct (d =? 0) eqn:Ed; [constructor|]. apply N.eqb_neq in Ed.
    rewrite (J_gc _ _ HI). destruct (nrows_with k rows =? 0) eqn:En; [constructor|].
    destruct (get N.eqb (rc s) (rh r)) as [[n uw]|]; [|constructor].
    constructor; [|constructor]. apply N.eqb_neq in En. pose proof (nrows_with_le is_char rlen ckey k rows). lia.
  Qed.

  (* the two halves together: after any valid history MATCH is true of exactly the rows sharing a word *)
  Theorem match_after_history ops q r :
    valid_hist [] ops -> In r (fold_left apply_rows ops []) ->
    matches is_char rlen ckey (run_ops ops) q r = shares_word is_char rlen ckey q r.
  Proof.
    intros Hv Hin. destruct (index_sync ops Hv) as [Hw HI]. now apply (matches_iff_shares_word2 _ _ q r HI Hw).
  Qed.
End Sync.

(* a concrete valid history with a duplicate row, a delete and an update (ASCII instance, keyless table: key = hash) *)
Definition w_r2 : row := mkrow 2 2 [98;101;116;97;32;103;97;109;109;97].       (* "beta gamma" *)

Lemma all_short_dec rlen u : forallb (short rlen) u = true -> all_short rlen u.
Proof. intros H e He. rewrite forallb_forall in H. now apply H. Qed.

Lemma wfb_two_copies : wfb ([w_r1] ++ [w_r1]).
Proof. intros x y [<-|[<-|[]]] [<-|[<-|[]]] _; reflexivity. Qed.

Lemma sync_nonvacuous :
  valid_hist ascii_is_char ascii_rlen key_bin [] [OIns w_r1; OIns w_r1; ODel w_r1; OUpd w_r1 w_r2]
  /\ fold_left apply_rows [OIns w_r1; OIns w_r1; ODel w_r1; OUpd w_r1 w_r2] [] = [w_r2]
  /\ matches ascii_is_char ascii_rlen key_bin
       (run_ops ascii_is_char ascii_rlen key_bin [OIns w_r1; OIns w_r1; ODel w_r1; OUpd w_r1 w_r2]) [103;97;109;109;97] w_r2 = true.
Proof.
  split; [|split; vm_compute; reflexivity].
  cbn [valid_hist ok_op apply_rows app].
  repeat split.
  - intros x y [<-|[]] [<-|[]] _; reflexivity.
  - apply all_short_dec. vm_compute. reflexivity.
  - exact wfb_two_copies.
  - apply all_short_dec. vm_compute. reflexivity.
  - left. reflexivity.
  - vm_compute. left. reflexivity.
  - vm_compute. intros x y [<-|[]] [<-|[]] _; reflexivity.
  - apply all_short_dec. vm_compute. reflexivity.
Qed.
