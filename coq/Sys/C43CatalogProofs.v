(* Proofs about the C43 catalog model. *)
From Coq Require Import List NArith Bool Arith Lia.
Import ListNotations.
From GMS Require Import Sys.C43Catalog.
Open Scope N_scope.

Definition tnames (c : cat) : list name := map tname (tables c).

(* ---------- which table names exist after one statement ---------- *)
Lemma set_tbl_names : forall n t' ts, tname t' = n -> map tname (set_tbl n t' ts) = map tname ts.
Proof.
  intros n t' ts Hn. unfold set_tbl. rewrite map_map. apply map_ext_in. intros a _.
  destruct (N.eqb (tname a) n) eqn:E; [apply N.eqb_eq in E; congruence | reflexivity].
Qed.

Lemma find_tbl_name : forall n c t, find_tbl n c = Some t -> tname t = n.
Proof.
  intros n c t H. unfold find_tbl in H. apply find_some in H. destruct H as [_ H]. now apply N.eqb_eq in H.
Qed.

Lemma upd_names : forall c n ok f, (forall t, tname (f t) = tname t) -> tnames (snd (upd c n ok f)) = tnames c.
Proof.
  intros c n ok f Hf. unfold upd. destruct (find_tbl n c) as [t|] eqn:Ef; [|reflexivity].
  destruct (ok t); [|reflexivity]. cbn. unfold tnames. cbn.
  apply set_tbl_names. rewrite Hf. eapply find_tbl_name; eauto.
Qed.

Lemma upd_rest : forall c n ok f,
  fks (snd (upd c n ok f)) = fks c /\ views (snd (upd c n ok f)) = views c /\
  trigs (snd (upd c n ok f)) = trigs c /\ procs (snd (upd c n ok f)) = procs c.
Proof.
  intros. unfold upd. destruct (find_tbl n c); [destruct (ok t)|]; cbn; auto.
Qed.

Lemma upd_rejected : forall c n ok f, fst (upd c n ok f) = false -> snd (upd c n ok f) = c.
Proof.
  intros c n ok f. unfold upd. destruct (find_tbl n c); [destruct (ok t)|]; cbn; congruence.
Qed.

(* the table names after a statement, as a function of the names before *)
Definition created (o : op) (c : cat) : bool :=
  match o with
  | CreateTable t cs pk =>
    let names := map sname cs in
    negb (has_tbl t c) && negb (isnil cs) && nodupb names && forallb (fun n => mem n names) pk && nodupb pk
  | _ => false
  end.

Definition names_after (o : op) (c : cat) : list name :=
  match o with
  | CreateTable t _ _ => if created o c then tnames c ++ [t] else tnames c
  | DropTable t => if fst (step o c) then filter (fun x => negb (N.eqb x t)) (tnames c) else tnames c
  | RenameTable t u => if fst (step o c) then map (ren t u) (tnames c) else tnames c
  | _ => tnames c
  end.

Lemma filter_map_names : forall t ts,
  map tname (filter (fun x => negb (N.eqb (tname x) t)) ts) = filter (fun x => negb (N.eqb x t)) (map tname ts).
Proof.
  intros t ts. induction ts as [|a r IH]; [reflexivity|]. cbn. destruct (N.eqb (tname a) t); cbn; now rewrite IH.
Qed.

Lemma set_tbl_rename : forall t u x ts, tname x = u ->
  map tname (set_tbl t x ts) = map (ren t u) (map tname ts).
Proof.
  intros t u x ts Hx. unfold set_tbl. rewrite !map_map. apply map_ext. intros a. unfold ren.
  destruct (N.eqb (tname a) t); [assumption | reflexivity].
Qed.

Theorem step_table_names : forall o c, tnames (exec o c) = names_after o c.
Proof.
  intros o c. unfold exec. destruct o as [t cs pk | t | t u | t s p | t x | t x y | t i cs pre uq | t i x | t i | t cs | t | t f cs p pcs | t f | t k x b | t k | v b cs | v | g t before ev r | g | p v | p]; cbn [names_after created].
  - (* CreateTable *)
    cbn [step].
    destruct (negb (has_tbl t c) && negb (isnil cs) && nodupb (map sname cs)
              && forallb (fun n => mem n (map sname cs)) pk && nodupb pk); cbn; [|reflexivity].
    unfold tnames. cbn. now rewrite map_app.
  - (* DropTable *)
    cbn [step].
    destruct (has_tbl t c && forallb (trig_loads c) (trigs c)
              && negb (existsb (fun f => N.eqb (fparent f) t && negb (N.eqb (ftable f) t)) (fks c))); cbn; [|reflexivity].
    unfold tnames. cbn. apply filter_map_names.
  - (* RenameTable *)
    cbn [step]. destruct (find_tbl t c) as [x|]; [|reflexivity].
    destruct (negb (has_tbl u c)); cbn; [|reflexivity].
    unfold tnames. cbn. now apply set_tbl_rename.
  - apply upd_names; reflexivity.
  - (* DropColumn *)
    cbn [step]. destruct (find_tbl t c) as [tb|] eqn:Ef; [|reflexivity].
    destruct (find_col x tb) as [cl|]; [|reflexivity]. destruct (fn_depends x tb); [reflexivity|].
    match goal with |- context [if ?b then (false, _) else (true, _)] => destruct b end; cbn; unfold tnames; cbn; apply set_tbl_names; cbn; eapply find_tbl_name; eauto.
  - (* RenameColumn *)
    cbn [step].
    match goal with |- context [upd c t ?ok ?f] =>
      pose proof (upd_names c t ok f (fun _ => eq_refl)) as Hn; destruct (upd c t ok f) as [[|] c'] end;
      cbn in *; exact Hn.
  - apply upd_names; reflexivity.
  - apply upd_names; reflexivity.
  - apply upd_names. intros t0. unfold drop_idx_full_tbl. destruct (existsb _ _); reflexivity.
  - apply upd_names; reflexivity.
  - apply upd_names; reflexivity.
  - (* AddFK *)
    cbn [step]. destruct (find_tbl t c) as [tb|] eqn:Ef; [|reflexivity]. destruct (find_tbl p c) as [pb|]; [|reflexivity].
    match goal with |- context [if ?b then _ else (false, c)] => destruct b end; [|reflexivity].
    assert (Hs : tnames (with_tables c (set_tbl t (add_idx_tbl (mkidx f cs false t []) tb) (tables c))) = tnames c).
    { unfold tnames. cbn. apply set_tbl_names. cbn. eapply find_tbl_name; eauto. }
    destruct (negb (fk_index_ok tb cs false None)); cbn.
    + destruct (has_idx f tb || N.eqb f PRIMARY); [reflexivity|].
      destruct (existsb (fun g => N.eqb (fname g) f) (fks c)); cbn; [destruct (tmap tb); [exact Hs | reflexivity] | exact Hs].
    + destruct (existsb (fun g => N.eqb (fname g) f) (fks c)); cbn; [destruct (tmap tb); reflexivity | reflexivity].
  - cbn [step]. destruct (has_tbl t c && _); reflexivity.
  - apply upd_names; reflexivity.
  - apply upd_names; reflexivity.
  - cbn [step]. match goal with |- context [if ?b then _ else (false, c)] => destruct b end; reflexivity.
  - cbn [step]. destruct (has_view v c); reflexivity.
  - cbn [step]. match goal with |- context [if ?b then _ else (false, c)] => destruct b end; reflexivity.
  - cbn [step]. match goal with |- context [if ?b then _ else (false, c)] => destruct b end; reflexivity.
  - cbn [step]. match goal with |- context [if ?b then _ else (false, c)] => destruct b end; reflexivity.
  - cbn [step]. match goal with |- context [if ?b then _ else (false, c)] => destruct b end; reflexivity.
Qed.

(* ---------- over whole histories ---------- *)
Lemma mem_In : forall n l, mem n l = true <-> In n l.
Proof.
  intros n l. unfold mem. rewrite existsb_exists. split.
  - intros [x [Hx He]]. apply N.eqb_eq in He. now subst.
  - intros H. exists n. split; [assumption | apply N.eqb_refl].
Qed.

Lemma has_tbl_In : forall t c, has_tbl t c = true <-> In t (tnames c).
Proof.
  intros t c. unfold has_tbl, tnames. rewrite existsb_exists, in_map_iff. split.
  - intros [x [Hx He]]. apply N.eqb_eq in He. eauto.
  - intros [x [He Hx]]. exists x. split; [assumption | now apply N.eqb_eq].
Qed.

Lemma NoDup_filter {A} (f : A -> bool) l : NoDup l -> NoDup (filter f l).
Proof.
  induction 1 as [|a l Hn Hd IH]; cbn; [constructor|]. destruct (f a); [|assumption].
  constructor; [|assumption]. intros Hin. apply filter_In in Hin. tauto.
Qed.

Lemma NoDup_ren : forall t u l, NoDup l -> ~ In u l -> NoDup (map (ren t u) l).
Proof.
  intros t u l Hd Hu. induction Hd as [|a l Hn Hd IH]; cbn; [constructor|].
  constructor.
  - rewrite in_map_iff. intros [b [Hb Hin]]. unfold ren in Hb.
    destruct (N.eqb b t) eqn:Eb; destruct (N.eqb a t) eqn:Ea.
    + apply N.eqb_eq in Eb, Ea. subst. contradiction.
    + subst. apply Hu. now left.
    + subst. apply Hu. right. assumption.
    + subst. contradiction.
  - apply IH. intros H. apply Hu. now right.
Qed.

Lemma NoDup_snoc {A} (x : A) l : NoDup l -> ~ In x l -> NoDup (l ++ [x]).
Proof.
  induction 1 as [|a l Hn Hd IH]; cbn; intros Hx.
  - constructor; [tauto | constructor].
  - constructor.
    + rewrite in_app_iff. cbn. intros [H | [H | []]]; [contradiction | subst; apply Hx; now left].
    + apply IH. intros H. apply Hx. now right.
Qed.

Lemma step_keeps_unique_names : forall o c, NoDup (tnames c) -> NoDup (tnames (exec o c)).
Proof.
  intros o c Hd. rewrite step_table_names. destruct o as [t cs pk | t | t u | t s p | t x | t x y | t i cs pre uq | t i x | t i | t cs | t | t f cs p pcs | t f | t k x b | t k | v b cs | v | g t before ev r | g | p v | p]; cbn [names_after]; try assumption.
  - destruct (created (CreateTable t cs pk) c) eqn:E; [|assumption].
    cbn [created] in E. rewrite !andb_true_iff in E. destruct E as [[[[E _] _] _] _].
    apply negb_true_iff in E.
    apply NoDup_snoc; [assumption|]. intros Hin. apply has_tbl_In in Hin. congruence.
  - destruct (fst (step (DropTable t) c)); [now apply NoDup_filter | assumption].
  - destruct (fst (step (RenameTable t u) c)) eqn:E; [|assumption].
    apply NoDup_ren; [assumption|]. intros Hin. apply has_tbl_In in Hin.
    cbn [step] in E. destruct (find_tbl t c); [|discriminate]. rewrite Hin in E. discriminate.
Qed.

Theorem histories_keep_unique_names : forall h c, NoDup (tnames c) -> NoDup (tnames (run h c)).
Proof.
  induction h as [|o h IH]; intros c Hd; [assumption|]. cbn. apply IH. now apply step_keeps_unique_names.
Qed.

(* the set model: names created and not dropped, renamed along *)
Fixpoint live_names (h : list op) (c : cat) : list name :=
  match h with
  | [] => tnames c
  | o :: h' => live_names h' (exec o c)
  end.
Fixpoint names_fold (h : list op) (c : cat) (l : list name) : list name :=
  match h with
  | [] => l
  | o :: h' =>
    names_fold h' (exec o c)
      (match o with
       | CreateTable t _ _ => if created o c then l ++ [t] else l
       | DropTable t => if fst (step o c) then filter (fun x => negb (N.eqb x t)) l else l
       | RenameTable t u => if fst (step o c) then map (ren t u) l else l
       | _ => l
       end)
  end.

Theorem listed_tables_follow_history : forall h c, tnames (run h c) = names_fold h c (tnames c).
Proof.
  induction h as [|o h IH]; intros c; [reflexivity|]. cbn [run fold_left names_fold].
  change (fold_left (fun c0 o0 => exec o0 c0) h (exec o c)) with (run h (exec o c)).
  rewrite IH. rewrite step_table_names. destruct o; reflexivity.
Qed.

(* ---------- the listings show exactly the catalog ---------- *)
Theorem tables_rows_exact : forall c r,
  In r (tables_rows c) <->
  (exists t, In t (tables c) /\ r = [tname t; BASE]) \/ (exists v, In v (views c) /\ r = [vname v; VIEWT]).
Proof.
  intros c r. unfold tables_rows. rewrite in_app_iff, !in_map_iff. split.
  - intros [[t [E H]] | [v [E H]]]; [left; exists t | right; exists v]; auto.
  - intros [[t [H E]] | [v [H E]]]; [left; exists t | right; exists v]; auto.
Qed.

Theorem constraints_rows_exact : forall c r,
  In r (table_constraints_rows c) <->
  exists t, In t (tables c) /\
    ((exists k, In k (tchk t) /\ r = [kname k; tname t; T_CHECK])
     \/ (exists i, In i (all_idx t) /\ ((iname i = PRIMARY /\ r = [iname i; tname t; T_PK])
                                       \/ (iname i <> PRIMARY /\ iuniq i = true /\ r = [iname i; tname t; T_UNIQ])))
     \/ (exists f, In f (fks c) /\ ftable f = tname t /\ r = [fname f; tname t; T_FK])).
Proof.
  intros c r. unfold table_constraints_rows. rewrite in_flat_map. split.
  - intros [t [Ht H]]. exists t. split; [assumption|].
    rewrite !in_app_iff in H. destruct H as [H | [H | H]].
    + left. apply in_map_iff in H. destruct H as [k [E Hk]]. eauto.
    + right; left. apply in_flat_map in H. destruct H as [i [Hi H]]. exists i. split; [assumption|].
      destruct (N.eqb (iname i) PRIMARY) eqn:E.
      * apply N.eqb_eq in E. destruct H as [H|[]]. left. auto.
      * apply N.eqb_neq in E. destruct (iuniq i); [|destruct H]. destruct H as [H|[]]. right. auto.
    + right; right. apply in_map_iff in H. destruct H as [f [E Hf]]. unfold table_fks in Hf.
      apply filter_In in Hf. destruct Hf as [Hf Hn]. apply N.eqb_eq in Hn. exists f. auto.
  - intros [t [Ht H]]. exists t. split; [assumption|]. rewrite !in_app_iff.
    destruct H as [[k [Hk E]] | [[i [Hi H]] | [f [Hf [Hn E]]]]].
    + left. apply in_map_iff. eauto.
    + right; left. apply in_flat_map. exists i. split; [assumption|].
      destruct H as [[Hp E] | [Hp [Hu E]]].
      * rewrite Hp, N.eqb_refl. left. rewrite <- Hp. auto.
      * apply N.eqb_neq in Hp. rewrite Hp, Hu. left. auto.
    + right; right. apply in_map_iff. exists f. split; [auto|]. unfold table_fks. apply filter_In.
      split; [assumption | now apply N.eqb_eq].
Qed.

(* ordinal positions: the visible columns of a table are listed in schema order; the position counts every schema
   column, hidden system columns included (so it is 1, 2, ... exactly when the table has none) *)
Fixpoint numbered (n : N) (l : list name) : list (name * N) :=
  match l with [] => [] | x :: r => (x, n) :: numbered (n + 1) r end.
Fixpoint numbered_visible (n : N) (l : list col) : list (name * N) :=
  match l with
  | [] => []
  | x :: r => if visible x then (cname x, n) :: numbered_visible (n + 1) r else numbered_visible (n + 1) r
  end.

Lemma col_keys_length : forall m cs b, length (col_keys m b cs) = length cs.
Proof.
  intros m cs. induction cs as [|c r IH]; intros b; cbn; [reflexivity|].
  destruct (cpk c); cbn; [now rewrite IH|].
  destruct (key_lookup m (cname c)); cbn; [|now rewrite IH].
  destruct (negb (cnull c) && negb b && N.eqb n K_UNI); cbn; now rewrite IH.
Qed.

Lemma columns_numbered : forall tn n cs ks, length ks = length cs ->
  map (fun r => (nth 1 r 0, nth 2 r 0))
      (map (fun p => let '(n, (c, k)) := p in [tn; cname c; n; yesno (cnull c); cty c; k; def_code (cdef c); ccom c])
           (filter (fun p : N * (col * N) => visible (fst (snd p))) (number_from n (combine cs ks))))
  = numbered_visible n cs.
Proof.
  intros tn n cs. revert n. induction cs as [|c r IH]; intros n ks Hl; [reflexivity|].
  destruct ks as [|k ks]; [discriminate|]. cbn. cbn in Hl.
  destruct (visible c); cbn; [f_equal|]; apply IH; lia.
Qed.

Theorem columns_ordinals_exact : forall t,
  map (fun r => (nth 1 r 0, nth 2 r 0)) (table_columns_rows t) = numbered_visible 1 (tcols t).
Proof.
  intros t. unfold table_columns_rows. apply columns_numbered. apply col_keys_length.
Qed.

Lemma numbered_visible_all : forall cs n, forallb visible cs = true -> numbered_visible n cs = numbered n (map cname cs).
Proof.
  induction cs as [|c r IH]; intros n H; [reflexivity|]. cbn in *. apply andb_true_iff in H. destruct H as [Hc Hr].
  rewrite Hc. f_equal. now apply IH.
Qed.

Theorem columns_ordinals_contiguous : forall t, has_hidden t = false ->
  map (fun r => (nth 1 r 0, nth 2 r 0)) (table_columns_rows t) = numbered 1 (colnames t).
Proof.
  intros t H. rewrite columns_ordinals_exact. apply numbered_visible_all.
  unfold has_hidden in H. clear -H. induction (tcols t) as [|c r IH]; [reflexivity|]. cbn in *.
  destruct (visible c); cbn in *; [now apply IH | discriminate].
Qed.

Theorem columns_rows_belong_to_table : forall t r, In r (table_columns_rows t) -> nth 0 r 0 = tname t.
Proof.
  intros t r H. unfold table_columns_rows in H. apply in_map_iff in H.
  destruct H as [[n [c k]] [E _]]. subst. reflexivity.
Qed.

(* STATISTICS: exactly one row per (index, key position) *)
Lemma number_nat_nth {A} : forall (l : list A) n p,
  In p (number_nat n l) <-> exists k, nth_error l k = Some (snd p) /\ fst p = (n + k)%nat.
Proof.
  induction l as [|a r IH]; intros n p; cbn.
  - split; [tauto | intros [k [H _]]; destruct k; discriminate].
  - split.
    + intros [E | H].
      * subst. exists O. cbn. split; [reflexivity | lia].
      * apply IH in H. destruct H as [k [H1 H2]]. exists (S k). cbn. split; [assumption | lia].
    + intros [k [H1 H2]]. destruct k as [|k]; cbn in H1.
      * left. destruct p. cbn in *. inversion H1. subst. f_equal. lia.
      * right. apply IH. exists k. split; [assumption | lia].
Qed.

Theorem statistics_rows_exact : forall t r,
  In r (table_statistics_rows t) <->
  exists i k x, In i (all_idx t) /\ nth_error (icols i) k = Some x /\
    r = [tname t; bN (negb (iuniq i)); iname i; N.of_nat k + 1; col_shown t x; col_nullable t x; sub_part i k; col_expr t x].
Proof.
  intros t r. unfold table_statistics_rows. rewrite in_flat_map. split.
  - intros [i [Hi H]]. unfold index_rows in H. apply in_map_iff in H. destruct H as [[n x] [E H]].
    apply number_nat_nth in H. destruct H as [k [H1 H2]]. cbn in *. subst. exists i, k, x. auto.
  - intros [i [k [x [Hi [Hk E]]]]]. exists i. split; [assumption|]. unfold index_rows. apply in_map_iff.
    exists (k, x). split; [now subst|]. apply number_nat_nth. exists k. auto.
Qed.

(* ---------- DROP TABLE cascades; RENAME TABLE moves one object ---------- *)
Theorem drop_table_cascade : forall t c c', step (DropTable t) c = (true, c') ->
  ~ In t (tnames c') /\
  (forall f, In f (fks c') -> ftable f <> t /\ fparent f <> t) /\
  (forall g, In g (trigs c') -> gtable g <> t) /\
  (forall x, In x (tables c') <-> In x (tables c) /\ tname x <> t) /\
  views c' = views c /\ procs c' = procs c.
Proof.
  intros t c c' H. cbn [step] in H.
  destruct (has_tbl t c && forallb (trig_loads c) (trigs c)
            && negb (existsb (fun f => N.eqb (fparent f) t && negb (N.eqb (ftable f) t)) (fks c))) eqn:E; [|discriminate].
  inversion H; subst; clear H. cbn. rewrite !andb_true_iff in E. destruct E as [_ E]. apply negb_true_iff in E.
  split; [|split; [|split; [|split; [|split; reflexivity]]]].
  - unfold tnames. cbn. rewrite in_map_iff. intros [x [Hx Hin]]. apply filter_In in Hin. destruct Hin as [_ Hn].
    apply negb_true_iff in Hn. apply N.eqb_neq in Hn. contradiction.
  - intros f Hf. apply filter_In in Hf. destruct Hf as [Hf Hn]. apply negb_true_iff in Hn. apply N.eqb_neq in Hn.
    split; [assumption|].
    intros Hp. assert (X : existsb (fun f => N.eqb (fparent f) t && negb (N.eqb (ftable f) t)) (fks c) = true).
    { apply existsb_exists. exists f. split; [assumption|]. apply andb_true_iff. split; [now apply N.eqb_eq|].
      apply negb_true_iff. now apply N.eqb_neq. }
    congruence.
  - intros g Hg. apply filter_In in Hg. destruct Hg as [_ Hn]. apply negb_true_iff in Hn. now apply N.eqb_neq in Hn.
  - intros x. rewrite filter_In, negb_true_iff, N.eqb_neq. tauto.
Qed.

Theorem rename_table_moves_one : forall t u c c', step (RenameTable t u) c = (true, c') ->
  tnames c' = map (ren t u) (tnames c) /\ In t (tnames c) /\ ~ In u (tnames c) /\
  views c' = views c /\ trigs c' = trigs c /\ procs c' = procs c /\
  map fname (fks c') = map fname (fks c).
Proof.
  intros t u c c' H. cbn [step] in H. destruct (find_tbl t c) as [x|] eqn:Ef; [|discriminate].
  destruct (negb (has_tbl u c)) eqn:Eu; [|discriminate]. inversion H; subst; clear H. cbn.
  split; [|split; [|split; [|split; [|split; [|split]]]]]; try reflexivity.
  - unfold tnames. cbn. now apply set_tbl_rename.
  - unfold find_tbl in Ef. apply find_some in Ef. destruct Ef as [Hin He]. apply N.eqb_eq in He.
    unfold tnames. apply in_map_iff. eauto.
  - intros Hin. apply has_tbl_In in Hin. apply negb_true_iff in Eu. congruence.
  - rewrite map_map. reflexivity.
Qed.

(* ---------- a rejected statement has no effect: the guarded theorem and the exceptions ---------- *)
Definition no_leak (o : op) (c : cat) : bool :=
  match o with
  | CreateTable t _ _ => negb (has_view t c)
  | RenameTable _ u => negb (has_tbl u c)
  | AddFK _ _ _ _ _ => false
  | DropColumn _ _ => false
  | _ => true
  end.

Theorem rejected_statement_no_effect : forall o c, no_leak o c = true -> fst (step o c) = false -> snd (step o c) = c.
Proof.
  intros o c Hg. destruct o as [t cs pk | t | t u | t s p | t x | t x y | t i cs pre uq | t i x | t i | t cs | t | t f cs p pcs | t f | t k x b | t k | v b cs | v | g t before ev r | g | p v | p]; cbn [no_leak] in Hg; try discriminate; cbn [step];
    try (apply upd_rejected);
    try (match goal with |- context [if ?b then (true, _) else (false, c)] => destruct b; cbn; congruence end).
  - rewrite Hg. match goal with |- context [if ?b then _ else (false, c)] => destruct b; cbn; congruence end.
  - destruct (find_tbl t c); [|reflexivity]. rewrite Hg. cbn. congruence.
  - match goal with |- context [upd c t ?ok ?f] =>
      pose proof (upd_rejected c t ok f) as Hr; destruct (upd c t ok f) as [[|] c'] end; cbn in *; [congruence | exact Hr].
Qed.

(* ---------- guarded listings of views and triggers ---------- *)
Lemma filter_all {A} (f : A -> bool) l : forallb f l = true -> filter f l = l.
Proof.
  induction l as [|a r IH]; cbn; [reflexivity|]. intros H. apply andb_true_iff in H. destruct H as [Ha Hr].
  rewrite Ha. now rewrite IH.
Qed.

Theorem views_rows_exact_when_resolving : forall c, forallb (view_resolves c) (views c) = true ->
  views_rows c = map (fun v => vname v :: vbase v :: vcols v) (views c).
Proof. intros c H. unfold views_rows. now rewrite filter_all. Qed.

Theorem views_rows_sound : forall c r, In r (views_rows c) -> exists v, In v (views c) /\ r = vname v :: vbase v :: vcols v.
Proof.
  intros c r H. unfold views_rows in H. apply in_map_iff in H. destruct H as [v [E Hv]].
  apply filter_In in Hv. destruct Hv as [Hv _]. exists v. split; [assumption | now symmetry].
Qed.

Theorem show_triggers_exact_when_loading : forall c, forallb (trig_loads c) (trigs c) = true ->
  show_triggers_rows c = Some (map (fun g => [gname g; gevent g; gtable g; bN (gbefore g); ref_code (gref g)]) (trigs c)).
Proof. intros c H. unfold show_triggers_rows. now rewrite H. Qed.

Theorem routines_rows_exact : forall c, routines_rows c = map (fun p => [pname p; pval p]) (procs c).
Proof. reflexivity. Qed.

(* ---------- witnesses (faithful model vs. the property) ---------- *)
Definition cat_view5 : cat := mkcat [] [] [mkview 5 7 [1]] [] [].
Lemma rejected_create_has_effect :
  exists o c, fst (step o c) = false /\ tables (snd (step o c)) <> tables c.
Proof. exists (CreateTable 5 [mkcs 1 1 true None 0] []), cat_view5. split; [reflexivity | vm_compute; discriminate]. Qed.
Definition h_fk : list op :=
  [CreateTable 1 [mkcs 10 1 false None 0] [10]; CreateTable 2 [mkcs 10 1 false None 0; mkcs 11 1 true None 0] [10]; CreateTable 3 [mkcs 10 1 false None 0] [10];
   AddFK 2 20 [11] 1 [10]; RenameTable 1 3].
Lemma rejected_rename_rewrites_fk :
  fst (step (RenameTable 1 3) (run (removelast h_fk) empty)) = false /\
  map fparent (fks (run (removelast h_fk) empty)) = [1] /\ map fparent (fks (run h_fk empty)) = [3].
Proof. repeat split; vm_compute; reflexivity. Qed.
Definition h_view : list op := [CreateTable 1 [mkcs 10 1 true None 0] []; CreateView 30 1 [10]; RenameColumn 1 10 11].
Lemma view_not_listed :
  map vname (views (run h_view empty)) = [30] /\ In [30; VIEWT] (tables_rows (run h_view empty)) /\
  views_rows (run h_view empty) = [].
Proof. split; [|split]; vm_compute; auto. Qed.
Definition h_trig : list op := [CreateTable 1 [mkcs 10 1 true None 0] []; CreateTrigger 40 1 true 0 (Some 10); RenameTable 1 2].
Lemma triggers_unlistable :
  map gname (trigs (run h_trig empty)) = [40] /\ show_triggers_rows (run h_trig empty) = None /\
  is_triggers_rows (run h_trig empty) = None /\ fst (step (DropTable 2) (run h_trig empty)) = false.
Proof. repeat split; vm_compute; reflexivity. Qed.
Definition h_pk : list op :=
  [CreateTable 1 [mkcs 10 1 true None 0; mkcs 11 1 false None 0; mkcs 12 1 false None 0] [11; 12]; RenameColumn 1 12 13].
Lemma pk_garbled :
  option_map pk_cols (find_tbl 1 (run (removelast h_pk) empty)) = Some [11; 12] /\
  option_map pk_cols (find_tbl 1 (run h_pk empty)) = Some [13; 10].
Proof. split; vm_compute; reflexivity. Qed.
Definition h_ok : list op :=
  [CreateTable 1 [mkcs 10 1 false None 0; mkcs 11 1 true None 0] [10]; CreateTable 2 [mkcs 10 1 false None 0; mkcs 11 1 true None 0] [10];
   CreateIndex 1 50 [11] [] true; AddFK 2 20 [11] 1 [11]; AddCheck 2 60 11 5; RenameTable 2 3; DropTable 3; DropTable 1].
