(* Model of /repo/errguard/errguard.go (C48): errguard.Go = errgroup.Group.Go of a wrapper with a deferred recover.
   Definitions only; proofs in ErrGuardProofs.v.

   A function run in a group is a behaviour tree: it returns nil / an error, panics with a value (only the %v
   text of the value matters to the wrapper), calls runtime.Goexit, or runs a nested group of guarded functions,
   waits for it and then finishes in one of four ways.  errgroup.Group.Wait returns the first non-nil error in
   COMPLETION order; the completion order of every group is an explicit input ([order], a list of child indexes)
   over which the theorems quantify.

   Assumed about Go (not derived): a deferred function calling recover() directly obtains the panic value and
   stops the panic; the value is never nil (panic(nil) is a *runtime.PanicNilError since Go 1.21); recover()
   returns nil when the goroutine is not panicking (normal return, Goexit); fmt's %v never panics. *)
From Coq Require Import List NArith Bool Permutation.
Import ListNotations.

Definition bytes := list N.

(* error values seen by errgroup: a value the function returned (identified by an id: same pointer), or the error
   minted by the wrapper for a recovered panic *)
Inductive errv :=
| EId (id : N)
| ERec (text : bytes).      (* fmt.Errorf("panic recovered: %v\n%s", r, debug.Stack()) with %v of r = text *)

Inductive post :=
| PReturnInner                 (* return inner.Wait() unchanged *)
| PPanicIfInner (text : bytes) (* if inner.Wait() != nil { panic(text) }; return nil *)
| PRet (e : option N)          (* ignore the inner result; return nil / an own error *)
| PPan (text : bytes).         (* ignore the inner result; panic *)

Inductive beh :=
| Ret (e : option N)
| Pan (text : bytes)
| Goexit
| Nest (order : list nat) (children : list beh) (p : post).

(* how the call fn() ends inside the wrapper's goroutine *)
Inductive raw :=
| RRet (e : option errv)
| RPanic (text : bytes)
| RGoexit.

(* how a goroutine's top function ends *)
Inductive gend :=
| Normal (e : option errv)     (* returned e to errgroup's closure *)
| Exited                       (* runtime.Goexit ran the deferred calls and ended the goroutine *)
| Crashed (text : bytes).      (* the panic reached the top of the goroutine: the PROCESS dies *)

(* recover() inside the deferred function *)
Definition recovered (r : raw) : option bytes := match r with RPanic t => Some t | _ => None end.

(* func() (err error) { defer func() { if r := recover(); r != nil { err = fmt.Errorf(...) } }(); return fn() } *)
Definition wrapper (r : raw) : gend :=
  let err := match r with RRet e => e | _ => None end in          (* the named result after "return fn()" *)
  match recovered r with
  | Some t => Normal (Some (ERec t))                               (* panic stopped; err overwritten; normal return *)
  | None => match r with RGoexit => Exited | _ => Normal err end
  end.

(* the same goroutine WITHOUT the deferred recover (plain g.Go(fn)), for contrast *)
Definition unguarded (r : raw) : gend :=
  match r with RRet e => Normal e | RPanic t => Crashed t | RGoexit => Exited end.

(* what errgroup's closure sees: if err := f(); err != nil { errOnce.Do(...) } — nothing when the goroutine exited *)
Definition recorded (g : gend) : option errv := match g with Normal e => e | _ => None end.

(* Wait(): the first non-nil error in completion order *)
Fixpoint first_err (order : list nat) (outs : list (option errv)) : option errv :=
  match order with
  | [] => None
  | i :: rest => match nth i outs None with Some e => Some e | None => first_err rest outs end
  end.

Fixpoint run_fn (b : beh) : raw :=
  match b with
  | Ret e => RRet (option_map EId e)
  | Pan t => RPanic t
  | Goexit => RGoexit
  | Nest order children p =>
      let w := first_err order (map (fun c => recorded (wrapper (run_fn c))) children) in
      match p with
      | PReturnInner => RRet w
      | PPanicIfInner t => match w with Some _ => RPanic t | None => RRet None end
      | PRet e => RRet (option_map EId e)
      | PPan t => RPanic t
      end
  end.

(* errguard.Go(g, fn): the goroutine's end, and what the group records *)
Definition guard_end (b : beh) : gend := wrapper (run_fn b).
Definition guard (b : beh) : option errv := recorded (guard_end b).

(* a top-level group: errguard.Go for every child, then Wait *)
Definition group_wait (order : list nat) (children : list beh) : option errv :=
  first_err order (map guard children).

(* every goroutine of the tree (the children of every nested group, recursively) *)
Fixpoint goroutines (b : beh) : list beh :=
  b :: match b with
       | Nest _ children _ => flat_map goroutines children
       | _ => []
       end.

(* "panic recovered: " *)
Definition s_prefix : bytes := [112;97;110;105;99;32;114;101;99;111;118;101;114;101;100;58;32]%N.
(* the message of an error, given the stack text debug.Stack() produced *)
Definition message (stack : bytes) (e : errv) : option bytes :=
  match e with
  | EId _ => None                                   (* the function's own error: untouched *)
  | ERec t => Some (s_prefix ++ t ++ [10%N] ++ stack)
  end.

(* [order] is a completion order of a group with n members: every member completes exactly once *)
Definition is_schedule (order : list nat) (n : nat) : Prop := Permutation.Permutation order (seq 0 n).

Fixpoint well_scheduled (b : beh) : Prop :=
  match b with
  | Nest order children _ =>
      is_schedule order (length children) /\
      (fix all (l : list beh) : Prop := match l with [] => True | c :: l' => well_scheduled c /\ all l' end) children
  | _ => True
  end.
