(* C36 — the memory manager's cache registry (sql/memory.go MemoryManager: addCache / removeCache under mu,
   NumCaches), shared by all sessions of a server.  addCache: token++; caches[token] = c; removeCache(pos):
   delete(caches, pos); if the map is empty the token counter restarts at 0.  Each step is atomic (mu held). *)
From Coq Require Import List NArith ZArith Lia Bool.
Import ListNotations.
Open Scope N_scope.

Inductive mev := MAdd | MRem (p : N).

Record mstate := mkM { tok : N; live : list N }.
Definition minit : mstate := mkM 0 [].

Definition mstep (s : mstate) (e : mev) : mstate :=
  match e with
  | MAdd => mkM (tok s + 1) ((tok s + 1) :: live s)
  | MRem p => let l := filter (fun x => negb (N.eqb x p)) (live s) in
              mkM (match l with [] => 0 | _ => tok s end) l
  end.

(* the discipline: a dispose function is called once, for a cache that was added (position currently live) *)
Definition mok (s : mstate) (e : mev) : Prop := match e with MAdd => True | MRem p => In p (live s) end.

Fixpoint mrun (s : mstate) (es : list mev) : mstate := match es with [] => s | e :: r => mrun (mstep s e) r end.
Fixpoint mwf (s : mstate) (es : list mev) : Prop :=
  match es with [] => True | e :: r => mok s e /\ mwf (mstep s e) r end.

Fixpoint adds (es : list mev) : Z := match es with [] => 0 | MAdd :: r => 1 + adds r | _ :: r => adds r end.
Fixpoint rems (es : list mev) : Z := match es with [] => 0 | MRem _ :: r => 1 + rems r | _ :: r => rems r end.

Record MInv (s : mstate) : Prop := {
  mi_nodup : NoDup (live s);
  mi_le : forall p, In p (live s) -> 0 < p <= tok s;
  mi_zero : live s = [] -> tok s = 0
}.

Lemma minv_init : MInv minit.
Proof. split; cbn; [constructor|tauto|reflexivity]. Qed.

Lemma filter_neq_length p l : NoDup l -> In p l ->
  Z.of_nat (length (filter (fun x => negb (N.eqb x p)) l)) = (Z.of_nat (length l) - 1)%Z.
Proof.
  induction l as [|x r IH]; cbn [In filter length]; [tauto|]. intros Hnd [->|Hin]; inversion Hnd as [|? ? Hn Hnd']; subst.
  - rewrite N.eqb_refl. cbn [negb].
    assert (filter (fun x => negb (N.eqb x p)) r = r) as ->.
    { clear -Hn. induction r as [|y r IH]; cbn; [reflexivity|].
      destruct (N.eqb_spec y p) as [->|]; cbn; [exfalso; apply Hn; now left|].
      rewrite IH; [reflexivity|]. intros H. apply Hn. now right. }
    rewrite Nat2Z.inj_succ. lia.
  - destruct (N.eqb_spec x p) as [->|Hne]; [contradiction|]. cbn [negb length]. rewrite Nat2Z.inj_succ, IH by assumption. lia.
Qed.

Lemma minv_step s e : MInv s -> mok s e -> MInv (mstep s e).
Proof.
  intros [Hnd Hle Hz] Hok. destruct e as [|p]; cbn.
  - split; cbn.
    + constructor; [|exact Hnd]. intros H. apply Hle in H. lia.
    + intros q [<-|H]; [lia|]. apply Hle in H. lia.
    + discriminate.
  - split; cbn.
    + now apply NoDup_filter.
    + intros q Hq. revert Hq. destruct (filter (fun x => negb (N.eqb x p)) (live s)) as [|y l'] eqn:E; intros Hq; [contradiction|].
      rewrite <- E in Hq. apply filter_In in Hq as [Hq _]. exact (Hle _ Hq).
    + intros ->. reflexivity.
Qed.

Lemma mrun_facts es : forall s, MInv s -> mwf s es ->
  MInv (mrun s es) /\ Z.of_nat (length (live (mrun s es))) = (Z.of_nat (length (live s)) + adds es - rems es)%Z.
Proof.
  induction es as [|e r IH]; intros s HI Hwf; cbn [mrun adds rems]; [split; [exact HI|lia]|].
  destruct Hwf as [Hok Hwf]. destruct (IH _ (minv_step _ _ HI Hok) Hwf) as [HI' Hlen]. split; [exact HI'|].
  rewrite Hlen. destruct e as [|p]; cbn [mstep live adds rems length].
  - rewrite Nat2Z.inj_succ. lia.
  - rewrite (filter_neq_length p (live s) (mi_nodup _ HI) Hok). lia.
Qed.

(* for every interleaving of addCache / removeCache calls in which every dispose function is called once:
   live positions are pairwise distinct (a dispose never removes another cache), the position handed out next
   is not live, NumCaches = adds - removes, and when every cache has been disposed the registry is empty and
   the token counter is back at 0 *)
Theorem cache_registry_consistent es :
  mwf minit es ->
  let s := mrun minit es in
  NoDup (live s) /\ ~ In (tok s + 1) (live s) /\
  Z.of_nat (length (live s)) = (adds es - rems es)%Z /\
  (adds es = rems es -> live s = [] /\ tok s = 0).
Proof.
  intros Hwf s. destruct (mrun_facts es minit minv_init Hwf) as [HI Hlen]. fold s in HI, Hlen. cbn in Hlen.
  repeat split.
  - exact (mi_nodup _ HI).
  - intros H. apply (mi_le _ HI) in H. lia.
  - lia.
  - destruct (live s) eqn:E; [reflexivity|]. cbn [length] in Hlen. rewrite Nat2Z.inj_succ in Hlen. lia.
  - apply (mi_zero _ HI). destruct (live s) eqn:E; [reflexivity|]. cbn [length] in Hlen. rewrite Nat2Z.inj_succ in Hlen. lia.
Qed.

Example registry_demo :
  mwf minit [MAdd; MAdd; MRem 1; MAdd; MRem 3; MRem 2; MAdd] /\
  mrun minit [MAdd; MAdd; MRem 1; MAdd; MRem 3; MRem 2; MAdd] = mkM 1 [1].
Proof. cbn. intuition. Qed.
