(* C44 -- model of system / user variable storage and scoping.

   Mirrors (go-mysql-server at the pin):
     sql/types/system_bool.go   SystemBoolType.Convert        -> conv_bool
     sql/types/system_int.go    systemIntType.Convert         -> conv_int
     sql/types/system_uint.go   systemUintType.Convert        -> conv_uint     (types.DecimalIntPartUint64 -> dec_int_part)
     sql/types/system_double.go systemDoubleType.Convert      -> conv_double
     sql/types/system_enum.go   systemEnumType.Convert        -> conv_enum     (NewSystemEnumType's valToIndex -> enum_index)
     sql/types/system_string.go systemStringType.Convert      -> conv_string
     sql/core.go                MysqlSystemVariable.SetValue / InitValue / IsReadOnly, MysqlScope.SetValue / GetValue
     sql/variables/system_variables.go  InitSystemVariables, SetGlobal, GetGlobal, NewSessionMap
     sql/base_session.go        SetSessionVariable, setSessVar, GetSessionVariable;  sql/uservars.go Set/GetUserVariable
     sql/rowexec/rel_iters.go   setSystemVar / setUserVar;  sql/planbuilder/set.go buildSysVar (explicit @@session. on a
                                GLOBAL-only variable is an error, the bare @@x reads the session map)
   Quirks are kept: every integer kind is funnelled through int64(...) or uint64(...) with Go's wrapping conversion,
   decimals lose their sign on the unsigned path, the bare @@x of a GLOBAL-only variable reads the session's snapshot. *)
From Coq Require Import String Ascii ZArith NArith List Bool Lia.
Import ListNotations.
From GMS Require Import Sys.C44SysVarsBase.
Open Scope Z_scope.

(* ---------- Go integer conversions ---------- *)
Definition two63 : Z := 9223372036854775808.
Definition two64 : Z := 18446744073709551616.
Definition two53 : Z := 9007199254740992.

(* int64(x) / int(x) for an integer x of any kind (identity on [-2^63, 2^63), wrapping otherwise) *)
Definition wrap_s (z : Z) : Z := (z + two63) mod two64 - two63.
(* uint64(x) *)
Definition wrap_u (z : Z) : Z := z mod two64.

Definition in_i64 (z : Z) : bool := (- two63 <=? z) && (z <? two63).
Definition in_u64 (z : Z) : bool := (0 <=? z) && (z <? two64).

(* ---------- strings ---------- *)
Definition lower_ascii (c : ascii) : ascii :=
  let n := N_of_ascii c in
  if (65 <=? n)%N && (n <=? 90)%N then ascii_of_N (n + 32) else c.

Fixpoint lower (s : string) : string :=
  match s with
  | EmptyString => EmptyString
  | String c r => String (lower_ascii c) (lower r)
  end.

(* strconv.ParseInt(s, 10, 64): optional sign, one or more decimal digits, value in int64 *)
Fixpoint digits (s : string) (acc : Z) : option Z :=
  match s with
  | EmptyString => Some acc
  | String c r =>
      let n := Z.of_N (N_of_ascii c) in
      if (48 <=? n) && (n <=? 57) then digits r (acc * 10 + (n - 48)) else None
  end.

Definition parse_int (s : string) : option Z :=
  match s with
  | EmptyString => None
  | String c r =>
      let n := N_of_ascii c in
      let neg := (n =? 45)%N in
      let body := if neg || (n =? 43)%N then r else s in
      match body with
      | EmptyString => None
      | _ => match digits body 0 with
             | None => None
             | Some m => let v := if neg then - m else m in
                         if in_i64 v then Some v else None
             end
      end
  end.

(* ---------- results ---------- *)
Inductive res : Type :=
| Ok (v : gval)
| Err                      (* ErrInvalidSystemVariableValue and friends *)
| Unm.                     (* outside the model (see docs/C44.md): never compared, never proved about *)

(* value == float64(int64(value)) for the float n/d: integral and inside int64 (amd64: an out-of-range conversion
   yields MinInt64, which differs from the value) *)
Definition frac_int (n : Z) (d : positive) : option Z :=
  if Z.rem n (Zpos d) =? 0 then Some (Z.quot n (Zpos d)) else None.

Definition float_i64 (n : Z) (d : positive) : option Z :=
  match frac_int n d with
  | Some z => if in_i64 z then Some z else None
  | None => None
  end.

Definition float_u64 (n : Z) (d : positive) : option Z :=
  match frac_int n d with
  | Some z => if in_u64 z then Some z else None
  | None => None
  end.

(* types.DecimalIntPartUint64: Quantize to scale 0 (round half up on the magnitude), then Coeff.Uint64(): the sign is lost *)
Definition dec_int_part (n : Z) (d : positive) : Z :=
  wrap_u ((2 * Z.abs n + Zpos d) / (2 * Zpos d)).

(* ---------- Convert of the system types ---------- *)
Definition conv_bool_i64 (z : Z) : res :=
  if (z =? 0) || (z =? 1) then Ok (GI KInt8 z) else Err.

Definition conv_bool (v : gval) : res :=
  match v with
  | GBool b => Ok (GI KInt8 (if b then 1 else 0))
  | GI _ z => conv_bool_i64 (wrap_s z)
  | GF n d | GD n d => match float_i64 n d with Some z => conv_bool_i64 z | None => Err end
  | GS s =>
      let l := lower s in
      if String.eqb l "on" || String.eqb l "true" then Ok (GI KInt8 1)
      else if String.eqb l "off" || String.eqb l "false" then Ok (GI KInt8 0)
      else Err
  | _ => Err
  end.

Definition conv_int_i64 (lo hi : Z) (neg1 : bool) (z : Z) : res :=
  if (lo <=? z) && (z <=? hi) then Ok (GI KInt64 z)
  else if neg1 && (z =? -1) then Ok (GI KInt64 z)
  else Err.

Definition conv_int (lo hi : Z) (neg1 : bool) (v : gval) : res :=
  match v with
  | GI _ z => conv_int_i64 lo hi neg1 (wrap_s z)
  | GF n d | GD n d => match float_i64 n d with Some z => conv_int_i64 lo hi neg1 z | None => Err end
  | GS s => match parse_int s with Some z => conv_int_i64 lo hi neg1 z | None => Err end
  | _ => Err
  end.

Definition conv_uint_u64 (lo hi : Z) (z : Z) : res :=
  if (lo <=? z) && (z <=? hi) then Ok (GI KUint64 z) else Err.

Definition conv_uint (lo hi : Z) (v : gval) : res :=
  match v with
  | GI _ z => conv_uint_u64 lo hi (wrap_u z)
  | GF n d => match float_u64 n d with Some z => conv_uint_u64 lo hi z | None => Err end
  | GD n d => conv_uint_u64 lo hi (dec_int_part n d)
  | _ => Err
  end.

Definition conv_double_q (lo hi : Z) (n : Z) (d : positive) : res :=
  if (lo * Zpos d <=? n) && (n <=? hi * Zpos d) then Ok (GF n d) else Err.

Definition conv_double (lo hi : Z) (v : gval) : res :=
  match v with
  | GI _ z => if (Z.abs z <=? two53) then conv_double_q lo hi z 1 else Unm   (* float64(z) rounds *)
  | GF n d | GD n d => conv_double_q lo hi n d    (* a decimal is taken to be exactly representable *)
  | GS _ => Unm                                   (* strconv.ParseFloat *)
  | _ => Err
  end.

(* valToIndex[strings.ToLower(value)] = i  for i = 0..: the LAST position with that lower-cased name wins *)
Fixpoint enum_index (vals : list string) (l : string) (i : nat) (acc : option nat) : option nat :=
  match vals with
  | [] => acc
  | x :: r => enum_index r l (S i) (if String.eqb (lower x) l then Some i else acc)
  end.

Definition conv_enum_idx (vals : list string) (z : Z) : res :=
  if (0 <=? z) && (z <? Z.of_nat (length vals))
  then match nth_error vals (Z.to_nat z) with Some s => Ok (GS s) | None => Err end
  else Err.

Definition conv_enum (vals : list string) (v : gval) : res :=
  match v with
  | GI _ z => conv_enum_idx vals (wrap_s z)
  | GF n d | GD n d => match float_i64 n d with Some z => conv_enum_idx vals z | None => Err end
  | GS s => match enum_index vals (lower s) 0 None with
            | Some i => match nth_error vals i with Some x => Ok (GS x) | None => Err end
            | None => Err
            end
  | _ => Err
  end.

Definition conv_string (v : gval) : res :=
  match v with
  | GNil => Ok (GS "")
  | GS s => Ok (GS s)
  | _ => Err
  end.

(* ----- the SET-typed variables: systemSetType.Convert over types.SetType (sql/types/system_set.go, set.go) ----- *)
Definition is_comma (c : ascii) : bool := (N_of_ascii c =? 44)%N.
Definition is_space (c : ascii) : bool := (N_of_ascii c =? 32)%N.

(* the pieces between commas (never an empty list) *)
Fixpoint split_comma (s : string) : list string :=
  match s with
  | EmptyString => [EmptyString]
  | String c r =>
      if is_comma c then EmptyString :: split_comma r
      else match split_comma r with
           | [] => [String c EmptyString]
           | p :: ps => String c p :: ps
           end
  end.

(* strings.TrimRight(s, " ") *)
Fixpoint trim_right (s : string) : string :=
  match s with
  | EmptyString => EmptyString
  | String c r =>
      match trim_right r with
      | EmptyString => if is_space c then EmptyString else String c EmptyString
      | r' => String c r'
      end
  end.

(* strconv.ParseUint(s, 10, 64) *)
Definition parse_uint (s : string) : option Z :=
  match s with
  | EmptyString => None
  | _ => match digits s 0 with
         | Some m => if in_u64 m then Some m else None
         | None => None
         end
  end.

(* valToBit / hashedValToBit: the member whose name equals e up to (ASCII) case; both collations used are _ci *)
Fixpoint member_index (vals : list string) (l : string) (i : nat) : option nat :=
  match vals with
  | [] => None
  | x :: r => if String.eqb (lower (trim_right x)) l then Some i else member_index r l (S i)
  end.

Definition set_all (vals : list string) : Z := 2 ^ Z.of_nat (length vals) - 1.

(* bitToVal[u] exists: u is the bit of one member *)
Fixpoint is_member_bit (n : nat) (u : Z) : bool :=
  match n with
  | O => false
  | S m => (u =? 2 ^ Z.of_nat m) || is_member_bit m u
  end.

(* one comma-separated element of convertStringToBitField: the bits to OR in, or None for ErrInvalidSetValue *)
Definition set_elem (vals : list string) (e : string) : option Z :=
  match member_index vals (lower (trim_right e)) 0 with
  | Some i => Some (2 ^ Z.of_nat i)
  | None =>
      match parse_uint e with
      | Some u => if u =? 0 then Some 0 else if is_member_bit (length vals) u then Some u else None
      | None => None
      end
  end.

Fixpoint set_elems (vals : list string) (es : list string) (acc : Z) : option Z :=
  match es with
  | [] => Some acc
  | e :: r =>
      match e with
      | EmptyString => set_elems vals r acc            (* empty pieces are skipped *)
      | _ => match set_elem vals e with
             | Some b => set_elems vals r (Z.lor acc b)
             | None => None
             end
      end
  end.

Definition conv_set_u64 (vals : list string) (u : Z) : res :=
  if u <=? set_all vals then Ok (GI KUint64 u) else Err.

Definition conv_set (vals : list string) (v : gval) : res :=
  match v with
  | GI _ z => conv_set_u64 vals (wrap_u z)
  | GF n d | GD n d => match float_i64 n d with Some z => conv_set_u64 vals (wrap_u z) | None => Err end
  | GS s => match set_elems vals (split_comma s) 0 with Some b => Ok (GI KUint64 b) | None => Err end
  | _ => Err
  end.

(* SetType.BitsToString: the members whose bit is set, in declaration order *)
Fixpoint bits_names (vals : list string) (b : Z) : list string :=
  match vals with
  | [] => []
  | x :: r => (if Z.odd b then [trim_right x] else []) ++ bits_names r (Z.div2 b)
  end.
Definition bits_to_string (vals : list string) (b : Z) : string := String.concat "," (bits_names vals b).

(* ----- the two variables with ordinary SQL types: types.Uint32 (server_id) and types.Text (server_uuid) ----- *)
Definition two32 : Z := 4294967296.

(* NumberTypeImpl_.Convert for Uint32 on integers: through int64 (uint64 above MaxInt64 saturates), then saturate above,
   wrap below zero; MysqlSystemVariable.InitValue ignores the out-of-range flag.  nil stays nil. *)
Definition conv_u32 (v : gval) : res :=
  match v with
  | GNil => Ok GNil
  | GI _ z =>
      let n := if two63 <=? z then two63 - 1 else z in
      if two32 <=? n then Ok (GI KUint32 (two32 - 1))
      else if n <? 0 then Ok (GI KUint32 (n mod two32))
      else Ok (GI KUint32 n)
  | GBool b => Ok (GI KUint32 (if b then 1 else 0))
  | _ => Unm                 (* floats, decimals, strings: the general numeric conversion is not modelled *)
  end.

Definition conv_text (v : gval) : res :=
  match v with
  | GNil => Ok GNil
  | GS s => Ok (GS s)
  | _ => Unm                 (* numbers are formatted *)
  end.

Definition conv (t : vtype) (v : gval) : res :=
  match t with
  | TBool => conv_bool v
  | TInt lo hi n1 => conv_int lo hi n1 v
  | TUint lo hi => conv_uint lo hi v
  | TDouble lo hi => conv_double lo hi v
  | TEnum vals => conv_enum vals v
  | TString => conv_string v
  | TSet _ vals => conv_set vals v
  | TOther o => if String.eqb o "types.Uint32" then conv_u32 v
                else if String.eqb o "types.Text" then conv_text v else Unm
  end.

Definition convert (t : vtype) (v : gval) : res :=
  match v with
  | GOpq _ => Unm
  | _ => conv t v
  end.

(* the Go value type of a variable's stored value ("with its type") *)
Definition has_type (t : vtype) (v : gval) : Prop :=
  match t with
  | TBool => v = GI KInt8 0 \/ v = GI KInt8 1
  | TInt lo hi n1 => exists z, v = GI KInt64 z /\ (lo <= z <= hi \/ (n1 = true /\ z = -1))
  | TUint lo hi => exists z, v = GI KUint64 z /\ lo <= z <= hi
  | TDouble lo hi => exists n d, v = GF n d /\ lo * Zpos d <= n <= hi * Zpos d
  | TEnum vals => exists s, v = GS s /\ In s vals
  | TString => exists s, v = GS s
  | TSet _ vals => exists b, v = GI KUint64 b /\ b <= set_all vals      (* the bit field; shown as names, see [shown] *)
  | TOther o =>
      if String.eqb o "types.Uint32" then v = GNil \/ exists z, v = GI KUint32 z /\ 0 <= z < two32
      else if String.eqb o "types.Text" then v = GNil \/ exists s, v = GS s
      else False
  end.

(* ---------- registry ---------- *)
Definition key (x : string) : string := lower x.

Definition lookup (reg : list sysvar) (x : string) : option sysvar :=
  find (fun sv => String.eqb (v_name sv) (key x)) reg.

Definition read_only (sv : sysvar) : bool := negb (v_dynamic sv) || v_valuefn sv.

Definition scope_eqb (a b : scope) : bool :=
  match a, b with
  | ScGlobal, ScGlobal | ScSession, ScSession | ScBoth, ScBoth | ScPersist, ScPersist
  | ScPersistOnly, ScPersistOnly | ScResetPersist, ScResetPersist | ScOther, ScOther => true
  | _, _ => false
  end.

(* MysqlSystemVariable.SetValue + InitValue (global = SET GLOBAL, otherwise SET SESSION / SET x) *)
Definition set_value (sv : sysvar) (global : bool) (v : gval) : res :=
  if global && scope_eqb (v_scope sv) ScSession then Err          (* ErrSystemVariableSessionOnly *)
  else if negb global && scope_eqb (v_scope sv) ScGlobal then Err  (* ErrSystemVariableGlobalOnly *)
  else if read_only sv then Err                                     (* ErrSystemVariableReadOnly *)
  else match convert (v_type sv) v with
       | Ok v' => if v_notify sv then Unm else Ok v'                (* NotifyChanged may veto: not modelled *)
       | r => r
       end.

(* ---------- state ---------- *)
Definition smap : Type := string -> gval.
Definition upd (m : smap) (k : string) (v : gval) : smap := fun k' => if String.eqb k k' then v else m k'.

Record session : Type := mkSess { s_sys : smap; s_user : smap }.
Record state : Type := mkState { glob : smap; sessions : list session }.

(* InitSystemVariables: every variable starts at its Default *)
Definition glob0 (reg : list sysvar) : smap :=
  fun k => match find (fun sv => String.eqb (v_name sv) k) reg with Some sv => v_default sv | None => GNil end.
Definition init (reg : list sysvar) : state := mkState (glob0 reg) [].

Fixpoint upd_nth {A} (l : list A) (i : nat) (f : A -> A) : list A :=
  match l, i with
  | [], _ => []
  | a :: r, O => f a :: r
  | a :: r, S j => a :: upd_nth r j f
  end.

Inductive op : Type :=
| NewSession                                   (* its id is the number of sessions so far; NewSessionMap copies the globals *)
| SetGlobal (s : nat) (x : string) (v : gval)  (* session s runs SET GLOBAL x = v *)
| SetSession (s : nat) (x : string) (v : gval) (* session s runs SET SESSION x = v  (or SET x = v) *)
| SetUser (s : nat) (u : string) (v : gval).   (* session s runs SET @u = v *)

Inductive outcome : Type := Accepted | Rejected | Unmodelled.

Definition outcome_eqb (a b : outcome) : bool :=
  match a, b with Accepted, Accepted | Rejected, Rejected | Unmodelled, Unmodelled => true | _, _ => false end.

Definition valid_session (st : state) (s : nat) : bool := Nat.ltb s (length (sessions st)).

Definition step (reg : list sysvar) (st : state) (o : op) : state * outcome :=
  match o with
  | NewSession => (mkState (glob st) (sessions st ++ [mkSess (glob st) (fun _ => GNil)]), Accepted)
  | SetGlobal s x v =>
      if negb (valid_session st s) then (st, Unmodelled) else
      match lookup reg x with
      | None => (st, Rejected)                                    (* ErrUnknownSystemVariable *)
      | Some sv =>
          match set_value sv true v with
          | Ok v' => (mkState (upd (glob st) (key x) v') (sessions st), Accepted)
          | Err => (st, Rejected)
          | Unm => (st, Unmodelled)
          end
      end
  | SetSession s x v =>
      if negb (valid_session st s) then (st, Unmodelled) else
      match lookup reg x with
      | None => (st, Rejected)
      | Some sv =>
          match set_value sv false v with
          | Ok v' => (mkState (glob st)
                        (upd_nth (sessions st) s (fun ss => mkSess (upd (s_sys ss) (key x) v') (s_user ss))), Accepted)
          | Err => (st, Rejected)
          | Unm => (st, Unmodelled)
          end
      end
  | SetUser s u v =>
      if negb (valid_session st s) then (st, Unmodelled) else
      (mkState (glob st) (upd_nth (sessions st) s (fun ss => mkSess (s_sys ss) (upd (s_user ss) (key u) v))), Accepted)
  end.

Fixpoint run (reg : list sysvar) (st : state) (ops : list op) : state :=
  match ops with
  | [] => st
  | o :: r => run reg (fst (step reg st o)) r
  end.

(* ---------- reads ---------- *)
Inductive rd : Type :=
| RVal (v : gval)
| RErr                  (* the statement fails *)
| RNone.                (* no such session *)

(* SELECT @@global.x *)
Definition get_global (st : state) (x : string) : gval := glob st (key x).

(* SELECT @@x: GetSessionVariable on the session's own map, whatever the variable's scope *)
Definition read_bare (st : state) (s : nat) (x : string) : rd :=
  match nth_error (sessions st) s with
  | Some ss => RVal (s_sys ss (key x))
  | None => RNone
  end.

(* SELECT @@session.x: buildSysVar refuses an explicit session scope on a GLOBAL-only variable *)
Definition read_session (reg : list sysvar) (st : state) (s : nat) (x : string) : rd :=
  match lookup reg x with
  | None => RErr
  | Some sv => if scope_eqb (v_scope sv) ScGlobal then RErr else read_bare st s x
  end.

(* SELECT @u *)
Definition get_user (st : state) (s : nat) (u : string) : rd :=
  match nth_error (sessions st) s with
  | Some ss => RVal (s_user ss (key u))
  | None => RNone
  end.

(* GetGlobal / GetSessionVariable turn the stored bit field of a SET-typed variable into the comma-separated names *)
Definition shown_t (t : vtype) (v : gval) : gval :=
  match t, v with
  | TSet _ vals, GI KUint64 b => GS (bits_to_string vals b)
  | _, _ => v
  end.

Definition shown (reg : list sysvar) (x : string) (v : gval) : gval :=
  match lookup reg x with
  | Some sv => shown_t (v_type sv) v
  | None => v
  end.

(* ---------- decidable equality on values (correspondence, registry checks) ---------- *)
Definition ikind_eqb (a b : ikind) : bool :=
  match a, b with
  | KInt, KInt | KInt8, KInt8 | KInt16, KInt16 | KInt32, KInt32 | KInt64, KInt64
  | KUint, KUint | KUint8, KUint8 | KUint16, KUint16 | KUint32, KUint32 | KUint64, KUint64 => true
  | _, _ => false
  end.

Definition gval_eqb (a b : gval) : bool :=
  match a, b with
  | GNil, GNil => true
  | GBool x, GBool y => Bool.eqb x y
  | GI k x, GI l y => ikind_eqb k l && (x =? y)
  | GF n d, GF m e => (n =? m) && Pos.eqb d e
  | GD n d, GD m e => (n =? m) && Pos.eqb d e
  | GS x, GS y => String.eqb x y
  | GOpq x, GOpq y => String.eqb x y
  | _, _ => false
  end.

(* same number, whatever the Go integer kind *)
Definition gval_same_value (a b : gval) : bool :=
  match a, b with
  | GI _ x, GI _ y => x =? y
  | _, _ => gval_eqb a b
  end.

(* ---------- checks over a registry (decided by computation on the generated one) ---------- *)
(* the default can be checked when it is a constant of the source (not computed at start-up) *)
Definition checkable (sv : sysvar) : bool :=
  match v_default sv with
  | GOpq _ => false
  | _ => true
  end.

(* compared as SELECT @@x shows them (a SET-typed default is a string, its converted form a bit field) *)
Definition default_exact (sv : sysvar) : bool :=
  match convert (v_type sv) (v_default sv) with Ok d => gval_eqb (shown_t (v_type sv) d) (v_default sv) | _ => false end.

Definition default_same_value (sv : sysvar) : bool :=
  match convert (v_type sv) (v_default sv) with
  | Ok d => gval_same_value (shown_t (v_type sv) d) (v_default sv)
  | _ => false
  end.

(* no two names of an enum differ only in case (then Convert is idempotent on its own results) *)
Fixpoint nodup_lower (vals : list string) : bool :=
  match vals with
  | [] => true
  | x :: r => negb (existsb (fun y => String.eqb (lower y) (lower x)) r) && nodup_lower r
  end.

Definition enum_ok (t : vtype) : bool :=
  match t with TEnum vals => nodup_lower vals | _ => true end.

(* keys unique: what getSystemVar / sysVarVals[name] rely on *)
Fixpoint keys_unique (l : list sysvar) : bool :=
  match l with
  | [] => true
  | sv :: r => negb (existsb (fun w => String.eqb (v_name w) (v_name sv)) r) && keys_unique r
  end.

(* InitSystemVariables keys the value map by GetName(), every later access by the lower-cased name *)
Definition name_ok (sv : sysvar) : bool :=
  String.eqb (v_name sv) (v_field_name sv) && String.eqb (lower (v_name sv)) (v_name sv).
