(* Model of authentication in /repo/sql/mysql_db (C40):
     auth.go      validateMysqlNativePassword, nativePasswordHashStorage.UserEntryWithHash, userValidator.HandleUser
     mysql_db.go  matchesHostPattern, MySQLDb.GetUser, MySQLDb.ValidateHash, AddSuperUser (stored string)
     plan/create_user_data.go AuthenticationMysqlNativePassword.AuthString (stored string)
   Strings are byte lists (list N).  The hash function is a Section variable [H] (crypto/sha1 in the code);
   hex decoding is concrete.  The tree modelled is the one repaired by a87f03e51 (length guard before the XOR loop).
   Definitions only; proofs are in AuthProofs.v. *)
From Coq Require Import List NArith Bool.
Import ListNotations.
Open Scope N_scope.

Definition bytes := list N.

Fixpoint beqb (a b : bytes) : bool :=
  match a, b with
  | [], [] => true
  | x :: a', y :: b' => (x =? y) && beqb a' b'
  | _, _ => false
  end.

(* ---------- encoding/hex ---------- *)
(* reverseHexTable: '0'-'9', 'a'-'f', 'A'-'F' *)
Definition hexval (c : N) : option N :=
  if (48 <=? c) && (c <=? 57) then Some (c - 48)
  else if (97 <=? c) && (c <=? 102) then Some (c - 87)
  else if (65 <=? c) && (c <=? 70) then Some (c - 55)
  else None.

(* hex.DecodeString: any error (odd length, invalid byte) is [None]; the caller only tests err != nil *)
Fixpoint hex_decode (s : bytes) : option bytes :=
  match s with
  | [] => Some []
  | [_] => None
  | p :: q :: r =>
      match hexval p, hexval q with
      | Some a, Some b => match hex_decode r with Some t => Some (a * 16 + b :: t) | None => None end
      | _, _ => None
      end
  end.

(* strings.ToUpper(hex.EncodeToString(b)) *)
Definition hexdig (d : N) : N := if d <? 10 then 48 + d else 55 + d.
Fixpoint hex_encode (b : bytes) : bytes :=
  match b with
  | [] => []
  | x :: b' => hexdig (x / 16) :: hexdig (x mod 16) :: hex_encode b'
  end.

(* xor of two strings, as long as the shorter one: the loop "for i := range scramble { scramble[i] ^= authResponse[i] }"
   (reached only when the response is at least as long as the scramble, see the guard in [validate]) and the client side *)
Fixpoint xor_bytes (a b : bytes) : bytes :=
  match a, b with
  | x :: a', y :: b' => N.lxor x y :: xor_bytes a' b'
  | _, _ => []
  end.

Definition strip_star (s : bytes) : bytes := match s with 42 :: r => r | _ => s end.

Section WithHash.
  Variable H : bytes -> bytes.

  (* validateMysqlNativePassword(authResponse, salt, mysqlNativePassword), with the length guard of a87f03e51:
     "if len(authResponse) < len(scramble) { return false }" right before the XOR loop *)
  Definition validate (resp salt auth : bytes) : bool :=
    match resp, auth with
    | [], _ => false
    | _, [] => false
    | _, _ =>
        match hex_decode (strip_star auth) with
        | None => false
        | Some hash =>
            let scramble := H (salt ++ hash) in
            if Nat.ltb (length resp) (length scramble) then false
            else beqb (H (xor_bytes scramble (firstn (length scramble) resp))) hash
        end
    end.

  (* what CREATE USER ... IDENTIFIED BY pw / AddSuperUser store *)
  Definition stored_auth (pw : bytes) : bytes :=
    match pw with [] => [] | _ => 42 :: hex_encode (H (H pw)) end.

  (* what an honest mysql_native_password client sends (go-sql-driver scramblePassword,
     vitess ScrambleMysqlNativePassword): SHA1(pw) XOR SHA1(salt ++ SHA1(SHA1(pw))); nothing for "" *)
  Definition client_response (salt pw : bytes) : bytes :=
    match pw with [] => [] | _ => xor_bytes (H pw) (H (salt ++ H (H pw))) end.
End WithHash.

(* ---------- accounts ---------- *)
Record user : Type := mkUser {
  u_name : bytes; u_host : bytes; u_auth : bytes; u_locked : bool; u_plugin : bytes }.

Definition s_localhost : bytes := [108;111;99;97;108;104;111;115;116].
Definition s_ip4 : bytes := [49;50;55;46;48;46;48;46;49].          (* 127.0.0.1 *)
Definition s_ip6 : bytes := [58;58;49].                            (* ::1 *)
Definition s_native : bytes :=                                     (* mysql_native_password *)
  [109;121;115;113;108;95;110;97;116;105;118;101;95;112;97;115;115;119;111;114;100].

(* regexp "^" + ReplaceAll(QuoteMeta(pattern), "%", ".*") + "$" : every byte but '%' is literal,
   '%' matches any run of bytes other than newline ('.' without the s flag) *)
Fixpoint glob (p : bytes) : bytes -> bool :=
  match p with
  | [] => fun h => match h with [] => true | _ => false end
  | c :: p' =>
      if c =? 37 then
        fix star (h : bytes) : bool :=
          glob p' h || match h with [] => false | x :: h' => negb (x =? 10) && star h' end
      else fun h => match h with [] => false | x :: h' => (x =? c) && glob p' h' end
  end.

Definition has_pct (p : bytes) : bool := existsb (fun c => c =? 37) p.

(* matchesHostPattern(host, pattern) *)
Definition matches_host_pattern (host pat : bytes) : bool := has_pct pat && glob pat host.

Definition norm_host (h : bytes) : bytes := if beqb h s_ip4 || beqb h s_ip6 then s_localhost else h.

(* the disjunction inside GetUser's loop, with roleSearch = false *)
Definition host_matches (orig host uhost : bytes) : bool :=
  beqb host uhost
  || (beqb host s_localhost && beqb uhost s_ip6)
  || (beqb host s_localhost && beqb uhost s_ip4)
  || beqb uhost [37]
  || matches_host_pattern host uhost
  || (negb (beqb orig host) && matches_host_pattern orig uhost).

(* MySQLDb.GetUser(fetcher, user, host, false).  [users] is the account table in insertion order
   (MultiMap.Put appends, so GetUsersByUsername returns the accounts of one name in that order). *)
Definition get_user (users : list user) (name orig : bytes) : option user :=
  let host := norm_host orig in
  match find (fun u => beqb (u_host u) host && beqb (u_name u) name) users with
  | Some u => Some u
  | None =>
      match find (fun u => beqb (u_name u) name && host_matches orig host (u_host u)) users with
      | Some u => Some u
      | None => find (fun u => beqb (u_name u) [] && host_matches orig host (u_host u)) users
      end
  end.

Inductive login_result : Type := Accept (name host : bytes) | Deny.

Section Login.
  Variable H : bytes -> bytes.

  (* MySQLDb.ValidateHash / nativePasswordHashStorage.UserEntryWithHash (account without TLS requirements) *)
  Definition login (enabled : bool) (users : list user) (name host salt resp : bytes) : login_result :=
    if negb enabled then Accept name host
    else
      match get_user users name host with
      | None => Deny
      | Some u =>
          if u_locked u then Deny
          else
            match u_auth u with
            | [] => match resp with [] => Accept (u_name u) (u_host u) | _ => Deny end
            | _ =>
                if validate H resp salt (u_auth u) then Accept (u_name u) (u_host u) else Deny
            end
      end.

  (* userValidator.HandleUser for the mysql_native_password method: is the method offered to this client? *)
  Definition native_method_allowed (enabled : bool) (users : list user) (name host : bytes) : bool :=
    if negb enabled then true
    else match get_user users name host with
         | None => true                         (* decoy: DefaultAuthMethod = mysql_native_password *)
         | Some u => beqb (u_plugin u) s_native
         end.
End Login.
