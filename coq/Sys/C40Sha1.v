(* SHA-1 (FIPS 180-4) over byte lists, executable by vm_compute.  Used by the C40 correspondence to
   instantiate the abstract hash [H] of Sys/Auth.v with the function the Go code calls (crypto/sha1).
   The theorems of C40 are proved for an arbitrary [H] with 20-byte outputs; this file only supplies
   the instance and proves that it has 20-byte outputs. *)
From Coq Require Import List NArith Lia.
Import ListNotations.
Open Scope N_scope.

Definition mask32 : N := 4294967295.
Definition w32 (x : N) : N := N.land x mask32.
Definition rotl (n x : N) : N := w32 (N.lor (N.shiftl x n) (N.shiftr x (32 - n))).
Definition add32 (a b : N) : N := w32 (a + b).
Definition not32 (x : N) : N := N.lxor x mask32.

(* big-endian encoding of [k] bytes *)
Fixpoint be_bytes (k : nat) (x : N) : list N :=
  match k with
  | O => []
  | S k' => N.land (N.shiftr x (8 * N.of_nat k')) 255 :: be_bytes k' x
  end.

Definition be_word (b : list N) : N := fold_left (fun a x => a * 256 + x) b 0.

Definition pad (msg : list N) : list N :=
  let l := N.of_nat (length msg) in
  let z := (119 - (l mod 64)) mod 64 in    (* zeros so that l + 1 + z + 8 = 0 mod 64 *)
  msg ++ [128] ++ repeat 0 (N.to_nat z) ++ be_bytes 8 (8 * l).

Fixpoint words (k : nat) (b : list N) : list N :=
  match k with
  | O => []
  | S k' => be_word (firstn 4 b) :: words k' (skipn 4 b)
  end.

(* message schedule, most recent word first *)
Fixpoint extend (k : nat) (rev_w : list N) : list N :=
  match k with
  | O => rev_w
  | S k' =>
      let x := N.lxor (N.lxor (nth 2 rev_w 0) (nth 7 rev_w 0)) (N.lxor (nth 13 rev_w 0) (nth 15 rev_w 0)) in
      extend k' (rotl 1 x :: rev_w)
  end.

Definition st : Type := (N * N * N * N * N)%type.

Definition round (t : N) (s : st) (w : N) : st :=
  let '(a, b, c, d, e) := s in
  let '(f, k) :=
    if t <? 20 then (N.lor (N.land b c) (N.land (not32 b) d), 1518500249)
    else if t <? 40 then (N.lxor (N.lxor b c) d, 1859775393)
    else if t <? 60 then (N.lor (N.lor (N.land b c) (N.land b d)) (N.land c d), 2400959708)
    else (N.lxor (N.lxor b c) d, 3395469782) in
  let tmp := add32 (add32 (add32 (add32 (rotl 5 a) f) e) k) w in
  (tmp, a, rotl 30 b, c, d).

Fixpoint rounds (t : N) (ws : list N) (s : st) : st :=
  match ws with
  | [] => s
  | w :: ws' => rounds (t + 1) ws' (round t s w)
  end.

Definition block (s : st) (b : list N) : st :=
  let ws := rev (extend 64 (rev (words 16 b))) in
  let '(a, b', c, d, e) := rounds 0 ws s in
  let '(h0, h1, h2, h3, h4) := s in
  (add32 h0 a, add32 h1 b', add32 h2 c, add32 h3 d, add32 h4 e).

Fixpoint blocks (k : nat) (s : st) (b : list N) : st :=
  match k with
  | O => s
  | S k' => blocks k' (block s (firstn 64 b)) (skipn 64 b)
  end.

Definition init : st := (1732584193, 4023233417, 2562383102, 271733878, 3285377520).

Definition sha1 (msg : list N) : list N :=
  let p := pad msg in
  let '(h0, h1, h2, h3, h4) := blocks (Nat.div (length p) 64) init p in
  be_bytes 4 h0 ++ be_bytes 4 h1 ++ be_bytes 4 h2 ++ be_bytes 4 h3 ++ be_bytes 4 h4.

Lemma be_bytes_length k x : length (be_bytes k x) = k.
Proof. induction k as [|k IH]; cbn [be_bytes length]; congruence. Qed.

Lemma sha1_length msg : length (sha1 msg) = 20%nat.
Proof.
  unfold sha1. destruct (blocks _ _ _) as [[[[h0 h1] h2] h3] h4].
  rewrite !app_length, !be_bytes_length. reflexivity.
Qed.

Lemma be_bytes_lt k x : Forall (fun b => b < 256) (be_bytes k x).
Proof.
  induction k as [|k IH]; cbn [be_bytes]; constructor; [|exact IH].
  change 255 with (N.ones 8). rewrite N.land_ones. apply N.mod_lt. discriminate.
Qed.

Lemma sha1_bytes msg : Forall (fun b => b < 256) (sha1 msg).
Proof.
  unfold sha1. destruct (blocks _ _ _) as [[[[h0 h1] h2] h3] h4].
  repeat (apply Forall_app; split); apply be_bytes_lt.
Qed.

(* FIPS 180 test vectors: "" and "abc" *)
Example sha1_empty :
  sha1 [] = [218;57;163;238;94;107;75;13;50;85;191;239;149;96;24;144;175;216;7;9].
Proof. vm_compute. reflexivity. Qed.
Example sha1_abc :
  sha1 [97;98;99] = [169;153;62;54;71;6;129;106;186;62;37;113;120;80;194;108;156;208;216;157].
Proof. vm_compute. reflexivity. Qed.
