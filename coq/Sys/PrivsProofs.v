(* Proofs about the privilege model (C39): the nested maps refine a set of (level, object, privilege) facts. *)
From Coq Require Import List NArith Bool Lia.
Import ListNotations.
From GMS Require Import Sys.Privs.
Open Scope N_scope.

Lemma seqb_eq a b : seqb a b = true <-> a = b.
Proof.
  revert b. induction a as [|x a IH]; intros [|y b]; cbn [seqb]; split; intros E;
    try reflexivity; try discriminate.
  - apply andb_prop in E. destruct E as [E1 E2]. apply N.eqb_eq in E1. apply IH in E2. congruence.
  - injection E as -> ->. rewrite N.eqb_refl. cbn. apply IH. reflexivity.
Qed.
Lemma seqb_refl a : seqb a a = true.
Proof. apply seqb_eq. reflexivity. Qed.
Lemma seqb_sym a b : seqb a b = seqb b a.
Proof.
  destruct (seqb a b) eqn:E.
  - apply seqb_eq in E. subst. symmetry. apply seqb_refl.
  - destruct (seqb b a) eqn:F; [|reflexivity]. apply seqb_eq in F. subst. rewrite seqb_refl in E. discriminate.
Qed.
Lemma seqb_trans_false a b c : seqb a b = true -> seqb c a = seqb c b.
Proof. intros E. apply seqb_eq in E. subst. reflexivity. Qed.

(* ---- association lists ---- *)
Section AssocLemmas.
  Context {V : Type}.
  Implicit Types m : list (str * V).

  Lemma aget_aput m k k' v : aget k (aput k' v m) = if seqb k k' then Some v else aget k m.
  Proof.
    induction m as [|[k0 v0] m IH]; cbn [aput aget].
    - destruct (seqb k k'); reflexivity.
    - destruct (seqb k' k0) eqn:E; cbn [aget].
      + apply seqb_eq in E. subst k0. destruct (seqb k k'); reflexivity.
      + destruct (seqb k k0) eqn:F.
        * apply seqb_eq in F. subst k0. rewrite seqb_sym, E. reflexivity.
        * exact IH.
  Qed.

  Lemma aget_adel m k k' : aget k (adel k' m) = if seqb k k' then None else aget k m.
  Proof.
    induction m as [|[k0 v0] m IH]; cbn [adel aget].
    - destruct (seqb k k'); reflexivity.
    - destruct (seqb k' k0) eqn:E.
      + apply seqb_eq in E. subst k0. rewrite IH. destruct (seqb k k'); reflexivity.
      + cbn [aget]. destruct (seqb k k0) eqn:F.
        * apply seqb_eq in F. subst k0. rewrite seqb_sym, E. reflexivity.
        * exact IH.
  Qed.
End AssocLemmas.

(* ---- privilege code sets ---- *)
Lemma pmem_padd p q s : pmem p (padd q s) = (p =? q) || pmem p s.
Proof.
  unfold padd. destruct (pmem q s) eqn:E.
  - destruct (p =? q) eqn:F; [|reflexivity]. apply N.eqb_eq in F. subst. rewrite E. reflexivity.
  - reflexivity.
Qed.

Lemma pmem_prem p q s : pmem p (prem q s) = negb (p =? q) && pmem p s.
Proof.
  unfold prem, pmem. induction s as [|x s IH]; cbn [filter existsb].
  - rewrite andb_false_r. reflexivity.
  - destruct (x =? q) eqn:E; cbn [negb existsb].
    + apply N.eqb_eq in E. subst x. rewrite IH. destruct (p =? q); reflexivity.
    + rewrite IH. destruct (p =? x) eqn:F; [|reflexivity].
      apply N.eqb_eq in F. subst x. rewrite E. reflexivity.
Qed.

Lemma pmem_punion p a b : pmem p (punion a b) = pmem p a || pmem p b.
Proof.
  unfold punion. induction b as [|x b IH]; cbn [fold_right].
  - rewrite orb_false_r. reflexivity.
  - rewrite pmem_padd, IH. cbn [pmem existsb]. destruct (p =? x), (pmem p a); reflexivity.
Qed.

Lemma pempty_spec s : pempty s = true <-> forall p, pmem p s = false.
Proof.
  destruct s as [|x s]; cbn; split; intros E; try reflexivity; try discriminate.
  specialize (E x). cbn in E. rewrite N.eqb_refl in E. discriminate.
Qed.

(* ---- reading a privilege set as facts ---- *)
Theorem set_has_iff ps ops :
  set_has ps ops = true <->
  holds ps (FG SUPER) = true \/ forall o, In o ops -> exists f, holds ps f = true /\ covers f o = true.
Proof.
  unfold set_has. rewrite orb_true_iff, forallb_forall. cbn [holds]. split; intros [E|E]; auto; right; intros [[d t] p] Hi.
  - specialize (E _ Hi). cbn beta iota in E. apply orb_prop in E. destruct E as [E|E]; [apply orb_prop in E; destruct E as [E|E]|].
    + exists (FG p). cbn. rewrite E, N.eqb_refl. auto.
    + exists (FD d p). cbn. rewrite E, seqb_refl, N.eqb_refl. auto.
    + exists (FT d t p). cbn. rewrite E, !seqb_refl, N.eqb_refl. auto.
  - destruct (E _ Hi) as [f [Hf Hc]]. destruct f as [q|e q|e u q]; cbn in Hf, Hc.
    + apply N.eqb_eq in Hc. subst q. rewrite Hf. reflexivity.
    + apply andb_prop in Hc. destruct Hc as [A B]. apply seqb_eq in A. apply N.eqb_eq in B. subst.
      rewrite Hf, orb_true_r. reflexivity.
    + apply andb_prop in Hc. destruct Hc as [A B]. apply andb_prop in A. destruct A as [A C].
      apply seqb_eq in A, C. apply N.eqb_eq in B. subst. rewrite Hf, !orb_true_r. reflexivity.
Qed.

Lemma db_of_aput ps d e ds g : db_of (mkP g (aput e ds (dbs ps))) d = if seqb d e then ds else db_of ps d.
Proof. unfold db_of. cbn [dbs]. rewrite aget_aput. destruct (seqb d e); reflexivity. Qed.

Lemma db_of_adel ps d e g : db_of (mkP g (adel e (dbs ps))) d = if seqb d e then empty_d else db_of ps d.
Proof. unfold db_of. cbn [dbs]. rewrite aget_adel. destruct (seqb d e); reflexivity. Qed.

Lemma tbl_of_aput ds t u s p : tbl_of (mkD p (aput u s (d_tbls ds))) t = if seqb t u then s else tbl_of ds t.
Proof. unfold tbl_of. cbn [d_tbls]. rewrite aget_aput. destruct (seqb t u); reflexivity. Qed.

Ltac case_seqb :=
  repeat match goal with
  | |- context [seqb ?a ?b] =>
      let E := fresh "E" in destruct (seqb a b) eqn:E;
      [apply seqb_eq in E; subst; rewrite ?seqb_refl | ]
  end.

(* GRANT adds exactly the named fact *)
Theorem add_global_facts p ps f : holds (add_global p ps) f = fact_eqb f (FG p) || holds ps f.
Proof. destruct f; cbn; unfold has_g, has_d, has_t; cbn; [apply pmem_padd|reflexivity|reflexivity]. Qed.

Theorem add_db_facts d p ps f : holds (add_db d p ps) f = fact_eqb f (FD d p) || holds ps f.
Proof.
  destruct f as [q|e q|e u q]; cbn [holds fact_eqb]; unfold add_db, has_g, has_d, has_t.
  - reflexivity.
  - rewrite db_of_aput. destruct (seqb e d) eqn:E.
    + apply seqb_eq in E. subst e. cbn [d_privs]. rewrite pmem_padd. reflexivity.
    + reflexivity.
  - rewrite db_of_aput. destruct (seqb e d) eqn:E; [|reflexivity].
    apply seqb_eq in E. subst e. reflexivity.
Qed.

Theorem add_tbl_facts d t p ps f : holds (add_tbl d t p ps) f = fact_eqb f (FT d t p) || holds ps f.
Proof.
  destruct f as [q|e q|e u q]; cbn [holds fact_eqb]; unfold add_tbl, has_g, has_d, has_t.
  - reflexivity.
  - rewrite db_of_aput. destruct (seqb e d) eqn:E; [|reflexivity].
    apply seqb_eq in E. subst e. reflexivity.
  - rewrite db_of_aput. destruct (seqb e d) eqn:E; [|reflexivity].
    apply seqb_eq in E. subst e. rewrite tbl_of_aput. destruct (seqb u t) eqn:F; cbn [andb].
    + apply seqb_eq in F. subst u. apply pmem_padd.
    + reflexivity.
Qed.

Theorem add_at_facts l p ps f :
  holds (add_at l p ps) f = fact_eqb f (match l with LG => FG p | LD d => FD d p | LT d t => FT d t p end) || holds ps f.
Proof. destruct l; [apply add_global_facts|apply add_db_facts|apply add_tbl_facts]. Qed.

(* REVOKE at the global and table levels removes exactly the named fact *)
Theorem rem_global_facts p ps f : holds (rem_global p ps) f = negb (fact_eqb f (FG p)) && holds ps f.
Proof. destruct f; cbn; unfold has_g, has_d, has_t; cbn; [apply pmem_prem|reflexivity|reflexivity]. Qed.

Theorem rem_tbl_facts d t p ps f : holds (rem_tbl d t p ps) f = negb (fact_eqb f (FT d t p)) && holds ps f.
Proof.
  unfold rem_tbl. destruct (aget d (dbs ps)) as [ds|] eqn:A.
  2:{ destruct f as [q|e q|e u q]; cbn [holds fact_eqb negb andb]; try reflexivity.
      unfold has_t, db_of. destruct (seqb e d) eqn:E; [|reflexivity]. apply seqb_eq in E. subst e.
      rewrite A. cbn. rewrite andb_false_r. reflexivity. }
  destruct (aget t (d_tbls ds)) as [s|] eqn:B.
  2:{ destruct f as [q|e q|e u q]; cbn [holds fact_eqb negb andb]; try reflexivity.
      unfold has_t, db_of. destruct (seqb e d) eqn:E; [|reflexivity]. apply seqb_eq in E. subst e.
      rewrite A. unfold tbl_of. destruct (seqb u t) eqn:F; [|reflexivity]. apply seqb_eq in F. subst u.
      rewrite B. cbn. rewrite andb_false_r. reflexivity. }
  destruct f as [q|e q|e u q]; cbn [holds fact_eqb]; unfold has_g, has_d, has_t.
  - reflexivity.
  - rewrite db_of_aput. destruct (seqb e d) eqn:E; [|reflexivity].
    apply seqb_eq in E. subst e. unfold db_of. rewrite A. reflexivity.
  - rewrite db_of_aput. destruct (seqb e d) eqn:E; [|reflexivity].
    apply seqb_eq in E. subst e. rewrite tbl_of_aput. unfold db_of. rewrite A.
    destruct (seqb u t) eqn:F; cbn [andb negb].
    + apply seqb_eq in F. subst u. unfold tbl_of. rewrite B. apply pmem_prem.
    + reflexivity.
Qed.

(* REVOKE at the database level: exact only while another database-level privilege remains; otherwise every fact
   of that database (table grants included) disappears *)
Definition db_keeps_entry (ps : privset) (d : str) (p : N) : bool :=
  match aget d (dbs ps) with Some ds => negb (pempty (prem p (d_privs ds))) | None => true end.

Theorem rem_db_facts d p ps f :
  holds (rem_db d p ps) f =
    if db_keeps_entry ps d p then negb (fact_eqb f (FD d p)) && holds ps f
    else negb (on_db d f) && holds ps f.
Proof.
  unfold rem_db, db_keeps_entry. destruct (aget d (dbs ps)) as [ds|] eqn:A.
  2:{ destruct f as [q|e q|e u q]; cbn [holds fact_eqb negb andb]; try reflexivity.
      unfold has_d, db_of. destruct (seqb e d) eqn:E; [|reflexivity]. apply seqb_eq in E. subst e.
      rewrite A. cbn. rewrite andb_false_r. reflexivity. }
  destruct (pempty (prem p (d_privs ds))) eqn:P; cbn [negb].
  - destruct f as [q|e q|e u q]; cbn [holds on_db fact_db negb andb]; unfold has_g, has_d, has_t.
    + reflexivity.
    + rewrite db_of_adel. destruct (seqb e d); reflexivity.
    + rewrite db_of_adel. destruct (seqb e d); reflexivity.
  - destruct f as [q|e q|e u q]; cbn [holds fact_eqb]; unfold has_g, has_d, has_t.
    + reflexivity.
    + rewrite db_of_aput. destruct (seqb e d) eqn:E; [|reflexivity].
      apply seqb_eq in E. subst e. cbn [d_privs andb]. unfold db_of. rewrite A. apply pmem_prem.
    + rewrite db_of_aput. destruct (seqb e d) eqn:E; [|reflexivity].
      apply seqb_eq in E. subst e. unfold db_of. rewrite A. reflexivity.
Qed.

Corollary rem_db_exact_when_guarded d p ps f :
  db_keeps_entry ps d p = true -> holds (rem_db d p ps) f = negb (fact_eqb f (FD d p)) && holds ps f.
Proof. intros G. rewrite rem_db_facts, G. reflexivity. Qed.

(* the unguarded statement is false: revoking a database-level privilege can remove a table-level fact *)
Theorem rem_db_removes_exactly_refuted :
  exists ps d p f, fact_eqb f (FD d p) = false /\ holds ps f = true /\ holds (rem_db d p ps) f = false.
Proof.
  exists (add_tbl [100;98] [116] 0 empty_ps), [100;98], 1, (FT [100;98] [116] 0).
  vm_compute. auto.
Qed.

(* REVOKE ALL: global clears the global facts only; database deletes every fact of the database; table clears the table *)
Theorem clear_global_facts ps f : holds (clear_global ps) f = match f with FG _ => false | _ => holds ps f end.
Proof. destruct f; reflexivity. Qed.

Theorem clear_db_facts d ps f : holds (clear_db d ps) f = negb (on_db d f) && holds ps f.
Proof.
  destruct f as [q|e q|e u q]; cbn [holds on_db fact_db negb andb]; unfold clear_db, has_g, has_d, has_t.
  - reflexivity.
  - rewrite db_of_adel. destruct (seqb e d); reflexivity.
  - rewrite db_of_adel. destruct (seqb e d); reflexivity.
Qed.

Theorem clear_tbl_facts d t ps f :
  holds (clear_tbl d t ps) f = match f with FT e u _ => negb (seqb e d && seqb u t) && holds ps f | _ => holds ps f end.
Proof.
  destruct f as [q|e q|e u q]; cbn [holds]; unfold clear_tbl, has_g, has_d, has_t.
  - reflexivity.
  - rewrite db_of_aput. destruct (seqb e d) eqn:E; [|reflexivity]. apply seqb_eq in E. subst e. reflexivity.
  - rewrite db_of_aput. destruct (seqb e d) eqn:E; [|reflexivity]. apply seqb_eq in E. subst e.
    rewrite tbl_of_aput. destruct (seqb u t); reflexivity.
Qed.

(* a whole GRANT / REVOKE statement (one Add/Remove call per listed privilege) *)
Lemma fold_add_facts l qs : forall ps f,
  holds (fold_left (fun acc p => add_at l p acc) qs ps) f =
    existsb (fun p => fact_eqb f (match l with LG => FG p | LD d => FD d p | LT d t => FT d t p end)) qs || holds ps f.
Proof.
  induction qs as [|q qs IH]; intros ps f; cbn [fold_left existsb]; [reflexivity|].
  rewrite IH, add_at_facts. destruct (fact_eqb f _), (existsb _ qs), (holds ps f); reflexivity.
Qed.

Lemma fold_rem_facts_exact l qs :
  (match l with LD _ => False | _ => True end) ->
  forall ps f,
  holds (fold_left (fun acc p => rem_at l p acc) qs ps) f =
    negb (existsb (fun p => fact_eqb f (match l with LG => FG p | LD d => FD d p | LT d t => FT d t p end)) qs) && holds ps f.
Proof.
  intros Hl. induction qs as [|q qs IH]; intros ps f; cbn [fold_left existsb]; [reflexivity|].
  rewrite IH. destruct l as [|d|d t]; [|contradiction|]; cbn [rem_at].
  - rewrite rem_global_facts. destruct (fact_eqb f (FG q)), (existsb _ qs), (holds ps f); reflexivity.
  - rewrite rem_tbl_facts. destruct (fact_eqb f (FT d t q)), (existsb _ qs), (holds ps f); reflexivity.
Qed.

(* ---- statements on the account table ---- *)
Definition privs_of (s : state) (u : str) : privset := match aget u (users s) with Some ps => ps | None => empty_ps end.

Lemma has_user_upd s u f v : has_user (upd_user s u f) v = has_user s v.
Proof.
  unfold upd_user, has_user. destruct (aget u (users s)) as [ps|] eqn:A; [|reflexivity].
  cbn [users]. rewrite aget_aput. destruct (seqb v u) eqn:E; [|reflexivity].
  apply seqb_eq in E. subst v. rewrite A. reflexivity.
Qed.

Lemma privs_of_upd s u f v :
  privs_of (upd_user s u f) v = if seqb v u && has_user s u then f (privs_of s u) else privs_of s v.
Proof.
  unfold upd_user, privs_of, has_user. destruct (aget u (users s)) as [ps|] eqn:A.
  - cbn [users]. rewrite aget_aput, andb_true_r. destruct (seqb v u); reflexivity.
  - rewrite andb_false_r. reflexivity.
Qed.

(* GRANT p.. ON l TO u adds the named facts to u and changes nobody else *)
Theorem exec_grant_facts s u l qs v f :
  holds (privs_of (exec s (SGrant u l qs)) v) f =
    (seqb v u && has_user s u &&
     existsb (fun p => fact_eqb f (match l with LG => FG p | LD d => FD d p | LT d t => FT d t p end)) qs)
    || holds (privs_of s v) f.
Proof.
  cbn [exec]. rewrite privs_of_upd. destruct (seqb v u) eqn:E; cbn [andb]; [|reflexivity].
  apply seqb_eq in E. subst v. destruct (has_user s u); cbn [andb]; [|reflexivity].
  apply fold_add_facts.
Qed.

(* REVOKE p.. ON l FROM u at the global or table level removes exactly the named facts from u *)
Theorem exec_revoke_facts_exact s u l qs v f :
  (match l with LD _ => False | _ => True end) ->
  holds (privs_of (exec s (SRevoke u l qs)) v) f =
    negb (seqb v u && has_user s u &&
          existsb (fun p => fact_eqb f (match l with LG => FG p | LD d => FD d p | LT d t => FT d t p end)) qs)
    && holds (privs_of s v) f.
Proof.
  intros Hl. cbn [exec]. rewrite privs_of_upd. destruct (seqb v u) eqn:E; cbn [andb negb]; [|reflexivity].
  apply seqb_eq in E. subst v. destruct (has_user s u) eqn:Hu; cbn [andb negb]; [|reflexivity].
  apply fold_rem_facts_exact. exact Hl.
Qed.

(* the database-level REVOKE of the faithful model is not exact: end-to-end witness on a two-statement history *)
Theorem revoke_removes_exactly_refuted :
  exists h u ops,
    allowed (run init h) u ops = true /\
    allowed (run init (h ++ [SRevoke u (LD [100;98]) [1]])) u ops = false /\
    (forall o, In o ops -> covers (FD [100;98] 1) o = false).
Proof.
  exists [SCreate [117]; SGrant [117] (LT [100;98] [116]) [0]], [117], [([100;98], [116], 0)].
  split; [vm_compute; reflexivity|]. split; [vm_compute; reflexivity|].
  intros o [<-|[]]. vm_compute. reflexivity.
Qed.

(* an account that does not exist (never created, or dropped) is denied everything *)
Theorem unknown_account_denied s u ops : has_user s u = false -> allowed s u ops = false.
Proof. intros E. unfold allowed. rewrite E. reflexivity. Qed.

Theorem dropped_account_denied s u ops : allowed (exec s (SDrop u)) u ops = false.
Proof.
  apply unknown_account_denied. cbn [exec]. destruct (has_user s u) eqn:E; [|exact E].
  unfold has_user. cbn [users]. rewrite aget_adel, seqb_refl. reflexivity.
Qed.

(* the decision is a function of the active set only, and the active set of an account without roles is its own set *)
Theorem active_no_roles s u :
  (forall e, In e (edges s) -> seqb (snd e) u = false) -> active s u = privs_of s u.
Proof.
  intros He. unfold active, privs_of. destruct (aget u (users s)) as [ps|]; [|reflexivity].
  revert ps. induction (edges s) as [|e es IH]; intros ps; [reflexivity|].
  cbn [fold_left]. rewrite (He e (or_introl eq_refl)). apply IH. intros e' Hi. apply He. right. exact Hi.
Qed.

Theorem allowed_iff_no_roles s u ops :
  (forall e, In e (edges s) -> seqb (snd e) u = false) ->
  (allowed s u ops = true <->
   has_user s u = true /\
   (holds (privs_of s u) (FG SUPER) = true \/
    forall o, In o ops -> exists f, holds (privs_of s u) f = true /\ covers f o = true)).
Proof.
  intros He. unfold allowed. rewrite andb_true_iff, (active_no_roles s u He), set_has_iff. reflexivity.
Qed.
