(* C34 -- proofs about the function models of Sys/C34Funcs.v. *)
From Coq Require Import List NArith ZArith Bool Lia Arith.
Import ListNotations.
From GMS Require Import Sys.C34Funcs.
Open Scope Z_scope.

(* ------------------------------------------------------------------ basics *)
Lemma len_nonneg {A} (l : list A) : 0 <= len l.
Proof. unfold len. lia. Qed.
Lemma len_app {A} (a b : list A) : len (a ++ b) = len a + len b.
Proof. unfold len. rewrite app_length. lia. Qed.
Lemma len_nil {A} : len (@nil A) = 0.
Proof. reflexivity. Qed.
Lemma len_cons {A} (x : A) l : len (x :: l) = 1 + len l.
Proof. unfold len. cbn [length]. lia. Qed.
Lemma len_rev {A} (l : list A) : len (rev l) = len l.
Proof. unfold len. now rewrite rev_length. Qed.
Lemma len_take {A} n (l : list A) : 0 <= n <= len l -> len (take n l) = n.
Proof. unfold len, take. intros H. rewrite firstn_length. lia. Qed.
Lemma len_drop {A} n (l : list A) : 0 <= n <= len l -> len (drop n l) = len l - n.
Proof. unfold len, drop. intros H. rewrite skipn_length. lia. Qed.
Lemma take_drop {A} n (l : list A) : take n l ++ drop n l = l.
Proof. apply firstn_skipn. Qed.
Lemma take_all {A} n (l : list A) : len l <= n -> take n l = l.
Proof. unfold len, take. intros H. apply firstn_all2. lia. Qed.
Lemma drop_0 {A} (l : list A) : drop 0 l = l.
Proof. reflexivity. Qed.
Lemma drop_all {A} n (l : list A) : len l <= n -> drop n l = [].
Proof. unfold len, drop. intros H. apply skipn_all2. lia. Qed.
Lemma take_app_l {A} (a b : list A) : take (len a) (a ++ b) = a.
Proof.
  unfold take, len. rewrite Nat2Z.id, firstn_app, Nat.sub_diag. cbn [firstn].
  rewrite firstn_all, app_nil_r. reflexivity.
Qed.
Lemma drop_app_l {A} (a b : list A) : drop (len a) (a ++ b) = b.
Proof.
  unfold drop, len. rewrite Nat2Z.id, skipn_app, Nat.sub_diag, skipn_all. reflexivity.
Qed.

Lemma skipn_plus {A} i j (l : list A) : skipn j (skipn i l) = skipn (i + j) l.
Proof.
  revert l. induction i as [|i IH]; intros l; [reflexivity|]. destruct l; cbn [skipn plus]; [now rewrite skipn_nil|apply IH].
Qed.
Lemma drop_drop {A} i j (l : list A) : 0 <= i -> 0 <= j -> drop j (drop i l) = drop (i + j) l.
Proof. intros Hi Hj. unfold drop. rewrite skipn_plus. f_equal. lia. Qed.

Lemma wrap64_id z : in64 z -> wrap64 z = z.
Proof. unfold in64, wrap64. intros H. rewrite Z.mod_small; lia. Qed.

Lemma slice_ok {A} (l : list A) a b :
  0 <= a <= b -> b <= len l -> slice l a b = Val (take (b - a) (drop a l)).
Proof.
  intros H1 H2. unfold slice.
  replace (0 <=? a) with true by (symmetry; apply Z.leb_le; lia).
  replace (a <=? b) with true by (symmetry; apply Z.leb_le; lia).
  replace (b <=? len l) with true by (symmetry; apply Z.leb_le; lia). reflexivity.
Qed.

(* ------------------------------------------------------------------ CONCAT / CHAR_LENGTH *)
Lemma concat2 {A} (a b : option (list A)) :
  match concat [a; b] with
  | Val c => exists x y, a = Some x /\ b = Some y /\ c = x ++ y /\ len c = len x + len y
  | Null => a = None \/ b = None
  | _ => False
  end.
Proof.
  destruct a as [x|], b as [y|]; cbn; auto.
  exists x, y. rewrite app_nil_r. repeat split; auto. apply len_app.
Qed.

Lemma char_length_concat (a b : list N) :
  exists c, concat [Some a; Some b] = Val c /\
            char_length (Some c) = Val (len a + len b) /\
            byte_length (Some c) = Val (len (utf8 a) + len (utf8 b)).
Proof.
  exists (a ++ b). cbn. rewrite app_nil_r. repeat split.
  - now rewrite len_app.
  - unfold utf8. rewrite flat_map_app, len_app. reflexivity.
Qed.

Lemma concat_null {A} (args : list (option (list A))) : In None args -> concat args = Null.
Proof.
  induction args as [|[x|] r IH]; cbn; intros H; try tauto.
  - destruct H as [H|H]; [discriminate|]. rewrite (IH H). reflexivity.
Qed.

(* ------------------------------------------------------------------ REVERSE / REPEAT *)
Lemma reverse_involutive {A} (s : list A) :
  exists r, reverse (Some s) = Val r /\ reverse (Some r) = Val s /\ len r = len s.
Proof. exists (rev s). cbn. rewrite rev_involutive, len_rev. auto. Qed.

Lemma len_repeat_list {A} (t : list A) n : len (repeat_list t n) = Z.of_nat n * len t.
Proof.
  induction n as [|n IH]; cbn [repeat_list]; [reflexivity|]. rewrite len_app, IH. lia.
Qed.

Lemma repeat_length {A} (t : list A) n :
  0 <= n -> exists r, repeat (Some t) (Some n) = Val r /\ len r = n * len t.
Proof.
  intros H. unfold repeat. replace (n <? 0) with false by (symmetry; apply Z.ltb_ge; lia).
  eexists; split; [reflexivity|]. rewrite len_repeat_list, Z2Nat.id by lia. reflexivity.
Qed.

(* ------------------------------------------------------------------ SUBSTRING / LEFT / RIGHT *)
Definition fits {A} (t : list A) : Prop := len t < 2^62.   (* every real Go slice *)

(* no panic and the expected piece whenever start+length does not overflow *)
Lemma substring_spec {A} (t : list A) start l :
  fits t -> in64 start -> in64 l ->
  let idx := if start <? 0 then len t + start else start - 1 in
  idx + l < 2^63 ->
  substring_core t start (Some l) =
    if (idx <? 0) || (len t <=? idx) || (l <=? 0) then Val []
    else Val (take (Z.min l (len t - idx)) (drop idx t)).
Proof.
  intros Hf Hs Hl idx Hsum. unfold substring_core. fold idx.
  destruct ((idx <? 0) || (len t <=? idx) || (l <=? 0)) eqn:E; [reflexivity|].
  apply orb_false_iff in E. destruct E as [E E3]. apply orb_false_iff in E. destruct E as [E1 E2].
  apply Z.ltb_ge in E1. apply Z.leb_gt in E2. apply Z.leb_gt in E3.
  unfold fits, in64 in *.
  rewrite (wrap64_id (idx + l)) by (unfold in64; lia).
  destruct (len t <? idx + l) eqn:E4.
  - apply Z.ltb_lt in E4. replace (idx + (len t - idx)) with (len t) by lia.
    rewrite wrap64_id by (unfold in64; lia). rewrite slice_ok by lia.
    rewrite Z.min_r by lia. reflexivity.
  - apply Z.ltb_ge in E4. rewrite wrap64_id by (unfold in64; lia). rewrite slice_ok by lia.
    rewrite Z.min_l by lia. f_equal. f_equal. lia.
Qed.

Lemma left_is_substring {A} (t : list A) n :
  fits t -> in64 n -> substring_core t 1 (Some n) = Val (left_core t n).
Proof.
  intros Hf Hn. pose proof (len_nonneg t) as Hl. unfold fits, in64 in *.
  pose proof (substring_spec t 1 n Hf ltac:(unfold in64; lia) Hn) as H. cbv zeta in H.
  change (1 <? 0) with false in H. cbv iota in H. change (1 - 1) with 0 in H.
  rewrite H by lia. clear H.
  change (0 <? 0) with false. rewrite orb_false_l, Z.sub_0_r, drop_0. unfold left_core.
  destruct (len t <=? 0) eqn:E1.
  - apply Z.leb_le in E1. assert (len t = 0) by lia. cbn [orb].
    destruct t; [|rewrite len_cons in *; pose proof (len_nonneg t); lia].
    destruct (len [] <? n); destruct (_ <=? 0); unfold take; try rewrite firstn_nil; reflexivity.
  - apply Z.leb_gt in E1. cbn [orb].
    destruct (len t <? n) eqn:E2.
    + apply Z.ltb_lt in E2. replace (n <=? 0) with false by (symmetry; apply Z.leb_gt; lia).
      replace (len t <=? 0) with false by (symmetry; apply Z.leb_gt; lia).
      rewrite Z.min_r by lia. reflexivity.
    + apply Z.ltb_ge in E2. destruct (n <=? 0) eqn:E3; [reflexivity|].
      apply Z.leb_gt in E3. rewrite Z.min_l by lia. reflexivity.
Qed.

(* LEFT(s,n) || SUBSTRING(s,n+1) = s *)
Lemma left_split {A} (t : list A) n :
  fits t -> 0 <= n < 2^63 - 1 ->
  exists r, substring_core t (n + 1) None = Val r /\ left_core t n ++ r = t.
Proof.
  intros Hf Hn. pose proof (len_nonneg t) as Hl. unfold fits in *.
  unfold substring_core, left_core.
  replace (n + 1 <? 0) with false by (symmetry; apply Z.ltb_ge; lia).
  replace (n + 1 - 1) with n by lia.
  replace (n <? 0) with false by (symmetry; apply Z.ltb_ge; lia). rewrite orb_false_l.
  destruct (len t <=? n) eqn:E1.
  - apply Z.leb_le in E1. cbn [orb]. exists []. split; [reflexivity|]. rewrite app_nil_r.
    destruct (len t <? n) eqn:E2.
    + destruct (len t <=? 0) eqn:E3; [|apply take_all; lia].
      apply Z.leb_le in E3. destruct t; [reflexivity|rewrite len_cons in *; pose proof (len_nonneg t); lia].
    + apply Z.ltb_ge in E2. assert (n = len t) by lia. subst n.
      destruct (len t <=? 0) eqn:E3; [|apply take_all; lia].
      apply Z.leb_le in E3. destruct t; [reflexivity|rewrite len_cons in *; pose proof (len_nonneg t); lia].
  - apply Z.leb_gt in E1. cbn [orb].
    replace (len t <=? 0) with false by (symmetry; apply Z.leb_gt; lia).
    rewrite (wrap64_id (n + len t)) by (unfold in64; lia).
    replace (len t <? n + len t) with (0 <? n) by (destruct (0 <? n) eqn:E; symmetry; [apply Z.ltb_lt; apply Z.ltb_lt in E|apply Z.ltb_ge; apply Z.ltb_ge in E]; lia).
    replace (len t <? n) with false by (symmetry; apply Z.ltb_ge; lia).
    destruct (0 <? n) eqn:E2.
    + apply Z.ltb_lt in E2. replace (n + (len t - n)) with (len t) by lia.
      rewrite wrap64_id by (unfold in64; lia). rewrite slice_ok by lia.
      replace (n <=? 0) with false by (symmetry; apply Z.leb_gt; lia).
      eexists; split; [reflexivity|]. rewrite (take_all (len t - n)) by (rewrite len_drop; lia).
      apply take_drop.
    + apply Z.ltb_ge in E2. assert (n = 0) by lia. subst n. cbn [Z.add].
      rewrite wrap64_id by (unfold in64; lia). rewrite slice_ok by lia.
      eexists; split; [reflexivity|]. cbn [Z.leb Z.compare app]. rewrite drop_0, Z.sub_0_r. apply take_all. lia.
Qed.

Lemma right_is_substring {A} (t : list A) n :
  fits t -> 0 < n <= len t -> substring_core t (- n) None = Val (right_core t n).
Proof.
  intros Hf Hn. unfold fits in *. unfold substring_core, right_core.
  replace (- n <? 0) with true by (symmetry; apply Z.ltb_lt; lia).
  replace (len t + - n <? 0) with false by (symmetry; apply Z.ltb_ge; lia).
  replace (len t <=? len t + - n) with false by (symmetry; apply Z.leb_gt; lia).
  replace (len t <=? 0) with false by (symmetry; apply Z.leb_gt; lia). cbn [orb].
  rewrite (wrap64_id (len t + - n + len t)) by (unfold in64; lia).
  replace (len t <? len t + - n + len t) with (n <? len t)
    by (destruct (n <? len t) eqn:E; symmetry; [apply Z.ltb_lt; apply Z.ltb_lt in E|apply Z.ltb_ge; apply Z.ltb_ge in E]; lia).
  replace (len t <? n) with false by (symmetry; apply Z.ltb_ge; lia).
  replace (n <=? 0) with false by (symmetry; apply Z.leb_gt; lia).
  destruct (n <? len t) eqn:E.
  - apply Z.ltb_lt in E. replace (len t + - n + (len t - (len t + - n))) with (len t) by lia.
    rewrite wrap64_id by (unfold in64; lia). rewrite slice_ok by lia.
    replace (len t + - n) with (len t - n) by lia. f_equal. apply take_all. rewrite len_drop; lia.
  - apply Z.ltb_ge in E. assert (n = len t) by lia. subst n.
    replace (len t + - len t) with 0 by lia. cbn [Z.add].
    rewrite wrap64_id by (unfold in64; lia). rewrite slice_ok by lia.
    replace (len t - len t) with 0 by lia. f_equal. rewrite drop_0. apply take_all. lia.
Qed.

(* the unguarded statement is false of the code: start+length wraps and the slice panics *)
Lemma substring_overflow_panics :
  exists (t : list N) start l, in64 start /\ in64 l /\ substring_core t start (Some l) = Panic.
Proof. exists [97; 98; 99]%N, 2, (2^63 - 1). unfold in64. repeat split; try lia. Qed.

(* ------------------------------------------------------------------ strings.Index / INSTR / LOCATE *)
Lemma index_from_spec p t base :
  let r := index_from p t base in
  (r = -1 /\ forall j, 0 <= j <= len t -> is_prefix N.eqb p (drop j t) = false) \/
  (base <= r <= base + len t /\ is_prefix N.eqb p (drop (r - base) t) = true /\
   forall j, 0 <= j < r - base -> is_prefix N.eqb p (drop j t) = false).
Proof.
  revert base. induction t as [|x t IH]; intros base; cbn [index_from].
  - destruct (is_prefix N.eqb p []) eqn:E.
    + right. rewrite Z.sub_diag. unfold len. cbn [length Z.of_nat]. repeat split; try lia. exact E.
    + left. split; [reflexivity|]. intros j Hj. assert (j = 0) by (unfold len in Hj; cbn in Hj; lia). subst. exact E.
  - destruct (is_prefix N.eqb p (x :: t)) eqn:E.
    + right. rewrite Z.sub_diag. pose proof (len_nonneg (x :: t)). repeat split; try lia. exact E.
    + specialize (IH (base + 1)). cbv zeta in IH. rewrite len_cons. pose proof (len_nonneg t) as Hl.
      assert (Hd : forall j, 0 < j -> drop j (x :: t) = drop (j - 1) t).
      { intros j Hj. unfold drop. replace (Z.to_nat j) with (S (Z.to_nat (j - 1))) by lia. reflexivity. }
      destruct IH as [[H1 H2]|[H1 [H2 H3]]].
      * left. split; [exact H1|]. intros j Hj. destruct (Z.eq_dec j 0) as [->|Hn]; [exact E|].
        rewrite Hd by lia. apply H2. lia.
      * right. split; [lia|]. split.
        -- rewrite Hd by lia. replace (index_from p t (base + 1) - base - 1) with (index_from p t (base + 1) - (base + 1)) by lia. exact H2.
        -- intros j Hj. destruct (Z.eq_dec j 0) as [->|Hn]; [exact E|]. rewrite Hd by lia. apply H3. lia.
Qed.

(* INSTR: 0 iff there is no occurrence, otherwise the 1-based position of the first occurrence *)
Lemma instr_finds_first (s sub : list N) :
  exists p, instr (Some s) (Some sub) = Val p /\
    ((p = 0 /\ forall j, 0 <= j <= len s -> is_prefix N.eqb sub (drop j s) = false) \/
     (1 <= p <= len s + 1 /\ is_prefix N.eqb sub (drop (p - 1) s) = true /\
      forall j, 0 <= j < p - 1 -> is_prefix N.eqb sub (drop j s) = false)).
Proof.
  eexists; split; [reflexivity|]. pose proof (index_from_spec sub s 0) as H. cbv zeta in H.
  unfold index_of. destruct H as [[H1 H2]|[H1 [H2 H3]]].
  - left. split; [lia|exact H2].
  - right. rewrite Z.sub_0_r in *. replace (index_from sub s 0 + 1 - 1) with (index_from sub s 0) by lia.
    split; [lia|]. split; assumption.
Qed.

Definition ascii (s : list N) : Prop := Forall (fun c => (c < 128)%N) s.
Lemma utf8_ascii s : ascii s -> utf8 s = s.
Proof.
  induction 1 as [|c s Hc _ IH]; [reflexivity|]. cbn [utf8 flat_map]. fold (utf8 s). rewrite IH.
  unfold utf8_1. apply N.ltb_lt in Hc. rewrite Hc. reflexivity.
Qed.
Lemma lower_ascii s : ascii s -> ascii (to_lower s).
Proof.
  induction 1 as [|c s Hc _ IH]; constructor; [|exact IH]. unfold lower_cp.
  destruct ((65 <=? c) && (c <=? 90))%N eqn:E.
  - apply andb_prop in E. destruct E as [_ E]. apply N.leb_le in E. lia.
  - destruct ((192 <=? c) && (c <=? 222) && negb (c =? 215))%N eqn:E2; [|exact Hc].
    apply andb_prop in E2. destruct E2 as [E2 _]. apply andb_prop in E2. destruct E2 as [E2 _]. apply N.leb_le in E2. lia.
Qed.
Lemma lower_suffix_ascii s off :
  ascii s -> 0 <= off <= len s -> lower_suffix s off = drop off (to_lower s).
Proof.
  intros Ha. revert off. induction Ha as [|c s Hc Ha IH]; intros off Ho.
  - cbn. unfold drop. now rewrite skipn_nil.
  - cbn [lower_suffix]. assert (L : len (utf8_1 c) = 1).
    { unfold utf8_1. apply N.ltb_lt in Hc. rewrite Hc. reflexivity. }
    rewrite L. destruct (off <=? 0) eqn:E.
    + apply Z.leb_le in E. assert (off = 0) by lia. subst. rewrite drop_0. apply utf8_ascii.
      apply lower_ascii. constructor; assumption.
    + apply Z.leb_gt in E. replace (off <? 1) with false by (symmetry; apply Z.ltb_ge; lia).
      rewrite len_cons in Ho. rewrite IH by lia. cbn [to_lower map]. unfold drop.
      replace (Z.to_nat off) with (S (Z.to_nat (off - 1))) by lia. reflexivity.
Qed.

(* LOCATE on ASCII strings: 0 iff the (case-folded) substring does not occur at or after pos, otherwise the
   position of the first such occurrence *)
Lemma locate_finds_first_ascii (sub s : list N) pos :
  ascii sub -> ascii s -> 1 <= pos <= len s -> sub <> [] ->
  let ls := to_lower s in let lsub := to_lower sub in
  exists p, locate_core sub s pos = Val p /\
    ((p = 0 /\ forall j, pos - 1 <= j <= len s -> is_prefix N.eqb lsub (drop j ls) = false) \/
     (pos <= p <= len s + 1 /\ is_prefix N.eqb lsub (drop (p - 1) ls) = true /\
      forall j, pos - 1 <= j < p - 1 -> is_prefix N.eqb lsub (drop j ls) = false)).
Proof.
  intros Hsub Hs Hpos Hne ls lsub. unfold locate_core.
  rewrite (utf8_ascii s Hs), (utf8_ascii sub Hsub).
  replace (pos <=? 0) with false by (symmetry; apply Z.leb_gt; lia).
  replace (len s <? pos) with false by (symmetry; apply Z.ltb_ge; lia). rewrite andb_false_r. cbn [orb].
  assert (0 < len sub). { destruct sub; [congruence|]. rewrite len_cons. pose proof (len_nonneg sub). lia. }
  replace (len sub =? 0) with false by (symmetry; apply Z.eqb_neq; lia). cbn [andb].
  replace (len s <? pos - 1) with false by (symmetry; apply Z.ltb_ge; lia).
  rewrite (utf8_ascii _ (lower_ascii _ Hsub)), lower_suffix_ascii by (auto; lia).
  fold ls lsub. unfold index_of.
  pose proof (index_from_spec lsub (drop (pos - 1) ls) 0) as H0. cbv zeta in H0.
  assert (Hll : len ls = len s) by (unfold ls, to_lower, len; now rewrite map_length).
  assert (Hdd : forall j, 0 <= j -> drop j (drop (pos - 1) ls) = drop (pos - 1 + j) ls).
  { intros j Hj. apply drop_drop; lia. }
  rewrite len_drop in H0 by lia.
  destruct H0 as [[H1 H2]|[H1 [H2 H3]]].
  - rewrite H1. cbn [Z.eqb]. eexists; split; [reflexivity|]. left. split; [reflexivity|].
    intros j Hj. specialize (H2 (j - (pos - 1))). rewrite Hdd in H2 by lia.
    replace (pos - 1 + (j - (pos - 1))) with j in H2 by lia. apply H2. lia.
  - set (r := index_from lsub (drop (pos - 1) ls) 0) in *.
    replace (r =? -1) with false by (symmetry; apply Z.eqb_neq; lia).
    eexists; split; [reflexivity|]. right. rewrite Z.sub_0_r in *. split; [lia|]. split.
    + rewrite Hdd in H2 by lia. replace (r + pos - 1) with (pos - 1 + r) by lia. exact H2.
    + intros j Hj. specialize (H3 (j - (pos - 1))). rewrite Hdd in H3 by lia.
      replace (pos - 1 + (j - (pos - 1))) with j in H3 by lia. apply H3. lia.
Qed.

(* on multi-byte strings LOCATE answers in bytes: it disagrees with INSTR and with SUBSTRING's positions *)
Lemma locate_multibyte_byte_position :
  exists sub s, locate_core sub s 1 = Val 3 /\ instr (Some s) (Some sub) = Val 2.
Proof. exists [98]%N, [233; 98]%N. split; reflexivity. Qed.

Lemma locate_panics : exists sub s pos, 1 <= pos < 2^31 /\ locate_core sub s pos = Panic.
Proof. exists [97]%N, [], 5. split; [lia|reflexivity]. Qed.

(* ------------------------------------------------------------------ INSERT *)
Lemma insert_spec {A} (s n : list A) p l :
  fits s -> 1 <= p <= len s -> 0 <= l -> p - 1 + l < 2^63 ->
  insert_core s p l n = Val (take (p - 1) s ++ n ++ drop (p - 1 + l) s).
Proof.
  intros Hf Hp Hl Hsum. unfold fits in *. unfold insert_core.
  replace (p <? 1) with false by (symmetry; apply Z.ltb_ge; lia).
  replace (len s <=? p - 1) with false by (symmetry; apply Z.leb_gt; lia).
  replace (l <? 0) with false by (symmetry; apply Z.ltb_ge; lia).
  rewrite wrap64_id by (unfold in64; lia).
  destruct (len s <? p - 1 + l) eqn:E.
  - apply Z.ltb_lt in E. rewrite slice_ok by lia. rewrite Z.sub_diag.
    rewrite (drop_all (p - 1 + l)) by lia. rewrite (drop_all (len s)) by lia. reflexivity.
  - apply Z.ltb_ge in E. rewrite slice_ok by lia. do 3 f_equal. apply take_all. rewrite len_drop; lia.
Qed.

Lemma insert_outside_is_identity {A} (s n : list A) p l :
  p < 1 \/ len s < p -> insert_core s p l n = Val s.
Proof.
  intros H. unfold insert_core. destruct (p <? 1) eqn:E; [reflexivity|]. apply Z.ltb_ge in E.
  replace (len s <=? p - 1) with true by (symmetry; apply Z.leb_le; lia). reflexivity.
Qed.

(* characters vs bytes: INSERT('héllo',3,1,'X') cuts the two-byte character *)
Lemma insert_multibyte_byte_offsets :
  exists s p l n, insert (Some s) (Some p) (Some l) (Some n) <> Val (utf8 (take (p - 1) s ++ n ++ drop (p - 1 + l) s)).
Proof. exists [104; 233; 108; 108; 111]%N, 3, 1, [88]%N. vm_compute. discriminate. Qed.

Lemma insert_panics : exists (s n : list N) p l, in64 p /\ in64 l /\ insert_core s p l n = Panic.
Proof. exists [104; 101]%N, [88]%N, 2, (2^63 - 1). unfold in64. repeat split; lia. Qed.

(* ------------------------------------------------------------------ LPAD / RPAD *)
Lemma pad_length {A} lp (s p : list A) n :
  0 <= n -> (n <= len s \/ p <> []) -> len (pad_core lp s n p) = n.
Proof.
  intros Hn Hp. unfold pad_core. pose proof (len_nonneg s) as Hs.
  destruct (n <=? 0) eqn:E0; [apply Z.leb_le in E0; rewrite len_nil; lia|]. apply Z.leb_gt in E0.
  destruct (n <=? len s) eqn:E1; [apply Z.leb_le in E1; apply len_take; lia|]. apply Z.leb_gt in E1.
  assert (Hpl : 0 < len p). { destruct Hp as [|Hp]; [lia|]. destruct p; [congruence|]. rewrite len_cons. pose proof (len_nonneg p). lia. }
  replace (len p =? 0) with false by (symmetry; apply Z.eqb_neq; lia).
  set (padLen := n - len s). pose proof (Z.div_mod padLen (len p) ltac:(lia)) as Hdm.
  pose proof (Z.mod_pos_bound padLen (len p) Hpl) as Hmb.
  assert (Hq : 0 <= padLen / len p) by (apply Z.div_pos; lia).
  assert (Htot : len (repeat_list p (Z.to_nat (padLen / len p))) + len (take (padLen mod len p) p) = padLen).
  { rewrite len_repeat_list, len_take by lia. rewrite Z2Nat.id by lia. lia. }
  destruct lp.
  - apply len_take. rewrite !len_app. lia.
  - rewrite len_drop; rewrite !len_app; lia.
Qed.

Lemma lpad_keeps_string {A} (s p : list A) n :
  len s <= n -> p <> [] -> exists q, pad_core true s n p = q ++ s /\ len q = n - len s.
Proof.
  intros Hn Hp. pose proof (pad_length true s p n ltac:(pose proof (len_nonneg s); lia) (or_intror Hp)) as HL.
  unfold pad_core in *. pose proof (len_nonneg s) as Hs.
  destruct (n <=? 0) eqn:E0.
  { apply Z.leb_le in E0. exists []. assert (len s = 0) by lia. destruct s; [|rewrite len_cons in *; pose proof (len_nonneg s); lia]. split; [reflexivity|]. rewrite len_nil in *. lia. }
  apply Z.leb_gt in E0.
  destruct (n <=? len s) eqn:E1.
  { apply Z.leb_le in E1. exists []. cbn [app]. split; [apply take_all; lia|rewrite len_nil; lia]. }
  apply Z.leb_gt in E1.
  assert (Hpl : 0 < len p). { destruct p; [congruence|]. rewrite len_cons. pose proof (len_nonneg p). lia. }
  replace (len p =? 0) with false in * by (symmetry; apply Z.eqb_neq; lia).
  set (padLen := n - len s) in *. pose proof (Z.div_mod padLen (len p) ltac:(lia)) as Hdm.
  pose proof (Z.mod_pos_bound padLen (len p) Hpl) as Hmb.
  assert (Hq : 0 <= padLen / len p) by (apply Z.div_pos; lia).
  exists (repeat_list p (Z.to_nat (padLen / len p)) ++ take (padLen mod len p) p).
  assert (Htot : len (repeat_list p (Z.to_nat (padLen / len p)) ++ take (padLen mod len p) p) = padLen).
  { rewrite len_app, len_repeat_list, len_take by lia. rewrite Z2Nat.id by lia. lia. }
  split; [|exact Htot]. rewrite app_assoc. apply take_all. rewrite len_app. lia.
Qed.

Lemma rpad_keeps_string {A} (s p : list A) n :
  len s <= n -> p <> [] -> exists q, pad_core false s n p = s ++ q /\ len q = n - len s.
Proof.
  intros Hn Hp. unfold pad_core. pose proof (len_nonneg s) as Hs.
  destruct (n <=? 0) eqn:E0.
  { apply Z.leb_le in E0. exists []. assert (len s = 0) by lia. destruct s; [|rewrite len_cons in *; pose proof (len_nonneg s); lia]. split; [reflexivity|]. rewrite len_nil in *. lia. }
  apply Z.leb_gt in E0.
  destruct (n <=? len s) eqn:E1.
  { apply Z.leb_le in E1. exists []. split; [rewrite app_nil_r; apply take_all; lia|rewrite len_nil; lia]. }
  apply Z.leb_gt in E1.
  assert (Hpl : 0 < len p). { destruct p; [congruence|]. rewrite len_cons. pose proof (len_nonneg p). lia. }
  replace (len p =? 0) with false by (symmetry; apply Z.eqb_neq; lia).
  set (padLen := n - len s). pose proof (Z.div_mod padLen (len p) ltac:(lia)) as Hdm.
  pose proof (Z.mod_pos_bound padLen (len p) Hpl) as Hmb.
  assert (Hq : 0 <= padLen / len p) by (apply Z.div_pos; lia).
  exists (repeat_list p (Z.to_nat (padLen / len p)) ++ take (padLen mod len p) p).
  assert (Htot : len (repeat_list p (Z.to_nat (padLen / len p)) ++ take (padLen mod len p) p) = padLen).
  { rewrite len_app, len_repeat_list, len_take by lia. rewrite Z2Nat.id by lia. lia. }
  split; [|exact Htot].
  replace (len (s ++ repeat_list p (Z.to_nat (padLen / len p)) ++ take (padLen mod len p) p) - n) with 0
    by (rewrite len_app, Htot; lia). apply drop_0.
Qed.

(* in characters the length identity fails: LPAD('é',1,'x') is one byte, not one character *)
Lemma pad_multibyte_byte_length :
  exists s n p, pad true (Some s) (Some n) (Some p) = Val [195]%N /\ n = 1 /\ char_length (Some s) = Val 1.
Proof. exists [233]%N, 1, [120]%N. repeat split. Qed.

(* ------------------------------------------------------------------ HEX / UNHEX *)
Definition is_bytes (bs : list N) : Prop := Forall (fun c => (c < 256)%N) bs.

Lemma hex_nibble_roundtrip : forall h, (h < 16)%N -> hex_val (upper_byte (hex_char h)) = Some h.
Proof.
  intros h Hh. assert (H : forallb (fun h => match hex_val (upper_byte (hex_char h)) with Some x => N.eqb x h | None => false end)
                             (map N.of_nat (seq 0 16)) = true) by (vm_compute; reflexivity).
  rewrite forallb_forall in H. specialize (H h).
  assert (Hin : In h (map N.of_nat (seq 0 16))).
  { apply in_map_iff. exists (N.to_nat h). split; [apply N2Nat.id|]. apply in_seq. lia. }
  specialize (H Hin). destruct (hex_val (upper_byte (hex_char h))); [|discriminate]. apply N.eqb_eq in H. now subst.
Qed.

Lemma len_hex_even bs : Z.odd (len (hex_bytes bs)) = false.
Proof.
  induction bs as [|b bs IH]; [reflexivity|]. cbn [hex_bytes flat_map app]. fold (hex_bytes bs).
  rewrite !len_cons. replace (1 + (1 + len (hex_bytes bs))) with (len (hex_bytes bs) + 2) by lia.
  rewrite Z.odd_add. rewrite IH. reflexivity.
Qed.

Lemma unhex_hex bs : is_bytes bs -> unhex_bytes (hex_bytes bs) = Some bs.
Proof.
  intros Hb. unfold unhex_bytes. rewrite len_hex_even.
  induction Hb as [|b bs Hc _ IH]; [reflexivity|].
  cbn [hex_bytes flat_map app map unhex_pairs]. fold (hex_bytes bs).
  assert (H1 : (b / 16 < 16)%N) by (apply N.div_lt_upper_bound; lia).
  assert (H2 : (b mod 16 < 16)%N) by (apply N.mod_lt; lia).
  rewrite (hex_nibble_roundtrip _ H1), (hex_nibble_roundtrip _ H2), IH.
  f_equal. f_equal. pose proof (N.div_mod b 16 ltac:(lia)). lia.
Qed.

(* ------------------------------------------------------------------ TO_BASE64 / FROM_BASE64 *)
Lemma b64_val_char : forall i, (i < 64)%N -> b64_val (b64_char i) = Some i.
Proof.
  intros i Hi. assert (H : forallb (fun i => match b64_val (b64_char i) with Some x => N.eqb x i | None => false end)
                             (map N.of_nat (seq 0 64)) = true) by (vm_compute; reflexivity).
  rewrite forallb_forall in H. specialize (H i).
  assert (Hin : In i (map N.of_nat (seq 0 64))).
  { apply in_map_iff. exists (N.to_nat i). split; [apply N2Nat.id|]. apply in_seq. lia. }
  specialize (H Hin). destruct (b64_val (b64_char i)); [|discriminate]. apply N.eqb_eq in H. now subst.
Qed.

Lemma b64_char_not_special : forall i, (i < 64)%N -> b64_char i <> 61%N /\ b64_char i <> 10%N /\ b64_char i <> 13%N.
Proof.
  intros i Hi. assert (H : forallb (fun i => negb (N.eqb (b64_char i) 61) && negb (N.eqb (b64_char i) 10) && negb (N.eqb (b64_char i) 13))
                             (map N.of_nat (seq 0 64)) = true) by (vm_compute; reflexivity).
  rewrite forallb_forall in H. specialize (H i).
  assert (Hin : In i (map N.of_nat (seq 0 64))).
  { apply in_map_iff. exists (N.to_nat i). split; [apply N2Nat.id|]. apply in_seq. lia. }
  specialize (H Hin). apply andb_prop in H. destruct H as [H H3]. apply andb_prop in H. destruct H as [H1 H2].
  apply negb_true_iff in H1, H2, H3. apply N.eqb_neq in H1, H2, H3. auto.
Qed.

(* ------------------------------------------------------------------ ROUND / TRUNCATE / CEIL / FLOOR *)
Lemma half_away_close m P : 0 < P -> 2 * Z.abs (div_half_away m P * P - m) <= P.
Proof.
  intros HP. unfold div_half_away.
  pose proof (Z.div_mod (Z.abs m) P ltac:(lia)) as Hdm.
  pose proof (Z.mod_pos_bound (Z.abs m) P HP) as Hmb.
  set (q := Z.abs m / P) in *. set (r := Z.abs m mod P) in *.
  destruct (P <=? 2 * r) eqn:E; [apply Z.leb_le in E|apply Z.leb_gt in E];
    destruct (Z.sgn_spec m) as [[Hm Hs]|[[Hm Hs]|[Hm Hs]]]; rewrite Hs; nia.
Qed.

Lemma half_away_exact m P : 0 < P -> div_half_away (m * P) P = m.
Proof.
  intros HP. unfold div_half_away. rewrite Z.abs_mul, (Z.abs_eq P) by lia.
  rewrite Z.div_mul, Z.mod_mul by lia. replace (P <=? 2 * 0) with false by (symmetry; apply Z.leb_gt; lia).
  rewrite Z.sgn_mul, (Z.sgn_pos P) by lia. rewrite Z.mul_1_r. destruct (Z.sgn_spec m) as [[Hm Hs]|[[Hm Hs]|[Hm Hs]]]; rewrite Hs; lia.
Qed.

(* ROUND(x, d) on a decimal x = m * 10^-s, d >= 0: the result m' * 10^-d is within half a unit 10^-d of x
   (both sides multiplied by 10^(s+d)) *)
Lemma round_within_half_unit_pos m s prec :
  0 <= s -> 0 <= prec ->
  let '(m', s') := quantize div_half_away m s prec in
  s' = prec /\ 2 * Z.abs (m' * 10 ^ s - m * 10 ^ prec) <= 10 ^ s.
Proof.
  intros Hs Hp. unfold quantize. destruct (s <=? prec) eqn:E.
  - apply Z.leb_le in E. split; [reflexivity|].
    replace (m * 10 ^ (prec - s) * 10 ^ s) with (m * 10 ^ prec)
      by (rewrite <- Z.mul_assoc, <- Z.pow_add_r by lia; do 2 f_equal; lia).
    rewrite Z.sub_diag. cbn [Z.abs Z.mul]. apply Z.pow_nonneg. lia.
  - apply Z.leb_gt in E. replace (prec <? 0) with false by (symmetry; apply Z.ltb_ge; lia).
    split; [reflexivity|]. set (P := 10 ^ (s - prec)).
    assert (HP : 0 < P) by (apply Z.pow_pos_nonneg; lia).
    assert (H10 : 10 ^ s = 10 ^ prec * P) by (unfold P; rewrite <- Z.pow_add_r by lia; f_equal; lia).
    assert (Hpp : 0 < 10 ^ prec) by (apply Z.pow_pos_nonneg; lia).
    pose proof (half_away_close m P HP) as Hc. rewrite H10.
    replace (div_half_away m P * (10 ^ prec * P) - m * 10 ^ prec) with (10 ^ prec * (div_half_away m P * P - m)) by ring.
    rewrite Z.abs_mul, (Z.abs_eq (10 ^ prec)) by lia. nia.
Qed.

(* d < 0: the result is an integer m' (a multiple of 10^-d) within half of 10^-d of x *)
Lemma round_within_half_unit_neg m s prec :
  0 <= s -> prec < 0 ->
  let '(m', s') := quantize div_half_away m s prec in
  s' = 0 /\ 2 * Z.abs (m' * 10 ^ s - m) <= 10 ^ (s - prec) /\ m' mod 10 ^ (- prec) = 0.
Proof.
  intros Hs Hp. unfold quantize. replace (s <=? prec) with false by (symmetry; apply Z.leb_gt; lia).
  replace (prec <? 0) with true by (symmetry; apply Z.ltb_lt; lia).
  split; [reflexivity|]. set (P := 10 ^ (s - prec)).
  assert (HP : 0 < P) by (apply Z.pow_pos_nonneg; lia).
  assert (H10 : P = 10 ^ (- prec) * 10 ^ s) by (unfold P; rewrite <- Z.pow_add_r by lia; f_equal; lia).
  split.
  - replace (div_half_away m P * 10 ^ (- prec) * 10 ^ s) with (div_half_away m P * P) by (rewrite H10; ring).
    apply half_away_close. exact HP.
  - apply Z.mod_mul. apply Z.pow_nonzero; lia.
Qed.

(* integer arguments: ROUND(n, d >= 0) = n, and for d < 0 the result is the rounded multiple unless it saturates *)
Lemma round_int_identity k n d :
  k <> KDecimal -> 0 <= d -> clamp_kind k n = n ->
  round_num k (Some (n, 0)) (Some (Some d)) = Val (n, 0).
Proof.
  intros Hk Hd Hc. unfold round_num, finish, quantize.
  assert (Hr : 0 <= round_prec d). { unfold round_prec. destruct (65 <? d); [lia|]. destruct (d <? -30) eqn:E; [apply Z.ltb_lt in E|]; lia. }
  replace (0 <=? round_prec d) with true by (symmetry; apply Z.leb_le; lia).
  rewrite Z.sub_0_r. cbn [fst snd].
  rewrite half_away_exact by (apply Z.pow_pos_nonneg; lia). destruct k; try congruence; now rewrite Hc.
Qed.

Lemma truncate_toward_zero m P :
  0 < P -> let q := Z.quot m P in
  Z.abs (m - q * P) < P /\ Z.abs (q * P) <= Z.abs m /\ (0 <= m -> 0 <= q) /\ (m <= 0 -> q <= 0).
Proof.
  intros HP q. pose proof (Z.quot_rem m P ltac:(lia)) as Hqr. fold q in Hqr.
  destruct (Z_le_gt_dec 0 m) as [Hm|Hm].
  - pose proof (Z.rem_bound_pos m P Hm HP) as Hb. pose proof (Z.quot_pos m P Hm HP) as Hq. fold q in Hq.
    repeat split; try nia.
  - pose proof (Z.rem_bound_abs m P ltac:(lia)) as Hb. pose proof (Z.rem_nonpos m P ltac:(lia) ltac:(lia)) as Hb2.
    assert (Hq : q <= 0). { unfold q. pose proof (Z.quot_pos (- m) P ltac:(lia) HP) as Hx. rewrite Z.quot_opp_l in Hx by lia. lia. }
    repeat split; try nia.
Qed.

Lemma floor_ceil_bracket m P :
  0 < P ->
  floor_div m P * P <= m < (floor_div m P + 1) * P /\ (ceil_div m P - 1) * P < m <= ceil_div m P * P.
Proof.
  intros HP. unfold floor_div, ceil_div.
  pose proof (Z.div_mod m P ltac:(lia)). pose proof (Z.mod_pos_bound m P HP).
  pose proof (Z.div_mod (- m) P ltac:(lia)). pose proof (Z.mod_pos_bound (- m) P HP). nia.
Qed.

(* CEIL / FLOOR of a decimal m * 10^-s: correct when the coefficient has at least s digits and the result
   fits BIGINT *)
Lemma ceil_floor_decimal m s :
  0 <= s -> 10 ^ (s - 1) <= Z.abs m ->
  - 2^63 <= floor_div m (10 ^ s) -> ceil_div m (10 ^ s) < 2^63 ->
  exists c f, ceil_num KDecimal (Some (m, s)) = Val c /\ floor_num KDecimal (Some (m, s)) = Val f /\
              f * 10 ^ s <= m < (f + 1) * 10 ^ s /\ (c - 1) * 10 ^ s < m <= c * 10 ^ s.
Proof.
  intros Hs Hd Hf Hc. assert (HP : 0 < 10 ^ s) by (apply Z.pow_pos_nonneg; lia).
  pose proof (floor_ceil_bracket m (10 ^ s) HP) as [[H1 H2] [H3 H4]].
  exists (ceil_div m (10 ^ s)), (floor_div m (10 ^ s)). unfold ceil_num, floor_num.
  replace (Z.abs m <? 10 ^ (s - 1)) with false by (symmetry; apply Z.ltb_ge; lia).
  assert (Hfc : floor_div m (10 ^ s) <= ceil_div m (10 ^ s)) by nia.
  unfold clamp_kind.
  replace (ceil_div m (10 ^ s) <? - 2 ^ 63) with false by (symmetry; apply Z.ltb_ge; lia).
  replace (2 ^ 63 - 1 <? ceil_div m (10 ^ s)) with false by (symmetry; apply Z.ltb_ge; lia).
  replace (floor_div m (10 ^ s) <? - 2 ^ 63) with false by (symmetry; apply Z.ltb_ge; lia).
  replace (2 ^ 63 - 1 <? floor_div m (10 ^ s)) with false by (symmetry; apply Z.ltb_ge; lia).
  repeat split; assumption.
Qed.

(* the two ways the unguarded statement fails in the code *)
Lemma ceil_small_fraction_is_zero :
  ceil_num KDecimal (Some (75, 3)) = Val 0 /\ floor_num KDecimal (Some (-15, 3)) = Val 0.
Proof. split; reflexivity. Qed.
Lemma ceil_saturates :
  ceil_num KDecimal (Some (123456789012345678905, 1)) = Val (2^63 - 1).
Proof. reflexivity. Qed.

(* ------------------------------------------------------------------ INET_NTOA *)
Lemma inet_ntoa_saturates : inet_ntoa (Some 3232235777) = inet_ntoa (Some 2147483647).
Proof. reflexivity. Qed.
