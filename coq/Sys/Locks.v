(* C38 — model of /repo/sql/lock_subsystem.go (LockSubsystem) as a small-step interleaving semantics, and the
   atomic specification it is compared with.

   Concrete side.  Per lock name one atomic pointer to an immutable cell ownedLock{Owner,Count}; a cell is
   identified by its allocation id (a fresh id per `&ownedLock{...}`), so CompareAndSwapPointer compares ids.
   Every thread (= session, id <> 0, one goroutine per session) has a program counter; one step is one
   atomic action of the Go code: a map read under the RW mutex (getNamedLock), createLock under the write
   lock, atomic.LoadPointer, atomic.CompareAndSwapPointer, Session.AddLock / DelLock, the read of the
   session's lock set by IterLocks, and the timeout decision of Lock (an adversarial choice).
   Any number of threads and names; the step relation lets any thread move at any time.

   Abstract side.  Per name NotExist / Free / Held owner count; each operation takes effect in ONE internal
   step between its invocation and its response, except (as the code is) that
     - the creation of a lock entry (NotExist -> Free) by TryLock/Lock is its own atomic step, and
     - ReleaseAll is a sequence of atomic per-name releases over a list of names. *)
From Coq Require Import List NArith Bool.
Import ListNotations.
Open Scope N_scope.

Definition fupd {A} (f : N -> A) (k : N) (v : A) : N -> A := fun x => if N.eqb x k then v else f x.

Inductive op :=
| OTry (n : N)        (* TryLock(ctx, name) *)
| OLock (n : N)       (* Lock(ctx, name, timeout) *)
| OUnlock (n : N)     (* Unlock(ctx, name) *)
| ORelAll             (* ReleaseAll(ctx) *)
| OState (n : N).     (* GetLockState(name) *)

Inductive ret :=
| RBool (b : bool)    (* TryLock: acquired? *)
| ROk                 (* nil error *)
| RTimeout            (* ErrLockTimeout *)
| RNotExist           (* ErrLockDoesNotExist *)
| RNotOwned           (* ErrLockNotOwned *)
| RCount (k : N)      (* ReleaseAll: number released *)
| RState (st owner : N).  (* GetLockState: 0 LockDoesNotExist, 1 LockInUse, 2 LockFree *)

Inductive label := LInv (t : N) (o : op) | LResp (t : N) (r : ret) | LTau.

(* what TryLock / Lock return after acquiring *)
Definition acquired (blocking : bool) : ret := if blocking then ROk else RBool true.

(* ---------------------------------------------------------------- concrete machine *)
Inductive pc :=
| PIdle
| PGet (b : bool) (n : N)                 (* getOrCreateLock: getNamedLock *)
| PCreate (b : bool) (n : N)              (* getOrCreateLock: createLock *)
| PTLoad (b : bool) (n : N)               (* tryLock: LoadPointer *)
| PTCas (b : bool) (n id o c : N)         (* tryLock: loaded cell id = {o, c}; CompareAndSwapPointer next *)
| PTAdd (b : bool) (n : N)                (* tryLock: Session.AddLock(name) after a first acquisition *)
| PTFail (n : N)                          (* Lock: tryLock said false; sleep, then loop condition *)
| PUGet (n : N)
| PULoad (n : N)
| PUCas (n id c : N)                      (* Unlock: loaded cell id = {t, c} *)
| PUDel (n : N)                           (* Unlock: Session.DelLock(name) *)
| PRIter (todo : list N) (k : N)          (* ReleaseAll: IterLocks loop head *)
| PRLoad (n : N) (todo : list N) (k : N)
| PRCas (n id : N) (todo : list N) (k : N)
| PSGet (n : N)
| PSLoad (n : N)
| PRet (r : ret).

Record cstate := mkC {
  lk : N -> option (N * N * N);   (* name -> (cell id, Owner, Count); None = no map entry *)
  nid : N;                        (* next allocation id *)
  sset : N -> list N;             (* session -> names in BaseSession.locks *)
  pcs : N -> pc
}.

Definition cinit : cstate := mkC (fun _ => None) 0 (fun _ => []) (fun _ => PIdle).

Definition set_pc (s : cstate) (t : N) (p : pc) : cstate := mkC (lk s) (nid s) (sset s) (fupd (pcs s) t p).
(* install a freshly allocated cell {o, c} at name n *)
Definition install (s : cstate) (n o c : N) (t : N) (p : pc) : cstate :=
  mkC (fupd (lk s) n (Some (nid s, o, c))) (nid s + 1) (sset s) (fupd (pcs s) t p).
Definition set_sset (s : cstate) (t : N) (l : list N) (p : pc) : cstate :=
  mkC (lk s) (nid s) (fupd (sset s) t l) (fupd (pcs s) t p).

Definition add_name (n : N) (l : list N) : list N := if existsb (N.eqb n) l then l else n :: l.
Definition del_name (n : N) (l : list N) : list N := filter (fun x => negb (N.eqb x n)) l.

Definition start_pc (s : cstate) (t : N) (o : op) : pc :=
  match o with
  | OTry n => PGet false n
  | OLock n => PGet true n
  | OUnlock n => PUGet n
  | ORelAll => PRIter (sset s t) 0
  | OState n => PSGet n
  end.

Inductive cstep : cstate -> label -> cstate -> Prop :=
| c_inv s t o : t <> 0 -> pcs s t = PIdle -> cstep s (LInv t o) (set_pc s t (start_pc s t o))
| c_resp s t r : pcs s t = PRet r -> cstep s (LResp t r) (set_pc s t PIdle)
(* getOrCreateLock *)
| c_get_some s t b n x : pcs s t = PGet b n -> lk s n = Some x -> cstep s LTau (set_pc s t (PTLoad b n))
| c_get_none s t b n : pcs s t = PGet b n -> lk s n = None -> cstep s LTau (set_pc s t (PCreate b n))
| c_create_new s t b n : pcs s t = PCreate b n -> lk s n = None ->
    cstep s LTau (install s n 0 0 t (PTLoad b n))
| c_create_old s t b n x : pcs s t = PCreate b n -> lk s n = Some x -> cstep s LTau (set_pc s t (PTLoad b n))
(* tryLock *)
| c_tload_mine s t b n id o c : pcs s t = PTLoad b n -> lk s n = Some (id, o, c) -> o = 0 \/ o = t ->
    cstep s LTau (set_pc s t (PTCas b n id o c))
| c_tload_other s t b n id o c : pcs s t = PTLoad b n -> lk s n = Some (id, o, c) -> o <> 0 -> o <> t ->
    cstep s LTau (set_pc s t (if b then PTFail n else PRet (RBool false)))
| c_tcas_free s t b n id c id' o' c' : pcs s t = PTCas b n id 0 c -> lk s n = Some (id', o', c') -> id' = id ->
    cstep s LTau (install s n t 1 t (PTAdd b n))
| c_tcas_own s t b n id o c id' o' c' : pcs s t = PTCas b n id o c -> o <> 0 ->
    lk s n = Some (id', o', c') -> id' = id ->
    cstep s LTau (install s n t (c + 1) t (PRet (acquired b)))
| c_tcas_fail s t b n id o c id' o' c' : pcs s t = PTCas b n id o c -> lk s n = Some (id', o', c') -> id' <> id ->
    cstep s LTau (set_pc s t (PTLoad b n))
| c_tadd s t b n : pcs s t = PTAdd b n ->
    cstep s LTau (set_sset s t (add_name n (sset s t)) (PRet (acquired b)))
| c_lock_retry s t n : pcs s t = PTFail n -> cstep s LTau (set_pc s t (PTLoad true n))
| c_lock_timeout s t n : pcs s t = PTFail n -> cstep s LTau (set_pc s t (PRet RTimeout))
(* Unlock *)
| c_uget_none s t n : pcs s t = PUGet n -> lk s n = None -> cstep s LTau (set_pc s t (PRet RNotExist))
| c_uget_some s t n x : pcs s t = PUGet n -> lk s n = Some x -> cstep s LTau (set_pc s t (PULoad n))
| c_uload_other s t n id o c : pcs s t = PULoad n -> lk s n = Some (id, o, c) -> o <> t ->
    cstep s LTau (set_pc s t (PRet RNotOwned))
| c_uload_mine s t n id c : pcs s t = PULoad n -> lk s n = Some (id, t, c) ->
    cstep s LTau (set_pc s t (PUCas n id c))
| c_ucas_dec s t n id c id' o' c' : pcs s t = PUCas n id c -> 1 < c -> lk s n = Some (id', o', c') -> id' = id ->
    cstep s LTau (install s n t (c - 1) t (PRet ROk))
| c_ucas_free s t n id c id' o' c' : pcs s t = PUCas n id c -> c <= 1 -> lk s n = Some (id', o', c') -> id' = id ->
    cstep s LTau (install s n 0 0 t (PUDel n))
| c_ucas_fail s t n id c id' o' c' : pcs s t = PUCas n id c -> lk s n = Some (id', o', c') -> id' <> id ->
    cstep s LTau (set_pc s t (PULoad n))
| c_udel s t n : pcs s t = PUDel n -> cstep s LTau (set_sset s t (del_name n (sset s t)) (PRet ROk))
(* ReleaseAll *)
| c_riter_done s t k : pcs s t = PRIter [] k -> cstep s LTau (set_pc s t (PRet (RCount k)))
| c_riter_none s t n todo k : pcs s t = PRIter (n :: todo) k -> lk s n = None ->
    cstep s LTau (set_pc s t (PRIter todo k))
| c_riter_some s t n todo k x : pcs s t = PRIter (n :: todo) k -> lk s n = Some x ->
    cstep s LTau (set_pc s t (PRLoad n todo k))
| c_rload_other s t n todo k id o c : pcs s t = PRLoad n todo k -> lk s n = Some (id, o, c) -> o <> t ->
    cstep s LTau (set_pc s t (PRIter todo k))
| c_rload_mine s t n todo k id c : pcs s t = PRLoad n todo k -> lk s n = Some (id, t, c) ->
    cstep s LTau (set_pc s t (PRCas n id todo k))
| c_rcas_ok s t n id todo k id' o' c' : pcs s t = PRCas n id todo k -> lk s n = Some (id', o', c') -> id' = id ->
    cstep s LTau (install s n 0 0 t (PRIter todo (k + 1)))
| c_rcas_fail s t n id todo k id' o' c' : pcs s t = PRCas n id todo k -> lk s n = Some (id', o', c') -> id' <> id ->
    cstep s LTau (set_pc s t (PRLoad n todo k))
(* GetLockState *)
| c_sget_none s t n : pcs s t = PSGet n -> lk s n = None -> cstep s LTau (set_pc s t (PRet (RState 0 0)))
| c_sget_some s t n x : pcs s t = PSGet n -> lk s n = Some x -> cstep s LTau (set_pc s t (PSLoad n))
| c_sload s t n id o c : pcs s t = PSLoad n -> lk s n = Some (id, o, c) ->
    cstep s LTau (set_pc s t (PRet (if N.eqb o 0 then RState 2 0 else RState 1 o))).

(* executions and their observable traces (invocations and responses, in order) *)
Definition obs (l : label) : list label := match l with LTau => [] | _ => [l] end.

Inductive cexec : cstate -> list label -> cstate -> Prop :=
| ce_nil s : cexec s [] s
| ce_step s l s1 tr s2 : cstep s l s1 -> cexec s1 tr s2 -> cexec s (obs l ++ tr) s2.

(* ---------------------------------------------------------------- atomic specification *)
Inductive lstate := LNone | LFree | LHeld (t c : N).

Inductive apc :=
| AIdle
| APend (o : op)            (* invoked, has not taken effect *)
| ABusy (n : N)             (* Lock(n): has seen the lock held by another session *)
| ARel (todo : list N) (k : N)   (* ReleaseAll in progress: names still to visit, released so far *)
| ADone (r : ret).          (* has taken effect; r will be returned *)

Record astate := mkA { al : N -> lstate; apcs : N -> apc }.

Definition ainit : astate := mkA (fun _ => LNone) (fun _ => AIdle).

(* acquire by t: defined on Free and on Held by t *)
Definition acquire (t : N) (l : lstate) : option lstate :=
  match l with
  | LFree => Some (LHeld t 1)
  | LHeld t' c => if N.eqb t' t then Some (LHeld t (c + 1)) else None
  | LNone => None
  end.

Definition held_by_other (t : N) (l : lstate) : bool :=
  match l with LHeld t' _ => negb (N.eqb t' t) | _ => false end.

(* Unlock by t *)
Definition release (t : N) (l : lstate) : lstate * ret :=
  match l with
  | LNone => (LNone, RNotExist)
  | LFree => (LFree, RNotOwned)
  | LHeld t' c => if N.eqb t' t then (if N.ltb 1 c then LHeld t (c - 1) else LFree, ROk) else (l, RNotOwned)
  end.

(* the per-name step of ReleaseAll by t *)
Definition release_all1 (t : N) (l : lstate) : lstate * N :=
  match l with
  | LHeld t' _ => if N.eqb t' t then (LFree, 1) else (l, 0)
  | _ => (l, 0)
  end.

Definition state_of (l : lstate) : ret :=
  match l with LNone => RState 0 0 | LFree => RState 2 0 | LHeld t _ => RState 1 t end.

Definition wants_lock (p : apc) (n : N) (b : bool) : Prop :=
  match b with
  | false => p = APend (OTry n)
  | true => p = APend (OLock n) \/ p = ABusy n
  end.

Definition set_apc (a : astate) (t : N) (p : apc) : astate := mkA (al a) (fupd (apcs a) t p).
Definition set_al (a : astate) (n : N) (l : lstate) (t : N) (p : apc) : astate :=
  mkA (fupd (al a) n l) (fupd (apcs a) t p).

Inductive astep : astate -> label -> astate -> Prop :=
| a_inv a t o : t <> 0 -> apcs a t = AIdle -> astep a (LInv t o) (set_apc a t (APend o))
| a_resp a t r : apcs a t = ADone r -> astep a (LResp t r) (set_apc a t AIdle)
| a_create a t n b : wants_lock (apcs a t) n b -> al a n = LNone -> astep a LTau (set_al a n LFree t (apcs a t))
| a_acquire a t n b l' : wants_lock (apcs a t) n b -> acquire t (al a n) = Some l' ->
    astep a LTau (set_al a n l' t (ADone (acquired b)))
| a_try_fail a t n : apcs a t = APend (OTry n) -> held_by_other t (al a n) = true ->
    astep a LTau (set_apc a t (ADone (RBool false)))
| a_lock_busy a t n : wants_lock (apcs a t) n true -> held_by_other t (al a n) = true ->
    astep a LTau (set_apc a t (ABusy n))
| a_lock_timeout a t n : apcs a t = ABusy n -> astep a LTau (set_apc a t (ADone RTimeout))
| a_unlock a t n : apcs a t = APend (OUnlock n) ->
    astep a LTau (set_al a n (fst (release t (al a n))) t (ADone (snd (release t (al a n)))))
| a_state a t n : apcs a t = APend (OState n) -> astep a LTau (set_apc a t (ADone (state_of (al a n))))
| a_rel_start a t todo : apcs a t = APend ORelAll -> astep a LTau (set_apc a t (ARel todo 0))
| a_rel1 a t n todo k : apcs a t = ARel (n :: todo) k ->
    astep a LTau (set_al a n (fst (release_all1 t (al a n))) t (ARel todo (k + snd (release_all1 t (al a n)))))
| a_rel_done a t k : apcs a t = ARel [] k -> astep a LTau (set_apc a t (ADone (RCount k))).

Inductive aexec : astate -> list label -> astate -> Prop :=
| ae_nil a : aexec a [] a
| ae_step a l a1 tr a2 : astep a l a1 -> aexec a1 tr a2 -> aexec a (obs l ++ tr) a2.

(* ---------------------------------------------------------------- sequential specification (executable)
   One whole operation applied atomically; used for the sequential correspondence with the code and as
   the reference of the driver's linearizability search.  ReleaseAll visits the given names. *)
Definition seq_state := list (N * lstate).   (* association list, absent = LNone *)

Fixpoint sget (s : seq_state) (n : N) : lstate :=
  match s with [] => LNone | (k, v) :: r => if N.eqb n k then v else sget r n end.
Definition sput (s : seq_state) (n : N) (l : lstate) : seq_state := (n, l) :: s.

Definition seq_try (t : N) (b : bool) (s : seq_state) (n : N) : seq_state * ret :=
  let l := match sget s n with LNone => LFree | x => x end in
  match acquire t l with
  | Some l' => (sput s n l', acquired b)
  | None => (sput s n l, if b then RTimeout else RBool false)
  end.

Fixpoint seq_relall (t : N) (s : seq_state) (names : list N) (k : N) : seq_state * N :=
  match names with
  | [] => (s, k)
  | n :: r => let '(l, d) := release_all1 t (sget s n) in seq_relall t (sput s n l) r (k + d)
  end.

Definition seq_step (t : N) (o : op) (names : list N) (s : seq_state) : seq_state * ret :=
  match o with
  | OTry n => seq_try t false s n
  | OLock n => seq_try t true s n
  | OUnlock n => let '(l, r) := release t (sget s n) in (sput s n l, r)
  | ORelAll => let '(s', k) := seq_relall t s names 0 in (s', RCount k)
  | OState n => (s, state_of (sget s n))
  end.
