(* C33 - the wrapper logic around the match engine in internal/regex (regex_pure.go: do / location / IndexOf /
   Matches / Substring / Replace; the cgo build delegates the same operations to go-icu-regex) as used by
   sql/expression/function/regexp_like.go, regexp_instr.go, regexp_substr.go, regexp_replace.go.
   The match engine itself (ICU or Go regexp) is an oracle: a section variable [find_all] giving, for the compiled
   pattern, all successive matches in a subject as (start, end) offsets, with the only hypothesis that they are
   ascending, non-overlapping and within bounds.  Positions are 1-based as in SQL; subjects are lists of units
   (bytes for the pure build, UTF-16 units for ICU - the laws do not depend on which). *)
From Coq Require Import List Arith Bool Lia.
Import ListNotations.

Section Wrapper.
  Variable U : Type.                                   (* unit of text *)
  Variable find_all : list U -> list (nat * nat).      (* FindAllStringIndex(subject, -1) for the fixed pattern *)

  (* ascending, non-overlapping, inside [0, n], starting at or after [from] *)
  Fixpoint wf_locs (from n : nat) (l : list (nat * nat)) : Prop :=
    match l with
    | [] => True
    | (a, b) :: l' => from <= a /\ a <= b /\ b <= n /\ wf_locs b n l'
    end.

  (* do(start): matches of the subject from position start (1-based; start < 1 is taken as 1) *)
  Definition norm (pos : nat) : nat := if pos <? 1 then 1 else pos.
  Definition locs (s : list U) (pos : nat) : list (nat * nat) := find_all (skipn (norm pos - 1) s).

  (* location(occurrence): occurrence <= 1 means the first *)
  Definition location (l : list (nat * nat)) (occ : nat) : option (nat * nat) := nth_error l (occ - 1).

  (* IndexOf(start, occurrence, endIndex): 0 = no match, else 1-based position of the match start / one past its end *)
  Definition instr (s : list U) (pos occ : nat) (ret_end : bool) : nat :=
    match location (locs s pos) occ with
    | None => 0
    | Some (a, b) => (if ret_end then b else a) + norm pos
    end.

  (* Matches(0, 0) as called by REGEXP_LIKE: do(0 + 1), first occurrence *)
  Definition like (s : list U) : bool :=
    match location (locs s 1) 0 with Some _ => true | None => false end.

  (* Substring(start, occurrence) *)
  Definition sub (s : list U) (i j : nat) : list U := firstn (j - i) (skipn i s).
  Definition substr (s : list U) (pos occ : nat) : option (list U) :=
    match location (locs s pos) occ with
    | None => None
    | Some (a, b) => Some (sub s (a + norm pos - 1) (b + norm pos - 1))
    end.

  (* Replace(replacement, start, occurrence): occurrence 0 = every match *)
  Fixpoint replace_loop (s : list U) (offs p : nat) (l : list (nat * nat)) (repl : list U) : list U :=
    match l with
    | [] => skipn p s
    | (a, b) :: l' => sub s p (a + offs) ++ repl ++ replace_loop s offs (b + offs) l' repl
    end.
  Definition replace (s repl : list U) (pos occ : nat) : list U :=
    let all := locs s pos in
    let chosen := if occ =? 0 then all
                  else match location all occ with Some m => [m] | None => [] end in
    let offs := norm pos - 1 in
    firstn offs s ++ replace_loop s offs offs chosen repl.

  (* default (cgo) build: Replace goes to the C helper of go-icu-regex, which hands an empty subject back unchanged
     even when the pattern matches the empty string there (observed; the pure-Go build follows [replace]) *)
  Definition replace_cgo (s repl : list U) (pos occ : nat) : list U :=
    match s with [] => [] | _ => replace s repl pos occ end.
End Wrapper.
