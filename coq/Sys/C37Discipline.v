(* C37 — where the call discipline [sstep] comes from, as checked facts.
   1. gen/C37CallSites.v (regenerated from /repo on every run by harness/cmd/translate_c37) lists every call of a
      ProcessList lifecycle method outside tests.  [expected_sites] is the table the specification machine was
      read from; equality of the two is a theorem, so a new or moved call site breaks the check.
   2. [handler_cmd] gives, per handler entry point of that table, the event sequence it issues for one connection;
      each is accepted by [sstep] from every specification state in which the connection is idle (whatever the other
      connections are doing), and leaves it idle. *)
From Coq Require Import List NArith String Bool Lia.
Import ListNotations.
From GMS Require Import Sys.ProcessList Sys.ProcessListProofs gen.C37CallSites.
Open Scope string_scope.

Definition expected_sites : list (string * string * pl_meth * bool * bool) := [
  (* Engine.Close kills every listed connection: EKill *)
  ("engine.go", "Engine.Close", MKill, false, false);
  (* vitess NewConnection -> SessionManager.AddConn: EAddInc; EAddIns *)
  ("server/context.go", "SessionManager.AddConn", MAdd, false, false);
  (* ConnectionAuthenticated -> ConnReady: EReady *)
  ("server/context.go", "SessionManager.ConnReady", MReady, false, false);
  (* ComInitDB -> SetDB: EBeginOp; (deferred EEndOp); EReady inside the bracket *)
  ("server/context.go", "SessionManager.SetDB", MBeginOp, false, false);
  ("server/context.go", "SessionManager.SetDB", MEndOp, true, false);
  ("server/context.go", "SessionManager.SetDB", MReady, false, false);
  (* ConnectionClosed -> RemoveConn: ERemove *)
  ("server/context.go", "SessionManager.RemoveConn", MRemove, false, false);
  (* ComPrepare / ComPrepareParsed / ComBind: EBeginOp; deferred EEndOp *)
  ("server/handler.go", "Handler.ComPrepare", MBeginOp, false, false);
  ("server/handler.go", "Handler.ComPrepare", MEndOp, true, false);
  ("server/handler.go", "Handler.ComPrepareParsed", MBeginOp, false, false);
  ("server/handler.go", "Handler.ComPrepareParsed", MEndOp, true, false);
  ("server/handler.go", "Handler.ComBind", MBeginOp, false, false);
  ("server/handler.go", "Handler.ComBind", MEndOp, true, false);
  (* ComQuery / ComMultiQuery / ComStmtExecute -> doQuery: EBeginQ; deferred EEndQ (also on error and on cancel) *)
  ("server/handler.go", "Handler.doQuery", MBeginQ, false, false);
  ("server/handler.go", "Handler.doQuery", MEndQ, true, false);
  (* the tracked row iterator's done callback (iterator closed or exhausted): a second EEndQ of the same query *)
  ("sql/plan/process.go", "AddTrackedRowIter", MEndQ, false, true);
  (* KILL QUERY / KILL CONNECTION statements: EKill *)
  ("sql/rowexec/transaction.go", "BaseBuilder.buildKill", MKill, false, true)
].

Definition meth_eqb (a b : pl_meth) : bool :=
  match a, b with
  | MAdd, MAdd | MReady, MReady | MRemove, MRemove | MBeginQ, MBeginQ | MEndQ, MEndQ
  | MBeginOp, MBeginOp | MEndOp, MEndOp | MKill, MKill => true
  | _, _ => false
  end.

Definition site_eqb (a b : string * string * pl_meth * bool * bool) : bool :=
  let '(f1, g1, m1, d1, l1) := a in let '(f2, g2, m2, d2, l2) := b in
  String.eqb f1 f2 && String.eqb g1 g2 && meth_eqb m1 m2 && Bool.eqb d1 d2 && Bool.eqb l1 l2.

Fixpoint sites_eqb (a b : list (string * string * pl_meth * bool * bool)) : bool :=
  match a, b with
  | [], [] => true
  | x :: a', y :: b' => site_eqb x y && sites_eqb a' b'
  | _, _ => false
  end.

Lemma call_sites_are_the_modelled_ones : sites_eqb call_sites expected_sites = true.
Proof. vm_compute. reflexivity. Qed.

(* every Begin* in the table is immediately followed, in the same function, by the matching deferred End* *)
Fixpoint brackets_ok (l : list (string * string * pl_meth * bool * bool)) : bool :=
  match l with
  | [] => true
  | (f, g, MBeginQ, false, false) :: (((f', g', MEndQ, true, false) :: _) as r) =>
      String.eqb f f' && String.eqb g g' && brackets_ok r
  | (f, g, MBeginOp, false, false) :: (((f', g', MEndOp, true, false) :: _) as r) =>
      String.eqb f f' && String.eqb g g' && brackets_ok r
  | (_, _, MBeginQ, _, _) :: _ | (_, _, MBeginOp, _, _) :: _ => false
  | _ :: r => brackets_ok r
  end.

Lemma every_begin_has_its_deferred_end : brackets_ok call_sites = true.
Proof. vm_compute. reflexivity. Qed.

(* ---------- the event sequences of the handler entry points, for connection c ---------- *)
Open Scope N_scope.

Inductive handler_cmd :=
| HReady (h u d : N)              (* ConnReady *)
| HSetDB (h u d : N)              (* SetDB: operation bracket with ConnectionReady inside *)
| HOp                             (* ComPrepare / ComPrepareParsed / ComBind *)
| HQuery (pid q : N) (tracked : bool).   (* doQuery; tracked = the row iterator's callback fired as well *)

Definition cmd_events (c : N) (k : handler_cmd) : list event :=
  match k with
  | HReady h u d => [EReady c h u d]
  | HSetDB h u d => [EBeginOp c; EReady c h u d; EEndOp c]
  | HOp => [EBeginOp c; EEndOp c]
  | HQuery pid q tracked => EBeginQ c pid q :: (if tracked then [EEndQ c pid] else []) ++ [EEndQ c pid]
  end.

Definition cmd_pid_ok (g : spec) (k : handler_cmd) : Prop :=
  match k with HQuery pid _ _ => pid <> 0 /\ memN pid (used g) = false | _ => True end.

Section AMapMore.
  Context {V : Type}.
  Implicit Types l : list (N * V).

  Lemma existsb_del_le (f : N * V -> bool) c l : existsb f (del c l) = true -> existsb f l = true.
  Proof.
    induction l as [|[k w] r IH]; cbn; [auto|]. destruct (N.eqb c k); cbn.
    - intros H. rewrite (IH H). apply orb_true_r.
    - rewrite !orb_true_iff. intros [H|H]; auto.
  Qed.

  Lemma del_upd c v l : del c (upd c v l) = del c l.
  Proof.
    induction l as [|[k w] r IH]; cbn; [now rewrite N.eqb_refl|].
    destruct (N.ltb_spec k c) as [Hlt|Hge]; cbn.
    - destruct (N.eqb_spec c k); [lia|]. now rewrite IH.
    - destruct (N.eqb_spec c k) as [->|Hne]; cbn; rewrite N.eqb_refl; [reflexivity|].
      destruct (N.eqb_spec c k); [contradiction|reflexivity].
  Qed.

  Lemma existsb_upd (f : N * V -> bool) c v l :
    sorted l -> existsb f (upd c v l) = f (c, v) || existsb f (del c l).
  Proof.
    induction l as [|[k w] r IH]; cbn; intros Hs; [reflexivity|]. destruct Hs as [Hb Hs].
    destruct (N.ltb_spec k c) as [Hlt|Hge]; cbn.
    - destruct (N.eqb_spec c k); [lia|]. cbn. rewrite (IH Hs).
      destruct (f (k, w)), (f (c, v)); reflexivity.
    - destruct (N.eqb_spec c k) as [->|Hne]; cbn.
      + now rewrite (lbound_del_id k r Hb).
      + assert (Hb' : lbound c r).
        { unfold lbound in *. eapply Forall_impl; [|exact Hb]. cbn. intros; lia. }
        now rewrite (lbound_del_id c r Hb').
  Qed.
End AMapMore.

Lemma srun_app g es1 es2 :
  srun g (es1 ++ es2) = match srun g es1 with Some g' => srun g' es2 | None => None end.
Proof.
  revert g. induction es1 as [|e r IH]; intros g; cbn; [reflexivity|].
  destruct (sstep g e); [apply IH|reflexivity].
Qed.

(* facts about every specification state reached by an accepted history *)
Lemma reachable_facts es g :
  srun sinit es = Some g ->
  sorted (sess g) /\ memN 0 (used g) = false /\
  (forall c p q, lookup (sess g) c = Some (SQuery p q) -> memN p (used g) = true).
Proof.
  intros H. pose proof (inv_run _ _ H) as HI. repeat split.
  - exact (inv_ss _ _ HI).
  - exact (inv_zero _ _ HI).
  - intros c p q Hl. exact (proj2 (inv_live _ _ HI _ _ _ Hl)).
Qed.

Lemma fresh_pid_not_live g pid :
  (forall c p q, lookup (sess g) c = Some (SQuery p q) -> memN p (used g) = true) -> sorted (sess g) ->
  memN pid (used g) = false -> live_pid g pid = false.
Proof.
  intros Hl Hs Hu. unfold live_pid. destruct (existsb _ (sess g)) eqn:E; [|reflexivity].
  apply existsb_exists in E as ([c ph] & Hin & Hr). cbn in Hr. destruct ph as [| | |p q]; try discriminate.
  apply N.eqb_eq in Hr. subst p. apply (sorted_In_lookup _ _ _ Hs) in Hin. rewrite (Hl _ _ _ Hin) in Hu. discriminate.
Qed.

(* every handler entry point, issued for a connection that is idle, is accepted by the discipline — whatever
   the other connections are doing — and leaves the connection idle; query pids must be fresh and non-zero
   (SessionManager.nextPid) *)
Theorem handler_command_accepted es g c k :
  srun sinit es = Some g -> lookup (sess g) c = Some SIdle -> cmd_pid_ok g k ->
  exists g', srun sinit (es ++ cmd_events c k) = Some g' /\ lookup (sess g') c = Some SIdle.
Proof.
  intros Hr Hc Hp. destruct (reachable_facts _ _ Hr) as (Hs & Hz & Hl).
  rewrite srun_app, Hr. destruct k as [h u d|h u d| |pid q tracked]; cbn [cmd_events srun sstep].
  - rewrite Hc. eauto.
  - rewrite Hc. cbn. rewrite lookup_upd, N.eqb_refl. cbn. rewrite lookup_upd, N.eqb_refl.
    eexists. split; [reflexivity|]. cbn. now rewrite lookup_upd, N.eqb_refl.
  - rewrite Hc. cbn. rewrite lookup_upd, N.eqb_refl.
    eexists. split; [reflexivity|]. cbn. now rewrite lookup_upd, N.eqb_refl.
  - destruct Hp as [Hnz Hu]. rewrite Hc. destruct (N.eqb_spec pid 0); [contradiction|]. rewrite Hu. cbn.
    destruct tracked; cbn [app srun sstep sess used].
    + rewrite lookup_upd, N.eqb_refl, N.eqb_refl. cbn [sess used].
      rewrite lookup_upd, N.eqb_refl.
      destruct (N.eqb_spec pid 0); [contradiction|]. cbn [negb andb memN]. rewrite N.eqb_refl. cbn [orb andb].
      assert (Hlive : live_pid {| sess := upd c SIdle (upd c (SQuery pid q) (sess g)); used := pid :: used g |} pid = false).
      { unfold live_pid. cbn [sess]. rewrite existsb_upd by (now apply sorted_upd). cbn [runs_pid snd orb].
        rewrite del_upd. destruct (existsb _ (del c (sess g))) eqn:E; [|reflexivity].
        apply existsb_del_le in E. pose proof (fresh_pid_not_live g pid Hl Hs Hu) as Hf. unfold live_pid in Hf. congruence. }
      rewrite Hlive. cbn. eexists. split; [reflexivity|]. cbn. now rewrite lookup_upd, N.eqb_refl.
    + rewrite lookup_upd, N.eqb_refl, N.eqb_refl.
      eexists. split; [reflexivity|]. cbn. now rewrite lookup_upd, N.eqb_refl.
Qed.

(* AddConn on an unknown connection id and RemoveConn on an idle connection are accepted as well *)
Theorem connection_open_close_accepted es g c h :
  srun sinit es = Some g ->
  (lookup (sess g) c = None ->
     exists g', srun sinit (es ++ [EAddInc c; EAddIns c h]) = Some g' /\ lookup (sess g') c = Some SIdle) /\
  (lookup (sess g) c = Some SIdle ->
     exists g', srun sinit (es ++ [ERemove c]) = Some g' /\ lookup (sess g') c = None).
Proof.
  intros Hr. split; intros Hc; rewrite srun_app, Hr; cbn [srun sstep]; rewrite Hc; cbn.
  - rewrite lookup_upd, N.eqb_refl. eexists. split; [reflexivity|]. cbn. now rewrite lookup_upd, N.eqb_refl.
  - eexists. split; [reflexivity|]. cbn. now rewrite lookup_del, N.eqb_refl.
Qed.
