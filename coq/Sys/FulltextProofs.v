(* C51 — proofs about the full-text model (Sys/Fulltext.v). *)
From Coq Require Import List NArith Bool Lia QArith.
Import ListNotations.
From GMS Require Import Sys.Fulltext.
Open Scope N_scope.

Lemma leqb_spec a : forall b, leqb a b = true <-> a = b.
Proof.
  induction a as [|x a IH]; intros [|y b]; cbn; split; intros H; try reflexivity; try discriminate.
  - apply andb_true_iff in H. destruct H as [H1 H2]. apply N.eqb_eq in H1. apply IH in H2. congruence.
  - injection H as -> ->. rewrite N.eqb_refl. cbn. now apply IH.
Qed.

Lemma leqb_refl a : leqb a a = true.
Proof. now apply leqb_spec. Qed.

Lemma dkeqb_spec a b : dkeqb a b = true <-> a = b.
Proof.
  destruct a as [a1 a2], b as [b1 b2]. unfold dkeqb. cbn. rewrite andb_true_iff, leqb_spec, N.eqb_eq.
  split; [intros [-> ->]; reflexivity|intros H; injection H; auto].
Qed.

(* ---------- association lists ---------- *)
Section MapFacts.
  Context {K V : Type}.
  Variable keqb : K -> K -> bool.
  Hypothesis keqb_spec : forall a b, keqb a b = true <-> a = b.

  Lemma keqb_refl a : keqb a a = true.
  Proof. now apply keqb_spec. Qed.

  Lemma keqb_neq a b : a <> b -> keqb a b = false.
  Proof. intros H. destruct (keqb a b) eqn:E; [apply keqb_spec in E; contradiction|reflexivity]. Qed.

  Lemma get_app (a b : list (K * V)) k :
    get keqb (a ++ b) k = match get keqb a k with Some v => Some v | None => get keqb b k end.
  Proof.
    induction a as [|[k' v] a IH]; cbn; [reflexivity|]. destruct (keqb k k'); [reflexivity|exact IH].
  Qed.

  Lemma get_remove_same (m : list (K * V)) k : get keqb (remove keqb m k) k = None.
  Proof.
    induction m as [|[k' v] m IH]; cbn; [reflexivity|].
    destruct (keqb k k') eqn:E; cbn; [exact IH|]. rewrite E. exact IH.
  Qed.

  Lemma get_remove_other (m : list (K * V)) k k' : k' <> k -> get keqb (remove keqb m k) k' = get keqb m k'.
  Proof.
    intros Hn. induction m as [|[k0 v] m IH]; cbn; [reflexivity|].
    destruct (keqb k k0) eqn:E; cbn.
    - apply keqb_spec in E. subst k0. rewrite keqb_neq by assumption. exact IH.
    - destruct (keqb k' k0); [reflexivity|exact IH].
  Qed.

  Lemma get_set_same (m : list (K * V)) k v : get keqb (set keqb m k v) k = Some v.
  Proof. unfold set. rewrite get_app, get_remove_same. cbn. now rewrite keqb_refl. Qed.

  Lemma get_set_other (m : list (K * V)) k k' v : k' <> k -> get keqb (set keqb m k v) k' = get keqb m k'.
  Proof.
    intros Hn. unfold set. rewrite get_app, get_remove_other by assumption.
    destruct (get keqb m k'); [reflexivity|]. cbn. now rewrite keqb_neq.
  Qed.
End MapFacts.

Lemma NoDup_snoc {A} (l : list A) k : NoDup l -> ~ In k l -> NoDup (l ++ [k]).
Proof.
  induction l as [|x l IH]; intros H Hn; cbn; [constructor; [intros []|constructor]|].
  inversion H; subst. constructor.
  - rewrite in_app_iff. intros [Hi|[->|[]]]; [contradiction|apply Hn; now left].
  - apply IH; [assumption|]. intros Hi. apply Hn. now right.
Qed.

Lemma Neqb_spec a b : N.eqb a b = true <-> a = b.
Proof. apply N.eqb_eq. Qed.

Section FTP.
  Variable is_char : N -> bool.
  Variable rlen : N -> N.
  Variable ckey : list N -> list N.

  Notation uwords := (uwords is_char rlen ckey).
  Notation ukeys := (ukeys is_char rlen ckey).
  Notation ft_insert := (ft_insert is_char rlen ckey).
  Notation ft_delete := (ft_delete is_char rlen ckey).
  Notation ft_update := (ft_update is_char rlen ckey).
  Notation upd_glob := upd_glob.

  Definition ekey (e : list N * list N * N) : list N := snd (fst e).
  Definition kin (k : list N) (u : list (list N * list N * N)) : bool := existsb (fun e => leqb k (ekey e)) u.
  Definition ucnt (k : list N) (u : list (list N * list N * N)) : option N :=
    match find (fun e => leqb k (ekey e)) u with Some e => Some (snd e) | None => None end.

  Definition nodupk (u : list (list N * list N * N)) : Prop := NoDup (map ekey u).

  (* ---------- the unique-word list ---------- *)
  Lemma kin_in k u : kin k u = true <-> In k (map ekey u).
  Proof.
    unfold kin. rewrite existsb_exists, in_map_iff. split.
    - intros (e & He & Hk). apply leqb_spec in Hk. exists e. split; [now symmetry|assumption].
    - intros (e & He & Hi). exists e. split; [assumption|]. rewrite He. apply leqb_refl.
  Qed.

  Lemma uadd_keys w k u :
    map ekey (uadd w k u) = if kin k u then map ekey u else map ekey u ++ [k].
  Proof.
    induction u as [|[[w' k'] c] u IH]; [reflexivity|].
    cbn [uadd kin existsb]. change (ekey (w', k', c)) with k'.
    destruct (leqb k k') eqn:E; cbn [orb map]; [reflexivity|].
    change (ekey (w', k', c)) with k'. rewrite IH. fold (kin k u). destruct (kin k u); reflexivity.
  Qed.

  Lemma uadd_nodup w k u : nodupk u -> nodupk (uadd w k u).
  Proof.
    unfold nodupk. intros H. rewrite uadd_keys. destruct (kin k u) eqn:E; [assumption|].
    apply NoDup_snoc; [exact H|]. intros Hin. apply kin_in in Hin. congruence.
  Qed.

  Lemma uniq_nodup_acc ws : forall u, nodupk u -> nodupk (fold_left (fun u (wp : list N * N) => uadd (fst wp) (ckey (fst wp)) u) ws u).
  Proof. induction ws as [|w ws IH]; intros u H; cbn; [assumption|]. apply IH. now apply uadd_nodup. Qed.

  Lemma uwords_nodup doc : nodupk (uwords doc).
  Proof. apply uniq_nodup_acc. constructor. Qed.

  Definition pos_counts (u : list (list N * list N * N)) : Prop := Forall (fun e => 1 <= snd e) u.

  Lemma uadd_pos w k u : pos_counts u -> pos_counts (uadd w k u).
  Proof.
    induction u as [|[[w' k'] c] u IH]; intros H; cbn.
    - constructor; [cbn; lia|constructor].
    - inversion H as [|? ? Hc Hu]; subst. cbn in Hc. destruct (leqb k k').
      + constructor; [cbn; lia|assumption].
      + constructor; [cbn; lia|apply IH; assumption].
  Qed.

  Lemma uwords_pos doc : pos_counts (uwords doc).
  Proof.
    unfold uwords, uniq. generalize (tokenize is_char rlen doc) as ws.
    assert (forall ws u, pos_counts u -> pos_counts (fold_left (fun u (wp : list N * N) => uadd (fst wp) (ckey (fst wp)) u) ws u)) as H.
    { induction ws as [|w ws IH]; intros u Hu; cbn; [assumption|]. apply IH. now apply uadd_pos. }
    intros ws. apply H. constructor.
  Qed.

  Lemma ucnt_kin k u : pos_counts u ->
    match ucnt k u with Some d => kin k u = true /\ d <> 0 | None => kin k u = false end.
  Proof.
    unfold ucnt, kin. induction u as [|e u IH]; intros H; cbn; [reflexivity|].
    inversion H as [|? ? He Hu]; subst.
    destruct (leqb k (ekey e)) eqn:E; cbn.
    - split; [reflexivity|lia].
    - exact (IH Hu).
  Qed.

  (* ---------- the index is in sync with a bag of rows ---------- *)
  Definition find_h (h : N) (rows : list row) := find (fun r => rh r =? h) rows.
  Definition find_k (k : N) (rows : list row) := find (fun r => rk r =? k) rows.
  Definition nrows_with (k : list N) (rows : list row) : N :=
    N.of_nat (length (filter (fun r => kin k (uwords (rdoc r))) rows)).

  Record Inv (rows : list row) (s : ftst) : Prop := mkInv {
    I_rc : forall h, get N.eqb (rc s) h =
                     option_map (fun r => (1, N.of_nat (length (uwords (rdoc r))))) (find_h h rows);
    I_dc : forall k key, get dkeqb (dc s) (k, key) =
                         match find_k key rows with Some r => ucnt k (uwords (rdoc r)) | None => None end;
    I_gc : forall k, get leqb (gc s) k =
                     if nrows_with k rows =? 0 then None else Some (nrows_with k rows) }.

  Lemma find_k_in rows r : NoDup (map rk rows) -> In r rows -> find_k (rk r) rows = Some r.
  Proof.
    unfold find_k. induction rows as [|x rows IH]; intros Hnd Hin; [destruct Hin|].
    cbn. inversion Hnd as [|? ? Hx Hr]; subst. destruct Hin as [->|Hin].
    - now rewrite N.eqb_refl.
    - destruct (rk x =? rk r) eqn:E.
      + apply N.eqb_eq in E. exfalso. apply Hx. rewrite E. now apply in_map.
      + now apply IH.
  Qed.

  Lemma find_h_some rows r : In r rows -> exists r', find_h (rh r) rows = Some r'.
  Proof.
    unfold find_h. induction rows as [|x rows IH]; intros Hin; [destruct Hin|]. cbn.
    destruct (rh x =? rh r) eqn:E; [eexists; reflexivity|].
    destruct Hin as [->|Hin]; [rewrite N.eqb_refl in E; discriminate|now apply IH].
  Qed.

  Lemma nrows_with_pos k rows r : In r rows -> kin k (uwords (rdoc r)) = true -> nrows_with k rows <> 0.
  Proof.
    unfold nrows_with. intros Hin Hk.
    assert (In r (filter (fun r => kin k (uwords (rdoc r))) rows)) as H by (apply filter_In; split; assumption).
    destruct (filter _ rows); [destruct H|cbn; lia].
  Qed.

  Lemma nrows_with_le k rows : nrows_with k rows <= N.of_nat (length rows).
  Proof.
    unfold nrows_with. assert (forall (f : row -> bool) l, (length (filter f l) <= length l)%nat) as H.
    { intros f l. induction l as [|x l IHl]; cbn; [lia|]. destruct (f x); cbn; lia. }
    specialize (H (fun r => kin k (uwords (rdoc r))) rows). lia.
  Qed.

  (* which query words contribute, for a row of a synced index *)
  Lemma contributions_synced rows s r :
    Inv rows s -> NoDup (map rk rows) -> In r rows ->
    forall ks, flat_map (fun k =>
      match get dkeqb (dc s) (k, rk r) with
      | None => []
      | Some d => if d =? 0 then [] else
          match get leqb (gc s) k with
          | None => []
          | Some g => match get N.eqb (rc s) (rh r) with None => [] | Some (_, uw) => [(d, uw, g)] end
          end
      end) ks = [] <-> existsb (fun k => kin k (uwords (rdoc r))) ks = false.
  Proof.
    intros HI Hnd Hin ks. induction ks as [|k ks IH]; cbn; [tauto|].
    rewrite (I_dc _ _ HI), (find_k_in _ _ Hnd Hin).
    pose proof (ucnt_kin k (uwords (rdoc r)) (uwords_pos _)) as Hu.
    destruct (ucnt k (uwords (rdoc r))) as [d|].
    - destruct Hu as [Hk Hd]. rewrite Hk. apply N.eqb_neq in Hd. rewrite Hd.
      rewrite (I_gc _ _ HI). pose proof (nrows_with_pos k rows r Hin Hk) as Hn. apply N.eqb_neq in Hn. rewrite Hn.
      rewrite (I_rc _ _ HI). destruct (find_h_some rows r Hin) as [r' ->]. cbn. split; discriminate.
    - rewrite Hu. cbn. exact IH.
  Qed.

  Lemma kin_existsb k u : kin k u = existsb (leqb k) (map ekey u).
  Proof. unfold kin. induction u as [|e u IH]; cbn; [reflexivity|]. now rewrite IH. Qed.

  Theorem matches_iff_shares_word rows s q r :
    Inv rows s -> NoDup (map rk rows) -> In r rows ->
    matches is_char rlen ckey s q r = shares_word is_char rlen ckey q r.
  Proof.
    intros HI Hnd Hin. unfold matches, contributions, shares_word.
    pose proof (contributions_synced rows s r HI Hnd Hin (ukeys q)) as H.
    assert (forall ks, existsb (fun k => existsb (leqb k) (ukeys (rdoc r))) ks = existsb (fun k => kin k (uwords (rdoc r))) ks) as E.
    { intros ks. apply existsb_ext_in || (induction ks as [|k ks IHk]; cbn; [reflexivity|]; rewrite IHk; f_equal; unfold Fulltext.ukeys; now rewrite kin_existsb). }
    rewrite E. destruct H as [H1 H2]. destruct (flat_map _ (ukeys q)) eqn:F.
    - symmetry. apply H1. reflexivity.
    - destruct (existsb (fun k => kin k (uwords (rdoc r))) (ukeys q)) eqn:X; [reflexivity|].
      discriminate (H2 eq_refl).
  Qed.

  (* every contribution of a synced index has dc >= 1, unique words >= 1 and 1 <= gc <= number of rows *)
  Theorem contributions_in_range rows s q r :
    Inv rows s -> NoDup (map rk rows) -> NoDup (map rh rows) -> In r rows ->
    Forall (fun c => let '(d, uw, g) := c in 1 <= d /\ 1 <= g <= N.of_nat (length rows))
           (contributions is_char rlen ckey s q r).
  Proof.
    intros HI Hnd Hnh Hin. unfold contributions. generalize (ukeys q) as ks.
    induction ks as [|k ks IH]; cbn; [constructor|]. apply Forall_app. split; [|exact IH].
    rewrite (I_dc _ _ HI), (find_k_in _ _ Hnd Hin).
    pose proof (ucnt_kin k (uwords (rdoc r)) (uwords_pos _)) as Hu.
    destruct (ucnt k (uwords (rdoc r))) as [d|]; [|constructor].
    destruct Hu as [Hk Hd]. destruct (d =? 0) eqn:Ed; [constructor|].
    rewrite (I_gc _ _ HI). destruct (nrows_with k rows =? 0) eqn:En; [constructor|].
    destruct (get N.eqb (rc s) (rh r)) as [[n uw]|]; [|constructor].
    constructor; [|constructor]. apply N.eqb_neq in En. pose proof (nrows_with_le k rows). lia.
  Qed.
End FTP.

(* ---------- the sign of the relevance: any positive contribution function ---------- *)
Section Relevance.
  Variable cf : N -> N -> N -> N -> Q.      (* (ln dc + 1) * (u / (1 + 0.115 u)) * (ln (n / gc) + 1) *)
  Hypothesis cf_pos : forall d u g n, 1 <= d -> 1 <= g <= n -> (0 < cf d u g n)%Q.

  Definition relevance (n : N) (cs : list (N * N * N)) : Q :=
    fold_right (fun c a => let '(d, u, g) := c in (cf d u g n + a)%Q) 0%Q cs.

  Lemma relevance_pos n cs :
    Forall (fun c => let '(d, uw, g) := c in 1 <= d /\ 1 <= g <= n) cs ->
    ((0 < relevance n cs)%Q <-> cs <> []).
  Proof.
    intros H. split.
    - intros Hp ->. cbn in Hp. apply Qlt_irrefl in Hp. exact Hp.
    - intros Hne.
      assert (forall l, Forall (fun c => let '(d, uw, g) := c in 1 <= d /\ 1 <= g <= n) l -> (0 <= relevance n l)%Q) as Hnn.
      { induction l as [|[[d u] g] l IHl]; intros Hl; cbn; [apply Qle_refl|].
        inversion Hl as [|? ? Hc0 Hl']; subst. cbn in Hc0. destruct Hc0 as [Hd Hg].
        specialize (IHl Hl'). pose proof (cf_pos d u g n Hd Hg) as Hc.
        apply Qlt_le_weak in Hc. replace 0%Q with (0 + 0)%Q by reflexivity. now apply Qplus_le_compat. }
      destruct cs as [|[[d u] g] cs]; [congruence|]. cbn.
      inversion H as [|? ? Hc0 Hl']; subst. cbn in Hc0. destruct Hc0 as [Hd Hg].
      pose proof (cf_pos d u g n Hd Hg) as Hc. specialize (Hnn cs Hl').
      replace 0%Q with (0 + 0)%Q by reflexivity. now apply Qplus_lt_le_compat.
  Qed.
End Relevance.
