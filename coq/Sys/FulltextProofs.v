(* C51 — proofs about the full-text model (Sys/Fulltext.v). *)
From Coq Require Import List NArith Bool Lia QArith.
Import ListNotations.
From GMS Require Import Sys.Fulltext.
Open Scope N_scope.

Lemma leqb_spec a : forall b, leqb a b = true <-> a = b.
Proof.
  induction a as [|x a IH]; intros [|y b]; cbn; split; intros H; try reflexivity; try discriminate.
  - apply andb_true_iff in H. destruct H as [H1 H2]. apply N.eqb_eq in H1. apply IH in H2. congruence.
  - injection H as -> ->. rewrite N.eqb_refl. cbn. now apply IH.
Qed.

Lemma leqb_refl a : leqb a a = true.
Proof. now apply leqb_spec. Qed.

Lemma dkeqb_spec a b : dkeqb a b = true <-> a = b.
Proof.
  destruct a as [a1 a2], b as [b1 b2]. unfold dkeqb. cbn. rewrite andb_true_iff, leqb_spec, N.eqb_eq.
  split; [intros [-> ->]; reflexivity|intros H; injection H; auto].
Qed.

(* ---------- association lists ---------- *)
Section MapFacts.
  Context {K V : Type}.
  Variable keqb : K -> K -> bool.
  Hypothesis keqb_spec : forall a b, keqb a b = true <-> a = b.

  Lemma keqb_refl a : keqb a a = true.
  Proof. now apply keqb_spec. Qed.

  Lemma keqb_neq a b : a <> b -> keqb a b = false.
  Proof. intros H. destruct (keqb a b) eqn:E; [apply keqb_spec in E; contradiction|reflexivity]. Qed.

  Lemma get_app (a b : list (K * V)) k :
    get keqb (a ++ b) k = match get keqb a k with Some v => Some v | None => get keqb b k end.
  Proof.
    induction a as [|[k' v] a IH]; cbn; [reflexivity|]. destruct (keqb k k'); [reflexivity|exact IH].
  Qed.

  Lemma get_remove_same (m : list (K * V)) k : get keqb (remove keqb m k) k = None.
  Proof.
    induction m as [|[k' v] m IH]; cbn; [reflexivity|].
    destruct (keqb k k') eqn:E; cbn; [exact IH|]. rewrite E. exact IH.
  Qed.

  Lemma get_remove_other (m : list (K * V)) k k' : k' <> k -> get keqb (remove keqb m k) k' = get keqb m k'.
  Proof.
    intros Hn. induction m as [|[k0 v] m IH]; cbn; [reflexivity|].
    destruct (keqb k k0) eqn:E; cbn.
    - apply keqb_spec in E. subst k0. rewrite keqb_neq by assumption. exact IH.
    - destruct (keqb k' k0); [reflexivity|exact IH].
  Qed.

  Lemma get_set_same (m : list (K * V)) k v : get keqb (set keqb m k v) k = Some v.
  Proof. unfold set. rewrite get_app, get_remove_same. cbn. now rewrite keqb_refl. Qed.

  Lemma get_set_other (m : list (K * V)) k k' v : k' <> k -> get keqb (set keqb m k v) k' = get keqb m k'.
  Proof.
    intros Hn. unfold set. rewrite get_app, get_remove_other by assumption.
    destruct (get keqb m k'); [reflexivity|]. cbn. now rewrite keqb_neq.
  Qed.
End MapFacts.

Lemma NoDup_snoc {A} (l : list A) k : NoDup l -> ~ In k l -> NoDup (l ++ [k]).
Proof.
  induction l as [|x l IH]; intros H Hn; cbn; [constructor; [intros []|constructor]|].
  inversion H; subst. constructor.
  - rewrite in_app_iff. intros [Hi|[->|[]]]; [contradiction|apply Hn; now left].
  - apply IH; [assumption|]. intros Hi. apply Hn. now right.
Qed.

Lemma Neqb_spec a b : N.eqb a b = true <-> a = b.
Proof. apply N.eqb_eq. Qed.

Section FTP.
  Variable is_char : N -> bool.
  Variable rlen : N -> N.
  Variable ckey : list N -> list N.

  Notation uwords := (uwords is_char rlen ckey).
  Notation ukeys := (ukeys is_char rlen ckey).
  Notation ft_insert := (ft_insert is_char rlen ckey).
  Notation ft_delete := (ft_delete is_char rlen ckey).
  Notation ft_update := (ft_update is_char rlen ckey).
  Notation upd_glob := upd_glob.

  Definition ekey (e : list N * list N * N) : list N := snd (fst e).
  Definition kin (k : list N) (u : list (list N * list N * N)) : bool := existsb (fun e => leqb k (ekey e)) u.
  Definition ucnt (k : list N) (u : list (list N * list N * N)) : option N :=
    match find (fun e => leqb k (ekey e)) u with Some e => Some (snd e) | None => None end.

  Definition nodupk (u : list (list N * list N * N)) : Prop := NoDup (map ekey u).

  (* ---------- the unique-word list ---------- *)
  Lemma kin_in k u : kin k u = true <-> In k (map ekey u).
  Proof.
    unfold kin. rewrite existsb_exists, in_map_iff. split.
    - intros (e & He & Hk). apply leqb_spec in Hk. exists e. split; [now symmetry|assumption].
    - intros (e & He & Hi). exists e. split; [assumption|]. rewrite He. apply leqb_refl.
  Qed.

  Lemma uadd_keys w k u :
    map ekey (uadd w k u) = if kin k u then map ekey u else map ekey u ++ [k].
  Proof.
    induction u as [|[[w' k'] c] u IH]; [reflexivity|].
    cbn [uadd kin existsb]. change (ekey (w', k', c)) with k'.
    destruct (leqb k k') eqn:E; cbn [orb map]; [reflexivity|].
    change (ekey (w', k', c)) with k'. rewrite IH. fold (kin k u). destruct (kin k u); reflexivity.
  Qed.

  Lemma uadd_nodup w k u : nodupk u -> nodupk (uadd w k u).
  Proof.
    unfold nodupk. intros H. rewrite uadd_keys. destruct (kin k u) eqn:E; [assumption|].
    apply NoDup_snoc; [exact H|]. intros Hin. apply kin_in in Hin. congruence.
  Qed.

  Lemma uniq_nodup_acc ws : forall u, nodupk u -> nodupk (fold_left (fun u (wp : list N * N) => uadd (fst wp) (ckey (fst wp)) u) ws u).
  Proof. induction ws as [|w ws IH]; intros u H; cbn; [assumption|]. apply IH. now apply uadd_nodup. Qed.

  Lemma uwords_nodup doc : nodupk (uwords doc).
  Proof. apply uniq_nodup_acc. constructor. Qed.

  Definition pos_counts (u : list (list N * list N * N)) : Prop := Forall (fun e => 1 <= snd e) u.

  Lemma uadd_pos w k u : pos_counts u -> pos_counts (uadd w k u).
  Proof.
    induction u as [|[[w' k'] c] u IH]; intros H; cbn.
    - constructor; [cbn; lia|constructor].
    - inversion H as [|? ? Hc Hu]; subst. cbn in Hc. destruct (leqb k k').
      + constructor; [cbn; lia|assumption].
      + constructor; [cbn; lia|apply IH; assumption].
  Qed.

  Lemma uwords_pos doc : pos_counts (uwords doc).
  Proof.
    unfold uwords, uniq. generalize (tokenize is_char rlen doc) as ws.
    assert (forall ws u, pos_counts u -> pos_counts (fold_left (fun u (wp : list N * N) => uadd (fst wp) (ckey (fst wp)) u) ws u)) as H.
    { induction ws as [|w ws IH]; intros u Hu; cbn; [assumption|]. apply IH. now apply uadd_pos. }
    intros ws. apply H. constructor.
  Qed.

  Lemma ucnt_kin k u : pos_counts u ->
    match ucnt k u with Some d => kin k u = true /\ d <> 0 | None => kin k u = false end.
  Proof.
    unfold ucnt, kin. induction u as [|e u IH]; intros H; cbn; [reflexivity|].
    inversion H as [|? ? He Hu]; subst.
    destruct (leqb k (ekey e)) eqn:E; cbn.
    - split; [reflexivity|lia].
    - exact (IH Hu).
  Qed.

  (* ---------- the index is in sync with a bag of rows ---------- *)
  Definition find_h (h : N) (rows : list row) := find (fun r => rh r =? h) rows.
  Definition find_k (k : N) (rows : list row) := find (fun r => rk r =? k) rows.
  Definition nrows_with (k : list N) (rows : list row) : N :=
    N.of_nat (length (filter (fun r => kin k (uwords (rdoc r))) rows)).

  Record Inv (rows : list row) (s : ftst) : Prop := mkInv {
    I_rc : forall h, get N.eqb (rc s) h =
                     option_map (fun r => (1, N.of_nat (length (uwords (rdoc r))))) (find_h h rows);
    I_dc : forall k key, get dkeqb (dc s) (k, key) =
                         match find_k key rows with Some r => ucnt k (uwords (rdoc r)) | None => None end;
    I_gc : forall k, get leqb (gc s) k =
                     if nrows_with k rows =? 0 then None else Some (nrows_with k rows) }.

  Lemma find_k_in rows r : NoDup (map rk rows) -> In r rows -> find_k (rk r) rows = Some r.
  Proof.
    unfold find_k. induction rows as [|x rows IH]; intros Hnd Hin; [destruct Hin|].
    cbn. inversion Hnd as [|? ? Hx Hr]; subst. destruct Hin as [->|Hin].
    - now rewrite N.eqb_refl.
    - destruct (rk x =? rk r) eqn:E.
      + apply N.eqb_eq in E. exfalso. apply Hx. rewrite E. now apply in_map.
      + now apply IH.
  Qed.

  Lemma find_h_some rows r : In r rows -> exists r', find_h (rh r) rows = Some r'.
  Proof.
    unfold find_h. induction rows as [|x rows IH]; intros Hin; [destruct Hin|]. cbn.
    destruct (rh x =? rh r) eqn:E; [eexists; reflexivity|].
    destruct Hin as [->|Hin]; [rewrite N.eqb_refl in E; discriminate|now apply IH].
  Qed.

  Lemma nrows_with_pos k rows r : In r rows -> kin k (uwords (rdoc r)) = true -> nrows_with k rows <> 0.
  Proof.
    unfold nrows_with. intros Hin Hk.
    assert (In r (filter (fun r => kin k (uwords (rdoc r))) rows)) as H by (apply filter_In; split; assumption).
    destruct (filter _ rows); [destruct H|cbn; lia].
  Qed.

  Lemma nrows_with_le k rows : nrows_with k rows <= N.of_nat (length rows).
  Proof.
    unfold nrows_with. assert (forall (f : row -> bool) l, (length (filter f l) <= length l)%nat) as H.
    { intros f l. induction l as [|x l IHl]; cbn; [lia|]. destruct (f x); cbn; lia. }
    specialize (H (fun r => kin k (uwords (rdoc r))) rows). lia.
  Qed.

  (* which query words contribute, for a row of a synced index *)
  Lemma contributions_synced rows s r :
    Inv rows s -> NoDup (map rk rows) -> In r rows ->
    forall ks, flat_map (fun k =>
      match get dkeqb (dc s) (k, rk r) with
      | None => []
      | Some d => if d =? 0 then [] else
          match get leqb (gc s) k with
          | None => []
          | Some g => match get N.eqb (rc s) (rh r) with None => [] | Some (_, uw) => [(d, uw, g)] end
          end
      end) ks = [] <-> existsb (fun k => kin k (uwords (rdoc r))) ks = false.
  Proof.
    intros HI Hnd Hin ks. induction ks as [|k ks IH]; cbn; [tauto|].
    rewrite (I_dc _ _ HI), (find_k_in _ _ Hnd Hin).
    pose proof (ucnt_kin k (uwords (rdoc r)) (uwords_pos _)) as Hu.
    destruct (ucnt k (uwords (rdoc r))) as [d|].
    - destruct Hu as [Hk Hd]. rewrite Hk. apply N.eqb_neq in Hd. rewrite Hd.
      rewrite (I_gc _ _ HI). pose proof (nrows_with_pos k rows r Hin Hk) as Hn. apply N.eqb_neq in Hn. rewrite Hn.
      rewrite (I_rc _ _ HI). destruct (find_h_some rows r Hin) as [r' ->]. cbn. split; discriminate.
    - rewrite Hu. cbn. exact IH.
  Qed.

  Lemma kin_existsb k u : kin k u = existsb (leqb k) (map ekey u).
  Proof. unfold kin. induction u as [|e u IH]; cbn; [reflexivity|]. now rewrite IH. Qed.

  Theorem matches_iff_shares_word rows s q r :
    Inv rows s -> NoDup (map rk rows) -> In r rows ->
    matches is_char rlen ckey s q r = shares_word is_char rlen ckey q r.
  Proof.
    intros HI Hnd Hin. unfold matches, contributions, shares_word.
    pose proof (contributions_synced rows s r HI Hnd Hin (ukeys q)) as H.
    assert (forall ks, existsb (fun k => existsb (leqb k) (ukeys (rdoc r))) ks = existsb (fun k => kin k (uwords (rdoc r))) ks) as E.
    { intros ks. apply existsb_ext_in || (induction ks as [|k ks IHk]; cbn; [reflexivity|]; rewrite IHk; f_equal; unfold Fulltext.ukeys; now rewrite kin_existsb). }
    rewrite E. destruct H as [H1 H2]. destruct (flat_map _ (ukeys q)) eqn:F.
    - symmetry. apply H1. reflexivity.
    - destruct (existsb (fun k => kin k (uwords (rdoc r))) (ukeys q)) eqn:X; [reflexivity|].
      discriminate (H2 eq_refl).
  Qed.

  (* every contribution of a synced index has dc >= 1, unique words >= 1 and 1 <= gc <= number of rows *)
  Theorem contributions_in_range rows s q r :
    Inv rows s -> NoDup (map rk rows) -> NoDup (map rh rows) -> In r rows ->
    Forall (fun c => let '(d, uw, g) := c in 1 <= d /\ 1 <= g <= N.of_nat (length rows))
           (contributions is_char rlen ckey s q r).
  Proof.
    intros HI Hnd Hnh Hin. unfold contributions. generalize (ukeys q) as ks.
    induction ks as [|k ks IH]; cbn; [constructor|]. apply Forall_app. split; [|exact IH].
    rewrite (I_dc _ _ HI), (find_k_in _ _ Hnd Hin).
    pose proof (ucnt_kin k (uwords (rdoc r)) (uwords_pos _)) as Hu.
    destruct (ucnt k (uwords (rdoc r))) as [d|]; [|constructor].
    destruct Hu as [Hk Hd]. destruct (d =? 0) eqn:Ed; [constructor|].
    rewrite (I_gc _ _ HI). destruct (nrows_with k rows =? 0) eqn:En; [constructor|].
    destruct (get N.eqb (rc s) (rh r)) as [[n uw]|]; [|constructor].
    constructor; [|constructor]. apply N.eqb_neq in En. pose proof (nrows_with_le k rows). lia.
  Qed.
  (* ---------- index maintenance: inserting a row with a fresh hash and key keeps the index in sync ---------- *)
  Definition all_short (u : list (list N * list N * N)) : Prop := forall e, In e u -> short rlen e = true.

  Lemma get_upd_glob_inc g k k' :
    get leqb (upd_glob g k true) k' =
    if leqb k' k then Some (match get leqb g k with Some c => c + 1 | None => 1 end) else get leqb g k'.
  Proof.
    unfold upd_glob. destruct (leqb k' k) eqn:E.
    - apply leqb_spec in E. subst k'. destruct (get leqb g k); apply (get_set_same leqb leqb_spec).
    - assert (k' <> k) as Hn by (intros ->; rewrite leqb_refl in E; discriminate).
      destruct (get leqb g k); apply (get_set_other leqb leqb_spec); assumption.
  Qed.

  Lemma fold_inc u : nodupk u -> all_short u -> forall g k,
    get leqb (fold_left (fun g e => if short rlen e then upd_glob g (snd (fst e)) true else g) u g) k =
    if kin k u then Some (match get leqb g k with Some c => c + 1 | None => 1 end) else get leqb g k.
  Proof.
    induction u as [|e u IH]; intros Hnd Hs g k; [reflexivity|].
    cbn [fold_left]. rewrite (Hs e (or_introl eq_refl)).
    inversion Hnd as [|? ? Hne Hnd']; subst.
    rewrite IH; [|assumption|intros x Hx; apply Hs; now right].
    cbn [kin existsb]. fold (kin k u). rewrite get_upd_glob_inc. change (snd (fst e)) with (ekey e).
    destruct (leqb k (ekey e)) eqn:E; cbn [orb].
    - apply leqb_spec in E. subst k.
      destruct (kin (ekey e) u) eqn:K; [apply kin_in in K; contradiction|reflexivity].
    - reflexivity.
  Qed.

  Lemma fold_doc_ins key u : nodupk u -> all_short u -> forall d,
    (forall e, In e u -> get dkeqb d (ekey e, key) = None) ->
    forall k key',
    get dkeqb (fold_left (fun d e => if short rlen e then
                                      match get dkeqb d (snd (fst e), key) with
                                      | None => set dkeqb d (snd (fst e), key) (snd e)
                                      | Some _ => d
                                      end else d) u d) (k, key') =
    if (key' =? key) && kin k u then ucnt k u else get dkeqb d (k, key').
  Proof.
    induction u as [|e u IH]; intros Hnd Hs d Hfresh k key'.
    - cbn. now rewrite andb_false_r.
    - cbn [fold_left]. rewrite (Hs e (or_introl eq_refl)).
      inversion Hnd as [|? ? Hne Hnd']; subst.
      change (snd (fst e)) with (ekey e). rewrite (Hfresh e (or_introl eq_refl)).
      rewrite IH; [|assumption|intros x Hx; apply Hs; now right|].
      + cbn [kin existsb]. fold (kin k u). unfold ucnt. cbn [find].
        destruct (leqb k (ekey e)) eqn:E; cbn [orb].
        * apply leqb_spec in E. subst k.
          assert (kin (ekey e) u = false) as K
              by (destruct (kin (ekey e) u) eqn:K; [apply kin_in in K; contradiction|reflexivity]).
          rewrite K, andb_false_r, andb_true_r.
          destruct (key' =? key) eqn:Ek.
          -- apply N.eqb_eq in Ek. subst key'. apply (get_set_same dkeqb dkeqb_spec).
          -- apply (get_set_other dkeqb dkeqb_spec). intros H. injection H as H. subst key'.
             rewrite N.eqb_refl in Ek. discriminate.
        * fold (ucnt k u). destruct ((key' =? key) && kin k u); [reflexivity|].
          apply (get_set_other dkeqb dkeqb_spec). intros H. injection H as H1 H2. subst k.
          rewrite leqb_refl in E. discriminate.
      + intros x Hx. rewrite (get_set_other dkeqb dkeqb_spec).
        * apply Hfresh. now right.
        * intros H. injection H as H. apply Hne. rewrite <- H. now apply in_map.
  Qed.

  Lemma find_app_fresh (f : row -> bool) rows r :
    find f (rows ++ [r]) = match find f rows with Some x => Some x | None => if f r then Some r else None end.
  Proof. induction rows as [|x rows IH]; cbn; [reflexivity|]. destruct (f x); [reflexivity|exact IH]. Qed.

  Lemma find_none_notin (g : row -> N) h rows : ~ In h (map g rows) -> find (fun r => g r =? h) rows = None.
  Proof.
    induction rows as [|x rows IH]; intros H; cbn; [reflexivity|].
    destruct (g x =? h) eqn:E; [apply N.eqb_eq in E; exfalso; apply H; left; assumption|].
    apply IH. intros Hi. apply H. now right.
  Qed.

  Lemma nrows_with_app k rows r :
    nrows_with k (rows ++ [r]) = nrows_with k rows + (if kin k (uwords (rdoc r)) then 1 else 0).
  Proof.
    unfold nrows_with. rewrite filter_app, app_length. cbn [filter].
    destruct (kin k (uwords (rdoc r))); cbn [length]; lia.
  Qed.

  Theorem insert_keeps_sync rows s r :
    Inv rows s -> ~ In (rh r) (map rh rows) -> ~ In (rk r) (map rk rows) -> all_short (uwords (rdoc r)) ->
    Inv (rows ++ [r]) (ft_insert s r).
  Proof.
    intros HI Hh Hk Hs. unfold Fulltext.ft_insert.
    pose proof (I_rc _ _ HI (rh r)) as Hrc. unfold find_h in Hrc. rewrite (find_none_notin rh _ _ Hh) in Hrc.
    cbn in Hrc. rewrite Hrc. constructor; cbn [rc dc gc].
    - intros h. unfold find_h. rewrite find_app_fresh. fold (find_h h rows).
      destruct (N.eq_dec h (rh r)) as [->|Hn].
      + rewrite (get_set_same N.eqb Neqb_spec). unfold find_h. rewrite (find_none_notin rh _ _ Hh).
        rewrite N.eqb_refl. reflexivity.
      + rewrite (get_set_other N.eqb Neqb_spec) by assumption. rewrite (I_rc _ _ HI).
        destruct (find_h h rows); [reflexivity|].
        destruct (rh r =? h) eqn:E; [apply N.eqb_eq in E; congruence|reflexivity].
    - intros k key. rewrite fold_doc_ins; [|apply uwords_nodup|assumption|].
      + unfold find_k. rewrite find_app_fresh. fold (find_k key rows).
        destruct (key =? rk r) eqn:E.
        * apply N.eqb_eq in E. subst key. unfold find_k. rewrite (find_none_notin rk _ _ Hk), N.eqb_refl.
          cbn [andb]. pose proof (ucnt_kin k (uwords (rdoc r)) (uwords_pos _)) as Hu.
          destruct (kin k (uwords (rdoc r))) eqn:K; [reflexivity|].
          rewrite (I_dc _ _ HI). unfold find_k. rewrite (find_none_notin rk _ _ Hk).
          destruct (ucnt k (uwords (rdoc r))); [destruct Hu; congruence|reflexivity].
        * cbn [andb]. rewrite (I_dc _ _ HI). destruct (find_k key rows); [reflexivity|].
          rewrite N.eqb_sym, E. reflexivity.
      + intros e He. rewrite (I_dc _ _ HI). unfold find_k. now rewrite (find_none_notin rk _ _ Hk).
    - intros k. rewrite fold_inc; [|apply uwords_nodup|assumption].
      rewrite nrows_with_app, (I_gc _ _ HI).
      destruct (kin k (uwords (rdoc r))).
      + destruct (nrows_with k rows =? 0) eqn:E.
        * apply N.eqb_eq in E. rewrite E. reflexivity.
        * apply N.eqb_neq in E. destruct (nrows_with k rows + 1 =? 0) eqn:E2; [apply N.eqb_eq in E2; lia|reflexivity].
      + rewrite N.add_0_r. reflexivity.
  Qed.
  Lemma Inv_empty : Inv [] (empty_st).
  Proof. constructor; intros; reflexivity. Qed.

  Lemma NoDup_snoc_inv {A} (l : list A) x : NoDup (l ++ [x]) -> NoDup l /\ ~ In x l.
  Proof. intros H. apply NoDup_remove in H. now rewrite app_nil_r in H. Qed.

  (* a freshly built index (the rows inserted one by one) is in sync *)
  Theorem build_sync rows :
    NoDup (map rh rows) -> NoDup (map rk rows) -> (forall r, In r rows -> all_short (uwords (rdoc r))) ->
    Inv rows (fold_left ft_insert rows empty_st).
  Proof.
    induction rows as [|r rows IH] using rev_ind; intros Hh Hk Hs; [apply Inv_empty|].
    rewrite fold_left_app. cbn [fold_left]. rewrite map_app in Hh, Hk. cbn [map] in Hh, Hk.
    apply NoDup_snoc_inv in Hh. apply NoDup_snoc_inv in Hk. destruct Hh as [Hh1 Hh2]. destruct Hk as [Hk1 Hk2].
    apply insert_keeps_sync; try assumption.
    - apply IH; try assumption. intros x Hx. apply Hs. apply in_or_app. now left.
    - apply Hs. apply in_or_app. right. now left.
  Qed.
End FTP.

(* ---------- witnesses on the ASCII instance ---------- *)
Definition w_alpha_beta : list N := [97;108;112;104;97;32;98;101;116;97].       (* "alpha beta" *)
Definition w_r1 : row := mkrow 1 1 w_alpha_beta.

(* the indexed path returns a row once per matching query word *)
Lemma indexed_match_duplicates :
  match_result ascii_is_char ascii_rlen key_bin true
    (run_ops ascii_is_char ascii_rlen key_bin [OIns w_r1]) w_alpha_beta [w_r1] = [w_r1; w_r1].
Proof. vm_compute. reflexivity. Qed.

(* two rows whose hashed bytes coincide ("a"+"bcdef hello" = "ab"+"cdef hello"): the second row is never indexed *)
Definition w_c1 : row := mkrow 1 1 [98;99;100;101;102;32;104;101;108;108;111].  (* pk "a",  doc "bcdef hello" *)
Definition w_c2 : row := mkrow 1 2 [99;100;101;102;32;104;101;108;108;111].     (* pk "ab", doc "cdef hello" *)
Lemma hash_collision_breaks_match :
  let s := run_ops ascii_is_char ascii_rlen key_bin [OIns w_c1; OIns w_c2] in
  let q := [99;100;101;102] in
  shares_word ascii_is_char ascii_rlen key_bin q w_c2 = true /\
  matches ascii_is_char ascii_rlen key_bin s q w_c2 = false.
Proof. vm_compute. split; reflexivity. Qed.

Lemma fulltext_nonvacuous :
  map fst (tokenize ascii_is_char ascii_rlen [68;111;110;39;116;32;97;98;32;115;116;111;112;39;39;120;95;49])
    = [[68;111;110;39;116]; [115;116;111;112]; [120;95;49]]              (* "Don't ab stop''x_1" *)
  /\ ukeys ascii_is_char ascii_rlen key_ci [72;105;32;116;104;101;32;84;72;69] = [[84;72;69]]   (* "Hi the THE" *)
  /\ matches ascii_is_char ascii_rlen key_bin (run_ops ascii_is_char ascii_rlen key_bin [OIns w_r1]) [98;101;116;97] w_r1 = true.
Proof. vm_compute. repeat split; reflexivity. Qed.

(* ---------- the sign of the relevance: any positive contribution function ---------- *)
Section Relevance.
  Variable cf : N -> N -> N -> N -> Q.      (* (ln dc + 1) * (u / (1 + 0.115 u)) * (ln (n / gc) + 1) *)
  Hypothesis cf_pos : forall d u g n, 1 <= d -> 1 <= g <= n -> (0 < cf d u g n)%Q.

  Definition relevance (n : N) (cs : list (N * N * N)) : Q :=
    fold_right (fun c a => let '(d, u, g) := c in (cf d u g n + a)%Q) 0%Q cs.

  Lemma relevance_pos n cs :
    Forall (fun c => let '(d, uw, g) := c in 1 <= d /\ 1 <= g <= n) cs ->
    ((0 < relevance n cs)%Q <-> cs <> []).
  Proof.
    intros H. split.
    - intros Hp ->. cbn in Hp. apply Qlt_irrefl in Hp. exact Hp.
    - intros Hne.
      assert (forall l, Forall (fun c => let '(d, uw, g) := c in 1 <= d /\ 1 <= g <= n) l -> (0 <= relevance n l)%Q) as Hnn.
      { induction l as [|[[d u] g] l IHl]; intros Hl; cbn; [apply Qle_refl|].
        inversion Hl as [|? ? Hc0 Hl']; subst. cbn in Hc0. destruct Hc0 as [Hd Hg].
        specialize (IHl Hl'). pose proof (cf_pos d u g n Hd Hg) as Hc.
        apply Qlt_le_weak in Hc. replace 0%Q with (0 + 0)%Q by reflexivity. now apply Qplus_le_compat. }
      destruct cs as [|[[d u] g] cs]; [congruence|]. cbn.
      inversion H as [|? ? Hc0 Hl']; subst. cbn in Hc0. destruct Hc0 as [Hd Hg].
      pose proof (cf_pos d u g n Hd Hg) as Hc. specialize (Hnn cs Hl').
      replace 0%Q with (0 + 0)%Q by reflexivity. now apply Qplus_lt_le_compat.
  Qed.
End Relevance.
