(* C33, layer 2 - a reference matcher for the common RE2/ICU subset: literals, '.', bracket classes (ranges,
   negation; \d \w \s are classes), sequence, alternation, groups (transparent), greedy * (+ and ? and {m,n} are
   derived forms), ^ and $.  Backtracking with leftmost-first priority, written in continuation-passing style;
   the star loop runs on fuel = length of the remaining subject and only accepts iterations that consume something.
   [M] is the declarative language semantics it is proved sound against: [M r pre mid post] = r matches [mid] when
   the text before it is [rev pre] and the text after it is [post] (the contexts are what ^ and $ look at). *)
From Coq Require Import List NArith Arith Bool Lia.
Import ListNotations.

Inductive re :=
| Eps
| Chr (c : N)
| Any
| Cls (neg : bool) (ranges : list (N * N))
| Seq (a b : re)
| Alt (a b : re)
| Star (a : re)
| Bol
| Eol.

Definition Plus (a : re) : re := Seq a (Star a).
Definition Opt (a : re) : re := Alt a Eps.      (* greedy: try a first *)

(* '.' does not match line terminators (none are generated) *)
Definition any_ok (c : N) : bool := negb (N.eqb c 10) && negb (N.eqb c 13).
Definition in_cls (neg : bool) (rs : list (N * N)) (c : N) : bool :=
  xorb neg (existsb (fun p => N.leb (fst p) c && N.leb c (snd p)) rs).

Inductive M : re -> list N -> list N -> list N -> Prop :=
| M_eps : forall pre post, M Eps pre [] post
| M_chr : forall c pre post, M (Chr c) pre [c] post
| M_any : forall c pre post, any_ok c = true -> M Any pre [c] post
| M_cls : forall neg rs c pre post, in_cls neg rs c = true -> M (Cls neg rs) pre [c] post
| M_seq : forall a b pre m1 m2 post,
    M a pre m1 (m2 ++ post) -> M b (rev m1 ++ pre) m2 post -> M (Seq a b) pre (m1 ++ m2) post
| M_altl : forall a b pre m post, M a pre m post -> M (Alt a b) pre m post
| M_altr : forall a b pre m post, M b pre m post -> M (Alt a b) pre m post
| M_star0 : forall a pre post, M (Star a) pre [] post
| M_starS : forall a pre m1 m2 post,
    M a pre m1 (m2 ++ post) -> M (Star a) (rev m1 ++ pre) m2 post -> M (Star a) pre (m1 ++ m2) post
| M_bol : forall post, M Bol [] [] post
| M_eol : forall pre, M Eol pre [] [].

Definition K := list N -> list N -> option nat.

Fixpoint m (r : re) (pre s : list N) (k : K) : option nat :=
  match r with
  | Eps => k pre s
  | Chr c => match s with x :: s' => if N.eqb x c then k (x :: pre) s' else None | [] => None end
  | Any => match s with x :: s' => if any_ok x then k (x :: pre) s' else None | [] => None end
  | Cls neg rs => match s with x :: s' => if in_cls neg rs x then k (x :: pre) s' else None | [] => None end
  | Seq a b => m a pre s (fun pre' s' => m b pre' s' k)
  | Alt a b => match m a pre s k with Some v => Some v | None => m b pre s k end
  | Star a =>
      (fix loop (n : nat) (pre s : list N) : option nat :=
         match n with
         | O => k pre s
         | S n' =>
             match m a pre s (fun pre' s' => if length s' <? length s then loop n' pre' s' else None) with
             | Some v => Some v
             | None => k pre s
             end
         end) (length s) pre s
  | Bol => match pre with [] => k pre s | _ => None end
  | Eol => match s with [] => k pre s | _ => None end
  end.

(* match at the current position: Some n = matched, n units of the subject remain after the match *)
Definition match_at (r : re) (pre s : list N) : option nat := m r pre s (fun _ rest => Some (length rest)).

(* leftmost match: (start, end) offsets *)
Fixpoint find_from (r : re) (pre s : list N) (i : nat) : option (nat * nat) :=
  match match_at r pre s with
  | Some n => Some (i, i + (length s - n))
  | None => match s with
            | [] => None
            | x :: s' => find_from r (x :: pre) s' (S i)
            end
  end.
Definition find (r : re) (s : list N) : option (nat * nat) := find_from r [] s 0.

(* successive non-empty matches; stops at the first empty match (engines differ on how they continue after one) *)
Fixpoint find_all_from (fuel : nat) (r : re) (pre s : list N) (i : nat) : list (nat * nat) * bool :=
  match fuel with
  | O => ([], true)
  | S f =>
    match find_from r pre s i with
    | None => ([], true)
    | Some (a, b) =>
        if (b <=? a)%nat then ([], false)
        else let consumed := firstn (b - i) s in
             let (l, okk) := find_all_from f r (rev consumed ++ pre) (skipn (b - i) s) b in
             ((a, b) :: l, okk)
    end
  end.
