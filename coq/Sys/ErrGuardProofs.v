(* Proofs about the model of errguard.Go (C48). *)
From Coq Require Import List NArith Arith PeanoNat Bool Permutation Lia.
Import ListNotations.
From GMS Require Import Sys.ErrGuard.

(* ---------- the wrapper ---------- *)
Lemma wrapper_never_crashes r t : wrapper r <> Crashed t.
Proof. destruct r as [e| |]; cbn; discriminate. Qed.

Lemma guard_end_never_crashes b t : guard_end b <> Crashed t.
Proof. apply wrapper_never_crashes. Qed.

Lemma goroutines_never_crash b g t : In g (goroutines b) -> guard_end g <> Crashed t.
Proof. intros _. apply guard_end_never_crashes. Qed.

(* without the wrapper a panicking function kills the process *)
Lemma unguarded_crashes b t : run_fn b = RPanic t -> unguarded (run_fn b) = Crashed t.
Proof. intros ->. reflexivity. Qed.

Lemma error_unchanged b e : run_fn b = RRet e -> guard_end b = Normal e /\ guard b = e.
Proof. unfold guard, guard_end. intros ->. split; reflexivity. Qed.

Lemma returned_error_same_value id : guard (Ret (Some id)) = Some (EId id) /\ guard (Ret None) = None.
Proof. split; reflexivity. Qed.

Lemma panic_becomes_error b t : run_fn b = RPanic t ->
  guard_end b = Normal (Some (ERec t)) /\ guard b = Some (ERec t) /\
  forall stack, message stack (ERec t) = Some (s_prefix ++ t ++ [10%N] ++ stack).
Proof. unfold guard, guard_end. intros ->. repeat split; reflexivity. Qed.

Lemma goexit_records_nothing b : run_fn b = RGoexit -> guard_end b = Exited /\ guard b = None.
Proof. unfold guard, guard_end. intros ->. split; reflexivity. Qed.

(* the wrapper is total and has exactly these three outcomes *)
Lemma guard_cases b :
  (exists e, run_fn b = RRet e /\ guard b = e) \/
  (exists t, run_fn b = RPanic t /\ guard b = Some (ERec t)) \/
  (run_fn b = RGoexit /\ guard b = None).
Proof.
  unfold guard, guard_end. destruct (run_fn b) as [e|t|]; cbn; [left|right; left|right; right]; eauto.
Qed.

(* ---------- Wait ---------- *)
Lemma first_err_in order outs e : first_err order outs = Some e -> In (Some e) outs.
Proof.
  induction order as [|i rest IH]; cbn; [discriminate|].
  destruct (nth i outs None) as [e'|] eqn:E; [|exact IH].
  intros H. injection H as <-.
  destruct (nth_in_or_default i outs None) as [Hin|Hd]; [now rewrite E in Hin | congruence].
Qed.

Lemma first_err_none order outs :
  first_err order outs = None <-> forall i, In i order -> nth i outs None = None.
Proof.
  induction order as [|i rest IH]; cbn; [split; [intros _ ? []|reflexivity]|].
  destruct (nth i outs None) as [e|] eqn:E.
  - split; [discriminate|]. intros H. specialize (H i (or_introl eq_refl)). congruence.
  - rewrite IH. split; [intros H j [<-|Hj]; auto | intros H j Hj; apply H; now right].
Qed.

(* the first non-nil error in completion order, spelled out *)
Lemma first_err_spec order outs e :
  first_err order outs = Some e <->
  exists l1 i l2, order = l1 ++ i :: l2 /\ nth i outs None = Some e /\ forall j, In j l1 -> nth j outs None = None.
Proof.
  induction order as [|i rest IH]; cbn.
  - split; [discriminate|]. intros [l1 [i [l2 [H _]]]]. destruct l1; discriminate.
  - destruct (nth i outs None) as [e'|] eqn:E.
    + split.
      * intros H. injection H as <-. exists [], i, rest. repeat split; [exact E | intros ? []].
      * intros [l1 [j [l2 [Ho [Hj Hl]]]]]. destruct l1 as [|x l1]; cbn in Ho; injection Ho as Hi Hr.
        -- subst j. congruence.
        -- subst x. specialize (Hl i (or_introl eq_refl)). congruence.
    + rewrite IH. split.
      * intros [l1 [j [l2 [-> [Hj Hl]]]]]. exists (i :: l1), j, l2. repeat split; [exact Hj|].
        intros k [<-|Hk]; auto.
      * intros [l1 [j [l2 [Ho [Hj Hl]]]]]. destruct l1 as [|x l1]; cbn in Ho; injection Ho as Hi Hr.
        -- subst j. congruence.
        -- subst x rest. exists l1, j, l2. repeat split; [exact Hj|]. intros k Hk. apply Hl. now right.
Qed.

Lemma schedule_covers order n i : is_schedule order n -> (In i order <-> i < n).
Proof.
  unfold is_schedule. intros P. split.
  - intros H. apply (Permutation_in _ P) in H. apply in_seq in H. lia.
  - intros H. apply (Permutation_in _ (Permutation_sym P)). apply in_seq. lia.
Qed.

Lemma all_none_nth (outs : list (option errv)) :
  (forall i, i < length outs -> nth i outs None = None) <-> Forall (fun o => o = None) outs.
Proof.
  rewrite Forall_forall. split.
  - intros H o Ho. destruct (In_nth outs o None Ho) as [i [Hi <-]]. now apply H.
  - intros H i Hi. apply H. now apply nth_In.
Qed.

Lemma wait_nil_iff_all_nil order outs : is_schedule order (length outs) ->
  (first_err order outs = None <-> Forall (fun o => o = None) outs).
Proof.
  intros S. rewrite first_err_none, <- all_none_nth. split; intros H i Hi; apply H; now apply (schedule_covers order _ i S).
Qed.

Lemma wait_some_iff_some_error order outs : is_schedule order (length outs) ->
  ((exists e, first_err order outs = Some e) <-> exists e, In (Some e) outs).
Proof.
  intros S. split.
  - intros [e H]. exists e. now apply first_err_in in H.
  - intros [e He]. destruct (first_err order outs) as [e'|] eqn:F; [eauto|].
    apply (wait_nil_iff_all_nil order outs S) in F. rewrite Forall_forall in F. specialize (F _ He). discriminate.
Qed.

(* whether Wait fails does not depend on the schedule; with a single failing member neither does the error *)
Lemma nil_schedule_independent o1 o2 outs : is_schedule o1 (length outs) -> is_schedule o2 (length outs) ->
  (first_err o1 outs = None <-> first_err o2 outs = None).
Proof. intros S1 S2. now rewrite (wait_nil_iff_all_nil o1 outs S1), (wait_nil_iff_all_nil o2 outs S2). Qed.

(* every member's error can be the one Wait returns: the schedule that completes it first *)
Lemma any_error_can_win outs i e : i < length outs -> nth i outs None = Some e ->
  exists order, is_schedule order (length outs) /\ first_err order outs = Some e.
Proof.
  intros Hi He. exists (i :: remove Nat.eq_dec i (seq 0 (length outs))). split; [|cbn; now rewrite He].
  unfold is_schedule. assert (Hin : In i (seq 0 (length outs))) by (apply in_seq; lia).
  assert (Hnd : NoDup (seq 0 (length outs))) by apply seq_NoDup.
  revert Hin Hnd. generalize (seq 0 (length outs)) as l. induction l as [|x l IH]; cbn; [tauto|].
  intros Hin Hnd. inversion Hnd as [|? ? Hx Hl]; subst. destruct (Nat.eq_dec i x) as [->|Ne].
  - rewrite notin_remove by assumption. reflexivity.
  - destruct Hin as [->|Hin]; [congruence|]. rewrite perm_swap. apply perm_skip. now apply IH.
Qed.

(* ---------- groups of behaviour trees ---------- *)
Lemma group_wait_nil_iff order children : is_schedule order (length children) ->
  (group_wait order children = None <-> forall c, In c children -> guard c = None).
Proof.
  intros S. unfold group_wait. rewrite wait_nil_iff_all_nil by now rewrite map_length.
  rewrite Forall_forall. split.
  - intros H c Hc. apply H. now apply in_map.
  - intros H o Ho. apply in_map_iff in Ho. destruct Ho as [c [<- Hc]]. now apply H.
Qed.

Lemma group_wait_one_of order children e : group_wait order children = Some e ->
  exists c, In c children /\ guard c = Some e.
Proof.
  unfold group_wait. intros H. apply first_err_in in H. apply in_map_iff in H. destruct H as [c [Hc Hin]]. eauto.
Qed.

(* a member's own returned error reaches Wait as the SAME value; a panic as the minted error *)
Lemma group_wait_provenance order children e : group_wait order children = Some e ->
  exists c, In c children /\
    ((run_fn c = RRet (Some e)) \/ (exists t, run_fn c = RPanic t /\ e = ERec t)).
Proof.
  intros H. destruct (group_wait_one_of _ _ _ H) as [c [Hin Hg]]. exists c. split; [exact Hin|].
  destruct (guard_cases c) as [[e' [Hr He]]|[[t [Hr He]]|[Hr He]]]; rewrite Hg in He.
  - left. now rewrite Hr, He.
  - right. exists t. split; [exact Hr | congruence].
  - discriminate.
Qed.

Example nonvacuous :
  group_wait [2; 0; 1] [Ret (Some 7%N); Pan [98;111;111;109]%N; Nest [1; 0] [Ret None; Pan [120]%N] PReturnInner]
    = Some (ERec [120]%N)
  /\ group_wait [1; 2; 0] [Ret (Some 7%N); Pan [98;111;111;109]%N; Goexit] = Some (ERec [98;111;111;109]%N)
  /\ group_wait [0; 1; 2] [Ret (Some 7%N); Pan [98;111;111;109]%N; Goexit] = Some (EId 7%N)
  /\ group_wait [0; 1] [Ret None; Goexit] = None
  /\ unguarded (run_fn (Pan [120]%N)) = Crashed [120]%N
  /\ is_schedule [2; 0; 1] 3.
Proof.
  repeat split; try (vm_compute; reflexivity).
  unfold is_schedule. cbn. apply (Permutation_cons_app [0; 1] [] 2). rewrite app_nil_r. apply Permutation_refl.
Qed.
