(* C36 — a small concrete evaluator instantiating the abstract read-only step of Sys/C36ReadOnly.v.
   A query is a FUNCTION of the database value ([eval], denotational, C02 style: filter / project / aggregate over a
   bag of rows); a session evaluates its queries with a cursor that reads one row of the shared database per
   micro-step ([lstep]).  Under every interleaving with any other sessions' actions each session ends with exactly
   [map (fun q => eval q db) queries]. *)
From Coq Require Import List NArith ZArith Lia.
Import ListNotations.
From GMS Require Import Sys.ProcessList Sys.C36ReadOnly.

Definition row := list Z.
Definition DB := list row.

Inductive pred := PTrue | PEq (c : nat) (v : Z) | PLt (c : nat) (v : Z) | PAnd (p q : pred).
Inductive query := QCount (p : pred) | QSum (c : nat) (p : pred) | QSelect (c : nat) (p : pred).

Definition col (c : nat) (r : row) : Z := nth c r 0%Z.

Fixpoint holds (p : pred) (r : row) : bool :=
  match p with
  | PTrue => true
  | PEq c v => Z.eqb (col c r) v
  | PLt c v => Z.ltb (col c r) v
  | PAnd a b => holds a r && holds b r
  end.

Definition qpred (q : query) : pred := match q with QCount p | QSum _ p | QSelect _ p => p end.
Definition qval (q : query) (r : row) : Z := match q with QCount _ => 1%Z | QSum c _ | QSelect c _ => col c r end.
Definition finish (q : query) (acc : list Z) : list Z :=
  match q with
  | QCount _ => [Z.of_nat (length acc)]
  | QSum _ _ => [fold_right Z.add 0%Z acc]
  | QSelect _ _ => acc
  end.

(* what the query means: a function of the database value *)
Definition eval (q : query) (db : DB) : list Z := finish q (map (qval q) (filter (holds (qpred q)) db)).

(* the session's private state: queries still to run, the cursor of the running query, the results so far *)
Record loc := mkLoc { todo : list query; cur : option (query * nat * list Z); results : list (list Z) }.

Definition lstep (db : DB) (_ : N) (l : loc) : loc :=
  match cur l with
  | None =>
      match todo l with
      | [] => l
      | q :: r => mkLoc r (Some (q, O, [])) (results l)
      end
  | Some (q, pos, acc) =>
      match nth_error db pos with
      | Some rw => mkLoc (todo l) (Some (q, S pos, if holds (qpred q) rw then acc ++ [qval q rw] else acc)) (results l)
      | None => mkLoc (todo l) None (results l ++ [finish q acc])
      end
  end.

Fixpoint iter (n : nat) (f : loc -> loc) (l : loc) : loc := match n with O => l | S k => iter k f (f l) end.

Lemma iter_add (a b : nat) f l : iter (a + b)%nat f l = iter b f (iter a f l).
Proof. revert l. induction a as [|a IH]; intros l; cbn; [reflexivity|apply IH]. Qed.

Lemma scan (db : DB) i q td res : forall (k pos : nat) acc,
  (pos + k = length db)%nat ->
  iter k (lstep db i) (mkLoc td (Some (q, pos, acc)) res) =
  mkLoc td (Some (q, length db, acc ++ map (qval q) (filter (holds (qpred q)) (skipn pos db)))) res.
Proof.
  induction k as [|k IH]; intros pos acc Hk; cbn [iter].
  - assert (pos = length db) by lia. subst pos. rewrite skipn_all. cbn. now rewrite app_nil_r.
  - unfold lstep at 2. cbn [cur].
    destruct (nth_error db pos) as [rw|] eqn:E.
    2: { apply nth_error_None in E. lia. }
    cbn [todo results]. rewrite IH by lia.
    (* skipn pos db = rw :: skipn (S pos) db *)
    assert (Hs : skipn pos db = rw :: skipn (S pos) db).
    { clear -E. revert pos E. induction db as [|x db IHd]; intros [|pos] E; cbn in *; try discriminate.
      - now injection E as ->.
      - now apply IHd. }
    rewrite Hs. cbn [filter]. destruct (holds (qpred q) rw); cbn [map]; [now rewrite <- app_assoc|reflexivity].
Qed.

Lemma run_query (db : DB) i q td res :
  iter (length db + 2)%nat (lstep db i) (mkLoc (q :: td) None res) = mkLoc td None (res ++ [eval q db]).
Proof.
  replace (length db + 2)%nat with (1 + (length db + 1))%nat by lia. rewrite iter_add. cbn [iter].
  unfold lstep at 2. cbn [cur todo results]. rewrite iter_add, (scan db i q td res (length db) 0 []) by lia.
  cbn [iter]. unfold lstep. cbn [cur]. rewrite (proj2 (nth_error_None db (length db))) by lia.
  cbn [todo results app skipn]. reflexivity.
Qed.

Lemma run_queries (db : DB) i : forall qs res,
  iter (length qs * (length db + 2))%nat (lstep db i) (mkLoc qs None res) = mkLoc [] None (res ++ map (fun q => eval q db) qs).
Proof.
  induction qs as [|q qs IH]; intros res; cbn [length Nat.mul map].
  - cbn. now rewrite app_nil_r.
  - rewrite iter_add, run_query, IH, <- app_assoc. reflexivity.
Qed.

Lemma idle_stable db i res n : iter n (lstep db i) (mkLoc [] None res) = mkLoc [] None res.
Proof. induction n as [|n IH]; cbn; [reflexivity|exact IH]. Qed.

(* a session that gets at least the steps it needs ends with the meaning of its queries *)
Theorem session_computes_eval (db : DB) i qs (n : nat) :
  (length qs * (length db + 2) <= n)%nat ->
  iter n (lstep db i) (mkLoc qs None []) = mkLoc [] None (map (fun q => eval q db) qs).
Proof.
  intros Hn. replace n with (length qs * (length db + 2) + (n - length qs * (length db + 2)))%nat by lia.
  rewrite iter_add, run_queries, idle_stable. reflexivity.
Qed.

(* ---- plugged into the interleaving semantics of Sys/C36ReadOnly.v ---- *)
Fixpoint nlocal (i : N) (l : list (N * action)) : nat :=
  match l with
  | [] => O
  | (j, ALocal) :: r => if N.eqb j i then S (nlocal i r) else nlocal i r
  | _ :: r => nlocal i r
  end.

Lemma gloc_exec (g : gstate DB loc) l i :
  gloc DB loc (exec DB loc lstep g l) i = iter (nlocal i l) (lstep (gdb DB loc g) i) (gloc DB loc g i).
Proof.
  revert g. induction l as [|[j a] r IH]; intros g; [reflexivity|].
  rewrite exec_cons, IH. destruct a; cbn [nlocal gstep gdb gloc]; try reflexivity.
  destruct (N.eqb_spec j i) as [->|Hne]; cbn [iter].
  - now rewrite N.eqb_refl.
  - destruct (N.eqb_spec i j); [congruence|reflexivity].
Qed.

(* read-only isolation with the concrete evaluator: in EVERY interleaving in which session i gets enough of its own
   evaluation steps, and whatever the other sessions, the process list and the counters do in between, session i ends
   with exactly the meaning of its queries on the (unchanged) database *)
Theorem readonly_sessions_compute_eval (g : gstate DB loc) l i qs :
  gloc DB loc g i = mkLoc qs None [] ->
  (length qs * (length (gdb DB loc g) + 2) <= nlocal i l)%nat ->
  gloc DB loc (exec DB loc lstep g l) i = mkLoc [] None (map (fun q => eval q (gdb DB loc g)) qs) /\
  gdb DB loc (exec DB loc lstep g l) = gdb DB loc g.
Proof.
  intros Hl Hn. split; [|apply db_never_written]. rewrite gloc_exec, Hl. now apply session_computes_eval.
Qed.

Example eval_demo :
  let db := [[1; 10]; [2; 20]; [3; 30]; [2; 5]]%Z in
  eval (QSelect 1 (PEq 0 2)) db = [20; 5]%Z /\ eval (QCount (PLt 1 25)) db = [3]%Z /\
  eval (QSum 1 (PAnd PTrue (PLt 0 3))) db = [35]%Z.
Proof. vm_compute. repeat split. Qed.
