(* C51 — model of go-mysql-server's full-text search (sql/fulltext/default_parser.go, fulltext_editor.go,
   sql/expression/matchagainst.go inNaturalLanguageMode).
   Runes are N; the rune classifier, the UTF-8 length of a rune and the collation key of a word are Section
   variables (concrete ASCII instances at the end).  Index tables are association lists keyed like the
   PRIMARY KEYs of the pseudo-index tables. *)
From Coq Require Import List NArith Bool Lia.
Import ListNotations.
Open Scope N_scope.

Fixpoint leqb (a b : list N) : bool :=
  match a, b with
  | [], [] => true
  | x :: a', y :: b' => (x =? y) && leqb a' b'
  | _, _ => false
  end.

(* ---------- association lists (a table with a primary key) ---------- *)
Section Map.
  Context {K V : Type}.
  Variable keqb : K -> K -> bool.
  Fixpoint get (m : list (K * V)) (k : K) : option V :=
    match m with [] => None | (k', v) :: r => if keqb k k' then Some v else get r k end.
  Definition remove (m : list (K * V)) (k : K) : list (K * V) := filter (fun p => negb (keqb k (fst p))) m.
  Definition set (m : list (K * V)) (k : K) (v : V) : list (K * V) := remove m k ++ [(k, v)].
End Map.

Section FT.
  Variable is_char : N -> bool.       (* (IsLetter || IsNumber || IsDigit) && !IsPunct *)
  Variable rlen : N -> N.             (* UTF-8 length of a rune *)
  Variable ckey : list N -> list N.   (* collation key: HashToUint identifies words with equal keys *)

  (* ---------- DefaultParser ---------- *)
  Inductive pst : Type := Ws | Wd | Ap.
  Definition apos : N := 39.
  Definition blen (w : list N) : N := fold_right (fun r a => rlen r + a) 0 w.

  Fixpoint trim_left (w : list N) : list N :=
    match w with r :: w' => if r =? apos then trim_left w' else w | [] => [] end.
  Definition trim_right (w : list N) : list N := rev (trim_left (rev w)).

  (* newParserWord *)
  Definition new_word (w : list N) (pos : N) : list N * N :=
    let w1 := trim_left w in (trim_right w1, pos + (blen w - blen w1)).

  (* words are kept in reverse; [bw] is the word being built, reversed *)
  Definition push (out : list (list N * N)) (bw : list N) (pos : N) : list (list N * N) :=
    let wp := new_word (rev bw) pos in
    if 3 <=? blen (fst wp) then wp :: out else out.

  Record tk : Type := mktk { t_st : pst; t_bw : list N; t_pos : N; t_i : N; t_out : list (list N * N) }.

  Definition step (s : tk) (r : N) : tk :=
    let c := is_char r || (r =? 95) in
    let i' := t_i s + rlen r in
    match t_st s with
    | Ws => if c then mktk Wd (r :: t_bw s) (t_pos s) i' (t_out s)
            else mktk Ws (t_bw s) (t_pos s + 1) i' (t_out s)
    | Wd => if c then mktk Wd (r :: t_bw s) (t_pos s) i' (t_out s)
            else if r =? apos then mktk Ap (r :: t_bw s) (t_pos s) i' (t_out s)
            else mktk Ws [] (t_i s) i' (push (t_out s) (t_bw s) (t_pos s))
    | Ap => if c then mktk Wd (r :: t_bw s) (t_pos s) i' (t_out s)
            else mktk Ws [] (t_i s) i' (push (t_out s) (t_bw s) (t_pos s))
    end.

  Definition tokenize (doc : list N) : list (list N * N) :=
    let s := fold_left step doc (mktk Ws [] 0 0 []) in
    rev (push (t_out s) (t_bw s) (t_pos s)).

  (* the unique list + uniqueMap: first spelling, key, count, in order of first occurrence *)
  Fixpoint uadd (w k : list N) (u : list (list N * list N * N)) : list (list N * list N * N) :=
    match u with
    | [] => [(w, k, 1)]
    | (w', k', c) :: r => if leqb k k' then (w', k', c + 1) :: r else (w', k', c) :: uadd w k r
    end.

  Definition uniq (ws : list (list N * N)) : list (list N * list N * N) :=
    fold_left (fun u wp => uadd (fst wp) (ckey (fst wp)) u) ws [].

  Definition uwords (doc : list N) := uniq (tokenize doc).
  Definition ukeys (doc : list N) : list (list N) := map (fun e => snd (fst e)) (uwords doc).

  (* NewDefaultParser's document: the non-NULL column values, a space before every one but the first column *)
  Fixpoint join_cols_from (i : nat) (cols : list (option (list N))) : list N :=
    match cols with
    | [] => []
    | None :: r => join_cols_from (S i) r
    | Some v :: r => (match i with O => [] | _ => [32] end) ++ v ++ join_cols_from (S i) r
    end.
  Definition join_cols := join_cols_from 0.

  (* ---------- index tables ---------- *)
  Definition max_word_len : N := 84.

  Record row : Type := mkrow { rh : N;           (* identity of the HashRow value *)
                               rk : N;           (* identity of the key columns (PK), or of the hash for keyless tables *)
                               rdoc : list N }.  (* the document of the indexed columns *)

  Record ftst : Type := mkst {
    rc : list (N * (N * N));               (* row count table: hash -> (row count, unique words) *)
    dc : list ((list N * N) * N);          (* doc count table: (word key, row key) -> count *)
    gc : list (list N * N) }.              (* global count table: word key -> rows containing it *)

  Definition dkeqb (a b : list N * N) : bool := leqb (fst a) (fst b) && (snd a =? snd b).

  (* updateGlobalCount *)
  Definition upd_glob (g : list (list N * N)) (k : list N) (inc : bool) : list (list N * N) :=
    match get leqb g k with
    | None => if inc then set leqb g k 1 else g
    | Some c => if inc then set leqb g k (c + 1)
                else if 1 <? c then set leqb g k (c - 1) else remove leqb g k
    end.

  Definition short (e : list N * list N * N) : bool := blen (fst (fst e)) <=? max_word_len.

  Definition ft_insert (s : ftst) (r : row) : ftst :=
    let u := uwords (rdoc r) in
    match get N.eqb (rc s) (rh r) with
    | Some (n, uw) =>
        (* a row with this hash is already counted: only the row count and the global counts change *)
        mkst (set N.eqb (rc s) (rh r) (n + 1, uw)) (dc s)
             (fold_left (fun g e => if short e then upd_glob g (snd (fst e)) true else g) u (gc s))
    | None =>
        mkst (set N.eqb (rc s) (rh r) (1, N.of_nat (length u)))
             (fold_left (fun d e => if short e then
                                      match get dkeqb d (snd (fst e), rk r) with
                                      | None => set dkeqb d (snd (fst e), rk r) (snd e)
                                      | Some _ => d     (* duplicate key error is ignored *)
                                      end
                                    else d) u (dc s))
             (fold_left (fun g e => if short e then upd_glob g (snd (fst e)) true else g) u (gc s))
    end.

  Definition ft_delete (s : ftst) (r : row) : ftst :=
    let u := uwords (rdoc r) in
    match get N.eqb (rc s) (rh r) with
    | None => s
    | Some (n, uw) =>
        if 1 <? n then
          mkst (set N.eqb (rc s) (rh r) (n - 1, uw)) (dc s)
               (fold_left (fun g e => upd_glob g (snd (fst e)) false) u (gc s))
        else
          mkst (remove N.eqb (rc s) (rh r))
               (fold_left (fun d e => remove dkeqb d (snd (fst e), rk r)) u (dc s))
               (fold_left (fun g e => upd_glob g (snd (fst e)) false) u (gc s))
    end.

  Definition ft_update (s : ftst) (o n : row) : ftst := ft_insert (ft_delete s o) n.

  Inductive op : Type := OIns (r : row) | ODel (r : row) | OUpd (o n : row).

  Definition apply_op (s : ftst) (o : op) : ftst :=
    match o with OIns r => ft_insert s r | ODel r => ft_delete s r | OUpd a b => ft_update s a b end.

  Definition empty_st : ftst := mkst [] [] [].
  Definition run_ops (ops : list op) : ftst := fold_left apply_op ops empty_st.

  (* the table itself (a bag of rows) *)
  Fixpoint remove_row (r : row) (rows : list row) : list row :=
    match rows with
    | [] => []
    | x :: t => if (rh x =? rh r) && (rk x =? rk r) && leqb (rdoc x) (rdoc r) then t else x :: remove_row r t
    end.

  Definition apply_rows (rows : list row) (o : op) : list row :=
    match o with
    | OIns r => rows ++ [r]
    | ODel r => remove_row r rows
    | OUpd a b => remove_row a rows ++ [b]
    end.

  (* ---------- MATCH ... AGAINST in natural language mode: which query words contribute ---------- *)
  (* a query word contributes iff the three lookups hit and the document count is not 0; the contribution is
     (ln dc + 1) * (u / (1 + 0.115 u)) * (ln (N / gc) + 1) *)
  Definition contributions (s : ftst) (q : list N) (r : row) : list (N * N * N) :=   (* (dc, unique words, gc) *)
    flat_map (fun k =>
      match get dkeqb (dc s) (k, rk r) with
      | None => []
      | Some d => if d =? 0 then [] else
          match get leqb (gc s) k with
          | None => []
          | Some g =>
              match get N.eqb (rc s) (rh r) with
              | None => []
              | Some (_, uw) => [(d, uw, g)]
              end
          end
      end) (ukeys q).

  Definition matches (s : ftst) (q : list N) (r : row) : bool :=
    match contributions s q r with [] => false | _ => true end.

  (* rowexec/fulltext_filter.go: for a table with key columns the rows come from the doc count table, one lookup
     per unique query word (fulltextFilterTableRowIter); a keyless table is scanned.  The Filter node on top
     evaluates the MATCH expression. *)
  Definition scan_keyed (s : ftst) (q : list N) (rows : list row) : list row :=
    flat_map (fun k =>
      flat_map (fun e => if leqb k (fst (fst e)) then filter (fun r => rk r =? snd (fst e)) rows else [])
               (dc s)) (ukeys q).

  Definition match_result (keyed : bool) (s : ftst) (q : list N) (rows : list row) : list row :=
    filter (matches s q) (if keyed then scan_keyed s q rows else rows).

  (* scan-based reference: the row's document and the query share a word under the collation *)
  Definition shares_word (q : list N) (r : row) : bool :=
    existsb (fun k => existsb (leqb k) (ukeys (rdoc r))) (ukeys q).
End FT.

(* ---------- concrete ASCII instances ---------- *)
Definition ascii_is_char (r : N) : bool :=
  ((48 <=? r) && (r <=? 57)) || ((65 <=? r) && (r <=? 90)) || ((97 <=? r) && (r <=? 122)).
Definition ascii_rlen (r : N) : N := 1.
Definition key_bin (w : list N) : list N := w.
Definition key_ci (w : list N) : list N := map (fun r => if (97 <=? r) && (r <=? 122) then r - 32 else r) w.
