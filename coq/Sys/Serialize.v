(* Model of persisting and reloading the mysql database (C41):
     sql/mysql_db/mysql_db_serialize.go  serializeUser / serializePrivilegeSet / serializeDatabases / serializeTables /
                                         serializePrivilegeTypes / serializeRoleEdge
     sql/mysql_db/mysql_db_load.go       LoadUser / loadPrivilegeSet / loadDatabase / loadTable / LoadRoleEdge
     sql/mysql_db/privilege_set.go       getUseableDb / getUseableTbl (keys are strings.ToLower(name)), Database / Table lookup,
                                         getDatabases / getTables (entries without privileges are skipped)
   The flatbuffer object tree is modelled as vectors of records (byte encoding = oracle).  Routines, columns, dynamic
   privileges and replica source info are not modelled.  Definitions only; proofs are in SerializeProofs.v. *)
From Coq Require Import List NArith Bool.
Import ListNotations.
From GMS Require Import Sys.Privs.
Open Scope N_scope.

Definition lower_c (c : N) : N := if (65 <=? c) && (c <=? 90) then c + 32 else c.
Definition lower (s : str) : str := map lower_c s.

(* live structures: maps keyed by a key string, each entry carrying the name it was created with *)
Record tblE : Type := mkT { t_name : str; t_privs : pset }.
Record dbE : Type := mkDB { db_name : str; db_privs : pset; db_tbls : list (str * tblE) }.
Record psE : Type := mkPS { ps_g : pset; ps_dbs : list (str * dbE) }.

Record userE : Type := mkU {
  us_name : str; us_host : str; us_plugin : str; us_auth : str; us_locked : bool; us_attrs : option str; us_ps : psE }.
Record edgeE : Type := mkE { e_fh : str; e_fu : str; e_th : str; e_tu : str; e_admin : bool }.
Record mdb : Type := mkM { m_users : list userE; m_edges : list edgeE }.

(* lookups as the live code does them: key = strings.ToLower(requested name) *)
Definition e_has_g (ps : psE) (p : N) : bool := pmem p (ps_g ps).
Definition e_has_d (ps : psE) (d : str) (p : N) : bool :=
  match aget (lower d) (ps_dbs ps) with Some e => pmem p (db_privs e) | None => false end.
Definition e_has_t (ps : psE) (d t : str) (p : N) : bool :=
  match aget (lower d) (ps_dbs ps) with
  | Some e => match aget (lower t) (db_tbls e) with Some te => pmem p (t_privs te) | None => false end
  | None => false
  end.

(* HasPrivileges: entries without any privilege are not serialised *)
Definition t_has_privs (te : tblE) : bool := negb (pempty (t_privs te)).
Definition db_has_privs (e : dbE) : bool := negb (pempty (db_privs e)) || existsb (fun kv => t_has_privs (snd kv)) (db_tbls e).

(* ---- serialised tree ---- *)
Record tblS : Type := mkTS { ts_name : str; ts_privs : list N }.
Record dbS : Type := mkDS { ds_name : str; ds_privs : list N; ds_tbls : list tblS }.
Record psS : Type := mkPSS { pss_g : list N; pss_dbs : list dbS }.
Record userS : Type := mkUS {
  uss_name : str; uss_host : str; uss_plugin : str; uss_auth : str; uss_locked : bool; uss_attrs : option str; uss_ps : psS }.
Record edgeS : Type := mkES { es_fh : str; es_fu : str; es_th : str; es_tu : str; es_admin : bool }.
Record mdbS : Type := mkMS { ms_users : list userS; ms_edges : list edgeS }.

Definition ser_tbl (te : tblE) : tblS := mkTS (t_name te) (t_privs te).
Definition ser_db (e : dbE) : dbS :=
  mkDS (db_name e) (db_privs e) (map (fun kv => ser_tbl (snd kv)) (filter (fun kv => t_has_privs (snd kv)) (db_tbls e))).
Definition ser_ps (ps : psE) : psS :=
  mkPSS (ps_g ps) (map (fun kv => ser_db (snd kv)) (filter (fun kv => db_has_privs (snd kv)) (ps_dbs ps))).
Definition ser_user (u : userE) : userS :=
  mkUS (us_name u) (us_host u) (us_plugin u) (us_auth u) (us_locked u) (us_attrs u) (ser_ps (us_ps u)).
Definition ser_edge (e : edgeE) : edgeS := mkES (e_fh e) (e_fu e) (e_th e) (e_tu e) (e_admin e).
Definition serialize (m : mdb) : mdbS := mkMS (map ser_user (m_users m)) (map ser_edge (m_edges m)).

(* ---- loading: maps are rebuilt with the STORED NAME as key (tables[table.Name()] = ..., databases[database.Name()] = ...),
   LoadRoleEdge reads every field including WithAdminOption (since e81e089bb) ---- *)
Definition load_tbl (t : tblS) : tblE := mkT (ts_name t) (ts_privs t).
Definition load_db (d : dbS) : dbE :=
  mkDB (ds_name d) (ds_privs d) (fold_left (fun acc t => aput (ts_name t) (load_tbl t) acc) (ds_tbls d) []).
Definition load_ps (p : psS) : psE :=
  mkPS (pss_g p) (fold_left (fun acc d => aput (ds_name d) (load_db d) acc) (pss_dbs p) []).
Definition load_user (u : userS) : userE :=
  mkU (uss_name u) (uss_host u) (uss_plugin u) (uss_auth u) (uss_locked u) (uss_attrs u) (load_ps (uss_ps u)).
Definition load_edge (e : edgeS) : edgeE := mkE (es_fh e) (es_fu e) (es_th e) (es_tu e) (es_admin e).
Definition load (s : mdbS) : mdb := mkM (map load_user (ms_users s)) (map load_edge (ms_edges s)).

Definition reload (m : mdb) : mdb := load (serialize m).

(* ---- well-formedness of a live state reachable through GRANT: key = lower(name), keys unique ---- *)
Fixpoint keys_unique {V} (m : list (str * V)) : bool :=
  match m with
  | [] => true
  | (k, _) :: m' => negb (existsb (fun kv => seqb k (fst kv)) m') && keys_unique m'
  end.

Definition tbls_wf (ts : list (str * tblE)) : bool :=
  keys_unique ts && forallb (fun kv => seqb (fst kv) (lower (t_name (snd kv)))) ts.
Definition dbs_wf (ds : list (str * dbE)) : bool :=
  keys_unique ds && forallb (fun kv => seqb (fst kv) (lower (db_name (snd kv))) && tbls_wf (db_tbls (snd kv))) ds.
Definition ps_wf (ps : psE) : bool := dbs_wf (ps_dbs ps).

(* the guard under which reloading is faithful: names are already lower case (so the stored name is the key) *)
Definition tbls_lc (ts : list (str * tblE)) : bool := forallb (fun kv => seqb (t_name (snd kv)) (lower (t_name (snd kv)))) ts.
Definition ps_lc (ps : psE) : bool :=
  forallb (fun kv => seqb (db_name (snd kv)) (lower (db_name (snd kv))) && tbls_lc (db_tbls (snd kv))) (ps_dbs ps).
