(* Model of privilege storage and checking (C39):
     sql/mysql_db/privilege_set.go  PrivilegeSet: AddGlobalStatic/AddDatabase/AddTable, RemoveGlobalStatic/
                                    RemoveDatabase/RemoveTable, ClearGlobal/ClearDatabase/ClearTable, UnionWith,
                                    Has / Database(..).Has / Table(..).Has
     sql/mysql_db/mysql_db.go       UserActivePrivilegeSet (user + every granted role), UserHasPrivileges
     sql/plan/grant.go, revoke.go   Handle{Global,Database,Table}Privileges (one Add/Remove call per privilege)
     sql/rowexec/priv.go, ddl.go    buildGrant/Revoke/GrantRole/RevokeRole/DropUser/DropRole/CreateUser/CreateRole
   Maps are association lists keyed by (lower-cased) names; privilege sets are lists of sql.PrivilegeType codes.
   Routine, column and dynamic privileges are not modelled.  Definitions only; proofs are in PrivsProofs.v. *)
From Coq Require Import List NArith Bool.
Import ListNotations.
Open Scope N_scope.

Definition str := list N.

Fixpoint seqb (a b : str) : bool :=
  match a, b with
  | [], [] => true
  | x :: a', y :: b' => (x =? y) && seqb a' b'
  | _, _ => false
  end.

(* ---- association lists (Go maps) ---- *)
Section Assoc.
  Context {V : Type}.
  Fixpoint aget (k : str) (m : list (str * V)) : option V :=
    match m with
    | [] => None
    | (k', v) :: m' => if seqb k k' then Some v else aget k m'
    end.
  Fixpoint aput (k : str) (v : V) (m : list (str * V)) : list (str * V) :=
    match m with
    | [] => [(k, v)]
    | (k', v') :: m' => if seqb k k' then (k, v) :: m' else (k', v') :: aput k v m'
    end.
  Fixpoint adel (k : str) (m : list (str * V)) : list (str * V) :=
    match m with
    | [] => []
    | (k', v') :: m' => if seqb k k' then adel k m' else (k', v') :: adel k m'
    end.
End Assoc.

(* ---- sets of privilege codes (map[sql.PrivilegeType]struct{}) ---- *)
Definition pset := list N.
Definition pmem (p : N) (s : pset) : bool := existsb (N.eqb p) s.
Definition padd (p : N) (s : pset) : pset := if pmem p s then s else p :: s.
Definition prem (p : N) (s : pset) : pset := filter (fun q => negb (q =? p)) s.
Definition punion (a b : pset) : pset := fold_right padd a b.
Definition pempty (s : pset) : bool := match s with [] => true | _ => false end.

Record dset : Type := mkD { d_privs : pset; d_tbls : list (str * pset) }.
Record privset : Type := mkP { g_privs : pset; dbs : list (str * dset) }.

Definition empty_d : dset := mkD [] [].
Definition empty_ps : privset := mkP [] [].

(* getUseableDb / Database: existing entry or a fresh empty one *)
Definition db_of (ps : privset) (d : str) : dset := match aget d (dbs ps) with Some ds => ds | None => empty_d end.
Definition tbl_of (ds : dset) (t : str) : pset := match aget t (d_tbls ds) with Some s => s | None => [] end.

Definition add_global (p : N) (ps : privset) : privset := mkP (padd p (g_privs ps)) (dbs ps).
Definition rem_global (p : N) (ps : privset) : privset := mkP (prem p (g_privs ps)) (dbs ps).
Definition clear_global (ps : privset) : privset := mkP [] (dbs ps).

Definition add_db (d : str) (p : N) (ps : privset) : privset :=
  let ds := db_of ps d in mkP (g_privs ps) (aput d (mkD (padd p (d_privs ds)) (d_tbls ds)) (dbs ps)).

(* RemoveDatabase: delete the privilege; "if len(dbSet.privs) == 0 { delete(ps.databases, db) }" -- the whole
   database entry goes, tables included *)
Definition rem_db (d : str) (p : N) (ps : privset) : privset :=
  match aget d (dbs ps) with
  | None => ps
  | Some ds =>
      let privs' := prem p (d_privs ds) in
      if pempty privs' then mkP (g_privs ps) (adel d (dbs ps))
      else mkP (g_privs ps) (aput d (mkD privs' (d_tbls ds)) (dbs ps))
  end.

(* ClearDatabase: the entry is deleted *)
Definition clear_db (d : str) (ps : privset) : privset := mkP (g_privs ps) (adel d (dbs ps)).

Definition add_tbl (d t : str) (p : N) (ps : privset) : privset :=
  let ds := db_of ps d in
  mkP (g_privs ps) (aput d (mkD (d_privs ds) (aput t (padd p (tbl_of ds t)) (d_tbls ds))) (dbs ps)).

(* RemoveTable: no entry is created or deleted *)
Definition rem_tbl (d t : str) (p : N) (ps : privset) : privset :=
  match aget d (dbs ps) with
  | None => ps
  | Some ds =>
      match aget t (d_tbls ds) with
      | None => ps
      | Some s => mkP (g_privs ps) (aput d (mkD (d_privs ds) (aput t (prem p s) (d_tbls ds))) (dbs ps))
      end
  end.

(* ClearTable: getUseableDb(d).getUseableTbl(t).clear() -- creates empty entries *)
Definition clear_tbl (d t : str) (ps : privset) : privset :=
  let ds := db_of ps d in
  mkP (g_privs ps) (aput d (mkD (d_privs ds) (aput t [] (d_tbls ds))) (dbs ps)).

Definition union_tbls (a b : list (str * pset)) : list (str * pset) :=
  fold_left (fun acc kv => aput (fst kv) (punion (match aget (fst kv) acc with Some s => s | None => [] end) (snd kv)) acc) b a.

Definition union_d (a b : dset) : dset := mkD (punion (d_privs a) (d_privs b)) (union_tbls (d_tbls a) (d_tbls b)).

Definition union_with (a b : privset) : privset :=
  mkP (punion (g_privs a) (g_privs b))
      (fold_left (fun acc kv => aput (fst kv) (union_d (match aget (fst kv) acc with Some ds => ds | None => empty_d end) (snd kv)) acc)
                 (dbs b) (dbs a)).

(* ---- checks ---- *)
Definition has_g (ps : privset) (p : N) : bool := pmem p (g_privs ps).
Definition has_d (ps : privset) (d : str) (p : N) : bool := pmem p (d_privs (db_of ps d)).
Definition has_t (ps : privset) (d t : str) (p : N) : bool := pmem p (tbl_of (db_of ps d) t).

Definition SUPER : N := 15.

(* one required privilege on (database, table); table [] for database-level subjects *)
Definition op : Type := (str * str * N)%type.

(* UserHasPrivileges on an already computed active set: SUPER short-circuit, then global / database / table *)
Definition set_has (ps : privset) (ops : list op) : bool :=
  has_g ps SUPER ||
  forallb (fun o => let '(d, t, p) := o in has_g ps p || has_d ps d p || has_t ps d t p) ops.

(* ---- facts: the abstract reading of a privilege set ---- *)
Inductive fact : Type := FG (p : N) | FD (d : str) (p : N) | FT (d t : str) (p : N).

Definition fact_eqb (a b : fact) : bool :=
  match a, b with
  | FG p, FG q => p =? q
  | FD d p, FD e q => seqb d e && (p =? q)
  | FT d t p, FT e u q => seqb d e && seqb t u && (p =? q)
  | _, _ => false
  end.

Definition holds (ps : privset) (f : fact) : bool :=
  match f with FG p => has_g ps p | FD d p => has_d ps d p | FT d t p => has_t ps d t p end.

Definition covers (f : fact) (o : op) : bool :=
  let '(d, t, p) := o in
  match f with
  | FG q => q =? p
  | FD e q => seqb e d && (q =? p)
  | FT e u q => seqb e d && seqb u t && (q =? p)
  end.

Definition fact_db (f : fact) : option str := match f with FG _ => None | FD d _ => Some d | FT d _ _ => Some d end.
Definition on_db (d : str) (f : fact) : bool := match fact_db f with Some e => seqb e d | None => false end.

(* ---- accounts, roles, statements ---- *)
Inductive level : Type := LG | LD (d : str) | LT (d t : str).

Definition add_at (l : level) (p : N) : privset -> privset :=
  match l with LG => add_global p | LD d => add_db d p | LT d t => add_tbl d t p end.
Definition rem_at (l : level) (p : N) : privset -> privset :=
  match l with LG => rem_global p | LD d => rem_db d p | LT d t => rem_tbl d t p end.
Definition clear_at (l : level) : privset -> privset :=
  match l with LG => clear_global | LD d => clear_db d | LT d t => clear_tbl d t end.

(* grantAll{Global,Database,Table}Privileges *)
Definition all_global : list N := [0;1;2;3;4;5;6;7;8;9;11;12;13;14;15;16;17;18;19;20;21;22;23;24;25;26;27;28;29;30].
Definition all_db : list N := [13;24;4;23;16;21;3;5;26;18;12;1;17;11;0;22;27;2].
Definition all_tbl : list N := [13;4;21;3;5;12;1;11;0;22;27;2].
Definition all_at (l : level) : list N := match l with LG => all_global | LD _ => all_db | LT _ _ => all_tbl end.

Inductive stmt : Type :=
| SCreate (u : str)                                 (* CREATE USER u / CREATE ROLE u *)
| SDrop (u : str)                                   (* DROP USER u / DROP ROLE u *)
| SGrant (u : str) (l : level) (ps : list N)        (* GRANT p1, p2 ON l TO u *)
| SRevoke (u : str) (l : level) (ps : list N)       (* REVOKE p1, p2 ON l FROM u *)
| SGrantAll (u : str) (l : level)                   (* GRANT ALL ON l TO u *)
| SRevokeAll (u : str) (l : level)                  (* REVOKE ALL ON l FROM u *)
| SGrantRole (r u : str)                            (* GRANT r TO u *)
| SRevokeRole (r u : str).                          (* REVOKE r FROM u *)

Record state : Type := mkS { users : list (str * privset); edges : list (str * str) }.   (* edge = (role, grantee) *)

Definition edge_eqb (a b : str * str) : bool := seqb (fst a) (fst b) && seqb (snd a) (snd b).
Definition has_user (s : state) (u : str) : bool := match aget u (users s) with Some _ => true | None => false end.

Definition upd_user (s : state) (u : str) (f : privset -> privset) : state :=
  match aget u (users s) with
  | None => s                                              (* ErrGrantUserDoesNotExist: nothing changes *)
  | Some ps => mkS (aput u (f ps) (users s)) (edges s)
  end.

Definition exec (s : state) (st : stmt) : state :=
  match st with
  | SCreate u => if has_user s u then s else mkS (aput u empty_ps (users s)) (edges s)
  | SDrop u =>
      if has_user s u
      then mkS (adel u (users s)) (filter (fun e => negb (seqb (fst e) u) && negb (seqb (snd e) u)) (edges s))
      else s
  | SGrant u l ps => upd_user s u (fun x => fold_left (fun acc p => add_at l p acc) ps x)
  | SRevoke u l ps => upd_user s u (fun x => fold_left (fun acc p => rem_at l p acc) ps x)
  | SGrantAll u l => upd_user s u (fun x => fold_left (fun acc p => add_at l p acc) (all_at l) x)
  | SRevokeAll u l => upd_user s u (clear_at l)
  | SGrantRole r u =>
      if has_user s u && has_user s r
      then mkS (users s) (filter (fun e => negb (edge_eqb e (r, u))) (edges s) ++ [(r, u)])
      else s
  | SRevokeRole r u =>
      if has_user s u && has_user s r
      then mkS (users s) (filter (fun e => negb (edge_eqb e (r, u))) (edges s))
      else s
  end.

Definition run (s : state) (h : list stmt) : state := fold_left exec h s.

Definition init : state := mkS [] [].

(* UserActivePrivilegeSet: the user's set united with the set of every role granted to it (all roles active) *)
Definition active (s : state) (u : str) : privset :=
  match aget u (users s) with
  | None => empty_ps
  | Some ps =>
      fold_left (fun acc e => if seqb (snd e) u
                              then match aget (fst e) (users s) with Some rps => union_with acc rps | None => acc end
                              else acc)
                (edges s) ps
  end.

(* allow / deny of a statement needing [ops], issued by account u *)
Definition allowed (s : state) (u : str) (ops : list op) : bool := has_user s u && set_has (active s u) ops.

(* authCheckDatabaseTableNames (database part): a database is inaccessible when the active set has no global static
   privilege and nothing at all in that database *)
Definition d_has_privileges (ds : dset) : bool :=
  negb (pempty (d_privs ds)) || existsb (fun kv => negb (pempty (snd kv))) (d_tbls ds).
Definition db_visible (ps : privset) (d : str) : bool :=
  negb (pempty (g_privs ps)) || d_has_privileges (db_of ps d).

(* a statement needing [ops] that additionally touches the databases [vis] (e.g. DELETE without WHERE is turned into
   TRUNCATE after loading the triggers of the session's current database: analyzer/process_truncate.go) *)
Definition allowed_stmt (s : state) (u : str) (ops : list op) (vis : list str) : bool :=
  allowed s u ops && forallb (db_visible (active s u)) vis.
