(* C43 -- the set model lifted from table names to every kind of object: after one statement, hence (by induction) after
   any DDL history, views / triggers / routines / foreign keys and the columns, indexes and checks of every table are
   the ones created and not dropped, with their current definition. *)
From Coq Require Import List NArith Bool Arith Lia.
Import ListNotations.
From GMS Require Import Sys.C43Catalog Sys.C43CatalogProofs.
Open Scope N_scope.

(* ---------- finding a table after list surgery ---------- *)
Definition findt (m : name) (ts : list tbl) : option tbl := find (fun t => N.eqb (tname t) m) ts.

Lemma findt_set : forall n t' ts m, tname t' = n ->
  findt m (set_tbl n t' ts) =
  if N.eqb m n then match findt n ts with Some _ => Some t' | None => None end else findt m ts.
Proof.
  intros n t' ts m Hn. unfold findt, set_tbl. induction ts as [|a r IH]; cbn.
  - destruct (N.eqb m n); reflexivity.
  - destruct (N.eqb (tname a) n) eqn:Ea.
    + rewrite Hn. apply N.eqb_eq in Ea. destruct (N.eqb m n) eqn:Em.
      * apply N.eqb_eq in Em. subst m. rewrite N.eqb_refl. reflexivity.
      * rewrite N.eqb_sym, Em. rewrite Ea, N.eqb_sym, Em. exact IH.
    + destruct (N.eqb m n) eqn:Em.
      * apply N.eqb_eq in Em. subst m. rewrite Ea. exact IH.
      * destruct (N.eqb (tname a) m); [reflexivity | exact IH].
Qed.

Lemma findt_app1 : forall ts x m,
  findt m (ts ++ [x]) = match findt m ts with Some y => Some y | None => if N.eqb (tname x) m then Some x else None end.
Proof.
  intros ts x m. unfold findt. induction ts as [|a r IH]; cbn; [reflexivity|].
  destruct (N.eqb (tname a) m); [reflexivity | exact IH].
Qed.

Lemma findt_filter : forall t ts m,
  findt m (filter (fun x => negb (N.eqb (tname x) t)) ts) = if N.eqb m t then None else findt m ts.
Proof.
  intros t ts m. unfold findt. induction ts as [|a r IH]; cbn.
  - destruct (N.eqb m t); reflexivity.
  - destruct (N.eqb (tname a) t) eqn:Ea; cbn.
    + apply N.eqb_eq in Ea. rewrite Ea. destruct (N.eqb m t) eqn:Em; [exact IH|].
      rewrite N.eqb_sym, Em. exact IH.
    + destruct (N.eqb (tname a) m) eqn:Eam; [|exact IH].
      apply N.eqb_eq in Eam. subst m. rewrite Ea. reflexivity.
Qed.

Lemma findt_none_has : forall m c, has_tbl m c = false -> find_tbl m c = None.
Proof.
  intros m c H. unfold find_tbl, has_tbl in *. induction (tables c) as [|a r IH]; [reflexivity|].
  cbn in *. destruct (N.eqb (tname a) m); [discriminate | now apply IH].
Qed.

Lemma findt_some_has : forall m c t, find_tbl m c = Some t -> has_tbl m c = true.
Proof.
  intros m c t H. destruct (has_tbl m c) eqn:E; [reflexivity|]. rewrite (findt_none_has _ _ E) in H. discriminate.
Qed.

(* one table replaced by a function of itself *)
Lemma upd_find : forall c n ok f m, (forall t, tname (f t) = tname t) ->
  find_tbl m (snd (upd c n ok f)) =
  if fst (upd c n ok f) && N.eqb m n then option_map f (find_tbl n c) else find_tbl m c.
Proof.
  intros c n ok f m Hf. unfold upd. destruct (find_tbl n c) as [t|] eqn:Ef; cbn; [|reflexivity].
  destruct (ok t); cbn; [|reflexivity].
  assert (Hn : tname (f t) = n) by (rewrite Hf; eapply find_tbl_name; eauto).
  pose proof (findt_set n (f t) (tables c) m Hn) as H. unfold findt in H. unfold find_tbl at 1. cbn [with_tables tables].
  rewrite H. unfold find_tbl in Ef. rewrite Ef. destruct (N.eqb m n); reflexivity.
Qed.

(* ---------- views, triggers, routines, foreign keys after one statement ---------- *)
Definition views_after (o : op) (c : cat) : list view :=
  match o with
  | CreateView v b cs => if fst (step o c) then views c ++ [mkview v b cs] else views c
  | DropView v => if fst (step o c) then filter (fun x => negb (N.eqb (vname x) v)) (views c) else views c
  | _ => views c
  end.
Definition trigs_after (o : op) (c : cat) : list trig :=
  match o with
  | CreateTrigger g t before ev r => if fst (step o c) then trigs c ++ [mktrig g t before ev r] else trigs c
  | DropTrigger g => if fst (step o c) then remove_first_trig g (trigs c) else trigs c
  | DropTable t => if fst (step o c) then filter (fun g => negb (N.eqb (gtable g) t)) (trigs c) else trigs c
  | _ => trigs c
  end.
Definition procs_after (o : op) (c : cat) : list proc :=
  match o with
  | CreateProc p v => if fst (step o c) then procs c ++ [mkproc p v] else procs c
  | DropProc p => if fst (step o c) then filter (fun x => negb (N.eqb (pname x) p)) (procs c) else procs c
  | _ => procs c
  end.
(* foreign keys: added, dropped (by name), dropped with their table, re-pointed by RENAME TABLE (even a rejected one
   whose source exists: the code rewrites them first), columns renamed along *)
Definition fks_after (o : op) (c : cat) : list fk :=
  match o with
  | AddFK t f cs p pcs => if fst (step o c) then fks c ++ [mkfk f t cs p pcs] else fks c
  | DropFK t f => if fst (step o c) then filter (fun g => negb (N.eqb (fname g) f)) (fks c) else fks c
  | DropTable t => if fst (step o c) then filter (fun f => negb (N.eqb (ftable f) t)) (fks c) else fks c
  | RenameTable t u =>
    if has_tbl t c then map (fun f => mkfk (fname f) (ren t u (ftable f)) (fcols f) (ren t u (fparent f)) (fpcols f)) (fks c)
    else fks c
  | RenameColumn t x y =>
    if fst (step o c)
    then map (fun f => mkfk (fname f) (ftable f) (if N.eqb (ftable f) t then map (ren x y) (fcols f) else fcols f)
                            (fparent f) (if N.eqb (fparent f) t then map (ren x y) (fpcols f) else fpcols f)) (fks c)
    else fks c
  | _ => fks c
  end.

Ltac upd_case :=
  match goal with |- context [upd ?c ?t ?ok ?f] =>
    pose proof (upd_rest c t ok f) as [Hf [Hv [Hg Hp]]]; cbn [exec]; repeat split; assumption end.

Theorem step_other_objects : forall o c,
  views (exec o c) = views_after o c /\ trigs (exec o c) = trigs_after o c /\
  procs (exec o c) = procs_after o c /\ fks (exec o c) = fks_after o c.
Proof.
  intros o c. unfold exec.
  destruct o as [t cs pk | t | t u | t s p | t x | t x y | t i cs pre uq | t i x | t i | t cs | t | t f cs p pcs | t f | t k x b | t k | v b cs | v | g t before ev r | g | p v | p];
    cbn [views_after trigs_after procs_after fks_after].
  - cbn [step]. match goal with |- context [if ?b then _ else (false, c)] => destruct b end; cbn; auto.
  - cbn [step]. match goal with |- context [if ?b then _ else (false, c)] => destruct b end; cbn; auto.
  - cbn [step]. destruct (find_tbl t c) as [x|] eqn:Ef.
    + rewrite (findt_some_has _ _ _ Ef). destruct (negb (has_tbl u c)); cbn; auto.
    + assert (Hh : has_tbl t c = false).
      { destruct (has_tbl t c) eqn:E; [|reflexivity]. unfold has_tbl in E. apply existsb_exists in E.
        destruct E as [y [Hy Hn]]. unfold find_tbl in Ef. eapply find_none in Ef; eauto; try congruence. }
      rewrite Hh. cbn. auto.
  - cbn [step]. upd_case.
  - cbn [step]. destruct (find_tbl t c) as [tb|]; [|cbn; auto]. destruct (find_col x tb); [|cbn; auto].
    destruct (fn_depends x tb); [cbn; auto|].
    match goal with |- context [if ?b then (false, _) else (true, _)] => destruct b end; cbn; auto.
  - cbn [step].
    match goal with |- context [upd c t ?ok ?f] =>
      pose proof (upd_rest c t ok f) as [Hf [Hv [Hg Hp]]]; destruct (upd c t ok f) as [[|] c'] end; cbn in *;
      repeat split; try assumption. now rewrite Hf.
  - cbn [step]. upd_case.
  - cbn [step]. upd_case.
  - cbn [step]. upd_case.
  - cbn [step]. upd_case.
  - cbn [step]. upd_case.
  - (* AddFK *)
    cbn [step]. destruct (find_tbl t c) as [tb|]; [|cbn; auto]. destruct (find_tbl p c) as [pb|]; [|cbn; auto].
    match goal with |- context [if ?b then _ else (false, c)] => destruct b end; [|cbn; auto].
    destruct (negb (fk_index_ok tb cs false None)); cbn.
    + destruct (has_idx f tb || N.eqb f PRIMARY); [cbn; auto|].
      destruct (existsb (fun g => N.eqb (fname g) f) (fks c)); cbn; [destruct (tmap tb); cbn; auto | auto].
    + destruct (existsb (fun g => N.eqb (fname g) f) (fks c)); cbn; [destruct (tmap tb); cbn; auto | auto].
  - cbn [step]. match goal with |- context [if ?b then _ else (false, c)] => destruct b end; cbn; auto.
  - cbn [step]. upd_case.
  - cbn [step]. upd_case.
  - cbn [step]. match goal with |- context [if ?b then _ else (false, c)] => destruct b end; cbn; auto.
  - cbn [step]. match goal with |- context [if ?b then _ else (false, c)] => destruct b end; cbn; auto.
  - cbn [step]. match goal with |- context [if ?b then _ else (false, c)] => destruct b end; cbn; auto.
  - cbn [step]. match goal with |- context [if ?b then _ else (false, c)] => destruct b end; cbn; auto.
  - cbn [step]. match goal with |- context [if ?b then _ else (false, c)] => destruct b end; cbn; auto.
  - cbn [step]. match goal with |- context [if ?b then _ else (false, c)] => destruct b end; cbn; auto.
Qed.

(* ---------- every table after one statement ---------- *)
Definition retitle (u : name) (x : tbl) : tbl := mktbl u (tcols x) (tpk x) (tidx x) (tchk x) (tmap x).

Lemma findt_retitle : forall t u t' ts m, tname t' = u -> findt u ts = None -> N.eqb u t = false ->
  findt m (set_tbl t t' ts) =
  if N.eqb m u then match findt t ts with Some _ => Some t' | None => None end
  else if N.eqb m t then None else findt m ts.
Proof.
  intros t u t' ts m Hu Hn Hut. unfold findt, set_tbl in *. induction ts as [|a r IH]; cbn in *.
  - destruct (N.eqb m u); [reflexivity | destruct (N.eqb m t); reflexivity].
  - destruct (N.eqb (tname a) u) eqn:Eau; [discriminate|]. specialize (IH Hn).
    destruct (N.eqb (tname a) t) eqn:Eat.
    + rewrite Hu. apply N.eqb_eq in Eat. destruct (N.eqb m u) eqn:Emu.
      * apply N.eqb_eq in Emu. subst m. rewrite N.eqb_refl. reflexivity.
      * rewrite N.eqb_sym, Emu. rewrite IH. destruct (N.eqb m t) eqn:Emt; [reflexivity|].
        rewrite Eat, N.eqb_sym, Emt. reflexivity.
    + rewrite IH. destruct (N.eqb m u) eqn:Emu.
      * apply N.eqb_eq in Emu. subst m. rewrite Eau. reflexivity.
      * destruct (N.eqb m t) eqn:Emt.
        { apply N.eqb_eq in Emt. subst m. rewrite Eat. reflexivity. }
        { destruct (N.eqb (tname a) m); reflexivity. }
Qed.

(* does a rejected DROP COLUMN get as far as dropConstraints? *)
Definition dropcol_leaks (x : name) (tb : tbl) : bool :=
  match find_col x tb with Some _ => negb (fn_depends x tb) | None => false end.

(* does ADD FOREIGN KEY leave a backing index on the child table? *)
Definition addfk_adds_index (t f : name) (cs : list name) (p : name) (pcs : list name) (c : cat) : bool :=
  match find_tbl t c, find_tbl p c with
  | Some tb, Some pb =>
    negb (isnil cs) && Nat.eqb (length cs) (length pcs) && nodupb cs && nodupb pcs
    && otys_eqb (col_types tb cs) (col_types pb pcs) && fk_index_ok pb pcs true None
    && negb (existsb (fun g => N.eqb (fname g) f && N.eqb (ftable g) t) (fks c))
    && negb (fk_index_ok tb cs false None) && negb (has_idx f tb || N.eqb f PRIMARY)
    && (negb (existsb (fun g => N.eqb (fname g) f) (fks c)) || tmap tb)
  | _, _ => false
  end.

Definition tbl_after (o : op) (c : cat) (m : name) : option tbl :=
  let acc := fst (step o c) in
  let same := find_tbl m c in
  let on t f := if acc && N.eqb m t then option_map f (find_tbl t c) else same in
  match o with
  | CreateTable t cs pk => if created o c && N.eqb m t then Some (new_table t cs pk) else same
  | DropTable t => if acc && N.eqb m t then None else same
  | RenameTable t u =>
    if acc then (if N.eqb m u then option_map (retitle u) (find_tbl t c) else if N.eqb m t then None else same) else same
  | AddColumn t s p => on t (add_col_tbl s p)
  | DropColumn t x =>
    if N.eqb m t
    then option_map (fun tb => if acc then drop_col_tbl x tb else if dropcol_leaks x tb then drop_chk_col x tb else tb) (find_tbl t c)
    else same
  | RenameColumn t x y => on t (rename_col_tbl x y)
  | CreateIndex t i cs pre uq => on t (add_idx_tbl (mkidx i cs uq t pre))
  | CreateFnIndex t i x => on t (add_fn_idx_tbl i x)
  | DropIndex t i => on t (drop_idx_full_tbl i)
  | AddPK t cs => on t (add_pk_tbl cs)
  | DropPK t => on t drop_pk_tbl
  | AddFK t f cs p pcs =>
    if addfk_adds_index t f cs p pcs c && N.eqb m t then option_map (add_idx_tbl (mkidx f cs false t [])) (find_tbl t c) else same
  | AddCheck t k x b => on t (add_chk_tbl (mkchk k x b))
  | DropCheck t k => on t (drop_chk_tbl k)
  | _ => same
  end.

Lemma find_set_same : forall c t tb f m, find_tbl t c = Some tb -> tname (f tb) = tname tb ->
  find_tbl m (with_tables c (set_tbl t (f tb) (tables c))) = if N.eqb m t then Some (f tb) else find_tbl m c.
Proof.
  intros c t tb f m Ef Hf.
  assert (Hn : tname (f tb) = t) by (rewrite Hf; eapply find_tbl_name; eauto).
  pose proof (findt_set t (f tb) (tables c) m Hn) as H. unfold findt in H. unfold find_tbl at 1. cbn [with_tables tables].
  rewrite H. unfold find_tbl in Ef. rewrite Ef. reflexivity.
Qed.

Ltac on_case := rewrite upd_find; [reflexivity | try reflexivity].

Theorem step_tables : forall o c m, find_tbl m (exec o c) = tbl_after o c m.
Proof.
  intros o c m. unfold exec, tbl_after.
  destruct o as [t cs pk | t | t u | t s p | t x | t x y | t i cs pre uq | t i x | t i | t cs | t | t f cs p pcs | t f | t k x b | t k | v b cs | v | g t before ev r | g | p v | p].
  - (* CreateTable *)
    cbn [step created].
    destruct (negb (has_tbl t c) && negb (isnil cs) && nodupb (map sname cs)
              && forallb (fun n => mem n (map sname cs)) pk && nodupb pk) eqn:E; cbn; [|reflexivity].
    rewrite !andb_true_iff in E. destruct E as [[[[E _] _] _] _]. apply negb_true_iff in E.
    pose proof (findt_app1 (tables c) (new_table t cs pk) m) as H. unfold findt in H. unfold find_tbl at 1. cbn [with_tables tables].
    rewrite H. cbn [new_table tname]. destruct (N.eqb m t) eqn:Em.
    + apply N.eqb_eq in Em. subst m. apply findt_none_has in E. unfold find_tbl in E. rewrite E, N.eqb_refl. reflexivity.
    + rewrite N.eqb_sym, Em. unfold find_tbl. destruct (find _ (tables c)); reflexivity.
  - (* DropTable *)
    cbn [step].
    destruct (has_tbl t c && forallb (trig_loads c) (trigs c)
              && negb (existsb (fun f => N.eqb (fparent f) t && negb (N.eqb (ftable f) t)) (fks c))); cbn; [|reflexivity].
    pose proof (findt_filter t (tables c) m) as H. unfold findt in H. unfold find_tbl. cbn [tables]. rewrite H.
    destruct (N.eqb m t); reflexivity.
  - (* RenameTable *)
    cbn [step]. destruct (find_tbl t c) as [x|] eqn:Ef; [|reflexivity].
    destruct (negb (has_tbl u c)) eqn:Eu; cbn; [|reflexivity].
    apply negb_true_iff in Eu.
    assert (Hut : N.eqb u t = false).
    { destruct (N.eqb u t) eqn:E; [|reflexivity]. apply N.eqb_eq in E. subst u. rewrite (findt_some_has _ _ _ Ef) in Eu. discriminate. }
    pose proof (findt_retitle t u (retitle u x) (tables c) m eq_refl) as H. unfold findt in H.
    apply findt_none_has in Eu. unfold find_tbl in *. cbn [tables]. unfold retitle in *. rewrite (H Eu Hut). rewrite Ef.
    destruct (N.eqb m u); [reflexivity | destruct (N.eqb m t); reflexivity].
  - cbn [step]. on_case.
  - (* DropColumn *)
    cbn [step]. unfold dropcol_leaks. destruct (find_tbl t c) as [tb|] eqn:Ef; cbn [fst snd option_map].
    + destruct (find_col x tb) as [cl|]; cbn [fst snd option_map].
      * destruct (fn_depends x tb); cbn [fst snd negb].
        { destruct (N.eqb m t) eqn:Em; [apply N.eqb_eq in Em; subst m; exact Ef | reflexivity]. }
        { match goal with |- context [if ?b then (false, _) else (true, _)] => destruct b end; cbn [fst snd].
          - rewrite (find_set_same c t tb (drop_chk_col x) m Ef eq_refl). destruct (N.eqb m t); reflexivity.
          - rewrite (find_set_same c t tb (drop_col_tbl x) m Ef eq_refl). destruct (N.eqb m t); reflexivity. }
      * destruct (N.eqb m t) eqn:Em; [apply N.eqb_eq in Em; subst m; exact Ef | reflexivity].
    + destruct (N.eqb m t) eqn:Em; [apply N.eqb_eq in Em; subst m; exact Ef | reflexivity].
  - (* RenameColumn *)
    cbn [step].
    match goal with |- context [upd c t ?ok ?f] =>
      pose proof (upd_find c t ok f m (fun _ => eq_refl)) as H; destruct (upd c t ok f) as [[|] c'] end; cbn in *; exact H.
  - cbn [step]. on_case.
  - cbn [step]. on_case.
  - cbn [step]. rewrite upd_find; [reflexivity|]. intros t0. unfold drop_idx_full_tbl. destruct (existsb _ _); reflexivity.
  - cbn [step]. on_case.
  - cbn [step]. on_case.
  - (* AddFK *)
    cbn [step]. unfold addfk_adds_index.
    destruct (find_tbl t c) as [tb|] eqn:Ef; [|reflexivity]. destruct (find_tbl p c) as [pb|]; [|reflexivity].
    match goal with |- context [if ?b then _ else (false, c)] => destruct b end; [|reflexivity].
    cbn [andb]. destruct (negb (fk_index_ok tb cs false None)); cbn [andb negb].
    + destruct (has_idx f tb || N.eqb f PRIMARY); cbn [fst snd negb andb]; [reflexivity|].
      destruct (existsb (fun g => N.eqb (fname g) f) (fks c)); cbn [fst snd negb orb].
      * destruct (tmap tb); cbn [fst snd]; [|reflexivity].
        rewrite (find_set_same c t tb (add_idx_tbl (mkidx f cs false t [])) m Ef eq_refl). destruct (N.eqb m t); reflexivity.
      * pose proof (find_set_same c t tb (add_idx_tbl (mkidx f cs false t [])) m Ef eq_refl) as H.
        unfold find_tbl at 1 in H. unfold find_tbl at 1. cbn [with_fks with_tables tables] in *. rewrite H.
        destruct (N.eqb m t); reflexivity.
    + destruct (existsb (fun g => N.eqb (fname g) f) (fks c)); cbn [fst snd]; [destruct (tmap tb); reflexivity | reflexivity].
  - cbn [step]. destruct (has_tbl t c && _); reflexivity.
  - cbn [step]. on_case.
  - cbn [step]. on_case.
  - cbn [step]. match goal with |- context [if ?b then _ else (false, c)] => destruct b end; reflexivity.
  - cbn [step]. destruct (has_view v c); reflexivity.
  - cbn [step]. match goal with |- context [if ?b then _ else (false, c)] => destruct b end; reflexivity.
  - cbn [step]. match goal with |- context [if ?b then _ else (false, c)] => destruct b end; reflexivity.
  - cbn [step]. match goal with |- context [if ?b then _ else (false, c)] => destruct b end; reflexivity.
  - cbn [step]. match goal with |- context [if ?b then _ else (false, c)] => destruct b end; reflexivity.
Qed.

(* ---------- columns, indexes and checks of every table after one statement ---------- *)
Definition pos_k (p : pos) (l : list col) : nat :=
  match p with PFirst => O | PLast => length l | PAfter a => S (index_of a (map cname l)) end.

Definition cols_after (o : op) (c : cat) (m : name) : option (list col) :=
  let acc := fst (step o c) in
  let same := option_map tcols (find_tbl m c) in
  let on t (g : list col -> list col) := if acc && N.eqb m t then option_map g same else same in
  match o with
  | CreateTable t cs pk => if created o c && N.eqb m t then Some (map (spec_col pk) cs) else same
  | DropTable t => if acc && N.eqb m t then None else same
  | RenameTable t u =>
    if acc then (if N.eqb m u then option_map tcols (find_tbl t c) else if N.eqb m t then None else same) else same
  | AddColumn t s p => on t (fun l => insert_at (pos_k p l) (spec_col [] s) l)
  | DropColumn t x => on t (filter (fun cl => negb (N.eqb (cname cl) x)))
  | RenameColumn t x y =>
    on t (map (fun cl => if N.eqb (cname cl) x then mkcol y (cty cl) (cnull cl) (cpk cl) (cdef cl) (ccom cl) (csrc cl) else cl))
  | CreateFnIndex t i x =>
    on t (fun l => l ++ [mkcol (hid i) 2 (match find (fun cl => N.eqb (cname cl) x) l with Some cl => cnull cl | None => true end)
                               false None 0 (Some x)])
  | DropIndex t i =>
    on t (fun l => if existsb (fun cl => negb (visible cl) && N.eqb (cname cl) (hid i)) l
                   then filter (fun cl => negb (N.eqb (cname cl) (hid i))) l else l)
  | AddPK t cs => on t (map (fun cl => if mem (cname cl) cs then mkcol (cname cl) (cty cl) false true (cdef cl) (ccom cl) (csrc cl) else cl))
  | DropPK t => on t (map (fun cl => mkcol (cname cl) (cty cl) (cnull cl) false (cdef cl) (ccom cl) (csrc cl)))
  | _ => same
  end.

Definition idx_after (o : op) (c : cat) (m : name) : option (list idx) :=
  let acc := fst (step o c) in
  let same := option_map tidx (find_tbl m c) in
  let on t (g : list idx -> list idx) := if acc && N.eqb m t then option_map g same else same in
  match o with
  | CreateTable t cs pk => if created o c && N.eqb m t then Some [] else same
  | DropTable t => if acc && N.eqb m t then None else same
  | RenameTable t u =>
    if acc then (if N.eqb m u then option_map tidx (find_tbl t c) else if N.eqb m t then None else same) else same
  | CreateIndex t i cs pre uq => on t (fun l => l ++ [mkidx i cs uq t pre])
  | CreateFnIndex t i x => on t (fun l => l ++ [mkidx i [hid i] false t []])
  | DropIndex t i => on t (filter (fun j => negb (N.eqb (iname j) i)))
  | DropColumn t x =>
    on t (fun l => filter (fun j => negb (isnil (icols j)))
                          (map (fun j => mkidx (iname j) (filter (fun y => negb (N.eqb y x)) (icols j)) (iuniq j) (itab j) (ipre j)) l))
  | RenameColumn t x y => on t (map (fun j => mkidx (iname j) (map (ren x y) (icols j)) (iuniq j) (itab j) (ipre j)))
  | AddFK t f cs p pcs => if addfk_adds_index t f cs p pcs c && N.eqb m t then option_map (fun l => l ++ [mkidx f cs false t []]) same else same
  | _ => same
  end.

Definition chk_after (o : op) (c : cat) (m : name) : option (list chk) :=
  let acc := fst (step o c) in
  let same := option_map tchk (find_tbl m c) in
  let on t (g : list chk -> list chk) := if acc && N.eqb m t then option_map g same else same in
  match o with
  | CreateTable t cs pk => if created o c && N.eqb m t then Some [] else same
  | DropTable t => if acc && N.eqb m t then None else same
  | RenameTable t u =>
    if acc then (if N.eqb m u then option_map tchk (find_tbl t c) else if N.eqb m t then None else same) else same
  | AddCheck t k x b => on t (fun l => l ++ [mkchk k x b])
  | DropCheck t k => on t (filter (fun q => negb (N.eqb (kname q) k)))
  | DropColumn t x =>
    (* the checks on the column go with it -- also when the statement is rejected after dropConstraints has run,
       and not at all on a table with a hidden system column *)
    if N.eqb m t
    then option_map (fun tb => if (acc || dropcol_leaks x tb) && negb (has_hidden tb)
                               then filter (fun q => negb (N.eqb (kcol q) x)) (tchk tb) else tchk tb) (find_tbl t c)
    else same
  | _ => same
  end.

Lemma tname_created : forall t cs pk, tname (new_table t cs pk) = t.
Proof. reflexivity. Qed.

Ltac on_proj :=
  match goal with |- context [if ?a && N.eqb ?m ?t then _ else _] =>
    let E := fresh "E" in destruct (a && N.eqb m t) eqn:E;
    [ apply andb_true_iff in E; destruct E as [_ E]; apply N.eqb_eq in E; subst m;
      match goal with |- context [find_tbl ?t ?c] => destruct (find_tbl t c) end; reflexivity
    | reflexivity ] end.

Ltac rename_proj :=
  match goal with |- context [if ?a then _ else _] => destruct a end; [|reflexivity];
  match goal with |- context [N.eqb ?m ?u] => destruct (N.eqb m u) end;
  [ match goal with |- context [find_tbl ?t ?c] => destruct (find_tbl t c) end; reflexivity
  | match goal with |- context [N.eqb ?m ?t] => destruct (N.eqb m t) end; reflexivity ].

Theorem step_columns : forall o c m, option_map tcols (find_tbl m (exec o c)) = cols_after o c m.
Proof.
  intros o c m. rewrite step_tables. unfold tbl_after, cols_after.
  destruct o as [t cs pk | t | t u | t s p | t x | t x y | t i cs pre uq | t i x | t i | t cs | t | t f cs p pcs | t f | t k x b | t k | v b cs | v | g t before ev r | g | p v | p];
    try reflexivity; try on_proj.
  - destruct (created (CreateTable t cs pk) c && N.eqb m t); reflexivity.
  - destruct (fst (step (DropTable t) c) && N.eqb m t); reflexivity.
  - rename_proj.
  - (* DropColumn *)
    destruct (fst (step (DropColumn t x) c)) eqn:Ea; cbn [andb].
    + destruct (N.eqb m t) eqn:Em; [|reflexivity]. apply N.eqb_eq in Em. subst m. destruct (find_tbl t c); reflexivity.
    + destruct (N.eqb m t) eqn:Em; [|reflexivity]. apply N.eqb_eq in Em. subst m. destruct (find_tbl t c) as [tb|]; [|reflexivity].
      cbn. destruct (dropcol_leaks x tb); reflexivity.
  - (* DropIndex *)
    destruct (fst (step (DropIndex t i) c) && N.eqb m t) eqn:E; [|reflexivity].
    apply andb_true_iff in E. destruct E as [_ E]. apply N.eqb_eq in E. subst m. destruct (find_tbl t c) as [tb|]; [|reflexivity].
    cbn. unfold drop_idx_full_tbl. cbn. destruct (existsb _ (tcols tb)); reflexivity.
Qed.

Theorem step_indexes : forall o c m, option_map tidx (find_tbl m (exec o c)) = idx_after o c m.
Proof.
  intros o c m. rewrite step_tables. unfold tbl_after, idx_after.
  destruct o as [t cs pk | t | t u | t s p | t x | t x y | t i cs pre uq | t i x | t i | t cs | t | t f cs p pcs | t f | t k x b | t k | v b cs | v | g t before ev r | g | p v | p];
    try reflexivity; try on_proj.
  - destruct (created (CreateTable t cs pk) c && N.eqb m t); reflexivity.
  - destruct (fst (step (DropTable t) c) && N.eqb m t); reflexivity.
  - rename_proj.
  - (* DropColumn *)
    destruct (fst (step (DropColumn t x) c)) eqn:Ea; cbn [andb].
    + destruct (N.eqb m t) eqn:Em; [|reflexivity]. apply N.eqb_eq in Em. subst m. destruct (find_tbl t c); reflexivity.
    + destruct (N.eqb m t) eqn:Em; [|reflexivity]. apply N.eqb_eq in Em. subst m. destruct (find_tbl t c) as [tb|]; [|reflexivity].
      cbn. destruct (dropcol_leaks x tb); reflexivity.
  - (* CreateFnIndex *)
    destruct (fst (step (CreateFnIndex t i x) c) && N.eqb m t) eqn:E; [|reflexivity].
    apply andb_true_iff in E. destruct E as [_ E]. apply N.eqb_eq in E. subst m. destruct (find_tbl t c) as [tb|] eqn:Ef; [|reflexivity].
    cbn. rewrite (find_tbl_name _ _ _ Ef). reflexivity.
  - (* DropIndex *)
    destruct (fst (step (DropIndex t i) c) && N.eqb m t) eqn:E; [|reflexivity].
    apply andb_true_iff in E. destruct E as [_ E]. apply N.eqb_eq in E. subst m. destruct (find_tbl t c) as [tb|]; [|reflexivity].
    cbn. unfold drop_idx_full_tbl. cbn. destruct (existsb _ (tcols tb)); reflexivity.
Qed.

Theorem step_checks : forall o c m, option_map tchk (find_tbl m (exec o c)) = chk_after o c m.
Proof.
  intros o c m. rewrite step_tables. unfold tbl_after, chk_after.
  destruct o as [t cs pk | t | t u | t s p | t x | t x y | t i cs pre uq | t i x | t i | t cs | t | t f cs p pcs | t f | t k x b | t k | v b cs | v | g t before ev r | g | p v | p];
    try reflexivity; try on_proj.
  - destruct (created (CreateTable t cs pk) c && N.eqb m t); reflexivity.
  - destruct (fst (step (DropTable t) c) && N.eqb m t); reflexivity.
  - rename_proj.
  - (* DropColumn *)
    destruct (N.eqb m t) eqn:Em; [|reflexivity]. apply N.eqb_eq in Em. subst m.
    remember (fst (step (DropColumn t x) c)) as acc eqn:Heq. clear Heq.
    destruct (find_tbl t c) as [tb|]; [|reflexivity]. cbn [option_map]. f_equal.
    destruct acc; cbn [orb andb].
    + unfold drop_col_tbl; cbn [tchk]. destruct (has_hidden tb); reflexivity.
    + destruct (dropcol_leaks x tb); cbn [andb]; [|reflexivity]. unfold drop_chk_col; cbn [tchk]. destruct (has_hidden tb); reflexivity.
  - (* DropIndex *)
    destruct (fst (step (DropIndex t i) c) && N.eqb m t) eqn:E; [|reflexivity].
    apply andb_true_iff in E. destruct E as [_ E]. apply N.eqb_eq in E. subst m. destruct (find_tbl t c) as [tb|]; [|reflexivity].
    cbn. unfold drop_idx_full_tbl. cbn. destruct (existsb _ (tcols tb)); reflexivity.
Qed.

(* ---------- by induction over histories: what exists after h ++ [o] is what the set model makes of what exists after h ---------- *)
Lemma run_snoc : forall h o c, run (h ++ [o]) c = exec o (run h c).
Proof. intros h o c. unfold run. rewrite fold_left_app. reflexivity. Qed.

Theorem history_other_objects : forall h o,
  views (run (h ++ [o]) empty) = views_after o (run h empty) /\
  trigs (run (h ++ [o]) empty) = trigs_after o (run h empty) /\
  procs (run (h ++ [o]) empty) = procs_after o (run h empty) /\
  fks (run (h ++ [o]) empty) = fks_after o (run h empty).
Proof. intros h o. rewrite run_snoc. apply step_other_objects. Qed.

Theorem history_table_objects : forall h o m,
  option_map tcols (find_tbl m (run (h ++ [o]) empty)) = cols_after o (run h empty) m /\
  option_map tidx (find_tbl m (run (h ++ [o]) empty)) = idx_after o (run h empty) m /\
  option_map tchk (find_tbl m (run (h ++ [o]) empty)) = chk_after o (run h empty) m.
Proof. intros h o m. rewrite run_snoc. split; [apply step_columns | split; [apply step_indexes | apply step_checks]]. Qed.

Theorem history_starts_empty :
  views (run [] empty) = [] /\ trigs (run [] empty) = [] /\ procs (run [] empty) = [] /\ fks (run [] empty) = [] /\
  forall m, find_tbl m (run [] empty) = None.
Proof. repeat split. Qed.

(* the ordinal gap: a column added after a functional index is listed with a position that skips the hidden column *)
Definition h_gap : list op :=
  [CreateTable 1 [mkcs 10 1 true None 0; mkcs 11 1 true None 0] []; CreateFnIndex 1 50 10; AddColumn 1 (mkcs 12 1 true None 0) PLast].
Lemma ordinal_gap :
  option_map (fun t => map (fun r => (nth 1 r 0, nth 2 r 0)) (table_columns_rows t)) (find_tbl 1 (run h_gap empty))
  = Some [(10, 1); (11, 2); (12, 4)].
Proof. vm_compute. reflexivity. Qed.

(* SHOW CREATE TABLE's key part order against STATISTICS once a functional index exists *)
Definition h_pkorder : list op :=
  [CreateTable 1 [mkcs 10 1 false None 0; mkcs 11 1 false None 0] [11; 10]; CreateFnIndex 1 50 10].
Lemma pk_order_disagrees :
  show_create_pk (run (removelast h_pkorder) empty) 1 = Some [11; 10] /\
  show_create_pk (run h_pkorder empty) 1 = Some [10; 11] /\
  option_map pk_cols (find_tbl 1 (run h_pkorder empty)) = Some [11; 10].
Proof. repeat split; vm_compute; reflexivity. Qed.
