(* C37 (reused by C36) — model of /repo/processlist.go (package sqle, type ProcessList).

   Every method of ProcessList runs with pl.mu held, so one method call is one atomic step of a state
   machine; the only exception is AddConnection, which bumps Threads_connected BEFORE it takes the mutex:
   it is modelled as two atomic steps (EAddInc, EAddIns).  The state mirrors the Go fields:
     procs      map[uint32]*sql.Process      -> sorted association list conn -> proc
     byQueryPid map[uint64]uint32            -> association list pid -> conn
     sql.StatusVariables "Threads_connected" / "Threads_running" (atomic.Uint64, Increment(uint64(int)))
                                             -> integers tc / tr (observed modulo 2^64)
     the context.CancelFunc stored in Process.Kill -> the id of the context it cancels; contexts are
     numbered in creation order (next), the cancelled ones are collected in [cancelled].
   Strings (host, user, database, query text) are opaque tokens (N); the token 0 of a query is "".
   Progress maps and StartedAt are not modelled. *)
From Coq Require Import List NArith ZArith Bool.
Import ListNotations.
Open Scope N_scope.

(* ---------- association lists keyed by N (kept strictly ascending by [upd]) ---------- *)
Section AMap.
  Context {V : Type}.

  Fixpoint lookup (l : list (N * V)) (k : N) : option V :=
    match l with
    | [] => None
    | (k', v) :: r => if N.eqb k k' then Some v else lookup r k
    end.

  Fixpoint upd (k : N) (v : V) (l : list (N * V)) : list (N * V) :=
    match l with
    | [] => [(k, v)]
    | (k', v') :: r =>
        if N.ltb k' k then (k', v') :: upd k v r
        else if N.eqb k k' then (k, v) :: r
        else (k, v) :: (k', v') :: r
    end.

  Fixpoint del (k : N) (l : list (N * V)) : list (N * V) :=
    match l with
    | [] => []
    | (k', v') :: r => if N.eqb k k' then del k r else (k', v') :: del k r
    end.

  Definition b2z (b : bool) : Z := if b then 1%Z else 0%Z.

  (* number of bindings whose value satisfies f *)
  Fixpoint cnt (f : V -> bool) (l : list (N * V)) : Z :=
    match l with
    | [] => 0%Z
    | (_, v) :: r => (b2z (f v) + cnt f r)%Z
    end.

  Definition optcnt (f : V -> bool) (o : option V) : Z :=
    match o with Some v => b2z (f v) | None => 0%Z end.
End AMap.

Fixpoint memN (k : N) (l : list N) : bool :=
  match l with [] => false | x :: r => N.eqb k x || memN k r end.

(* ---------- the Go data ---------- *)
Inductive command := CConnect | CSleep | CQuery.

Definition command_eqb (a b : command) : bool :=
  match a, b with
  | CConnect, CConnect | CSleep, CSleep | CQuery, CQuery => true
  | _, _ => false
  end.

Record proc := mkProc {
  p_conn : N;            (* Process.Connection *)
  p_cmd : command;       (* Process.Command *)
  p_host : N;            (* Process.Host *)
  p_user : N;            (* Process.User; 0 = "unauthenticated user" *)
  p_db : N;              (* Process.Database; 0 = "" *)
  p_query : N;           (* Process.Query; 0 = "" *)
  p_qpid : N;            (* Process.QueryPid *)
  p_kill : option N      (* Process.Kill: None = nil, Some k = cancel func of context k *)
}.

Record state := mkState {
  procs : list (N * proc);
  byq : list (N * N);
  tc : Z;                (* Threads_connected *)
  tr : Z;                (* Threads_running *)
  cancelled : list N;    (* contexts whose cancel func has been called *)
  next : N               (* id of the next context to be created *)
}.

Definition init : state := mkState [] [] 0 0 [] 0.

Inductive event :=
| EAddInc (c : N)                   (* AddConnection, first half: IncrementGlobal("Threads_connected", 1) *)
| EAddIns (c host : N)              (* AddConnection, second half (under mu): procs[id] = &Process{Connect,...} *)
| EReady (c host user db : N)       (* ConnectionReady(sess) *)
| ERemove (c : N)                   (* RemoveConnection(connID) *)
| EBeginQ (c pid q : N)             (* BeginQuery(ctx{Session.ID()=c, Pid()=pid}, q) *)
| EEndQ (c pid : N)                 (* EndQuery(ctx{c, pid}) *)
| EBeginOp (c : N)                  (* BeginOperation(ctx{c}) *)
| EEndOp (c : N)                    (* EndOperation(ctx{c}) *)
| EKill (c : N).                    (* Kill(connID) *)

Inductive outcome :=
| ODone
| OCtx (k : N)           (* returned the new context k, nil error *)
| OErrNotRegistered      (* "internal error: connection not registered with process list" *)
| OErrPidUsed            (* sql.ErrPidAlreadyUsed *)
| OErrOpRunning          (* "attempt to begin operation on connection which was already running one" *)
| OPanic.                (* call of a nil func value (p.Kill() with Kill == nil) *)

Definition conn_of (e : event) : N :=
  match e with
  | EAddInc c | EAddIns c _ | EReady c _ _ _ | ERemove c | EBeginQ c _ _ | EEndQ c _
  | EBeginOp c | EEndOp c | EKill c => c
  end.

(* calling a context.CancelFunc: idempotent *)
Definition cancel (k : N) (l : list N) : list N := if memN k l then l else k :: l.
Definition cancel_opt (o : option N) (l : list N) : list N :=
  match o with Some k => cancel k l | None => l end.

Definition set_kill (p : proc) (k : option N) : proc :=
  mkProc (p_conn p) (p_cmd p) (p_host p) (p_user p) (p_db p) (p_query p) (p_qpid p) k.

Definition step (s : state) (e : event) : state * outcome :=
  match e with
  | EAddInc c =>
      (mkState (procs s) (byq s) (tc s + 1) (tr s) (cancelled s) (next s), ODone)
  | EAddIns c h =>
      (mkState (upd c (mkProc c CConnect h 0 0 0 0 None) (procs s)) (byq s) (tc s) (tr s) (cancelled s) (next s), ODone)
  | EReady c h u d =>
      (mkState (upd c (mkProc c CSleep h u d 0 0 None) (procs s)) (byq s) (tc s) (tr s) (cancelled s) (next s), ODone)
  | ERemove c =>
      match lookup (procs s) c with
      | None => (s, ODone)
      | Some p =>
          (mkState (del c (procs s)) (del (p_qpid p) (byq s)) (tc s - 1) (tr s)
                   (cancel_opt (p_kill p) (cancelled s)) (next s), ODone)
      end
  | EBeginQ c pid q =>
      (* Threads_running is incremented before the two error returns *)
      let s1 := mkState (procs s) (byq s) (tc s) (tr s + 1) (cancelled s) (next s) in
      match lookup (procs s) c with
      | None => (s1, OErrNotRegistered)
      | Some p =>
          match lookup (byq s) pid with
          | Some _ => (s1, OErrPidUsed)
          | None =>
              let k := next s in
              (mkState (upd c (mkProc (p_conn p) CQuery (p_host p) (p_user p) (p_db p) q pid (Some k)) (procs s))
                       (upd pid c (byq s)) (tc s) (tr s + 1) (cancelled s) (k + 1), OCtx k)
          end
      end
  | EEndQ c pid =>
      let bq := del pid (byq s) in
      match lookup (procs s) c with
      | None => (mkState (procs s) bq (tc s) (tr s) (cancelled s) (next s), ODone)
      | Some p =>
          if N.eqb (p_qpid p) pid then
            match p_kill p with
            | Some k =>
                (mkState (upd c (mkProc (p_conn p) CSleep (p_host p) (p_user p) (p_db p) 0 0 None) (procs s))
                         bq (tc s) (tr s - 1) (cancel k (cancelled s)) (next s), ODone)
            | None =>
                (* p.Kill() on a nil func panics after Command/Query were reset; Kill, QueryPid keep their values *)
                (mkState (upd c (mkProc (p_conn p) CSleep (p_host p) (p_user p) (p_db p) 0 (p_qpid p) None) (procs s))
                         bq (tc s) (tr s - 1) (cancelled s) (next s), OPanic)
            end
          else (mkState (procs s) bq (tc s) (tr s) (cancelled s) (next s), ODone)
      end
  | EBeginOp c =>
      match lookup (procs s) c with
      | None => (s, OErrNotRegistered)
      | Some p =>
          match p_kill p with
          | Some _ => (s, OErrOpRunning)
          | None =>
              let k := next s in
              (mkState (upd c (set_kill p (Some k)) (procs s)) (byq s) (tc s) (tr s) (cancelled s) (k + 1), OCtx k)
          end
      end
  | EEndOp c =>
      match lookup (procs s) c with
      | None => (s, ODone)
      | Some p =>
          match p_kill p with
          | None => (s, ODone)
          | Some k =>
              (mkState (upd c (set_kill p None) (procs s)) (byq s) (tc s) (tr s) (cancel k (cancelled s)) (next s), ODone)
          end
      end
  | EKill c =>
      match lookup (procs s) c with
      | None => (s, ODone)
      | Some p =>
          (mkState (procs s) (byq s) (tc s) (tr s) (cancel_opt (p_kill p) (cancelled s)) (next s), ODone)
      end
  end.

Definition run (s : state) (es : list event) : state := fold_left (fun s e => fst (step s e)) es s.

(* run and keep every intermediate (state, outcome) *)
Fixpoint trace (s : state) (es : list event) : list (state * outcome) :=
  match es with
  | [] => []
  | e :: r => let so := step s e in so :: trace (fst so) r
  end.

Definition is_query (p : proc) : bool := command_eqb (p_cmd p) CQuery.
Definition anyv {V} (_ : V) : bool := true.

(* what Processes() shows: one entry per binding, ascending by connection id *)
Definition processes (s : state) : list proc := map snd (procs s).

(* ---------- the specification: what the event history says about sessions ----------
   A connection is Pending between the two halves of AddConnection, then Idle, inside an
   operation bracket, or running the query (pid, text).  [sstep] is partial: it is defined exactly on the
   events that the discipline of server/context.go and server/handler.go allows next:
     AddConnection; ConnectionReady any number of times (outside a query; SetDB calls it inside an
     operation bracket); non-nested BeginOperation..EndOperation and BeginQuery..EndQuery brackets;
     query pids non-zero and never reused; EndQuery may be repeated for a query that has ended
     (plan.AddTrackedRowIter's callback and the handler's deferred call both fire);
     RemoveConnection only when idle; Kill at any time for any id. *)
Inductive sphase := SPending | SIdle | SOp | SQuery (pid q : N).

Record spec := mkSpec { sess : list (N * sphase); used : list N }.

Definition sinit : spec := mkSpec [] [].

Definition runs_pid (pid : N) (ph : sphase) : bool :=
  match ph with SQuery p _ => N.eqb p pid | _ => false end.
Definition is_squery (ph : sphase) : bool := match ph with SQuery _ _ => true | _ => false end.
Definition is_pending (ph : sphase) : bool := match ph with SPending => true | _ => false end.
Definition is_connected (ph : sphase) : bool := negb (is_pending ph).

Definition live_pid (g : spec) (pid : N) : bool := existsb (fun kv => runs_pid pid (snd kv)) (sess g).

Definition sstep (g : spec) (e : event) : option spec :=
  match e with
  | EAddInc c =>
      match lookup (sess g) c with
      | None => Some (mkSpec (upd c SPending (sess g)) (used g))
      | Some _ => None
      end
  | EAddIns c _ =>
      match lookup (sess g) c with
      | Some SPending => Some (mkSpec (upd c SIdle (sess g)) (used g))
      | _ => None
      end
  | EReady c _ _ _ =>
      match lookup (sess g) c with
      | Some SIdle | Some SOp => Some g
      | _ => None
      end
  | ERemove c =>
      match lookup (sess g) c with
      | Some SIdle => Some (mkSpec (del c (sess g)) (used g))
      | _ => None
      end
  | EBeginQ c pid q =>
      match lookup (sess g) c with
      | Some SIdle =>
          if N.eqb pid 0 || memN pid (used g) then None
          else Some (mkSpec (upd c (SQuery pid q) (sess g)) (pid :: used g))
      | _ => None
      end
  | EEndQ c pid =>
      match lookup (sess g) c with
      | Some (SQuery p q) =>
          if N.eqb p pid then Some (mkSpec (upd c SIdle (sess g)) (used g))
          else if negb (N.eqb pid 0) && memN pid (used g) && negb (live_pid g pid) then Some g else None
      | _ =>
          if negb (N.eqb pid 0) && memN pid (used g) && negb (live_pid g pid) then Some g else None
      end
  | EBeginOp c =>
      match lookup (sess g) c with
      | Some SIdle => Some (mkSpec (upd c SOp (sess g)) (used g))
      | _ => None
      end
  | EEndOp c =>
      match lookup (sess g) c with
      | Some SOp => Some (mkSpec (upd c SIdle (sess g)) (used g))
      | _ => None
      end
  | EKill _ => Some g
  end.

Fixpoint srun (g : spec) (es : list event) : option spec :=
  match es with
  | [] => Some g
  | e :: r => match sstep g e with Some g' => srun g' r | None => None end
  end.

(* the discipline: the whole history is accepted by the specification *)
Definition well_formed (es : list event) : Prop := exists g, srun sinit es = Some g.
