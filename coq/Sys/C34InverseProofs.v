(* C34 -- inverse-pair theorems: FROM_BASE64 o TO_BASE64, positional numbers (CONV), INET_ATON / INET_NTOA. *)
From Coq Require Import List NArith ZArith Bool Lia Arith.
Import ListNotations.
From GMS Require Import Sys.C34Funcs Sys.C34FuncsProofs.
Open Scope Z_scope.

(* ================================================================= base64 *)
Lemma b64_arith : forall a b c : N, (a < 256 -> b < 256 -> c < 256 ->
  a / 4 < 64 /\ (a mod 4) * 16 + b / 16 < 64 /\ (b mod 16) * 4 + c / 64 < 64 /\ c mod 64 < 64 /\
  (a / 4 * 4 + ((a mod 4) * 16 + b / 16) / 16) mod 256 = a /\
  ((((a mod 4) * 16 + b / 16) mod 16) * 16 + ((b mod 16) * 4 + c / 64) / 4) mod 256 = b /\
  ((((b mod 16) * 4 + c / 64) mod 4) * 64 + c mod 64) mod 256 = c)%N.
Proof. intros. repeat split; zify; Z.to_euclidean_division_equations; lia. Qed.

Lemma b64_char_neq61 i : (i < 64)%N -> (b64_char i =? 61)%N = false.
Proof. intros H. apply N.eqb_neq. apply (b64_char_not_special i H). Qed.

(* induction three elements at a time *)
Lemma list_ind3 {A} (P : list A -> Prop) :
  P [] -> (forall a, P [a]) -> (forall a b, P [a; b]) -> (forall a b c r, P r -> P (a :: b :: c :: r)) ->
  forall l, P l.
Proof.
  intros H0 H1 H2 H3 l. enough (P l /\ (forall a, P (a :: l)) /\ (forall a b, P (a :: b :: l))) by tauto.
  induction l as [|x l IH]; [auto|]. destruct IH as (IH0 & IH1 & IH2). repeat split; auto.
Qed.

Lemma b64_decode_encode bs : is_bytes bs -> b64_decode_q (b64_encode bs) = Some bs.
Proof.
  induction bs as [|a|a b|a b c r IH] using list_ind3; intros Hb.
  - reflexivity.
  - inversion Hb as [|? ? Ha _]; subst.
    destruct (b64_arith a 0 0 Ha ltac:(lia) ltac:(lia)) as (H1 & H2 & _ & _ & E1 & _).
    cbn [b64_encode b64_decode_q]. change (61 =? 61)%N with true. cbv iota.
    rewrite N.div_0_l, N.add_0_r in * by lia.
    rewrite (b64_val_char _ H1), (b64_val_char _ H2). rewrite E1. reflexivity.
  - inversion Hb as [|? ? Ha Hb']; subst. inversion Hb' as [|? ? Hbb _]; subst.
    destruct (b64_arith a b 0 Ha Hbb ltac:(lia)) as (H1 & H2 & H3 & _ & E1 & E2 & _).
    cbn [b64_encode b64_decode_q]. change (61 =? 61)%N with true. cbv iota.
    rewrite N.div_0_l, N.add_0_r in * by lia.
    rewrite (b64_char_neq61 _ H3). rewrite (b64_val_char _ H1), (b64_val_char _ H2), (b64_val_char _ H3).
    rewrite E1, E2. reflexivity.
  - inversion Hb as [|? ? Ha Hb1]; subst. inversion Hb1 as [|? ? Hbb Hb2]; subst. inversion Hb2 as [|? ? Hc Hr]; subst.
    destruct (b64_arith a b c Ha Hbb Hc) as (H1 & H2 & H3 & H4 & E1 & E2 & E3).
    cbn [b64_encode b64_decode_q]. rewrite (b64_char_neq61 _ H4).
    rewrite (b64_val_char _ H1), (b64_val_char _ H2), (b64_val_char _ H3), (b64_val_char _ H4), (IH Hr).
    rewrite E1, E2, E3. reflexivity.
Qed.

(* the encoding never contains line breaks *)
Definition no_nl (s : list N) : Prop := Forall (fun c => c <> 10%N /\ c <> 13%N) s.
Lemma no_nl_char i : (i < 64)%N -> b64_char i <> 10%N /\ b64_char i <> 13%N.
Proof. intros H. destruct (b64_char_not_special i H) as (_ & ? & ?). auto. Qed.
Lemma no_nl_61 : (61 <> 10 /\ 61 <> 13)%N.
Proof. split; discriminate. Qed.

Lemma b64_encode_no_nl bs : is_bytes bs -> no_nl (b64_encode bs).
Proof.
  induction bs as [|a|a b|a b c r IH] using list_ind3; intros Hb.
  - constructor.
  - inversion Hb as [|? ? Ha _]; subst.
    destruct (b64_arith a 0 0 Ha ltac:(lia) ltac:(lia)) as (H1 & H2 & _).
    cbn [b64_encode]. rewrite N.div_0_l, N.add_0_r in * by lia.
    repeat constructor; try apply no_nl_char; try discriminate; assumption.
  - inversion Hb as [|? ? Ha Hb']; subst. inversion Hb' as [|? ? Hbb _]; subst.
    destruct (b64_arith a b 0 Ha Hbb ltac:(lia)) as (H1 & H2 & H3 & _).
    cbn [b64_encode]. rewrite N.div_0_l, N.add_0_r in * by lia.
    repeat constructor; try apply no_nl_char; try discriminate; assumption.
  - inversion Hb as [|? ? Ha Hb1]; subst. inversion Hb1 as [|? ? Hbb Hb2]; subst. inversion Hb2 as [|? ? Hc Hr]; subst.
    destruct (b64_arith a b c Ha Hbb Hc) as (H1 & H2 & H3 & H4 & _).
    cbn [b64_encode]. repeat (constructor; [apply no_nl_char; assumption|]). apply IH. exact Hr.
Qed.

Lemma strip_nl_id s : no_nl s -> strip_nl s = s.
Proof.
  induction 1 as [|c s [H1 H2] _ IH]; [reflexivity|]. unfold strip_nl in *. cbn [filter].
  replace (c =? 10)%N with false by (symmetry; apply N.eqb_neq; assumption).
  replace (c =? 13)%N with false by (symmetry; apply N.eqb_neq; assumption). cbn [orb negb]. now rewrite IH.
Qed.
Lemma strip_nl_app a b : strip_nl (a ++ b) = strip_nl a ++ strip_nl b.
Proof. unfold strip_nl. apply filter_app. Qed.
Lemma no_nl_app a b : no_nl (a ++ b) -> no_nl a /\ no_nl b.
Proof. unfold no_nl. intros H. apply Forall_app in H. exact H. Qed.

(* inserting a newline after every 76 characters is undone by the decoder's skipping *)
Lemma strip_wrap76 fuel : forall s, no_nl s -> strip_nl (wrap76 fuel s) = s.
Proof.
  induction fuel as [|k IH]; intros s Hs; cbn [wrap76]; [apply strip_nl_id; exact Hs|].
  destruct (len s <=? 76); [apply strip_nl_id; exact Hs|].
  rewrite <- (take_drop 76 s) in Hs. apply no_nl_app in Hs. destruct Hs as [H1 H2].
  rewrite strip_nl_app. rewrite (strip_nl_id _ H1).
  change (10%N :: wrap76 k (drop 76 s)) with ([10%N] ++ wrap76 k (drop 76 s)). rewrite strip_nl_app.
  rewrite (IH _ H2). change (strip_nl [10%N]) with (@nil N). cbn [app]. apply take_drop.
Qed.

Theorem from_to_base64 bs : is_bytes bs -> from_base64_bytes (to_base64_bytes bs) = Some bs.
Proof.
  intros Hb. unfold from_base64_bytes, to_base64_bytes. rewrite strip_wrap76 by (apply b64_encode_no_nl; exact Hb).
  apply b64_decode_encode. exact Hb.
Qed.

(* ================================================================= positional numbers *)
Fixpoint le_val (b : Z) (ds : list Z) : Z := match ds with [] => 0 | d :: r => d + b * le_val b r end.

Lemma le_digits_val fuel : forall b n, 2 <= b -> 0 <= n < 2 ^ Z.of_nat fuel -> le_val b (le_digits fuel b n) = n.
Proof.
  induction fuel as [|k IH]; intros b n Hb Hn.
  - cbn in Hn. assert (n = 0) by lia. subst. reflexivity.
  - cbn [le_digits le_val]. pose proof (Z.div_mod n b ltac:(lia)) as Hdm.
    pose proof (Z.mod_pos_bound n b ltac:(lia)) as Hm.
    destruct (n / b =? 0) eqn:E.
    + apply Z.eqb_eq in E. cbn [le_val]. lia.
    + apply Z.eqb_neq in E. rewrite IH; [lia|lia|].
      rewrite Nat2Z.inj_succ, Z.pow_succ_r in Hn by lia.
      split; [apply Z.div_pos; lia|]. apply Z.div_lt_upper_bound; [lia|]. nia.
Qed.

Lemma le_digits_range fuel : forall b n d, 2 <= b -> 0 <= n -> In d (le_digits fuel b n) -> 0 <= d < b.
Proof.
  induction fuel as [|k IH]; intros b n d Hb Hn Hin; [destruct Hin|].
  cbn [le_digits] in Hin. destruct Hin as [<-|Hin]; [apply Z.mod_pos_bound; lia|].
  destruct (n / b =? 0); [destruct Hin|]. apply (IH b (n / b)); auto. apply Z.div_pos; lia.
Qed.

Lemma le_digits_len_mono fuel : forall b n m, 2 <= b -> 0 <= n <= m ->
  (length (le_digits fuel b n) <= length (le_digits fuel b m))%nat.
Proof.
  induction fuel as [|k IH]; intros b n m Hb Hnm; [reflexivity|]. cbn [le_digits length].
  assert (Hdiv : 0 <= n / b <= m / b) by (split; [apply Z.div_pos; lia|apply Z.div_le_mono; lia]).
  destruct (n / b =? 0) eqn:E1; destruct (m / b =? 0) eqn:E2; cbn [length].
  - lia.
  - apply le_n_S. apply Nat.le_0_l.
  - apply Z.eqb_eq in E2. apply Z.eqb_neq in E1. lia.
  - apply le_n_S. apply IH; lia.
Qed.

Lemma le_digits_nonempty b n : le_digits 64 b n <> [].
Proof. cbn [le_digits]. discriminate. Qed.

Lemma digit_val_char d : 0 <= d < 36 -> digit_val (digit_char d) = Some d.
Proof.
  intros H. assert (E : forallb (fun d => match digit_val (digit_char d) with Some x => x =? d | None => false end)
                           (map Z.of_nat (seq 0 36)) = true) by (vm_compute; reflexivity).
  rewrite forallb_forall in E. specialize (E d).
  assert (Hin : In d (map Z.of_nat (seq 0 36))).
  { apply in_map_iff. exists (Z.to_nat d). split; [lia|]. apply in_seq. lia. }
  specialize (E Hin). destruct (digit_val (digit_char d)); [|discriminate]. apply Z.eqb_eq in E. now subst.
Qed.

Lemma digit_char_not_sign d : 0 <= d < 36 -> digit_char d <> 45%N /\ digit_char d <> 43%N /\ digit_char d <> 46%N.
Proof.
  intros H. assert (E : forallb (fun d => negb (digit_char d =? 45)%N && negb (digit_char d =? 43)%N && negb (digit_char d =? 46)%N)
                           (map Z.of_nat (seq 0 36)) = true) by (vm_compute; reflexivity).
  rewrite forallb_forall in E. specialize (E d).
  assert (Hin : In d (map Z.of_nat (seq 0 36))).
  { apply in_map_iff. exists (Z.to_nat d). split; [lia|]. apply in_seq. lia. }
  specialize (E Hin). apply andb_prop in E. destruct E as [E E3]. apply andb_prop in E. destruct E as [E1 E2].
  apply negb_true_iff in E1, E2, E3. apply N.eqb_neq in E1, E2, E3. auto.
Qed.

(* big-endian value *)
Definition be_val (b : Z) (ds : list Z) : Z := fold_left (fun a d => a * b + d) ds 0.
Lemma fold_be b ds : forall acc, fold_left (fun a d => a * b + d) ds acc = acc * b ^ len ds + fold_left (fun a d => a * b + d) ds 0.
Proof.
  induction ds as [|d r IH]; intros acc.
  - cbn. unfold len. cbn. lia.
  - cbn [fold_left]. rewrite IH. rewrite (IH (0 * b + d)). rewrite len_cons.
    rewrite Z.pow_add_r by (pose proof (len_nonneg r); lia). ring.
Qed.
Lemma be_val_rev b ds : be_val b (rev ds) = le_val b ds.
Proof.
  unfold be_val. induction ds as [|d r IH]; [reflexivity|].
  cbn [rev le_val]. rewrite fold_left_app. cbn [fold_left]. rewrite IH. ring.
Qed.

(* the prefix loop reads a whole digit string when its value stays below 2^64 *)
Lemma parse_prefix_digits b : 2 <= b <= 36 -> forall ds acc,
  (forall d, In d ds -> 0 <= d < b) -> 0 <= acc ->
  acc * b ^ len ds + be_val b ds < 2 ^ 64 ->
  parse_prefix b (map digit_char ds) acc = acc * b ^ len ds + be_val b ds.
Proof.
  intros Hb ds. induction ds as [|d r IH]; intros acc Hd Hacc Hlt.
  - cbn. unfold len, be_val. cbn. lia.
  - assert (Hdr : 0 <= d < b) by (apply Hd; now left).
    assert (Hr : forall x, In x r -> 0 <= x < b) by (intros x Hx; apply Hd; now right).
    cbn [map parse_prefix]. rewrite digit_val_char by lia.
    unfold be_val in *. cbn [fold_left] in *. rewrite (fold_be b r (0 * b + d)) in *.
    rewrite len_cons in *. pose proof (len_nonneg r) as Hl.
    rewrite Z.pow_add_r in * by lia. rewrite Z.pow_1_r in *.
    assert (Hp : 1 <= b ^ len r) by (pose proof (Z.pow_pos_nonneg b (len r) ltac:(lia) Hl); lia).
    assert (Hv : 0 <= fold_left (fun a d => a * b + d) r 0).
    { clear -Hr Hb. assert (G : forall a, 0 <= a -> 0 <= fold_left (fun a d => a * b + d) r a).
      { induction r as [|x r IH]; intros a Ha; [exact Ha|]. cbn [fold_left]. apply IH.
        - intros y Hy. apply Hr. now right.
        - specialize (Hr x ltac:(now left)). nia. }
      apply G. lia. }
    replace (d <? b) with true by (symmetry; apply Z.ltb_lt; lia).
    replace (acc * b + d <? 2 ^ 64) with true by (symmetry; apply Z.ltb_lt; nia). cbn [andb].
    rewrite IH; [ring|exact Hr|nia|nia].
Qed.

Lemma fmt_uint_parse b n : 2 <= b <= 36 -> 0 <= n < 2 ^ 64 -> parse_prefix b (fmt_uint b n) 0 = n.
Proof.
  intros Hb Hn. unfold fmt_uint.
  assert (Hd : forall d, In d (rev (le_digits 64 b n)) -> 0 <= d < b).
  { intros d Hd. apply in_rev in Hd. apply (le_digits_range 64 b n); lia || assumption. }
  assert (Hv : be_val b (rev (le_digits 64 b n)) = n).
  { rewrite be_val_rev. apply le_digits_val; [lia|]. exact Hn. }
  rewrite parse_prefix_digits; try assumption; try lia.
Qed.

Lemma len_map {A B} (f : A -> B) l : len (map f l) = len l.
Proof. unfold len. now rewrite map_length. Qed.

Lemma fmt_uint_len_mono b n m : 2 <= b -> 0 <= n <= m -> len (fmt_uint b n) <= len (fmt_uint b m).
Proof.
  intros Hb H. unfold fmt_uint. rewrite !len_map, !len_rev. unfold len.
  apply inj_le. apply le_digits_len_mono; assumption.
Qed.

Lemma fmt_uint_head b n : 2 <= b <= 36 -> 0 <= n ->
  exists c r, fmt_uint b n = c :: r /\ c <> 45%N /\ c <> 43%N.
Proof.
  intros Hb Hn. unfold fmt_uint. destruct (rev (le_digits 64 b n)) as [|d r] eqn:E.
  - exfalso. apply (le_digits_nonempty b n). apply (f_equal (@rev Z)) in E. rewrite rev_involutive in E. exact E.
  - exists (digit_char d), (map digit_char r). split; [reflexivity|].
    assert (Hd : 0 <= d < b). { apply (le_digits_range 64 b n); try lia. apply in_rev. rewrite E. now left. }
    destruct (digit_char_not_sign d ltac:(lia)) as (? & ? & _). auto.
Qed.

(* ================================================================= CONV *)
(* CONV(str_a(n), a, b) = str_b(n), for every 64-bit n and all bases 2..36 ... *)
Theorem conv_correct a b n : 2 <= a <= 36 -> 2 <= b <= 36 -> 0 <= n < 2 ^ 64 ->
  conv (Some (fmt_uint a n)) (Some a) (Some b) = Val (fmt_uint b n).
Proof.
  intros Ha Hb Hn. unfold conv, conv_from.
  destruct (fmt_uint_head a n Ha ltac:(lia)) as (c & r & E & Hc1 & Hc2).
  rewrite E. rewrite Z.abs_eq by lia.
  replace (a <? 2) with false by (symmetry; apply Z.ltb_ge; lia).
  replace (36 <? a) with false by (symmetry; apply Z.ltb_ge; lia). cbn [orb].
  replace (c =? 45)%N with false by (symmetry; apply N.eqb_neq; assumption).
  replace (c =? 43)%N with false by (symmetry; apply N.eqb_neq; assumption). cbn [orb andb].
  rewrite <- E.
  replace (len (fmt_uint a (2 ^ 64 - 1)) <? len (fmt_uint a n)) with false
    by (symmetry; apply Z.ltb_ge; apply fmt_uint_len_mono; lia).
  rewrite fmt_uint_parse by assumption.
  unfold conv_to. rewrite Z.abs_eq by lia.
  replace (b <? 2) with false by (symmetry; apply Z.ltb_ge; lia).
  replace (36 <? b) with false by (symmetry; apply Z.ltb_ge; lia). cbn [orb].
  replace (b <? 0) with false by (symmetry; apply Z.ltb_ge; lia).
  unfold to_u64. rewrite Z.mod_small by lia. reflexivity.
Qed.

(* ... hence converting there and back is the identity on canonical digit strings *)
Theorem conv_roundtrip a b n : 2 <= a <= 36 -> 2 <= b <= 36 -> 0 <= n < 2 ^ 64 ->
  exists x, conv (Some (fmt_uint a n)) (Some a) (Some b) = Val x /\
            conv (Some x) (Some b) (Some a) = Val (fmt_uint a n).
Proof.
  intros Ha Hb Hn. exists (fmt_uint b n). split; apply conv_correct; assumption.
Qed.

(* ================================================================= INET *)
Definition field_ok (v : Z) : bool :=
  (match ip_field (fmt_uint 10 v) 0 0 with Some x => x =? v | None => false end) &&
  forallb (fun c => negb (c =? 46)%N) (fmt_uint 10 v).
Lemma field_check : forallb field_ok (map Z.of_nat (seq 0 256)) = true.
Proof. vm_compute. reflexivity. Qed.
Lemma field_spec v : 0 <= v < 256 ->
  ip_field (fmt_uint 10 v) 0 0 = Some v /\ Forall (fun c => c <> 46%N) (fmt_uint 10 v).
Proof.
  intros H. pose proof field_check as E. rewrite forallb_forall in E. specialize (E v).
  assert (Hin : In v (map Z.of_nat (seq 0 256))).
  { apply in_map_iff. exists (Z.to_nat v). split; [lia|]. apply in_seq. lia. }
  specialize (E Hin). unfold field_ok in E. apply andb_prop in E. destruct E as [E1 E2]. split.
  - destruct (ip_field (fmt_uint 10 v) 0 0); [|discriminate]. apply Z.eqb_eq in E1. now subst.
  - apply Forall_forall. intros c Hc. rewrite forallb_forall in E2. specialize (E2 c Hc).
    apply negb_true_iff in E2. apply N.eqb_neq in E2. exact E2.
Qed.

Lemma split_dot_nodot a : Forall (fun c => c <> 46%N) a -> forall r cur,
  split_dot (a ++ r) cur = split_dot r (rev a ++ cur).
Proof.
  induction 1 as [|c a Hc _ IH]; intros r cur; [reflexivity|].
  cbn [app split_dot]. replace (c =? 46)%N with false by (symmetry; apply N.eqb_neq; assumption).
  rewrite IH. cbn [rev]. rewrite <- app_assoc. reflexivity.
Qed.

Lemma split_dot_field a r : Forall (fun c => c <> 46%N) a ->
  split_dot (a ++ 46%N :: r) [] = a :: split_dot r [].
Proof.
  intros H. rewrite split_dot_nodot by exact H. cbn [split_dot]. change (46 =? 46)%N with true. cbv iota.
  rewrite app_nil_r, rev_involutive. reflexivity.
Qed.
Lemma split_dot_last a : Forall (fun c => c <> 46%N) a -> split_dot a [] = [a].
Proof.
  intros H. rewrite <- (app_nil_r a) at 1. rewrite split_dot_nodot by exact H. cbn [split_dot].
  rewrite app_nil_r, rev_involutive. reflexivity.
Qed.

(* INET_ATON reads back every dotted quad that INET_NTOA can print *)
Theorem inet_aton_dotted u : 0 <= u < 2 ^ 32 -> inet_aton_str (dotted u) = Some u.
Proof.
  intros Hu. unfold inet_aton_str, dotted.
  set (a := u / 16777216). set (b := (u / 65536) mod 256). set (c := (u / 256) mod 256). set (d := u mod 256).
  assert (Ha : 0 <= a < 256) by (unfold a; split; [apply Z.div_pos; lia|apply Z.div_lt_upper_bound; lia]).
  assert (Hb : 0 <= b < 256) by (unfold b; apply Z.mod_pos_bound; lia).
  assert (Hc : 0 <= c < 256) by (unfold c; apply Z.mod_pos_bound; lia).
  assert (Hd : 0 <= d < 256) by (unfold d; apply Z.mod_pos_bound; lia).
  destruct (field_spec a Ha) as [Fa Na]. destruct (field_spec b Hb) as [Fb Nb].
  destruct (field_spec c Hc) as [Fc Nc]. destruct (field_spec d Hd) as [Fd Nd].
  rewrite (split_dot_field _ _ Na), (split_dot_field _ _ Nb), (split_dot_field _ _ Nc), (split_dot_last _ Nd).
  cbn [map]. rewrite Fa, Fb, Fc, Fd. f_equal.
  unfold a, b, c, d. Z.to_euclidean_division_equations. lia.
Qed.

(* both directions, under the guard n < 2^31 that excludes the saturation of INET_NTOA *)
Theorem inet_roundtrip n : 0 <= n < 2 ^ 31 ->
  exists s, inet_ntoa (Some n) = Val s /\ inet_aton (Some s) = Val n.
Proof.
  intros Hn. exists (dotted n). unfold inet_ntoa, inet_aton, clamp32.
  replace (n <? - 2 ^ 31) with false by (symmetry; apply Z.ltb_ge; lia).
  replace (2 ^ 31 - 1 <? n) with false by (symmetry; apply Z.ltb_ge; lia).
  rewrite Z.mod_small by lia. split; [reflexivity|]. rewrite inet_aton_dotted by lia. reflexivity.
Qed.

(* canonical dotted quads are the strings [dotted u]; INET_NTOA o INET_ATON is the identity on them below 2^31 *)
Theorem inet_ntoa_aton u : 0 <= u < 2 ^ 31 ->
  exists n, inet_aton (Some (dotted u)) = Val n /\ inet_ntoa (Some n) = Val (dotted u).
Proof.
  intros Hu. exists u. unfold inet_aton. rewrite inet_aton_dotted by lia. split; [reflexivity|].
  unfold inet_ntoa, clamp32.
  replace (u <? - 2 ^ 31) with false by (symmetry; apply Z.ltb_ge; lia).
  replace (2 ^ 31 - 1 <? u) with false by (symmetry; apply Z.ltb_ge; lia).
  rewrite Z.mod_small by lia. reflexivity.
Qed.

(* ================================================================= LOCATE on arbitrary (multi-byte) strings *)
Lemma lower_suffix_0 s : lower_suffix s 0 = utf8 (to_lower s).
Proof. destruct s; reflexivity. Qed.

(* two-argument LOCATE, any strings: the answer is the first BYTE offset (plus one) at which the lower-cased
   substring occurs in the lower-cased string -- a character position only when everything before it is ASCII *)
Theorem locate_first_byte_occurrence (sub s : list N) :
  utf8 s <> [] ->
  let bs := utf8 (to_lower s) in let bsub := utf8 (to_lower sub) in
  exists p, locate_core sub s 1 = Val p /\
    ((p = 0 /\ forall j, 0 <= j <= len bs -> is_prefix N.eqb bsub (drop j bs) = false) \/
     (1 <= p <= len bs + 1 /\ is_prefix N.eqb bsub (drop (p - 1) bs) = true /\
      forall j, 0 <= j < p - 1 -> is_prefix N.eqb bsub (drop j bs) = false)).
Proof.
  intros Hne bs bsub. unfold locate_core. change (1 <=? 0) with false. cbn [orb].
  assert (Hl : 0 < len (utf8 s)).
  { destruct (utf8 s); [congruence|]. rewrite len_cons. pose proof (len_nonneg l). lia. }
  replace (len (utf8 s) <? 1) with false by (symmetry; apply Z.ltb_ge; lia). rewrite andb_false_r.
  replace (len (utf8 s) =? 0) with false by (symmetry; apply Z.eqb_neq; lia). rewrite andb_false_r.
  replace (len (utf8 s) <? 1 - 1) with false by (symmetry; apply Z.ltb_ge; lia).
  replace (1 - 1) with 0 by lia. rewrite lower_suffix_0. fold bs bsub. unfold index_of.
  pose proof (index_from_spec bsub bs 0) as H. cbv zeta in H. destruct H as [[H1 H2]|[H1 [H2 H3]]].
  - rewrite H1. cbn [Z.eqb]. eexists; split; [reflexivity|]. left. split; [reflexivity|exact H2].
  - set (r := index_from bsub bs 0) in *. replace (r =? -1) with false by (symmetry; apply Z.eqb_neq; lia).
    eexists; split; [reflexivity|]. right. rewrite Z.sub_0_r in *. replace (r + 1 - 1) with r by lia.
    split; [lia|]. split; assumption.
Qed.
