(* C10 — index arithmetic of the string functions, with Go's wrapping int64 arithmetic and every slice
   expression that would be out of range as the explicit outcome [Panic].
   Mirrors sql/expression/function/substring.go (Substring.Eval, Left.Eval, Right.Eval), insert.go (Insert.Eval),
   rpad_lpad.go (padString, divmod). *)
From Coq Require Import ZArith Bool Lia.
Open Scope Z_scope.

Definition i64min : Z := - 2 ^ 63.
Definition i64max : Z := 2 ^ 63 - 1.
Definition in64 (z : Z) : Prop := i64min <= z <= i64max.
Definition wrap (z : Z) : Z := (z + 2 ^ 63) mod 2 ^ 64 - 2 ^ 63.

Inductive outcome : Type :=
| Slice (lo hi : Z)           (* the result is text[lo:hi] (possibly concatenated with other in-range pieces) *)
| Const                       (* "" or the unchanged input *)
| Fail                        (* an error value is returned *)
| Panic.                      (* slice bounds out of range / makeslice: len out of range *)

(* Go: s[lo:hi] panics unless 0 <= lo <= hi <= len(s) *)
Definition slice (n lo hi : Z) : outcome :=
  if (0 <=? lo) && (lo <=? hi) && (hi <=? n) then Slice lo hi else Panic.

(* Substring.Eval after the conversions: n = rune count, start and len are int64 *)
Definition substring (n start len : Z) : outcome :=
  let startIdx := if start <? 0 then wrap (n + start) else wrap (start - 1) in
  if (startIdx <? 0) || (startIdx >=? n) || (len <=? 0) then Const else
  let len' := if wrap (startIdx + len) >? n then wrap (n - startIdx) else len in
  slice n startIdx (wrap (startIdx + len')).

(* Left.Eval: text[:length] *)
Definition left (n len : Z) : outcome :=
  let length := if len >? n then n else len in
  if length <=? 0 then Const else slice n 0 length.

(* Right.Eval: text[runeCount-length:] *)
Definition right (n len : Z) : outcome :=
  let length := if len >? n then n else len in
  if length <=? 0 then Const else slice n (wrap (n - length)) n.

(* Insert.Eval: s[:startIdx] + newstr + s[endIdx:]  (n = len(s) in bytes) *)
Definition insert (n p l : Z) : outcome :=
  if p <? 1 then Const else
  let startIdx := wrap (p - 1) in
  if startIdx >=? n then Const else
  let endIdx := if l <? 0 then n else
                  let e := wrap (startIdx + l) in if e >? n then n else e in
  match slice n 0 startIdx, slice n endIdx n with
  | Slice _ _, Slice lo hi => Slice lo hi
  | _, _ => Panic
  end.

(* padString: n = len(str), m = len(padStr); strings.Repeat allocates quo*m bytes and the runtime refuses
   (recoverable panic "makeslice: len out of range") anything above its maximum allocation size *)
Definition max_alloc : Z := 2 ^ 48.

Definition pad (n m length : Z) : outcome :=
  if length <=? 0 then Const else
  if n >=? length then slice n 0 length else
  if m =? 0 then Const else
  let padLen := wrap (length - n) in
  let quo := padLen / m in
  let rem := padLen mod m in
  if quo * m >? max_alloc then Panic else
  match slice m 0 rem with
  | Slice _ _ => slice (n + quo * m + rem) 0 length
  | o => o
  end.

(* ---------- proofs ---------- *)
Lemma wrap_id z : in64 z -> wrap z = z.
Proof. unfold in64, i64min, i64max, wrap. intros H. rewrite Z.mod_small by lia. lia. Qed.

Lemma slice_ok n lo hi : 0 <= lo <= hi -> hi <= n -> slice n lo hi = Slice lo hi.
Proof.
  intros H1 H2. unfold slice.
  replace (0 <=? lo) with true by (symmetry; apply Z.leb_le; lia).
  replace (lo <=? hi) with true by (symmetry; apply Z.leb_le; lia).
  replace (hi <=? n) with true by (symmetry; apply Z.leb_le; lia). reflexivity.
Qed.

Ltac zb := repeat match goal with
  | H : (_ <? _) = true |- _ => apply Z.ltb_lt in H
  | H : (_ <? _) = false |- _ => apply Z.ltb_ge in H
  | H : (_ <=? _) = true |- _ => apply Z.leb_le in H
  | H : (_ <=? _) = false |- _ => apply Z.leb_gt in H
  | H : (_ >? _) = true |- _ => rewrite Z.gtb_ltb in H
  | H : (_ >? _) = false |- _ => rewrite Z.gtb_ltb in H
  | H : (_ >=? _) = true |- _ => rewrite Z.geb_leb in H
  | H : (_ >=? _) = false |- _ => rewrite Z.geb_leb in H
  | H : (_ || _) = false |- _ => apply orb_false_iff in H; destruct H
  end.

Theorem left_never_panics n len : 0 <= n -> left n len <> Panic.
Proof.
  intros Hn. unfold left. destruct (len >? n) eqn:E1; destruct (_ <=? 0) eqn:E2; try discriminate; zb.
  - rewrite slice_ok by lia. discriminate.
  - rewrite slice_ok by lia. discriminate.
Qed.

Theorem right_never_panics n len : 0 <= n -> in64 n -> right n len <> Panic.
Proof.
  intros Hn Hi. unfold right. unfold in64, i64min, i64max in Hi.
  destruct (len >? n) eqn:E1; destruct (_ <=? 0) eqn:E2; try discriminate; zb.
  - rewrite wrap_id by (unfold in64, i64min, i64max; lia). rewrite slice_ok by lia. discriminate.
  - rewrite wrap_id by (unfold in64, i64min, i64max; lia). rewrite slice_ok by lia. discriminate.
Qed.

(* SUBSTRING: safe whenever start index + length does not overflow int64 ... *)
Theorem substring_no_overflow_never_panics n start len :
  0 <= n -> in64 n -> in64 start -> in64 len ->
  (start >= 1 -> start - 1 + len <= i64max) -> (start < 0 -> n + start + len <= i64max) ->
  substring n start len <> Panic.
Proof.
  unfold in64, i64min, i64max. intros Hn Hi Hs Hl Hov Hov2. unfold substring.
  assert (wrap (n + start) = n + start \/ start >= 0) as W1.
  { destruct (Z_lt_ge_dec start 0); [left; apply wrap_id; unfold in64, i64min, i64max; lia|right; lia]. }
  destruct (start <? 0) eqn:E0; zb.
  - destruct W1 as [W1|W1]; [rewrite W1|lia].
    destruct (_ || _ || _) eqn:E1; [discriminate|]. zb.
    assert (n + start + len <= 2 ^ 63 - 1) as Ho2 by (apply Hov2; lia).
    rewrite (wrap_id (n + start + len)) by (unfold in64, i64min, i64max; lia).
    destruct (n + start + len >? n) eqn:E2; zb.
    + rewrite (wrap_id (n - (n + start))) by (unfold in64, i64min, i64max; lia).
      rewrite wrap_id by (unfold in64, i64min, i64max; lia). rewrite slice_ok by lia. discriminate.
    + rewrite (wrap_id (n + start + len)) by (unfold in64, i64min, i64max; lia).
      rewrite slice_ok by lia. discriminate.
  - rewrite (wrap_id (start - 1)) by (unfold in64, i64min, i64max; lia).
    destruct (_ || _ || _) eqn:E1; [discriminate|]. zb.
    assert (start - 1 + len <= 2 ^ 63 - 1) as Ho by (apply Hov; lia).
    rewrite (wrap_id (start - 1 + len)) by (unfold in64, i64min, i64max; lia).
    destruct (start - 1 + len >? n) eqn:E2; zb.
    + rewrite (wrap_id (n - (start - 1))) by (unfold in64, i64min, i64max; lia).
      rewrite wrap_id by (unfold in64, i64min, i64max; lia). rewrite slice_ok by lia. discriminate.
    + rewrite (wrap_id (start - 1 + len)) by (unfold in64, i64min, i64max; lia).
      rewrite slice_ok by lia. discriminate.
Qed.

(* ... and not otherwise: SUBSTRING('abc', 2, 9223372036854775807) *)
Theorem substring_overflow_panics : substring 3 2 i64max = Panic.
Proof. vm_compute. reflexivity. Qed.

Theorem insert_no_overflow_never_panics n p l :
  0 <= n -> in64 n -> in64 p -> in64 l -> (p - 1 + l <= i64max) -> insert n p l <> Panic.
Proof.
  unfold in64, i64min, i64max. intros Hn Hi Hp Hl Hov. unfold insert.
  destruct (p <? 1) eqn:E0; [discriminate|]. zb.
  rewrite (wrap_id (p - 1)) by (unfold in64, i64min, i64max; lia).
  destruct (p - 1 >=? n) eqn:E1; [discriminate|]. zb.
  rewrite (slice_ok n 0 (p - 1)) by lia.
  destruct (l <? 0) eqn:E2; zb.
  - rewrite slice_ok by lia. discriminate.
  - rewrite (wrap_id (p - 1 + l)) by (unfold in64, i64min, i64max; lia).
    destruct (p - 1 + l >? n) eqn:E3; zb; rewrite slice_ok by lia; discriminate.
Qed.

(* INSERT('abc', 2, 9223372036854775807, 'x') *)
Theorem insert_overflow_panics : insert 3 2 i64max = Panic.
Proof. vm_compute. reflexivity. Qed.

Theorem pad_small_never_panics n m length :
  0 <= n -> 0 <= m -> in64 n -> in64 length -> length <= max_alloc -> pad n m length <> Panic.
Proof.
  unfold in64, i64min, i64max, max_alloc. intros Hn Hm Hi Hl Hmax. unfold pad.
  destruct (length <=? 0) eqn:E0; [discriminate|]. zb.
  destruct (n >=? length) eqn:E1; zb; [rewrite slice_ok by lia; discriminate|].
  destruct (m =? 0) eqn:E2; [discriminate|]. apply Z.eqb_neq in E2.
  rewrite (wrap_id (length - n)) by (unfold in64, i64min, i64max; lia).
  assert (0 < m) as Hm0 by lia.
  pose proof (Z.div_mod (length - n) m ltac:(lia)) as Hdm.
  pose proof (Z.mod_pos_bound (length - n) m Hm0) as Hmod.
  assert (0 <= (length - n) / m) as Hq by (apply Z.div_pos; lia).
  assert ((length - n) / m * m <= length - n) as Hqm by lia.
  destruct (_ >? max_alloc) eqn:E3; zb; [unfold max_alloc in E3; lia|].
  rewrite (slice_ok m 0 _) by lia. rewrite slice_ok by lia. discriminate.
Qed.

(* LPAD('a', 5000000000000000000, 'b') *)
Theorem pad_huge_panics : pad 1 1 5000000000000000000 = Panic.
Proof. vm_compute. reflexivity. Qed.
