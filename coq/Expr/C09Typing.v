(* C09 — a small expression language with the result type and nullability the engine reports, and its evaluation.

   Go code mirrored (Type()/IsNullable()/Eval of sql/expression):
   - GetField: type and nullability of the column; Literal: nullable iff the value is NULL (literal.go)
   - UnaryMinus, Arithmetic + - *: BIGINT over BIGINT operands, nullable iff an operand is (BinaryExpressionStub)
   - IntDiv / Mod: always nullable (div.go, mod.go: division by zero gives NULL)
   - comparison =, <: boolean (0/1), nullable iff an operand is; IS NULL: never nullable (isnull.go)
   - COALESCE(a, b): nullable iff all arguments are (function/coalesce.go); IF(c, a, b): nullable iff a branch is
     (function/if.go); CONCAT: text, nullable iff an argument is
   - relational layer: a LEFT JOIN makes the right side's columns nullable (plan/join.go Schema), UNION makes a
     column nullable iff it is nullable on either side (resolve_unions / set_op schema). *)
From Coq Require Import List ZArith Bool Lia.
Import ListNotations.
Open Scope Z_scope.

Inductive val := VNull | VInt (z : Z) | VStr (s : list Z).
Inductive ty := TInt | TBool | TStr.
Record col := Col { c_ty : ty; c_nullable : bool }.
Definition schema := list col.
Definition row := list val.

(* a value is a valid value of the type: NULL, or of the right kind and in range *)
Definition int64_ok (z : Z) : bool := (- 2 ^ 63 <=? z) && (z <? 2 ^ 63).
Definition has_type (t : ty) (x : val) : bool :=
  match x, t with
  | VNull, _ => true
  | VInt z, TInt => int64_ok z
  | VInt z, TBool => (z =? 0) || (z =? 1)
  | VStr _, TStr => true
  | _, _ => false
  end.
Definition conforms_col (c : col) (x : val) : bool :=
  has_type (c_ty c) x && (c_nullable c || match x with VNull => false | _ => true end).
Fixpoint conforms (s : schema) (r : row) : bool :=
  match s, r with
  | [], [] => true
  | c :: s', x :: r' => conforms_col c x && conforms s' r'
  | _, _ => false
  end.

Inductive expr :=
| EField (i : nat) | ELit (x : val)
| ENeg (a : expr) | EAdd (a b : expr) | ESub (a b : expr) | EMul (a b : expr) | EIntDiv (a b : expr) | EMod (a b : expr)
| EEq (a b : expr) | ELt (a b : expr) | EIsNull (a : expr)
| ECoalesce (a b : expr) | EIf (c a b : expr) | EConcat (a b : expr).

Definition lit_ty (x : val) : ty := match x with VStr _ => TStr | _ => TInt end.

(* common type of two branches: boolean only if both are, text only for text, otherwise BIGINT *)
Definition join_ty (a b : ty) : ty :=
  match a, b with
  | TBool, TBool => TBool
  | TStr, _ | _, TStr => TStr
  | _, _ => TInt
  end.

Fixpoint type_of (s : schema) (e : expr) : ty :=
  match e with
  | EField i => c_ty (nth i s (Col TInt true))
  | ELit x => lit_ty x
  | ENeg _ | EAdd _ _ | ESub _ _ | EMul _ _ | EIntDiv _ _ | EMod _ _ => TInt
  | EEq _ _ | ELt _ _ | EIsNull _ => TBool
  | ECoalesce a b => join_ty (type_of s a) (type_of s b)
  | EIf _ a b => join_ty (type_of s a) (type_of s b)
  | EConcat _ _ => TStr
  end.

Fixpoint nullable (s : schema) (e : expr) : bool :=
  match e with
  | EField i => c_nullable (nth i s (Col TInt true))
  | ELit x => match x with VNull => true | _ => false end
  | ENeg a => nullable s a
  | EAdd a b | ESub a b | EMul a b | EEq a b | ELt a b | EConcat a b => nullable s a || nullable s b
  | EIntDiv _ _ | EMod _ _ => true
  | EIsNull _ => false
  | ECoalesce a b => nullable s a && nullable s b
  | EIf _ a b => nullable s a || nullable s b
  end.

Definition ty_eqb (a b : ty) : bool := match a, b with TInt, TInt | TBool, TBool | TStr, TStr => true | _, _ => false end.
Definition numeric (t : ty) : bool := match t with TStr => false | _ => true end.

(* operand types the fragment admits (the generator only produces such expressions) *)
Fixpoint well_typed (s : schema) (e : expr) : bool :=
  match e with
  | EField i => Nat.ltb i (length s)
  | ELit x => has_type (lit_ty x) x
  | ENeg a => well_typed s a && numeric (type_of s a)
  | EAdd a b | ESub a b | EMul a b | EIntDiv a b | EMod a b =>
    well_typed s a && well_typed s b && numeric (type_of s a) && numeric (type_of s b)
  | EEq a b | ELt a b => well_typed s a && well_typed s b && (numeric (type_of s a) && numeric (type_of s b) || ty_eqb (type_of s a) TStr && ty_eqb (type_of s b) TStr)
  | EIsNull a => well_typed s a
  | ECoalesce a b => well_typed s a && well_typed s b && Bool.eqb (numeric (type_of s a)) (numeric (type_of s b))
  | EIf c a b => well_typed s c && well_typed s a && well_typed s b && Bool.eqb (numeric (type_of s a)) (numeric (type_of s b))
  | EConcat a b => well_typed s a && well_typed s b && ty_eqb (type_of s a) TStr && ty_eqb (type_of s b) TStr
  end.

Inductive res := Ok (x : val) | ErrRange.     (* BIGINT overflow is an error, never a wrapped value, in this model *)

Definition int_res (z : Z) : res := if int64_ok z then Ok (VInt z) else ErrRange.
Definition bool_val (b : bool) : val := VInt (if b then 1 else 0).
Fixpoint list_ltb (a b : list Z) : bool :=
  match a, b with
  | _, [] => false | [], _ :: _ => true
  | x :: a', y :: b' => (x <? y) || ((x =? y) && list_ltb a' b')
  end.
Fixpoint list_eqb (a b : list Z) : bool :=
  match a, b with [], [] => true | x :: a', y :: b' => (x =? y) && list_eqb a' b' | _, _ => false end.

Definition bin_int (f : Z -> Z -> res) (x y : res) : res :=
  match x, y with
  | ErrRange, _ | _, ErrRange => ErrRange
  | Ok (VInt a), Ok (VInt b) => f a b
  | Ok _, Ok _ => Ok VNull
  end.

Fixpoint eval (r : row) (e : expr) : res :=
  match e with
  | EField i => Ok (nth i r VNull)
  | ELit x => Ok x
  | ENeg a => match eval r a with Ok (VInt z) => int_res (- z) | Ok _ => Ok VNull | ErrRange => ErrRange end
  | EAdd a b => bin_int (fun x y => int_res (x + y)) (eval r a) (eval r b)
  | ESub a b => bin_int (fun x y => int_res (x - y)) (eval r a) (eval r b)
  | EMul a b => bin_int (fun x y => int_res (x * y)) (eval r a) (eval r b)
  | EIntDiv a b => bin_int (fun x y => if y =? 0 then Ok VNull else int_res (Z.quot x y)) (eval r a) (eval r b)
  | EMod a b => bin_int (fun x y => if y =? 0 then Ok VNull else int_res (Z.rem x y)) (eval r a) (eval r b)
  | EEq a b =>
    match eval r a, eval r b with
    | ErrRange, _ | _, ErrRange => ErrRange
    | Ok (VInt x), Ok (VInt y) => Ok (bool_val (x =? y))
    | Ok (VStr x), Ok (VStr y) => Ok (bool_val (list_eqb x y))
    | Ok _, Ok _ => Ok VNull
    end
  | ELt a b =>
    match eval r a, eval r b with
    | ErrRange, _ | _, ErrRange => ErrRange
    | Ok (VInt x), Ok (VInt y) => Ok (bool_val (x <? y))
    | Ok (VStr x), Ok (VStr y) => Ok (bool_val (list_ltb x y))
    | Ok _, Ok _ => Ok VNull
    end
  | EIsNull a => match eval r a with Ok VNull => Ok (bool_val true) | Ok _ => Ok (bool_val false) | ErrRange => ErrRange end
  | ECoalesce a b => match eval r a with Ok VNull => eval r b | x => x end
  | EIf c a b =>
    match eval r c with
    | ErrRange => ErrRange
    | Ok (VInt z) => if z =? 0 then eval r b else eval r a
    | Ok _ => eval r b
    end
  | EConcat a b =>
    match eval r a, eval r b with
    | ErrRange, _ | _, ErrRange => ErrRange
    | Ok (VStr x), Ok (VStr y) => Ok (VStr (x ++ y))
    | Ok _, Ok _ => Ok VNull
    end
  end.

(* ---------------- relational layer ---------------- *)
Definition project_schema (s : schema) (es : list expr) : schema :=
  map (fun e => Col (type_of s e) (nullable s e)) es.
Definition make_nullable (s : schema) : schema := map (fun c => Col (c_ty c) true) s.
(* LEFT JOIN: left columns keep their nullability, right columns become nullable; unmatched left rows are padded *)
Definition left_join_schema (l r : schema) : schema := l ++ make_nullable r.
Definition pad (l : row) (n : nat) : row := l ++ repeat VNull n.
(* UNION: a column is nullable iff it is on either side (same types in this fragment) *)
Definition union_schema (a b : schema) : schema :=
  map (fun p => Col (c_ty (fst p)) (c_nullable (fst p) || c_nullable (snd p))) (combine a b).
Definition same_types (a b : schema) : bool :=
  Nat.eqb (length a) (length b) && forallb (fun p => ty_eqb (c_ty (fst p)) (c_ty (snd p))) (combine a b).
