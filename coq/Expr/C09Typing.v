(* C09 — a typed expression language with the result type and nullability the engine reports, and its evaluation.

   Go code mirrored (Type()/IsNullable()/Eval of sql/expression and sql/expression/function, types of sql/types):
   - types: the integer kinds (tinyint .. bigint, signed/unsigned), boolean (tinyint(1)), DECIMAL(p,s), DOUBLE, text, the NULL type
   - Literal: an integer literal takes the smallest of int8, uint8, int16, uint16, int32, uint32, int64, uint64 that holds it, a
     decimal literal DECIMAL(digits, scale), a string LONGTEXT, NULL the null type; nullable iff NULL (literal.go, planbuilder)
   - GetField; UnaryMinus.Type (int8/16/32 -> bigint, uint32 -> int, uint64 -> bigint, every other type unchanged — also
     tinyint/smallint/mediumint UNSIGNED) and UnaryMinus.Eval (Go negation of the narrowed machine integer)
   - Arithmetic.getReturnType for + - * (unsigned pair -> bigint unsigned, integer pair -> bigint, one decimal operand -> THAT
     operand's type, two decimals -> max precision + scale, scale max / sum, capped at 65/30), BinaryExpressionStub.IsNullable
   - IntDiv.Type (bigint unsigned as soon as one operand is unsigned), Mod.Type = getFloatOrMaxDecimalType (a DECIMAL sized by
     the digits of the literals / decimal columns / decimal casts found anywhere in the operand trees), both always nullable
   - comparison, AND/OR/NOT (three-valued), IS NULL, IN (always nullable), BETWEEN = lower <= v AND upper >= v
   - Case.Type = fold of types.GeneralizeTypes (generalizeNumberTypes for numbers, text otherwise), Case.IsNullable, Case.Eval
     converts the chosen value to the case type and returns the original value if that fails
   - function/nullif.go, ifnull.go, if.go (GeneralizeTypes), coalesce.go (its own merge rule), greatest_least.go (integers),
     Convert (CAST AS SIGNED / UNSIGNED / DECIMAL(p,s) / CHAR), CONCAT, UPPER, SUBSTRING, LENGTH *)
From Coq Require Import List ZArith Bool Lia.
Import ListNotations.
Open Scope Z_scope.

Inductive ikind := I8 | U8 | I16 | U16 | I24 | U24 | I32 | U32 | I64 | U64.
Inductive ty := TNull | TBool | TInt (k : ikind) | TDec (p s : Z) | TDbl | TStr.
(* VDec m s is m / 10^s; VDbl n d the double n / d (only aggregates produce it) *)
Inductive val := VNull | VInt (z : Z) | VDec (m s : Z) | VDbl (n d : Z) | VStr (b : list Z).
Record col := Col { c_ty : ty; c_nullable : bool }.
Definition schema := list col.
Definition row := list val.

Definition ik_lo (k : ikind) : Z :=
  match k with I8 => -128 | I16 => -32768 | I24 => -8388608 | I32 => -2147483648 | I64 => -9223372036854775808 | _ => 0 end.
Definition ik_hi (k : ikind) : Z :=
  match k with
  | I8 => 127 | U8 => 255 | I16 => 32767 | U16 => 65535 | I24 => 8388607 | U24 => 16777215
  | I32 => 2147483647 | U32 => 4294967295 | I64 => 9223372036854775807 | U64 => 18446744073709551615
  end.
Definition ik_signed (k : ikind) : bool := match k with I8 | I16 | I24 | I32 | I64 => true | _ => false end.
Definition in_kind (k : ikind) (z : Z) : bool := (ik_lo k <=? z) && (z <=? ik_hi k).

(* a value is a valid value of the type: NULL, or of the right kind and in range.  DECIMAL(p,s) holds scale <= s and
   fewer than p - s integer digits; an integer in a DECIMAL or DOUBLE column stands for itself *)
Definition has_type (t : ty) (x : val) : bool :=
  match x, t with
  | VNull, _ => true
  | VInt z, TBool => in_kind I8 z
  | VInt z, TInt k => in_kind k z
  | VInt z, TDec p s => Z.abs z <? 10 ^ (p - s)
  | VDec m s', TDec p s => (0 <=? s') && (s' <=? s) && (Z.abs m <? 10 ^ (p - s + s'))
  | VInt _, TDbl | VDbl _ _, TDbl => true
  | VStr _, TStr => true
  | _, _ => false
  end.
Definition notnull (x : val) : bool := match x with VNull => false | _ => true end.
Definition conforms_col (c : col) (x : val) : bool := has_type (c_ty c) x && (c_nullable c || notnull x).
Fixpoint conforms (s : schema) (r : row) : bool :=
  match s, r with
  | [], [] => true
  | c :: s', x :: r' => conforms_col c x && conforms s' r'
  | _, _ => false
  end.

(* ---------------- type predicates of sql/types ---------------- *)
Definition is_unsigned (t : ty) : bool := match t with TInt k => negb (ik_signed k) | _ => false end.
Definition is_signed (t : ty) : bool := match t with TInt k => ik_signed k | TBool => true | _ => false end.
Definition is_integer (t : ty) : bool := is_signed t || is_unsigned t.
Definition is_decimal (t : ty) : bool := match t with TDec _ _ => true | _ => false end.
Definition is_text (t : ty) : bool := match t with TStr => true | _ => false end.
Definition is_number (t : ty) : bool := match t with TBool | TInt _ | TDec _ _ | TDbl => true | _ => false end.
Definition ikind_eqb (a b : ikind) : bool :=
  match a, b with
  | I8, I8 | U8, U8 | I16, I16 | U16, U16 | I24, I24 | U24, U24 | I32, I32 | U32, U32 | I64, I64 | U64, U64 => true
  | _, _ => false
  end.
(* Type.Equals: NumberType.Equals ignores the display width, so boolean equals tinyint *)
Definition ty_equals (a b : ty) : bool :=
  match a, b with
  | TNull, TNull | TDbl, TDbl | TStr, TStr | TBool, TBool | TBool, TInt I8 | TInt I8, TBool => true
  | TInt x, TInt y => ikind_eqb x y
  | TDec p s, TDec q r => (p =? q) && (s =? r)
  | _, _ => false
  end.

(* number of decimal digits of n >= 0 ("0" has one) *)
Fixpoint ndig_fuel (fuel : nat) (n : Z) : Z :=
  match fuel with O => 1 | S f => if n <? 10 then 1 else 1 + ndig_fuel f (n / 10) end.
Definition ndig (n : Z) : Z := ndig_fuel 80 (Z.abs n).

Definition lit_ty (x : val) : ty :=
  match x with
  | VNull => TNull
  | VInt z =>
    if in_kind I8 z then TInt I8 else if in_kind U8 z then TInt U8 else if in_kind I16 z then TInt I16
    else if in_kind U16 z then TInt U16 else if in_kind I32 z then TInt I32 else if in_kind U32 z then TInt U32
    else if in_kind I64 z then TInt I64 else if in_kind U64 z then TInt U64 else TDbl
  | VDec m s => TDec (ndig (Z.abs m / 10 ^ s) + s) s
  | VDbl _ _ => TDbl
  | VStr _ => TStr
  end.

(* ---------------- generalizeNumberTypes / GeneralizeTypes (sql/types/conversion.go) ---------------- *)
Definition is_k (t : ty) (k : ikind) : bool := match t with TInt k' => ikind_eqb k k' | _ => false end.
Definition generalize_number (a b : ty) : ty :=
  if match a, b with TDbl, _ | _, TDbl => true | _, _ => false end then TDbl
  else if is_decimal a || is_decimal b then TDec 65 30
  else
    let sg := is_signed a || is_signed b in
    if is_k a U64 || is_k b U64 then (if sg then TDec 65 0 else TInt U64)
    else if is_k a I64 || is_k b I64 then TInt I64
    else if is_k a U32 || is_k b U32 then (if sg then TInt I64 else TInt U32)
    else if is_k a I32 || is_k b I32 then TInt I32
    else if is_k a U24 || is_k b U24 then (if sg then TInt I32 else TInt U24)
    else if is_k a I24 || is_k b I24 then TInt I24
    else if is_k a U16 || is_k b U16 then (if sg then TInt I24 else TInt U16)
    else if is_k a I16 || is_k b I16 then TInt I16
    else if is_k a U8 || is_k b U8 then (if sg then TInt I16 else TInt U8)
    else if is_k a I8 || is_k b I8 then TInt I8
    else match a, b with TBool, TBool => TBool | _, _ => TInt I64 end.
Definition generalize (a b : ty) : ty :=
  if ty_equals a b then a
  else match a, b with
  | TNull, _ => b
  | _, TNull => a
  | _, _ => if is_number a && is_number b then generalize_number a b else TStr
  end.

(* ---------------- per-operator result types ---------------- *)
Inductive aop := Add | Sub | Mul.
Inductive cop := Eq | Ne | Lt | Le | Gt | Ge.
Inductive ctarget := CSigned | CUnsigned | CDecimal (p s : Z) | CChar.

Definition neg_ty (t : ty) : ty :=
  match t with
  | TInt I8 | TInt I16 | TInt I32 => TInt I64
  | TInt U32 => TInt I32
  | TInt U64 => TInt I64
  | TNull | TStr => TDbl
  | _ => t
  end.

Definition arith_ty (o : aop) (l r : ty) : ty :=
  if is_text l || is_text r then TDbl
  else if match l, r with TDbl, _ | _, TDbl => true | _, _ => false end then TDbl
  else if is_unsigned l && is_unsigned r then TInt U64
  else if is_integer l && is_integer r then TInt I64
  else match l, r with
  | TDec lp ls, TDec rp rs =>
    let prec := Z.max lp rp in
    let scale := match o with Mul => ls + rs | _ => Z.max ls rs end in
    TDec (Z.min 65 (prec + scale)) (Z.min 30 scale)
  | TDec _ _, _ => l
  | _, TDec _ _ => r
  | _, _ => TDbl
  end.

Definition intdiv_ty (l r : ty) : ty := if is_unsigned l || is_unsigned r then TInt U64 else TInt I64.

(* ConvertToChar outcome of Coalesce.Type: DOUBLE when one side is a double and neither is text, LONGTEXT otherwise *)
Definition char_case (a b : ty) : ty :=
  if match a, b with TDbl, _ | _, TDbl => true | _, _ => false end && negb (is_text a) && negb (is_text b) then TDbl else TStr.
Definition coalesce_ty (a b : ty) : ty :=
  match b with TNull => a | _ =>
  match a with
  | TNull =>                          (* GetConvertToType(Null, r) = GetConvertToType(r, r) *)
    if is_decimal b then b else if is_unsigned b then (if is_k b U64 then TInt U64 else TInt U32)
    else if is_signed b then (if is_k b I64 then TInt I64 else TInt I32)
    else match b with TDbl => TDbl | _ => TStr end
  | _ =>
  if ty_equals a b then a
  else if (is_signed a && is_unsigned b) || (is_unsigned a && is_signed b) then TDec 20 0
  else if negb (is_number a) || negb (is_number b) then char_case a b
  else if is_decimal a || is_decimal b then
    (if match a, b with TDbl, _ | _, TDbl => true | _, _ => false end then TDbl
     else if is_decimal b then b else if is_decimal a then a else TDec 10 0)
  else if is_unsigned a && is_unsigned b then (if is_k a U64 || is_k b U64 then TInt U64 else TInt U32)
  else if is_integer a && is_integer b then (if is_k a I64 || is_k b I64 then TInt I64 else TInt I32)
  else char_case a b
  end end.

Definition greatest_ty (a b : ty) : ty :=
  match a, b with
  | TNull, _ | _, TNull => TNull
  | _, _ => if is_integer a && is_integer b then TInt I64 else if is_text a && is_text b then TStr else TDbl
  end.

Definition cast_ty (t : ctarget) : ty :=
  match t with CSigned => TInt I64 | CUnsigned => TInt U64 | CDecimal p s => TDec p s | CChar => TStr end.

(* ---------------- expressions ---------------- *)
Inductive expr :=
| EField (i : nat) | ELit (x : val)
| ENeg (a : expr) | EArith (o : aop) (a b : expr) | EIntDiv (a b : expr) | EMod (a b : expr)
| ECmp (o : cop) (a b : expr) | EAnd (a b : expr) | EOr (a b : expr) | ENot (a : expr) | EIsNull (a : expr)
| EIn (a : expr) (l : list expr) | EBetween (a lo hi : expr)
| ECase (bs : list (expr * expr)) (els : option expr)
| ENullIf (a b : expr) | EIfNull (a b : expr) | ECoalesce (a b : expr) | EIf (c a b : expr)
| EGreatest (a b : expr) | ELeast (a b : expr)
| ECast (a : expr) (t : ctarget)
| EConcat (a b : expr) | EUpper (a : expr) | ESubstr (a : expr) (pos len : Z) | ELength (a : expr).

Definition dflt : col := Col TNull true.

(* getFloatOrMaxDecimalType: the largest number of integer digits and of fraction digits over all decimal columns, number
   literals and decimal casts of the tree *)
Definition dmax (x y : Z * Z) : Z * Z := (Z.max (fst x) (fst y), Z.max (snd x) (snd y)).
Fixpoint mod_digits (s : schema) (e : expr) : Z * Z :=
  match e with
  | EField i => match c_ty (nth i s dflt) with TDec p sc => (p - sc, sc) | _ => (0, 0) end
  | ELit (VInt z) => (ndig z, 0)
  | ELit (VDec m sc) => (ndig (Z.abs m / 10 ^ sc), sc)
  | ELit _ => (0, 0)
  | ENeg a | ENot a | EIsNull a | EUpper a | ELength a => mod_digits s a
  | ESubstr a p n => dmax (mod_digits s a) (dmax (ndig p, 0) (ndig n, 0))
  | ECast a t => dmax (mod_digits s a) (match t with CDecimal p sc => (p - sc, sc) | _ => (0, 0) end)
  | EArith _ a b | EIntDiv a b | EMod a b | ECmp _ a b | EAnd a b | EOr a b | ENullIf a b | EIfNull a b | ECoalesce a b
  | EGreatest a b | ELeast a b | EConcat a b => dmax (mod_digits s a) (mod_digits s b)
  | EBetween a b c | EIf a b c => dmax (mod_digits s a) (dmax (mod_digits s b) (mod_digits s c))
  | EIn a l => fold_left (fun acc x => dmax acc (mod_digits s x)) l (mod_digits s a)
  | ECase bs els =>
    let m := fold_left (fun acc p => dmax acc (dmax (mod_digits s (fst p)) (mod_digits s (snd p)))) bs (0, 0) in
    match els with Some x => dmax m (mod_digits s x) | None => m end
  end.
Definition mod_ty_of (d : Z * Z) : ty :=
  let '(w, f) := d in
  if (30 <? f) || (65 <? w + f) then TDec 65 10 else if w + f =? 0 then TDec 10 0 else TDec (w + f) f.

Fixpoint type_of (s : schema) (e : expr) : ty :=
  match e with
  | EField i => c_ty (nth i s dflt)
  | ELit x => lit_ty x
  | ENeg a => neg_ty (type_of s a)
  | EArith o a b => arith_ty o (type_of s a) (type_of s b)
  | EIntDiv a b => intdiv_ty (type_of s a) (type_of s b)
  | EMod a b => if is_text (type_of s a) || is_text (type_of s b) then TDbl else mod_ty_of (dmax (mod_digits s a) (mod_digits s b))
  | ECmp _ _ _ | EAnd _ _ | EOr _ _ | EIsNull _ | EIn _ _ | EBetween _ _ _ => TBool
  | ENot a => match type_of s a with TNull => TNull | _ => TBool end
  | ECase bs els =>
    let t := fold_left (fun acc p => generalize acc (type_of s (snd p))) bs TNull in
    match els with Some x => generalize t (type_of s x) | None => t end
  | ENullIf a _ => type_of s a
  | EIfNull a b | EIf _ a b => generalize (type_of s a) (type_of s b)
  | ECoalesce a b => coalesce_ty (type_of s a) (type_of s b)
  | EGreatest a b | ELeast a b => greatest_ty (type_of s a) (type_of s b)
  | ECast _ t => cast_ty t
  | EConcat _ _ => TStr
  | EUpper a | ESubstr a _ _ => type_of s a
  | ELength _ => TInt I32
  end.

Fixpoint nullable (s : schema) (e : expr) : bool :=
  match e with
  | EField i => c_nullable (nth i s dflt)
  | ELit x => negb (notnull x)
  | ENeg a | ENot a | EUpper a | ELength a | ESubstr a _ _ => nullable s a
  | EArith _ a b | ECmp _ a b | EAnd a b | EOr a b | EConcat a b | EGreatest a b | ELeast a b => nullable s a || nullable s b
  | EIntDiv _ _ | EMod _ _ | EIn _ _ | ENullIf _ _ => true
  | EIsNull _ => false
  | EBetween a b c => nullable s a || nullable s b || nullable s c
  | ECase bs els =>
    existsb (fun p => nullable s (snd p)) bs || match els with Some x => nullable s x | None => true end
  | EIfNull a b => if nullable s a then nullable s b else false
  | ECoalesce a b => nullable s a && nullable s b
  | EIf _ a b => nullable s a || nullable s b
  | ECast a t => match t with CChar => true | _ => nullable s a end
  end.

(* ---------------- evaluation ---------------- *)
(* Err: an error of the statement or a situation outside the modelled domain (integer overflow, text in arithmetic) *)
Inductive res := Ok (x : val) | Err.
Definition bindr (x : res) (f : val -> res) : res := match x with Ok v => f v | Err => Err end.

Definition two (w : Z) : Z := 2 ^ w.
(* reinterpretation of the low w bits as a signed machine integer *)
Definition sw (w z : Z) : Z := let m := z mod two w in if m <? two (w - 1) then m else m - two w.
Definition fit (k : ikind) (z : Z) : res := if in_kind k z then Ok (VInt z) else Err.
Definition bool_val (b : bool) : val := VInt (if b then 1 else 0).

Fixpoint list_ltb (a b : list Z) : bool :=
  match a, b with
  | _, [] => false | [], _ :: _ => true
  | x :: a', y :: b' => (x <? y) || ((x =? y) && list_ltb a' b')
  end.
Fixpoint list_eqb (a b : list Z) : bool :=
  match a, b with [], [] => true | x :: a', y :: b' => (x =? y) && list_eqb a' b' | _, _ => false end.

(* numbers as (mantissa, scale) *)
Definition to_dec (x : val) : option (Z * Z) :=
  match x with VInt z => Some (z, 0) | VDec m s => Some (m, s) | _ => None end.
Definition align (a b : Z * Z) : Z * Z * Z :=
  let s := Z.max (snd a) (snd b) in (fst a * 10 ^ (s - snd a), fst b * 10 ^ (s - snd b), s).
(* comparison of two non-NULL values: Some (Lt/Eq/Gt) or None when the kinds are not comparable in the model *)
Definition cmp_vals (x y : val) : option comparison :=
  match x, y with
  | VStr a, VStr b => Some (if list_eqb a b then Datatypes.Eq else if list_ltb a b then Datatypes.Lt else Datatypes.Gt)
  | _, _ =>
    match to_dec x, to_dec y with
    | Some a, Some b => let '(m, n, _) := align a b in Some (m ?= n)
    | _, _ => None
    end
  end.
Definition cop_holds (o : cop) (c : comparison) : bool :=
  match o, c with
  | Eq, Datatypes.Eq | Le, Datatypes.Eq | Ge, Datatypes.Eq | Lt, Datatypes.Lt | Le, Datatypes.Lt | Ne, Datatypes.Lt
  | Gt, Datatypes.Gt | Ge, Datatypes.Gt | Ne, Datatypes.Gt => true
  | _, _ => false
  end.
Definition cmp_res (o : cop) (x y : val) : res :=
  match x, y with
  | VNull, _ | _, VNull => Ok VNull
  | _, _ => match cmp_vals x y with Some c => Ok (bool_val (cop_holds o c)) | None => Err end
  end.

(* truth value: Some true / Some false / None for NULL; text is outside the model *)
Definition truth (x : val) : option (option bool) :=
  match x with
  | VNull => Some None
  | VInt z => Some (Some (negb (z =? 0)))
  | VDec m _ => Some (Some (negb (m =? 0)))
  | VDbl n _ => Some (Some (negb (n =? 0)))
  | VStr _ => None
  end.
Definition and3 (x y : val) : res :=
  match truth x, truth y with
  | Some (Some false), Some _ | Some _, Some (Some false) => Ok (bool_val false)
  | Some None, Some _ | Some _, Some None => Ok VNull
  | Some (Some true), Some (Some true) => Ok (bool_val true)
  | _, _ => Err
  end.
Definition or3 (x y : val) : res :=
  match truth x, truth y with
  | Some (Some true), Some _ | Some _, Some (Some true) => Ok (bool_val true)
  | Some None, Some _ | Some _, Some None => Ok VNull
  | Some (Some false), Some (Some false) => Ok (bool_val false)
  | _, _ => Err
  end.
Definition not3 (x : val) : res :=
  match truth x with Some None => Ok VNull | Some (Some b) => Ok (bool_val (negb b)) | None => Err end.

(* UnaryMinus.Eval: Go negation of the machine integer the child type is stored in *)
Definition neg_val (t : ty) (x : val) : res :=
  match x with
  | VNull => Ok VNull
  | VDec m s => Ok (VDec (- m) s)
  | VInt z =>
    match t with
    | TInt I8 | TInt I16 | TInt I32 | TInt I24 | TBool => Ok (VInt (- z))
    | TInt I64 => if z =? ik_lo I64 then Err else Ok (VInt (- z))
    | TInt U8 => Ok (VInt (sw 8 (- sw 8 z)))
    | TInt U16 => Ok (VInt (sw 16 (- sw 16 z)))
    | TInt U24 | TInt U32 => Ok (VInt (sw 32 (- sw 32 z)))
    | TInt U64 => Ok (VInt (sw 64 (- sw 64 z)))
    | TDec _ _ => Ok (VInt (- z))
    | _ => Err
    end
  | _ => Err
  end.

Definition aop_z (o : aop) (x y : Z) : Z := match o with Add => x + y | Sub => x - y | Mul => x * y end.
Definition arith_val (o : aop) (t : ty) (x y : val) : res :=
  match x, y with
  | VNull, _ | _, VNull => Ok VNull
  | _, _ =>
    match t with
    | TInt k =>
      match x, y with
      | VInt a, VInt b => if in_kind k a && in_kind k b then fit k (aop_z o a b) else Err
      | _, _ => Err
      end
    | TDec _ _ =>
      match to_dec x, to_dec y with
      | Some a, Some b =>
        match o with
        | Mul => Ok (VDec (fst a * fst b) (snd a + snd b))
        | _ => let '(m, n, s) := align a b in Ok (VDec (aop_z o m n) s)
        end
      | _, _ => Err
      end
    | _ => Err
    end
  end.

Definition intdiv_val (t : ty) (x y : val) : res :=
  match x, y with
  | VNull, _ | _, VNull => Ok VNull
  | _, _ =>
    match to_dec x, to_dec y with
    | Some a, Some b =>
      let '(m, n, _) := align a b in
      if n =? 0 then Ok VNull
      else let q := Z.quot m n in if in_kind I64 q then Ok (VInt q) else Err
    | _, _ => Err
    end
  end.

Definition mod_val (x y : val) : res :=
  match x, y with
  | VNull, _ | _, VNull => Ok VNull
  | VInt a, VInt b => if b =? 0 then Ok VNull else Ok (VInt (Z.rem a b))
  | _, _ =>
    match to_dec x, to_dec y with
    | Some a, Some b => let '(m, n, s) := align a b in if n =? 0 then Ok VNull else Ok (VDec (Z.rem m n) s)
    | _, _ => Err
    end
  end.

(* printing of numbers (CAST AS CHAR, CONCAT, conversion to a text type) *)
Fixpoint digits_fuel (fuel : nat) (n : Z) (acc : list Z) : list Z :=
  match fuel with
  | O => acc
  | S f => let acc' := (48 + n mod 10) :: acc in if n <? 10 then acc' else digits_fuel f (n / 10) acc'
  end.
Definition print_nat (n : Z) : list Z := digits_fuel 80 n [].
Fixpoint pad_zeros (k : nat) (l : list Z) : list Z := match k with O => l | S k' => if (length l <? S k')%nat then pad_zeros k' (48 :: l) else l end.
Definition print_val (x : val) : option (list Z) :=
  match x with
  | VStr b => Some b
  | VInt z => Some ((if z <? 0 then [45] else []) ++ print_nat (Z.abs z))
  | VDec m s =>
    if s <=? 0 then Some ((if m <? 0 then [45] else []) ++ print_nat (Z.abs m))
    else let ip := Z.abs m / 10 ^ s in let fp := Z.abs m mod 10 ^ s in
         let f := print_nat fp in
         Some ((if m <? 0 then [45] else []) ++ print_nat ip ++ [46] ++ repeat 48 (Z.to_nat s - length f) ++ f)
  | _ => None
  end.

(* round half away from zero of m / 10^k, k >= 0 *)
Definition round_div (m k : Z) : Z :=
  let p := 10 ^ k in let q := Z.abs m / p in let r := Z.abs m mod p in
  let q' := if 2 * r >=? p then q + 1 else q in if m <? 0 then - q' else q'.

(* conversion of a chosen branch value to the generalised type (Case.Eval, If, IfNull); the value itself when the
   conversion is not possible *)
Definition conv_to (t : ty) (x : val) : val :=
  match t, x with
  | TStr, VInt _ | TStr, VDec _ _ => match print_val x with Some b => VStr b | None => x end
  | _, _ => x
  end.

Definition cast_val (t : ctarget) (x : val) : res :=
  match x with
  | VNull => Ok VNull
  | _ =>
    match t with
    | CSigned =>
      match x with
      | VInt z => fit I64 (if z >? ik_hi I64 then ik_hi I64 else z)
      | VDec m s => let q := round_div m s in fit I64 q
      | _ => Err
      end
    | CUnsigned =>
      match x with
      | VInt z => if z <? 0 then fit U64 (z + two 64) else fit U64 z
      | VDec m s => if m <? 0 then Err else fit U64 (round_div m s)
      | _ => Err
      end
    | CDecimal p s =>
      match to_dec x with
      | Some (m, s') =>
        let m' := if s' <=? s then m * 10 ^ (s - s') else round_div m (s' - s) in
        if (0 <=? s) && (s <=? p) && (Z.abs m' <? 10 ^ p) then Ok (VDec m' s) else Err
      | None => Err
      end
    | CChar => match print_val x with Some b => Ok (VStr b) | None => Err end
    end
  end.

Definition upper_byte (c : Z) : Z := if (97 <=? c) && (c <=? 122) then c - 32 else c.
(* SUBSTRING(str, pos, len) on bytes: pos is 1-based, negative counts from the end, 0 gives '' *)
Definition substr (b : list Z) (pos len : Z) : list Z :=
  let n := Z.of_nat (length b) in
  let start := if pos =? 0 then n + 1 else if pos <? 0 then n + pos else pos - 1 in
  if (start <? 0) || (n <=? start) || (len <=? 0) then []
  else firstn (Z.to_nat len) (skipn (Z.to_nat start) b).

Definition concat_val (x y : val) : res :=
  match x, y with
  | VNull, _ | _, VNull => Ok VNull
  | _, _ => match print_val x, print_val y with Some p, Some q => Ok (VStr (p ++ q)) | _, _ => Err end
  end.
Definition str_arg (x : val) : option (list Z) := match x with VNull => None | _ => print_val x end.

(* IN list: first equal element gives TRUE; otherwise NULL if a NULL element was seen, else FALSE *)
Definition in_go (ev : expr -> res) (x : val) : list expr -> bool -> res :=
  fix go (l : list expr) (sawnull : bool) : res :=
    match l with
    | [] => Ok (if sawnull then VNull else bool_val false)
    | y :: l' =>
      bindr (ev y) (fun v =>
        match v with
        | VNull => go l' true
        | _ => match cmp_vals x v with
               | Some Datatypes.Eq => Ok (bool_val true)
               | Some _ => go l' sawnull
               | None => Err
               end
        end)
    end.
(* searched CASE: the first branch whose condition is true, else ELSE, else NULL; the value is converted to the case type *)
Definition case_go (ev : expr -> res) (t : ty) (els : option expr) : list (expr * expr) -> res :=
  fix go (bs : list (expr * expr)) : res :=
    match bs with
    | [] => match els with Some x => bindr (ev x) (fun v => Ok (conv_to t v)) | None => Ok VNull end
    | p :: bs' =>
      bindr (ev (fst p)) (fun cv =>
        match truth cv with
        | Some (Some true) => bindr (ev (snd p)) (fun w => Ok (conv_to t w))
        | Some _ => go bs'
        | None => Err
        end)
    end.

(* GREATEST/LEAST compare and return integers through float64 (greatest_least.go: selectedNum float64): exact up to 2^53;
   beyond that the engine returns a rounded neighbour (a valid BIGINT, wrong value) and the model abstains *)
Definition flt_exact (p q : Z) : bool := (Z.abs p <=? 2 ^ 53) && (Z.abs q <=? 2 ^ 53).

(* an operand typed unsigned that holds a negative value (see the DIV rule) is outside the model: consumers abstain *)
Definition bad_unsigned (t : ty) (x : val) : bool :=
  is_unsigned t && match x with VInt z => z <? 0 | VDec m _ => m <? 0 | _ => false end.

Section Eval.
Variable s : schema.
Variable r : row.

Fixpoint eval (e : expr) : res :=
  match e with
  | EField i => Ok (nth i r VNull)
  | ELit x => Ok x
  | ENeg a => bindr (eval a) (neg_val (type_of s a))
  | EArith o a b => bindr (eval a) (fun x => bindr (eval b) (fun y => arith_val o (arith_ty o (type_of s a) (type_of s b)) x y))
  | EIntDiv a b => bindr (eval a) (fun x => bindr (eval b) (fun y =>
      if bad_unsigned (type_of s a) x || bad_unsigned (type_of s b) y then Err else intdiv_val (intdiv_ty (type_of s a) (type_of s b)) x y))
  | EMod a b => bindr (eval a) (fun x => bindr (eval b) (fun y => mod_val x y))
  | ECmp o a b => bindr (eval a) (fun x => bindr (eval b) (fun y => cmp_res o x y))
  | EAnd a b => bindr (eval a) (fun x => bindr (eval b) (fun y => and3 x y))
  | EOr a b => bindr (eval a) (fun x => bindr (eval b) (fun y => or3 x y))
  | ENot a => bindr (eval a) not3
  | EIsNull a => bindr (eval a) (fun x => Ok (bool_val (negb (notnull x))))
  | EIn a l => bindr (eval a) (fun x => match x with VNull => Ok VNull | _ => in_go eval x l false end)
  | EBetween a lo hi =>
    bindr (eval a) (fun x => bindr (eval lo) (fun l => bindr (eval hi) (fun h =>
      bindr (cmp_res Le l x) (fun p => bindr (cmp_res Ge h x) (fun q => and3 p q)))))
  | ECase bs els => case_go eval (type_of s (ECase bs els)) els bs
  | ENullIf a b =>
    bindr (eval a) (fun x => bindr (eval b) (fun y =>
      match x, y with
      | VNull, _ => Ok VNull
      | _, VNull => Ok x
      | _, _ => match cmp_vals x y with Some Datatypes.Eq => Ok VNull | Some _ => Ok x | None => Err end
      end))
  | EIfNull a b =>
    let t := generalize (type_of s a) (type_of s b) in
    bindr (eval a) (fun x => match x with VNull => bindr (eval b) (fun y => Ok (conv_to t y)) | _ => Ok (conv_to t x) end)
  | ECoalesce a b =>
    let t := coalesce_ty (type_of s a) (type_of s b) in
    bindr (eval a) (fun x => match x with VNull => bindr (eval b) (fun y => Ok (conv_to t y)) | _ => Ok (conv_to t x) end)
  | EIf c a b =>
    let t := generalize (type_of s a) (type_of s b) in
    bindr (eval c) (fun cv =>
      match truth cv with
      | Some (Some true) => bindr (eval a) (fun x => Ok (conv_to t x))
      | Some _ => bindr (eval b) (fun x => Ok (conv_to t x))
      | None => Err
      end)
  | EGreatest a b =>
    bindr (eval a) (fun x => bindr (eval b) (fun y =>
      if negb (is_integer (type_of s a) && is_integer (type_of s b)) then Err else
      match x, y with
      | VNull, _ | _, VNull => Ok VNull
      | VInt p, VInt q => if flt_exact p q then fit I64 (Z.max p q) else Err
      | _, _ => Err
      end))
  | ELeast a b =>
    bindr (eval a) (fun x => bindr (eval b) (fun y =>
      if negb (is_integer (type_of s a) && is_integer (type_of s b)) then Err else
      match x, y with
      | VNull, _ | _, VNull => Ok VNull
      | VInt p, VInt q => if flt_exact p q then fit I64 (Z.min p q) else Err
      | _, _ => Err
      end))
  | ECast a t => bindr (eval a) (fun x => if bad_unsigned (type_of s a) x then Err else cast_val t x)
  | EConcat a b =>
    bindr (eval a) (fun x => bindr (eval b) (fun y => concat_val x y))
  | EUpper a => bindr (eval a) (fun x => match x with VNull => Ok VNull | VStr b => Ok (VStr (map upper_byte b)) | _ => Err end)
  | ESubstr a pos len => bindr (eval a) (fun x => match x with VNull => Ok VNull | VStr b => Ok (VStr (substr b pos len)) | _ => Err end)
  | ELength a => bindr (eval a) (fun x => match x with VNull => Ok VNull | VStr b => fit I32 (Z.of_nat (length b)) | _ => Err end)
  end.
End Eval.

(* ---------------- the guard: expressions whose reported type is sound ---------------- *)
(* [holds a t]: every value of type a, converted as Case.Eval / If / IfNull / Coalesce do, is a value of type t *)
Definition holds (a t : ty) : bool :=
  ty_equals a t ||
  match a, t with
  | TNull, _ => true
  | (TStr | TBool | TInt _ | TDec _ _), TStr => true
  | TInt k, TInt k' => (ik_lo k' <=? ik_lo k) && (ik_hi k <=? ik_hi k')
  | TBool, TInt k' => (ik_lo k' <=? ik_lo I8) && (ik_hi I8 <=? ik_hi k')
  | TInt k, TDec p s => Z.max (- ik_lo k) (ik_hi k) <? 10 ^ (p - s)
  | TBool, TDec p s => 128 <? 10 ^ (p - s)
  | TDec q r, TDec p s => (r <=? s) && (q - r <=? p - s)
  | _, _ => false
  end.
Definition is_int_lit (e : expr) : option Z := match e with ELit (VInt z) => Some z | _ => None end.

Fixpoint well_typed (s : schema) (e : expr) : bool :=
  match e with
  | EField i => Nat.ltb i (length s)
  | ELit x => has_type (lit_ty x) x
  | ENeg a =>
    well_typed s a &&
    match type_of s a with   (* excluded: the unsigned kinds that keep their type, and the kinds whose minimum has no negation *)
    | TInt I8 | TInt I16 | TInt I32 | TInt I64 | TInt U32 | TInt U64 => true
    | TDec p sc => true
    | _ => false
    end
  | EArith o a b =>          (* integer arithmetic only: a DECIMAL result type is sized from the operand TYPES, not values *)
    well_typed s a && well_typed s b && is_integer (type_of s a) && is_integer (type_of s b)
  | EIntDiv a b =>           (* operands of the same signedness *)
    well_typed s a && well_typed s b &&
    ((is_unsigned (type_of s a) && is_unsigned (type_of s b)) || (is_signed (type_of s a) && is_signed (type_of s b)))
  | EMod a b =>              (* an integer literal operand bounds the result and its digits are counted by the type *)
    well_typed s a && well_typed s b && is_integer (type_of s a) && is_integer (type_of s b) &&
    match (match is_int_lit a with Some z => Some z | None => is_int_lit b end), type_of s (EMod a b) with
    | Some z, TDec p sc => Z.abs z <? 10 ^ (p - sc)
    | _, _ => false
    end
  | ECmp _ a b | EAnd a b | EOr a b | ENullIf a b => well_typed s a && well_typed s b
  | ENot a => well_typed s a && negb (match type_of s a with TNull => true | _ => false end)
  | EIsNull a => well_typed s a
  | EIn a l => well_typed s a && forallb (well_typed s) l
  | EBetween a b c => well_typed s a && well_typed s b && well_typed s c
  | ECase bs els =>
    (* every branch type can be held by the case type *)
    let t := type_of s (ECase bs els) in
    forallb (fun p => well_typed s (fst p) && well_typed s (snd p) && holds (type_of s (snd p)) t) bs &&
    match els with Some x => well_typed s x && holds (type_of s x) t | None => true end
  | EIfNull a b | ECoalesce a b =>
    well_typed s a && well_typed s b && holds (type_of s a) (type_of s e) && holds (type_of s b) (type_of s e)
  | EIf c a b => well_typed s c && well_typed s a && well_typed s b && holds (type_of s a) (type_of s e) && holds (type_of s b) (type_of s e)
  | EGreatest a b | ELeast a b => well_typed s a && well_typed s b && is_integer (type_of s a) && is_integer (type_of s b)
  | ECast a t => well_typed s a
  | EConcat a b => well_typed s a && well_typed s b
  | EUpper a | ESubstr a _ _ => well_typed s a && is_text (type_of s a)
  | ELength a => well_typed s a
  end.

Fixpoint eval_all (s : schema) (r : row) (es : list expr) : option row :=
  match es with
  | [] => Some []
  | e :: t => match eval s r e, eval_all s r t with Ok x, Some xs => Some (x :: xs) | _, _ => None end
  end.
Definition project_schema (s : schema) (es : list expr) : schema := map (fun e => Col (type_of s e) (nullable s e)) es.
