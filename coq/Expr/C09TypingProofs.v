(* C09 — soundness of the reported result type and nullability, by induction on expressions. *)
From Coq Require Import List ZArith Bool Lia.
Import ListNotations.
From GMS Require Import Expr.C09Typing.
Open Scope Z_scope.

Definition notnull (x : val) : bool := match x with VNull => false | _ => true end.

Lemma conforms_nth s : forall r i, conforms s r = true -> (i < length s)%nat ->
  conforms_col (nth i s (Col TInt true)) (nth i r VNull) = true.
Proof.
  induction s as [|c s IH]; intros [|x r] i H Hi; cbn in *; try discriminate; try lia.
  apply andb_prop in H. destruct H as [H1 H2]. destruct i; [exact H1|]. apply IH; [exact H2|lia].
Qed.

Lemma conforms_length s : forall r, conforms s r = true -> length r = length s.
Proof.
  induction s as [|c s IH]; intros [|x r] H; cbn in *; try discriminate; [reflexivity|].
  apply andb_prop in H. f_equal. apply IH. tauto.
Qed.

Lemma int_res_typed z x : int_res z = Ok x -> has_type TInt x = true /\ notnull x = true.
Proof. unfold int_res. destruct (int64_ok z) eqn:E; [|discriminate]. intros H. injection H as <-. cbn. auto. Qed.

Lemma bool_val_typed b : has_type TBool (bool_val b) = true.
Proof. destruct b; reflexivity. Qed.

Ltac tt := repeat match goal with
  | H : _ && _ = true |- _ => apply andb_prop in H; destruct H
  | H : _ || _ = false |- _ => apply orb_false_elim in H; destruct H
  end.

(* a numeric-typed value is NULL or an integer *)
Lemma numeric_val t x : numeric t = true -> has_type t x = true -> match x with VStr _ => False | _ => True end.
Proof. destruct t, x; cbn; try discriminate; auto. Qed.
Lemma str_val t x : ty_eqb t TStr = true -> has_type t x = true -> match x with VInt _ => False | _ => True end.
Proof. destruct t, x; cbn; try discriminate; auto. Qed.

Lemma has_type_join ta tb x : Bool.eqb (numeric ta) (numeric tb) = true ->
  (has_type ta x = true -> has_type (join_ty ta tb) x = true) /\ (has_type tb x = true -> has_type (join_ty ta tb) x = true).
Proof.
  destruct ta, tb, x as [|z|t]; cbn; intros H; split; intros T; try discriminate; try reflexivity; try exact T.
  all: unfold int64_ok; apply orb_prop in T; destruct T as [T|T]; apply Z.eqb_eq in T; subst; reflexivity.
Qed.

(* the main induction: type and nullability together *)
Theorem eval_sound s r : conforms s r = true -> forall e x, well_typed s e = true -> eval r e = Ok x ->
  has_type (type_of s e) x = true /\ (nullable s e = false -> notnull x = true).
Proof.
  intros HC. induction e as [i|l|a IHa|a IHa b IHb|a IHa b IHb|a IHa b IHb|a IHa b IHb|a IHa b IHb|a IHa b IHb|a IHa b IHb|a IHa|a IHa b IHb|c IHc a IHa b IHb|a IHa b IHb];
    intros x WT EV; cbn [well_typed type_of nullable eval] in *.
  - (* field *)
    apply Nat.ltb_lt in WT. injection EV as <-. pose proof (conforms_nth s r i HC WT) as H.
    unfold conforms_col in H. tt. split; [assumption|]. intros Hn. rewrite Hn in *. cbn in *.
    destruct (nth i r VNull); [discriminate|reflexivity|reflexivity].
  - injection EV as <-. split; [exact WT|]. destruct l; [discriminate|reflexivity|reflexivity].
  - (* neg *)
    tt. destruct (eval r a) as [[|z|t]|] eqn:Ea; try discriminate.
    + injection EV as <-. split; [reflexivity|]. intros Hn. destruct (IHa VNull H eq_refl) as [_ Hnn]. specialize (Hnn Hn). discriminate.
    + apply int_res_typed in EV. tauto.
    + exfalso. destruct (IHa (VStr t) H eq_refl) as [Ht _]. apply (numeric_val _ _ H0 Ht).
  - tt. destruct (eval r a) as [[|z|t]|] eqn:Ea; destruct (eval r b) as [[|w|u]|] eqn:Eb; cbn [bin_int] in EV; try discriminate;
      try (apply int_res_typed in EV; tauto);
      try (injection EV as <-; split; [reflexivity|]; intros Hn; tt;
           try (destruct (IHa VNull H eq_refl) as [_ Q]; specialize (Q H3); discriminate);
           try (destruct (IHb VNull H2 eq_refl) as [_ Q]; specialize (Q H4); discriminate)).
    all: exfalso; first [destruct (IHa _ H eq_refl) as [Ht _]; apply (numeric_val _ _ H1 Ht) | destruct (IHb _ H2 eq_refl) as [Ht _]; apply (numeric_val _ _ H0 Ht)].
  - tt. destruct (eval r a) as [[|z|t]|] eqn:Ea; destruct (eval r b) as [[|w|u]|] eqn:Eb; cbn [bin_int] in EV; try discriminate;
      try (apply int_res_typed in EV; tauto);
      try (injection EV as <-; split; [reflexivity|]; intros Hn; tt;
           try (destruct (IHa VNull H eq_refl) as [_ Q]; specialize (Q H3); discriminate);
           try (destruct (IHb VNull H2 eq_refl) as [_ Q]; specialize (Q H4); discriminate)).
    all: exfalso; first [destruct (IHa _ H eq_refl) as [Ht _]; apply (numeric_val _ _ H1 Ht) | destruct (IHb _ H2 eq_refl) as [Ht _]; apply (numeric_val _ _ H0 Ht)].
  - tt. destruct (eval r a) as [[|z|t]|] eqn:Ea; destruct (eval r b) as [[|w|u]|] eqn:Eb; cbn [bin_int] in EV; try discriminate;
      try (apply int_res_typed in EV; tauto);
      try (injection EV as <-; split; [reflexivity|]; intros Hn; tt;
           try (destruct (IHa VNull H eq_refl) as [_ Q]; specialize (Q H3); discriminate);
           try (destruct (IHb VNull H2 eq_refl) as [_ Q]; specialize (Q H4); discriminate)).
    all: exfalso; first [destruct (IHa _ H eq_refl) as [Ht _]; apply (numeric_val _ _ H1 Ht) | destruct (IHb _ H2 eq_refl) as [Ht _]; apply (numeric_val _ _ H0 Ht)].
  - (* intdiv: always nullable *)
    split; [|discriminate]. tt.
    destruct (eval r a) as [[|z|t]|] eqn:Ea; destruct (eval r b) as [[|w|u]|] eqn:Eb; cbn [bin_int] in EV; try discriminate;
      try (injection EV as <-; reflexivity).
    destruct (w =? 0); [injection EV as <-; reflexivity|]. apply int_res_typed in EV. tauto.
  - split; [|discriminate]. tt.
    destruct (eval r a) as [[|z|t]|] eqn:Ea; destruct (eval r b) as [[|w|u]|] eqn:Eb; cbn [bin_int] in EV; try discriminate;
      try (injection EV as <-; reflexivity).
    destruct (w =? 0); [injection EV as <-; reflexivity|]. apply int_res_typed in EV. tauto.
  - (* eq *)
    destruct (well_typed s a) eqn:Wa; [|discriminate]. destruct (well_typed s b) eqn:Wb; [|discriminate]. cbn [andb] in WT.
    destruct (eval r a) as [[|z|t]|] eqn:Ea; destruct (eval r b) as [[|w|u]|] eqn:Eb; try discriminate;
      injection EV as <-; (split; [try reflexivity; apply bool_val_typed|]); intros Hn; tt; try reflexivity.
    all: try (destruct (IHa VNull eq_refl eq_refl) as [_ Q]; specialize (Q H); discriminate).
    all: try (destruct (IHb VNull eq_refl eq_refl) as [_ Q]; specialize (Q H0); discriminate).
    all: exfalso; destruct (IHa _ eq_refl eq_refl) as [Ta _]; destruct (IHb _ eq_refl eq_refl) as [Tb _];
      apply orb_prop in WT; destruct WT as [WT|WT]; tt;
      first [apply (numeric_val _ _ H1 Ta) | apply (numeric_val _ _ H2 Tb) | apply (str_val _ _ H1 Ta) | apply (str_val _ _ H2 Tb)].
  - destruct (well_typed s a) eqn:Wa; [|discriminate]. destruct (well_typed s b) eqn:Wb; [|discriminate]. cbn [andb] in WT.
    destruct (eval r a) as [[|z|t]|] eqn:Ea; destruct (eval r b) as [[|w|u]|] eqn:Eb; try discriminate;
      injection EV as <-; (split; [try reflexivity; apply bool_val_typed|]); intros Hn; tt; try reflexivity.
    all: try (destruct (IHa VNull eq_refl eq_refl) as [_ Q]; specialize (Q H); discriminate).
    all: try (destruct (IHb VNull eq_refl eq_refl) as [_ Q]; specialize (Q H0); discriminate).
    all: exfalso; destruct (IHa _ eq_refl eq_refl) as [Ta _]; destruct (IHb _ eq_refl eq_refl) as [Tb _];
      apply orb_prop in WT; destruct WT as [WT|WT]; tt;
      first [apply (numeric_val _ _ H1 Ta) | apply (numeric_val _ _ H2 Tb) | apply (str_val _ _ H1 Ta) | apply (str_val _ _ H2 Tb)].
  - (* is null *)
    destruct (eval r a) as [[|z|t]|]; try discriminate; injection EV as <-; split; auto.
  - (* coalesce *)
    apply andb_prop in WT. destruct WT as [WT Hty]. apply andb_prop in WT. destruct WT as [Wa Wb].
    destruct (eval r a) as [[|z|t]|] eqn:Ea; try discriminate.
    + destruct (IHb x Wb EV) as [Tb Nb]. split; [exact (proj2 (has_type_join _ _ x Hty) Tb)|]. intros Hn.
      apply andb_false_elim in Hn. destruct Hn as [Hn|Hn]; [|apply Nb; exact Hn].
      destruct (IHa VNull Wa eq_refl) as [_ Q]. specialize (Q Hn). discriminate.
    + injection EV as <-. destruct (IHa (VInt z) Wa eq_refl) as [Ta _]. split; [exact (proj1 (has_type_join _ _ _ Hty) Ta)|reflexivity].
    + injection EV as <-. destruct (IHa (VStr t) Wa eq_refl) as [Ta _]. split; [exact (proj1 (has_type_join _ _ _ Hty) Ta)|reflexivity].
  - (* if *)
    apply andb_prop in WT. destruct WT as [WT Hty]. apply andb_prop in WT. destruct WT as [WT Wb].
    apply andb_prop in WT. destruct WT as [Wc Wa].
    assert (B : eval r b = Ok x -> has_type (join_ty (type_of s a) (type_of s b)) x = true /\ (nullable s a || nullable s b = false -> notnull x = true)).
    { intros E. destruct (IHb x Wb E) as [Tb Nb]. split; [exact (proj2 (has_type_join _ _ x Hty) Tb)|]. intros Hn.
      apply orb_false_elim in Hn. destruct Hn as [_ Hn]. auto. }
    assert (A : eval r a = Ok x -> has_type (join_ty (type_of s a) (type_of s b)) x = true /\ (nullable s a || nullable s b = false -> notnull x = true)).
    { intros E. destruct (IHa x Wa E) as [Ta Na]. split; [exact (proj1 (has_type_join _ _ x Hty) Ta)|]. intros Hn.
      apply orb_false_elim in Hn. destruct Hn as [Hn _]. auto. }
    destruct (eval r c) as [[|z|t]|]; try discriminate; auto. destruct (z =? 0); auto.
  - (* concat *)
    apply andb_prop in WT. destruct WT as [WT Tb]. apply andb_prop in WT. destruct WT as [WT Ta].
    apply andb_prop in WT. destruct WT as [Wa Wb].
    destruct (eval r a) as [[|z|t]|] eqn:Ea; destruct (eval r b) as [[|w|u]|] eqn:Eb; try discriminate;
      injection EV as <-; (split; [reflexivity|]); intros Hn; apply orb_false_elim in Hn; destruct Hn as [Hna Hnb]; try reflexivity.
    all: try (destruct (IHa VNull Wa eq_refl) as [_ Q]; specialize (Q Hna); discriminate).
    all: try (destruct (IHb VNull Wb eq_refl) as [_ Q]; specialize (Q Hnb); discriminate).
    all: exfalso; first [destruct (IHa _ Wa eq_refl) as [Ha _]; apply (str_val _ _ Ta Ha) | destruct (IHb _ Wb eq_refl) as [Hb _]; apply (str_val _ _ Tb Hb)].
Qed.

(* ---------------- corollaries in the shape of the property ---------------- *)
Theorem eval_has_type s r e x : conforms s r = true -> well_typed s e = true -> eval r e = Ok x ->
  has_type (type_of s e) x = true.
Proof. intros HC WT EV. exact (proj1 (eval_sound s r HC e x WT EV)). Qed.

Theorem not_null_sound s r e : conforms s r = true -> well_typed s e = true -> nullable s e = false ->
  eval r e <> Ok VNull.
Proof.
  intros HC WT HN EV. pose proof (proj2 (eval_sound s r HC e VNull WT EV) HN) as H. discriminate.
Qed.

(* projections: every produced row conforms to the reported schema *)
Fixpoint eval_all (r : row) (es : list expr) : option row :=
  match es with
  | [] => Some []
  | e :: t => match eval r e, eval_all r t with Ok x, Some xs => Some (x :: xs) | _, _ => None end
  end.

Theorem project_conforms s r : conforms s r = true -> forall es out,
  forallb (well_typed s) es = true -> eval_all r es = Some out -> conforms (project_schema s es) out = true.
Proof.
  intros HC. unfold project_schema. induction es as [|e t IH]; intros out WT EV; cbn [forallb eval_all map] in *.
  - injection EV as <-. reflexivity.
  - apply andb_prop in WT. destruct WT as [We Wt].
    destruct (eval r e) as [x|] eqn:Ee; [|discriminate]. destruct (eval_all r t) as [xs|] eqn:Et; [|discriminate].
    injection EV as <-. cbn [conforms]. rewrite (IH xs Wt eq_refl), andb_true_r.
    destruct (eval_sound s r HC e x We Ee) as [T N]. unfold conforms_col. cbn [c_ty c_nullable]. rewrite T. cbn [andb].
    destruct (nullable s e); [reflexivity|]. specialize (N eq_refl). destruct x; [discriminate|reflexivity|reflexivity].
Qed.

(* making columns nullable never invalidates a row; an all-NULL row conforms to an all-nullable schema *)
Lemma conforms_weaken a : forall b r, same_types a b = true ->
  forallb (fun p => implb (c_nullable (fst p)) (c_nullable (snd p))) (combine a b) = true ->
  conforms a r = true -> conforms b r = true.
Proof.
  induction a as [|ca a IH]; intros [|cb b] r ST NB HC; cbn in *; try discriminate; [destruct r; [reflexivity|discriminate]|].
  destruct r as [|x r]; [discriminate|].
  unfold same_types in ST. cbn in ST. apply andb_prop in ST. destruct ST as [SL ST]. apply andb_prop in ST. destruct ST as [ST1 ST2].
  apply andb_prop in NB. destruct NB as [NB1 NB2]. apply andb_prop in HC. destruct HC as [HC1 HC2].
  apply andb_true_intro. split.
  - unfold conforms_col in *. apply andb_prop in HC1. destruct HC1 as [T N].
    assert (E : c_ty cb = c_ty ca) by (destruct (c_ty ca), (c_ty cb); cbn in ST1; try discriminate; reflexivity).
    rewrite E, T. cbn. destruct (c_nullable ca), (c_nullable cb); cbn in *; try discriminate; auto.
  - apply IH; [|exact NB2|exact HC2]. unfold same_types. rewrite SL. exact ST2.
Qed.

Lemma nulls_conform s : conforms (make_nullable s) (repeat VNull (length s)) = true.
Proof. unfold make_nullable. induction s as [|c s IH]; cbn [map length repeat conforms]; [reflexivity|]. rewrite IH. reflexivity. Qed.

Lemma conforms_app a : forall b ra rb, conforms a ra = true -> conforms b rb = true -> conforms (a ++ b) (ra ++ rb) = true.
Proof.
  induction a as [|c a IH]; intros b [|x ra] rb HA HB; cbn in *; try discriminate; [exact HB|].
  apply andb_prop in HA. destruct HA as [H1 H2]. rewrite H1. cbn. apply IH; assumption.
Qed.

Lemma make_nullable_conforms s : forall r, conforms s r = true -> conforms (make_nullable s) r = true.
Proof.
  unfold make_nullable. induction s as [|c s IH]; intros [|x r] H; cbn [map conforms] in *; try discriminate; [reflexivity|].
  apply andb_prop in H. destruct H as [H1 H2]. rewrite (IH r H2), andb_true_r.
  unfold conforms_col in *. cbn [c_ty c_nullable]. apply andb_prop in H1. destruct H1 as [T _]. rewrite T. reflexivity.
Qed.

(* LEFT JOIN: matched rows and NULL-padded unmatched rows both conform to the join schema *)
Theorem left_join_conforms l r rl rr : conforms l rl = true -> conforms r rr = true ->
  conforms (left_join_schema l r) (rl ++ rr) = true /\ conforms (left_join_schema l r) (pad rl (length r)) = true.
Proof.
  intros HL HR. unfold left_join_schema, pad. split; apply conforms_app; try assumption.
  - apply make_nullable_conforms. exact HR.
  - apply nulls_conform.
Qed.

(* UNION: rows of either input conform to the unified schema *)
Theorem union_conforms a b r : same_types a b = true ->
  (conforms a r = true -> conforms (union_schema a b) r = true) /\
  (conforms b r = true -> conforms (union_schema a b) r = true).
Proof.
  revert b r. induction a as [|ca a IH]; intros [|cb b] r ST; cbn in *; try discriminate; [tauto|].
  unfold same_types in ST. cbn in ST. apply andb_prop in ST. destruct ST as [SL ST]. apply andb_prop in ST. destruct ST as [ST1 ST2].
  assert (STt : same_types a b = true) by (unfold same_types; rewrite SL; exact ST2).
  assert (E : c_ty cb = c_ty ca) by (destruct (c_ty ca), (c_ty cb); cbn in ST1; try discriminate; reflexivity).
  destruct r as [|x r]; [split; discriminate|]. destruct (IH b r STt) as [IA IB].
  split; intros H; apply andb_prop in H; destruct H as [H1 H2]; apply andb_true_intro; split; auto;
    unfold conforms_col in *; cbn; apply andb_prop in H1; destruct H1 as [T N]; rewrite <- ?E in *; rewrite ?E in *; rewrite T; cbn;
    destruct (c_nullable ca), (c_nullable cb); cbn in *; auto.
Qed.
