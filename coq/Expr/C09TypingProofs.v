(* C09 — soundness of the reported result type and nullability, by one structural induction on expressions. *)
From Coq Require Import List ZArith Bool Lia.
Import ListNotations.
From GMS Require Import Expr.C09Typing.
Open Scope Z_scope.

Ltac tt := repeat match goal with
  | H : _ && _ = true |- _ => apply andb_prop in H; destruct H
  | H : _ || _ = false |- _ => apply orb_false_elim in H; destruct H
  end.

(* ---------------- induction principle with the nested lists ---------------- *)
Definition opt_P (P : expr -> Prop) (o : option expr) : Prop := match o with Some x => P x | None => True end.
Section ExprInd.
  Variable P : expr -> Prop.
  Hypothesis HField : forall i, P (EField i).
  Hypothesis HLit : forall x, P (ELit x).
  Hypothesis HNeg : forall a, P a -> P (ENeg a).
  Hypothesis HArith : forall o a b, P a -> P b -> P (EArith o a b).
  Hypothesis HIntDiv : forall a b, P a -> P b -> P (EIntDiv a b).
  Hypothesis HMod : forall a b, P a -> P b -> P (EMod a b).
  Hypothesis HCmp : forall o a b, P a -> P b -> P (ECmp o a b).
  Hypothesis HAnd : forall a b, P a -> P b -> P (EAnd a b).
  Hypothesis HOr : forall a b, P a -> P b -> P (EOr a b).
  Hypothesis HNot : forall a, P a -> P (ENot a).
  Hypothesis HIsNull : forall a, P a -> P (EIsNull a).
  Hypothesis HIn : forall a l, P a -> Forall P l -> P (EIn a l).
  Hypothesis HBetween : forall a b c, P a -> P b -> P c -> P (EBetween a b c).
  Hypothesis HCase : forall bs els, Forall (fun p => P (fst p) /\ P (snd p)) bs ->
    opt_P P els -> P (ECase bs els).
  Hypothesis HNullIf : forall a b, P a -> P b -> P (ENullIf a b).
  Hypothesis HIfNull : forall a b, P a -> P b -> P (EIfNull a b).
  Hypothesis HCoalesce : forall a b, P a -> P b -> P (ECoalesce a b).
  Hypothesis HIf : forall c a b, P c -> P a -> P b -> P (EIf c a b).
  Hypothesis HGreatest : forall a b, P a -> P b -> P (EGreatest a b).
  Hypothesis HLeast : forall a b, P a -> P b -> P (ELeast a b).
  Hypothesis HCast : forall a t, P a -> P (ECast a t).
  Hypothesis HConcat : forall a b, P a -> P b -> P (EConcat a b).
  Hypothesis HUpper : forall a, P a -> P (EUpper a).
  Hypothesis HSubstr : forall a p n, P a -> P (ESubstr a p n).
  Hypothesis HLength : forall a, P a -> P (ELength a).

  Fixpoint expr_rect' (e : expr) : P e :=
    match e with
    | EField i => HField i | ELit x => HLit x
    | ENeg a => HNeg a (expr_rect' a)
    | EArith o a b => HArith o a b (expr_rect' a) (expr_rect' b)
    | EIntDiv a b => HIntDiv a b (expr_rect' a) (expr_rect' b)
    | EMod a b => HMod a b (expr_rect' a) (expr_rect' b)
    | ECmp o a b => HCmp o a b (expr_rect' a) (expr_rect' b)
    | EAnd a b => HAnd a b (expr_rect' a) (expr_rect' b)
    | EOr a b => HOr a b (expr_rect' a) (expr_rect' b)
    | ENot a => HNot a (expr_rect' a)
    | EIsNull a => HIsNull a (expr_rect' a)
    | EIn a l => HIn a l (expr_rect' a)
        ((fix go (l : list expr) : Forall P l :=
            match l with [] => Forall_nil _ | x :: t => Forall_cons x (expr_rect' x) (go t) end) l)
    | EBetween a b c => HBetween a b c (expr_rect' a) (expr_rect' b) (expr_rect' c)
    | ECase bs els => HCase bs els
        ((fix go (l : list (expr * expr)) : Forall (fun p => P (fst p) /\ P (snd p)) l :=
            match l with
            | [] => Forall_nil _
            | p :: t => Forall_cons p (conj (expr_rect' (fst p)) (expr_rect' (snd p))) (go t)
            end) bs)
        (match els as o return opt_P P o with Some x => expr_rect' x | None => I end)
    | ENullIf a b => HNullIf a b (expr_rect' a) (expr_rect' b)
    | EIfNull a b => HIfNull a b (expr_rect' a) (expr_rect' b)
    | ECoalesce a b => HCoalesce a b (expr_rect' a) (expr_rect' b)
    | EIf c a b => HIf c a b (expr_rect' c) (expr_rect' a) (expr_rect' b)
    | EGreatest a b => HGreatest a b (expr_rect' a) (expr_rect' b)
    | ELeast a b => HLeast a b (expr_rect' a) (expr_rect' b)
    | ECast a t => HCast a t (expr_rect' a)
    | EConcat a b => HConcat a b (expr_rect' a) (expr_rect' b)
    | EUpper a => HUpper a (expr_rect' a)
    | ESubstr a p n => HSubstr a p n (expr_rect' a)
    | ELength a => HLength a (expr_rect' a)
    end.
End ExprInd.

(* ---------------- rows ---------------- *)
Lemma conforms_nth s : forall r i, conforms s r = true -> conforms_col (nth i s dflt) (nth i r VNull) = true.
Proof.
  induction s as [|c s IH]; intros [|x r] i H; cbn [conforms] in H; try discriminate.
  - destruct i; reflexivity.
  - apply andb_prop in H. destruct H as [H1 H2]. destruct i; cbn [nth]; [exact H1|]. apply IH. exact H2.
Qed.
Lemma conforms_length s : forall r, conforms s r = true -> length r = length s.
Proof.
  induction s as [|c s IH]; intros [|x r] H; cbn [conforms] in H; try discriminate; [reflexivity|].
  apply andb_prop in H. cbn [length]. f_equal. apply IH. tauto.
Qed.

(* ---------------- value-level lemmas, one group per operator ---------------- *)
Lemma fit_typed k z x : fit k z = Ok x -> has_type (TInt k) x = true /\ notnull x = true.
Proof. unfold fit. destruct (in_kind k z) eqn:E; [|discriminate]. intros H. injection H as <-. cbn. auto. Qed.
Lemma bool_val_typed b : has_type TBool (bool_val b) = true.
Proof. destruct b; reflexivity. Qed.
Lemma bool_val_notnull b : notnull (bool_val b) = true.
Proof. reflexivity. Qed.

(* a value of an integer type is NULL or an integer in the range of the kind *)
Lemma int_shape t x : is_integer t = true -> has_type t x = true ->
  x = VNull \/ exists z, x = VInt z /\ (is_unsigned t = true -> 0 <= z).
Proof.
  intros Hi Ht. destruct x as [|z|m sc|n d|b]; [left; reflexivity| |destruct t; discriminate..].
  right. exists z. split; [reflexivity|]. intros Hu. destruct t as [| |k| | |]; try discriminate.
  cbn in Ht. unfold in_kind in Ht. apply andb_prop in Ht. destruct Ht as [L _]. apply Z.leb_le in L.
  destruct k; cbn in Hu; try discriminate; cbn in L; exact L.
Qed.

(* negation *)
Lemma sw_range w z : 0 < w -> - two (w - 1) <= sw w z < two (w - 1).
Proof.
  intros Hw. unfold sw, two.
  assert (E : 2 ^ w = 2 * 2 ^ (w - 1)) by (rewrite <- Z.pow_succ_r by lia; f_equal; lia).
  assert (Hp : 0 < 2 ^ (w - 1)) by (apply Z.pow_pos_nonneg; lia).
  rewrite E. set (h := 2 ^ (w - 1)) in *. clearbody h.
  assert (B : 0 <= z mod (2 * h) < 2 * h) by (apply Z.mod_pos_bound; lia).
  set (m := z mod (2 * h)) in *. clearbody m.
  destruct (m <? h) eqn:L; [apply Z.ltb_lt in L|apply Z.ltb_ge in L]; lia.
Qed.
Lemma two31 : two (32 - 1) = 2147483648. Proof. reflexivity. Qed.
Lemma two63 : two (64 - 1) = 9223372036854775808. Proof. reflexivity. Qed.

Definition neg_guard (t : ty) : bool :=
  match t with TInt I8 | TInt I16 | TInt I32 | TInt I64 | TInt U32 | TInt U64 => true | TDec _ _ => true | _ => false end.
Lemma neg_typed t x v : neg_guard t = true -> has_type t x = true -> neg_val t x = Ok v -> has_type (neg_ty t) v = true.
Proof.
  intros G T E. destruct x as [|z|m sc|n d|b]; cbn [neg_val] in E; try discriminate.
  - injection E as <-. reflexivity.
  - destruct t as [| |k|p s| |]; try discriminate.
    + destruct k; try discriminate; cbn [neg_ty].
      * injection E as <-. cbn in *. unfold in_kind, ik_lo, ik_hi in *. lia.
      * injection E as <-. cbn in *. unfold in_kind, ik_lo, ik_hi in *. lia.
      * injection E as <-. cbn in *. unfold in_kind, ik_lo, ik_hi in *. lia.
      * injection E as <-. pose proof (sw_range 32 (- sw 32 z) ltac:(lia)) as B. rewrite two31 in B.
        cbn [has_type]. unfold in_kind, ik_lo, ik_hi. lia.
      * destruct (z =? ik_lo I64) eqn:Z0; [discriminate|]. injection E as <-. apply Z.eqb_neq in Z0.
        cbn [has_type] in *. unfold in_kind, ik_lo, ik_hi in *. lia.
      * injection E as <-. pose proof (sw_range 64 (- sw 64 z) ltac:(lia)) as B. rewrite two63 in B.
        cbn [has_type]. unfold in_kind, ik_lo, ik_hi. lia.
    + injection E as <-. cbn [neg_ty has_type] in *. rewrite Z.abs_opp. exact T.
  - injection E as <-. destruct t; try discriminate. cbn [neg_ty has_type] in *. rewrite Z.abs_opp. exact T.
Qed.
Lemma neg_notnull t x v : neg_val t x = Ok v -> notnull x = true -> notnull v = true.
Proof.
  destruct x as [|z|m sc|n d|b]; cbn [neg_val]; intros E N; try discriminate.
  - destruct t as [| |k| | |]; try discriminate; try (injection E as <-; reflexivity).
    destruct k; try (injection E as <-; reflexivity). destruct (z =? ik_lo I64); [discriminate|]. injection E as <-. reflexivity.
  - injection E as <-. reflexivity.
Qed.

(* + - * *)
Lemma arith_int_ty o l r : is_integer l = true -> is_integer r = true -> exists k, arith_ty o l r = TInt k.
Proof.
  intros Hl Hr. unfold arith_ty.
  assert (is_text l = false) as -> by (destruct l; try reflexivity; discriminate).
  assert (is_text r = false) as -> by (destruct r; try reflexivity; discriminate). cbn [orb].
  assert ((match l, r with TDbl, _ | _, TDbl => true | _, _ => false end) = false) as ->
    by (destruct l, r; try reflexivity; discriminate).
  destruct (is_unsigned l && is_unsigned r); [eauto|]. rewrite Hl, Hr. cbn. eauto.
Qed.
Lemma arith_typed o k x y v : arith_val o (TInt k) x y = Ok v -> has_type (TInt k) v = true.
Proof.
  unfold arith_val. destruct x as [|a|m1 s1|n1 d1|b1], y as [|b|m2 s2|n2 d2|b2]; intros E; try discriminate; try (injection E as <-; reflexivity).
  destruct (in_kind k a && in_kind k b); [|discriminate]. apply fit_typed in E. tauto.
Qed.
Lemma arith_notnull o t x y v : arith_val o t x y = Ok v -> notnull x = true -> notnull y = true -> notnull v = true.
Proof.
  intros E Nx Ny. destruct x as [|a|m1 s1|n1 d1|b1]; try discriminate; destruct y as [|b|m2 s2|n2 d2|b2]; try discriminate;
  unfold arith_val in E; destruct t as [| |k|p s| |]; try discriminate; cbn [to_dec] in E; try discriminate;
  try (destruct (in_kind k a && in_kind k b); [apply fit_typed in E; tauto|discriminate]);
  destruct o; unfold align in E; cbn [fst snd] in E; injection E as <-; reflexivity.
Qed.

(* DIV *)
Lemma align_ints z w : align (z, 0) (w, 0) = (z, w, 0).
Proof. unfold align. cbn [fst snd]. change (Z.max 0 0) with 0. change (10 ^ (0 - 0)) with 1. rewrite !Z.mul_1_r. reflexivity. Qed.
Lemma intdiv_typed l r x y v :
  (is_unsigned l && is_unsigned r) || (is_signed l && is_signed r) = true ->
  has_type l x = true -> has_type r y = true -> intdiv_val (intdiv_ty l r) x y = Ok v -> has_type (intdiv_ty l r) v = true.
Proof.
  intros G Tx Ty E.
  assert (Il : is_integer l = true) by (unfold is_integer; destruct (is_unsigned l), (is_signed l); cbn in *; try reflexivity; discriminate).
  assert (Ir : is_integer r = true) by (unfold is_integer; destruct (is_unsigned r), (is_signed r), (is_unsigned l), (is_signed l); cbn in *; try reflexivity; discriminate).
  destruct (int_shape l x Il Tx) as [->|[z [-> Pz]]]; [cbn in E; injection E as <-; reflexivity|].
  destruct (int_shape r y Ir Ty) as [->|[w [-> Pw]]]; [cbn in E; injection E as <-; reflexivity|].
  unfold intdiv_val in E. cbn [to_dec] in E. rewrite align_ints in E.
  destruct (w =? 0) eqn:W0; [injection E as <-; reflexivity|]. apply Z.eqb_neq in W0.
  destruct (in_kind I64 (z ÷ w)) eqn:K; [|discriminate]. injection E as <-.
  unfold intdiv_ty. destruct (is_unsigned l) eqn:Ul.
  - destruct (is_unsigned r) eqn:Ur.
    + cbn [orb has_type]. specialize (Pz eq_refl). specialize (Pw eq_refl).
      assert (0 <= z ÷ w) by (apply Z.quot_pos; lia).
      unfold in_kind, ik_lo, ik_hi in *. lia.
    + exfalso. cbn in G. destruct l as [| |k| | |]; try discriminate. cbn in Ul, G. destruct (ik_signed k); discriminate.
  - destruct (is_unsigned r) eqn:Ur; [|exact K].
    exfalso. cbn in G. destruct r as [| |k| | |]; try discriminate. cbn in Ur, G. rewrite andb_comm in G. destruct (ik_signed k); cbn in *; discriminate.
Qed.

(* % with an integer literal operand *)
Lemma rem_le_abs a b : b <> 0 -> Z.abs (Z.rem a b) <= Z.abs a /\ Z.abs (Z.rem a b) < Z.abs b.
Proof.
  intros Hb. rewrite <- Z.rem_abs by exact Hb. assert (0 < Z.abs b) by lia.
  rewrite Z.rem_mod_nonneg by lia. pose proof (Z.mod_pos_bound (Z.abs a) (Z.abs b) ltac:(lia)).
  split; [apply Z.mod_le; lia|lia].
Qed.
Lemma mod_typed p sc x y v lim :
  (x = VNull \/ exists z, x = VInt z) -> (y = VNull \/ exists z, y = VInt z) ->
  (x = VInt lim \/ y = VInt lim) -> Z.abs lim < 10 ^ (p - sc) ->
  mod_val x y = Ok v -> has_type (TDec p sc) v = true.
Proof.
  intros [->|[a ->]] [->|[b ->]] L B E; cbn [mod_val] in E; try (injection E as <-; reflexivity).
  destruct (b =? 0) eqn:B0; [injection E as <-; reflexivity|]. apply Z.eqb_neq in B0. injection E as <-.
  cbn [has_type]. apply Z.ltb_lt. destruct (rem_le_abs a b B0) as [R1 R2].
  destruct L as [L|L]; injection L as ->; lia.
Qed.

(* comparisons and logic *)
Lemma cmp_res_sound o x y v : cmp_res o x y = Ok v ->
  has_type TBool v = true /\ (notnull x = true -> notnull y = true -> notnull v = true).
Proof.
  unfold cmp_res. intros E.
  destruct x as [|a|m1 s1|n1 d1|b1]; try (injection E as <-; split; [reflexivity|discriminate]);
  destruct y as [|b|m2 s2|n2 d2|b2]; try (injection E as <-; split; [reflexivity|intros; discriminate]);
  match type of E with (match ?c with _ => _ end) = _ => destruct c end; try discriminate;
  injection E as <-; split; auto using bool_val_typed.
Qed.
Lemma and3_sound x y v : and3 x y = Ok v ->
  has_type TBool v = true /\ (notnull x = true -> notnull y = true -> notnull v = true).
Proof.
  unfold and3. intros E.
  destruct x as [|a|m s1|n d1|b1]; cbn [truth] in E;
  repeat match type of E with context [negb ?c] => destruct c; cbn [negb] in E end;
  destruct y as [|b|m' s2|n' d2|b2]; cbn [truth] in E;
  repeat match type of E with context [negb ?c] => destruct c; cbn [negb] in E end;
  try discriminate; injection E as <-; split; try reflexivity; intros; try reflexivity; discriminate.
Qed.
Lemma or3_sound x y v : or3 x y = Ok v ->
  has_type TBool v = true /\ (notnull x = true -> notnull y = true -> notnull v = true).
Proof.
  unfold or3. intros E.
  destruct x as [|a|m s1|n d1|b1]; cbn [truth] in E;
  repeat match type of E with context [negb ?c] => destruct c; cbn [negb] in E end;
  destruct y as [|b|m' s2|n' d2|b2]; cbn [truth] in E;
  repeat match type of E with context [negb ?c] => destruct c; cbn [negb] in E end;
  try discriminate; injection E as <-; split; try reflexivity; intros; try reflexivity; discriminate.
Qed.
Lemma not3_sound x v : not3 x = Ok v -> has_type TBool v = true /\ (notnull x = true -> notnull v = true).
Proof.
  unfold not3. intros E. destruct x as [|a|m s1|n d1|b1]; cbn [truth] in E; try discriminate;
  injection E as <-; split; auto using bool_val_typed; try discriminate.
Qed.

(* IN *)
Lemma in_go_typed ev x : forall l sn v, in_go ev x l sn = Ok v -> has_type TBool v = true.
Proof.
  induction l as [|y l IH]; intros sn v E; cbn [in_go] in E.
  - injection E as <-. destruct sn; reflexivity.
  - destruct (ev y) as [w|]; [|discriminate]. cbn [bindr] in E.
    destruct w; try (eapply IH; exact E);
    (destruct (cmp_vals x _) as [[| |]|]; [injection E as <-; reflexivity|eapply IH; exact E|eapply IH; exact E|discriminate]).
Qed.

(* conversion to the type of a CASE / IF / IFNULL / COALESCE *)
Lemma conv_notnull t x : notnull (conv_to t x) = notnull x.
Proof. destruct t, x; try reflexivity; unfold conv_to; destruct (print_val _); reflexivity. Qed.
Lemma print_some_int z : exists b, print_val (VInt z) = Some b. Proof. unfold print_val. eauto. Qed.
Lemma print_some_dec m s : exists b, print_val (VDec m s) = Some b. Proof. unfold print_val. destruct (s <=? 0); eauto. Qed.
Lemma ikind_eqb_eq a b : ikind_eqb a b = true -> a = b.
Proof. destruct a, b; cbn; intros; try discriminate; reflexivity. Qed.
Lemma ty_equals_has_type a t x : ty_equals a t = true -> has_type a x = true -> has_type t x = true.
Proof.
  intros E T. destruct a as [| |k|p s| |], t as [| |k'|p' s'| |]; cbn in E; try discriminate; try exact T;
  try (apply ikind_eqb_eq in E; subst; exact T);
  try (apply andb_prop in E; destruct E as [E1 E2]; apply Z.eqb_eq in E1, E2; subst; exact T);
  try (destruct k'; try discriminate; exact T); try (destruct k; try discriminate; exact T);
  destruct k; apply ikind_eqb_eq in E; subst; exact T.
Qed.
Lemma holds_sound a t x : holds a t = true -> has_type a x = true -> has_type t (conv_to t x) = true.
Proof.
  intros H T. destruct x as [|z|m sc|n d|b].
  - destruct t; reflexivity.
  - (* integer value *)
    destruct t as [| |k'|p s| |].
    + unfold holds in H. apply orb_prop in H. destruct H as [H|H]; [exact (ty_equals_has_type _ _ _ H T)|]. destruct a; discriminate.
    + unfold holds in H. apply orb_prop in H. destruct H as [H|H]; [exact (ty_equals_has_type _ _ _ H T)|]. destruct a; discriminate.
    + unfold holds in H. apply orb_prop in H. destruct H as [H|H]; [exact (ty_equals_has_type _ _ _ H T)|].
      destruct a as [| |k| | |]; try discriminate; cbn [conv_to has_type] in *; unfold in_kind in *; tt;
      repeat match goal with Q : (_ <=? _) = true |- _ => apply Z.leb_le in Q end; apply andb_true_intro; split; apply Z.leb_le; lia.
    + unfold holds in H. apply orb_prop in H. destruct H as [H|H]; [exact (ty_equals_has_type _ _ _ H T)|].
      destruct a as [| |k|q r| |]; try discriminate; cbn [conv_to has_type] in *.
      * unfold in_kind, ik_lo, ik_hi in T. apply Z.ltb_lt in H. apply Z.ltb_lt. lia.
      * unfold in_kind in T. tt. apply Z.ltb_lt in H. apply Z.ltb_lt.
        repeat match goal with Q : (_ <=? _) = true |- _ => apply Z.leb_le in Q end. lia.
      * tt. apply Z.ltb_lt in T. apply Z.ltb_lt.
        repeat match goal with Q : (_ <=? _) = true |- _ => apply Z.leb_le in Q end.
        assert (10 ^ (q - r) <= 10 ^ (p - s)) by (apply Z.pow_le_mono_r; lia). lia.
    + unfold holds in H. apply orb_prop in H. destruct H as [H|H]; [exact (ty_equals_has_type _ _ _ H T)|]. destruct a; discriminate.
    + cbn [conv_to]. destruct (print_some_int z) as [b ->]. reflexivity.
  - (* decimal value *)
    destruct t as [| |k'|p s| |];
      try (unfold holds in H; apply orb_prop in H; destruct H as [H|H]; [exact (ty_equals_has_type _ _ _ H T)|]; destruct a; discriminate).
    + unfold holds in H. apply orb_prop in H. destruct H as [H|H]; [exact (ty_equals_has_type _ _ _ H T)|].
      destruct a as [| |k|q r| |]; try discriminate. cbn [conv_to has_type] in *.
      apply andb_prop in H; destruct H as [Hr Hw]. apply Z.leb_le in Hr, Hw.
      apply andb_prop in T; destruct T as [T Tm]. apply andb_prop in T; destruct T as [T0 Ts].
      apply Z.leb_le in T0, Ts. apply Z.ltb_lt in Tm.
      apply andb_true_intro; split; [apply andb_true_intro; split; apply Z.leb_le; lia|apply Z.ltb_lt].
      assert (10 ^ (q - r + sc) <= 10 ^ (p - s + sc)) by (apply Z.pow_le_mono_r; lia). lia.
    + cbn [conv_to]. destruct (print_some_dec m sc) as [b ->]. reflexivity.
  - destruct t as [| |k'|p s| |];
      try (unfold holds in H; apply orb_prop in H; destruct H as [H|H]; [exact (ty_equals_has_type _ _ _ H T)|]; destruct a; discriminate).
  - destruct t as [| |k'|p s| |];
      try (unfold holds in H; apply orb_prop in H; destruct H as [H|H]; [exact (ty_equals_has_type _ _ _ H T)|]; destruct a; discriminate).
    reflexivity.
Qed.

Lemma concat_sound x y v : concat_val x y = Ok v ->
  has_type TStr v = true /\ (notnull x = true -> notnull y = true -> notnull v = true).
Proof.
  unfold concat_val. intros E.
  destruct x as [|a|m1 s1|n1 d1|b1]; try (injection E as <-; split; [reflexivity|discriminate]);
  destruct y as [|b|m2 s2|n2 d2|b2]; try (injection E as <-; split; [reflexivity|intros; discriminate]);
  (match type of E with (match ?a with _ => _ end) = _ => destruct a end; [|discriminate]);
  (match type of E with (match ?a with _ => _ end) = _ => destruct a end; [|discriminate]);
  injection E as <-; split; reflexivity.
Qed.

(* CAST *)
Lemma cast_typed t x v : cast_val t x = Ok v -> has_type (cast_ty t) v = true /\ (notnull x = true -> notnull v = true).
Proof.
  unfold cast_val. intros E.
  destruct x as [|z|m sc|n d|b]; try (injection E as <-; split; [destruct t; reflexivity|discriminate]);
  destruct t as [| |p s|]; cbn [cast_ty] in *; try discriminate.
  all: try (repeat match type of E with
    | fit _ _ = _ => apply fit_typed in E; tauto
    | (if ?c then _ else _) = _ => destruct c
    | _ => discriminate
    end; fail).
  all: try (destruct (print_val _); [injection E as <-; split; reflexivity|discriminate]).
  all: destruct (to_dec _) as [[m0 s0]|]; [|discriminate];
    match type of E with (if ?c then _ else _) = _ => destruct c eqn:C end; [|discriminate];
    injection E as <-; split; [|reflexivity]; cbn [has_type];
    apply andb_prop in C; destruct C as [C C3]; apply andb_prop in C; destruct C as [C1 C2];
    replace (p - s + s) with p by lia; rewrite C1, C3, Z.leb_refl; reflexivity.
Qed.

Lemma greatest_int a b : is_integer a = true -> is_integer b = true -> greatest_ty a b = TInt I64.
Proof.
  destruct a as [| |ka| | |], b as [| |kb| | |]; intros Ha Hb; try discriminate; unfold greatest_ty;
  try (destruct ka); try (destruct kb); reflexivity.
Qed.

(* ---------------- the main induction ---------------- *)
Section Sound.
Variable s : schema.
Variable r : row.
Hypothesis HC : conforms s r = true.

Definition sound (e : expr) : Prop := forall x, eval s r e = Ok x ->
  (nullable s e = false -> notnull x = true) /\ (well_typed s e = true -> has_type (type_of s e) x = true).

Ltac ev2 a b := let Ea := fresh "Ea" in let Eb := fresh "Eb" in
  destruct (eval s r a) as [?va|] eqn:Ea; [|discriminate]; destruct (eval s r b) as [?vb|] eqn:Eb; [|discriminate];
  cbn [bindr] in *.

Lemma case_sound t els : (forall x, match els with Some e => eval s r e = Ok x -> has_type t (conv_to t x) = true | None => True end) ->
  forall bs, Forall (fun p => forall x, eval s r (snd p) = Ok x -> has_type t (conv_to t x) = true) bs ->
  forall v, case_go (eval s r) t els bs = Ok v -> has_type t v = true.
Proof.
  intros He. induction bs as [|p bs IH]; intros F v E; cbn [case_go] in E.
  - destruct els as [e|]; [|injection E as <-; reflexivity].
    destruct (eval s r e) as [w|] eqn:Ee; [|discriminate]. injection E as <-. apply (He w). first [exact Ee|reflexivity].
  - inversion F as [|? ? Fp Fr]; subst. destruct (eval s r (fst p)) as [cv|]; [|discriminate]. cbn [bindr] in E.
    destruct (truth cv) as [[[|]|]|]; try discriminate; try (apply IH; assumption).
    destruct (eval s r (snd p)) as [w|] eqn:Ew; [|discriminate]. injection E as <-. apply Fp. first [exact Ew|reflexivity].
Qed.
Lemma case_notnull t els : (match els with Some e => forall x, eval s r e = Ok x -> notnull x = true | None => False end) ->
  forall bs, Forall (fun p => forall x, eval s r (snd p) = Ok x -> notnull x = true) bs ->
  forall v, case_go (eval s r) t els bs = Ok v -> notnull v = true.
Proof.
  intros He. induction bs as [|p bs IH]; intros F v E; cbn [case_go] in E.
  - destruct els as [e|]; [|contradiction].
    destruct (eval s r e) as [w|] eqn:Ee; [|discriminate]. injection E as <-. rewrite conv_notnull. apply He. first [exact Ee|reflexivity].
  - inversion F as [|? ? Fp Fr]; subst. destruct (eval s r (fst p)) as [cv|]; [|discriminate]. cbn [bindr] in E.
    destruct (truth cv) as [[[|]|]|]; try discriminate; try (apply IH; assumption).
    destruct (eval s r (snd p)) as [w|] eqn:Ew; [|discriminate]. injection E as <-. rewrite conv_notnull. apply Fp. first [exact Ew|reflexivity].
Qed.

Lemma int_lit_eval e z x : is_int_lit e = Some z -> eval s r e = Ok x -> x = VInt z.
Proof.
  destruct e as [|[|z'| | |]| | | | | | | | | | | | | | | | | | | | | | |]; cbn; intros L E; try discriminate.
  injection L as ->. injection E as <-. reflexivity.
Qed.

Theorem eval_sound : forall e, sound e.
Proof.
  induction e as [i|lv|e IHe|o e1 e2 IHe1 IHe2|e1 e2 IHe1 IHe2|e1 e2 IHe1 IHe2|o e1 e2 IHe1 IHe2|e1 e2 IHe1 IHe2|e1 e2 IHe1 IHe2|e IHe|e IHe|e l IHe H|e1 e2 e3 IHe1 IHe2 IHe3|bs els H H0|e1 e2 IHe1 IHe2|e1 e2 IHe1 IHe2|e1 e2 IHe1 IHe2|e1 e2 e3 IHe1 IHe2 IHe3|e1 e2 IHe1 IHe2|e1 e2 IHe1 IHe2|e t IHe|e1 e2 IHe1 IHe2|e IHe|e p n IHe|e IHe] using expr_rect'; unfold sound in *; intros x EV; cbn [eval] in EV.
  - (* field *)
    injection EV as <-. pose proof (conforms_nth s r i HC) as H. unfold conforms_col in H. apply andb_prop in H. destruct H as [T N].
    cbn [nullable type_of]. split; [|intros _; exact T]. intros Hn. rewrite Hn in N. exact N.
  - (* literal *)
    injection EV as <-. cbn [nullable type_of well_typed]. split; [|auto]. intros Hn. apply negb_false_iff in Hn. exact Hn.
  - (* neg *)
    destruct (eval s r e) as [v|] eqn:Ea; [|discriminate]. cbn [bindr] in EV. destruct (IHe v eq_refl) as [N T].
    cbn [nullable type_of well_typed]. split.
    + intros Hn. eapply neg_notnull; eauto.
    + intros W. apply andb_prop in W. destruct W as [W G]. eapply neg_typed; eauto.
  - (* + - * *)
    ev2 e1 e2. destruct (IHe1 _ eq_refl) as [N1 T1]. destruct (IHe2 _ eq_refl) as [N2 T2]. cbn [nullable type_of well_typed]. split.
    + intros Hn. tt. eapply arith_notnull; eauto.
    + intros W. tt. destruct (arith_int_ty o (type_of s e1) (type_of s e2) ltac:(assumption) ltac:(assumption)) as [k Ek]. rewrite Ek in *. eapply arith_typed; eauto.
  - (* DIV *)
    ev2 e1 e2. destruct (bad_unsigned (type_of s e1) va || bad_unsigned (type_of s e2) vb); [discriminate|]. destruct (IHe1 _ eq_refl) as [N1 T1]. destruct (IHe2 _ eq_refl) as [N2 T2]. cbn [nullable type_of well_typed].
    split; [discriminate|]. intros W. tt. eapply intdiv_typed; eauto.
  - (* % *)
    ev2 e1 e2. destruct (IHe1 _ eq_refl) as [N1 T1]. destruct (IHe2 _ eq_refl) as [N2 T2]. cbn [nullable]. split; [discriminate|].
    intros W. cbn [well_typed] in W.
    apply andb_prop in W; destruct W as [W G]. apply andb_prop in W; destruct W as [W I2].
    apply andb_prop in W; destruct W as [W I1]. apply andb_prop in W; destruct W as [W1 W2].
    destruct (type_of s (EMod e1 e2)) as [| |?|p sc| |] eqn:TY; try (destruct (is_int_lit e1); [|destruct (is_int_lit e2)]; discriminate).
    assert (S1 : va = VNull \/ exists z, va = VInt z) by (destruct (int_shape _ _ I1 (T1 W1)) as [?|[z [? _]]]; eauto).
    assert (S2 : vb = VNull \/ exists z, vb = VInt z) by (destruct (int_shape _ _ I2 (T2 W2)) as [?|[z [? _]]]; eauto).
    destruct (is_int_lit e1) as [z|] eqn:L1.
    + apply Z.ltb_lt in G. eapply (mod_typed p sc va vb x z); eauto. left. eapply int_lit_eval; eauto.
    + destruct (is_int_lit e2) as [z|] eqn:L2; [|discriminate]. apply Z.ltb_lt in G.
      eapply (mod_typed p sc va vb x z); eauto. right. eapply int_lit_eval; eauto.
  - (* comparison *)
    ev2 e1 e2. destruct (IHe1 _ eq_refl) as [N1 _]. destruct (IHe2 _ eq_refl) as [N2 _]. destruct (cmp_res_sound _ _ _ _ EV) as [T N].
    cbn [nullable type_of]. split; [|auto]. intros Hn. tt. auto.
  - (* AND *)
    ev2 e1 e2. destruct (IHe1 _ eq_refl) as [N1 _]. destruct (IHe2 _ eq_refl) as [N2 _]. destruct (and3_sound _ _ _ EV) as [T N].
    cbn [nullable type_of]. split; [|auto]. intros Hn. tt. auto.
  - (* OR *)
    ev2 e1 e2. destruct (IHe1 _ eq_refl) as [N1 _]. destruct (IHe2 _ eq_refl) as [N2 _]. destruct (or3_sound _ _ _ EV) as [T N].
    cbn [nullable type_of]. split; [|auto]. intros Hn. tt. auto.
  - (* NOT *)
    destruct (eval s r e) as [v|] eqn:Ea; [|discriminate]. cbn [bindr] in EV. destruct (IHe v eq_refl) as [N _].
    destruct (not3_sound _ _ EV) as [T Nn]. cbn [nullable type_of well_typed]. split; [auto|].
    intros W. apply andb_prop in W. destruct W as [_ W]. destruct (type_of s e); try discriminate; exact T.
  - (* IS NULL *)
    destruct (eval s r e) as [v|] eqn:Ea; [|discriminate]. cbn [bindr] in EV. injection EV as <-.
    cbn [nullable type_of]. split; intros; [reflexivity|apply bool_val_typed].
  - (* IN *)
    destruct (eval s r e) as [v|] eqn:Ea; [|discriminate]. cbn [bindr] in EV. cbn [nullable type_of]. split; [discriminate|]. intros _.
    destruct v; try (injection EV as <-; reflexivity); eapply in_go_typed; exact EV.
  - (* BETWEEN *)
    destruct (eval s r e1) as [v1|] eqn:E1; [|discriminate]. destruct (eval s r e2) as [v2|] eqn:E2; [|discriminate].
    destruct (eval s r e3) as [v3|] eqn:E3; [|discriminate]. cbn [bindr] in EV.
    destruct (cmp_res Le v2 v1) as [p|] eqn:C1; [|discriminate]. destruct (cmp_res Ge v3 v1) as [q|] eqn:C2; [|discriminate]. cbn [bindr] in EV.
    destruct (IHe1 _ eq_refl) as [N1 _]. destruct (IHe2 _ eq_refl) as [N2 _]. destruct (IHe3 _ eq_refl) as [N3 _].
    destruct (cmp_res_sound _ _ _ _ C1) as [_ M1]. destruct (cmp_res_sound _ _ _ _ C2) as [_ M2]. destruct (and3_sound _ _ _ EV) as [T N].
    cbn [nullable type_of]. split; [|auto]. intros Hn. tt. auto.
  - (* CASE *)
    cbn [nullable well_typed]. split.
    + intros Hn. apply orb_false_elim in Hn. destruct Hn as [Hb He].
      eapply (case_notnull _ els); [| |exact EV].
      * destruct els as [e|]; [|discriminate]. intros y Ey. apply (proj1 (H0 y Ey)). exact He.
      * clear EV. induction bs as [|p bs IHb]; [constructor|]. inversion H as [|? ? Hp Hr]; subst.
        cbn [existsb] in Hb. apply orb_false_elim in Hb. destruct Hb as [Hb1 Hb2]. constructor; [|apply IHb; assumption].
        intros y Ey. apply (proj1 (proj2 Hp y Ey)). exact Hb1.
    + intros W. apply andb_prop in W. destruct W as [Wb We].
      remember (type_of s (ECase bs els)) as t eqn:Et. clear Et.
      eapply (case_sound t els); [| |exact EV].
      * intros y. destruct els as [e|]; [|exact I]. intros Ey. apply andb_prop in We. destruct We as [We Hh].
        apply holds_sound with (a := type_of s e); [exact Hh|]. apply (proj2 (H0 y Ey)). exact We.
      * clear EV We. induction bs as [|p bs IHb]; [constructor|].
        inversion H as [|? ? Hp Hr]; subst. cbn [forallb] in Wb. apply andb_prop in Wb. destruct Wb as [Wp Wr].
        constructor; [|apply IHb; assumption]. intros y Ey. tt.
        apply holds_sound with (a := type_of s (snd p)); [assumption|]. apply (proj2 (proj2 Hp y Ey)). assumption.
  - (* NULLIF *)
    ev2 e1 e2. destruct (IHe1 _ eq_refl) as [_ T1]. cbn [nullable type_of well_typed]. split; [discriminate|]. intros W. apply andb_prop in W; destruct W as [W1 W2].
    specialize (T1 W1).
    destruct va; try (injection EV as <-; reflexivity); destruct vb; try (injection EV as <-; exact T1);
    (destruct (cmp_vals _ _) as [[| |]|]; [injection EV as <-; reflexivity|injection EV as <-; exact T1|injection EV as <-; exact T1|discriminate]).
  - (* IFNULL *)
    destruct (eval s r e1) as [v1|] eqn:E1; [|discriminate]. cbn [bindr] in EV. destruct (IHe1 _ eq_refl) as [N1 T1].
    cbn [nullable type_of well_typed]. split.
    + intros Hn. destruct (nullable s e1) eqn:Na.
      * destruct v1; try (injection EV as <-; rewrite conv_notnull; reflexivity).
        destruct (eval s r e2) as [v2|] eqn:E2; [|discriminate]. injection EV as <-. rewrite conv_notnull. apply (proj1 (IHe2 _ eq_refl)). exact Hn.
      * specialize (N1 eq_refl). destruct v1; try discriminate; injection EV as <-; rewrite conv_notnull; reflexivity.
    + intros W. tt. destruct v1; try (injection EV as <-; apply holds_sound with (a := type_of s e1); [assumption|auto]).
      destruct (eval s r e2) as [v2|] eqn:E2; [|discriminate]. injection EV as <-. apply holds_sound with (a := type_of s e2); [assumption|]. apply (proj2 (IHe2 _ eq_refl)). assumption.
  - (* COALESCE *)
    destruct (eval s r e1) as [v1|] eqn:E1; [|discriminate]. cbn [bindr] in EV. destruct (IHe1 _ eq_refl) as [N1 T1].
    cbn [nullable type_of well_typed]. split.
    + intros Hn. apply andb_false_elim in Hn. destruct Hn as [Hn|Hn].
      * specialize (N1 Hn). destruct v1; try discriminate; injection EV as <-; rewrite conv_notnull; reflexivity.
      * destruct v1; try (injection EV as <-; rewrite conv_notnull; reflexivity).
        destruct (eval s r e2) as [v2|] eqn:E2; [|discriminate]. injection EV as <-. rewrite conv_notnull. apply (proj1 (IHe2 _ eq_refl)). exact Hn.
    + intros W. tt. destruct v1; try (injection EV as <-; apply holds_sound with (a := type_of s e1); [assumption|auto]).
      destruct (eval s r e2) as [v2|] eqn:E2; [|discriminate]. injection EV as <-. apply holds_sound with (a := type_of s e2); [assumption|]. apply (proj2 (IHe2 _ eq_refl)). assumption.
  - (* IF *)
    destruct (eval s r e1) as [cv|] eqn:E1; [|discriminate]. cbn [bindr] in EV. cbn [nullable type_of well_typed].
    assert (A : forall y, eval s r e2 = Ok y -> (nullable s e2 || nullable s e3 = false -> notnull (conv_to (generalize (type_of s e2) (type_of s e3)) y) = true) /\
      (well_typed s e1 && well_typed s e2 && well_typed s e3 && holds (type_of s e2) (generalize (type_of s e2) (type_of s e3)) && holds (type_of s e3) (generalize (type_of s e2) (type_of s e3)) = true ->
       has_type (generalize (type_of s e2) (type_of s e3)) (conv_to (generalize (type_of s e2) (type_of s e3)) y) = true)).
    { intros y Ey. destruct (IHe2 _ Ey) as [N T]. split.
      - intros Hn. tt. rewrite conv_notnull. auto.
      - intros W. tt. apply holds_sound with (a := type_of s e2); [assumption|auto]. }
    assert (B : forall y, eval s r e3 = Ok y -> (nullable s e2 || nullable s e3 = false -> notnull (conv_to (generalize (type_of s e2) (type_of s e3)) y) = true) /\
      (well_typed s e1 && well_typed s e2 && well_typed s e3 && holds (type_of s e2) (generalize (type_of s e2) (type_of s e3)) && holds (type_of s e3) (generalize (type_of s e2) (type_of s e3)) = true ->
       has_type (generalize (type_of s e2) (type_of s e3)) (conv_to (generalize (type_of s e2) (type_of s e3)) y) = true)).
    { intros y Ey. destruct (IHe3 _ Ey) as [N T]. split.
      - intros Hn. tt. rewrite conv_notnull. auto.
      - intros W. tt. apply holds_sound with (a := type_of s e3); [assumption|auto]. }
    destruct (truth cv) as [[[|]|]|]; try discriminate.
    + destruct (eval s r e2) as [y|] eqn:Ey; [|discriminate]. injection EV as <-. apply A. reflexivity.
    + destruct (eval s r e3) as [y|] eqn:Ey; [|discriminate]. injection EV as <-. apply B. reflexivity.
    + destruct (eval s r e3) as [y|] eqn:Ey; [|discriminate]. injection EV as <-. apply B. reflexivity.
  - (* GREATEST *)
    ev2 e1 e2. destruct (negb (is_integer (type_of s e1) && is_integer (type_of s e2))); [discriminate|]. destruct (IHe1 _ eq_refl) as [N1 _]. destruct (IHe2 _ eq_refl) as [N2 _]. cbn [nullable type_of well_typed]. split.
    + intros Hn. tt. specialize (N1 ltac:(assumption)). specialize (N2 ltac:(assumption)). destruct va; try discriminate; destruct vb; try discriminate. (destruct (flt_exact _ _); [|discriminate]). apply fit_typed in EV. tauto.
    + intros W. tt.
      assert (Ia : is_integer (type_of s e1) = true) by assumption. assert (Ib : is_integer (type_of s e2) = true) by assumption.
      rewrite (greatest_int _ _ Ia Ib).
      destruct va; try discriminate; try (injection EV as <-; reflexivity); destruct vb; try discriminate; try (injection EV as <-; reflexivity).
      (destruct (flt_exact _ _); [|discriminate]). apply fit_typed in EV. tauto.
  - (* LEAST *)
    ev2 e1 e2. destruct (negb (is_integer (type_of s e1) && is_integer (type_of s e2))); [discriminate|]. destruct (IHe1 _ eq_refl) as [N1 _]. destruct (IHe2 _ eq_refl) as [N2 _]. cbn [nullable type_of well_typed]. split.
    + intros Hn. tt. specialize (N1 ltac:(assumption)). specialize (N2 ltac:(assumption)). destruct va; try discriminate; destruct vb; try discriminate. (destruct (flt_exact _ _); [|discriminate]). apply fit_typed in EV. tauto.
    + intros W. tt.
      assert (Ia : is_integer (type_of s e1) = true) by assumption. assert (Ib : is_integer (type_of s e2) = true) by assumption.
      rewrite (greatest_int _ _ Ia Ib).
      destruct va; try discriminate; try (injection EV as <-; reflexivity); destruct vb; try discriminate; try (injection EV as <-; reflexivity).
      (destruct (flt_exact _ _); [|discriminate]). apply fit_typed in EV. tauto.
  - (* CAST *)
    destruct (eval s r e) as [v|] eqn:Ea; [|discriminate]. cbn [bindr] in EV. destruct (bad_unsigned (type_of s e) v); [discriminate|]. destruct (IHe v eq_refl) as [N _].
    destruct (cast_typed _ _ _ EV) as [T Nn]. cbn [nullable type_of]. split; [|auto]. destruct t; try discriminate; auto.
  - (* CONCAT *)
    ev2 e1 e2. destruct (IHe1 _ eq_refl) as [N1 _]. destruct (IHe2 _ eq_refl) as [N2 _]. destruct (concat_sound _ _ _ EV) as [T N].
    cbn [nullable type_of]. split; [|auto]. intros Hn. tt. auto.
  - (* UPPER *)
    destruct (eval s r e) as [v|] eqn:Ea; [|discriminate]. cbn [bindr] in EV. destruct (IHe v eq_refl) as [N _].
    cbn [nullable type_of well_typed]. split.
    + intros Hn. specialize (N Hn). destruct v; try discriminate. injection EV as <-. reflexivity.
    + intros W. tt. destruct (type_of s e); try discriminate. destruct v; try discriminate; injection EV as <-; reflexivity.
  - (* SUBSTRING *)
    destruct (eval s r e) as [v|] eqn:Ea; [|discriminate]. cbn [bindr] in EV. destruct (IHe v eq_refl) as [N _].
    cbn [nullable type_of well_typed]. split.
    + intros Hn. specialize (N Hn). destruct v; try discriminate. injection EV as <-. reflexivity.
    + intros W. tt. destruct (type_of s e); try discriminate. destruct v; try discriminate; injection EV as <-; reflexivity.
  - (* LENGTH *)
    destruct (eval s r e) as [v|] eqn:Ea; [|discriminate]. cbn [bindr] in EV. destruct (IHe v eq_refl) as [N _].
    cbn [nullable type_of]. split.
    + intros Hn. specialize (N Hn). destruct v; try discriminate. apply fit_typed in EV. tauto.
    + intros _. destruct v; try discriminate; try (injection EV as <-; reflexivity). apply fit_typed in EV. tauto.
Qed.
End Sound.

(* ---------------- corollaries in the shape of the property ---------------- *)
Theorem eval_has_type s r e x : conforms s r = true -> well_typed s e = true -> eval s r e = Ok x ->
  has_type (type_of s e) x = true.
Proof. intros HC WT EV. exact (proj2 (eval_sound s r HC e x EV) WT). Qed.

(* nullability needs no guard at all: it holds for every expression of the language *)
Theorem not_null_sound s r e : conforms s r = true -> nullable s e = false -> eval s r e <> Ok VNull.
Proof. intros HC HN EV. pose proof (proj1 (eval_sound s r HC e VNull EV) HN) as H. discriminate. Qed.

Theorem project_conforms s r : conforms s r = true -> forall es out,
  forallb (well_typed s) es = true -> eval_all s r es = Some out -> conforms (project_schema s es) out = true.
Proof.
  intros HC. unfold project_schema. induction es as [|e t IH]; intros out WT EV; cbn [forallb eval_all map] in *.
  - injection EV as <-. reflexivity.
  - apply andb_prop in WT. destruct WT as [We Wt].
    destruct (eval s r e) as [x|] eqn:Ee; [|discriminate]. destruct (eval_all s r t) as [xs|] eqn:Et; [|discriminate].
    injection EV as <-. cbn [conforms]. rewrite (IH xs Wt eq_refl), andb_true_r.
    destruct (eval_sound s r HC e x Ee) as [N T]. unfold conforms_col. cbn [c_ty c_nullable]. rewrite (T We). cbn [andb].
    destruct (nullable s e); [reflexivity|]. exact (N eq_refl).
Qed.
