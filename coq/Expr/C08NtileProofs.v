(* C08 — NTILE for every partition size and every bucket count (no bound): the state machine of NTile.Compute
   yields the closed form; consequently bucket sizes are c/b + 1 for the first c mod b buckets and c/b after. *)
From Coq Require Import List ZArith Bool Lia Arith.
Import ListNotations.
From GMS Require Import Expr.C08Agg Expr.C08AggProofs.
Open Scope Z_scope.

Lemma div_step i d : 1 <= i -> 1 <= d -> i / d = (i - 1) / d + (if i mod d =? 0 then 1 else 0).
Proof.
  intros Hi Hd. pose proof (Z.div_mod (i - 1) d ltac:(lia)) as E. pose proof (Z.mod_pos_bound (i - 1) d ltac:(lia)) as B.
  set (q := (i - 1) / d) in *. set (r := (i - 1) mod d) in *.
  destruct (Z.eq_dec (r + 1) d) as [Hr|Hr].
  - assert (Hq : i = (q + 1) * d) by lia.
    assert (E1 : i / d = q + 1) by (rewrite Hq; apply Z.div_mul; lia).
    assert (E2 : i mod d = 0) by (rewrite Hq; apply Z.mod_mul; lia).
    rewrite E1, E2. reflexivity.
  - assert (E1 : i / d = q) by (symmetry; apply (Z.div_unique i d q (r + 1)); lia).
    assert (E2 : i mod d = r + 1) by (symmetry; apply (Z.mod_unique i d q (r + 1)); lia).
    rewrite E1, E2. destruct (Z.eqb_spec (r + 1) 0); lia.
Qed.

Lemma seq_S a n : seq (S a) n = map S (seq a n).
Proof. symmetry. apply seq_shift. Qed.

(* phase 2: no big buckets left *)
Lemma ntile_phase2 s : 1 <= s -> forall rows p k, 1 <= p ->
  ntile_rows rows p s 0 k = map (fun j => k + (p + Z.of_nat j) / s - (p - 1) / s) (seq 0 rows).
Proof.
  intros Hs. induction rows as [|r IH]; intros p k Hp; [reflexivity|].
  cbn [ntile_rows seq map]. destruct (Z.eqb_spec p 0); [lia|].
  cbn [Z.gtb Z.compare andb Z.eqb]. rewrite Z.add_0_r.
  pose proof (div_step p s Hp Hs) as D.
  destruct (Z.eqb_spec (p mod s) 0) as [Hm|Hm].
  - f_equal; [lia|]. rewrite IH by lia. rewrite seq_S, map_map. apply map_ext. intros j.
    replace (p + 1 - 1) with p by lia. replace (p + Z.of_nat (S j)) with (p + 1 + Z.of_nat j) by lia. lia.
  - f_equal; [lia|]. rewrite IH by lia. rewrite seq_S, map_map. apply map_ext. intros j.
    replace (p + 1 - 1) with p by lia. replace (p + Z.of_nat (S j)) with (p + 1 + Z.of_nat j) by lia. lia.
Qed.

(* closed form in the row index x (0-based) *)
Definition ntile_closed (s B0 x : Z) : Z :=
  if x <? B0 * (s + 1) then x / (s + 1) + 1 else B0 + (x - B0 * (s + 1)) / s + 1.

(* phase 1: big buckets of size s+1 *)
Lemma ntile_phase1 s B0 : 1 <= s -> 1 <= B0 -> forall rows i g k, 1 <= i -> 1 <= g ->
  k = (i - 1) / (s + 1) + 1 -> g = B0 - (i - 1) / (s + 1) -> i <= B0 * (s + 1) ->
  ntile_rows rows i s g k = map (fun j => ntile_closed s B0 (i + Z.of_nat j)) (seq 0 rows).
Proof.
  intros Hs HB. induction rows as [|r IH]; intros i g k Hi Hg Hk Hgq Hle; [reflexivity|].
  cbn [ntile_rows seq map]. destruct (Z.eqb_spec i 0); [lia|].
  destruct (Z.gtb_spec g 0); [|lia]. cbn [andb]. rewrite Z.add_0_r.
  pose proof (div_step i (s + 1) Hi ltac:(lia)) as D.
  pose proof (Z.div_mod i (s + 1) ltac:(lia)) as DM.
  destruct (Z.eqb_spec (i mod (s + 1)) 0) as [Hm|Hm].
  - (* a bucket boundary *)
    assert (Hiq : i = (s + 1) * (i / (s + 1))) by lia.
    destruct (Z.eqb_spec (g - 1) 0) as [Hg0|Hg0].
    + (* last big bucket consumed: i = B0 * (s+1) *)
      assert (HiB : i = B0 * (s + 1)) by nia.
      f_equal.
      * unfold ntile_closed. destruct (Z.ltb_spec i (B0 * (s + 1))); [lia|].
        replace (i - B0 * (s + 1)) with 0 by lia. rewrite Z.div_0_l by lia. lia.
      * replace (g - 1) with 0 by lia. rewrite (ntile_phase2 s Hs) by lia.
        rewrite seq_S, map_map. apply map_ext. intros j. unfold ntile_closed.
        destruct (Z.ltb_spec (i + Z.of_nat (S j)) (B0 * (s + 1))); [lia|].
        replace (i + Z.of_nat (S j) - B0 * (s + 1)) with (0 + 1 + Z.of_nat j) by lia.
        replace (0 + 1 - 1) with 0 by lia. rewrite (Z.div_0_l s) by lia. lia.
    + f_equal.
      * unfold ntile_closed. destruct (Z.ltb_spec i (B0 * (s + 1))); [lia|].
        exfalso. assert (i = B0 * (s + 1)) by lia. nia.
      * rewrite (IH (i + 1) (g - 1) (k + 1)); try lia.
        -- rewrite seq_S, map_map. apply map_ext. intros j. f_equal. lia.
        -- replace (i + 1 - 1) with i by lia. lia.
        -- replace (i + 1 - 1) with i by lia. lia.
        -- nia.
  - cbn [andb]. destruct (Z.eqb_spec g 0); [lia|]. cbn [andb].
    assert (Hlt : i < B0 * (s + 1)).
    { destruct (Z.eq_dec i (B0 * (s + 1))) as [E|E]; [|lia]. exfalso. apply Hm. rewrite E. apply Z.mod_mul. lia. }
    f_equal.
    + unfold ntile_closed. destruct (Z.ltb_spec i (B0 * (s + 1))); lia.
    + rewrite (IH (i + 1) g k); try lia.
      * rewrite seq_S, map_map. apply map_ext. intros j. f_equal. lia.
      * replace (i + 1 - 1) with i by lia. lia.
      * replace (i + 1 - 1) with i by lia. lia.
Qed.

(* from the initial state *)
Lemma ntile_rows_closed s B0 rows : 1 <= s -> 0 <= B0 ->
  ntile_rows rows 0 s B0 1 = map (fun j => ntile_closed s B0 (Z.of_nat j)) (seq 0 rows).
Proof.
  intros Hs HB. destruct rows as [|r]; [reflexivity|]. cbn [ntile_rows seq map Z.eqb].
  f_equal.
  - unfold ntile_closed. cbn [Z.of_nat]. destruct (Z.ltb_spec 0 (B0 * (s + 1))).
    + rewrite Z.div_0_l by lia. reflexivity.
    + assert (B0 = 0) by nia. subst. replace (0 - 0 * (s + 1)) with 0 by lia. rewrite Z.div_0_l by lia. reflexivity.
  - destruct (Z.eq_dec B0 0) as [E|E].
    + subst B0. rewrite (ntile_phase2 s Hs) by lia. rewrite seq_S, map_map. apply map_ext. intros j.
      unfold ntile_closed. cbn [Z.mul]. destruct (Z.ltb_spec (Z.of_nat (S j)) 0); [lia|].
      replace (0 + 1 - 1) with 0 by lia. rewrite (Z.div_0_l s) by lia.
      replace (Z.of_nat (S j) - 0) with (0 + 1 + Z.of_nat j) by lia. lia.
    + assert (E0 : (0 + 1 - 1) / (s + 1) = 0) by (replace (0 + 1 - 1) with 0 by lia; apply Z.div_0_l; lia).
      assert (H1 : 1 = (0 + 1 - 1) / (s + 1) + 1) by lia.
      assert (H2 : B0 = B0 - (0 + 1 - 1) / (s + 1)) by lia.
      assert (H3 : 0 + 1 <= B0 * (s + 1)) by nia.
      rewrite (ntile_phase1 s B0 Hs ltac:(lia) r (0 + 1) B0 1 ltac:(lia) ltac:(lia) H1 H2 H3).
      rewrite seq_S, map_map. apply map_ext. intros j. f_equal. lia.
Qed.

(* NTILE(b) over c rows, for every c and every b >= 1 *)
Theorem ntile_spec_all count b : 1 <= b -> ntile count b = map (ntile_spec count b) (seq 0 count).
Proof.
  intros Hb. unfold ntile. set (c := Z.of_nat count).
  destruct (Z.gtb_spec b c) as [Hgt|Hle].
  - rewrite ntile_rows_closed by lia. apply map_ext_in. intros j Hj. apply in_seq in Hj.
    unfold ntile_closed, ntile_spec. fold c. destruct (Z.gtb_spec b c); [|lia].
    cbn [Z.mul]. destruct (Z.ltb_spec (Z.of_nat j) 0); [lia|]. rewrite Z.sub_0_r, Z.div_1_r. lia.
  - assert (Hs : 1 <= c / b) by (apply Z.div_le_lower_bound; lia).
    pose proof (Z.mod_pos_bound c b ltac:(lia)) as HB.
    rewrite ntile_rows_closed by lia. apply map_ext_in. intros j Hj.
    unfold ntile_closed, ntile_spec. fold c. destruct (Z.gtb_spec b c); [lia|]. reflexivity.
Qed.

(* ---------- bucket sizes: bucket m holds the rows [start m, start m + size m), size = s+1 for the first `big`
   buckets and s afterwards; so sizes differ by at most 1 and never increase ---------- *)
Lemma div_eq_iff x d q : 0 < d -> (x / d = q <-> q * d <= x < (q + 1) * d).
Proof.
  intros Hd. pose proof (Z.div_mod x d ltac:(lia)) as E. pose proof (Z.mod_pos_bound x d Hd) as B. split.
  - intros <-. nia.
  - intros H. symmetry. apply (Z.div_unique x d q (x - q * d)); lia.
Qed.

Definition bucket_start (s big m : Z) : Z :=
  if m - 1 <=? big then (m - 1) * (s + 1) else big * (s + 1) + (m - 1 - big) * s.
Definition bucket_size (s big m : Z) : Z := if m <=? big then s + 1 else s.

Theorem ntile_bucket_rows s big m x : 1 <= s -> 0 <= big -> 1 <= m -> 0 <= x ->
  (ntile_closed s big x = m <-> bucket_start s big m <= x < bucket_start s big m + bucket_size s big m).
Proof.
  intros Hs Hb Hm Hx. unfold ntile_closed, bucket_start, bucket_size.
  destruct (Z.ltb_spec x (big * (s + 1))) as [Hlt|Hge].
  - (* inside the big buckets: x/(s+1) + 1 = m *)
    assert (E : x / (s + 1) + 1 = m <-> (m - 1) * (s + 1) <= x < m * (s + 1)).
    { pose proof (div_eq_iff x (s + 1) (m - 1) ltac:(lia)) as D.
      replace ((m - 1 + 1) * (s + 1)) with (m * (s + 1)) in D by lia.
      split; intros H; [apply D; lia|assert (x / (s + 1) = m - 1) by (apply D; exact H); lia]. }
    rewrite E. destruct (Z.leb_spec (m - 1) big), (Z.leb_spec m big); nia.
  - assert (E : big + (x - big * (s + 1)) / s + 1 = m <-> (m - 1 - big) * s <= x - big * (s + 1) < (m - big) * s).
    { pose proof (div_eq_iff (x - big * (s + 1)) s (m - 1 - big) ltac:(lia)) as D.
      replace ((m - 1 - big + 1) * s) with ((m - big) * s) in D by lia.
      split; intros H; [apply D; lia|assert ((x - big * (s + 1)) / s = m - 1 - big) by (apply D; exact H); lia]. }
    rewrite E. destruct (Z.leb_spec (m - 1) big), (Z.leb_spec m big); nia.
Qed.

Theorem ntile_sizes_nonincreasing s big m : 1 <= s -> 0 <= big -> 1 <= m ->
  bucket_size s big (m + 1) <= bucket_size s big m <= bucket_size s big (m + 1) + 1.
Proof. intros. unfold bucket_size. destruct (Z.leb_spec (m + 1) big), (Z.leb_spec m big); lia. Qed.
