(* C05: LIKE and the LIKE-prefix rewrite of simplifyExpression (sql/analyzer/optimization_rules.go, case *expression.Like,
   incrementLastRune) for utf8mb4_0900_bin.  Strings and patterns are sequences of code points; the collation compares
   code points lexicographically ([cmp_bytes] of C05Expr is that order); escapes are not modelled (the rule does not
   rewrite patterns containing a backslash before a wildcard; the generator emits no backslashes). *)
From Coq Require Import List ZArith NArith Bool Lia.
Import ListNotations.
From GMS Require Import Expr.C05Expr.
Open Scope N_scope.

(* '%' = 37 matches any sequence, '_' = 95 any single code point *)
Fixpoint like (p : list N) : list N -> bool :=
  match p with
  | [] => fun s => match s with [] => true | _ => false end
  | c :: p' =>
      if N.eqb c 37 then
        (fix go (s : list N) : bool := like p' s || match s with [] => false | _ :: s' => go s' end)
      else if N.eqb c 95 then fun s => match s with [] => false | _ :: s' => like p' s' end
      else fun s => match s with [] => false | x :: s' => N.eqb x c && like p' s' end
  end.

Definition plain_char (c : N) : bool := negb (N.eqb c 37) && negb (N.eqb c 95) && negb (N.eqb c 92).
Definition no_wild (p : list N) : bool := forallb plain_char p.

Fixpoint is_prefix (p s : list N) : bool :=
  match p, s with
  | [], _ => true
  | _, [] => false
  | c :: p', x :: s' => N.eqb x c && is_prefix p' s'
  end.

(* incrementLastRune: the last code point replaced by the next one, skipping the surrogate range; none for U+10FFFF *)
Definition max_rune : N := 1114111.
Definition next_rune (c : N) : N := if N.eqb (c + 1) 55296 then 57344 else c + 1.
Definition incr_last (p : list N) : option (list N) :=
  match rev p with
  | [] => None
  | c :: q => if N.eqb c max_rune then None else Some (rev q ++ [next_rune c])
  end.

Definition ge_str (s p : list N) : bool := match cmp_bytes s p with Lt => false | _ => true end.
Definition lt_str (s u : list N) : bool := match cmp_bytes s u with Lt => true | _ => false end.

(* what the rule produces for  s LIKE pat  (None = left unchanged); the result is given by its truth value on s *)
Inductive like_rewrite := LREquals (p : list N) | LRRange (lo hi : list N) | LRLowerAndLike (lo : list N) | LRSame.

Definition count (c : N) (p : list N) : nat := length (filter (N.eqb c) p).

Definition rewrite_like (pat : list N) : like_rewrite :=
  match pat with
  | [] => LRSame
  | _ =>
      if existsb (N.eqb 92) pat then LRSame                       (* escapes: not modelled, not generated *)
      else if Nat.ltb 0 (count 95 pat) then LRSame                (* single-character wildcards *)
      else match count 37 pat with
           | O => LREquals pat
           | S O =>
               match rev pat with
               | c :: q =>
                   if N.eqb c 37 then
                     match q with
                     | [] => LRSame                               (* just "%" *)
                     | _ => match incr_last (rev q) with
                            | Some hi => LRRange (rev q) hi
                            | None => LRLowerAndLike (rev q)
                            end
                     end
                   else LRSame
               | [] => LRSame
               end
           | _ => LRSame
           end
  end.

Definition eval_rewrite (pat : list N) (s : list N) : bool :=
  match rewrite_like pat with
  | LREquals p => list_eqb N.eqb s p
  | LRRange lo hi => ge_str s lo && lt_str s hi
  | LRLowerAndLike lo => ge_str s lo && like pat s
  | LRSame => like pat s
  end.

(* ---------- proofs ---------- *)
Lemma like_pct_all s : like [37] s = true.
Proof. induction s as [|x s IH]; cbn; [reflexivity|]. cbn in IH. exact IH. Qed.

Lemma like_prefix p : no_wild p = true -> forall s, like (p ++ [37]) s = is_prefix p s.
Proof.
  induction p as [|c p IH]; intros Hn s.
  - apply like_pct_all.
  - cbn [no_wild forallb] in Hn. apply andb_prop in Hn. destruct Hn as [Hc Hn].
    unfold plain_char in Hc. apply andb_prop in Hc. destruct Hc as [Hc _]. apply andb_prop in Hc. destruct Hc as [H37 H95].
    apply negb_true_iff in H37, H95. cbn [app like]. rewrite H37, H95.
    destruct s as [|x s]; [reflexivity|]. cbn [is_prefix]. rewrite (IH Hn). reflexivity.
Qed.

Lemma like_no_wild p : no_wild p = true -> forall s, like p s = list_eqb N.eqb s p.
Proof.
  induction p as [|c p IH]; intros Hn s.
  - destruct s; reflexivity.
  - cbn [no_wild forallb] in Hn. apply andb_prop in Hn. destruct Hn as [Hc Hn].
    unfold plain_char in Hc. apply andb_prop in Hc. destruct Hc as [Hc _]. apply andb_prop in Hc. destruct Hc as [H37 H95].
    apply negb_true_iff in H37, H95. cbn [like]. rewrite H37, H95.
    destruct s as [|x s]; [reflexivity|]. cbn [list_eqb]. rewrite (IH Hn). reflexivity.
Qed.

Definition valid_rune (c : N) : Prop := c < 55296 \/ 57344 <= c.

Lemma prefix_range_last c x s' :
  c <> max_rune -> valid_rune x -> valid_rune c ->
  (N.eqb x c && is_prefix [] s') = (ge_str (x :: s') [c] && lt_str (x :: s') [next_rune c]).
Proof.
  intros Hm Vx Vc. unfold ge_str, lt_str, next_rune. cbn [cmp_bytes is_prefix]. rewrite andb_true_r.
  destruct (N.eqb_spec (c + 1) 55296) as [E|E];
    destruct (N.compare_spec x c) as [->|L|L]; unfold valid_rune in *.
  - rewrite N.eqb_refl. destruct (N.compare_spec c 57344); try lia. destruct s'; reflexivity.
  - destruct (N.eqb_spec x c); [lia|]. reflexivity.
  - destruct (N.eqb_spec x c); [lia|]. destruct (N.compare_spec x 57344); try lia; destruct s'; reflexivity.
  - rewrite N.eqb_refl. destruct (N.compare_spec c (c + 1)); try lia. destruct s'; reflexivity.
  - destruct (N.eqb_spec x c); [lia|]. reflexivity.
  - destruct (N.eqb_spec x c); [lia|]. destruct (N.compare_spec x (c + 1)); try lia; destruct s'; reflexivity.
Qed.

Lemma prefix_range q c : c <> max_rune -> valid_rune c ->
  forall s, Forall valid_rune s ->
    is_prefix (q ++ [c]) s = (ge_str s (q ++ [c]) && lt_str s (q ++ [next_rune c])).
Proof.
  intros Hm Vc. induction q as [|y q IH]; intros s Vs.
  - destruct s as [|x s']; [reflexivity|]. inversion Vs; subst. cbn [app is_prefix].
    rewrite <- (prefix_range_last c x s' Hm) by assumption. cbn [is_prefix]. destruct s'; reflexivity.
  - destruct s as [|x s']; [reflexivity|]. inversion Vs; subst. cbn [app is_prefix].
    unfold ge_str, lt_str in *. cbn [cmp_bytes].
    destruct (N.compare_spec x y) as [->|L|L].
    + rewrite N.eqb_refl. cbn [andb]. apply IH. assumption.
    + destruct (N.eqb_spec x y); [lia|]. reflexivity.
    + destruct (N.eqb_spec x y); [lia|]. reflexivity.
Qed.

Lemma incr_last_snoc q c : incr_last (q ++ [c]) = if N.eqb c max_rune then None else Some (q ++ [next_rune c]).
Proof. unfold incr_last. rewrite rev_app_distr. cbn. rewrite rev_involutive. reflexivity. Qed.

(* the range produced by the rule selects exactly the strings matching  prefix%  *)
Theorem like_prefix_range q c hi s :
  no_wild (q ++ [c]) = true -> valid_rune c -> Forall valid_rune s ->
  incr_last (q ++ [c]) = Some hi ->
  like ((q ++ [c]) ++ [37]) s = (ge_str s (q ++ [c]) && lt_str s hi).
Proof.
  intros Hn Vc Vs Hi. rewrite incr_last_snoc in Hi. destruct (N.eqb_spec c max_rune) as [|Hm]; [discriminate|].
  injection Hi as <-. rewrite (like_prefix _ Hn). apply prefix_range; assumption.
Qed.

(* the residual form keeps the LIKE, so it is trivially equivalent as soon as the lower bound is implied *)
Lemma prefix_ge p : forall s, is_prefix p s = true -> ge_str s p = true.
Proof.
  induction p as [|c p IH]; intros s H.
  - unfold ge_str. destruct s; reflexivity.
  - destruct s as [|x s]; [discriminate|]. cbn [is_prefix] in H. apply andb_prop in H. destruct H as [H1 H2].
    apply N.eqb_eq in H1. subst. unfold ge_str in *. cbn [cmp_bytes]. rewrite N.compare_refl. apply IH. exact H2.
Qed.

Theorem like_lower_and_like p s :
  no_wild p = true -> (ge_str s p && like (p ++ [37]) s) = like (p ++ [37]) s.
Proof.
  intros Hn. rewrite (like_prefix p Hn). destruct (is_prefix p s) eqn:E; [|apply andb_false_r].
  rewrite (prefix_ge p s E). reflexivity.
Qed.

(* ---------- the whole rule ---------- *)
Lemma count_app c a b : count c (a ++ b) = (count c a + count c b)%nat.
Proof. unfold count. rewrite filter_app, app_length. reflexivity. Qed.

Lemma no_wild_of_counts p :
  existsb (N.eqb 92) p = false -> count 95 p = O -> count 37 p = O -> no_wild p = true.
Proof.
  induction p as [|c p IH]; [reflexivity|]. unfold count in *. cbn [existsb filter].
  intros H92 H95 H37. apply orb_false_elim in H92. destruct H92 as [E92 H92].
  destruct (N.eqb 95 c) eqn:E95; [cbn in H95; discriminate|]. destruct (N.eqb 37 c) eqn:E37; [cbn in H37; discriminate|].
  cbn [no_wild forallb]. unfold plain_char.
  rewrite (N.eqb_sym c 37), E37, (N.eqb_sym c 95), E95, (N.eqb_sym c 92), E92. cbn [negb andb].
  apply IH; assumption.
Qed.

Theorem rewrite_like_sound pat s :
  Forall valid_rune pat -> Forall valid_rune s -> eval_rewrite pat s = like pat s.
Proof.
  intros Vp Vs. unfold eval_rewrite, rewrite_like.
  destruct pat as [|p0 pat0] eqn:Epat; [reflexivity|]. rewrite <- Epat in *. clear Epat p0 pat0.
  destruct (existsb (N.eqb 92) pat) eqn:E92; [reflexivity|].
  destruct (Nat.ltb 0 (count 95 pat)) eqn:E95; [reflexivity|].
  apply Nat.ltb_ge in E95. assert (C95 : count 95 pat = O) by lia.
  destruct (count 37 pat) as [|[|n]] eqn:E37; try reflexivity.
  - symmetry. apply like_no_wild. apply no_wild_of_counts; assumption.
  - destruct (rev pat) as [|c q] eqn:Er; [reflexivity|].
    destruct (N.eqb_spec c 37) as [->|]; [|reflexivity].
    destruct q as [|c0 q0] eqn:Eq; [reflexivity|]. rewrite <- Eq in *.
    assert (Hp : pat = rev q ++ [37]) by (rewrite <- (rev_involutive pat), Er; reflexivity).
    assert (Hnw : no_wild (rev q) = true).
    { rewrite Hp in E92, C95, E37. rewrite existsb_app in E92. apply orb_false_elim in E92. destruct E92 as [A _].
      rewrite count_app in C95, E37. cbn in C95, E37. apply no_wild_of_counts; [exact A|lia|lia]. }
    assert (Hq : rev q = rev q0 ++ [c0]) by (rewrite Eq; reflexivity).
    destruct (incr_last (rev q)) as [hi|] eqn:Ei.
    + rewrite Hp. rewrite Hq in *. apply eq_sym. apply like_prefix_range; try assumption.
      rewrite Hp in Vp. apply Forall_app in Vp. destruct Vp as [Vp _]. apply Forall_app in Vp. destruct Vp as [_ Vc].
      inversion Vc; assumption.
    + rewrite Hp. apply like_lower_and_like. exact Hnw.
Qed.
