(* Proofs about the C05 expression layer: ternary-logic partition, soundness of simplify / push_not. *)
From Coq Require Import List ZArith NArith Bool Lia Permutation.
Import ListNotations.
From GMS Require Import Expr.C05Expr.
Open Scope Z_scope.

Arguments wrap64 : simpl never.
Arguments pow10 : simpl never.
Arguments cmp_num : simpl never.
Arguments str_truthy : simpl never.

(* ---------- induction principle with the IN list ---------- *)
Section ExprInd.
  Variable P : expr -> Prop.
  Hypothesis HLit : forall v t, P (Lit v t).
  Hypothesis HCol : forall i t, P (Col i t).
  Hypothesis HCmp : forall op a b, P a -> P b -> P (Cmp op a b).
  Hypothesis HNsEq : forall a b, P a -> P b -> P (NsEq a b).
  Hypothesis HArith : forall op a b, P a -> P b -> P (Arith op a b).
  Hypothesis HNeg : forall a, P a -> P (Neg a).
  Hypothesis HAnd : forall a b, P a -> P b -> P (And a b).
  Hypothesis HOr : forall a b, P a -> P b -> P (Or a b).
  Hypothesis HXor : forall a b, P a -> P b -> P (Xor a b).
  Hypothesis HNot : forall a, P a -> P (Not a).
  Hypothesis HIsNull : forall a, P a -> P (IsNull a).
  Hypothesis HIsTrue : forall i a, P a -> P (IsTrue i a).
  Hypothesis HIn : forall a l, P a -> Forall P l -> P (In a l).
  Hypothesis HBetween : forall a b c, P a -> P b -> P c -> P (Between a b c).
  Hypothesis HCase : forall a b c, P a -> P b -> P c -> P (Case a b c).

  Fixpoint expr_ind' (e : expr) : P e :=
    match e with
    | Lit v t => HLit v t
    | Col i t => HCol i t
    | Cmp op a b => HCmp op a b (expr_ind' a) (expr_ind' b)
    | NsEq a b => HNsEq a b (expr_ind' a) (expr_ind' b)
    | Arith op a b => HArith op a b (expr_ind' a) (expr_ind' b)
    | Neg a => HNeg a (expr_ind' a)
    | And a b => HAnd a b (expr_ind' a) (expr_ind' b)
    | Or a b => HOr a b (expr_ind' a) (expr_ind' b)
    | Xor a b => HXor a b (expr_ind' a) (expr_ind' b)
    | Not a => HNot a (expr_ind' a)
    | IsNull a => HIsNull a (expr_ind' a)
    | IsTrue i a => HIsTrue i a (expr_ind' a)
    | In a l => HIn a l (expr_ind' a)
                  ((fix go (l : list expr) : Forall P l :=
                      match l with [] => Forall_nil P | x :: r => Forall_cons x (expr_ind' x) (go r) end) l)
    | Between a b c => HBetween a b c (expr_ind' a) (expr_ind' b) (expr_ind' c)
    | Case a b c => HCase a b c (expr_ind' a) (expr_ind' b) (expr_ind' c)
    end.
End ExprInd.

(* ---------- ternary logic ---------- *)
Lemma to_tri_of_tri t : to_tri (of_tri t) = t.
Proof. destruct t; reflexivity. Qed.

Lemma to_tri_null v : to_tri v = TN <-> v = VNull.
Proof.
  destruct v; split; intros H; try reflexivity; try discriminate;
    unfold to_tri in H; destruct (truthy _); discriminate.
Qed.

Lemma de_morgan_and a b : not3 (and3 a b) = or3 (not3 a) (not3 b).
Proof. destruct a, b; reflexivity. Qed.
Lemma de_morgan_or a b : not3 (or3 a b) = and3 (not3 a) (not3 b).
Proof. destruct a, b; reflexivity. Qed.
Lemma not3_invol a : not3 (not3 a) = a.
Proof. destruct a; reflexivity. Qed.

(* ---------- comparison laws ---------- *)
Lemma cmp_bytes_antisym a : forall b, cmp_bytes b a = CompOpp (cmp_bytes a b).
Proof.
  induction a as [|x a IH]; intros [|y b]; cbn; try reflexivity.
  rewrite (N.compare_antisym x y). destruct (N.compare x y); cbn; try reflexivity. apply IH.
Qed.

Lemma cmp_bytes_refl a : cmp_bytes a a = Eq.
Proof. induction a as [|x a IH]; cbn; [reflexivity|]. rewrite N.compare_refl. exact IH. Qed.

Lemma cmp_num_antisym m1 s1 m2 s2 : cmp_num m2 s2 m1 s1 = CompOpp (cmp_num m1 s1 m2 s2).
Proof. unfold cmp_num. apply Z.compare_antisym. Qed.

Lemma cmp_val_antisym a b : cmp_val b a = CompOpp (cmp_val a b).
Proof.
  destruct a, b; cbn [cmp_val]; try reflexivity;
    try apply Z.compare_antisym; try apply cmp_num_antisym; try apply cmp_bytes_antisym.
Qed.

Lemma cmp_val_refl a : cmp_val a a = Eq.
Proof.
  destruct a; cbn [cmp_val]; try reflexivity.
  - apply Z.compare_refl.
  - unfold cmp_num. apply Z.compare_refl.
  - apply cmp_bytes_refl.
Qed.

Definition flip_op (op : cmpop) : cmpop :=
  match op with CEq => CEq | CLt => CGt | CLe => CGe | CGt => CLt | CGe => CLe end.

Lemma cmp3_flip op l r : cmp3 op l r = cmp3 (flip_op op) r l.
Proof.
  destruct l, r; try reflexivity; unfold cmp3;
    match goal with |- context [cmp_val ?x ?y] =>
      rewrite (cmp_val_antisym y x); destruct (cmp_val y x); destruct op; reflexivity end.
Qed.

Definition neg_op (op : cmpop) : cmpop :=
  match op with CGt => CLe | CGe => CLt | CLt => CGe | CLe => CGt | CEq => CEq end.

Lemma cmp3_neg op l r : op <> CEq -> not3 (cmp3 op l r) = cmp3 (neg_op op) l r.
Proof.
  intros Hop. destruct l, r; try reflexivity; unfold cmp3;
    match goal with |- context [cmp_val ?x ?y] => destruct (cmp_val x y); destruct op; try reflexivity; congruence end.
Qed.

(* ---------- the partition ---------- *)
Lemma is_true_tri v : is_true v = match to_tri v with TT => true | _ => false end.
Proof. reflexivity. Qed.

Lemma eval_not r p : eval r (Not p) = of_tri (not3 (to_tri (eval r p))).
Proof. reflexivity. Qed.

Lemma three_way r p :
  let a := is_true (eval r p) in
  let b := is_true (eval r (Not p)) in
  let c := is_true (eval r (IsNull p)) in
  (a = true /\ b = false /\ c = false) \/ (a = false /\ b = true /\ c = false) \/ (a = false /\ b = false /\ c = true).
Proof.
  cbn zeta. rewrite eval_not. cbn [eval]. unfold is_true. rewrite to_tri_of_tri.
  destruct (eval r p) as [|z|m s|b] eqn:E; cbn [to_tri].
  - right; right. repeat split; reflexivity.
  - destruct (truthy (VInt z)); cbn; auto.
  - destruct (truthy (VDec m s)); cbn; auto.
  - destruct (truthy (VStr b)); cbn; auto.
Qed.

Lemma tlp_perm q p : Permutation q (sigma p q ++ sigma (Not p) q ++ sigma (IsNull p) q).
Proof.
  unfold sigma. induction q as [|r q IH]; [constructor|].
  cbn [filter]. destruct (three_way r p) as [(Ha & Hb & Hc)|[(Ha & Hb & Hc)|(Ha & Hb & Hc)]];
    rewrite Ha, Hb, Hc.
  - cbn. constructor. exact IH.
  - apply Permutation_cons_app. exact IH.
  - rewrite app_assoc. apply Permutation_cons_app. rewrite <- app_assoc. exact IH.
Qed.

Lemma sigma_In p q r : List.In r (sigma p q) <-> List.In r q /\ is_true (eval r p) = true.
Proof. unfold sigma. apply filter_In. Qed.

(* ---------- closed expressions do not look at the row ---------- *)
Lemma eval_closed r e : closed e = true -> eval r e = eval [] e.
Proof.
  induction e using expr_ind'; cbn [closed eval]; intros Hc;
    repeat match goal with H : (_ && _)%bool = true |- _ => apply andb_prop in H; destruct H end;
    try discriminate; try reflexivity;
    repeat match goal with IH : closed ?a = true -> _, H : closed ?a = true |- _ => rewrite (IH H); clear IH end;
    try reflexivity.
  - (* In *)
    assert (Hm : map (eval r) l = map (eval []) l).
    { clear - H H1. induction H as [|x l Hx Hl IH]; [reflexivity|]. cbn in H1. apply andb_prop in H1. destruct H1 as [H1 H2].
      cbn. rewrite (Hx H1), (IH H2). reflexivity. }
    rewrite Hm. reflexivity.
Qed.

(* ---------- the guard: Boolean-typed leaves hold 0 / 1 / NULL ---------- *)
Definition boolishb (v : val) : bool :=
  match v with VNull => true | VInt z => (Z.eqb z 0 || Z.eqb z 1)%bool | _ => false end.

Definition leaf_ok (v : val) (t : ty) : bool :=
  match t with TyBool => boolishb v | TyNull => match v with VNull => true | _ => false end | _ => true end.

Fixpoint bool_ok (r : row) (e : expr) : bool :=
  match e with
  | Lit v t => leaf_ok v t
  | Col i t => leaf_ok (nth i r VNull) t
  | Cmp _ a b | NsEq a b | Arith _ a b | And a b | Or a b | Xor a b => bool_ok r a && bool_ok r b
  | Neg a | Not a | IsNull a | IsTrue _ a => bool_ok r a
  | In a l => bool_ok r a && forallb (bool_ok r) l
  | Between a b c | Case a b c => bool_ok r a && bool_ok r b && bool_ok r c
  end.

Lemma boolish_of_tri t : boolishb (of_tri t) = true.
Proof. destruct t; reflexivity. Qed.
Lemma boolish_vbool b : boolishb (vbool b) = true.
Proof. destruct b; reflexivity. Qed.

Lemma boolish_round v : boolishb v = true -> of_tri (to_tri v) = v.
Proof.
  destruct v as [|z| |]; cbn; try discriminate; try reflexivity.
  intros H. apply orb_prop in H. destruct H as [H|H]; apply Z.eqb_eq in H; subst; reflexivity.
Qed.

Lemma gen_ty_null_l t : gen_ty TyNull t = t.
Proof. destruct t; reflexivity. Qed.

Lemma null_typed_null r e : bool_ok r e = true -> ty_of e = TyNull -> eval r e = VNull.
Proof.
  induction e using expr_ind'; cbn [bool_ok ty_of eval]; intros Hok Hty; try discriminate.
  - subst t. cbn in Hok. destruct v; try discriminate. reflexivity.
  - subst t. cbn in Hok. destruct (nth i r VNull); try discriminate. reflexivity.
  - destruct (ty_of e) eqn:E; try discriminate. rewrite (IHe Hok eq_refl). reflexivity.
  - rewrite gen_ty_null_l in Hty.
    apply andb_prop in Hok. destruct Hok as [Hok H3]. apply andb_prop in Hok. destruct Hok as [H1 H2].
    assert (ty_of e2 = TyNull /\ ty_of e3 = TyNull) as [T2 T3].
    { destruct (ty_of e2), (ty_of e3); cbn in Hty; try discriminate; auto. }
    rewrite (IHe2 H2 T2), (IHe3 H3 T3). destruct (is_true _); reflexivity.
Qed.

Lemma bool_typed_boolish r e : bool_ok r e = true -> ty_of e = TyBool -> boolishb (eval r e) = true.
Proof.
  induction e using expr_ind'; cbn [bool_ok ty_of eval]; intros Hok Hty; try discriminate;
    try apply boolish_of_tri.
  - subst t. exact Hok.
  - subst t. exact Hok.
  - destruct (eval r e1), (eval r e2); try apply boolish_vbool; reflexivity.
  - destruct (eval r e); reflexivity.
  - destruct (eval r e); try apply boolish_vbool; reflexivity.
  - destruct (eval r e); try reflexivity; apply boolish_of_tri.
  - rewrite gen_ty_null_l in Hty.
    apply andb_prop in Hok. destruct Hok as [Hok H3]. apply andb_prop in Hok. destruct Hok as [H1 H2].
    destruct (is_true (eval r e1)).
    + destruct (ty_of e2) eqn:T2; try (destruct (ty_of e3); discriminate).
      * rewrite (null_typed_null r e2 H2 T2). reflexivity.
      * apply IHe2; auto.
    + destruct (ty_of e3) eqn:T3; try (destruct (ty_of e2); discriminate).
      * rewrite (null_typed_null r e3 H3 T3). reflexivity.
      * apply IHe3; auto.
Qed.

Lemma bool_ok_closed r e : closed e = true -> bool_ok r e = bool_ok [] e.
Proof.
  induction e using expr_ind'; cbn [closed bool_ok]; intros Hc;
    repeat match goal with H : (_ && _)%bool = true |- _ => apply andb_prop in H; destruct H end;
    try discriminate; try reflexivity;
    repeat match goal with IH : closed ?a = true -> _, H : closed ?a = true |- _ => rewrite (IH H); clear IH end;
    try reflexivity.
  f_equal. clear - H H1. induction H as [|x l Hx Hl IH]; [reflexivity|]. cbn in H1. apply andb_prop in H1.
  destruct H1 as [H1 H2]. cbn. rewrite (Hx H1), (IH H2). reflexivity.
Qed.

(* ---------- simplify ---------- *)
Lemma def_true_spec e : def_true e = true -> exists v t, e = Lit v t /\ to_tri v = TT.
Proof.
  destruct e; cbn; try discriminate. destruct v; try discriminate; intros H; eexists _, _; split; try reflexivity;
    unfold to_tri; rewrite H; reflexivity.
Qed.
Lemma def_false_spec e : def_false e = true -> exists v t, e = Lit v t /\ to_tri v = TF.
Proof.
  destruct e; cbn; try discriminate. destruct v; try discriminate; intros H; apply negb_true_iff in H;
    eexists _, _; split; try reflexivity; unfold to_tri; rewrite H; reflexivity.
Qed.

Lemma is_bool_ty_spec e : is_bool_ty e = true -> ty_of e = TyBool.
Proof. unfold is_bool_ty. destruct (ty_of e); cbn; congruence. Qed.

Lemma same_field_eval r a b : same_field a b = true -> eval r a = eval r b.
Proof.
  destruct a, b; cbn; try discriminate. intros H. apply Nat.eqb_eq in H. subst. reflexivity.
Qed.

Lemma fold_const_sound r e :
  bool_ok r e = true -> eval r (fold_const e) = eval r e /\ bool_ok r (fold_const e) = true.
Proof.
  intros Hok. unfold fold_const. destruct (closed e) eqn:Hc; [|auto].
  cbn [eval bool_ok]. split; [symmetry; apply eval_closed; exact Hc|].
  rewrite (bool_ok_closed r e Hc) in Hok.
  unfold leaf_ok. destruct (ty_of e) eqn:T; try reflexivity.
  - rewrite (null_typed_null [] e Hok T). reflexivity.
  - apply bool_typed_boolish; assumption.
Qed.

Lemma and3_TT_l x : and3 TT x = x.
Proof. destruct x; reflexivity. Qed.
Lemma and3_TT_r x : and3 x TT = x.
Proof. destruct x; reflexivity. Qed.

Lemma cmp3_refl_le v : v <> VNull -> cmp3 CLe v v = TT.
Proof. intros Hv. destruct v; try congruence; unfold cmp3; rewrite cmp_val_refl; reflexivity. Qed.
Lemma cmp3_refl_ge v : v <> VNull -> cmp3 CGe v v = TT.
Proof. intros Hv. destruct v; try congruence; unfold cmp3; rewrite cmp_val_refl; reflexivity. Qed.

Lemma and3_cmp_refl v h :
  v <> VNull -> and3 (cmp3 CLe v v) (cmp3 CGe h v) = cmp3 CLe v h.
Proof.
  intros Hv. rewrite (cmp3_flip CGe h v). cbn [flip_op]. rewrite (cmp3_refl_le v Hv). apply and3_TT_l.
Qed.

Lemma simplify_node_sound r e :
  bool_ok r e = true -> eval r (simplify_node e) = eval r e /\ bool_ok r (simplify_node e) = true.
Proof.
  intros Hok.
  destruct e; try (apply fold_const_sound; exact Hok); try (split; [reflexivity|exact Hok]).
  - (* And *)
    cbn [simplify_node]. cbn [bool_ok] in Hok. apply andb_prop in Hok. destruct Hok as [H1 H2].
    destruct (def_false e1) eqn:F1.
    { destruct (def_false_spec _ F1) as (v & t & -> & Hv). cbn [eval]. rewrite Hv. split; reflexivity. }
    destruct (def_false e2) eqn:F2.
    { destruct (def_false_spec _ F2) as (v & t & -> & Hv). cbn [eval]. rewrite Hv.
      destruct (to_tri (eval r e1)); split; reflexivity. }
    destruct (def_true e1) eqn:T1; destruct (def_true e2) eqn:T2; cbn [andb].
    + destruct (def_true_spec _ T1) as (v & t & -> & Hv). destruct (def_true_spec _ T2) as (v' & t' & -> & Hv').
      cbn [eval]. rewrite Hv, Hv'. split; reflexivity.
    + destruct (def_true_spec _ T1) as (v & t & -> & Hv).
      destruct (is_bool_ty e2) eqn:B2.
      * split; [|exact H2]. cbn [eval]. rewrite Hv.
        pose proof (bool_typed_boolish r e2 H2 (is_bool_ty_spec _ B2)) as Hb.
        rewrite <- (boolish_round _ Hb) at 1. destruct (to_tri (eval r e2)); reflexivity.
      * split; [reflexivity|]. cbn [bool_ok] in *. rewrite H1, H2. reflexivity.
    + destruct (def_true_spec _ T2) as (v & t & -> & Hv).
      destruct (is_bool_ty e1) eqn:B1.
      * split; [|exact H1]. cbn [eval]. rewrite Hv.
        pose proof (bool_typed_boolish r e1 H1 (is_bool_ty_spec _ B1)) as Hb.
        rewrite <- (boolish_round _ Hb) at 1. destruct (to_tri (eval r e1)); reflexivity.
      * split; [reflexivity|]. cbn [bool_ok] in *. rewrite H1, H2. reflexivity.
    + split; [reflexivity|]. cbn [bool_ok] in *. rewrite H1, H2. reflexivity.
  - (* Or *)
    cbn [simplify_node]. cbn [bool_ok] in Hok. apply andb_prop in Hok. destruct Hok as [H1 H2].
    destruct (def_true e1) eqn:T1.
    { destruct (def_true_spec _ T1) as (v & t & -> & Hv). cbn [eval]. rewrite Hv. split; reflexivity. }
    destruct (def_true e2) eqn:T2.
    { destruct (def_true_spec _ T2) as (v & t & -> & Hv). cbn [eval]. rewrite Hv.
      destruct (to_tri (eval r e1)); split; reflexivity. }
    destruct (def_false e1) eqn:F1; destruct (def_false e2) eqn:F2; cbn [andb].
    + destruct (def_false_spec _ F1) as (v & t & -> & Hv). destruct (def_false_spec _ F2) as (v' & t' & -> & Hv').
      cbn [eval]. rewrite Hv, Hv'. split; reflexivity.
    + destruct (def_false_spec _ F1) as (v & t & -> & Hv).
      destruct (is_bool_ty e2) eqn:B2.
      * split; [|exact H2]. cbn [eval]. rewrite Hv.
        pose proof (bool_typed_boolish r e2 H2 (is_bool_ty_spec _ B2)) as Hb.
        rewrite <- (boolish_round _ Hb) at 1. destruct (to_tri (eval r e2)); reflexivity.
      * split; [reflexivity|]. cbn [bool_ok] in *. rewrite H1, H2. reflexivity.
    + destruct (def_false_spec _ F2) as (v & t & -> & Hv).
      destruct (is_bool_ty e1) eqn:B1.
      * split; [|exact H1]. cbn [eval]. rewrite Hv.
        pose proof (bool_typed_boolish r e1 H1 (is_bool_ty_spec _ B1)) as Hb.
        rewrite <- (boolish_round _ Hb) at 1. destruct (to_tri (eval r e1)); reflexivity.
      * split; [reflexivity|]. cbn [bool_ok] in *. rewrite H1, H2. reflexivity.
    + split; [reflexivity|]. cbn [bool_ok] in *. rewrite H1, H2. reflexivity.
  - (* Not *)
    cbn [simplify_node]. destruct e; try (split; [reflexivity|exact Hok]).
    destruct v; try (split; [reflexivity|exact Hok]); cbn [eval]; unfold to_tri;
      match goal with |- context [truthy ?x] => destruct (truthy x) end; split; reflexivity.
  - (* Between *)
    cbn [simplify_node]. cbn [bool_ok] in Hok. apply andb_prop in Hok. destruct Hok as [Hok H3].
    apply andb_prop in Hok. destruct Hok as [H1 H2].
    destruct (same_field e2 e3) eqn:S23.
    { split; [|cbn [bool_ok]; rewrite H1, H2; reflexivity].
      cbn [eval]. rewrite <- (same_field_eval r _ _ S23). rewrite !to_tri_of_tri.
      rewrite (cmp3_flip CLe (eval r e2) (eval r e1)), (cmp3_flip CGe (eval r e2) (eval r e1)). cbn [flip_op].
      f_equal. destruct (eval r e1) as [|x|m s|x], (eval r e2) as [|y|m' s'|y]; try reflexivity; unfold cmp3;
        match goal with |- context [cmp_val ?a ?b] => destruct (cmp_val a b); reflexivity end. }
    destruct (is_col e1 && same_field e2 e1)%bool eqn:S21.
    { apply andb_prop in S21. destruct S21 as [_ S21].
      split; [|cbn [bool_ok]; rewrite H1, H3; reflexivity].
      cbn [eval]. rewrite (same_field_eval r _ _ S21). rewrite !to_tri_of_tri. f_equal.
      destruct (eval r e1) eqn:E1.
      - destruct (eval r e3); reflexivity.
      - symmetry. apply and3_cmp_refl; discriminate.
      - symmetry. apply and3_cmp_refl; discriminate.
      - symmetry. apply and3_cmp_refl; discriminate. }
    destruct (is_col e1 && same_field e3 e1)%bool eqn:S31.
    { apply andb_prop in S31. destruct S31 as [_ S31].
      split; [|cbn [bool_ok]; rewrite H1, H2; reflexivity].
      cbn [eval]. rewrite (same_field_eval r _ _ S31). rewrite !to_tri_of_tri. f_equal.
      rewrite (cmp3_flip CLe (eval r e2) (eval r e1)). cbn [flip_op].
      destruct (eval r e1) eqn:E1.
      - destruct (eval r e2); reflexivity.
      - rewrite cmp3_refl_ge by discriminate. symmetry. apply and3_TT_r.
      - rewrite cmp3_refl_ge by discriminate. symmetry. apply and3_TT_r.
      - rewrite cmp3_refl_ge by discriminate. symmetry. apply and3_TT_r. }
    split; [|cbn [bool_ok]; rewrite H1, H2, H3; reflexivity].
    cbn [eval]. rewrite !to_tri_of_tri.
    rewrite (cmp3_flip CLe (eval r e2) (eval r e1)), (cmp3_flip CGe (eval r e3) (eval r e1)). reflexivity.
Qed.

Lemma simplify_sound_ok r e :
  bool_ok r e = true -> eval r (simplify e) = eval r e /\ bool_ok r (simplify e) = true.
Proof.
  induction e using expr_ind'; intros Hok; cbn [simplify];
    try (apply simplify_node_sound; exact Hok); cbn [bool_ok] in Hok;
    repeat match goal with H : (_ && _)%bool = true |- _ => apply andb_prop in H; destruct H end;
    repeat match goal with IH : bool_ok r ?a = true -> _, H : bool_ok r ?a = true |- _ =>
      destruct (IH H) as [? ?]; clear IH end.
  all: try match goal with |- eval ?rr (simplify_node ?e') = eval _ ?e0 /\ _ =>
    assert (Hk : bool_ok rr e' = true) by (cbn [bool_ok]; repeat (apply andb_true_intro; split); assumption);
    assert (He : eval rr e' = eval rr e0)
      by (cbn [eval]; repeat match goal with Hq : eval _ (simplify _) = _ |- _ => rewrite Hq; clear Hq end; reflexivity);
    destruct (simplify_node_sound rr e' Hk) as [Hs1 Hs2]; split; [congruence|exact Hs2] end.
  (* In *)
  assert (Hl : map (eval r) (map simplify l) = map (eval r) l /\ forallb (bool_ok r) (map simplify l) = true).
  { clear - H H1. induction H as [|x l Hx Hl IH]; [split; reflexivity|]. cbn in H1. apply andb_prop in H1.
    destruct H1 as [H1 H2]. destruct (Hx H1) as [A B]. destruct (IH H2) as [C D]. cbn. rewrite A, B, C, D. split; reflexivity. }
  destruct Hl as [Hl1 Hl2].
  assert (Hk : bool_ok r (In (simplify e) (map simplify l)) = true) by (cbn [bool_ok]; rewrite H3, Hl2; reflexivity).
  assert (He : eval r (In (simplify e) (map simplify l)) = eval r (In e l)) by (cbn [eval]; rewrite H2, Hl1; reflexivity).
  destruct (simplify_node_sound r _ Hk) as [Hs1 Hs2]. split; [congruence|exact Hs2].
Qed.

(* ---------- push_not ---------- *)
Ltac rw_push := repeat match goal with Hq : eval _ (push _ _) = _ |- _ => rewrite Hq; clear Hq end.

Lemma push_sound_ok r e :
  bool_ok r e = true ->
  eval r (push false e) = eval r e /\ eval r (push true e) = eval r (Not e).
Proof.
  induction e using expr_ind'; intros Hok; cbn [bool_ok] in Hok;
    repeat match goal with H : (_ && _)%bool = true |- _ => apply andb_prop in H; destruct H end;
    repeat match goal with IH : bool_ok r ?a = true -> _, H : bool_ok r ?a = true |- _ =>
      destruct (IH H) as [? ?]; clear IH end;
    cbn [push].
  - split; reflexivity.
  - split; reflexivity.
  - (* Cmp *)
    split.
    + destruct op; cbn [eval]; rw_push; reflexivity.
    + destruct op; cbn [eval]; rewrite ?to_tri_of_tri; rw_push; try reflexivity;
        match goal with |- of_tri (cmp3 ?o _ _) = of_tri (not3 (cmp3 ?o' _ _)) =>
          rewrite (cmp3_neg o'); [reflexivity|discriminate] end.
  - split; cbn [eval]; rw_push; reflexivity.
  - split; cbn [eval]; rw_push; reflexivity.
  - split; cbn [eval]; rw_push; reflexivity.
  - (* And *)
    split; [cbn [eval]; rw_push; reflexivity|].
    cbn [eval]. rw_push. cbn [eval]. rewrite !to_tri_of_tri, de_morgan_and. reflexivity.
  - (* Or *)
    split; [cbn [eval]; rw_push; reflexivity|].
    cbn [eval]. rw_push. cbn [eval]. rewrite !to_tri_of_tri, de_morgan_or. reflexivity.
  - split; cbn [eval]; rw_push; reflexivity.
  - (* Not *)
    split; [assumption|].
    destruct (is_bool_ty e) eqn:B.
    + rw_push. cbn [eval]. rewrite to_tri_of_tri, not3_invol.
      symmetry. apply boolish_round. apply bool_typed_boolish; [exact Hok|apply is_bool_ty_spec; exact B].
    + cbn [eval]. rw_push. reflexivity.
  - split; cbn [eval]; rw_push; reflexivity.
  - split; cbn [eval]; rw_push; reflexivity.
  - (* In *)
    assert (Hl : map (eval r) (map (push false) l) = map (eval r) l).
    { clear - H H1. induction H as [|x l Hx Hl IH]; [reflexivity|]. cbn in H1. apply andb_prop in H1.
      destruct H1 as [H1 H2]. destruct (Hx H1) as [A _]. cbn. rewrite A, (IH H2). reflexivity. }
    split; cbn [eval]; rewrite Hl; rw_push; reflexivity.
  - (* Between *)
    split; [cbn [eval]; rw_push; reflexivity|].
    cbn [eval]. rw_push. rewrite !to_tri_of_tri, de_morgan_and.
    rewrite (cmp3_neg CLe), (cmp3_neg CGe) by discriminate. cbn [neg_op].
    rewrite (cmp3_flip CGt (eval r e2) (eval r e1)), (cmp3_flip CLt (eval r e3) (eval r e1)). reflexivity.
  - split; cbn [eval]; rw_push; reflexivity.
Qed.

(* ---------- the unguarded statements are false of the faithful model ---------- *)
Definition witness_row : row := [VInt 5].
Definition witness_simplify : expr :=
  Cmp CEq (Or (Lit (VInt 0) TyBool) (Col 0 TyBool)) (Lit (VInt 1) TyInt).
Definition witness_push : expr :=
  Cmp CEq (Not (Not (Col 0 TyBool))) (Lit (VInt 1) TyInt).

Lemma simplify_unsound :
  exists r e, is_true (eval r e) = true /\ is_true (eval r (simplify e)) = false.
Proof. exists witness_row, witness_simplify. split; vm_compute; reflexivity. Qed.

Lemma push_not_unsound :
  exists r e, is_true (eval r e) = true /\ is_true (eval r (push_not e)) = false.
Proof. exists witness_row, witness_push. split; vm_compute; reflexivity. Qed.

(* ---------- composition as the analyzer applies it (simplifyFilters, then pushNotFilters) ---------- *)
Lemma rewrite_sound r e : bool_ok r e = true -> eval r (push_not (simplify e)) = eval r e.
Proof.
  intros Hok. destruct (simplify_sound_ok r e Hok) as [Hs Hb].
  unfold push_not. destruct (push_sound_ok r _ Hb) as [Hp _]. congruence.
Qed.

Lemma sigma_ext p p' q :
  (forall r, List.In r q -> eval r p' = eval r p) -> sigma p' q = sigma p q.
Proof.
  intros H. unfold sigma. apply filter_ext_in. intros r Hr. rewrite (H r Hr). reflexivity.
Qed.

Lemma rewrite_sigma p q :
  Forall (fun r => bool_ok r p = true) q -> sigma (push_not (simplify p)) q = sigma p q.
Proof.
  intros H. apply sigma_ext. intros r Hr. apply rewrite_sound. rewrite Forall_forall in H. exact (H r Hr).
Qed.

(* ---------- inner join: filtering in the join loop = filtering the cross product ---------- *)
Definition cross (A B : list row) : list row := flat_map (fun a => map (app a) B) A.
(* joinIter for an inner join: for each left row, the right rows for which the condition on the merged row is TRUE *)
Definition nlj (p : expr) (A B : list row) : list row :=
  flat_map (fun a => map (app a) (filter (fun b => is_true (eval (a ++ b) p)) B)) A.

Lemma filter_map_comm {X Y} (f : Y -> bool) (g : X -> Y) l : filter f (map g l) = map g (filter (fun x => f (g x)) l).
Proof. induction l as [|x l IH]; [reflexivity|]. cbn. destruct (f (g x)); cbn; rewrite IH; reflexivity. Qed.

Lemma nlj_eq p A B : nlj p A B = sigma p (cross A B).
Proof.
  unfold nlj, cross, sigma. induction A as [|a A IH]; [reflexivity|].
  cbn [flat_map]. rewrite filter_app, IH, filter_map_comm. reflexivity.
Qed.
