(* C05/C06 shared expression layer: values, three-valued logic, a small SQL expression language with [eval],
   and the two analyzer rewrites of sql/analyzer/optimization_rules.go that act on filter expressions:
   [simplify] mirrors simplifyExpression (transform.Expr, bottom-up), [push_not] mirrors pushNotFiltersHelper.
   The model mirrors the Go code as it is:  Boolean-typed expressions are trusted by the rules to hold 0/1/NULL
   (types.IsBoolean is "tinyint with display width 1"), which is false for TINYINT(1) columns holding other values. *)
From Coq Require Import List ZArith NArith Bool Lia.
Import ListNotations.
Open Scope Z_scope.

(* ---------- values ---------- *)
(* Go bool true/false are VInt 1 / VInt 0 (they print the same through the engine). VDec m s = m * 10^-s. *)
Inductive val := VNull | VInt (z : Z) | VDec (m : Z) (s : N) | VStr (b : list N).

(* static types as far as the rewrites look at them: Boolean (= TINYINT(1)), other integers, decimal, text, null *)
Inductive ty := TyNull | TyBool | TyInt | TyDec | TyStr.

Inductive cmpop := CEq | CLt | CLe | CGt | CGe.
Inductive arop := APlus | AMinus | AMult.

Inductive expr :=
| Lit (v : val) (t : ty)
| Col (i : nat) (t : ty)
| Cmp (op : cmpop) (a b : expr)
| NsEq (a b : expr)                      (* <=> *)
| Arith (op : arop) (a b : expr)         (* integer + - * (int64, wrapping as arithmetic.go does) *)
| Neg (a : expr)
| And (a b : expr) | Or (a b : expr) | Xor (a b : expr) | Not (a : expr)
| IsNull (a : expr)
| IsTrue (inv : bool) (a : expr)         (* IS TRUE (inv=false) / IS FALSE (inv=true) *)
| In (a : expr) (l : list expr)          (* InTuple with a tuple of scalars *)
| Between (v lo hi : expr)
| Case (c t e : expr).                   (* CASE WHEN c THEN t ELSE e END *)

Definition row := list val.

(* ---------- equality tests (used by the correspondence) ---------- *)
Fixpoint list_eqb {A} (f : A -> A -> bool) (a b : list A) : bool :=
  match a, b with
  | [], [] => true
  | x :: a', y :: b' => f x y && list_eqb f a' b'
  | _, _ => false
  end.

Definition val_eqb (a b : val) : bool :=
  match a, b with
  | VNull, VNull => true
  | VInt x, VInt y => Z.eqb x y
  | VDec m s, VDec m' s' => Z.eqb m m' && N.eqb s s'
  | VStr x, VStr y => list_eqb N.eqb x y
  | _, _ => false
  end.

Definition ty_eqb (a b : ty) : bool :=
  match a, b with
  | TyNull, TyNull | TyBool, TyBool | TyInt, TyInt | TyDec, TyDec | TyStr, TyStr => true
  | _, _ => false
  end.

Definition cmpop_eqb (a b : cmpop) : bool :=
  match a, b with
  | CEq, CEq | CLt, CLt | CLe, CLe | CGt, CGt | CGe, CGe => true
  | _, _ => false
  end.

Definition arop_eqb (a b : arop) : bool :=
  match a, b with
  | APlus, APlus | AMinus, AMinus | AMult, AMult => true
  | _, _ => false
  end.

Fixpoint expr_eqb (x y : expr) : bool :=
  match x, y with
  | Lit v t, Lit v' t' => val_eqb v v' && ty_eqb t t'
  | Col i t, Col i' t' => Nat.eqb i i' && ty_eqb t t'
  | Cmp o a b, Cmp o' a' b' => cmpop_eqb o o' && expr_eqb a a' && expr_eqb b b'
  | NsEq a b, NsEq a' b' => expr_eqb a a' && expr_eqb b b'
  | Arith o a b, Arith o' a' b' => arop_eqb o o' && expr_eqb a a' && expr_eqb b b'
  | Neg a, Neg a' => expr_eqb a a'
  | And a b, And a' b' => expr_eqb a a' && expr_eqb b b'
  | Or a b, Or a' b' => expr_eqb a a' && expr_eqb b b'
  | Xor a b, Xor a' b' => expr_eqb a a' && expr_eqb b b'
  | Not a, Not a' => expr_eqb a a'
  | IsNull a, IsNull a' => expr_eqb a a'
  | IsTrue i a, IsTrue i' a' => Bool.eqb i i' && expr_eqb a a'
  | In a l, In a' l' =>
      expr_eqb a a' &&
      (fix go (l l' : list expr) : bool :=
         match l, l' with
         | [], [] => true
         | e :: r, e' :: r' => expr_eqb e e' && go r r'
         | _, _ => false
         end) l l'
  | Between a b c, Between a' b' c' => expr_eqb a a' && expr_eqb b b' && expr_eqb c c'
  | Case a b c, Case a' b' c' => expr_eqb a a' && expr_eqb b b' && expr_eqb c c'
  | _, _ => false
  end.

(* ---------- truth values ---------- *)
Inductive tri := TT | TF | TN.

Definition is_ws (c : N) : bool := (N.eqb c 32 || N.eqb c 9 || N.eqb c 10 || N.eqb c 13)%bool.
Fixpoint skip_ws (s : list N) : list N :=
  match s with c :: r => if is_ws c then skip_ws r else s | [] => [] end.
(* digits with at most one '.', stop at the first other byte; true iff a digit 1..9 was seen *)
Fixpoint mantissa_nonzero (dot : bool) (s : list N) : bool :=
  match s with
  | [] => false
  | c :: r =>
      if (N.leb 49 c && N.leb c 57)%bool then true
      else if N.eqb c 48 then mantissa_nonzero dot r
      else if (N.eqb c 46 && negb dot)%bool then mantissa_nonzero true r
      else false
  end.
(* sql.ConvertToBool on a string: the numeric prefix parsed as a float is non-zero (exponents are not modelled) *)
Definition str_truthy (s : list N) : bool :=
  match skip_ws s with
  | c :: r => if (N.eqb c 43 || N.eqb c 45)%bool then mantissa_nonzero false r else mantissa_nonzero false (c :: r)
  | [] => false
  end.

(* sql.ConvertToBool for non-NULL values *)
Definition truthy (v : val) : bool :=
  match v with
  | VNull => false
  | VInt z => negb (Z.eqb z 0)
  | VDec m _ => negb (Z.eqb m 0)
  | VStr s => str_truthy s
  end.

Definition to_tri (v : val) : tri :=
  match v with VNull => TN | _ => if truthy v then TT else TF end.

Definition vbool (b : bool) : val := VInt (if b then 1 else 0).
Definition of_tri (t : tri) : val := match t with TT => vbool true | TF => vbool false | TN => VNull end.

Definition and3 (a b : tri) : tri :=
  match a, b with TF, _ | _, TF => TF | TT, TT => TT | _, _ => TN end.
Definition or3 (a b : tri) : tri :=
  match a, b with TT, _ | _, TT => TT | TF, TF => TF | _, _ => TN end.
Definition not3 (a : tri) : tri := match a with TT => TF | TF => TT | TN => TN end.
Definition xor3 (a b : tri) : tri :=
  match a, b with TN, _ | _, TN => TN | TT, TT | TF, TF => TF | _, _ => TT end.

(* sql.EvaluateCondition + sql.IsTrue: a filter keeps the row iff the value is non-NULL and converts to true *)
Definition is_true (v : val) : bool := match to_tri v with TT => true | _ => false end.

(* ---------- comparison of non-NULL values ---------- *)
Fixpoint cmp_bytes (a b : list N) : comparison :=
  match a, b with
  | [], [] => Eq
  | [], _ => Lt
  | _, [] => Gt
  | x :: a', y :: b' => match N.compare x y with Eq => cmp_bytes a' b' | c => c end
  end.

Definition pow10 (s : N) : Z := 10 ^ Z.of_N s.
Definition cmp_num (m1 : Z) (s1 : N) (m2 : Z) (s2 : N) : comparison :=
  Z.compare (m1 * pow10 s2) (m2 * pow10 s1).

(* integers and decimals compare numerically (exactly), strings bytewise (utf8mb4_0900_bin, NO PAD).
   Mixed string/number comparisons go through float64 in the Go code and are outside the modelled fragment; the
   model orders numbers before strings there so that [cmp_val] stays a lawful total comparison. *)
Definition cmp_val (a b : val) : comparison :=
  match a, b with
  | VNull, VNull => Eq
  | VNull, _ => Lt
  | _, VNull => Gt
  | VInt x, VInt y => Z.compare x y
  | VInt x, VDec m s => cmp_num x 0 m s
  | VDec m s, VInt y => cmp_num m s y 0
  | VDec m1 s1, VDec m2 s2 => cmp_num m1 s1 m2 s2
  | VStr x, VStr y => cmp_bytes x y
  | VStr _, _ => Gt
  | _, VStr _ => Lt
  end.

Definition cmp_holds (op : cmpop) (c : comparison) : bool :=
  match op, c with
  | CEq, Eq => true
  | CLt, Lt => true
  | CLe, Lt | CLe, Eq => true
  | CGt, Gt => true
  | CGe, Gt | CGe, Eq => true
  | _, _ => false
  end.

Definition cmp3 (op : cmpop) (l r : val) : tri :=
  match l, r with
  | VNull, _ | _, VNull => TN
  | _, _ => if cmp_holds op (cmp_val l r) then TT else TF
  end.

(* ---------- arithmetic ---------- *)
Definition wrap64 (z : Z) : Z := (z + 2 ^ 63) mod 2 ^ 64 - 2 ^ 63.
Definition ar_apply (op : arop) (x y : Z) : Z :=
  wrap64 (match op with APlus => x + y | AMinus => x - y | AMult => x * y end).

(* ---------- static types ---------- *)
(* types.GeneralizeTypes restricted to the classes of [ty] (CASE result type) *)
Definition gen_ty (a b : ty) : ty :=
  if ty_eqb a b then a else
  match a, b with
  | TyNull, _ => b
  | _, TyNull => a
  | TyStr, _ | _, TyStr => TyStr
  | TyDec, _ | _, TyDec => TyDec
  | _, _ => TyInt
  end.

Fixpoint ty_of (e : expr) : ty :=
  match e with
  | Lit _ t | Col _ t => t
  | Cmp _ _ _ | NsEq _ _ | And _ _ | Or _ _ | Xor _ _ | IsNull _ | IsTrue _ _ | In _ _ | Between _ _ _ => TyBool
  | Not a => match ty_of a with TyNull => TyNull | _ => TyBool end
  | Arith _ _ _ | Neg _ => TyInt
  | Case _ t e => gen_ty (gen_ty TyNull (ty_of t)) (ty_of e)
  end.

(* ---------- eval ---------- *)
(* InTuple.Eval: first match wins; a NULL element makes a miss NULL *)
Fixpoint in_list (l : val) (rs : list val) (has_null : bool) : tri :=
  match rs with
  | [] => if has_null then TN else TF
  | VNull :: rs' => in_list l rs' true
  | r :: rs' => match cmp_val l r with Eq => TT | _ => in_list l rs' has_null end
  end.

Fixpoint eval (r : row) (e : expr) : val :=
  match e with
  | Lit v _ => v
  | Col i _ => nth i r VNull
  | Cmp op a b => of_tri (cmp3 op (eval r a) (eval r b))
  | NsEq a b =>
      match eval r a, eval r b with
      | VNull, VNull => vbool true
      | VNull, _ | _, VNull => vbool false
      | x, y => vbool (match cmp_val x y with Eq => true | _ => false end)
      end
  | Arith op a b =>
      match eval r a, eval r b with
      | VInt x, VInt y => VInt (ar_apply op x y)
      | _, _ => VNull
      end
  | Neg a => match eval r a with VInt x => VInt (- x) | _ => VNull end
  | And a b => of_tri (and3 (to_tri (eval r a)) (to_tri (eval r b)))
  | Or a b => of_tri (or3 (to_tri (eval r a)) (to_tri (eval r b)))
  | Xor a b => of_tri (xor3 (to_tri (eval r a)) (to_tri (eval r b)))
  | Not a => of_tri (not3 (to_tri (eval r a)))
  | IsNull a => match eval r a with VNull => vbool true | _ => vbool false end
  | IsTrue inv a => match eval r a with VNull => vbool false | v => vbool (xorb inv (truthy v)) end
  | In a l =>
      match eval r a with
      | VNull => VNull
      | x => of_tri (in_list x (map (eval r) l) false)
      end
  | Between v lo hi =>
      (* Between.Eval = And(LessThanOrEqual(lower, val), GreaterThanOrEqual(upper, val)) *)
      of_tri (and3 (to_tri (of_tri (cmp3 CLe (eval r lo) (eval r v))))
                   (to_tri (of_tri (cmp3 CGe (eval r hi) (eval r v)))))
  | Case c t e => if is_true (eval r c) then eval r t else eval r e
  end.

(* ---------- simplifyExpression ---------- *)
Fixpoint closed (e : expr) : bool :=
  match e with
  | Lit _ _ => true
  | Col _ _ => false
  | Cmp _ a b | NsEq a b | Arith _ a b | And a b | Or a b | Xor a b => closed a && closed b
  | Neg a | Not a | IsNull a | IsTrue _ a => closed a
  | In a l => closed a && forallb closed l
  | Between a b c | Case a b c => closed a && closed b && closed c
  end.

(* getDefiniteBoolValues *)
Definition def_true (e : expr) : bool :=
  match e with Lit VNull _ => false | Lit v _ => truthy v | _ => false end.
Definition def_false (e : expr) : bool :=
  match e with Lit VNull _ => false | Lit v _ => negb (truthy v) | _ => false end.

Definition is_bool_ty (e : expr) : bool := ty_eqb (ty_of e) TyBool.

Definition lit_true : expr := Lit (vbool true) TyBool.
Definition lit_false : expr := Lit (vbool false) TyBool.

Definition same_field (a b : expr) : bool :=
  match a, b with Col i _, Col j _ => Nat.eqb i j | _, _ => false end.
Definition is_col (a : expr) : bool := match a with Col _ _ => true | _ => false end.

(* evaluate once and turn into a literal (the default branch of simplifyExpression) *)
Definition fold_const (e : expr) : expr := if closed e then Lit (eval [] e) (ty_of e) else e.

(* the function passed to transform.Expr, applied to a node whose children are already simplified *)
Definition simplify_node (e : expr) : expr :=
  match e with
  | Between v lo hi =>
      if same_field lo hi then Cmp CEq v lo
      else if (is_col v && same_field lo v)%bool then Cmp CLe v hi
      else if (is_col v && same_field hi v)%bool then Cmp CGe v lo
      else And (Cmp CGe v lo) (Cmp CLe v hi)
  | Or a b =>
      if def_true a then lit_true
      else if def_true b then lit_true
      else if (def_false a && def_false b)%bool then lit_false
      else if (def_false a && is_bool_ty b)%bool then b
      else if (def_false b && is_bool_ty a)%bool then a
      else e
  | And a b =>
      if def_false a then lit_false
      else if def_false b then lit_false
      else if (def_true a && def_true b)%bool then lit_true
      else if (def_true a && is_bool_ty b)%bool then b
      else if (def_true b && is_bool_ty a)%bool then a
      else e
  | Not (Lit VNull _) => e
  | Not (Lit v _) => Lit (vbool (negb (truthy v))) TyBool
  | Not _ => e
  | Lit _ _ => e
  | _ => fold_const e
  end.

Fixpoint simplify (e : expr) : expr :=
  simplify_node
    match e with
    | Lit _ _ | Col _ _ => e
    | Cmp op a b => Cmp op (simplify a) (simplify b)
    | NsEq a b => NsEq (simplify a) (simplify b)
    | Arith op a b => Arith op (simplify a) (simplify b)
    | Neg a => Neg (simplify a)
    | And a b => And (simplify a) (simplify b)
    | Or a b => Or (simplify a) (simplify b)
    | Xor a b => Xor (simplify a) (simplify b)
    | Not a => Not (simplify a)
    | IsNull a => IsNull (simplify a)
    | IsTrue i a => IsTrue i (simplify a)
    | In a l => In (simplify a) (map simplify l)
    | Between a b c => Between (simplify a) (simplify b) (simplify c)
    | Case a b c => Case (simplify a) (simplify b) (simplify c)
    end.

(* ---------- pushNotFiltersHelper ---------- *)
(* [push false e] = pushNotFiltersHelper e;  [push true e] = pushNotFiltersHelper (Not e). *)
Fixpoint push (neg : bool) (e : expr) : expr :=
  let keep (e' : expr) := if neg then Not e' else e' in
  match e with
  | Not c =>
      if neg then (if is_bool_ty c then push false c else Not (push true c))
      else push true c
  | And a b => if neg then Or (push true a) (push true b) else And (push false a) (push false b)
  | Or a b => if neg then And (push true a) (push true b) else Or (push false a) (push false b)
  | Cmp op a b =>
      let op' := if neg then match op with CGt => CLe | CGe => CLt | CLt => CGe | CLe => CGt | CEq => CEq end else op in
      match op, neg with
      | CEq, true => Not (Cmp CEq (push false a) (push false b))
      | _, _ => Cmp op' (push false a) (push false b)
      end
  | Between v lo hi =>
      if neg then Or (Cmp CLt (push false v) (push false lo)) (Cmp CGt (push false v) (push false hi))
      else Between (push false v) (push false lo) (push false hi)
  | Lit _ _ | Col _ _ => keep e
  | NsEq a b => keep (NsEq (push false a) (push false b))
  | Arith op a b => keep (Arith op (push false a) (push false b))
  | Neg a => keep (Neg (push false a))
  | Xor a b => keep (Xor (push false a) (push false b))
  | IsNull a => keep (IsNull (push false a))
  | IsTrue i a => keep (IsTrue i (push false a))
  | In a l => keep (In (push false a) (map (push false) l))
  | Case a b c => keep (Case (push false a) (push false b) (push false c))
  end.

Definition push_not (e : expr) : expr := push false e.

(* ---------- relations ---------- *)
Definition sigma (p : expr) (q : list row) : list row := filter (fun r => is_true (eval r p)) q.

(* ---------- the modelled fragment (what the correspondence may send) ---------- *)
(* type classes: numbers (bool/int/dec), strings, NULL literal (fits both) *)
Definition num_ty (t : ty) : bool := match t with TyStr => false | _ => true end.
Definition str_ty (t : ty) : bool := match t with TyStr | TyNull => true | _ => false end.
Definition int_ty (t : ty) : bool := match t with TyInt | TyNull => true | _ => false end.
Definition compat (a b : ty) : bool := (num_ty a && num_ty b) || (str_ty a && str_ty b).

Definition lit_ok (v : val) (t : ty) : bool :=
  match v, t with
  | VNull, _ => true
  | VInt z, TyBool => (Z.eqb z 0 || Z.eqb z 1)%bool
  | VInt _, TyInt => true
  | VDec _ s, TyDec => N.eqb s 2
  | VStr _, TyStr => true
  | _, _ => false
  end.

(* IN lists: the hashed IN (HashInTuple) takes its comparison type from the left operand and the FIRST element only, so
   lists mixing integer and decimal operands are outside the fragment the model predicts *)
Definition tcls (t : ty) : nat := match t with TyNull => 0 | TyBool | TyInt => 1 | TyDec => 2 | TyStr => 3 end.
Fixpoint same_cls (c : nat) (ts : list ty) : bool :=
  match ts with
  | [] => true
  | t :: r =>
      let k := tcls t in
      if Nat.eqb k 0 then same_cls c r
      else if Nat.eqb c 0 then same_cls k r
      else Nat.eqb k c && same_cls c r
  end.

Fixpoint wt (e : expr) : bool :=
  match e with
  | Lit v t => lit_ok v t
  | Col _ t => negb (ty_eqb t TyNull)
  | Cmp _ a b | NsEq a b => wt a && wt b && compat (ty_of a) (ty_of b)
  | Arith _ a b => wt a && wt b && int_ty (ty_of a) && int_ty (ty_of b)
  | Neg a => wt a && int_ty (ty_of a)
  | And a b | Or a b | Xor a b => wt a && wt b && num_ty (ty_of a) && num_ty (ty_of b)
  | Not a | IsTrue _ a => wt a && num_ty (ty_of a)
  | IsNull a => wt a
  | In a l => wt a && forallb wt l && same_cls 0 (ty_of a :: map ty_of l)
  | Between a b c => wt a && wt b && wt c && compat (ty_of a) (ty_of b) && compat (ty_of a) (ty_of c)
  | Case c t e =>
      wt c && wt t && wt e && num_ty (ty_of c) &&
      ((int_ty (ty_of t) && int_ty (ty_of e)) || (str_ty (ty_of t) && str_ty (ty_of e))
       || (ty_eqb (ty_of t) TyBool && ty_eqb (ty_of e) TyBool))
  end.
