(* C08 — RANGE frames: the sliding search of rangeFramerBase.Next yields, for every sorted (ascending) integer key
   list and all bounds/offsets, exactly the rows whose key lies within the bounds of the current row's key. *)
From Coq Require Import List ZArith Bool Lia Arith.
Import ListNotations.
From GMS Require Import Expr.C08Agg.
Open Scope Z_scope.

Fixpoint zsorted (l : list Z) : Prop :=
  match l with [] => True | x :: t => Forall (fun y => x <= y) t /\ zsorted t end.

Definition ge (t : Z) : Z -> bool := fun x => x >=? t.

Lemma first_sat_ext p q l : (forall x, p x = q x) -> first_sat p l = first_sat q l.
Proof. intros H. induction l as [|k t IH]; cbn; [reflexivity|]. rewrite H, IH. reflexivity. Qed.

Lemma gt_as_ge c x : (x >? c) = ge (c + 1) x.
Proof. unfold ge. destruct (Z.gtb_spec x c), (Z.geb_spec x (c + 1)); try reflexivity; lia. Qed.

Lemma first_sat_le p l : (first_sat p l <= length l)%nat.
Proof. induction l as [|k t IH]; cbn; [lia|]. destruct (p k); lia. Qed.

(* positions before the boundary are exactly the keys below the threshold *)
Lemma first_sat_spec t l : zsorted l -> forall j, (j < length l)%nat ->
  ((j < first_sat (ge t) l)%nat <-> nth j l 0 < t).
Proof.
  induction l as [|x r IH]; intros Hs j Hj; [cbn in Hj; lia|].
  destruct Hs as [Hx Hr]. cbn [first_sat]. unfold ge at 1. destruct (Z.geb_spec x t) as [H|H].
  - split; [lia|]. intros Hlt. exfalso. destruct j as [|j]; cbn [nth] in Hlt; [lia|].
    rewrite Forall_forall in Hx. cbn [length] in Hj. assert (Hjr : (j < length r)%nat) by lia.
    specialize (Hx (nth j r 0) (nth_In r 0 Hjr)). lia.
  - destruct j as [|j]; cbn [nth]; [split; intros; lia|].
    cbn [length] in Hj. assert (Hjr : (j < length r)%nat) by lia. rewrite <- (IH Hr j Hjr). lia.
Qed.

Lemma first_sat_mono t1 t2 l : t1 <= t2 -> (first_sat (ge t1) l <= first_sat (ge t2) l)%nat.
Proof.
  intros H. induction l as [|x r IH]; cbn; [lia|]. unfold ge at 1 3.
  destruct (Z.geb_spec x t1), (Z.geb_spec x t2); lia.
Qed.

(* searching from a position not beyond the boundary finds the boundary *)
Lemma find_before p l : forall s, (s <= first_sat p l)%nat -> find_boundary p l s = first_sat p l.
Proof.
  unfold find_boundary. induction l as [|x r IH]; intros s Hs; cbn [first_sat] in *.
  - assert (s = O) by lia. subst. reflexivity.
  - destruct s as [|s]; [reflexivity|]. destruct (p x) eqn:E; [lia|]. cbn [skipn]. rewrite <- (IH s) by lia. lia.
Qed.

(* searching from a position at or beyond the boundary stays there (sorted keys) *)
Lemma find_after t l : zsorted l -> forall s, (first_sat (ge t) l <= s <= length l)%nat -> find_boundary (ge t) l s = s.
Proof.
  unfold find_boundary. induction l as [|x r IH]; intros Hs s H; cbn [first_sat length] in *.
  - assert (s = O) by lia. subst. reflexivity.
  - destruct Hs as [Hx Hr]. destruct s as [|s].
    + cbn [skipn first_sat]. destruct (ge t x); [reflexivity|lia].
    + cbn [skipn]. unfold ge in H at 1. destruct (Z.geb_spec x t) as [Hge|Hlt].
      * (* all later keys are >= t *)
        assert (F0 : first_sat (ge t) r = O).
        { destruct r as [|y r']; [reflexivity|]. cbn. unfold ge. inversion Hx; subst.
          destruct (Z.geb_spec y t); [reflexivity|lia]. }
        assert (Hc : (first_sat (ge t) r <= s <= length r)%nat) by lia. pose proof (IH Hr s Hc) as E. lia.
      * assert (Hc : (first_sat (ge t) r <= s <= length r)%nat) by lia. pose proof (IH Hr s Hc) as E. lia.
Qed.

Lemma nth_map_seq {B} (f : nat -> B) n i d : (i < n)%nat -> nth i (map f (seq 0 n)) d = f i.
Proof.
  intros H. rewrite (nth_indep _ d (f O)) by (rewrite map_length, seq_length; exact H).
  rewrite map_nth, seq_nth by exact H. reflexivity.
Qed.

Section Frames.
  Variables (sb eb : bound) (keys : list Z).
  Hypothesis SORTED : zsorted keys.
  Notation n := (length keys).
  Definition key_at (i : nat) := nth i keys 0.
  (* the ideal start and end for row i *)
  Definition ideal_start (i : nat) : nat := if is_unbp sb then O else first_sat (ge (key_at i + off sb)) keys.
  Definition ideal_end (i : nat) : nat := if is_unbf eb then n else first_sat (ge (key_at i + off eb + 1)) keys.

  Lemma key_mono i j : (i <= j < n)%nat -> key_at i <= key_at j.
  Proof.
    unfold key_at. revert i j. induction keys as [|x r IH]; intros i j H; [cbn in H; lia|].
    destruct SORTED as [Hx Hr]. destruct j as [|j]; [assert (i = O) by lia; subst; lia|].
    destruct i as [|i]; cbn [nth].
    - rewrite Forall_forall in Hx. apply Hx. apply nth_In. cbn [length] in H. lia.
    - apply IH; [exact Hr|cbn [length] in H; lia].
  Qed.

  Lemma ideal_start_mono i : (S i < n)%nat -> (ideal_start i <= ideal_start (S i))%nat.
  Proof.
    intros H. unfold ideal_start. destruct (is_unbp sb); [lia|]. apply first_sat_mono.
    pose proof (key_mono i (S i) ltac:(lia)). lia.
  Qed.
  Lemma ideal_end_mono i : (S i < n)%nat -> (ideal_end i <= ideal_end (S i))%nat.
  Proof.
    intros H. unfold ideal_end. destruct (is_unbf eb); [lia|]. apply first_sat_mono.
    pose proof (key_mono i (S i) ltac:(lia)). lia.
  Qed.
  Lemma ideal_start_le i : (ideal_start i <= n)%nat.
  Proof. unfold ideal_start. destruct (is_unbp sb); [lia|apply first_sat_le]. Qed.
  Lemma ideal_end_le i : (ideal_end i <= n)%nat.
  Proof. unfold ideal_end. destruct (is_unbf eb); [lia|apply first_sat_le]. Qed.

  (* one step of the framer from a state that has not overtaken the ideal bounds *)
  Lemma range_rows_spec : forall todo idx fs fe, (idx + todo = n)%nat ->
    (fs <= ideal_start idx)%nat -> (fe <= Nat.max (ideal_start idx) (ideal_end idx))%nat ->
    range_rows sb eb keys fs fe idx todo
    = map (fun i => (ideal_start i, Nat.max (ideal_start i) (ideal_end i))) (seq idx todo).
  Proof.
    induction todo as [|t IH]; intros idx fs fe Hn Hfs Hfe; [reflexivity|].
    cbn [range_rows seq map]. fold (key_at idx).
    assert (Ens : (if is_unbp sb then O else find_boundary (fun x => x >=? key_at idx + off sb) keys fs) = ideal_start idx).
    { unfold ideal_start in *. destruct (is_unbp sb); [reflexivity|]. apply (find_before (ge _)). exact Hfs. }
    rewrite Ens.
    assert (Ene : (if is_unbf eb then length keys
                   else find_boundary (fun x => x >? key_at idx + off eb) keys (Nat.max fe (ideal_start idx)))
                  = Nat.max (ideal_start idx) (ideal_end idx)).
    { pose proof (ideal_start_le idx) as Hsl. unfold ideal_end in *. destruct (is_unbf eb); [lia|].
      set (E := first_sat (ge (key_at idx + off eb + 1)) keys) in *.
      assert (Hext : forall s, find_boundary (fun x => x >? key_at idx + off eb) keys s = find_boundary (ge (key_at idx + off eb + 1)) keys s).
      { intros s. unfold find_boundary. f_equal. apply first_sat_ext. intros x. apply gt_as_ge. }
      rewrite Hext. destruct (le_lt_dec (Nat.max fe (ideal_start idx)) E) as [Hle|Hgt].
      - rewrite find_before by exact Hle. fold E. lia.
      - rewrite (find_after _ _ SORTED) by (fold E; lia). lia. }
    rewrite Ene. f_equal. destruct t as [|t']; [reflexivity|].
    apply IH; [lia| |].
    - apply ideal_start_mono. lia.
    - pose proof (ideal_start_mono idx ltac:(lia)). pose proof (ideal_end_mono idx ltac:(lia)). lia.
  Qed.

  Theorem range_frames_eq :
    range_frames sb eb keys = map (fun i => (ideal_start i, Nat.max (ideal_start i) (ideal_end i))) (seq 0 n).
  Proof. unfold range_frames. apply range_rows_spec; [reflexivity|lia|lia]. Qed.

  (* the property: row j is in the frame of row i iff its key is within the bounds, peers included *)
  Theorem range_frame_spec i : (i < n)%nat ->
    let '(s, e) := nth i (range_frames sb eb keys) (O, O) in
    forall j, (j < n)%nat ->
      ((s <= j < e)%nat <->
       (is_unbp sb = true \/ key_at i + off sb <= key_at j) /\ (is_unbf eb = true \/ key_at j <= key_at i + off eb)).
  Proof.
    intros Hi. rewrite range_frames_eq. rewrite nth_map_seq by exact Hi. intros j Hj.
    unfold ideal_start, ideal_end.
    destruct (is_unbp sb) eqn:Eu, (is_unbf eb) eqn:Ef.
    - split; [auto|lia].
    - pose proof (first_sat_spec (key_at i + off eb + 1) keys SORTED j Hj) as A. fold (key_at j) in A.
      split; [intros H; split; [auto|right; lia]|intros [_ [H|H]]; [discriminate|lia]].
    - pose proof (first_sat_spec (key_at i + off sb) keys SORTED j Hj) as A. fold (key_at j) in A.
      pose proof (first_sat_le (ge (key_at i + off sb)) keys) as Hfl.
      split; [intros H; split; [right; lia|auto]|intros [[H|H] _]; [discriminate|lia]].
    - pose proof (first_sat_spec (key_at i + off sb) keys SORTED j Hj) as A.
      pose proof (first_sat_spec (key_at i + off eb + 1) keys SORTED j Hj) as B. fold (key_at j) in A, B.
      split; [intros H; split; right; lia|intros [[H|H] [H'|H']]; try discriminate; lia].
  Qed.
End Frames.

(* the sort direction is not consulted: over a DESCENDING key list the frames are not the definition's *)
Theorem range_desc_refuted :
  exists keys i j, let '(s, e) := nth i (range_frames Cur UnbF keys) (O, O) in
    (* keys descending 5,2,1,1,0: for the last row (key 0) CURRENT ROW .. UNBOUNDED FOLLOWING must hold only itself *)
    keys = [5; 2; 1; 1; 0] /\ i = 4%nat /\ j = 0%nat /\ (s <= j < e)%nat.
Proof. exists [5; 2; 1; 1; 0], 4%nat, 0%nat. vm_compute. repeat split; lia. Qed.
