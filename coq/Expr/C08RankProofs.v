(* C08 — RANK / DENSE_RANK for every partition (no size bound): the peer-group framer with look-ahead equals a
   streaming definition, and over sorted keys RANK = 1 + #rows with a smaller key, DENSE_RANK = 1 + #distinct
   smaller keys. *)
From Coq Require Import List ZArith Bool Lia Arith.
Import ListNotations.
From GMS Require Import Expr.C08Agg.
Open Scope Z_scope.

Lemma key_eqb_eq a b : key_eqb a b = true <-> a = b.
Proof.
  destruct a as [x|], b as [y|]; cbn; split; intros H; try discriminate; try reflexivity.
  - apply Z.eqb_eq in H. congruence.
  - injection H as ->. apply Z.eqb_refl.
Qed.
Lemma key_eqb_refl a : key_eqb a a = true.
Proof. apply key_eqb_eq. reflexivity. Qed.

(* streaming definition: a row ties with its predecessor => same rank and dense rank;
   otherwise rank = position (1-based) and dense rank + 1 *)
Fixpoint sr (pos gr dr : Z) (prev : v) (keys : list v) : list (Z * Z) :=
  match keys with
  | [] => []
  | k :: t => if key_eqb prev k then (gr, dr) :: sr (pos + 1) gr dr k t
              else (pos + 1, dr + 1) :: sr (pos + 1) (pos + 1) (dr + 1) k t
  end.

Lemma rank_rows_stream n ps : 0 <= ps -> forall keys pos gr dr prev,
  1 <= pos -> 1 <= gr <= pos -> (gr = 1 -> dr = 1) -> (keys <> [] -> n <> 1) ->
  rank_rows n ps (ps + gr - 1) (peer_len prev keys) (ps + pos) gr dr keys = sr pos gr dr prev keys.
Proof.
  intros Hps. induction keys as [|k t IH]; intros pos gr dr prev Hpos Hgr Hd Hn; [reflexivity|].
  assert (Hn1 : (n =? 1) = false) by (apply Z.eqb_neq; apply Hn; discriminate).
  assert (Hi0 : (ps + pos =? 0) = false) by (apply Z.eqb_neq; lia).
  cbn [rank_rows sr peer_len]. destruct (key_eqb prev k) eqn:E.
  - apply key_eqb_eq in E. subst k. rewrite Hi0, Hn1.
    replace (ps + gr - 1 - ps + 1) with gr by lia.
    destruct (Z.eqb_spec gr 1) as [G1|G1].
    + rewrite (Hd G1). subst gr. f_equal.
      replace (ps + pos + 1) with (ps + (pos + 1)) by lia.
      assert (Hn' : t <> [] -> n <> 1) by (intros H; apply Hn; discriminate).
      pose proof (IH (pos + 1) 1 1 prev ltac:(lia) ltac:(lia) ltac:(auto) Hn') as Q.
      rewrite <- Q. f_equal; lia.
    + rewrite Z.eqb_refl. cbn [negb]. f_equal.
      replace (ps + pos + 1) with (ps + (pos + 1)) by lia.
      assert (Hn' : t <> [] -> n <> 1) by (intros H; apply Hn; discriminate).
      assert (Hd' : gr = 1 -> dr = 1) by (intros; lia).
      exact (IH (pos + 1) gr dr prev ltac:(lia) ltac:(lia) Hd' Hn').
  - rewrite Hi0, Hn1. replace (ps + pos - ps + 1) with (pos + 1) by lia.
    destruct (Z.eqb_spec (pos + 1) 1) as [G|G]; [lia|].
    destruct (Z.eqb_spec (pos + 1) gr) as [G'|G']; [lia|]. cbn [negb]. f_equal.
    replace (ps + pos + 1) with (ps + (pos + 1)) by lia.
    assert (Hn' : t <> [] -> n <> 1) by (intros H; apply Hn; discriminate).
    pose proof (IH (pos + 1) (pos + 1) (dr + 1) k ltac:(lia) ltac:(lia) ltac:(lia) Hn') as Q.
    rewrite <- Q. f_equal; lia.
Qed.

Theorem ranks_stream ps k0 t : 0 <= ps -> ranks ps (k0 :: t) = (1, 1) :: sr 1 1 1 k0 t.
Proof.
  intros Hps. unfold ranks. cbn [rank_rows].
  assert (R : (if ps =? 0 then 1 else if Z.of_nat (length (k0 :: t)) =? 1 then 1 else ps - ps + 1) = 1).
  { destruct (ps =? 0); [reflexivity|]. destruct (_ =? 1); [reflexivity|lia]. }
  rewrite R. cbn [Z.eqb Pos.eqb]. f_equal.
  assert (Hn' : t <> [] -> Z.of_nat (length (k0 :: t)) <> 1) by (intros Ht; destruct t; [congruence|]; cbn [length]; lia).
  pose proof (rank_rows_stream (Z.of_nat (length (k0 :: t))) ps Hps t 1 1 1 k0 ltac:(lia) ltac:(lia) ltac:(auto) Hn') as Q.
  rewrite <- Q. f_equal; lia.
Qed.

(* ---------------- counting characterisation over sorted keys ---------------- *)
(* the ORDER BY order on keys: NULL first *)
Definition vlt (a b : v) : bool :=
  match a, b with None, Some _ => true | Some x, Some y => x <? y | _, _ => false end.
Fixpoint vsorted (l : list v) : Prop :=
  match l with [] => True | x :: t => Forall (fun y => vlt y x = false) t /\ vsorted t end.
Definition cnt_lt (l : list v) (k : v) : Z := Z.of_nat (length (filter (fun y => vlt y k) l)).
Fixpoint mem (x : v) (l : list v) : bool := match l with [] => false | y :: t => key_eqb x y || mem x t end.
(* number of distinct values *)
Fixpoint ndist (l : list v) : nat := match l with [] => O | x :: t => ((if mem x t then 0 else 1) + ndist t)%nat end.
Definition dcnt_lt (l : list v) (k : v) : Z := Z.of_nat (ndist (filter (fun y => vlt y k) l)).

Lemma vlt_irrefl a : vlt a a = false.
Proof. destruct a; cbn; [apply Z.ltb_irrefl|reflexivity]. Qed.
Lemma vlt_trich a b : vlt a b = false -> vlt b a = false -> a = b.
Proof. destruct a as [x|], b as [y|]; cbn; intros H1 H2; try discriminate; try reflexivity. f_equal. lia. Qed.
Lemma vle_lt_trans a b c : vlt b a = false -> vlt b c = true -> vlt a c = true.
Proof. destruct a as [x|], b as [y|], c as [z|]; cbn; intros H1 H2; try discriminate; try reflexivity. lia. Qed.

Lemma mem_In x l : mem x l = true <-> In x l.
Proof.
  induction l as [|y t IH]; cbn; [split; [discriminate|tauto]|].
  rewrite orb_true_iff, IH, key_eqb_eq. split; intros [H|H]; auto.
Qed.
Lemma mem_app x a b : mem x (a ++ b) = mem x a || mem x b.
Proof. induction a as [|y t IH]; cbn; [reflexivity|]. rewrite IH, orb_assoc. reflexivity. Qed.

Lemma ndist_snoc_new k P : mem k P = false -> ndist (P ++ [k]) = S (ndist P).
Proof.
  induction P as [|x P IH]; intros H; [reflexivity|]. cbn [mem] in H. apply orb_false_elim in H. destruct H as [Hx Hk].
  cbn [app ndist]. rewrite mem_app. cbn [mem]. rewrite orb_false_r.
  assert (Ex : key_eqb x k = false).
  { destruct (key_eqb x k) eqn:E; [|reflexivity]. apply key_eqb_eq in E. subst. rewrite key_eqb_refl in Hx. discriminate. }
  rewrite Ex, orb_false_r, (IH Hk). lia.
Qed.
Lemma ndist_snoc_old k P : mem k P = true -> ndist (P ++ [k]) = ndist P.
Proof.
  induction P as [|x P IH]; intros H; [discriminate|]. cbn [mem] in H. cbn [app ndist]. rewrite mem_app. cbn [mem]. rewrite orb_false_r.
  destruct (mem k P) eqn:Hk.
  - rewrite (IH eq_refl). destruct (key_eqb x k) eqn:E; [|rewrite orb_false_r; reflexivity].
    apply key_eqb_eq in E. subst x. rewrite Hk. reflexivity.
  - rewrite orb_false_r in H. apply key_eqb_eq in H. subst x. rewrite Hk, key_eqb_refl, orb_true_r, ndist_snoc_new by exact Hk. lia.
Qed.

Lemma mem_filter_lt x k P : vlt x k = true -> mem x (filter (fun y => vlt y k) P) = mem x P.
Proof.
  intros Hx. induction P as [|y P IH]; [reflexivity|]. cbn [filter mem]. destruct (vlt y k) eqn:E.
  - cbn [mem]. rewrite IH. reflexivity.
  - rewrite IH. destruct (key_eqb x y) eqn:Exy; [|reflexivity]. apply key_eqb_eq in Exy. subst. congruence.
Qed.

Lemma filter_all {A} (p : A -> bool) l : Forall (fun y => p y = true) l -> filter p l = l.
Proof. induction 1 as [|x t H _ IH]; cbn; [reflexivity|]. rewrite H, IH. reflexivity. Qed.
Lemma filter_none {A} (p : A -> bool) l : Forall (fun y => p y = false) l -> filter p l = [].
Proof. induction 1 as [|x t H _ IH]; cbn; [reflexivity|]. rewrite H, IH. reflexivity. Qed.

(* all elements <= k and k occurs: the distinct values are those below k plus k itself *)
Lemma ndist_max k P : Forall (fun y => vlt k y = false) P -> mem k P = true ->
  ndist P = S (ndist (filter (fun y => vlt y k) P)).
Proof.
  induction P as [|x P IH]; intros HF HM; [discriminate|]. inversion HF as [|? ? Hx HF']; subst.
  cbn [ndist filter]. destruct (vlt x k) eqn:E.
  - cbn [ndist]. rewrite mem_filter_lt by exact E.
    assert (HM' : mem k P = true).
    { cbn [mem] in HM. apply orb_prop in HM. destruct HM as [HM|HM]; [|exact HM].
      apply key_eqb_eq in HM. subst x. rewrite vlt_irrefl in E. discriminate. }
    rewrite (IH HF' HM'). lia.
  - assert (x = k) by (apply vlt_trich; assumption). subst x.
    destruct (mem k P) eqn:Hk.
    + rewrite (IH HF' eq_refl). lia.
    + assert (HA : Forall (fun y => vlt y k = true) P).
      { rewrite Forall_forall in *. intros y Hy. destruct (vlt y k) eqn:Ey; [reflexivity|].
        assert (y = k) by (apply vlt_trich; [exact Ey|apply HF'; exact Hy]). subst y.
        apply mem_In in Hy. congruence. }
      rewrite (filter_all _ _ HA). lia.
Qed.

Lemma vsorted_app_inv P t : vsorted (P ++ t) -> vsorted P /\ vsorted t /\ (forall p y, In p P -> In y t -> vlt y p = false).
Proof.
  induction P as [|x P IH]; cbn [app vsorted]; intros H.
  - repeat split; auto. intros p y [].
  - destruct H as [HF HS]. apply Forall_app in HF. destruct HF as [HF1 HF2]. destruct (IH HS) as [A [B C]].
    repeat split; auto. intros p y [<-|Hp] Hy; [rewrite Forall_forall in HF2; apply HF2; exact Hy|apply C; assumption].
Qed.

Lemma vsorted_last_max P prev : vsorted (P ++ [prev]) -> Forall (fun y => vlt prev y = false) P.
Proof.
  intros H. apply vsorted_app_inv in H. destruct H as [_ [_ C]]. rewrite Forall_forall. intros y Hy.
  apply C; [exact Hy|left; reflexivity].
Qed.

Lemma filter_app' {A} (p : A -> bool) a b : filter p (a ++ b) = filter p a ++ filter p b.
Proof. induction a as [|x t IH]; cbn; [reflexivity|]. destruct (p x); cbn; rewrite IH; reflexivity. Qed.

(* generalised statement: Q ++ [prev] already emitted, t still to come *)
Lemma sr_counts : forall t Q prev, vsorted (Q ++ prev :: t) ->
  let P := Q ++ [prev] in
  sr (Z.of_nat (length P)) (1 + cnt_lt P prev) (Z.of_nat (ndist P)) prev t
  = map (fun k => (1 + cnt_lt (P ++ t) k, 1 + dcnt_lt (P ++ t) k)) t.
Proof.
  induction t as [|k t IH]; intros Q prev HS; cbn zeta; [reflexivity|].
  set (P := Q ++ [prev]).
  assert (HS' : vsorted (P ++ k :: t)) by (unfold P; rewrite <- app_assoc; exact HS).
  destruct (vsorted_app_inv _ _ HS') as [HP [Hkt Hcross]].
  assert (HPmax : Forall (fun y => vlt prev y = false) Q).
  { apply vsorted_last_max. exact HP. }
  assert (Hrest : Forall (fun y => vlt y k = false) (k :: t)).
  { destruct Hkt as [Hk _]. constructor; [apply vlt_irrefl|exact Hk]. }
  assert (HPk : Forall (fun y => vlt k y = false) P).
  { rewrite Forall_forall. intros y Hy. apply Hcross; [exact Hy|left; reflexivity]. }
  assert (Ecnt : forall l, filter (fun y => vlt y k) (l ++ k :: t) = filter (fun y => vlt y k) l).
  { intros l. rewrite filter_app', (filter_none _ _ Hrest), app_nil_r. reflexivity. }
  cbn [sr map]. destruct (key_eqb prev k) eqn:E.
  - apply key_eqb_eq in E. subst k. f_equal.
    + f_equal.
      * unfold cnt_lt. rewrite Ecnt. reflexivity.
      * unfold dcnt_lt. rewrite Ecnt. rewrite (ndist_max prev P HPk).
        -- lia.
        -- unfold P. rewrite mem_app. cbn. rewrite key_eqb_refl. apply orb_true_r.
    + specialize (IH P prev). cbn zeta in IH.
      assert (HS2 : vsorted (P ++ prev :: t)) by exact HS'.
      specialize (IH HS2). rewrite <- app_assoc in IH. cbn [app] in IH. rewrite <- IH.
      assert (E1 : length (P ++ [prev]) = S (length P)) by (rewrite app_length; cbn; lia).
      assert (E2 : cnt_lt (P ++ [prev]) prev = cnt_lt P prev).
      { unfold cnt_lt. rewrite filter_app'. cbn [filter]. rewrite vlt_irrefl, app_nil_r. reflexivity. }
      assert (E3 : ndist (P ++ [prev]) = ndist P).
      { apply ndist_snoc_old. unfold P. rewrite mem_app. cbn. rewrite key_eqb_refl. apply orb_true_r. }
      rewrite E1, E2, E3. f_equal. lia.
  - (* a new, strictly larger key *)
    assert (Hlt : vlt prev k = true).
    { destruct (vlt prev k) eqn:El; [reflexivity|]. exfalso.
      assert (prev = k).
      { apply vlt_trich; [exact El|]. rewrite Forall_forall in HPk. apply HPk. unfold P. apply in_or_app. right. left. reflexivity. }
      subst. rewrite key_eqb_refl in E. discriminate. }
    assert (HPlt : Forall (fun y => vlt y k = true) P).
    { unfold P. apply Forall_app. split.
      - eapply Forall_impl; [|exact HPmax]. cbn. intros y Hy. eapply vle_lt_trans; eassumption.
      - constructor; [exact Hlt|constructor]. }
    assert (Efil : filter (fun y => vlt y k) (P ++ k :: t) = P) by (rewrite Ecnt; apply filter_all; exact HPlt).
    f_equal.
    + f_equal; [unfold cnt_lt; rewrite Efil; lia|unfold dcnt_lt; rewrite Efil; lia].
    + specialize (IH P k). cbn zeta in IH. specialize (IH HS'). rewrite <- app_assoc in IH. cbn [app] in IH. rewrite <- IH.
      assert (E1 : length (P ++ [k]) = S (length P)) by (rewrite app_length; cbn; lia).
      assert (E2 : cnt_lt (P ++ [k]) k = Z.of_nat (length P)).
      { unfold cnt_lt. rewrite filter_app'. cbn [filter]. rewrite vlt_irrefl, app_nil_r, (filter_all _ _ HPlt). reflexivity. }
      assert (E3 : ndist (P ++ [k]) = S (ndist P)).
      { apply ndist_snoc_new. destruct (mem k P) eqn:Hm; [|reflexivity]. exfalso. apply mem_In in Hm.
        rewrite Forall_forall in HPlt. specialize (HPlt k Hm). rewrite vlt_irrefl in HPlt. discriminate. }
      rewrite E1, E2, E3. f_equal; lia.
Qed.

(* RANK = 1 + #{rows with a smaller key};  DENSE_RANK = 1 + #{distinct smaller keys}; any partition, any start *)
Theorem ranks_spec ps keys : 0 <= ps -> vsorted keys ->
  ranks ps keys = map (fun k => (1 + cnt_lt keys k, 1 + dcnt_lt keys k)) keys.
Proof.
  intros Hps HS. destruct keys as [|k0 t]; [reflexivity|]. rewrite ranks_stream by exact Hps.
  pose proof (sr_counts t [] k0 HS) as H. cbn zeta in H.
  change ([] ++ [k0]) with [k0] in H. change ([k0] ++ t) with (k0 :: t) in H.
  assert (E0 : cnt_lt [k0] k0 = 0) by (unfold cnt_lt; cbn [filter]; rewrite vlt_irrefl; reflexivity).
  rewrite E0 in H. change (Z.of_nat (length [k0])) with 1 in H. change (Z.of_nat (ndist [k0])) with 1 in H.
  change (1 + 0) with 1 in H. cbn [map]. rewrite <- H. f_equal.
  assert (Hrest : Forall (fun y => vlt y k0 = false) (k0 :: t)).
  { destruct HS as [Hk _]. constructor; [apply vlt_irrefl|exact Hk]. }
  unfold cnt_lt, dcnt_lt. rewrite (filter_none _ _ Hrest). reflexivity.
Qed.
