(* C08 — proofs: every buffer fold equals its list specification; ROWS frames; prefix sums; refutations. *)
From Coq Require Import List ZArith Bool Lia.
Import ListNotations.
From GMS Require Import Expr.C08Agg.
Open Scope Z_scope.

(* a fold that ignores NULLs is the fold over the non-NULL values *)
Lemma fold_nonnull {S} (step : S -> v -> S) (step' : S -> Z -> S) :
  (forall st, step st None = st) -> (forall st n, step st (Some n) = step' st n) ->
  forall xs st, fold_left step xs st = fold_left step' (nonnull xs) st.
Proof.
  intros HN HS. induction xs as [|[n|] t IH]; intros st; cbn [fold_left nonnull flat_map app]; [reflexivity| |].
  - rewrite HS. apply IH.
  - rewrite HN. apply IH.
Qed.

Lemma zsum_cons x t : zsum (x :: t) = x + zsum t.
Proof. reflexivity. Qed.
Lemma zsum_nil : zsum [] = 0.
Proof. reflexivity. Qed.

(* ---------- SUM ---------- *)
Lemma sum_fold l : forall b acc, l <> [] \/ b = false ->
  fold_left (fun st n => (false, snd st + n)) l (b, acc) = (false, acc + zsum l) \/ (l = [] /\ b = false).
Proof.
  induction l as [|x t IH]; intros b acc H.
  - right. destruct H; [congruence|auto].
  - left. cbn [fold_left snd]. rewrite zsum_cons. destruct (IH false (acc + x) (or_intror eq_refl)) as [E|[E _]].
    + rewrite E. f_equal. lia.
    + subst t. cbn [fold_left]. rewrite zsum_nil. f_equal. lia.
Qed.

Theorem sum_buf_spec xs : sum_buf xs = spec_sum xs.
Proof.
  unfold sum_buf, spec_sum.
  rewrite (fold_nonnull sum_update (fun st n => (false, snd st + n))) by (intros; reflexivity).
  destruct (nonnull xs) as [|a l] eqn:E; [reflexivity|].
  assert (Hne : a :: l <> [] \/ true = false) by (left; discriminate).
  destruct (sum_fold (a :: l) true 0 Hne) as [H|[H _]]; [|discriminate].
  rewrite H. reflexivity.
Qed.

(* ---------- COUNT ---------- *)
Lemma fold_count {B} (l : list B) : forall c, fold_left (fun c (_ : B) => c + 1) l c = c + Z.of_nat (length l).
Proof. induction l as [|x t IH]; intros c; cbn [fold_left length]; [lia|]. rewrite IH. lia. Qed.

Theorem count_buf_spec xs : count_buf xs = Z.of_nat (length (nonnull xs)).
Proof.
  unfold count_buf.
  rewrite (fold_nonnull (fun c x => match x with None => c | Some _ => c + 1 end) (fun c _ => c + 1)) by (intros; reflexivity).
  rewrite fold_count. lia.
Qed.

Theorem count_star_spec xs : count_star xs = Z.of_nat (length xs).
Proof. unfold count_star. rewrite fold_count. lia. Qed.

(* ---------- AVG ---------- *)
Lemma avg_fold l : forall b acc r,
  fold_left (fun st n => ((false, snd (fst st) + n), snd st + 1)) l ((b, acc), r)
  = ((match l with [] => b | _ => false end, acc + zsum l), r + Z.of_nat (length l)).
Proof.
  induction l as [|x t IH]; intros b acc r; cbn [fold_left fst snd].
  - rewrite zsum_nil. cbn [length]. apply f_equal2; [apply f_equal2; [reflexivity|lia]|lia].
  - rewrite IH, zsum_cons. cbn [length]. destruct t; (apply f_equal2; [apply f_equal2; [reflexivity|lia]|lia]).
Qed.

Theorem avg_buf_spec xs : avg_buf xs = spec_avg xs.
Proof.
  unfold avg_buf, spec_avg.
  rewrite (fold_nonnull avg_update (fun st n => ((false, snd (fst st) + n), snd st + 1))) by (intros; reflexivity).
  rewrite avg_fold. destruct (nonnull xs) as [|a l] eqn:E; [reflexivity|].
  cbn [fst snd sum_eval]. set (n := Z.of_nat (length (a :: l))).
  assert (Hn : 0 < n) by (unfold n; cbn [length]; lia).
  replace (0 + n =? 0) with false by (symmetry; apply Z.eqb_neq; lia).
  rewrite andb_false_r. rewrite !Z.add_0_l. reflexivity.
Qed.

(* ---------- MIN / MAX ---------- *)
Lemma max_fold l : forall c, fold_left (fun (m : v) n => match m with None => Some n | Some c => if n >? c then Some n else m end) l (Some c)
  = Some (fold_left Z.max l c).
Proof.
  induction l as [|x t IH]; intros c; cbn [fold_left]; [reflexivity|].
  destruct (Z.gtb_spec x c) as [H|H].
  - rewrite IH. f_equal. f_equal. lia.
  - rewrite IH. f_equal. f_equal. lia.
Qed.

Lemma min_fold l : forall c, fold_left (fun (m : v) n => match m with None => Some n | Some c => if n <? c then Some n else m end) l (Some c)
  = Some (fold_left Z.min l c).
Proof.
  induction l as [|x t IH]; intros c; cbn [fold_left]; [reflexivity|].
  destruct (Z.ltb_spec x c) as [H|H].
  - rewrite IH. f_equal. f_equal. lia.
  - rewrite IH. f_equal. f_equal. lia.
Qed.

Theorem max_buf_spec xs : max_buf xs = spec_max xs.
Proof.
  unfold max_buf, spec_max.
  rewrite (fold_nonnull max_update (fun (m : v) n => match m with None => Some n | Some c => if n >? c then Some n else m end)) by (intros; reflexivity).
  destruct (nonnull xs) as [|a l]; [reflexivity|]. cbn [fold_left]. apply max_fold.
Qed.

Theorem min_buf_spec xs : min_buf xs = spec_min xs.
Proof.
  unfold min_buf, spec_min.
  rewrite (fold_nonnull min_update (fun (m : v) n => match m with None => Some n | Some c => if n <? c then Some n else m end)) by (intros; reflexivity).
  destruct (nonnull xs) as [|a l]; [reflexivity|]. cbn [fold_left]. apply min_fold.
Qed.

(* what the fold of Z.max means: an element, and an upper bound of all *)
Lemma fold_max_spec l : forall a, In (fold_left Z.max l a) (a :: l) /\ Forall (fun y => y <= fold_left Z.max l a) (a :: l).
Proof.
  induction l as [|x t IH]; intros a; cbn [fold_left].
  - split; [left; reflexivity|constructor; [lia|constructor]].
  - destruct (IH (Z.max a x)) as [HI HF]. split.
    + destruct HI as [HI|HI]; [|right; right; exact HI].
      destruct (Z.max_spec a x) as [[_ E]|[_ E]]; rewrite E in *; [right; left|left]; exact HI.
    + inversion HF as [|? ? H1 H2]; subst. constructor; [lia|]. constructor; [lia|exact H2].
Qed.

Lemma fold_min_spec l : forall a, In (fold_left Z.min l a) (a :: l) /\ Forall (fun y => fold_left Z.min l a <= y) (a :: l).
Proof.
  induction l as [|x t IH]; intros a; cbn [fold_left].
  - split; [left; reflexivity|constructor; [lia|constructor]].
  - destruct (IH (Z.min a x)) as [HI HF]. split.
    + destruct HI as [HI|HI]; [|right; right; exact HI].
      destruct (Z.min_spec a x) as [[_ E]|[_ E]]; rewrite E in *; [left|right; left]; exact HI.
    + inversion HF as [|? ? H1 H2]; subst. constructor; [lia|]. constructor; [lia|exact H2].
Qed.

Theorem max_buf_meaning xs :
  (max_buf xs = None <-> nonnull xs = []) /\
  (forall m, max_buf xs = Some m -> In m (nonnull xs) /\ Forall (fun y => y <= m) (nonnull xs)).
Proof.
  rewrite max_buf_spec. unfold spec_max. destruct (nonnull xs) as [|a l]; split.
  - tauto.
  - intros m H. discriminate.
  - split; intros H; discriminate.
  - intros m H. injection H as <-. apply fold_max_spec.
Qed.

Theorem min_buf_meaning xs :
  (min_buf xs = None <-> nonnull xs = []) /\
  (forall m, min_buf xs = Some m -> In m (nonnull xs) /\ Forall (fun y => m <= y) (nonnull xs)).
Proof.
  rewrite min_buf_spec. unfold spec_min. destruct (nonnull xs) as [|a l]; split.
  - tauto.
  - intros m H. discriminate.
  - split; intros H; discriminate.
  - intros m H. injection H as <-. apply fold_min_spec.
Qed.

(* ---------- BIT_AND / BIT_OR / BIT_XOR ---------- *)
Theorem bit_bufs_spec xs :
  bit_and_buf xs = fold_left Z.land (map u64 (nonnull xs)) (2 ^ 64 - 1) /\
  bit_or_buf xs = fold_left Z.lor (map u64 (nonnull xs)) 0 /\
  bit_xor_buf xs = fold_left Z.lxor (map u64 (nonnull xs)) 0.
Proof.
  assert (G : forall (op : Z -> Z -> Z) l r, fold_left (fun r n => op r (u64 n)) l r = fold_left op (map u64 l) r).
  { intros op l. induction l as [|x t IH]; intros r; cbn [fold_left map]; [reflexivity|apply IH]. }
  unfold bit_and_buf, bit_or_buf, bit_xor_buf. repeat split.
  - rewrite (fold_nonnull (bit_update Z.land) (fun r n => Z.land r (u64 n))) by (intros; reflexivity). apply G.
  - rewrite (fold_nonnull (bit_update Z.lor) (fun r n => Z.lor r (u64 n))) by (intros; reflexivity). apply G.
  - rewrite (fold_nonnull (bit_update Z.lxor) (fun r n => Z.lxor r (u64 n))) by (intros; reflexivity). apply G.
Qed.

(* ---------- ROWS frames ---------- *)
(* the interval produced for the row at idx is exactly the rows of the partition within the offsets, for all
   offsets, including offsets past the partition edges and a start bound after the end bound *)
Theorem rows_frame_spec ps pe idx sb eb : ps <= idx < pe ->
  forall j, fst (frame ps pe idx sb eb) <= j < snd (frame ps pe idx sb eb) <->
    ps <= j < pe /\ (is_unbp sb = true \/ idx + off sb <= j) /\ (is_unbf eb = true \/ j <= idx + off eb).
Proof.
  intros Hidx j. unfold frame. cbn [fst snd].
  destruct (is_unbp sb) eqn:Eu, (is_unbf eb) eqn:Ef; cbn [orb];
    repeat match goal with
    | |- context [?a <? ?b] => destruct (Z.ltb_spec a b)
    | |- context [?a >? ?b] => destruct (Z.gtb_spec a b)
    end; cbn [fst snd]; intuition (try discriminate; try reflexivity; try lia).
Qed.

(* ---------- prefix sums ---------- *)
Lemma prefix_from_nth l : forall acc i, (i < length l)%nat ->
  nth i (prefix_from acc l) 0 = acc + zsum (firstn (S i) l).
Proof.
  induction l as [|x t IH]; intros acc i Hi; [cbn in Hi; lia|].
  cbn [prefix_from]. destruct i as [|i].
  - cbn [nth firstn]. rewrite zsum_cons, zsum_nil. lia.
  - cbn [nth]. rewrite IH by (cbn [length] in Hi; lia).
    change (firstn (S (S i)) (x :: t)) with (x :: firstn (S i) t). rewrite zsum_cons. lia.
Qed.

Lemma zsum_app a b : zsum (a ++ b) = zsum a + zsum b.
Proof. induction a as [|x t IH]; cbn [app]; [rewrite zsum_nil; lia|]. rewrite !zsum_cons, IH. lia. Qed.

Lemma prefix_value l k : (k <= length l)%nat ->
  (if Z.of_nat k - 1 >=? 0 then znth (prefix_from 0 l) (Z.of_nat k - 1) 0 else 0) = zsum (firstn k l).
Proof.
  intros Hk. destruct k as [|k].
  - reflexivity.
  - replace (Z.of_nat (S k) - 1) with (Z.of_nat k) by lia.
    destruct (Z.geb_spec (Z.of_nat k) 0); [|lia]. unfold znth.
    destruct (Z.ltb_spec (Z.of_nat k) 0); [lia|]. rewrite Nat2Z.id. rewrite prefix_from_nth by lia. lia.
Qed.

(* computePrefixSum over a frame inside the partition is the sum of the frame's values *)
Theorem prefix_diff_spec (l : list Z) (a b : nat) : (a <= b <= length l)%nat ->
  forall ps, prefix_diff (ps + Z.of_nat a) (ps + Z.of_nat b) ps (prefix_from 0 l) = zsum (firstn (b - a) (skipn a l)).
Proof.
  intros H ps. unfold prefix_diff.
  replace (ps + Z.of_nat b - ps - 1) with (Z.of_nat b - 1) by lia.
  replace (ps + Z.of_nat a - ps - 1) with (Z.of_nat a - 1) by lia.
  rewrite !prefix_value by lia.
  assert (E : firstn b l = firstn a l ++ firstn (b - a) (skipn a l)).
  { rewrite <- (firstn_skipn a l) at 1. rewrite firstn_app, firstn_firstn.
    replace (Nat.min b a) with a by lia. rewrite firstn_length. replace (Nat.min a (length l)) with a by lia. reflexivity. }
  rewrite E, zsum_app. lia.
Qed.

(* ---------- refutations: where the code departs from the definition ---------- *)
(* SUM over a non-empty frame of NULLs is 0, not NULL *)
Theorem win_sum_all_null_refuted :
  exists buf ps pe s e, 0 <= ps <= s /\ s < e <= pe /\ pe = Z.of_nat (length buf) /\
    win_agg FSum buf ps pe s e <> of_v (spec_sum (slice buf s e)).
Proof. exists [None; Some 5], 0, 2, 0, 1. repeat split; try lia. vm_compute. discriminate. Qed.

(* AVG over a frame without non-NULL values is NaN, not NULL *)
Theorem win_avg_no_value_refuted :
  exists buf ps pe s e, 0 <= ps <= s /\ s <= e <= pe /\ pe = Z.of_nat (length buf) /\
    spec_avg (slice buf s e) = None /\ win_agg FAvg buf ps pe s e = WNaN.
Proof. exists [None; Some 5], 0, 2, 0, 1. repeat split; try lia. Qed.

(* MIN with a frame that lies before the first row of the buffer panics (slice bounds out of range) *)
Theorem win_min_frame_before_buffer_refuted :
  exists buf ps pe idx sb eb, ps <= idx < pe /\
    win_agg FMin buf ps pe (fst (frame ps pe idx sb eb)) (snd (frame ps pe idx sb eb)) = WPanic.
Proof. exists [Some 1; Some 2], 0, 2, 0, (Prec 3), (Prec 2). split; [lia|reflexivity]. Qed.

(* ---------- window SUM / COUNT under the guard that excludes the defects ---------- *)
Lemma zsum_val0 xs : zsum (map val0 xs) = zsum (nonnull xs).
Proof.
  induction xs as [|[n|] t IH]; cbn [map nonnull flat_map app val0]; [reflexivity| |].
  - rewrite !zsum_cons. unfold nonnull in IH. rewrite IH. reflexivity.
  - rewrite zsum_cons. unfold nonnull in IH. rewrite IH. lia.
Qed.

Lemma zsum_ind xs : zsum (map (fun x : v => match x with None => 0 | Some _ => 1 end) xs) = Z.of_nat (length (nonnull xs)).
Proof.
  induction xs as [|[n|] t IH]; cbn [map nonnull flat_map app length]; [reflexivity| |].
  - rewrite zsum_cons. unfold nonnull in IH. rewrite IH. lia.
  - rewrite zsum_cons. unfold nonnull in IH. rewrite IH. lia.
Qed.

Lemma prefix_diff_map (f : v -> Z) (part : list v) (a b : nat) ps : (a <= b <= length part)%nat ->
  prefix_diff (ps + Z.of_nat a) (ps + Z.of_nat b) ps (prefix_from 0 (map f part))
  = zsum (map f (firstn (b - a) (skipn a part))).
Proof.
  intros H. rewrite prefix_diff_spec by (rewrite map_length; exact H).
  rewrite skipn_map, firstn_map. reflexivity.
Qed.

(* the frame [ps+a, ps+b) of the partition: when it holds a non-NULL value, window SUM is SUM of the frame *)
Theorem win_sum_guarded buf ps pe (a b : nat) :
  let part := slice buf ps pe in let fr := firstn (b - a) (skipn a part) in
  (a < b <= length part)%nat -> nonnull fr <> [] ->
  win_agg FSum buf ps pe (ps + Z.of_nat a) (ps + Z.of_nat b) = of_v (spec_sum fr).
Proof.
  cbn zeta. intros H Hnn. unfold win_agg, float_prefix. cbn [fst].
  destruct (Z.ltb_spec (ps + Z.of_nat b - (ps + Z.of_nat a)) 1) as [Hlt|_]; [lia|].
  rewrite prefix_diff_map by lia. rewrite zsum_val0. unfold spec_sum.
  destruct (nonnull (firstn (b - a) (skipn a (slice buf ps pe)))); [congruence|reflexivity].
Qed.

(* window COUNT(x) is always the number of non-NULL values of the frame (0 for an empty one) *)
Theorem win_count_spec buf ps pe (a b : nat) :
  let part := slice buf ps pe in let fr := firstn (b - a) (skipn a part) in
  (a <= b <= length part)%nat ->
  win_agg FCount buf ps pe (ps + Z.of_nat a) (ps + Z.of_nat b) = WInt (Z.of_nat (length (nonnull fr))).
Proof.
  cbn zeta. intros H. unfold win_agg, count_prefix. rewrite prefix_diff_map by lia. rewrite zsum_ind. reflexivity.
Qed.

(* ---------- ranks: bounded-exhaustive over all tie patterns ---------- *)
(* a nondecreasing key list is determined, up to renaming, by which neighbours tie *)
Fixpoint keys_of_pattern (k : Z) (bs : list bool) : list v :=
  match bs with [] => [Some k] | b :: t => Some k :: keys_of_pattern (if b then k else k + 1) t end.
Definition count_lt (keys : list v) (k : v) : Z :=
  Z.of_nat (length (filter (fun y => val0 y <? val0 k) keys)).
Fixpoint distinct (l : list Z) : list Z :=
  match l with [] => [] | x :: t => if existsb (Z.eqb x) t then distinct t else x :: distinct t end.
Definition distinct_lt (keys : list v) (k : v) : Z :=
  Z.of_nat (length (distinct (map val0 (filter (fun y => val0 y <? val0 k) keys)))).
Definition pairs_eqb (a b : list (Z * Z)) : bool :=
  (Nat.eqb (length a) (length b)) && forallb (fun p => (fst (fst p) =? fst (snd p)) && (snd (fst p) =? snd (snd p))) (combine a b).
(* RANK = 1 + number of rows with a smaller key, DENSE_RANK = 1 + number of distinct smaller keys *)
Definition ranks_ok (keys : list v) : bool :=
  let want := map (fun k => (1 + count_lt keys k, 1 + distinct_lt keys k)) keys in
  pairs_eqb (ranks 0 keys) want && pairs_eqb (ranks 3 keys) want.

Fixpoint all_lists (n : nat) : list (list bool) :=
  match n with O => [[]] | S m => map (cons true) (all_lists m) ++ map (cons false) (all_lists m) end.
Lemma all_lists_complete n : forall bs, length bs = n -> In bs (all_lists n).
Proof.
  induction n as [|n IH]; intros bs H.
  - destruct bs; [left; reflexivity|discriminate].
  - destruct bs as [|b t]; [discriminate|]. cbn [all_lists]. apply in_or_app.
    destruct b; [left|right]; apply in_map; apply IH; cbn in H; lia.
Qed.

Lemma ranks_bounded_check : forallb (fun n => forallb (fun bs => ranks_ok (keys_of_pattern 0 bs)) (all_lists n)) (seq 0 11) = true.
Proof. vm_compute. reflexivity. Qed.

Theorem ranks_bounded bs : (length bs <= 10)%nat -> ranks_ok (keys_of_pattern 0 bs) = true.
Proof.
  intros H. pose proof ranks_bounded_check as C. rewrite forallb_forall in C.
  specialize (C (length bs)). rewrite forallb_forall in C. apply C; [apply in_seq; lia|].
  apply all_lists_complete. reflexivity.
Qed.

(* ---------- NTILE: bounded-exhaustive against the closed form ---------- *)
(* the first (c mod b) buckets hold c/b + 1 rows, the others c/b rows; more buckets than rows: one row each *)
Definition ntile_spec (count : nat) (b : Z) (i : nat) : Z :=
  let c := Z.of_nat count in let i := Z.of_nat i in
  if b >? c then i + 1 else
  let size := c / b in let big := c mod b in
  if i <? big * (size + 1) then i / (size + 1) + 1 else big + (i - big * (size + 1)) / size + 1.
Definition ntile_ok (count b : nat) : bool :=
  let bz := Z.of_nat b in
  let got := ntile count bz in let want := map (ntile_spec count bz) (seq 0 count) in
  (Nat.eqb (length got) (length want)) && forallb (fun p => fst p =? snd p) (combine got want).

Lemma ntile_bounded_check : forallb (fun c => forallb (fun b => ntile_ok c b) (seq 1 45)) (seq 0 41) = true.
Proof. vm_compute. reflexivity. Qed.

Theorem ntile_bounded c b : (c <= 40)%nat -> (1 <= b <= 45)%nat -> ntile_ok c b = true.
Proof.
  intros Hc Hb. pose proof ntile_bounded_check as C. rewrite forallb_forall in C.
  specialize (C c). rewrite forallb_forall in C. apply C; apply in_seq; lia.
Qed.

(* ---------- LAG / LEAD ---------- *)
Theorem lead_lag_spec buf ps pe pos offset def :
  lead_lag buf ps pe pos offset def =
  if (ps <=? pos - offset) && (pos - offset <? pe) then znth buf (pos - offset) None else def.
Proof. unfold lead_lag. rewrite Z.geb_leb. reflexivity. Qed.

(* ---------- window MAX / MIN / FIRST_VALUE / LAST_VALUE / AVG over a frame inside the partition ---------- *)
Lemma skipn_add {A} (l : list A) : forall b a, skipn a (skipn b l) = skipn (b + a) l.
Proof.
  induction l as [|x t IH]; intros b a; [rewrite !skipn_nil; reflexivity|].
  destruct b as [|b]; [reflexivity|]. cbn [skipn Nat.add]. apply IH.
Qed.

Lemma slice_sub {A} (buf : list A) ps pe (a b : nat) : 0 <= ps ->
  (a <= b <= length (slice buf ps pe))%nat ->
  slice buf (ps + Z.of_nat a) (ps + Z.of_nat b) = firstn (b - a) (skipn a (slice buf ps pe)).
Proof.
  intros Hps H. unfold slice in *.
  replace (Z.to_nat (ps + Z.of_nat b - (ps + Z.of_nat a))) with (b - a)%nat by lia.
  replace (Z.to_nat (ps + Z.of_nat a)) with (Z.to_nat ps + a)%nat by lia.
  rewrite firstn_length in H.
  rewrite skipn_firstn_comm, firstn_firstn, skipn_add.
  replace (Nat.min (b - a) (Z.to_nat (pe - ps) - a)) with (b - a)%nat by lia. reflexivity.
Qed.

Definition frame_rows (buf : list v) ps pe (a b : nat) : list v := firstn (b - a) (skipn a (slice buf ps pe)).

Theorem win_max_spec buf ps pe (a b : nat) : 0 <= ps -> (a <= b <= length (slice buf ps pe))%nat ->
  win_agg FMax buf ps pe (ps + Z.of_nat a) (ps + Z.of_nat b) = of_v (spec_max (frame_rows buf ps pe a b)).
Proof.
  intros Hps H. unfold win_agg, frame_rows. rewrite Z.max_l by lia. rewrite (slice_sub buf ps pe) by assumption.
  rewrite max_buf_spec. reflexivity.
Qed.

Theorem win_min_spec buf ps pe (a b : nat) : 0 <= ps -> (a <= b <= length (slice buf ps pe))%nat ->
  win_agg FMin buf ps pe (ps + Z.of_nat a) (ps + Z.of_nat b) = of_v (spec_min (frame_rows buf ps pe a b)).
Proof.
  intros Hps H. unfold win_agg, frame_rows. destruct (Z.ltb_spec (ps + Z.of_nat a) 0); [lia|].
  rewrite (slice_sub buf ps pe) by assumption. rewrite min_buf_spec. reflexivity.
Qed.

Lemma nth_firstn' {A} (l : list A) d : forall n i, (i < n)%nat -> nth i (firstn n l) d = nth i l d.
Proof.
  induction l as [|x t IH]; intros n i H; [rewrite firstn_nil; reflexivity|].
  destruct n as [|n]; [lia|]. destruct i as [|i]; [reflexivity|]. cbn [firstn nth]. apply IH. lia.
Qed.
Lemma nth_skipn' {A} (l : list A) d : forall n i, nth i (skipn n l) d = nth (n + i) l d.
Proof.
  induction l as [|x t IH]; intros n i; [rewrite skipn_nil; destruct i, n; reflexivity|].
  destruct n as [|n]; [reflexivity|]. cbn [skipn Nat.add nth]. apply IH.
Qed.

Lemma last_nth' {A} (l : list A) d : last l d = nth (length l - 1) l d.
Proof.
  induction l as [|x t IH]; [reflexivity|]. destruct t as [|y t']; [reflexivity|].
  change (last (x :: y :: t') d) with (last (y :: t') d). rewrite IH. cbn [length]. 
  replace (S (S (length t')) - 1)%nat with (S (length t')) by lia.
  replace (S (length t') - 1)%nat with (length t') by lia. reflexivity.
Qed.

Lemma znth_slice {A} (buf : list A) ps pe (i : nat) d : 0 <= ps -> (i < length (slice buf ps pe))%nat ->
  znth buf (ps + Z.of_nat i) d = nth i (slice buf ps pe) d.
Proof.
  intros Hps Hi. unfold znth, slice in *. destruct (Z.ltb_spec (ps + Z.of_nat i) 0); [lia|].
  rewrite firstn_length in Hi. rewrite nth_firstn' by lia. rewrite nth_skipn'. f_equal. lia.
Qed.

(* FIRST_VALUE / LAST_VALUE: the value of the first / last row of the frame, NULL for an empty frame *)
Theorem win_first_last_spec buf ps pe (a b : nat) : 0 <= ps -> (a <= b <= length (slice buf ps pe))%nat ->
  win_agg FFirst buf ps pe (ps + Z.of_nat a) (ps + Z.of_nat b)
    = (if (a <? b)%nat then of_v (hd None (frame_rows buf ps pe a b)) else WNull) /\
  win_agg FLast buf ps pe (ps + Z.of_nat a) (ps + Z.of_nat b)
    = (if (a <? b)%nat then of_v (last (frame_rows buf ps pe a b) None) else WNull).
Proof.
  intros Hps H. unfold win_agg, frame_rows. set (part := slice buf ps pe) in *.
  destruct (Nat.ltb_spec a b) as [Hab|Hab];
    destruct (Z.ltb_spec (ps + Z.of_nat b - (ps + Z.of_nat a)) 1) as [Hz|Hz]; try lia; [|split; reflexivity].
  split.
  - rewrite (znth_slice buf ps pe a None) by (fold part; lia). fold part. f_equal.
    rewrite <- (firstn_skipn a part) at 1. rewrite app_nth2 by (rewrite firstn_length; lia).
    rewrite firstn_length. replace (a - Nat.min a (length part))%nat with O by lia.
    destruct (skipn a part) as [|x t] eqn:E.
    + exfalso. assert (length (skipn a part) = O) by (rewrite E; reflexivity). rewrite skipn_length in *. lia.
    + destruct (b - a)%nat eqn:Eb; [lia|]. reflexivity.
  - replace (ps + Z.of_nat b - 1) with (ps + Z.of_nat (b - 1)) by lia.
    rewrite (znth_slice buf ps pe (b - 1) None) by (fold part; lia). fold part. f_equal.
    set (fr := firstn (b - a) (skipn a part)).
    assert (Hl : length fr = (b - a)%nat) by (unfold fr; rewrite firstn_length, skipn_length; lia).
    assert (Hn : nth (b - 1) part None = nth (b - a - 1) fr None).
    { unfold fr. rewrite nth_firstn' by lia. rewrite nth_skipn'. f_equal. lia. }
    rewrite Hn, last_nth', Hl. reflexivity.
Qed.

Lemma zsum_nullind xs : zsum (map (fun x : v => match x with None => 1 | Some _ => 0 end) xs)
  = Z.of_nat (length xs) - Z.of_nat (length (nonnull xs)).
Proof.
  induction xs as [|[n|] t IH]; cbn [map nonnull flat_map app length]; [reflexivity| |];
    rewrite zsum_cons; unfold nonnull in IH; rewrite IH; lia.
Qed.

(* AVG: with at least one non-NULL value in the frame it is sum / count of the non-NULL values *)
Theorem win_avg_guarded buf ps pe (a b : nat) : (a <= b <= length (slice buf ps pe))%nat ->
  nonnull (frame_rows buf ps pe a b) <> [] ->
  win_agg FAvg buf ps pe (ps + Z.of_nat a) (ps + Z.of_nat b)
  = WQ (zsum (nonnull (frame_rows buf ps pe a b))) (Z.of_nat (length (nonnull (frame_rows buf ps pe a b)))).
Proof.
  intros H Hnn. unfold win_agg, float_prefix, frame_rows in *. cbn [fst snd]. set (part := slice buf ps pe) in *.
  set (fr := firstn (b - a) (skipn a part)) in *.
  set (ni := fun x : option Z => match x with Some _ => 0 | None => 1 end).
  replace (ps + Z.of_nat b - ps - 1) with (Z.of_nat b - 1) by lia.
  replace (ps + Z.of_nat a - ps - 1) with (Z.of_nat a - 1) by lia.
  assert (Hcnt : forall k, (k <= length part)%nat ->
            (if Z.of_nat k - 1 >=? 0 then Z.of_nat k - 1 + 1 - znth (prefix_from 0 (map ni part)) (Z.of_nat k - 1) 0 else 0)
            = Z.of_nat k - zsum (firstn k (map ni part))).
  { intros k Hk. pose proof (prefix_value (map ni part) k ltac:(rewrite map_length; exact Hk)) as P.
    destruct (Z.geb_spec (Z.of_nat k - 1) 0); [rewrite <- P; lia|].
    assert (k = O) by lia. subst. cbn. reflexivity. }
  rewrite (Hcnt b) by lia. rewrite (Hcnt a) by lia.
  assert (Esplit : firstn b (map ni part) = firstn a (map ni part) ++ map ni fr).
  { unfold fr. rewrite <- firstn_map, <- skipn_map. set (l := map ni part).
    assert (Hl : length l = length part) by (unfold l; apply map_length).
    rewrite <- (firstn_skipn a l) at 1. rewrite firstn_app, firstn_firstn.
    replace (Nat.min b a) with a by lia. rewrite firstn_length. replace (Nat.min a (length l)) with a by lia. reflexivity. }
  rewrite Esplit, zsum_app, zsum_nullind.
  assert (Hfl : length fr = (b - a)%nat) by (unfold fr; rewrite firstn_length, skipn_length; lia).
  rewrite Hfl.
  replace (Z.of_nat b - (zsum (firstn a (map ni part)) + (Z.of_nat (b - a) - Z.of_nat (length (nonnull fr)))) -
           (Z.of_nat a - zsum (firstn a (map ni part)))) with (Z.of_nat (length (nonnull fr))) by lia.
  destruct (nonnull fr) as [|x t] eqn:En; [congruence|]. rewrite <- En.
  destruct (Z.eqb_spec (Z.of_nat (length (nonnull fr))) 0) as [E0|_]; [rewrite En in E0; cbn in E0; lia|].
  f_equal. unfold prefix_diff.
  replace (ps + Z.of_nat b - ps - 1) with (Z.of_nat b - 1) by lia.
  replace (ps + Z.of_nat a - ps - 1) with (Z.of_nat a - 1) by lia.
  rewrite !prefix_value by (rewrite map_length; lia).
  assert (Es : firstn b (map val0 part) = firstn a (map val0 part) ++ map val0 fr).
  { unfold fr. rewrite <- firstn_map, <- skipn_map. set (l := map val0 part).
    assert (Hl : length l = length part) by (unfold l; apply map_length).
    rewrite <- (firstn_skipn a l) at 1. rewrite firstn_app, firstn_firstn.
    replace (Nat.min b a) with a by lia. rewrite firstn_length. replace (Nat.min a (length l)) with a by lia. reflexivity. }
  rewrite Es, zsum_app, zsum_val0. lia.
Qed.
