(* C08 — model of aggregate buffers and window functions over BIGINT inputs.

   Go code mirrored (sql/expression/function/aggregation):
   - unary_agg_buffers.go: sumBuffer (Update/PerformSum/Eval), countBuffer, avgBuffer, minBuffer, maxBuffer,
     bitAndBuffer, bitOrBuffer, bitXorBuffer.  The float64 accumulator of sumBuffer is modelled by exact integer
     arithmetic: faithful while every partial sum stays within +-2^53 (the generator keeps far below; inputs beyond
     that bound are run as predicate-only corpus cases).
   - window_framer.go: rowFramerBase.NewFramer/Next (ROWS frames).
   - window_functions.go: floatPrefixSum, computePrefixSum, countPrefixSum, SumAgg/AvgAgg/CountAgg/MinAgg/MaxAgg/
     FirstAgg/LastAgg.Compute, RowNumber, rankBase/Rank/DenseRank/PercentRank with PeerGroupFramer/nextPeerGroup,
     NTile.StartPartition/Compute, leadLagBase.Compute.
   Quirks kept as written: window SUM treats NULL as 0 and only an EMPTY frame gives NULL; window AVG divides by the
   non-NULL count even when it is 0 (NaN); MinAgg slices buf[Start:End] and panics for a negative Start. *)
From Coq Require Import List ZArith Bool Lia.
Import ListNotations.
Open Scope Z_scope.

Definition v := option Z.                        (* NULL or a BIGINT *)
Definition val0 (x : v) : Z := match x with Some n => n | None => 0 end.
Definition nonnull (xs : list v) : list Z := flat_map (fun x => match x with Some n => [n] | None => [] end) xs.
Definition zsum (l : list Z) : Z := fold_right Z.add 0 l.

(* ------------------------------------------------------------------ aggregation buffers *)
(* sumBuffer: isnil flag + accumulator *)
Definition sum_update (st : bool * Z) (x : v) : bool * Z :=
  match x with None => st | Some n => (false, snd st + n) end.
Definition sum_eval (st : bool * Z) : v := if fst st then None else Some (snd st).
Definition sum_buf (xs : list v) : v := sum_eval (fold_left sum_update xs (true, 0)).

Definition count_buf (xs : list v) : Z := fold_left (fun c x => match x with None => c | Some _ => c + 1 end) xs 0.
Definition count_star (xs : list v) : Z := fold_left (fun c (_ : v) => c + 1) xs 0.

(* avgBuffer: a sumBuffer and a row count; Eval returns sum / rows as (numerator, denominator) *)
Definition avg_update (st : (bool * Z) * Z) (x : v) : (bool * Z) * Z :=
  match x with None => st | Some n => (sum_update (fst st) (Some n), snd st + 1) end.
Definition avg_buf (xs : list v) : option (Z * Z) :=
  let st := fold_left avg_update xs ((true, 0), 0) in
  match sum_eval (fst st) with
  | None => None
  | Some s => if (s =? 0) && (snd st =? 0) then None else if snd st =? 0 then Some (0, 1) else Some (s, snd st)
  end.

(* maxBuffer / minBuffer: replace only when Compare returns exactly 1 / -1 *)
Definition max_update (m x : v) : v :=
  match x with None => m | Some n => match m with None => Some n | Some c => if n >? c then Some n else m end end.
Definition min_update (m x : v) : v :=
  match x with None => m | Some n => match m with None => Some n | Some c => if n <? c then Some n else m end end.
Definition max_buf (xs : list v) : v := fold_left max_update xs None.
Definition min_buf (xs : list v) : v := fold_left min_update xs None.

(* BIT_AND/OR/XOR: Uint64.Convert of an int64 keeps the two's complement bits *)
Definition u64 (n : Z) : Z := n mod 2 ^ 64.
Definition bit_update (op : Z -> Z -> Z) (r : Z) (x : v) : Z := match x with None => r | Some n => op r (u64 n) end.
Definition bit_and_buf (xs : list v) : Z := fold_left (bit_update Z.land) xs (2 ^ 64 - 1).
Definition bit_or_buf (xs : list v) : Z := fold_left (bit_update Z.lor) xs 0.
Definition bit_xor_buf (xs : list v) : Z := fold_left (bit_update Z.lxor) xs 0.

(* ------------------------------------------------------------------ ROWS frames *)
Inductive bound := UnbP | Prec (n : Z) | Cur | Foll (n : Z) | UnbF.
Definition off (b : bound) : Z := match b with Prec n => - n | Foll n => n | _ => 0 end.
Definition is_unbp (b : bound) : bool := match b with UnbP => true | _ => false end.
Definition is_unbf (b : bound) : bool := match b with UnbF => true | _ => false end.

(* rowFramerBase.Next for the row at absolute position idx of the partition [ps, pe) *)
Definition frame (ps pe idx : Z) (sb eb : bound) : Z * Z :=
  let ns := idx + off sb in
  let ns := if is_unbp sb || (ns <? ps) then ps else ns in
  let ne := idx + off eb + 1 in
  let ne := if is_unbf eb || (ne >? pe) then pe else ne in
  let ns := if ns >? ne then ne else ns in
  (ns, ne).

(* buf[s:e] for 0 <= s <= e (callers guard the rest) *)
Definition slice {A} (buf : list A) (s e : Z) : list A := firstn (Z.to_nat (e - s)) (skipn (Z.to_nat s) buf).
Definition znth {A} (l : list A) (i : Z) (d : A) : A := if i <? 0 then d else nth (Z.to_nat i) l d.

(* floatPrefixSum: running sums (NULL counts as 0) and running NULL counts over the partition *)
Fixpoint prefix_from (acc : Z) (l : list Z) : list Z :=
  match l with [] => [] | x :: t => (acc + x) :: prefix_from (acc + x) t end.
Definition float_prefix (part : list v) : list Z * list Z :=
  (prefix_from 0 (map val0 part), prefix_from 0 (map (fun x => match x with None => 1 | Some _ => 0 end) part)).
Definition count_prefix (part : list v) : list Z :=
  prefix_from 0 (map (fun x => match x with None => 0 | Some _ => 1 end) part).

(* computePrefixSum *)
Definition prefix_diff (s e ps : Z) (prefix : list Z) : Z :=
  let si := s - ps - 1 in let ei := e - ps - 1 in
  (if ei >=? 0 then znth prefix ei 0 else 0) - (if si >=? 0 then znth prefix si 0 else 0).

Inductive wval := WNull | WInt (z : Z) | WQ (num den : Z) | WNaN | WPanic.
Definition of_v (x : v) : wval := match x with None => WNull | Some n => WInt n end.

Inductive wfn :=
| FSum | FAvg | FCount | FCountStar | FMin | FMax | FFirst | FLast          (* over a ROWS frame *)
| FRowNumber | FRank | FDenseRank | FPercentRank | FNtile (buckets : Z) | FLag (offset : Z) (def : v) | FLead (offset : Z) (def : v).

(* aggregates over the frame [s, e) of the partition [ps, pe) of buf *)
Definition win_agg (f : wfn) (buf : list v) (ps pe s e : Z) : wval :=
  let part := slice buf ps pe in
  match f with
  | FSum => if e - s <? 1 then WNull else WInt (prefix_diff s e ps (fst (float_prefix part)))
  | FAvg =>
    let si := s - ps - 1 in let ei := e - ps - 1 in
    let nulls := snd (float_prefix part) in
    let cnt := (if ei >=? 0 then ei + 1 - znth nulls ei 0 else 0) - (if si >=? 0 then si + 1 - znth nulls si 0 else 0) in
    if cnt =? 0 then WNaN else WQ (prefix_diff s e ps (fst (float_prefix part))) cnt
  | FCount => WInt (prefix_diff s e ps (count_prefix part))
  | FCountStar => WInt (prefix_diff s e ps (prefix_from 0 (map (fun _ => 1) part)))
  | FMax => of_v (max_buf (slice buf (Z.max s 0) e))      (* for i := Start; i < End; i++ *)
  | FMin => if s <? 0 then WPanic else of_v (min_buf (slice buf s e))   (* buf[Start:End] *)
  | FFirst => if e - s <? 1 then WNull else of_v (znth buf s None)
  | FLast => if e - s <? 1 then WNull else of_v (znth buf (e - 1) None)
  | _ => WNull
  end.

(* ------------------------------------------------------------------ peer groups and ranks *)
Definition key_eqb (a b : v) : bool :=
  match a, b with None, None => true | Some x, Some y => x =? y | _, _ => false end.

(* nextPeerGroup: scan forward from pos while the order-by value equals that of pos *)
Fixpoint peer_len (k : v) (rest : list v) : nat :=
  match rest with [] => O | y :: t => if key_eqb k y then S (peer_len k t) else O end.

(* rank / dense_rank / percent_rank for one partition (keys in window order, ps = absolute start).
   [todo] = rows left in the current peer group, [fs] = its frameStart, [pos] = rankBase.pos *)
Fixpoint rank_rows (n ps : Z) (fs : Z) (todo : nat) (idx : Z) (prev_rank dense : Z) (keys : list v)
  : list (Z * Z) :=
  match keys with
  | [] => []
  | k :: t =>
    let '(fs', todo') := match todo with O => (idx, peer_len k t) | S m => (fs, m) end in
    let rank := if idx =? 0 then 1 else if n =? 1 then 1 else fs' - ps + 1 in
    let '(prev', dense') := if rank =? 1 then (1, 1) else if negb (rank =? prev_rank) then (rank, dense + 1) else (prev_rank, dense) in
    (rank, dense') :: rank_rows n ps fs' todo' (idx + 1) prev' dense' t
  end.
Definition ranks (ps : Z) (keys : list v) : list (Z * Z) :=
  rank_rows (Z.of_nat (length keys)) ps (-1) O ps 0 0 keys.

(* NTile.StartPartition / Compute *)
Fixpoint ntile_rows (rows : nat) (pos bsize big bucket : Z) : list Z :=
  match rows with
  | O => []
  | S r =>
    if pos =? 0 then bucket :: ntile_rows r (pos + 1) bsize big bucket
    else if (big >? 0) && (pos mod (bsize + 1) =? 0) then
      let big' := big - 1 in
      let pos' := if big' =? 0 then 0 else pos in
      (bucket + 1) :: ntile_rows r (pos' + 1) bsize big' (bucket + 1)
    else if (big =? 0) && (pos mod bsize =? 0) then (bucket + 1) :: ntile_rows r (pos + 1) bsize big (bucket + 1)
    else bucket :: ntile_rows r (pos + 1) bsize big bucket
  end.
Definition ntile (count : nat) (buckets : Z) : list Z :=
  let c := Z.of_nat count in
  let '(bsize, big) := if buckets >? c then (1, 0) else (c / buckets, c mod buckets) in
  ntile_rows count 0 bsize big 1.

(* leadLagBase.Compute: idx = pos - offset (LEAD passes -offset); partition interval [ps, pe) *)
Definition lead_lag (buf : list v) (ps pe pos offset : Z) (def : v) : v :=
  let idx := pos - offset in
  if (idx >=? ps) && (idx <? pe) then znth buf idx None else def.

(* all outputs of one function over one partition, in window order *)
Definition win_part (f : wfn) (buf keys : list v) (ps pe : Z) (sb eb : bound) : list wval :=
  let n := Z.to_nat (pe - ps) in
  let idxs := map (fun i => ps + Z.of_nat i) (seq 0 n) in
  let pkeys := slice keys ps pe in
  match f with
  | FRowNumber => map (fun i => WInt (i - ps + 1)) idxs
  | FRank => map (fun r => WInt (fst r)) (ranks ps pkeys)
  | FDenseRank => map (fun r => WInt (snd r)) (ranks ps pkeys)
  | FPercentRank => map (fun r => if pe - ps =? 1 then WQ 0 1 else WQ (fst r - 1) (pe - ps - 1)) (ranks ps pkeys)
  | FNtile b => map WInt (ntile n b)
  | FLag o d => map (fun i => of_v (lead_lag buf ps pe i o d)) idxs
  | FLead o d => map (fun i => of_v (lead_lag buf ps pe i (- o) d)) idxs
  | _ => map (fun i => let '(s, e) := frame ps pe i sb eb in win_agg f buf ps pe s e) idxs
  end.

(* ------------------------------------------------------------------ the definitions (SQL meaning) *)
Definition spec_sum (xs : list v) : v := match nonnull xs with [] => None | l => Some (zsum l) end.
Definition spec_avg (xs : list v) : option (Z * Z) :=
  match nonnull xs with [] => None | l => Some (zsum l, Z.of_nat (length l)) end.
Definition spec_max (xs : list v) : v := match nonnull xs with [] => None | a :: l => Some (fold_left Z.max l a) end.
Definition spec_min (xs : list v) : v := match nonnull xs with [] => None | a :: l => Some (fold_left Z.min l a) end.

(* ------------------------------------------------------------------ RANGE frames (window_framer.go rangeFramerBase) *)
(* findInclusionBoundary(pos, searchStart, partitionEnd, inclusion, expr, stopCond): the first index i >= searchStart
   of the partition whose order key compares >= (stopCond greaterThanOrEqual) resp. > (greaterThan) the inclusion
   value computed at the current row; partitionEnd when there is none.  Indexes are relative to the partition. *)
Fixpoint first_sat (p : Z -> bool) (l : list Z) : nat :=
  match l with [] => O | k :: t => if p k then O else S (first_sat p t) end.
Definition find_boundary (p : Z -> bool) (keys : list Z) (search_start : nat) : nat :=
  (search_start + first_sat p (skipn search_start keys))%nat.

(* rangeFramerBase.Next for the rows idx, idx+1, ... of one partition with integer order keys [keys] (as buffered);
   [fs], [fe] are frameStart / frameEnd carried from the previous row (both start at the partition start).
   startInclusion = key - n (n PRECEDING), key + n (n FOLLOWING), key (CURRENT ROW); the sort direction of the order
   key is never consulted (for a DESC key the same arithmetic is used: the defect recorded in findings/C08.json). *)
Fixpoint range_rows (sb eb : bound) (keys : list Z) (fs fe idx todo : nat) : list (nat * nat) :=
  match todo with
  | O => []
  | S t =>
    let k := nth idx keys 0 in
    let ns := if is_unbp sb then O else find_boundary (fun x => x >=? k + off sb) keys fs in
    let ne0 := Nat.max fe ns in                                   (* if newStart > newEnd { newEnd = newStart } *)
    let ne := if is_unbf eb then length keys else find_boundary (fun x => x >? k + off eb) keys ne0 in
    (ns, ne) :: range_rows sb eb keys ns ne (S idx) t
  end.
Definition range_frames (sb eb : bound) (keys : list Z) : list (nat * nat) :=
  range_rows sb eb keys O O O (length keys).

(* window aggregates of one partition [ps, pe) over RANGE frames; [pkeys] are the partition's order keys *)
Definition range_part (f : wfn) (buf : list v) (pkeys : list Z) (ps pe : Z) (sb eb : bound) : list wval :=
  map (fun se => win_agg f buf ps pe (ps + Z.of_nat (fst se)) (ps + Z.of_nat (snd se))) (range_frames sb eb pkeys).
