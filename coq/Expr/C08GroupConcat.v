(* C08 — GROUP_CONCAT (group_concat.go groupConcatBuffer.Update / Eval) over one text expression:
   NULL values are skipped, and so are EMPTY strings (as written: `if vs == "" { return nil }`); with DISTINCT a value
   already seen is skipped; Eval sorts the kept rows stably by the ORDER BY key (sort.Stable(RowSorter)), joins them
   with the separator, stops as soon as the text reaches group_concat_max_len and cuts it to that length; no row
   kept => NULL. *)
From Coq Require Import List NArith ZArith Bool Lia Arith.
Import ListNotations.
From GMS Require Import Base.CorrLib Phys.C04Sort.

Definition str := list N.
Definition gc_row : Type := (Z * option str)%type.           (* ORDER BY key (an integer), value *)

Definition seen (s : str) (l : list str) : bool := existsb (bytes_eqb s) l.

(* Update: state = (distinctSet, rows) *)
Definition gc_update (distinct : bool) (st : list str * list (Z * str)) (r : gc_row) : list str * list (Z * str) :=
  match snd r with
  | None => st
  | Some [] => st
  | Some vs =>
    if distinct && seen vs (fst st) then st
    else ((if distinct then vs :: fst st else fst st), snd st ++ [(fst r, vs)])
  end.

Definition gc_cmp (desc : bool) (a b : Z * str) : comparison :=
  if desc then Z.compare (fst b) (fst a) else Z.compare (fst a) (fst b).

(* the join loop of Eval with its early exit *)
Fixpoint gc_build (sep : str) (maxlen : nat) (first : bool) (acc : str) (vals : list str) : str :=
  match vals with
  | [] => acc
  | x :: t =>
    let acc' := if first then acc ++ x else acc ++ sep ++ x in
    if (maxlen <=? length acc')%nat then acc' else gc_build sep maxlen false acc' t
  end.

Definition gc_eval (order : option bool) (sep : str) (maxlen : nat) (rows : list (Z * str)) : option str :=
  match rows with
  | [] => None
  | _ =>
    let sorted := match order with None => rows | Some desc => ssort (gc_cmp desc) rows end in
    Some (firstn maxlen (gc_build sep maxlen true [] (map snd sorted)))
  end.

Definition group_concat (distinct : bool) (order : option bool) (sep : str) (maxlen : nat) (rs : list gc_row) : option str :=
  gc_eval order sep maxlen (snd (fold_left (gc_update distinct) rs ([], []))).

(* ---------------- the definition ---------------- *)
(* values that take part: non-NULL, non-empty [the code's reading]; first occurrences only under DISTINCT *)
Fixpoint kept (distinct : bool) (sn : list str) (rs : list gc_row) : list (Z * str) :=
  match rs with
  | [] => []
  | (k, None) :: t => kept distinct sn t
  | (k, Some []) :: t => kept distinct sn t
  | (k, Some vs) :: t =>
    if distinct && seen vs sn then kept distinct sn t
    else (k, vs) :: kept distinct (if distinct then vs :: sn else sn) t
  end.
Fixpoint intercalate (sep : str) (vals : list str) : str :=
  match vals with [] => [] | [x] => x | x :: t => x ++ sep ++ intercalate sep t end.
Definition gc_spec (distinct : bool) (order : option bool) (sep : str) (maxlen : nat) (rs : list gc_row) : option str :=
  match kept distinct [] rs with
  | [] => None
  | rows =>
    let sorted := match order with None => rows | Some desc => ssort (gc_cmp desc) rows end in
    Some (firstn maxlen (intercalate sep (map snd sorted)))
  end.

(* ---------------- proofs ---------------- *)
Lemma fold_kept distinct : forall rs sn acc,
  fold_left (gc_update distinct) rs (sn, acc) = (fst (fold_left (gc_update distinct) rs (sn, acc)), acc ++ kept distinct sn rs).
Proof.
  induction rs as [|[k [vs|]] t IH]; intros sn acc; cbn [fold_left kept].
  - rewrite app_nil_r. reflexivity.
  - unfold gc_update at 2 4. cbn [snd fst]. destruct vs as [|c vs']; [apply IH|].
    destruct (distinct && seen (c :: vs') sn) eqn:E; [apply IH|].
    rewrite IH at 1. cbn [snd]. rewrite <- app_assoc. reflexivity.
  - unfold gc_update at 2 4. cbn [snd]. apply IH.
Qed.

Lemma firstn_prefix {A} n (a b : list A) : (n <= length a)%nat -> firstn n a = firstn n (a ++ b).
Proof. intros H. rewrite firstn_app. replace (n - length a)%nat with O by lia. cbn. rewrite app_nil_r. reflexivity. Qed.

Lemma gc_build_spec sep maxlen : forall vals acc,
  firstn maxlen (gc_build sep maxlen false acc vals)
  = firstn maxlen (acc ++ flat_map (fun x => sep ++ x) vals).
Proof.
  induction vals as [|x t IH]; intros acc; cbn [gc_build flat_map]; [rewrite app_nil_r; reflexivity|].
  destruct (Nat.leb_spec maxlen (length (acc ++ sep ++ x))) as [H|H].
  - rewrite (firstn_prefix maxlen (acc ++ sep ++ x) (flat_map (fun y => sep ++ y) t)) by exact H.
    rewrite <- !app_assoc. reflexivity.
  - rewrite IH. rewrite <- !app_assoc. reflexivity.
Qed.

Lemma intercalate_cons sep x t : intercalate sep (x :: t) = x ++ flat_map (fun y => sep ++ y) t.
Proof.
  revert x. induction t as [|y t IH]; intros x; [cbn; rewrite app_nil_r; reflexivity|].
  change (intercalate sep (x :: y :: t)) with (x ++ sep ++ intercalate sep (y :: t)).
  rewrite IH. cbn [flat_map]. rewrite <- !app_assoc. reflexivity.
Qed.

Lemma gc_build_first sep maxlen vals :
  firstn maxlen (gc_build sep maxlen true [] vals) = firstn maxlen (intercalate sep vals).
Proof.
  destruct vals as [|x t]; [reflexivity|]. cbn [gc_build app]. rewrite intercalate_cons.
  destruct (Nat.leb_spec maxlen (length x)) as [H|H].
  - apply firstn_prefix. exact H.
  - apply gc_build_spec.
Qed.

Theorem group_concat_spec distinct order sep maxlen rs :
  group_concat distinct order sep maxlen rs = gc_spec distinct order sep maxlen rs.
Proof.
  unfold group_concat, gc_spec, gc_eval. rewrite fold_kept. cbn [snd app].
  destruct (kept distinct [] rs) as [|r0 rows]; [reflexivity|]. f_equal. apply gc_build_first.
Qed.

(* the definition of GROUP_CONCAT keeps empty strings: 'a', '', 'b' concatenates to 'a,,b'; the code gives 'a,b' *)
Theorem group_concat_empty_string_refuted :
  exists rs, group_concat false None [44%N] 1024 rs = Some [97; 44; 98]%N /\
             rs = [(1%Z, Some [97%N]); (2%Z, Some []); (3%Z, Some [98%N])].
Proof. eexists. split; [|reflexivity]. vm_compute. reflexivity. Qed.
