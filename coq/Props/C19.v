(* C19 - CHECK, NOT NULL, defaults and generated columns hold for stored rows.
   Only statements, each closed by [exact], each followed by Print Assumptions.
   The pipeline model (Store/C19Check.v) follows insertIter.Next / updateIter.Next in their real order:
   row source (defaults, generated values from the values AS WRITTEN) -> nullability -> checks -> conversion. *)
From Coq Require Import List ZArith Bool.
Import ListNotations.
From GMS Require Import Store.C19Check Store.C19CheckProofs.
Open Scope Z_scope.

(* For every schema (generated columns reading base columns and EARLIER generated columns) and every set of checks (also over
   generated columns), after ANY history of INSERT / UPDATE / INSERT .. ON DUPLICATE KEY UPDATE statements without IGNORE whose values already have the column type (integers, NULL, DEFAULT, decimal
   literals - everything but strings), every stored row has the schema's length, makes no CHECK false, holds no NULL
   in a NOT NULL column, and every generated column equals its expression over the row. *)
Theorem C19_stored_rows_ok_typed_histories :
  forall sch chks, wf_schema sch -> forall h t,
    Forall (typed_stmt sch) h -> Forall (row_ok sch chks) t -> Forall (row_ok sch chks) (run sch chks t h).
Proof. exact stored_rows_ok_typed_histories. Qed.
Print Assumptions C19_stored_rows_ok_typed_histories.

Theorem C19_insert_typed_row_ok :
  forall sch chks rs r, wf_schema sch -> length rs = length sch -> Forall typed_raw rs ->
    insert_row false sch chks rs = Stored r -> row_ok sch chks r.
Proof. exact insert_typed_row_ok. Qed.
Print Assumptions C19_insert_typed_row_ok.

Theorem C19_update_typed_row_ok :
  forall sch chks sets old r, wf_schema sch -> Forall (fun p => typed_rhs (snd p)) sets ->
    row_ok sch chks old -> update_row false sch chks sets old = Stored r -> row_ok sch chks r.
Proof. exact update_typed_row_ok. Qed.
Print Assumptions C19_update_typed_row_ok.

(* the ON DUPLICATE KEY UPDATE branch of INSERT (insertIter.handleOnDuplicateKeyUpdate) *)
Theorem C19_on_duplicate_key_update_typed_row_ok :
  forall sch chks sets old r, wf_schema sch -> Forall (fun p => typed_rhs (snd p)) sets ->
    row_ok sch chks old -> odku_row sch chks sets old = Stored r -> row_ok sch chks r.
Proof. exact odku_typed_row_ok. Qed.
Print Assumptions C19_on_duplicate_key_update_typed_row_ok.

(* NOT NULL needs no guard: after ANY history (strings, IGNORE, anything) no NOT NULL column holds NULL *)
Theorem C19_not_null_respected :
  forall sch chks h t,
    Forall (stmt_lengths_ok sch) h -> Forall (shape_ok sch) t -> Forall (shape_ok sch) (run sch chks t h).
Proof. exact not_null_respected. Qed.
Print Assumptions C19_not_null_respected.

(* omitted / DEFAULT columns get their declared default (any other values in the row, IGNORE or not); without a
   declared default they get NULL, or 0 for a NOT NULL column under IGNORE *)
Theorem C19_defaults_applied :
  forall ign sch chks rs r i c,
    length rs = length sch -> insert_row ign sch chks rs = Stored r ->
    nth_error sch i = Some c -> gen c = None -> nth_error rs i = Some RDef ->
    match dflt c with
    | Some d => nth i r None = Some d
    | None => nth i r None = if ign && notnull c then Some 0 else None
    end.
Proof. exact defaults_applied. Qed.
Print Assumptions C19_defaults_applied.

(* False of the faithful model without the "already of the column's type" guard: the checks run before the
   conversion.  CREATE TABLE t (c0 INT PRIMARY KEY, c1 INT, CHECK (c1 < 10)); INSERT INTO t VALUES (1, '9.6') stores 10. *)
Theorem C19_check_before_convert_refuted :
  exists sch chks h r c, run sch chks [] h = [r] /\ In c chks /\ eval_check (cells r) c = Some false.
Proof.
  exists w_sch1, w_chk1, [Insert false [[RInt 1; RStrF 96]]], [Some 1; Some 10], (mkCheck Lt (TCol 1) (TLit 10)).
  destruct check_before_convert_witness as [H1 H2]. split; [exact H1|split; [left; reflexivity|exact H2]].
Qed.
Print Assumptions C19_check_before_convert_refuted.

(* stored generated column computed from the unconverted value: c2 AS (c1 * 2), '9.6' stores c1 = 10, c2 = 18 *)
Theorem C19_generated_before_convert_refuted :
  exists sch h r i c e, run sch [] [] h = [r] /\ nth_error sch i = Some c /\ gen c = Some e /\
    nth i r None <> eval_term (cells r) e.
Proof.
  exists w_sch2, [Insert false [[RInt 1; RStrF 96; RDef]]], [Some 1; Some 10; Some 18], 2%nat,
         (mkCol false None (Some (TMul (TCol 1) (TLit 2)))), (TMul (TCol 1) (TLit 2)).
  destruct generated_before_convert_witness as [H1 H2].
  split; [exact H1|split; [reflexivity|split; [reflexivity|]]]. rewrite H2. cbn. discriminate.
Qed.
Print Assumptions C19_generated_before_convert_refuted.

(* UPDATE IGNORE turns NULL into 0 after the checks and after the generated columns were computed *)
Theorem C19_update_ignore_null_refuted :
  exists sch chks h r c, run sch chks [] h = [r] /\ In c chks /\ eval_check (cells r) c = Some false /\
    nth 2 r None <> eval_term (cells r) (TAdd (TCol 1) (TLit 1)).
Proof.
  exists w_sch3, w_chk3, [Insert false [[RInt 1; RInt 7; RDef]]; Update true [(1%nat, URaw RNull)] (Some 1)],
         [Some 1; Some 0; None], (mkCheck Gt (TCol 1) (TLit 5)).
  destruct update_ignore_null_witness as (H1 & H2 & H3).
  split; [exact H1|split; [left; reflexivity|split; [exact H2|]]]. rewrite H3. cbn. discriminate.
Qed.
Print Assumptions C19_update_ignore_null_refuted.

(* INSERT IGNORE turns NULL into 0 after the generated column was computed from NULL *)
Theorem C19_insert_ignore_null_generated_refuted :
  exists sch h r, run sch [] [] h = [r] /\ nth 3 r None <> eval_term (cells r) (TAdd (TCol 1) (TCol 2)).
Proof.
  exists w_sch4, [Insert true [[RInt 1; RNull; RDef; RDef]]], [Some 1; Some 0; Some 4; None].
  destruct insert_ignore_null_witness as [H1 H2]. split; [exact H1|]. rewrite H2. cbn. discriminate.
Qed.
Print Assumptions C19_insert_ignore_null_generated_refuted.

Example C19_nonvacuous :
  wf_schema w_sch4 /\
  Forall (typed_stmt w_sch4) [Insert false [[RInt 1; RInt 7; RDef; RDef]; [RInt 2; RDec 26; RNull; RDef]];
                              Update false [(1%nat, UTerm (TAdd (TCol 2) (TLit 10)))] (Some 1)] /\
  run w_sch4 [mkCheck Lt (TCol 2) (TCol 1)] []
      [Insert false [[RInt 1; RInt 7; RDef; RDef]; [RInt 2; RDec 26; RNull; RDef]];
       Update false [(1%nat, UTerm (TAdd (TCol 2) (TLit 10)))] (Some 1)]
    = [[Some 1; Some 14; Some 4; Some 18]; [Some 2; Some 3; None; None]].
Proof. exact nonvacuous_example. Qed.
Print Assumptions C19_nonvacuous.
