(* C19 - CHECK, NOT NULL, defaults and generated columns hold for stored rows.
   Only statements, each closed by [exact], each followed by Print Assumptions.
   The pipeline model (Store/C19Check.v) follows insertIter.Next / updateIter.Next / handleOnDuplicateKeyUpdate in their
   real order: row source (ProjectRow: values AS WRITTEN and literal defaults, then expression defaults and generated
   columns left to right) -> nullability -> checks -> conversion to the integer column type (range error / clamping). *)
From Coq Require Import String List ZArith Bool.
Import ListNotations.
From GMS Require Import Store.C19Check Store.C19CheckProofs Store.C19Scalar.
Open Scope Z_scope.

(* For every schema over the integer types (generated columns and expression defaults reading earlier columns and plain
   columns; STORED or VIRTUAL) and every set of checks, after ANY history of INSERT / UPDATE / INSERT .. ON DUPLICATE KEY
   UPDATE (any number of rows, VALUES()) / REPLACE without IGNORE whose inserted values hold no strings (integers of any
   size, NULL, DEFAULT, decimal literals; DEFAULT in the generated columns), every stored row has the schema's length,
   makes no ENFORCED CHECK false, holds no NULL in a NOT NULL column, and every generated column, stored or virtual,
   equals its expression over the row.  The enforced checks are eff_checks: all of them, unless the table has a VIRTUAL
   column (see C19_virtual_column_disables_checks_refuted). UPDATE / ON DUPLICATE KEY UPDATE right sides are arbitrary. *)
Theorem C19_stored_rows_ok_typed_histories :
  forall sch chks, wf_schema sch -> forall h t,
    Forall (typed_stmt sch) h -> Forall (row_ok sch (eff_checks sch chks)) t ->
    Forall (row_ok sch (eff_checks sch chks)) (run sch chks t h).
Proof. exact stored_rows_ok_typed_histories. Qed.
Print Assumptions C19_stored_rows_ok_typed_histories.

Theorem C19_enforced_checks_without_virtual_column :
  forall sch chks, existsb virt sch = false -> eff_checks sch chks = chks.
Proof. exact eff_checks_no_virtual. Qed.
Print Assumptions C19_enforced_checks_without_virtual_column.

Theorem C19_insert_typed_row_ok :
  forall sch chks rs r, wf_schema sch -> typed_row sch rs ->
    insert_row false sch chks rs = Stored r -> row_ok sch chks r.
Proof. exact insert_typed_row_ok. Qed.
Print Assumptions C19_insert_typed_row_ok.

(* UPDATE: any SET list (strings, out-of-range values, expressions): SetField converts before the checks *)
Theorem C19_update_typed_row_ok :
  forall sch chks sets old r, wf_schema sch ->
    row_ok sch chks old -> update_row false sch chks sets old = Stored r -> row_ok sch chks r.
Proof. exact update_typed_row_ok. Qed.
Print Assumptions C19_update_typed_row_ok.

(* the ON DUPLICATE KEY UPDATE branch of INSERT (insertIter.handleOnDuplicateKeyUpdate), SET terms may read VALUES() *)
Theorem C19_on_duplicate_key_update_typed_row_ok :
  forall sch chks sets old new r, wf_schema sch ->
    row_ok sch chks old -> odku_row false sch chks sets old new = Stored r -> row_ok sch chks r.
Proof. exact odku_typed_row_ok. Qed.
Print Assumptions C19_on_duplicate_key_update_typed_row_ok.

(* NOT NULL needs no guard: after ANY history (strings, out-of-range values, IGNORE, REPLACE, anything) no NOT NULL
   column holds NULL; virtual columns are nullable *)
Theorem C19_not_null_respected :
  forall sch chks, wf_virtual sch -> forall h t,
    Forall (stmt_lengths_ok sch) h -> Forall (shape_ok sch) t -> Forall (shape_ok sch) (run sch chks t h).
Proof. exact not_null_respected. Qed.
Print Assumptions C19_not_null_respected.

(* omitted / DEFAULT columns get their declared literal default when it fits the column type (any other values in the
   row, IGNORE or not); without a declared default they get NULL, or 0 for a NOT NULL column under IGNORE *)
Theorem C19_defaults_applied :
  forall ign sch chks rs r i c,
    length rs = length sch -> insert_row ign sch chks rs = Stored r ->
    nth_error sch i = Some c -> gen c = None -> nth_error rs i = Some RDef ->
    match dflt c with
    | DLit d => in_range (cty c) d = true -> nth i r None = Some d
    | DNone => in_range (cty c) 0 = true -> nth i r None = if ign && notnull c then Some 0 else None
    | DExpr _ => True
    end.
Proof. exact defaults_applied. Qed.
Print Assumptions C19_defaults_applied.

(* an omitted / DEFAULT column with DEFAULT (e) holds e evaluated over the STORED row (typed rows, no IGNORE) *)
Theorem C19_expression_defaults_applied :
  forall sch chks rs r i c e,
    wf_schema sch -> typed_row sch rs -> insert_row false sch chks rs = Stored r ->
    nth_error sch i = Some c -> gen c = None -> dflt c = DExpr e -> nth_error rs i = Some RDef ->
    nth i r None = eval_term (cells r) e.
Proof. exact expression_defaults_applied. Qed.
Print Assumptions C19_expression_defaults_applied.

(* virtual columns as read back: nothing changes on a row whose generated columns equal their expressions *)
Theorem C19_virtual_read_back :
  forall sch r, length r = length sch -> row_generated_ok sch r -> refresh_virtual sch r = r.
Proof. exact refresh_virtual_id. Qed.
Print Assumptions C19_virtual_read_back.

(* DECIMAL(p,1) and VARCHAR(n): UPDATE converts before the checks, so whatever it stores is fine, IGNORE or not;
   INSERT is fine for values that need no conversion *)
Theorem C19_decimal_update_ok : forall p chks ign old h, dres_ok chks (dexec p chks (DUpd ign old h)).
Proof. exact decimal_update_ok. Qed.
Print Assumptions C19_decimal_update_ok.
Theorem C19_varchar_update_ok : forall n chks ign old s, sres_ok chks (sexec n chks (SUpd ign old s)).
Proof. exact varchar_update_ok. Qed.
Print Assumptions C19_varchar_update_ok.
Theorem C19_decimal_insert_exact_ok :
  forall p chks ign v, d_in_range p v = true -> dres_ok chks (dexec p chks (DIns ign (v * 10))).
Proof. exact decimal_insert_exact_ok. Qed.
Print Assumptions C19_decimal_insert_exact_ok.
Theorem C19_varchar_insert_fits_ok :
  forall n chks ign s, (String.length s <= n)%nat -> sres_ok chks (sexec n chks (SIns ign s)).
Proof. exact varchar_insert_fits_ok. Qed.
Print Assumptions C19_varchar_insert_fits_ok.

(* ---- false of the faithful model ---- *)
(* the checks run before the conversion.
   CREATE TABLE t (c0 INT PRIMARY KEY, c1 INT, CHECK (c1 < 10)); INSERT INTO t VALUES (1, '9.6') stores 10. *)
Theorem C19_check_before_convert_refuted :
  exists sch chks h r c, run sch chks [] h = [r] /\ In c chks /\ eval_check (cells r) c = Some false.
Proof.
  exists w_sch1, w_chk1, [Insert false [[RInt 1; RStrF 96]]], [Some 1; Some 10], (mkCheck Lt (TCol 1) (TLit 10)).
  destruct check_before_convert_witness as [H1 H2]. split; [exact H1|split; [left; reflexivity|exact H2]].
Qed.
Print Assumptions C19_check_before_convert_refuted.

(* stored generated column computed from the unconverted value: c2 AS (c1 * 2), '9.6' stores c1 = 10, c2 = 18 *)
Theorem C19_generated_before_convert_refuted :
  exists sch h r i c e, run sch [] [] h = [r] /\ nth_error sch i = Some c /\ gen c = Some e /\
    nth i r None <> eval_term (cells r) e.
Proof.
  exists w_sch2, [Insert false [[RInt 1; RStrF 96; RDef]]], [Some 1; Some 10; Some 18], 2%nat,
         (gcol (TMul (TCol 1) (TLit 2))), (TMul (TCol 1) (TLit 2)).
  destruct generated_before_convert_witness as [H1 H2].
  split; [exact H1|split; [reflexivity|split; [reflexivity|]]]. rewrite H2. cbn. discriminate.
Qed.
Print Assumptions C19_generated_before_convert_refuted.

(* UPDATE IGNORE turns NULL into 0 after the checks and after the generated columns were computed *)
Theorem C19_update_ignore_null_refuted :
  exists sch chks h r c, run sch chks [] h = [r] /\ In c chks /\ eval_check (cells r) c = Some false /\
    nth 2 r None <> eval_term (cells r) (TAdd (TCol 1) (TLit 1)).
Proof.
  exists w_sch3, w_chk3, [Insert false [[RInt 1; RInt 7; RDef]]; Update true [(1%nat, URaw RNull)] (Some 1)],
         [Some 1; Some 0; None], (mkCheck Gt (TCol 1) (TLit 5)).
  destruct update_ignore_null_witness as (H1 & H2 & H3).
  split; [exact H1|split; [left; reflexivity|split; [exact H2|]]]. rewrite H3. cbn. discriminate.
Qed.
Print Assumptions C19_update_ignore_null_refuted.

(* INSERT IGNORE turns NULL into 0 after the generated column was computed from NULL *)
Theorem C19_insert_ignore_null_generated_refuted :
  exists sch h r, run sch [] [] h = [r] /\ nth 3 r None <> eval_term (cells r) (TAdd (TCol 1) (TCol 2)).
Proof.
  exists w_sch4, [Insert true [[RInt 1; RNull; RDef; RDef]]], [Some 1; Some 0; Some 4; None].
  destruct insert_ignore_null_witness as [H1 H2]. split; [exact H1|]. rewrite H2. cbn. discriminate.
Qed.
Print Assumptions C19_insert_ignore_null_generated_refuted.

(* INSERT IGNORE clamps TINYINT 200 to 127 and wraps UNSIGNED -5 to 251 after the CHECKs (c1 <> 127, c2 < 100) and the
   generated column c3 AS (c1 + 1) saw the written values *)
Theorem C19_ignore_clamp_after_check_refuted :
  exists sch chks h r c1 c2, run sch chks [] h = [r] /\ In c1 chks /\ In c2 chks /\
    eval_check (cells r) c1 = Some false /\ eval_check (cells r) c2 = Some false /\
    nth 3 r None <> eval_term (cells r) (TAdd (TCol 1) (TLit 1)).
Proof.
  exists w_sch5, w_chk5, [Insert true [[RInt 1; RInt 200; RInt (-5); RDef]]], [Some 1; Some 127; Some 251; Some 201],
         (mkCheck Ne (TCol 1) (TLit 127)), (mkCheck Lt (TCol 2) (TLit 100)).
  destruct ignore_clamp_witness as (H1 & H2 & H3 & H4).
  split; [exact H1|split; [left; reflexivity|split; [right; left; reflexivity|split; [exact H2|split; [exact H3|]]]]].
  rewrite H4. cbn. discriminate.
Qed.
Print Assumptions C19_ignore_clamp_after_check_refuted.

(* CHECK (c1 <> 12): INSERT IGNORE (1, '12abc') compares 0 with 12 and stores the prefix 12 *)
Theorem C19_malformed_string_refuted :
  exists sch chks h r c, run sch chks [] h = [r] /\ In c chks /\ eval_check (cells r) c = Some false.
Proof.
  exists w_sch1, w_chk6, [Insert true [[RInt 1; RBad 12]]], [Some 1; Some 12], (mkCheck Ne (TCol 1) (TLit 12)).
  destruct malformed_string_witness as [H1 H2]. split; [exact H1|split; [left; reflexivity|exact H2]].
Qed.
Print Assumptions C19_malformed_string_refuted.

(* c2 INT DEFAULT (c1 + 1): INSERT (1, '3.6') stores c1 = 4 and c2 = 4 *)
Theorem C19_expression_default_before_convert_refuted :
  exists sch h r, run sch [] [] h = [r] /\ nth 2 r None <> eval_term (cells r) (TAdd (TCol 1) (TLit 1)).
Proof.
  exists w_sch7, [Insert false [[RInt 1; RStrF 36; RDef]]], [Some 1; Some 4; Some 4].
  destruct expression_default_witness as [H1 H2]. split; [exact H1|]. rewrite H2. cbn. discriminate.
Qed.
Print Assumptions C19_expression_default_before_convert_refuted.

(* a table with a VIRTUAL generated column enforces no CHECK: INSERT (1, 30) and UPDATE c1 = 50 pass CHECK (c1 < 10) *)
Theorem C19_virtual_column_disables_checks_refuted :
  exists sch chks r c,
    run sch chks [] [Insert false [[RInt 1; RInt 30; RDef]]] = [r] /\
    run sch chks [] [Insert false [[RInt 1; RInt 3; RDef]]; Update false [(1%nat, URaw (RInt 50))] None]
      = [[Some 1; Some 50; Some 51]] /\
    In c chks /\ eval_check (cells r) c = Some false.
Proof.
  exists w_sch8, w_chk1, [Some 1; Some 30; Some 31], (mkCheck Lt (TCol 1) (TLit 10)).
  destruct virtual_checks_witness as (H1 & H2 & H3). split; [exact H1|split; [exact H2|split; [left; reflexivity|exact H3]]].
Qed.
Print Assumptions C19_virtual_column_disables_checks_refuted.

(* an explicit value for a generated column is refused in the first tuple only: VALUES (1, 1, DEFAULT), (2, 1, 99) *)
Theorem C19_explicit_generated_value_refuted :
  exists sch h r1 r2 e, run sch [] [] h = [r1; r2] /\ nth_error sch 2 = Some (gcol e) /\
    nth 2 r2 None <> eval_term (cells r2) e.
Proof.
  exists w_sch2, [Insert false [[RInt 1; RInt 1; RDef]; [RInt 2; RInt 1; RInt 99]]],
         [Some 1; Some 1; Some 2], [Some 2; Some 1; Some 99], (TMul (TCol 1) (TLit 2)).
  destruct explicit_generated_witness as [H1 _]. split; [exact H1|split; [reflexivity|]]. cbn. discriminate.
Qed.
Print Assumptions C19_explicit_generated_value_refuted.

(* DECIMAL(3,1): CHECK (d * 2 < 20) passes on 9.96, stored as 10.0; IGNORE stores 0.0 for -1000.50 after CHECK (d <> 0)
   passed; VARCHAR(3): IGNORE truncates 'abcd' to 'abc' after CHECK (s <> 'abc') and CHAR_LENGTH saw 'abcd' *)
Theorem C19_decimal_rounding_refuted :
  exists p chks s r, dexec p chks s = r /\ ~ dres_ok chks r.
Proof. exists 3, [DMulCmp 2 DLt 20], (DIns false 996), (DStored 100 0). exact decimal_rounding_witness. Qed.
Print Assumptions C19_decimal_rounding_refuted.
Theorem C19_decimal_ignore_out_of_range_refuted :
  exists p chks s r, dexec p chks s = r /\ ~ dres_ok chks r.
Proof. exists 3, [DCmp DNe 0], (DIns true (-100050)), (DStored 0 1%N). exact decimal_ignore_range_witness. Qed.
Print Assumptions C19_decimal_ignore_out_of_range_refuted.
Theorem C19_varchar_ignore_truncate_refuted :
  exists n chks s r, sexec n chks s = r /\ ~ sres_ok chks r.
Proof.
  exists 3%nat, [SNe "abc"%string], (SIns true "abcd"%string), (SStored "abc"%string 4 1%N). exact varchar_truncate_witness.
Qed.
Print Assumptions C19_varchar_ignore_truncate_refuted.

Example C19_nonvacuous :
  wf_schema w_sch4 /\ Forall (typed_stmt w_sch4) w_hist /\
  run w_sch4 [mkCheck Lt (TCol 2) (TCol 1)] [] w_hist
    = [[Some 1; Some 9; Some 3; Some 12]; [Some 2; Some 25; None; None]; [Some 3; Some 6; Some 2; Some 8]].
Proof. exact nonvacuous_example. Qed.
Print Assumptions C19_nonvacuous.
