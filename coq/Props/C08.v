(* C08 — Aggregate and window functions compute their defined values.
   Only statements, each closed by [exact], each followed by Print Assumptions.
   Inputs are NULL-or-BIGINT lists; SUM's float64 accumulator is modelled exactly (valid while partial sums stay
   within +-2^53; see props/C08.json "partial"). *)
From Coq Require Import List ZArith Bool.
Import ListNotations.
From GMS Require Import Expr.C08Agg Expr.C08AggProofs Expr.C08RangeProofs Expr.C08RankProofs Expr.C08NtileProofs Expr.C08GroupConcat.
Open Scope Z_scope.

(* --- aggregation buffers: for EVERY input list the fold equals the definition over the non-NULL values;
       NULLs are ignored, no value => NULL (COUNT => 0) --- *)
Theorem C08_sum_buffer_spec : forall xs, sum_buf xs = match nonnull xs with [] => None | l => Some (zsum l) end.
Proof. exact sum_buf_spec. Qed.
Print Assumptions C08_sum_buffer_spec.

Theorem C08_count_buffer_spec : forall xs,
  count_buf xs = Z.of_nat (length (nonnull xs)) /\ count_star xs = Z.of_nat (length xs).
Proof. exact (fun xs => conj (count_buf_spec xs) (count_star_spec xs)). Qed.
Print Assumptions C08_count_buffer_spec.

(* AVG = (sum of the non-NULL values) / (their number), as numerator and denominator *)
Theorem C08_avg_buffer_spec : forall xs,
  avg_buf xs = match nonnull xs with [] => None | l => Some (zsum l, Z.of_nat (length l)) end.
Proof. exact avg_buf_spec. Qed.
Print Assumptions C08_avg_buffer_spec.

Theorem C08_max_buffer_spec : forall xs,
  (max_buf xs = None <-> nonnull xs = []) /\
  (forall m, max_buf xs = Some m -> In m (nonnull xs) /\ Forall (fun y => y <= m) (nonnull xs)).
Proof. exact max_buf_meaning. Qed.
Print Assumptions C08_max_buffer_spec.

Theorem C08_min_buffer_spec : forall xs,
  (min_buf xs = None <-> nonnull xs = []) /\
  (forall m, min_buf xs = Some m -> In m (nonnull xs) /\ Forall (fun y => m <= y) (nonnull xs)).
Proof. exact min_buf_meaning. Qed.
Print Assumptions C08_min_buffer_spec.

Theorem C08_bit_buffers_spec : forall xs,
  bit_and_buf xs = fold_left Z.land (map u64 (nonnull xs)) (2 ^ 64 - 1) /\
  bit_or_buf xs = fold_left Z.lor (map u64 (nonnull xs)) 0 /\
  bit_xor_buf xs = fold_left Z.lxor (map u64 (nonnull xs)) 0.
Proof. exact bit_bufs_spec. Qed.
Print Assumptions C08_bit_buffers_spec.

(* --- ROWS frames: the interval for the row at idx is exactly {j | ps <= j < pe, idx+lo <= j <= idx+hi}, for all
       bound kinds and all offsets (past the partition edges, start after end) --- *)
Theorem C08_rows_frame_spec : forall ps pe idx sb eb, ps <= idx < pe ->
  forall j, fst (frame ps pe idx sb eb) <= j < snd (frame ps pe idx sb eb) <->
    ps <= j < pe /\ (is_unbp sb = true \/ idx + off sb <= j) /\ (is_unbf eb = true \/ j <= idx + off eb).
Proof. exact rows_frame_spec. Qed.
Print Assumptions C08_rows_frame_spec.

(* --- window aggregates by prefix sums --- *)
(* computePrefixSum over any frame inside the partition is the sum of the frame's entries *)
Theorem C08_prefix_sum_difference : forall (l : list Z) (a b : nat), (a <= b <= length l)%nat ->
  forall ps, prefix_diff (ps + Z.of_nat a) (ps + Z.of_nat b) ps (prefix_from 0 l) = zsum (firstn (b - a) (skipn a l)).
Proof. exact prefix_diff_spec. Qed.
Print Assumptions C08_prefix_sum_difference.

Theorem C08_window_count_spec : forall buf ps pe (a b : nat),
  (a <= b <= length (slice buf ps pe))%nat ->
  win_agg FCount buf ps pe (ps + Z.of_nat a) (ps + Z.of_nat b)
  = WInt (Z.of_nat (length (nonnull (firstn (b - a) (skipn a (slice buf ps pe)))))).
Proof. exact win_count_spec. Qed.
Print Assumptions C08_window_count_spec.

(* window SUM is the definition whenever the frame holds a non-NULL value ... *)
Theorem C08_window_sum_guarded : forall buf ps pe (a b : nat),
  (a < b <= length (slice buf ps pe))%nat -> nonnull (firstn (b - a) (skipn a (slice buf ps pe))) <> [] ->
  win_agg FSum buf ps pe (ps + Z.of_nat a) (ps + Z.of_nat b)
  = of_v (spec_sum (firstn (b - a) (skipn a (slice buf ps pe)))).
Proof. exact win_sum_guarded. Qed.
Print Assumptions C08_window_sum_guarded.

(* ... and departs from it otherwise: a non-empty frame of NULLs gives 0 instead of NULL
   (full statement: forall frames, win_agg FSum = of_v (spec_sum frame)) *)
Theorem C08_window_sum_all_null_refuted :
  exists buf ps pe s e, 0 <= ps <= s /\ s < e <= pe /\ pe = Z.of_nat (length buf) /\
    win_agg FSum buf ps pe s e <> of_v (spec_sum (slice buf s e)).
Proof. exact win_sum_all_null_refuted. Qed.
Print Assumptions C08_window_sum_all_null_refuted.

(* window AVG over a frame without a non-NULL value is NaN where the definition says NULL *)
Theorem C08_window_avg_no_value_refuted :
  exists buf ps pe s e, 0 <= ps <= s /\ s <= e <= pe /\ pe = Z.of_nat (length buf) /\
    spec_avg (slice buf s e) = None /\ win_agg FAvg buf ps pe s e = WNaN.
Proof. exact win_avg_no_value_refuted. Qed.
Print Assumptions C08_window_avg_no_value_refuted.

(* window MIN panics when the frame lies before the first buffered row (MAX does not) *)
Theorem C08_window_min_frame_before_buffer_refuted :
  exists buf ps pe idx sb eb, ps <= idx < pe /\
    win_agg FMin buf ps pe (fst (frame ps pe idx sb eb)) (snd (frame ps pe idx sb eb)) = WPanic.
Proof. exact win_min_frame_before_buffer_refuted. Qed.
Print Assumptions C08_window_min_frame_before_buffer_refuted.

(* --- window MAX / MIN / FIRST_VALUE / LAST_VALUE / AVG over any ROWS frame [ps+a, ps+b) inside the partition --- *)
Theorem C08_window_max_min_spec : forall buf ps pe (a b : nat), 0 <= ps -> (a <= b <= length (slice buf ps pe))%nat ->
  win_agg FMax buf ps pe (ps + Z.of_nat a) (ps + Z.of_nat b) = of_v (spec_max (frame_rows buf ps pe a b)) /\
  win_agg FMin buf ps pe (ps + Z.of_nat a) (ps + Z.of_nat b) = of_v (spec_min (frame_rows buf ps pe a b)).
Proof. exact (fun buf ps pe a b H0 H => conj (win_max_spec buf ps pe a b H0 H) (win_min_spec buf ps pe a b H0 H)). Qed.
Print Assumptions C08_window_max_min_spec.

Theorem C08_window_first_last_value_spec : forall buf ps pe (a b : nat), 0 <= ps -> (a <= b <= length (slice buf ps pe))%nat ->
  win_agg FFirst buf ps pe (ps + Z.of_nat a) (ps + Z.of_nat b)
    = (if (a <? b)%nat then of_v (hd None (frame_rows buf ps pe a b)) else WNull) /\
  win_agg FLast buf ps pe (ps + Z.of_nat a) (ps + Z.of_nat b)
    = (if (a <? b)%nat then of_v (last (frame_rows buf ps pe a b) None) else WNull).
Proof. exact win_first_last_spec. Qed.
Print Assumptions C08_window_first_last_value_spec.

(* AVG = sum / count of the non-NULL values whenever the frame holds one (otherwise: the NaN refutation above) *)
Theorem C08_window_avg_guarded : forall buf ps pe (a b : nat), (a <= b <= length (slice buf ps pe))%nat ->
  nonnull (frame_rows buf ps pe a b) <> [] ->
  win_agg FAvg buf ps pe (ps + Z.of_nat a) (ps + Z.of_nat b)
  = WQ (zsum (nonnull (frame_rows buf ps pe a b))) (Z.of_nat (length (nonnull (frame_rows buf ps pe a b)))).
Proof. exact win_avg_guarded. Qed.
Print Assumptions C08_window_avg_guarded.

(* --- RANGE frames: for every ascending integer key list and all bounds/offsets, the sliding search of
       rangeFramerBase.Next gives row i exactly the rows whose key lies in [k_i + lo, k_i + hi], peers included --- *)
Theorem C08_range_frame_spec : forall sb eb keys, zsorted keys -> forall i, (i < length keys)%nat ->
  let '(s, e) := nth i (range_frames sb eb keys) (O, O) in
  forall j, (j < length keys)%nat ->
    ((s <= j < e)%nat <->
     (is_unbp sb = true \/ key_at keys i + off sb <= key_at keys j) /\
     (is_unbf eb = true \/ key_at keys j <= key_at keys i + off eb)).
Proof. exact range_frame_spec. Qed.
Print Assumptions C08_range_frame_spec.

(* the sort direction is never consulted: over a descending key list the frame of the last row (key 0) under
   CURRENT ROW .. UNBOUNDED FOLLOWING contains the first row (key 5) *)
Theorem C08_range_frame_desc_refuted :
  exists keys i j, let '(s, e) := nth i (range_frames Cur UnbF keys) (O, O) in
    keys = [5; 2; 1; 1; 0] /\ i = 4%nat /\ j = 0%nat /\ (s <= j < e)%nat.
Proof. exact range_desc_refuted. Qed.
Print Assumptions C08_range_frame_desc_refuted.

(* --- ranks, for every partition: the look-ahead peer-group framer is the streaming definition ... --- *)
Theorem C08_ranks_streaming : forall ps k0 t, 0 <= ps -> ranks ps (k0 :: t) = (1, 1) :: sr 1 1 1 k0 t.
Proof. exact ranks_stream. Qed.
Print Assumptions C08_ranks_streaming.

(* ... and over sorted keys (NULL first) RANK = 1 + #{j | key j < key i}, DENSE_RANK = 1 + #distinct smaller keys *)
Theorem C08_rank_dense_rank_spec : forall ps keys, 0 <= ps -> vsorted keys ->
  ranks ps keys = map (fun k => (1 + cnt_lt keys k, 1 + dcnt_lt keys k)) keys.
Proof. exact ranks_spec. Qed.
Print Assumptions C08_rank_dense_rank_spec.

(* --- NTILE, for every partition size c and every b >= 1: the closed form (the first c mod b buckets hold c/b + 1
       rows, the others c/b; more buckets than rows: one row each), so sizes differ by at most 1, larger first --- *)
Theorem C08_ntile_spec : forall count b, 1 <= b -> ntile count b = map (ntile_spec count b) (seq 0 count).
Proof. exact ntile_spec_all. Qed.
Print Assumptions C08_ntile_spec.

(* bucket m of the closed form holds exactly the rows [start m, start m + size m) with size s+1 for the first
   (c mod b) buckets and s after: sizes differ by at most 1 and never increase *)
Theorem C08_ntile_bucket_sizes : forall s big m x, 1 <= s -> 0 <= big -> 1 <= m -> 0 <= x ->
  (ntile_closed s big x = m <-> bucket_start s big m <= x < bucket_start s big m + bucket_size s big m) /\
  bucket_size s big (m + 1) <= bucket_size s big m <= bucket_size s big (m + 1) + 1.
Proof. exact (fun s big m x H1 H2 H3 H4 => conj (ntile_bucket_rows s big m x H1 H2 H3 H4) (ntile_sizes_nonincreasing s big m H1 H2 H3)). Qed.
Print Assumptions C08_ntile_bucket_sizes.

(* --- GROUP_CONCAT: the buffer (skip NULL and - as written - empty strings, DISTINCT keeps first occurrences, stable
       ORDER BY, separator, early exit and cut at group_concat_max_len) equals its list definition for every input --- *)
Theorem C08_group_concat_spec : forall distinct order sep maxlen rs,
  group_concat distinct order sep maxlen rs = gc_spec distinct order sep maxlen rs.
Proof. exact group_concat_spec. Qed.
Print Assumptions C08_group_concat_spec.

(* ... and departs from SQL's GROUP_CONCAT on empty strings: 'a', '', 'b' gives 'a,b', not 'a,,b' *)
Theorem C08_group_concat_empty_string_refuted :
  exists rs, group_concat false None [44%N] 1024 rs = Some [97; 44; 98]%N /\
             rs = [(1%Z, Some [97%N]); (2%Z, Some []); (3%Z, Some [98%N])].
Proof. exact group_concat_empty_string_refuted. Qed.
Print Assumptions C08_group_concat_empty_string_refuted.

(* --- LAG / LEAD: a shifted lookup inside the partition, else the default --- *)
Theorem C08_lead_lag_spec : forall buf ps pe pos offset def,
  lead_lag buf ps pe pos offset def =
  if (ps <=? pos - offset) && (pos - offset <? pe) then znth buf (pos - offset) None else def.
Proof. exact lead_lag_spec. Qed.
Print Assumptions C08_lead_lag_spec.

Example C08_nonvacuous :
  sum_buf [None; Some 3; None; Some (-5)] = Some (-2) /\ sum_buf [None; None] = None /\ sum_buf [] = None /\
  avg_buf [Some 1; None; Some 2] = Some (3, 2) /\ count_buf [Some 1; None] = 1 /\ min_buf [Some 4; None; Some 2] = Some 2 /\
  frame 2 6 2 (Prec 1) (Foll 1) = (2, 4) /\ frame 2 6 5 (Foll 1) UnbF = (6, 6) /\
  win_part FSum [Some 1; None; Some 3; Some 4] [] 0 4 (Prec 1) Cur = [WInt 1; WInt 1; WInt 3; WInt 7] /\
  win_part FRank [] [Some 1; Some 1; Some 2; Some 5; Some 5] 0 5 Cur Cur = [WInt 1; WInt 1; WInt 3; WInt 4; WInt 4] /\
  win_part FDenseRank [] [Some 1; Some 1; Some 2; Some 5; Some 5] 0 5 Cur Cur = [WInt 1; WInt 1; WInt 2; WInt 3; WInt 3] /\
  win_part (FNtile 3) [] [] 0 7 Cur Cur = [WInt 1; WInt 1; WInt 1; WInt 2; WInt 2; WInt 3; WInt 3] /\
  win_part (FLead 2 (Some (-1))) [Some 7; None; Some 9] [] 0 3 Cur Cur = [WInt 9; WInt (-1); WInt (-1)].
Proof. vm_compute. repeat split; reflexivity. Qed.
Print Assumptions C08_nonvacuous.
