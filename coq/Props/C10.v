(* C10 — No SQL input crashes the engine  (partial by nature: panic-freedom of modelled cores).
   Only statements, each closed by [exact], each followed by Print Assumptions.
   Every model represents a Go slice expression / allocation that can fail as the explicit outcome [Panic]. *)
From Coq Require Import ZArith List.
From GMS Require Import Codec.Wkb Codec.WkbProofs Expr.C10Strings.
Open Scope Z_scope.

(* LEFT(str, len): text[:length] is in range for every int64 length *)
Theorem C10_left_never_panics : forall n len, 0 <= n -> left n len <> Panic.
Proof. exact left_never_panics. Qed.
Print Assumptions C10_left_never_panics.

(* RIGHT(str, len): text[runeCount-length:] is in range for every int64 length *)
Theorem C10_right_never_panics : forall n len, 0 <= n -> in64 n -> right n len <> Panic.
Proof. exact right_never_panics. Qed.
Print Assumptions C10_right_never_panics.

(* SUBSTRING(str, start, len) is panic-free exactly as long as startIdx + len does not wrap around int64 ... *)
Theorem C10_substring_never_panics_without_overflow :
  forall n start len, 0 <= n -> in64 n -> in64 start -> in64 len ->
    (start >= 1 -> start - 1 + len <= i64max) -> (start < 0 -> n + start + len <= i64max) ->
    substring n start len <> Panic.
Proof. exact substring_no_overflow_never_panics. Qed.
Print Assumptions C10_substring_never_panics_without_overflow.

(* ... and the unguarded statement is false: SUBSTRING('abc', 2, 9223372036854775807) *)
Theorem C10_substring_never_panics_refuted : substring 3 2 i64max = Panic.
Proof. exact substring_overflow_panics. Qed.
Print Assumptions C10_substring_never_panics_refuted.

Theorem C10_insert_never_panics_without_overflow :
  forall n p l, 0 <= n -> in64 n -> in64 p -> in64 l -> p - 1 + l <= i64max -> insert n p l <> Panic.
Proof. exact insert_no_overflow_never_panics. Qed.
Print Assumptions C10_insert_never_panics_without_overflow.

(* INSERT('abc', 2, 9223372036854775807, 'x') *)
Theorem C10_insert_never_panics_refuted : insert 3 2 i64max = Panic.
Proof. exact insert_overflow_panics. Qed.
Print Assumptions C10_insert_never_panics_refuted.

(* LPAD / RPAD: no slice of padString is out of range; the only failure is the allocation refused by the runtime *)
Theorem C10_pad_never_panics_below_allocation_limit :
  forall n m length, 0 <= n -> 0 <= m -> in64 n -> in64 length -> length <= max_alloc -> pad n m length <> Panic.
Proof. exact pad_small_never_panics. Qed.
Print Assumptions C10_pad_never_panics_below_allocation_limit.

(* LPAD('a', 5000000000000000000, 'b') *)
Theorem C10_pad_never_panics_refuted : pad 1 1 5000000000000000000 = Panic.
Proof. exact pad_huge_panics. Qed.
Print Assumptions C10_pad_never_panics_refuted.

(* the WKB reader (model shared with C52) indexes past a truncated value *)
Theorem C10_wkb_reader_never_panics_refuted : exists buf, geom_from_wkb buf 0%N = Wkb.Panic.
Proof. exact reader_out_of_range. Qed.
Print Assumptions C10_wkb_reader_never_panics_refuted.

(* ... but never on what the writer produced (any well-formed value, any depth) *)
Theorem C10_wkb_reader_safe_on_written_values :
  forall g, wf (snd g) -> geom_from_wkb (as_wkb g) (fst g) = Wkb.Ok g.
Proof. exact geom_from_wkb_as_wkb. Qed.
Print Assumptions C10_wkb_reader_safe_on_written_values.

Example C10_nonvacuous : substring 5 2 3 = Slice 1 4 /\ insert 3 2 1 = Slice 2 3 /\ pad 1 2 6 = Slice 0 6.
Proof. exact (conj eq_refl (conj eq_refl eq_refl)). Qed.
Print Assumptions C10_nonvacuous.

(* ---- panic-freedom of cores modelled under other properties, collected here (DESIGN.md section 7, C10) ----
   Each statement is the one proved in the named property's file; a change that breaks it there breaks it here. *)
From GMS Require Props.C30 Props.C32 Props.C24 Props.C40 Props.C16.

(* character-set conversion (sql/encodings RangeMap): no byte string makes Decode or Encode panic, for every table
   satisfying the well-formedness predicate that the 12 translated tables satisfy *)
Theorem C10_charset_decode_never_panics :
  forall (rm : Charset.rangemap) (c : list BinNums.N),
    Charset.wf_map rm = true -> Charset.decode rm c <> Charset.Panic.
Proof. exact Props.C30.C30_decode_never_panics. Qed.
Print Assumptions C10_charset_decode_never_panics.

Theorem C10_charset_encode_never_panics :
  forall (rm : Charset.rangemap) (s hid : list BinNums.N),
    Charset.wf_map rm = true -> Charset.encode rm s hid <> Charset.Panic.
Proof. exact Props.C30.C30_encode_never_panics. Qed.
Print Assumptions C10_charset_encode_never_panics.

(* JSON unquoting (internal/strings.Unquote, reached by JSON_UNQUOTE): no input panics *)
Theorem C10_json_unquote_never_panics : forall s : list BinNums.N, JsonQuote.unquote s <> JsonQuote.RPanic.
Proof. exact Props.C32.C32_unquote_never_panics. Qed.
Print Assumptions C10_json_unquote_never_panics.

(* stored-procedure interpreter: the program counter never leaves the op list, for runs of any length *)
Theorem C10_procedure_interpreter_never_panics :
  forall ops : list C24Proc.op,
    C24ProcProofs.targets_ok ops = true ->
    forall (fuel : nat) (counter : BinNums.Z) (st : C24Proc.state),
      C24ProcProofs.hok st ->
      BinInt.Z.le (BinNums.Zneg BinNums.xH) counter -> C24Proc.run ops fuel counter st <> C24Proc.MPanic.
Proof. exact Props.C24.C24_pc_in_bounds. Qed.
Print Assumptions C10_procedure_interpreter_never_panics.

(* in-memory index maintenance: no DML/DDL history panics, whatever the index names *)
Theorem C10_index_maintenance_never_panics :
  forall (hp : C16Index.row -> nat) (nparts : nat) (pks : list nat) (h : list C16Index.op),
    C16Index.hist_ok hp (C16Index.init nparts pks) h = true ->
    C16Index.run hp (C16Index.init nparts pks) h <> C16Index.Panic.
Proof. exact Props.C16.C16_no_panic_whatever_the_index_names. Qed.
Print Assumptions C10_index_maintenance_never_panics.
