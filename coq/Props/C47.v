(* C47 — In-memory indexed sets behave like sets (sql/in_mem_table: MultiMap, IndexedSet, single-row editors).
   Only statements, each closed by [exact], each followed by Print Assumptions.
   Everything is generic in the element type, key type, Equals, the keyers and the row conversions; the
   container's contract (Equals an equivalence that every keyer respects, == on keys decides equality) is the
   premise [contract ...]; C47_contract_nonvacuous shows it is satisfiable by the instance the driver runs.
   [exec] = the model of the Go code (one association list of buckets per keyer), [sexec] = the specification:
   ONE bag (list in insertion order): Put appends, Remove v deletes every Equals-copy of v, RemoveMany deletes
   every element with that key, Count is the length, GetMany filters by key, Get finds the first Equals-copy. *)
From Coq Require Import List Bool Arith Permutation NArith.
Import ListNotations.
From GMS Require Import Sys.IndexedSet Sys.IndexedSetProofs.

Section C47.
  Context {V K KId R : Type}.
  Variables (keq : K -> K -> bool) (kideq : KId -> KId -> bool) (equals : V -> V -> bool)
            (keyfn : KId -> V -> K) (from_row : R -> V) (update_with_row : R -> V -> V)
            (add_row delete_row : R -> V -> V) (row_view : V -> V) (rows_view : V -> list V) (keyers : list KId).
  Local Notation run := (exec keq kideq equals keyfn from_row update_with_row add_row delete_row row_view rows_view keyers (is_init keyers)).
  Local Notation spec := (sexec keq kideq equals keyfn from_row update_with_row add_row delete_row row_view rows_view keyers).
  Local Notation spec_set := (sexec_set keq kideq equals keyfn from_row update_with_row add_row delete_row row_view rows_view keyers).
  Local Notation guarded := (no_dup_put keq kideq equals keyfn from_row update_with_row add_row delete_row row_view rows_view keyers).

  (* every observation of every operation sequence (Put, Get, GetMany, Remove, RemoveMany, Count, Clear,
     VisitEntries, editor Insert/Delete/Update, MultiInsert/MultiDelete/MultiUpdate, Truncate, PartitionRows via
     ToRows / MultiToRows) is the one the bag specification gives — exactly, in insertion
     order; VisitEntries up to permutation (Go map iteration order) *)
  Theorem C47_refinement :
    contract keq kideq equals keyfn keyers -> forall ops, keyers <> [] ->
    Forall2 obs_equiv (snd (run ops)) (snd (spec [] ops)).
  Proof. exact (refinement keq kideq equals keyfn from_row update_with_row add_row delete_row row_view rows_view keyers). Qed.

  (* for every keyer and every key: exactly the elements currently stored under that key *)
  Theorem C47_get_many_exact :
    contract keq kideq equals keyfn keyers -> forall ops kid k, keyers <> [] ->
    is_get_many keq kideq keyers (fst (run ops)) kid k =
    if existsb (fun x => kideq x kid) keyers then filter (has_key keq keyfn kid k) (fst (spec [] ops)) else [].
  Proof. exact (get_many_exact keq kideq equals keyfn from_row update_with_row add_row delete_row row_view rows_view keyers). Qed.

  (* every index holds the same bag of elements *)
  Theorem C47_indexes_agree :
    contract keq kideq equals keyfn keyers -> forall ops m, keyers <> [] ->
    In m (fst (run ops)) -> Permutation (mm_entries m) (fst (spec [] ops)).
  Proof. exact (indexes_agree keq kideq equals keyfn from_row update_with_row add_row delete_row row_view rows_view keyers). Qed.

  Theorem C47_count_is_bag_size :
    contract keq kideq equals keyfn keyers -> forall ops, keyers <> [] ->
    length (fst (run ops)) = length keyers /\ is_count (fst (run ops)) = length (fst (spec [] ops)).
  Proof. exact (index_count keq kideq equals keyfn from_row update_with_row add_row delete_row row_view rows_view keyers). Qed.

  (* NOT hidden: the container is a bag.  Put of an element that is already stored is counted again *)
  Theorem C47_put_duplicate_counts_twice :
    contract keq kideq equals keyfn keyers -> forall ops v, keyers <> [] ->
    is_count (fst (run (ops ++ [OpPut v; OpPut v]))) = is_count (fst (run ops)) + 2.
  Proof. exact (put_duplicate_counts_twice keq kideq equals keyfn from_row update_with_row add_row delete_row row_view rows_view keyers). Qed.

  (* set semantics: if no Put adds an Equals-duplicate, the bag specification coincides with the specification in
     which Put is set insertion ... *)
  Theorem C47_set_semantics_without_duplicate_put :
    forall ops c, guarded c ops -> spec_set c ops = spec c ops.
  Proof. exact (set_semantics keq kideq equals keyfn from_row update_with_row add_row delete_row row_view rows_view keyers). Qed.

  (* ... and no two stored elements are Equals (any ops except the editor's Update) *)
  Theorem C47_no_equal_elements_without_duplicate_put :
    contract keq kideq equals keyfn keyers -> forall ops c, forallb no_update ops = true ->
    uniq equals c -> guarded c ops -> uniq equals (fst (spec c ops)).
  Proof. exact (uniq_preserved keq kideq equals keyfn from_row update_with_row add_row delete_row row_view rows_view keyers). Qed.

  (* editor Insert (checks) and Delete keep the first keyer a primary key, as long as nobody Puts directly and no
     Update runs (see C47_update_can_duplicate_primary_key) *)
  Theorem C47_insert_delete_keep_primary_key :
    forall ops c, forallb pk_safe_op ops = true ->
    pk_uniq keq keyfn keyers c -> pk_uniq keq keyfn keyers (fst (spec c ops)).
  Proof. exact (pk_uniq_preserved keq kideq equals keyfn from_row update_with_row add_row delete_row row_view rows_view keyers). Qed.

  (* locking wrappers as atomic steps: for ANY interleaving of whole operations of any number of sessions
     (OperationLockingTableEditor) and of whole statements (StatementLockingTableEditor) the history refines the bag *)
  Theorem C47_locked_operations_any_interleaving :
    contract keq kideq equals keyfn keyers -> forall (sessions : list (list op)) sched, keyers <> [] ->
    Forall2 obs_equiv (snd (run (merge sched sessions))) (snd (spec [] (merge sched sessions))).
  Proof. exact (locked_ops_any_interleaving keq kideq equals keyfn from_row update_with_row add_row delete_row row_view rows_view keyers). Qed.

  Theorem C47_locked_statements_any_interleaving :
    contract keq kideq equals keyfn keyers -> forall (sessions : list (list (list op))) sched, keyers <> [] ->
    Forall2 obs_equiv (snd (run (concat (merge sched sessions)))) (snd (spec [] (concat (merge sched sessions)))).
  Proof. exact (locked_statements_any_interleaving keq kideq equals keyfn from_row update_with_row add_row delete_row row_view rows_view keyers). Qed.
End C47.
Print Assumptions C47_locked_operations_any_interleaving.
Print Assumptions C47_locked_statements_any_interleaving.

(* a merged history is made of the sessions' units (nothing invented, nothing duplicated) *)
Theorem C47_merge_takes_units_of_the_sessions :
  forall (A : Type) sched (ths : list (list A)), exists rest, Permutation (merge sched ths ++ concat rest) (concat ths).
Proof. exact (@merge_sub). Qed.
Print Assumptions C47_merge_takes_units_of_the_sessions.

(* MultiUpdate = MultiDelete then MultiInsert is NOT atomic: the deletion stays when the insertion fails *)
Example C47_multi_update_partial_effect :
  exec4 3 [1; 2]%N [OpPut (1, 1, 3, 7); OpMUpdate (1, 9, 1) (2, 9, 1); OpMRows; OpMInsert (1, 9, 1); OpMRows; OpTruncate; OpCount]%N
  = ([[]; []],
     [ONone; OErr true; OBag [(1, 1, 2, 0)]; OErr false; OBag [(1, 1, 1, 0); (1, 1, 2, 0)]; OCount 1; OCount 0])%N.
Proof. exact multi_update_partial_effect. Qed.
Print Assumptions C47_multi_update_partial_effect.
Print Assumptions C47_refinement.
Print Assumptions C47_get_many_exact.
Print Assumptions C47_indexes_agree.
Print Assumptions C47_count_is_bag_size.
Print Assumptions C47_put_duplicate_counts_twice.
Print Assumptions C47_set_semantics_without_duplicate_put.
Print Assumptions C47_no_equal_elements_without_duplicate_put.
Print Assumptions C47_insert_delete_keep_primary_key.

(* the premises are satisfiable: the instance the driver runs (Equals = fields a,b; keyers = field a, field b),
   with a concrete run showing Remove deleting both Equals-copies and returning its ARGUMENT *)
Example C47_contract_nonvacuous :
  contract val4_eqb N.eqb (mask_equals 3) mask_key [1; 2]%N /\
  snd (exec4 3 [1; 2]%N [OpPut (1, 1, 0, 7); OpPut (1, 2, 0, 8); OpPut (1, 1, 0, 9); OpGetMany 1 (1, 0, 0, 0);
                         OpRemove (1, 1, 5, 5); OpCount; OpGet (1, 2, 9, 9)]%N)
  = [ONone; ONone; ONone; OList [(1, 1, 0, 7); (1, 2, 0, 8); (1, 1, 0, 9)]; ORem (Some (1, 1, 5, 5)); OCount 1;
     OVal (Some (1, 2, 0, 8))]%N.
Proof. exact contract_nonvacuous. Qed.
Print Assumptions C47_contract_nonvacuous.

(* the editors do NOT guarantee the primary key through Update: Insert a; Insert b; Update a -> (key of b) *)
Example C47_update_can_duplicate_primary_key :
  exists ops : list op4,
    forallb (@editor_op val4 val4 N row3) ops = true /\
    contract val4_eqb N.eqb (mask_equals 7) mask_key [1; 2]%N /\
    is_get_many val4_eqb N.eqb [1; 2]%N (fst (exec4 7 [1; 2]%N ops)) 1%N (2, 0, 0, 0)%N
    = [(2, 2, 2, 0); (2, 1, 1, 0)]%N.
Proof. exact update_can_duplicate_primary_key. Qed.
Print Assumptions C47_update_can_duplicate_primary_key.
