(* C51 — Full-text search matches the indexed words and stays in sync  (partial: see docs/C51.md).
   Only statements, each closed by [exact], each followed by Print Assumptions.
   The rune classifier, the UTF-8 length and the collation key are arbitrary (universally quantified). *)
From Coq Require Import List NArith Bool QArith.
Import ListNotations.
From GMS Require Import Sys.Fulltext Sys.FulltextProofs.
Open Scope N_scope.

(* over an index that is in sync with the table ([Inv]), the MATCH expression is true of a row exactly when the
   row's document and the search string share a word under the parser's tokenization and the collation key *)
Theorem C51_match_iff_shared_word :
  forall is_char rlen ckey rows s q r,
    Inv is_char rlen ckey rows s -> NoDup (map rk rows) -> In r rows ->
    matches is_char rlen ckey s q r = shares_word is_char rlen ckey q r.
Proof. exact matches_iff_shares_word. Qed.
Print Assumptions C51_match_iff_shared_word.

(* all contributing lookups of a synced index are in the range where the relevance formula is positive ... *)
Theorem C51_contributions_in_range :
  forall is_char rlen ckey rows s q r,
    Inv is_char rlen ckey rows s -> NoDup (map rk rows) -> NoDup (map rh rows) -> In r rows ->
    Forall (fun c => let '(d, uw, g) := c in 1 <= d /\ 1 <= g <= N.of_nat (length rows))
           (contributions is_char rlen ckey s q r).
Proof. exact contributions_in_range. Qed.
Print Assumptions C51_contributions_in_range.

(* ... so for ANY contribution function that is positive on that range (the code's
   (ln dc + 1)(u/(1+0.115u))(ln(n/gc) + 1) is one), the accumulated relevance is > 0 iff some word contributes *)
Theorem C51_relevance_positive_iff_some_word_contributes :
  forall (cf : N -> N -> N -> N -> Q),
    (forall d u g n, 1 <= d -> 1 <= g <= n -> (0 < cf d u g n)%Q) ->
    forall n cs, Forall (fun c => let '(d, uw, g) := c in 1 <= d /\ 1 <= g <= n) cs ->
      ((0 < relevance cf n cs)%Q <-> cs <> []).
Proof. exact relevance_pos. Qed.
Print Assumptions C51_relevance_positive_iff_some_word_contributes.

(* index maintenance.  Proved: inserting a row whose hash and key are new keeps the three count tables equal
   to their definition over the table's rows; hence an index built by inserting any rows is in sync.
   NOT proved (tested only, see docs): the same for delete / update, and for keyless tables with duplicate rows. *)
Theorem C51_insert_keeps_index_in_sync_partial :
  forall is_char rlen ckey rows s r,
    Inv is_char rlen ckey rows s -> ~ In (rh r) (map rh rows) -> ~ In (rk r) (map rk rows) ->
    all_short rlen (uwords is_char rlen ckey (rdoc r)) ->
    Inv is_char rlen ckey (rows ++ [r]) (ft_insert is_char rlen ckey s r).
Proof. exact insert_keeps_sync. Qed.
Print Assumptions C51_insert_keeps_index_in_sync_partial.

Theorem C51_built_index_in_sync_partial :
  forall is_char rlen ckey rows,
    NoDup (map rh rows) -> NoDup (map rk rows) ->
    (forall r, In r rows -> all_short rlen (uwords is_char rlen ckey (rdoc r))) ->
    Inv is_char rlen ckey rows (fold_left (ft_insert is_char rlen ckey) rows empty_st).
Proof. exact build_sync. Qed.
Print Assumptions C51_built_index_in_sync_partial.

(* the faithful model of the indexed filter returns a row once per matching query word *)
Theorem C51_indexed_match_returns_duplicates_refuted :
  match_result ascii_is_char ascii_rlen key_bin true
    (run_ops ascii_is_char ascii_rlen key_bin [OIns w_r1]) w_alpha_beta [w_r1] = [w_r1; w_r1].
Proof. exact indexed_match_duplicates. Qed.
Print Assumptions C51_indexed_match_returns_duplicates_refuted.

(* HashRow writes string columns without separator: two rows with the same hashed bytes share one row-count
   entry, the second is never indexed, and MATCH misses it although it contains the word *)
Theorem C51_row_hash_collision_refuted :
  let s := run_ops ascii_is_char ascii_rlen key_bin [OIns w_c1; OIns w_c2] in
  let q := [99;100;101;102] in
  shares_word ascii_is_char ascii_rlen key_bin q w_c2 = true /\
  matches ascii_is_char ascii_rlen key_bin s q w_c2 = false.
Proof. exact hash_collision_breaks_match. Qed.
Print Assumptions C51_row_hash_collision_refuted.

Example C51_nonvacuous :
  map fst (tokenize ascii_is_char ascii_rlen [68;111;110;39;116;32;97;98;32;115;116;111;112;39;39;120;95;49])
    = [[68;111;110;39;116]; [115;116;111;112]; [120;95;49]]
  /\ ukeys ascii_is_char ascii_rlen key_ci [72;105;32;116;104;101;32;84;72;69] = [[84;72;69]]
  /\ matches ascii_is_char ascii_rlen key_bin (run_ops ascii_is_char ascii_rlen key_bin [OIns w_r1]) [98;101;116;97] w_r1 = true.
Proof. exact fulltext_nonvacuous. Qed.
Print Assumptions C51_nonvacuous.
