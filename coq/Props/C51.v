(* C51 — Full-text search matches the indexed words and stays in sync  (see docs/C51.md for what is not modelled).
   Only statements, each closed by [exact], each followed by Print Assumptions.
   The rune classifier, the UTF-8 length and the collation key are arbitrary (universally quantified). *)
From Coq Require Import List NArith Bool QArith.
Import ListNotations.
From GMS Require Import Sys.Fulltext Sys.FulltextProofs Sys.FulltextSync.
Open Scope N_scope.

(* [wfb rows]: a row hash or a key identifies the whole row (PRIMARY KEY uniqueness; key = hash for keyless tables; no
   two different rows with the same hash).  Identical rows may occur any number of times.
   [Inv2 rows s]: the row-count, doc-count and global-count tables of [s] are exactly those determined by the bag [rows].
   [valid_hist [] ops]: every insert / update keeps [wfb] and only indexes words of at most 84 bytes, every delete /
   update removes a row that is present. *)

(* index_sync: after ANY valid history of inserts, deletes and updates - duplicate rows included - the index tables
   are exactly those of the current rows *)
Theorem C51_index_sync :
  forall is_char rlen ckey ops, valid_hist is_char rlen ckey [] ops ->
    wfb (fold_left apply_rows ops []) /\
    Inv2 is_char rlen ckey (fold_left apply_rows ops []) (run_ops is_char rlen ckey ops).
Proof. exact index_sync. Qed.
Print Assumptions C51_index_sync.

(* the single steps *)
Theorem C51_insert_keeps_index_in_sync :
  forall is_char rlen ckey rows s r,
    Inv2 is_char rlen ckey rows s -> wfb (rows ++ [r]) -> all_short rlen (uwords is_char rlen ckey (rdoc r)) ->
    Inv2 is_char rlen ckey (rows ++ [r]) (ft_insert is_char rlen ckey s r).
Proof. exact insert_keeps_sync2. Qed.
Print Assumptions C51_insert_keeps_index_in_sync.

Theorem C51_delete_keeps_index_in_sync :
  forall is_char rlen ckey rows s r,
    Inv2 is_char rlen ckey rows s -> wfb rows -> In r rows ->
    Inv2 is_char rlen ckey (remove_row r rows) (ft_delete is_char rlen ckey s r).
Proof. exact delete_keeps_sync2. Qed.
Print Assumptions C51_delete_keeps_index_in_sync.

(* over an index in sync with the table, the MATCH expression is true of a row exactly when the row's document and
   the search string share a word under the parser's tokenization and the collation key *)
Theorem C51_match_iff_shared_word :
  forall is_char rlen ckey rows s q r,
    Inv2 is_char rlen ckey rows s -> wfb rows -> In r rows ->
    matches is_char rlen ckey s q r = shares_word is_char rlen ckey q r.
Proof. exact matches_iff_shares_word2. Qed.
Print Assumptions C51_match_iff_shared_word.

(* both halves: after any valid history MATCH is true of exactly the current rows sharing a word with the query *)
Theorem C51_match_after_any_history :
  forall is_char rlen ckey ops q r,
    valid_hist is_char rlen ckey [] ops -> In r (fold_left apply_rows ops []) ->
    matches is_char rlen ckey (run_ops is_char rlen ckey ops) q r = shares_word is_char rlen ckey q r.
Proof. exact match_after_history. Qed.
Print Assumptions C51_match_after_any_history.

(* all contributing lookups of a synced index are in the range where the relevance formula is positive ... *)
Theorem C51_contributions_in_range :
  forall is_char rlen ckey rows s q r,
    Inv2 is_char rlen ckey rows s -> wfb rows -> In r rows ->
    Forall (fun c => let '(d, uw, g) := c in 1 <= d /\ 1 <= g <= N.of_nat (length rows))
           (contributions is_char rlen ckey s q r).
Proof. exact contributions_in_range2. Qed.
Print Assumptions C51_contributions_in_range.

(* ... so for ANY contribution function that is positive on that range (the code's
   (ln dc + 1)(u/(1+0.115u))(ln(n/gc) + 1) is one), the accumulated relevance is > 0 iff some word contributes *)
Theorem C51_relevance_positive_iff_some_word_contributes :
  forall (cf : N -> N -> N -> N -> Q),
    (forall d u g n, 1 <= d -> 1 <= g <= n -> (0 < cf d u g n)%Q) ->
    forall n cs, Forall (fun c => let '(d, uw, g) := c in 1 <= d /\ 1 <= g <= n) cs ->
      ((0 < relevance cf n cs)%Q <-> cs <> []).
Proof. exact relevance_pos. Qed.
Print Assumptions C51_relevance_positive_iff_some_word_contributes.

(* the faithful model of the indexed filter returns a row once per matching query word *)
Theorem C51_indexed_match_returns_duplicates_refuted :
  match_result ascii_is_char ascii_rlen key_bin true
    (run_ops ascii_is_char ascii_rlen key_bin [OIns w_r1]) w_alpha_beta [w_r1] = [w_r1; w_r1].
Proof. exact indexed_match_duplicates. Qed.
Print Assumptions C51_indexed_match_returns_duplicates_refuted.

(* HashRow writes string columns without separator: two rows with the same hashed bytes share one row-count
   entry, the second is never indexed, and MATCH misses it although it contains the word *)
Theorem C51_row_hash_collision_refuted :
  let s := run_ops ascii_is_char ascii_rlen key_bin [OIns w_c1; OIns w_c2] in
  let q := [99;100;101;102] in
  shares_word ascii_is_char ascii_rlen key_bin q w_c2 = true /\
  matches ascii_is_char ascii_rlen key_bin s q w_c2 = false.
Proof. exact hash_collision_breaks_match. Qed.
Print Assumptions C51_row_hash_collision_refuted.

Example C51_history_nonvacuous :
  valid_hist ascii_is_char ascii_rlen key_bin [] [OIns w_r1; OIns w_r1; ODel w_r1; OUpd w_r1 w_r2]
  /\ fold_left apply_rows [OIns w_r1; OIns w_r1; ODel w_r1; OUpd w_r1 w_r2] [] = [w_r2]
  /\ matches ascii_is_char ascii_rlen key_bin
       (run_ops ascii_is_char ascii_rlen key_bin [OIns w_r1; OIns w_r1; ODel w_r1; OUpd w_r1 w_r2]) [103;97;109;109;97] w_r2 = true.
Proof. exact sync_nonvacuous. Qed.
Print Assumptions C51_history_nonvacuous.

Example C51_nonvacuous :
  map fst (tokenize ascii_is_char ascii_rlen [68;111;110;39;116;32;97;98;32;115;116;111;112;39;39;120;95;49])
    = [[68;111;110;39;116]; [115;116;111;112]; [120;95;49]]
  /\ ukeys ascii_is_char ascii_rlen key_ci [72;105;32;116;104;101;32;84;72;69] = [[84;72;69]]
  /\ matches ascii_is_char ascii_rlen key_bin (run_ops ascii_is_char ascii_rlen key_bin [OIns w_r1]) [98;101;116;97] w_r1 = true.
Proof. exact fulltext_nonvacuous. Qed.
Print Assumptions C51_nonvacuous.
