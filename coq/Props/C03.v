(* C03 — Index lookups return exactly the rows a full scan would (builder level, one INT index column).
   Only statements, each closed by [exact], each followed by Print Assumptions. *)
From Coq Require Import List ZArith Bool.
Import ListNotations.
From GMS Require Import Range.Cut Range.C03IndexBuilder Range.C03IndexBuilderProofs.
Open Scope Z_scope.

(* each call hands updateCol ranges that contain a column value exactly when the comparison is TRUE of it:
   for every literal n*10^-s (integral or not, inside or outside the int32 range) and every int32 value or NULL.
   This covers floor/ceil of non-integral literals and the Overflow/Underflow cases. *)
Theorem C03_leaf_ranges_exact : forall o v, in_i32 v -> lookup_has (potential o) v = op_true o v.
Proof. exact potential_exact. Qed.
Print Assumptions C03_leaf_ranges_exact.

(* updateCol intersects *)
Theorem C03_update_col_is_intersection : forall cur pot v,
  lookup_has (update_col cur pot) v = lookup_has cur v && lookup_has pot v.
Proof. exact update_col_exact. Qed.
Print Assumptions C03_update_col_is_intersection.

(* SimplifyRangeColumn (used by NotEquals) keeps the union *)
Theorem C03_simplify_range_column_exact : forall l v,
  existsb (fun r => contains r v) (simplify_range_column l) = existsb (fun r => contains r v) l.
Proof. exact simplify_range_column_exact. Qed.
Print Assumptions C03_simplify_range_column_exact.

(* completeness and precision for every conjunction of comparisons on the column: the ranges returned by
   Ranges() contain the value iff the filter is TRUE of the row.  PARTIAL w.r.t. the property: one INT column,
   conjunctions only (no OR / IN / multi-column odometer / prefix indexes / the analyzer's filter tree), and the
   storage side (memory index scan) is covered only by the engine-level differential check. *)
Theorem C03_lookup_complete_and_precise_partial : forall ops v, in_i32 v ->
  lookup_has (result (run ops)) v = filter_true ops v.
Proof. exact lookup_exact. Qed.
Print Assumptions C03_lookup_complete_and_precise_partial.

Example C03_nonvacuous :
  result (run [OGt (15, 1%nat); OLe (2147483648, 0%nat)]) = [mkR (Above 1) AboveAll] /\
  filter_true [OGt (15, 1%nat); OLe (2147483648, 0%nat)] (Some 2) = true /\
  filter_true [OGt (15, 1%nat); OLe (2147483648, 0%nat)] (Some 1) = false.
Proof. vm_compute. repeat split. Qed.
