(* C03 — Index lookups return exactly the rows a full scan would (builder level, one INT index column).
   Only statements, each closed by [exact], each followed by Print Assumptions. *)
From Coq Require Import List ZArith Bool.
Import ListNotations.
From GMS Require Import Range.Cut Range.MRange Range.C03IndexBuilder Range.C03IndexBuilderProofs Range.C03Multi Range.C03MultiProofs
  Range.C03Scan Range.C03ScanProofs Range.C03IndexScan.
From Coq Require Import Permutation.
Open Scope Z_scope.

(* each call hands updateCol ranges that contain a column value exactly when the comparison is TRUE of it:
   for every literal n*10^-s (integral or not, inside or outside the int32 range) and every int32 value or NULL.
   This covers floor/ceil of non-integral literals and the Overflow/Underflow cases. *)
Theorem C03_leaf_ranges_exact : forall o v, in_i32 v -> lookup_has (potential o) v = op_true o v.
Proof. exact potential_exact. Qed.
Print Assumptions C03_leaf_ranges_exact.

(* updateCol intersects *)
Theorem C03_update_col_is_intersection : forall cur pot v,
  lookup_has (update_col cur pot) v = lookup_has cur v && lookup_has pot v.
Proof. exact update_col_exact. Qed.
Print Assumptions C03_update_col_is_intersection.

(* SimplifyRangeColumn (used by NotEquals) keeps the union *)
Theorem C03_simplify_range_column_exact : forall l v,
  existsb (fun r => contains r v) (simplify_range_column l) = existsb (fun r => contains r v) l.
Proof. exact simplify_range_column_exact. Qed.
Print Assumptions C03_simplify_range_column_exact.

(* completeness and precision for every conjunction of comparisons on the column: the ranges returned by
   Ranges() contain the value iff the filter is TRUE of the row.  PARTIAL w.r.t. the property: one INT column,
   conjunctions only (no OR / IN / multi-column odometer / prefix indexes / the analyzer's filter tree), and the
   storage side (memory index scan) is covered only by the engine-level differential check. *)
Theorem C03_lookup_complete_and_precise_partial : forall ops v, in_i32 v ->
  lookup_has (result (run ops)) v = filter_true ops v.
Proof. exact lookup_exact. Qed.
Print Assumptions C03_lookup_complete_and_precise_partial.

(* ---- k index columns, In / NotIn, disjunctions ---- *)
(* Every call addresses one of the k columns (In with at least one key).  For every key tuple t of k int32-or-NULL
   values: the ranges of Ranges() (the odometer product of the per-column expressions, empty combinations dropped)
   contain t iff every call is TRUE of t.  In(col, keys) is TRUE iff the column equals some key, NotIn iff it differs
   from all; a non-integral or out-of-range key matches nothing. *)
Theorem C03_multi_column_lookup_complete_and_precise : forall t ops, Forall in_i32 t -> t <> [] ->
  Forall (wf_bop t) ops -> ucontains (mresult (mrun (length t) ops)) t = conj_true ops t.
Proof. intros t ops Ht NE W. exact (mlookup_exact t Ht ops NE W). Qed.
Print Assumptions C03_multi_column_lookup_complete_and_precise.

(* A disjunction of such conjunctions (rangeBuildOr concatenates the children's collections, buildRangeCollection
   passes them through RemoveOverlappingRanges): whatever collection comes back contains t iff some disjunct is TRUE.
   PARTIAL w.r.t. the property: the analyzer's choice of which filters enter the scan (markLeftover / markImprecise,
   AND over OR children via MySQLRangeCollection.Intersect), prefix indexes, other column types and the storage side
   are not modelled; this disjunction level is tied to the code only through the engine-level differential check. *)
Theorem C03_disjunction_lookup_complete_and_precise_partial : forall t fs fuel finds out c, Forall in_i32 t -> t <> [] ->
  Forall (Forall (wf_bop t)) fs ->
  remove_overlapping_ranges fuel finds (or_ranges (length t) fs) = (ROk out, c) ->
  ucontains out t = or_true fs t.
Proof. intros t fs fuel finds out c Ht NE W H. exact (or_lookup_exact t Ht fs fuel finds out c NE W H). Qed.
Print Assumptions C03_disjunction_lookup_complete_and_precise_partial.

(* ---- the fast path of a lone IN filter on a one-column index (inValsToMySQLRangeColl) ---- *)
(* when it returns ranges they contain exactly the values equal to some key ... *)
Theorem C03_in_fast_path_exact : forall ls rs v, in_i32 v -> in_fast ls = Some rs ->
  ucontains rs [v] = existsb (fun l => op_true (OEq l) v) ls.
Proof. exact in_fast_exact. Qed.
Print Assumptions C03_in_fast_path_exact.
(* ... and it returns nil exactly when no key can match any column value (all keys non-integral or out of range).  nil is
   not the empty range: the engine reads it as "no restriction" on a primary key (all rows come back) and dereferences it
   on a secondary key (panic) — the known finding.  So the lookup is complete but NOT precise for such lists: *)
Theorem C03_in_fast_path_nil_iff_unsatisfiable : forall ls,
  in_fast ls = None <-> forall v, in_i32 v -> existsb (fun l => op_true (OEq l) v) ls = false.
Proof. exact in_fast_nil_iff. Qed.
Print Assumptions C03_in_fast_path_nil_iff_unsatisfiable.
Theorem C03_in_fast_path_precision_refuted : exists ls, in_fast ls = None /\ ls <> [].
Proof. exists [(15, 1%nat)]. split; [reflexivity|discriminate]. Qed.
Print Assumptions C03_in_fast_path_precision_refuted.

(* ---- the analyzer side: which filters enter the scan, which stay as a residual Filter ---- *)
(* indexScanRangeBuilder on a root AND, for EVERY include set: provided every top-level leaf / OR that goes into the
   scan addresses index columns and is either exact (flagged precise) or marked imprecise, the row satisfies the filter
   tree iff its key tuple lies in the lookup ranges and every left-over expression is TRUE of it.  So a residual filter
   is dropped only for exact, included filters; with an imprecise lookup (PreciseMatch false / prefix index) all
   filters are kept, which needs only the "=>" half (completeness).  Leaves have an abstract truth Tl whose builder
   call over-approximates it (exactly when flagged precise); ror is RemoveOverlappingRanges (C46: exact). *)
Theorem C03_range_builder_residual_sound :
  forall (k : nat) (include imprecise : list nat) (ror : list range -> option (list range)),
  (1 <= k)%nat ->
  (forall rs out, ror rs = Some out ->
     (forall t, ucontains out t = ucontains rs t) /\ (rs <> [] -> out <> []) /\
     (Forall (haslen k) rs -> Forall (haslen k) out)) ->
  forall (Tl : bop -> tuple -> bool) (precise_b : bop -> bool) (row : tuple),
  Forall in_i32 row -> (k <= length row)%nat ->
  (forall b, wf_bop (firstn k row) b -> Tl b row = true -> bop_true b (firstn k row) = true) ->
  (forall b, wf_bop (firstn k row) b -> precise_b b = true -> Tl b row = bop_true b (firstn k row)) ->
  forall id ls ors r lo,
  Forall (tl_ok k include imprecise precise_b row (mem id include)) ls ->
  Forall (to_ok k include imprecise precise_b row (mem id include)) ors ->
  rb k include imprecise ror (depth (FAnd id ls ors)) (FAnd id ls ors) (mem id include) [] = Some (r, lo) ->
  exists rs L, r = Some rs /\ rs <> [] /\ Forall (haslen k) rs /\ lo = map fst L /\ Forall (entry Tl row ls ors) L /\
    feval Tl row (FAnd id ls ors) = ucontains rs (firstn k row) && forallb snd L.
Proof. exact root_and_sound. Qed.
Print Assumptions C03_range_builder_residual_sound.

(* buildAnd's line "imprecise = invalid.Union(imp)" loses the mark of an imprecise leaf that precedes a nested AND:
   for  X AND (Y AND Z)  with X imprecise the imprecise set comes back empty (the hypothesis of the theorem above is
   then not met; harmless only as long as the builder's ranges for X are in fact exact, as they are for INT columns) *)
Theorem C03_build_and_drops_imprecise_mark_refuted : exists x y z,
  r_imprecise (build_root (SAnd (SLeaf x true) (SAnd (SLeaf y false) (SLeaf z false)))) = [].
Proof. exists (BOp 0 (OGt (15%Z, 1%nat))), (BOp 0 OIsNotNull), (BOp 1 OIsNull). reflexivity. Qed.
Print Assumptions C03_build_and_drops_imprecise_mark_refuted.

(* ---- the in-memory index scan, and the final link ---- *)
Theorem C03_index_scan_returns_rows_in_ranges : forall kcols rows storage ranges,
  storage_consistent kcols rows storage ->
  Permutation (index_read rows storage ranges) (filter (fun r => ucontains ranges (key_of kcols r)) rows).
Proof. exact index_read_exact. Qed.
Print Assumptions C03_index_scan_returns_rows_in_ranges.
(* Filter(residual, IndexedTableAccess(ranges)) = Filter(whole filter, full scan), as bags *)
Theorem C03_index_read_with_residual_equals_filtered_scan : forall kcols rows storage ranges (whole residual : trow -> bool),
  storage_consistent kcols rows storage ->
  (forall r, In r rows -> whole r = ucontains ranges (key_of kcols r) && residual r) ->
  Permutation (filter residual (index_read rows storage ranges)) (filter whole rows).
Proof. exact index_scan_then_residual_eq_filtered_scan. Qed.
Print Assumptions C03_index_read_with_residual_equals_filtered_scan.

Example C03_multi_nonvacuous :
  mresult (mrun 2 [BOp 0 (ONe (2, 0%nat)); BIn 1 [(1, 0%nat); (15, 1%nat); (3, 0%nat)]]) =
    [[gt_rce 2; closed_rce 1 1]; [lt_rce 2; closed_rce 3 3]; [gt_rce 2; closed_rce 3 3]; [lt_rce 2; closed_rce 1 1]] /\
  conj_true [BOp 0 (ONe (2, 0%nat)); BIn 1 [(1, 0%nat); (15, 1%nat); (3, 0%nat)]] [Some 5; Some 3] = true.
Proof. vm_compute. split; reflexivity. Qed.

Example C03_nonvacuous :
  result (run [OGt (15, 1%nat); OLe (2147483648, 0%nat)]) = [mkR (Above 1) AboveAll] /\
  filter_true [OGt (15, 1%nat); OLe (2147483648, 0%nat)] (Some 2) = true /\
  filter_true [OGt (15, 1%nat); OLe (2147483648, 0%nat)] (Some 1) = false.
Proof. vm_compute. repeat split. Qed.
