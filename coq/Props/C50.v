(* C50 - Data exported with INTO OUTFILE loads back identically.
   Only statements, each closed by [exact], each followed by Print Assumptions.
   Model: Codec/Outfile.v ([dump] = buildInto's Outfile branch, [load] = SplitLines + parseFields + post-pass +
   BIGINT/TEXT conversion).  The target  forall o rows, load o (dump o rows) = rows  is FALSE of the code as it
   stands: C50_load_dump_refuted and the per-cause witnesses below.  What holds is the guarded round trip. *)
From Coq Require Import List NArith ZArith Bool.
Import ListNotations.
From GMS Require Import Codec.Outfile Codec.OutfileProofs Codec.C50Fmt.
Open Scope N_scope.

(* the round trip, for every option record meeting wf_opts (non-empty terminators, enclosure/escape of at most one
   byte and different from each other, the first byte of the line terminator occurring in no other delimiter, the
   first byte of the field terminator different from enclosure and escape, the NULL marker free of delimiter bytes),
   every column-type list and every table whose non-NULL values print without a byte equal to the first byte of
   the field terminator, the first byte of the line terminator, the enclosure or the escape character, and whose
   strings differ from the four letters NULL.  No bound on rows, columns or string lengths. *)
Theorem C50_load_dump_id_guarded : forall o, wf_opts o = true -> forall tys rows,
  Forall (fun r => row_ok o tys r = true) rows ->
  load o tys (dump o tys rows) = Loaded rows.
Proof. exact load_dump_id_guarded. Qed.
Print Assumptions C50_load_dump_id_guarded.

(* LOAD DATA ... IGNORE n LINES: the first n exported rows are dropped and exactly the others come back *)
Theorem C50_load_ignore_dump_guarded : forall o, wf_opts o = true -> forall n tys rows,
  Forall (fun r => row_ok o tys r = true) rows ->
  load_ignore n o tys (dump o tys rows) = Loaded (skipn n rows).
Proof. exact load_ignore_dump_guarded. Qed.
Print Assumptions C50_load_ignore_dump_guarded.

(* the same with the guard on strings only: when no delimiter byte is a digit or the minus sign, every BIGINT
   value is harmless and only the TEXT values are constrained *)
Theorem C50_load_dump_id_guarded_strings : forall o tys rows,
  wf_opts o = true -> num_safe o = true ->
  Forall (fun r => row_ok_str o tys r = true) rows ->
  load o tys (dump o tys rows) = Loaded rows.
Proof. exact load_dump_id_strings. Qed.
Print Assumptions C50_load_dump_id_guarded_strings.

(* int64 text: what the writer prints is read back as the same number *)
Theorem C50_int_text_roundtrip : forall z, in_int64 z = true -> parse_int (render_Z z) = Some z.
Proof. exact parse_int_render. Qed.
Print Assumptions C50_int_text_roundtrip.

(* the unguarded statement is false of the faithful model, for well-formed options and well-typed rows *)
Theorem C50_load_dump_refuted :
  ~ (forall o tys rows, wf_opts o = true -> Forall (fun r => row_typed tys r = true) rows ->
       load o tys (dump o tys rows) = Loaded rows).
Proof. exact load_dump_refuted. Qed.
Print Assumptions C50_load_dump_refuted.

(* one witness per cause (default options = tab / no enclosure / backslash / newline; csv = comma / double quote) *)
Theorem C50_field_terminator_in_value_refuted :
  wf_opts dflt = true /\ row_typed [TText; TText] [VStr [97; 9; 98]; VStr [99]] = true /\
  ~ roundtrips dflt [TText; TText] [[VStr [97; 9; 98]; VStr [99]]].
Proof. exact refuted_field_terminator. Qed.
Print Assumptions C50_field_terminator_in_value_refuted.

Theorem C50_enclosure_in_value_refuted :
  wf_opts csv = true /\ row_typed [TText; TText] [VStr [97; 34; 44; 98]; VStr [99]] = true /\
  ~ roundtrips csv [TText; TText] [[VStr [97; 34; 44; 98]; VStr [99]]].
Proof. exact refuted_enclosure. Qed.
Print Assumptions C50_enclosure_in_value_refuted.

Theorem C50_escape_in_value_refuted :
  wf_opts dflt = true /\
  load dflt [TText] (dump dflt [TText] [[VStr [97; 92; 98]]]) = Loaded [[VStr [97; 8]]].
Proof. exact refuted_escape. Qed.
Print Assumptions C50_escape_in_value_refuted.

Theorem C50_null_string_refuted :
  wf_opts dflt = true /\ load dflt [TText] (dump dflt [TText] [[VStr str_NULL]]) = Loaded [[VNull]].
Proof. exact refuted_null_string. Qed.
Print Assumptions C50_null_string_refuted.

Theorem C50_line_terminator_in_value_refuted :
  wf_opts dflt = true /\
  load dflt [TText; TText] (dump dflt [TText; TText] [[VStr [97; 10; 98]; VStr [99]]])
  = Loaded [[VStr [97; 92]; VNull]; [VStr [98]; VStr [99]]].
Proof. exact refuted_line_terminator. Qed.
Print Assumptions C50_line_terminator_in_value_refuted.

(* other column types: the writer prints every non-string value with %v.  A DATE leaves in Go's time layout (the
   engine's own date parser accepts that layout, so dates do round-trip: an observation, not a refutation) and a BLOB as a
   Go slice (refuted: it comes back as that text) (Codec/C50Fmt.v models %v for DECIMAL,
   DATE, DATETIME and BLOB; the conversion back into those column types is not modelled) *)
Theorem C50_date_export_layout :
  load dflt_o [TText] (dump dflt_o [TOther false] [[to_val_x (XDate 2024 2 29)]])
    = Loaded [[VStr [50;48;50;52;45;48;50;45;50;57;32;48;48;58;48;48;58;48;48;32;43;48;48;48;48;32;85;84;67]]]
  /\ sql_date 2024 2 29 = [50;48;50;52;45;48;50;45;50;57].
Proof. exact date_export_layout. Qed.
Print Assumptions C50_date_export_layout.

Theorem C50_blob_export_refuted :
  load dflt_o [TText] (dump dflt_o [TOther true] [[to_val_x (XBlob [97; 98])]]) = Loaded [[VStr [91;57;55;32;57;56;93]]].
Proof. exact blob_export_refuted. Qed.
Print Assumptions C50_blob_export_refuted.

(* the clauses of wf_opts are forced: tables meeting the row guard that stop round-tripping once a clause is dropped *)
Theorem C50_wf_needs_enclosure_differs_from_escape_refuted :
  wf_opts enc_is_esc = false /\ row_ok enc_is_esc [TText; TText] [VNull; VStr [99]] = true /\
  ~ roundtrips enc_is_esc [TText; TText] [[VNull; VStr [99]]].
Proof. exact wf_needs_enc_neq_esc. Qed.
Print Assumptions C50_wf_needs_enclosure_differs_from_escape_refuted.

Theorem C50_wf_needs_line_terminator_outside_prefix_refuted :
  wf_opts lt_in_ls = false /\ row_ok lt_in_ls [TText] [VStr [97]] = true /\
  ~ roundtrips lt_in_ls [TText] [[VStr [97]]].
Proof. exact wf_needs_lt_not_in_prefix. Qed.
Print Assumptions C50_wf_needs_line_terminator_outside_prefix_refuted.

(* LINES TERMINATED BY '' : SplitLines never advances, the load does not terminate (not run by the driver) *)
Theorem C50_wf_needs_line_terminator_refuted :
  wf_opts empty_lt = false /\ load empty_lt [TText] (dump empty_lt [TText] [[VStr [97]]]) = NoTermination.
Proof. exact wf_needs_line_terminator. Qed.
Print Assumptions C50_wf_needs_line_terminator_refuted.

(* non-vacuity of the guarded theorems: a three-row BIGINT/TEXT/TEXT table with NULLs, an empty string, a negative
   and the largest int64, the strings N and null, under CSV-like options *)
Example C50_guarded_nonvacuous :
  wf_opts csv = true /\ num_safe csv = true /\
  forallb (row_ok_str csv [TInt; TText; TText]) ex_rows = true /\
  dump csv [TInt; TText; TText] ex_rows <> [].
Proof. exact guarded_nonvacuous. Qed.
Print Assumptions C50_guarded_nonvacuous.
