(* C06 — Equivalent SQL formulations return equal results.
   Only statements, each closed by [exact], each followed by Print Assumptions. *)
From Coq Require Import List ZArith Bool.
Import ListNotations.
From GMS Require Import Expr.C05Expr Expr.C05ExprProofs Rel.C06Equiv Rel.C06HashIn.

(* x IN (e1, ..., en) has the value of x = e1 OR ... OR x = en, on every row (NULLs in x and in the list included) *)
Theorem C06_in_as_or : forall r a x l, eval r (In a (x :: l)) = eval r (or_chain a x l).
Proof. exact in_as_or. Qed.
Print Assumptions C06_in_as_or.

(* the hashed IN (HashInTuple, built by applyHashIn for static lists in filters) answers like IN whenever every non-NULL
   operand lies in the class of the comparison type chosen from the left operand and the FIRST element *)
Theorem C06_hash_in_eq_in :
  forall lt a es c ft v0 rest,
    es = (v0, ft) :: rest -> cmp_type lt ft = Some c ->
    forallb (in_class c) (a :: map fst es) = true ->
    hash_in lt a es = match a with VNull => TN | _ => in_list a (map fst es) false end.
Proof. exact hash_in_eq_in. Qed.
Print Assumptions C06_hash_in_eq_in.

(* without the guard it is false of the faithful model: b IN (0, 1.500) with b = 2 *)
Theorem C06_hash_in_eq_in_refuted :
  exists lt a es, hash_in lt a es = TT /\ in_list a (map fst es) false = TF.
Proof. exact hash_in_refuted. Qed.
Print Assumptions C06_hash_in_eq_in_refuted.

(* v BETWEEN lo AND hi has the value of v >= lo AND v <= hi *)
Theorem C06_between_as_pair :
  forall r v lo hi, eval r (Between v lo hi) = eval r (And (Cmp CGe v lo) (Cmp CLe v hi)).
Proof. exact between_as_pair. Qed.
Print Assumptions C06_between_as_pair.

(* inner join: JOIN ON p WHERE q = cross join WHERE p AND q = JOIN ON (p AND q), as lists (same order) *)
Theorem C06_on_vs_where_inner :
  forall p q A B,
    sigma q (nlj p A B) = sigma (And p q) (cross A B) /\ nlj (And p q) A B = sigma (And p q) (cross A B).
Proof. exact on_vs_where_inner. Qed.
Print Assumptions C06_on_vs_where_inner.

(* x IN (SELECT y FROM S) keeps the rows the semi join on x = y keeps *)
Theorem C06_semi_as_in : forall x y R S, in_subquery x y R S = semi_join x y R S.
Proof. exact semi_as_in. Qed.
Print Assumptions C06_semi_as_in.

(* WITH n AS (body) main = main with every reference to n replaced by body (main without nested WITH) *)
Theorem C06_cte_inline :
  forall db env n body main, with_free main = true ->
    qeval db env (QWith n body main) = qeval db env (qsubst n body main).
Proof. exact cte_inline. Qed.
Print Assumptions C06_cte_inline.

(* constant folding: a closed expression and the literal of its value *)
Theorem C06_const_fold : forall r e t, closed e = true -> eval r (Lit (eval [] e) t) = eval r e.
Proof. exact const_fold. Qed.
Print Assumptions C06_const_fold.

(* an expression over columns and the same expression over literals holding the row's values *)
Theorem C06_literal_vs_column : forall r r' e, eval r' (inline r e) = eval r e.
Proof. exact literal_vs_column. Qed.
Print Assumptions C06_literal_vs_column.

(* the filter rewrites preserve each spelling's rows (C05), so equal spellings stay equal after the analyzer *)
Theorem C06_in_as_or_after_rewrite_guarded :
  forall a x l q,
    Forall (fun r => bool_ok r (In a (x :: l)) = true) q -> Forall (fun r => bool_ok r (or_chain a x l) = true) q ->
    sigma (push_not (simplify (In a (x :: l)))) q = sigma (push_not (simplify (or_chain a x l))) q.
Proof. exact in_as_or_after_rewrite. Qed.
Print Assumptions C06_in_as_or_after_rewrite_guarded.

Example C06_nonvacuous :
  let r := [VInt 2; VNull] in
  eval r (In (Col 0 TyInt) [Lit (VInt 1) TyInt; Col 1 TyInt]) = VNull /\
  eval r (or_chain (Col 0 TyInt) (Lit (VInt 1) TyInt) [Col 1 TyInt]) = VNull /\
  in_subquery (Col 0 TyInt) (Col 0 TyInt) [[VInt 1]; [VInt 2]; [VNull]] [[VInt 2]; [VNull]] = [[VInt 2]] /\
  qeval (fun _ => [[VInt 1]; [VInt 5]]) (fun _ => []) (QWith 0 (QFilter (Cmp CGt (Col 0 TyInt) (Lit (VInt 2) TyInt)) (QTable 0)) (QRef 0)) = [[VInt 5]].
Proof. vm_compute. repeat split; reflexivity. Qed.
