(* C49 — Name suggestions pick a closest candidate.
   Only statements, each closed by [exact], each followed by Print Assumptions. *)
From Coq Require Import List NArith Arith.
Import ListNotations.
From GMS Require Import Sys.SimilarText Sys.SimilarTextProofs.

(* the two-row dynamic program of distanceForStrings computes the edit distance [ed] *)
Theorem C49_dp_computes_edit_distance : forall source target, distance source target = ed source target.
Proof. exact distance_eq_ed. Qed.
Print Assumptions C49_dp_computes_edit_distance.

(* and [ed] is what it should be: the least cost of an edit script (insert = delete = 1, substitute = 2) *)
Theorem C49_ed_is_least_script_cost :
  forall a b, script a b (ed a b) /\ forall c, script a b c -> ed a b <= c.
Proof. intros a b; split; [exact (script_ed a b) | exact (ed_le_script a b)]. Qed.
Print Assumptions C49_ed_is_least_script_cost.

(* every suggested name is a candidate, is within the threshold, and no candidate is closer *)
Theorem C49_suggestions_are_closest_within_threshold :
  forall names src n, In n (find_names names src) ->
    In n names /\ ed n src < distance_skipped /\ forall n', In n' names -> ed n src <= ed n' src.
Proof. exact find_names_sound. Qed.
Print Assumptions C49_suggestions_are_closest_within_threshold.

(* every candidate at that minimal distance is suggested, in input order *)
Theorem C49_all_closest_are_suggested :
  forall names src n m, In m (find_names names src) -> In n names -> ed n src = ed m src ->
    In n (find_names names src).
Proof. exact find_names_all_minimal. Qed.
Print Assumptions C49_all_closest_are_suggested.

Theorem C49_suggestions_in_input_order :
  forall names src, exists d,
    find_names names src = [] \/ find_names names src = filter (fun n => Nat.eqb (ed n src) d) names.
Proof. exact find_names_order. Qed.
Print Assumptions C49_suggestions_in_input_order.

(* nothing is suggested exactly when no candidate is within the threshold (for a non-empty name;
   for the empty name Find returns "" unconditionally, which the property allows) *)
Theorem C49_nothing_iff_none_qualifies :
  forall names src, src <> [] ->
    (find names src = [] <-> forall n, In n names -> distance_skipped <= ed n src).
Proof.
  intros names src H. rewrite find_empty_iff. exact (find_names_none_iff names src H).
Qed.
Print Assumptions C49_nothing_iff_none_qualifies.

(* non-vacuity: a concrete call that does suggest, and one that does not *)
Example C49_nonvacuous :
  find_names [[102;111;111]; [98;97;114]; [102;111;120]]%N [102;111]%N = [[102;111;111]; [102;111;120]]%N
  /\ find_names [[98;97;114;98;97;122]]%N [102;111]%N = [].
Proof. split; vm_compute; reflexivity. Qed.
