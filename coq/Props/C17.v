(* C17 - Transactions commit or roll back exactly their own changes.
   Only statements, each closed by [exact], each followed by Print Assumptions.
   The state machine [step]/[run] (Store/C17Txn.v) mirrors engine.go beginTransaction, memory/session.go and the
   TransactionCommittingIter at statement granularity; [data], [wop], [apply] (table contents, single-table write
   statements and their effect), [mop], [mtabs], [mwrites], [mexec] (statements over several tables) are arbitrary,
   histories are arbitrary lists of (session, statement). *)
From Coq Require Import List NArith ZArith Bool.
Import ListNotations.
From GMS Require Import Store.C17Txn Store.C17TxnProofs.

(* ROLLBACK discards exactly the changes made since BEGIN / START TRANSACTION [READ ONLY].  h is ANY interleaving in
   which session s, between its BEGIN and its ROLLBACK, issues reads, writes (one table, every table registered, several
   tables), failing statements and savepoint statements while the other sessions do whatever they like.  Afterwards the
   database, every other session and everything the others observed are as if s had issued nothing in between, and s
   itself reads committed data again, in no transaction and in no READ ONLY mode. *)
Theorem C17_rollback_restores :
  forall data wop (apply : wop -> data -> option data) mop mtabs mwrites (mexec : mop -> list data -> mres data) st s b h,
    is_begin wop mop b = true -> quiet_in wop mop s h ->
    let st0 := fst (step apply mtabs mwrites mexec st s b) in
    let '(st1, rs1) := run apply mtabs mwrites mexec st0 h in
    let st2 := fst (step apply mtabs mwrites mexec st1 s Rollback) in
    let '(stR, rsR) := run apply mtabs mwrites mexec st0 (without wop mop s h) in
    (forall t, db st2 t = db stR t) /\
    (forall s', s' <> s -> sess_eq data (ss st2 s') (ss stR s')) /\
    others data wop mop s h rs1 = rsR /\
    (forall t, view st2 s t = db st2 t) /\ tx (ss st2 s) = false /\ ign (ss st2 s) = false /\ ro (ss st2 s) = false.
Proof. exact rollback_restores. Qed.
Print Assumptions C17_rollback_restores.

(* the same without other sessions: the database and the session's own view are those right after BEGIN *)
Theorem C17_rollback_restores_alone :
  forall data wop (apply : wop -> data -> option data) mop mtabs mwrites (mexec : mop -> list data -> mres data) st s b
         (qs : list (stmt wop mop)),
    is_begin wop mop b = true -> (forall q, In q qs -> quiet wop mop q = true) ->
    let st0 := fst (step apply mtabs mwrites mexec st s b) in
    let st2 := fst (step apply mtabs mwrites mexec (fst (run apply mtabs mwrites mexec st0 (map (fun q => (s, q)) qs))) s Rollback) in
    forall t, db st2 t = db st0 t /\ view st2 s t = db st0 t.
Proof. exact rollback_restores_alone. Qed.
Print Assumptions C17_rollback_restores_alone.

(* COMMIT makes the changes visible: every table the session holds (so every table it wrote) becomes the database
   content, which is exactly what the session itself saw; sessions that do not hold their own copy of the table see it;
   the session is out of its transaction and of its READ ONLY mode. *)
Theorem C17_commit_publishes :
  forall data wop (apply : wop -> data -> option data) mop mtabs mwrites (mexec : mop -> list data -> mres data) st s,
    let se := begin_tx (ss st s) in
    let st' := fst (step apply mtabs mwrites mexec st s Commit) in
    (forall t x, staged se t = Some x -> db st' t = x) /\
    (forall t, staged se t = None -> db st' t = db st t) /\
    (forall t, db st' t = view st s t) /\
    (forall s' t, s' <> s -> staged (begin_tx (ss st s')) t = None -> view st' s' t = view st s t) /\
    tx (ss st' s) = false /\ ign (ss st' s) = false /\ ro (ss st' s) = false.
Proof. exact commit_publishes. Qed.
Print Assumptions C17_commit_publishes.

(* inside an open read-write transaction a write changes the session's own view of that table by exactly the
   operation (or not at all when the statement fails) and no other table *)
Theorem C17_write_updates_own_view :
  forall data wop (apply : wop -> data -> option data) mop mtabs mwrites (mexec : mop -> list data -> mres data) st s t w,
    holding data (ss st s) -> ro (begin_tx (ss st s)) = false ->
    let st' := fst (step apply mtabs mwrites mexec st s (Write t w)) in
    view st' s t = match apply w (view st s t) with Some x => x | None => view st s t end /\
    (forall t', t' <> t -> view st' s t' = view st s t').
Proof. exact write_updates_own_view. Qed.
Print Assumptions C17_write_updates_own_view.

(* with autocommit on, each statement is committed on its own: the database changes by exactly the statement (a
   failing statement changes nothing), the session is idle again and nobody else is touched.  [idle] = no transaction
   object, ignoreAutocommit clear, autocommit on; the second conjunct is the guard that excludes the defect recorded
   below (C17_statement_after_implicit_commit_not_autocommitted_refuted). *)
Theorem C17_autocommit_each_statement :
  forall data wop (apply : wop -> data -> option data) mop mtabs mwrites (mexec : mop -> list data -> mres data) st s t w,
    idle data (ss st s) ->
    let st' := fst (step apply mtabs mwrites mexec st s (Write t w)) in
    db st' t = match apply w (db st t) with Some x => x | None => db st t end /\
    (forall t', t' <> t -> db st' t' = db st t') /\
    snd (step apply mtabs mwrites mexec st s (Write t w)) = match apply w (db st t) with Some _ => ROk | None => RErr end /\
    idle data (ss st' s) /\ (forall s', s' <> s -> ss st' s' = ss st s').
Proof. exact autocommit_each_statement. Qed.
Print Assumptions C17_autocommit_each_statement.

(* No session observes another session's uncommitted changes: in ANY history, the statements a session issues while
   the end of a statement does not commit (ignoreAutocommit set by START TRANSACTION, or autocommit off) can be deleted
   without changing any result observed by the other sessions, the database, or what the others would read next. *)
Theorem C17_no_dirty_read :
  forall data wop (apply : wop -> data -> option data) mop mtabs mwrites (mexec : mop -> list data -> mres data) st s h,
    holding data (ss st s) -> quiet_in wop mop s h ->
    let '(st1, rs1) := run apply mtabs mwrites mexec st h in
    let '(st2, rs2) := run apply mtabs mwrites mexec st (without wop mop s h) in
    others data wop mop s h rs1 = rs2 /\ (forall t, db st1 t = db st2 t) /\
    (forall s', s' <> s -> forall t, view st1 s' t = view st2 s' t).
Proof. exact no_dirty_read. Qed.
Print Assumptions C17_no_dirty_read.

(* single statement form *)
Theorem C17_uncommitted_statement_changes_nothing_global :
  forall data wop (apply : wop -> data -> option data) mop mtabs mwrites (mexec : mop -> list data -> mres data) st s q,
    holding data (ss st s) -> quiet wop mop q = true ->
    let st' := fst (step apply mtabs mwrites mexec st s q) in
    (forall t, db st' t = db st t) /\ (forall s', s' <> s -> ss st' s' = ss st s') /\ holding data (ss st' s).
Proof. exact step_quiet_holding. Qed.
Print Assumptions C17_uncommitted_statement_changes_nothing_global.

(* SAVEPOINT / ROLLBACK TO / RELEASE SAVEPOINT (rejected by the memory session): the statement fails and changes
   nothing - database, other sessions, transaction modes of the session, what the session reads next; inside an open
   transaction the whole session record stays.  The premise excludes only records that cannot exist between two
   statements (an autocommit transaction left open). *)
Theorem C17_failed_savepoint_changes_nothing :
  forall data wop (apply : wop -> data -> option data) mop mtabs mwrites (mexec : mop -> list data -> mres data) st s,
    tx (ss st s) = false \/ holding data (ss st s) ->
    let st' := fst (step apply mtabs mwrites mexec st s Savepoint) in
    snd (step apply mtabs mwrites mexec st s Savepoint) = RErr /\
    (forall t, db st' t = db st t) /\ (forall s', s' <> s -> ss st' s' = ss st s') /\
    (forall t, view st' s t = view st s t) /\
    ign (ss st' s) = ign (ss st s) /\ ac (ss st' s) = ac (ss st s) /\
    ro (begin_tx (ss st' s)) = ro (begin_tx (ss st s)) /\
    (holding data (ss st s) -> sess_eq data (ss st' s) (begin_tx (ss st s))).
Proof. exact savepoint_changes_nothing. Qed.
Print Assumptions C17_failed_savepoint_changes_nothing.

(* DDL with an implicit commit inside an open transaction (CREATE TABLE / DROP TABLE / CREATE INDEX / ALTER TABLE):
   the work of the transaction becomes the database content and is seen by the other sessions; whatever reads, writes
   and failing statements follow in ANY interleaving, a later ROLLBACK leaves the database, the other sessions and what
   they observed as if the session had issued nothing after the DDL statement - the earlier writes stay. *)
Theorem C17_ddl_commits_pending_work :
  forall data wop (apply : wop -> data -> option data) mop mtabs mwrites (mexec : mop -> list data -> mres data) st s ts h,
    holding data (ss st s) -> quiet_in wop mop s h ->
    let st1 := fst (step apply mtabs mwrites mexec st s (Ddl ts)) in
    (forall t, db st1 t = view st s t) /\
    (forall s' t, s' <> s -> staged (begin_tx (ss st s')) t = None -> view st1 s' t = view st s t) /\
    let '(st2, rs2) := run apply mtabs mwrites mexec st1 h in
    let st3 := fst (step apply mtabs mwrites mexec st2 s Rollback) in
    let '(stR, rsR) := run apply mtabs mwrites mexec st1 (without wop mop s h) in
    (forall t, db st3 t = db stR t) /\ (forall s', s' <> s -> sess_eq data (ss st3 s') (ss stR s')) /\
    others data wop mop s h rs2 = rsR.
Proof. exact ddl_commits_pending_work. Qed.
Print Assumptions C17_ddl_commits_pending_work.

(* without other sessions: after DDL; own statements; ROLLBACK the database is what the session saw before the DDL *)
Theorem C17_ddl_then_rollback_alone :
  forall data wop (apply : wop -> data -> option data) mop mtabs mwrites (mexec : mop -> list data -> mres data) st s ts
         (qs : list (stmt wop mop)),
    holding data (ss st s) -> (forall q, In q qs -> quiet wop mop q = true) ->
    let st1 := fst (step apply mtabs mwrites mexec st s (Ddl ts)) in
    let st3 := fst (step apply mtabs mwrites mexec (fst (run apply mtabs mwrites mexec st1 (map (fun q => (s, q)) qs))) s Rollback) in
    forall t, db st3 t = view st s t.
Proof. exact ddl_then_rollback_alone. Qed.
Print Assumptions C17_ddl_then_rollback_alone.

(* START TRANSACTION READ ONLY / READ WRITE: the mode ends with the transaction.  After COMMIT or ROLLBACK in ANY
   state the session has no transaction, ignoreAutocommit is clear, the next transaction starts READ WRITE and the
   next write is executed, not rejected.  (That a block START TRANSACTION READ ONLY; ...; COMMIT leaves the following
   blocks untouched is part of the serial equivalence below.) *)
Theorem C17_read_only_mode_ends_with_transaction :
  forall data wop (apply : wop -> data -> option data) mop mtabs mwrites (mexec : mop -> list data -> mres data) st s e,
    e = Commit \/ e = Rollback ->
    let st' := fst (step apply mtabs mwrites mexec st s e) in
    tx (ss st' s) = false /\ ign (ss st' s) = false /\ ro (begin_tx (ss st' s)) = false /\
    forall t w, snd (step apply mtabs mwrites mexec st' s (Write t w)) =
                match apply w (db st' t) with Some _ => ROk | None => RErr end.
Proof. exact read_only_ends. Qed.
Print Assumptions C17_read_only_mode_ends_with_transaction.

(* inside a READ ONLY transaction every DML statement (one table, every table registered, several tables) is refused
   and changes nothing: database, other sessions, the session's own reads; the transaction stays open and READ ONLY *)
Theorem C17_read_only_refuses_dml_without_effect :
  forall data wop (apply : wop -> data -> option data) mop mtabs mwrites (mexec : mop -> list data -> mres data) st s q,
    tx (ss st s) = true -> ro (ss st s) = true -> holding data (ss st s) -> is_dml wop mop mwrites q = true ->
    let st' := fst (step apply mtabs mwrites mexec st s q) in
    snd (step apply mtabs mwrites mexec st s q) = RErr /\ (forall t, db st' t = db st t) /\
    (forall s', s' <> s -> ss st' s' = ss st s') /\
    (forall t, view st' s t = view st s t) /\ tx (ss st' s) = true /\ ro (ss st' s) = true.
Proof. exact read_only_refuses_dml. Qed.
Print Assumptions C17_read_only_refuses_dml_without_effect.

(* When transactions of different sessions do not overlap in time (the history is a concatenation of blocks, by any
   sessions: single autocommit statements - reads, single- and multi-table writes, unfiltered DELETE, failing and
   savepoint statements, TRUNCATE and other DDL -, and transactions opened by START TRANSACTION [READ ONLY] or by
   SET autocommit = 0, with any such statements as body, optionally an implicit-commit statement as the last one,
   ended by COMMIT or ROLLBACK [and SET autocommit = 1]; SET autocommit = 0; body; SET autocommit = 1, which commits),
   the final database AND every statement result equal running
   the committed transactions one after another directly on the database; READ ONLY bodies have their DML rejected and
   change nothing.  Guard: no statement between an implicit commit and the end of its block (see the refutation below). *)
Theorem C17_serial_equivalence_nonoverlapping :
  forall data wop (apply : wop -> data -> option data) mop mtabs mwrites (mexec : mop -> list data -> mres data) bs st,
    all_idle data st ->
    let '(st', rs) := run apply mtabs mwrites mexec st (flat_map flatten bs) in
    (forall t, db st' t = fst (serial apply mtabs mwrites mexec (db st) bs) t) /\
    rs = snd (serial apply mtabs mwrites mexec (db st) bs) /\ all_idle data st'.
Proof. exact serial_equivalence. Qed.
Print Assumptions C17_serial_equivalence_nonoverlapping.

(* The faithful model violates "with autocommit on each successful statement is committed on its own": after
   BEGIN; INSERT; <DDL with implicit commit> the transaction is over (its work is in the database, no transaction
   object, autocommit on), yet TransactionCommittingIter.Close left ignoreAutocommit set, so the next INSERT succeeds
   without being committed and a ROLLBACK discards it.  (A single session; confirmed on the engine, finding
   implicit-commit-keeps-explicit-transaction-flag.) *)
Theorem C17_statement_after_implicit_commit_not_autocommitted_refuted :
  exists (st : state rows) s t w x,
    st = fst (crun (init tabs0) [(1%N, Begin); (1%N, Write 0%N (Ins [(2%Z, 20%Z)])); (1%N, Ddl [])]) /\
    tx (ss st s) = false /\ ac (ss st s) = true /\
    capply w (db st t) = Some x /\ x <> db st t /\
    snd (cstep st s (Write t w)) = ROk /\ db (fst (cstep st s (Write t w))) t = db st t /\
    snd (crun st [(s, Write t w); (0%N, Read t); (s, Rollback); (s, Read t)]) = [ROk; RRows (db st t); ROk; RRows (db st t)].
Proof. exact not_autocommitted_witness. Qed.
Print Assumptions C17_statement_after_implicit_commit_not_autocommitted_refuted.

(* Facts about the model OUTSIDE the property's quantifier (the histories overlap: session 2 commits inside session 1's
   open transaction, and the backend documents no isolation for overlapping writers).  COMMIT publishes every table the
   session touched, so a transaction that only READ table 0 wipes out the row another session committed meanwhile.
   Kept as documentation of the mechanism; not findings, and the implementation predicate does not demand otherwise. *)
Theorem C17_commit_republishes_read_tables_overlapping_outside_quantifier :
  exists (d0 : tid -> rows) (h : list (sid * stmt cwop cmop)),
    h = [ (1%N, Begin); (1%N, Read 0%N); (2%N, Write 0%N (Ins [(4%Z, 40%Z)])); (0%N, Read 0%N);
          (1%N, Commit); (0%N, Read 0%N) ] /\
    snd (crun (init d0) h) =
      [ ROk; RRows [(1%Z, 10%Z)]; ROk; RRows [(1%Z, 10%Z); (4%Z, 40%Z)]; ROk; RRows [(1%Z, 10%Z)] ].
Proof. exists (fun _ => [(1%Z, 10%Z)]), lost_update_history. split; [reflexivity|exact lost_update_results]. Qed.
Print Assumptions C17_commit_republishes_read_tables_overlapping_outside_quantifier.

(* An unfiltered DELETE FROM t0 registers every table of the database in the session: the first read of t1 later in the
   own transaction returns the contents at the time of the DELETE (not the row session 2 committed since), and the
   commit puts them back.  In non-overlapping histories the registration is unobservable: the serial equivalence above
   treats [RWriteAll] exactly like [RWrite]. *)
Theorem C17_unfiltered_delete_registers_every_table_overlapping_outside_quantifier :
  exists (h : list (sid * stmt cwop cmop)),
    h = [ (1%N, Begin); (1%N, WriteAll 0%N DelAll); (2%N, Write 1%N (Ins [(6%Z, 6%Z)])); (0%N, Read 1%N);
          (1%N, Read 1%N); (1%N, Commit); (0%N, Read 1%N) ] /\
    snd (crun (init tabs0) h) =
      [ ROk; ROk; ROk; RRows [(1%Z, 1%Z); (6%Z, 6%Z)]; RRows [(1%Z, 1%Z)]; ROk; RRows [(1%Z, 1%Z)] ].
Proof. exists delete_all_history. split; [reflexivity|exact delete_all_results]. Qed.
Print Assumptions C17_unfiltered_delete_registers_every_table_overlapping_outside_quantifier.

(* non-vacuity: a holding session exists; a history of every block form (explicit, READ ONLY, autocommit off with a
   savepoint statement and a DDL statement before its ROLLBACK, TRUNCATE, statements over two tables) runs serially *)
Example C17_nonvacuous :
  let st0 := fst (cstep (init tabs0) 1%N Begin) in
  holding rows (ss st0 1%N) /\ all_idle rows (init tabs0) /\
  snd (crun (init tabs0) (flat_map flatten example_blocks)) =
  [ROk; ROk; RRows [(1%Z, 10%Z); (2%Z, 20%Z)]; ROk; RRows [(1%Z, 10%Z); (2%Z, 20%Z)];
   ROk; ROk; ROk; ROk; ROk; RErr; ROk; ROk; ROk; ROk; RErr;
   RRows [(1%Z, 11%Z)]; ROk; ROk; ROk; RRows [(11%Z, 10%Z); (12%Z, 20%Z); (13%Z, 30%Z)];
   ROk; ROk; RRows [(5%Z, 50%Z)]; ROk; RRows [(5%Z, 50%Z)]].
Proof. exact nonvacuous_example. Qed.
Print Assumptions C17_nonvacuous.
