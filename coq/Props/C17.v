(* C17 - Transactions commit or roll back exactly their own changes.
   Only statements, each closed by [exact], each followed by Print Assumptions.
   The state machine [step]/[run] (Store/C17Txn.v) mirrors engine.go beginTransaction, memory/session.go and the
   TransactionCommittingIter at statement granularity; [data], [wop], [apply] (table contents, write statements and
   their effect) are arbitrary, histories are arbitrary lists of (session, statement). *)
From Coq Require Import List NArith ZArith Bool.
Import ListNotations.
From GMS Require Import Store.C17Txn Store.C17TxnProofs.

(* ROLLBACK discards exactly the changes made since BEGIN.  h is ANY interleaving in which session s, between its BEGIN
   and its ROLLBACK, issues reads, writes and failing statements while the other sessions do whatever they like.
   Afterwards the database, every other session and everything the others observed are as if s had issued nothing
   in between, and s itself reads committed data again. *)
Theorem C17_rollback_restores :
  forall data wop (apply : wop -> data -> option data) st s h,
    quiet_in wop s h ->
    let st0 := fst (step apply st s Begin) in
    let '(st1, rs1) := run apply st0 h in
    let st2 := fst (step apply st1 s Rollback) in
    let '(stR, rsR) := run apply st0 (without wop s h) in
    (forall t, db st2 t = db stR t) /\
    (forall s', s' <> s -> sess_eq data (ss st2 s') (ss stR s')) /\
    others data wop s h rs1 = rsR /\
    (forall t, view st2 s t = db st2 t) /\ tx (ss st2 s) = false /\ ign (ss st2 s) = false.
Proof. exact rollback_restores. Qed.
Print Assumptions C17_rollback_restores.

(* the same without other sessions: the database and the session's own view are those right after BEGIN *)
Theorem C17_rollback_restores_alone :
  forall data wop (apply : wop -> data -> option data) st s (qs : list (stmt wop)),
    (forall q, In q qs -> quiet wop q = true) ->
    let st0 := fst (step apply st s Begin) in
    let st2 := fst (step apply (fst (run apply st0 (map (fun q => (s, q)) qs))) s Rollback) in
    forall t, db st2 t = db st0 t /\ view st2 s t = db st0 t.
Proof. exact rollback_restores_alone. Qed.
Print Assumptions C17_rollback_restores_alone.

(* COMMIT makes the changes visible: every table the session holds (so every table it wrote) becomes the database
   content, which is exactly what the session itself saw; sessions that do not hold their own copy of the table see it;
   the session is out of its transaction. *)
Theorem C17_commit_publishes :
  forall data wop (apply : wop -> data -> option data) st s,
    let se := begin_tx (ss st s) in
    let st' := fst (step apply st s Commit) in
    (forall t x, staged se t = Some x -> db st' t = x) /\
    (forall t, staged se t = None -> db st' t = db st t) /\
    (forall t, db st' t = view st s t) /\
    (forall s' t, s' <> s -> staged (begin_tx (ss st s')) t = None -> view st' s' t = view st s t) /\
    tx (ss st' s) = false /\ ign (ss st' s) = false.
Proof. exact commit_publishes. Qed.
Print Assumptions C17_commit_publishes.

(* inside an open transaction a write changes the session's own view of that table by exactly the operation (or not
   at all when the statement fails) and no other table *)
Theorem C17_write_updates_own_view :
  forall data wop (apply : wop -> data -> option data) st s t w,
    holding data (ss st s) ->
    let st' := fst (step apply st s (Write t w)) in
    view st' s t = match apply w (view st s t) with Some x => x | None => view st s t end /\
    (forall t', t' <> t -> view st' s t' = view st s t').
Proof. exact write_updates_own_view. Qed.
Print Assumptions C17_write_updates_own_view.

(* with autocommit on, each statement is committed on its own: the database changes by exactly the statement (a
   failing statement changes nothing), the session is idle again and nobody else is touched *)
Theorem C17_autocommit_each_statement :
  forall data wop (apply : wop -> data -> option data) st s t w,
    idle data (ss st s) ->
    let st' := fst (step apply st s (Write t w)) in
    db st' t = match apply w (db st t) with Some x => x | None => db st t end /\
    (forall t', t' <> t -> db st' t' = db st t') /\
    snd (step apply st s (Write t w)) = match apply w (db st t) with Some _ => ROk | None => RErr end /\
    idle data (ss st' s) /\ (forall s', s' <> s -> ss st' s' = ss st s').
Proof. exact autocommit_each_statement. Qed.
Print Assumptions C17_autocommit_each_statement.

(* No session observes another session's uncommitted changes: in ANY history, the statements a session issues while
   it holds an open, not auto-committing transaction (explicit, or autocommit off) can be deleted without changing
   any result observed by the other sessions, the database, or what the others would read next. *)
Theorem C17_no_dirty_read :
  forall data wop (apply : wop -> data -> option data) st s h,
    holding data (ss st s) -> quiet_in wop s h ->
    let '(st1, rs1) := run apply st h in
    let '(st2, rs2) := run apply st (without wop s h) in
    others data wop s h rs1 = rs2 /\ (forall t, db st1 t = db st2 t) /\
    (forall s', s' <> s -> forall t, view st1 s' t = view st2 s' t).
Proof. exact no_dirty_read. Qed.
Print Assumptions C17_no_dirty_read.

(* single statement form *)
Theorem C17_uncommitted_statement_changes_nothing_global :
  forall data wop (apply : wop -> data -> option data) st s q,
    holding data (ss st s) -> quiet wop q = true ->
    let st' := fst (step apply st s q) in
    (forall t, db st' t = db st t) /\ (forall s', s' <> s -> ss st' s' = ss st s') /\ holding data (ss st' s).
Proof. exact step_quiet_holding. Qed.
Print Assumptions C17_uncommitted_statement_changes_nothing_global.

(* When transactions of different sessions do not overlap in time (the history is a concatenation of blocks: single
   autocommit statements and BEGIN; body; COMMIT|ROLLBACK, by any sessions), the final database AND every statement
   result equal running the committed transactions one after another directly on the database. *)
Theorem C17_serial_equivalence_nonoverlapping :
  forall data wop (apply : wop -> data -> option data) bs st,
    all_idle data st ->
    let '(st', rs) := run apply st (flat_map flatten bs) in
    (forall t, db st' t = fst (serial apply (db st) bs) t) /\ rs = snd (serial apply (db st) bs) /\ all_idle data st'.
Proof. exact serial_equivalence. Qed.
Print Assumptions C17_serial_equivalence_nonoverlapping.

(* A fact about the model OUTSIDE the property's quantifier (the history overlaps: session 2 commits inside session 1's
   open transaction, and the backend documents no isolation for overlapping writers): COMMIT publishes every table the
   session touched, so a transaction that only READ table 0 wipes out the row another session committed meanwhile.
   Kept as documentation of the mechanism; it is not a finding and the implementation predicate does not demand it. *)
Theorem C17_commit_republishes_read_tables_overlapping_outside_quantifier :
  exists (d0 : tid -> rows) (h : list (sid * stmt cwop)),
    h = [ (1%N, Begin); (1%N, Read 0%N); (2%N, Write 0%N (Ins [(4%Z, 40%Z)])); (0%N, Read 0%N);
          (1%N, Commit); (0%N, Read 0%N) ] /\
    snd (run capply (init d0) h) =
      [ ROk; RRows [(1%Z, 10%Z)]; ROk; RRows [(1%Z, 10%Z); (4%Z, 40%Z)]; ROk; RRows [(1%Z, 10%Z)] ].
Proof. exists (fun _ => [(1%Z, 10%Z)]), lost_update_history. split; [reflexivity|exact lost_update_results]. Qed.
Print Assumptions C17_commit_republishes_read_tables_overlapping_outside_quantifier.

(* non-vacuity: a holding session exists and its write stays private; a committed block history runs serially *)
Example C17_nonvacuous :
  let st0 := fst (step capply (init (fun _ => [(1%Z, 10%Z)])) 1%N Begin) in
  holding rows (ss st0 1%N) /\ all_idle rows (init (fun _ : tid => [(1%Z, 10%Z)])) /\
  snd (run capply (init (fun _ => [(1%Z, 10%Z)]))
         (flat_map flatten [Txn 1%N [RWrite 0%N (Ins [(2%Z, 20%Z)]); RRead 0%N] true; Auto 2%N (RRead 0%N);
                            Txn 2%N [RWrite 0%N (DelKey 1%Z)] false; Auto 1%N (RRead 0%N)])) =
  [ROk; ROk; RRows [(1%Z, 10%Z); (2%Z, 20%Z)]; ROk; RRows [(1%Z, 10%Z); (2%Z, 20%Z)]; ROk; ROk; ROk;
   RRows [(1%Z, 10%Z); (2%Z, 20%Z)]].
Proof. exact nonvacuous_example. Qed.
Print Assumptions C17_nonvacuous.
