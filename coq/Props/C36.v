(* C36 — Concurrent read-only sessions are isolated and the registries stay consistent.
   Model: Sys/C36ReadOnly.v (interleavings of private evaluation micro-steps that only read the database,
   atomic process-list steps of the C37 model, atomic status-counter increments).  The theorems quantify over
   EVERY interleaving (any list of (session, action) pairs) and over every database type, private-state type
   and evaluation step function.  Data-race freedom of the Go code is NOT a theorem (see props/C36.json).
   Only statements, each closed by [exact], each followed by Print Assumptions. *)
From Coq Require Import List NArith ZArith Permutation.
Import ListNotations.
From GMS Require Import Sys.ProcessList Sys.ProcessListProofs Sys.C36ReadOnly Sys.C36Eval Sys.C36MemMgr.
Open Scope N_scope.

(* no step of a read-only workload changes the database value *)
Theorem C36_database_never_written :
  forall (DB loc : Type) (lstep : DB -> N -> loc -> loc) g l,
  gdb DB loc (exec DB loc lstep g l) = gdb DB loc g.
Proof. exact db_never_written. Qed.
Print Assumptions C36_database_never_written.

(* non-interference: under every interleaving a session computes exactly what it computes when its own
   actions run alone (same private state, hence the same query results) *)
Theorem C36_readonly_noninterference :
  forall (DB loc : Type) (lstep : DB -> N -> loc -> loc) g l i,
  gloc DB loc (exec DB loc lstep g l) i = gloc DB loc (exec DB loc lstep g (mine i l)) i.
Proof. exact readonly_noninterference. Qed.
Print Assumptions C36_readonly_noninterference.

(* status counters: the value is the sum of the increments, whatever the schedule *)
Theorem C36_counter_schedule_independent :
  forall (DB loc : Type) (lstep : DB -> N -> loc -> loc) g l l',
  Permutation l l' -> gctr DB loc (exec DB loc lstep g l) = gctr DB loc (exec DB loc lstep g l').
Proof. exact counter_schedule_independent. Qed.
Print Assumptions C36_counter_schedule_independent.

Theorem C36_counter_is_sum :
  forall (DB loc : Type) (lstep : DB -> N -> loc -> loc) g l,
  gctr DB loc (exec DB loc lstep g l) = (gctr DB loc g + total l)%Z.
Proof. exact counter_is_sum. Qed.
Print Assumptions C36_counter_is_sum.

(* process list and thread counters: for every interleaving whose merged process-list history follows the
   call discipline of C37, Threads_connected / Threads_running equal the numbers of sessions / running
   queries of that history, and once every session has disconnected the list is empty and both are zero *)
Theorem C36_registry_consistent :
  forall (DB loc : Type) (lstep : DB -> N -> loc -> loc) g l sp,
  greg DB loc g = init -> srun sinit (events l) = Some sp ->
  let s := greg DB loc (exec DB loc lstep g l) in
  tc s = cnt anyv (sess sp) /\ tr s = cnt is_squery (sess sp) /\
  (sess sp = [] -> processes s = [] /\ tc s = 0%Z /\ tr s = 0%Z).
Proof. exact registry_consistent. Qed.
Print Assumptions C36_registry_consistent.

(* the same with an explicit evaluator (Sys/C36Eval.v): a query is a function [eval] of the database value (filter /
   project / COUNT / SUM over a bag of rows); a session runs its queries with a cursor that reads one row of the
   shared database per step.  In EVERY interleaving in which session i gets enough of its own steps — whatever the
   other sessions, the process list and the counters do in between — it ends with exactly the meaning of its queries,
   and the database is unchanged *)
Theorem C36_readonly_sessions_compute_eval :
  forall (g : gstate DB loc) l i qs,
  gloc DB loc g i = mkLoc qs None [] ->
  (length qs * (length (gdb DB loc g) + 2) <= nlocal i l)%nat ->
  gloc DB loc (exec DB loc lstep g l) i = mkLoc [] None (map (fun q => eval q (gdb DB loc g)) qs) /\
  gdb DB loc (exec DB loc lstep g l) = gdb DB loc g.
Proof. exact readonly_sessions_compute_eval. Qed.
Print Assumptions C36_readonly_sessions_compute_eval.

(* the shared cache registry of the memory manager (sql/memory.go addCache / removeCache): for every interleaving in
   which each dispose function is called once, live positions are distinct, the next position is not live,
   NumCaches = adds - removes, and after the last disposal the registry is empty with the token back at 0 *)
Theorem C36_cache_registry_consistent :
  forall es, mwf minit es ->
  let s := mrun minit es in
  NoDup (live s) /\ ~ In (tok s + 1) (live s) /\
  Z.of_nat (length (live s)) = (adds es - rems es)%Z /\
  (adds es = rems es -> live s = [] /\ tok s = 0).
Proof. exact cache_registry_consistent. Qed.
Print Assumptions C36_cache_registry_consistent.

(* non-vacuity: two sessions with two and one queries, canonical schedule: accepted by the discipline,
   registries back to the initial values *)
Example C36_nonvacuous :
  exists sp, srun sinit (all_events 1 [2%nat; 1%nat]) = Some sp /\ sess sp = [] /\
             length (all_events 1 [2%nat; 1%nat]) = 17%nat /\
             tc (run init (all_events 1 [2%nat; 1%nat])) = 0%Z.
Proof. eexists. vm_compute. repeat split. Qed.
Print Assumptions C36_nonvacuous.
