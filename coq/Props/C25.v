(* C25 — Integer and decimal arithmetic is exact or reports out-of-range.
   Only statements, each closed by [exact], each followed by Print Assumptions.
   Model: Codec/C25Arith.v (Go's fixed-width operators as Z reduced into the type's range). *)
From Coq Require Import ZArith Bool List.
Import ListNotations.
From GMS Require Import Codec.C25Arith Codec.C25ArithProofs Codec.C25Nested Codec.C25NestedProofs.
Open Scope Z_scope.

(* Target statement "eval (a op b) = RInt t v -> v = a op b" is FALSE of the faithful model: + - * use Go's
   wrapping operators on int64 / uint64.  Witnesses (operands of legal range, a silently different value): *)
Theorem C25_plus_int64_refuted :
  silently_wrong Plus (OInt I64 9223372036854775807) (OInt I8 1) (9223372036854775807 + 1).
Proof. exact plus_int64_wraps. Qed.
Print Assumptions C25_plus_int64_refuted.

Theorem C25_minus_int64_refuted :
  silently_wrong Minus (OInt I64 (-9223372036854775808)) (OInt I8 1) (-9223372036854775808 - 1).
Proof. exact minus_int64_wraps. Qed.
Print Assumptions C25_minus_int64_refuted.

Theorem C25_mult_int64_refuted :
  silently_wrong Mult (OInt I64 4611686018427387904) (OInt I8 4) (4611686018427387904 * 4).
Proof. exact mult_int64_wraps. Qed.
Print Assumptions C25_mult_int64_refuted.

Theorem C25_plus_uint64_refuted :
  silently_wrong Plus (OInt U64 18446744073709551615) (OInt U64 1) (18446744073709551615 + 1).
Proof. exact plus_uint64_wraps. Qed.
Print Assumptions C25_plus_uint64_refuted.

Theorem C25_minus_uint64_refuted : silently_wrong Minus (OInt U8 0) (OInt U16 1) (0 - 1).
Proof. exact minus_uint64_wraps. Qed.
Print Assumptions C25_minus_uint64_refuted.

Theorem C25_mult_uint64_refuted :
  silently_wrong Mult (OInt U64 4294967296) (OInt U64 4294967296) (4294967296 * 4294967296).
Proof. exact mult_uint64_wraps. Qed.
Print Assumptions C25_mult_uint64_refuted.

(* BIGINT UNSIGNED op signed: the unsigned operand is clamped to MaxInt64 first; wrong even when the exact
   result fits BIGINT (18446744073709551615 + 0 = 9223372036854775807) *)
Theorem C25_mixed_sign_operand_clamp_refuted :
  silently_wrong Plus (OInt U64 18446744073709551615) (OInt I8 0) 18446744073709551615 /\
  silently_wrong Plus (OInt U64 18446744073709551615) (OInt I64 (-9223372036854775808))
                      (18446744073709551615 + -9223372036854775808).
Proof. exact (conj plus_mixed_clamps_zero plus_mixed_clamps). Qed.
Print Assumptions C25_mixed_sign_operand_clamp_refuted.

(* unary minus of an unsigned value is computed in the signed type of the same width: -(200) = 56 *)
Theorem C25_neg_unsigned_refuted :
  silently_wrong Neg (OInt U8 200) ONull (- 200) /\
  silently_wrong Neg (OInt U32 4294967295) ONull (- 4294967295) /\
  silently_wrong Neg (OInt U64 18446744073709551615) ONull (- 18446744073709551615).
Proof. exact (conj neg_uint8_wraps (conj neg_uint32_wraps neg_uint64_wraps)). Qed.
Print Assumptions C25_neg_unsigned_refuted.

(* -9223372036854775808 DIV -1 = -9223372036854775808 *)
Theorem C25_intdiv_minint_refuted :
  silently_wrong IntDiv (OInt I64 (-9223372036854775808)) (OInt I8 (-1)) (Z.quot (-9223372036854775808) (-1)).
Proof. exact intdiv_minint_wraps. Qed.
Print Assumptions C25_intdiv_minint_refuted.

(* What does hold: + - * on integers of every width / signedness are exact whenever the operands and the
   mathematical result fit the result type (BIGINT UNSIGNED if both are unsigned, else BIGINT). *)
Theorem C25_int_op_exact_when_in_range_unsigned :
  forall o tl a tr b, is_arith o -> unsigned tl = true -> unsigned tr = true -> in_range tl a -> in_range tr b ->
    0 <= zop o a b <= max_u64 ->
    eval o false 0 (OInt tl a) (OInt tr b) = RInt U64 (zop o a b).
Proof. exact eval_unsigned_exact_when_fits. Qed.
Print Assumptions C25_int_op_exact_when_in_range_unsigned.

Theorem C25_int_op_exact_when_in_range_signed :
  forall o tl a tr b, is_arith o -> unsigned tl && unsigned tr = false -> in_range tl a -> in_range tr b ->
    a <= max_i64 -> b <= max_i64 -> min_i64 <= zop o a b <= max_i64 ->
    eval o false 0 (OInt tl a) (OInt tr b) = RInt I64 (zop o a b).
Proof. exact eval_signed_exact_when_fits. Qed.
Print Assumptions C25_int_op_exact_when_in_range_signed.

(* and in every case the BIGINT result is the exact value of the converted operands modulo 2^64 *)
Theorem C25_int_op_congruent_mod_2_64 :
  forall o tl a tr b, unsigned tl && unsigned tr = false ->
    exists v, arith o (OInt tl a) (OInt tr b) = RInt I64 v /\
              (v - zop o (conv_i64 (OInt tl a)) (conv_i64 (OInt tr b))) mod two64 = 0.
Proof. exact arith_signed_congruent. Qed.
Print Assumptions C25_int_op_congruent_mod_2_64.

(* unary minus: exact on every signed width; the most negative BIGINT gives an out-of-range error (or the
   exact decimal for a literal); decimals exact; unsigned exact while -z fits the narrow signed carrier *)
Theorem C25_neg_signed_exact :
  forall lit t z, unsigned t = false -> in_range t z -> z <> min_i64 -> eval Neg lit 0 (OInt t z) ONull = RInt I64 (- z).
Proof. exact neg_signed_exact. Qed.
Print Assumptions C25_neg_signed_exact.

Theorem C25_neg_minint_error_or_exact_decimal :
  forall lit, eval Neg lit 0 (OInt I64 min_i64) ONull = if lit then RDec (- min_i64) 0 else RErr.
Proof. exact neg_minint. Qed.
Print Assumptions C25_neg_minint_error_or_exact_decimal.

Theorem C25_neg_unsigned_exact_when_fits :
  forall lit t z, unsigned t = true -> 0 <= z < neg_carrier_half t ->
    eval Neg lit 0 (OInt t z) ONull = RInt (neg_carrier t) (- z).
Proof. exact neg_unsigned_exact_when_fits. Qed.
Print Assumptions C25_neg_unsigned_exact_when_fits.

(* DECIMAL + - * are exact for all coefficients and scales (value of (m, s) is m / 10^s; equalities are
   cross-multiplied); an integer operand enters as (z, 0) *)
Theorem C25_decimal_exact_within_precision :
  forall m1 s1 m2 s2, 0 <= s1 -> 0 <= s2 ->
    (exists m s, dec_arith Plus (m1, s1) (m2, s2) = RDec m s /\ 0 <= s /\
                 m * 10 ^ (s1 + s2) = (m1 * 10 ^ s2 + m2 * 10 ^ s1) * 10 ^ s) /\
    (exists m s, dec_arith Minus (m1, s1) (m2, s2) = RDec m s /\ 0 <= s /\
                 m * 10 ^ (s1 + s2) = (m1 * 10 ^ s2 - m2 * 10 ^ s1) * 10 ^ s) /\
    dec_arith Mult (m1, s1) (m2, s2) = RDec (m1 * m2) (s1 + s2) /\
    (forall lit, eval Neg lit 0 (ODec m1 s1) ONull = RDec (- m1) s1).
Proof. exact decimal_exact_all. Qed.
Print Assumptions C25_decimal_exact_within_precision.

Theorem C25_decimal_path_taken :
  forall o l r, is_arith o -> is_null l = false -> is_null r = false -> is_int l && is_int r = false ->
    eval o false 0 l r = dec_arith o (to_dec l) (to_dec r).
Proof. exact eval_decimal_path. Qed.
Print Assumptions C25_decimal_path_taken.

(* x DIV 0, x % 0, x / 0 are NULL for every operand shape *)
Theorem C25_div_by_zero_null :
  forall o lit ldecl l r, o = IntDiv \/ o = Mod \/ o = Div -> is_zero r -> eval o lit ldecl l r = RNull.
Proof. exact div_by_zero_null. Qed.
Print Assumptions C25_div_by_zero_null.

(* DIV returns the quotient truncated toward zero ([Z.quot], characterised below) of the exact operand
   values num/10^scl, or NULL / an error, except for the one wrapping case refuted above *)
Theorem C25_intdiv_truncates_toward_zero :
  forall l r t q, operand_ok l -> operand_ok r -> eval IntDiv false 0 l r = RInt t q -> ~ minint_by_minus_one l r ->
    q = Z.quot (num l * 10 ^ scl r) (num r * 10 ^ scl l).
Proof. exact intdiv_truncates. Qed.
Print Assumptions C25_intdiv_truncates_toward_zero.

(* % returns the remainder of that truncated division (sign of the dividend), at scale max(s1, s2) *)
Theorem C25_mod_sign_of_dividend :
  forall l r m s, operand_ok l -> operand_ok r -> eval Mod false 0 l r = RDec m s ->
    s = Z.max (scl l) (scl r) /\ m = Z.rem (num l * 10 ^ (s - scl l)) (num r * 10 ^ (s - scl r)).
Proof. exact modulo_is_rem. Qed.
Print Assumptions C25_mod_sign_of_dividend.

Theorem C25_quot_rem_are_truncation :
  forall n d, d <> 0 ->
    n = d * Z.quot n d + Z.rem n d /\ Z.abs (Z.rem n d) < Z.abs d /\ (Z.rem n d = 0 \/ Z.sgn (Z.rem n d) = Z.sgn n).
Proof. exact quot_rem_truncation. Qed.
Print Assumptions C25_quot_rem_are_truncation.

(* / : the result has scale f = min(30, left scale + 4) and, whenever the working scale exceeds f, its
   coefficient is an integer nearest to the exact quotient scaled by 10^f *)
Theorem C25_div_correctly_rounded :
  forall ldecl l r res f, operand_ok l -> operand_ok r -> 0 <= ldecl -> eval Div false ldecl l r = RDec res f ->
    let '(m1, s1) := lpad ldecl (to_dec l) in
    let '(m2, s2) := to_dec r in
    f = div_final_scale s1 /\
    (f < div_work_scale s1 s2 ->
     2 * Z.abs (res * (m2 * 10 ^ s1) - m1 * 10 ^ (s2 + f)) <= Z.abs (m2 * 10 ^ s1)).
Proof. exact divide_correctly_rounded. Qed.
Print Assumptions C25_div_correctly_rounded.

(* without that guard the statement is false: when left scale + 4 is a multiple of 9 the truncated working
   quotient is returned unrounded, e.g. 123.45600 / 7 = 17.636571428 (exact 17.636571428571...) *)
Theorem C25_div_rounding_refuted :
  eval Div false 5 (ODec 12345600 5) (OInt I8 7) = RDec 17636571428 9 /\
  div_final_scale 5 = div_work_scale 5 0 /\
  ~ (2 * Z.abs (17636571428 * (7 * 10 ^ 5) - 12345600 * 10 ^ (0 + 9)) <= Z.abs (7 * 10 ^ 5)).
Proof. exact divide_truncates_witness. Qed.
Print Assumptions C25_div_rounding_refuted.

(* ABS / SIGN (function/absval.go, function/math.go) *)
Theorem C25_abs_exact_unless_minimum :
  forall t z, in_range t z ->
    (unsigned t = true -> eval Abs false 0 (OInt t z) ONull = RInt (go_carrier t) z) /\
    (unsigned t = false -> z <> - carrier_half t -> eval Abs false 0 (OInt t z) ONull = RInt (go_carrier t) (Z.abs z)).
Proof. exact abs_exact. Qed.
Print Assumptions C25_abs_exact_unless_minimum.

Theorem C25_abs_minimum_refuted :
  eval Abs false 0 (OInt I8 (-128)) ONull = RInt I8 (-128) /\ eval Abs false 0 (OInt I64 min_i64) ONull = RInt I64 min_i64.
Proof. exact abs_minimum_wraps. Qed.
Print Assumptions C25_abs_minimum_refuted.

Theorem C25_sign_integer_exact : forall t z, eval Sign false 0 (OInt t z) ONull = RInt I8 (Z.sgn z).
Proof. exact sign_integer_exact. Qed.
Print Assumptions C25_sign_integer_exact.

(* SIGN(0.4) = 0: the decimal is rounded to an integer before its sign is taken *)
Theorem C25_sign_decimal_refuted :
  eval Sign false 0 (ODec 4 1) ONull = RInt I8 0 /\ eval Sign false 0 (ODec (-4) 1) ONull = RInt I8 0 /\
  eval Sign false 0 (ODec 5 1) ONull = RInt I8 1.
Proof. exact sign_decimal_rounds. Qed.
Print Assumptions C25_sign_decimal_refuted.

(* ---- nested arithmetic (model: Codec/C25Nested.v; static types propagate bottom-up and decide the conversions) ---- *)
(* trees of + - * of any depth over signed integer leaves of any width: if EVERY subexpression's exact value fits
   BIGINT, the engine returns the exact value *)
Theorem C25_nested_int_exact_when_every_subexpression_fits :
  forall e, signed_tree e -> fits e -> min_i64 <= zval e <= max_i64 -> exists t, neval e = RInt t (zval e).
Proof. exact nested_signed_exact. Qed.
Print Assumptions C25_nested_int_exact_when_every_subexpression_fits.

(* ... and the guard on the intermediates is needed: ((9223372036854775807 + 1) * 2) - 5 evaluates to -5 *)
Theorem C25_nested_intermediate_overflow_refuted :
  let e := EBin Minus (EBin Mult (EBin Plus (ELeaf false 0 (OInt I64 9223372036854775807)) (ELeaf true 0 (OInt I8 1)))
                                 (ELeaf true 0 (OInt I8 2))) (ELeaf true 0 (OInt I8 5)) in
  neval e = RInt I64 (-5) /\ zval e = 18446744073709551611.
Proof. exact nested_intermediate_overflow. Qed.
Print Assumptions C25_nested_intermediate_overflow_refuted.

Theorem C25_nested_error_and_null_absorbing :
  forall o l r,
    (ev l = RErr -> ev (EBin o l r) = RErr) /\
    (ev l <> RErr -> ev r = RErr -> ev (EBin o l r) = RErr) /\
    (ev l <> RErr -> ev r <> RErr -> (ev l = RNull \/ ev r = RNull) -> ev (EBin o l r) = RNull).
Proof. exact nested_error_and_null_absorbing. Qed.
Print Assumptions C25_nested_error_and_null_absorbing.

Example C25_nested_division_nonvacuous :
  neval (EBin Div (EBin Div (ELeaf true 0 (OInt I8 10)) (ELeaf true 0 (OInt I8 4))) (ELeaf true 0 (OInt I8 2)))
    = RDec 125000000 8 /\
  neval (EBin Plus (EBin Div (ELeaf true 0 (OInt I8 1)) (ELeaf true 0 (OInt I8 3)))
                   (EBin Div (EBin Div (ELeaf true 0 (OInt I8 7)) (ELeaf true 0 (OInt I8 2))) (ELeaf true 0 (OInt I8 3))))
    = RDec 150000000 8 /\
  neval (EBin Div (ELeaf true 0 (OInt I8 1)) (EBin IntDiv (ELeaf true 0 (OInt I8 7)) (ELeaf true 0 (OInt I8 0)))) = RNull /\
  neval (ENeg (EBin Div (ELeaf true 0 (OInt I8 2)) (ELeaf true 0 (OInt I8 3)))) = RDec (-6667) 4.
Proof. exact nested_division_examples. Qed.
Print Assumptions C25_nested_division_nonvacuous.

(* non-vacuity: concrete evaluations that meet the hypotheses of the guarded theorems *)
Example C25_nonvacuous :
  eval Plus false 0 (OInt I64 9223372036854775806) (OInt I8 1) = RInt I64 9223372036854775807 /\
  eval Mult false 0 (OInt U32 4294967295) (OInt U32 4294967295) = RInt U64 18446744065119617025 /\
  eval Minus false 0 (OInt U64 5) (OInt I8 6) = RInt I64 (-1) /\
  eval IntDiv false 0 (OInt I8 (-7)) (OInt I8 2) = RInt I64 (-3) /\
  eval IntDiv false 0 (ODec 15 1) (ODec 4 1) = RInt I64 3 /\
  eval Mod false 0 (OInt I8 (-7)) (OInt I8 3) = RDec (-1) 0 /\
  eval Mod false 0 (ODec (-15) 1) (ODec 4 1) = RDec (-3) 1 /\
  eval Div false 0 (OInt I8 2) (OInt I8 3) = RDec 6667 4 /\
  eval Div false 0 (OInt I8 (-2)) (OInt I8 3) = RDec (-6667) 4 /\
  eval Neg false 0 (OInt U8 127) ONull = RInt I8 (-127) /\
  eval Plus false 0 (ODec 15 1) (ODec 225 2) = RDec 375 2.
Proof. exact nonvacuous_evals. Qed.
Print Assumptions C25_nonvacuous.
