(* C29 — Collation comparison is a total preorder coherent with hashing.
   Only statements, each closed by [exact], each followed by Print Assumptions.
   Model: Codec/Collation.v (StringType.Compare loop, WriteWeightString), parametric in the rune weight function
   w : rune -> int32 of the collation; every theorem holds for EVERY w.  [bin] selects the binary collation's
   byte-wise NextRune / raw weight string.  Facts about a particular collation's table (w ignores case, w is
   strictly monotone) are explicit hypotheses; the Go driver validates them on the real tables. *)
From Coq Require Import List NArith ZArith.
Import ListNotations.
From GMS Require Import Codec.Charset Codec.Collation Codec.CollationProofs Codec.CollationLike Codec.CollationLikeComplete.

(* total preorder: reflexive, total (the converse comparison is the opposite), transitive *)
Theorem C29_compare_reflexive : forall (w : N -> Z) bin a, compare w bin a a = Eq.
Proof. exact compare_refl. Qed.
Print Assumptions C29_compare_reflexive.

Theorem C29_compare_total : forall (w : N -> Z) bin a b, compare w bin b a = CompOpp (compare w bin a b).
Proof. exact compare_opp. Qed.
Print Assumptions C29_compare_total.

Theorem C29_compare_transitive :
  forall (w : N -> Z) bin a b c, compare w bin a b <> Gt -> compare w bin b c <> Gt -> compare w bin a c <> Gt.
Proof. exact compare_trans. Qed.
Print Assumptions C29_compare_transitive.

(* equal exactly when the collation weight strings are equal (weights are int32 in the code) *)
Theorem C29_equal_iff_weight_strings_equal :
  forall (w : N -> Z) a b, (forall r, int32 (w r)) ->
    (compare w false a b = Eq <-> weight_string w false a = weight_string w false b).
Proof. exact compare_eq_iff_weight_string. Qed.
Print Assumptions C29_equal_iff_weight_strings_equal.

Theorem C29_equal_iff_weight_strings_equal_binary :
  forall (w : N -> Z) a b, (forall x y, w x = w y -> x = y) ->
    (compare w true a b = Eq <-> weight_string w true a = weight_string w true b).
Proof. exact compare_eq_iff_weight_string_binary. Qed.
Print Assumptions C29_equal_iff_weight_strings_equal_binary.

(* hence equal hashes, for every hash function of the weight string (xxhash in the code) *)
Theorem C29_equal_strings_have_equal_hashes :
  forall (w : N -> Z) (H : Type) (hash : list N -> H) a b, (forall r, int32 (w r)) ->
    compare w false a b = Eq -> hash (weight_string w false a) = hash (weight_string w false b).
Proof.
  exact (fun w H hash a b Hr Heq =>
    equal_strings_hash_equal w hash false a b (proj1 (compare_eq_iff_weight_string w a b Hr) Heq)).
Qed.
Print Assumptions C29_equal_strings_have_equal_hashes.

(* binary (_bin) collations: a strictly monotone weight function orders strings by code point *)
Theorem C29_monotone_weights_order_by_code_point :
  forall (w : N -> Z) bin a b, (forall r1 r2, (r1 < r2)%N -> (w r1 < w r2)%Z) ->
    compare w bin a b = lexcmp (map Z.of_N (runes bin a)) (map Z.of_N (runes bin b)).
Proof. exact monotone_orders_by_code_point. Qed.
Print Assumptions C29_monotone_weights_order_by_code_point.

(* case-insensitive collations: if w gives a rune and its case-mapped form the same weight, rune strings that
   differ only by the case mapping compare equal *)
Theorem C29_case_mapping_equated :
  forall (w : N -> Z) (lower : N -> N) rs, (forall r, w (lower r) = w r) ->
    lexcmp (map w (map lower rs)) (map w rs) = Eq.
Proof. exact case_mapping_equated. Qed.
Print Assumptions C29_case_mapping_equated.

(* LIKE (expression/like.go LikeMatcher.Match, modelled in Codec/CollationLike.v as the backtracking machine over
   pattern nodes and rune weights): a non-empty pattern without wildcards, whose runes have non-negative weights,
   matches a string exactly when Compare equates the string with the pattern text -- LIKE honours the collation.
   _partial: patterns WITH wildcards are modelled and tied to the code but their agreement with the declarative
   meaning of LIKE is not proved (checked on the implementation against an independent matcher). *)
Theorem C29_like_without_wildcards_iff_compare_equal_partial :
  forall (w : N -> Z) (a p : list N) fuel,
    Forall (fun so => (0 <= so)%Z) (weights w false p) -> weights w false p <> [] ->
    (length (weights w false p) < fuel)%nat ->
    (like_match fuel (map NRune (weights w false p)) (map Good (weights w false a)) = Some true <->
     compare w false a p = Eq).
Proof. exact like_literal_iff_compare_eq. Qed.
Print Assumptions C29_like_without_wildcards_iff_compare_equal_partial.

(* patterns WITH wildcards: the backtracking machine never accepts a string outside the declarative meaning of the
   pattern ('%' any sequence of runes, '_' one rune, a literal one rune of equal weight), whatever the weights and the
   fuel, also on strings containing malformed runes.  _partial only in that it is the soundness half; the full
   equivalence for well-formed strings is the next theorem. *)
Theorem C29_like_match_sound_partial :
  forall fuel nodes s, like_match fuel nodes s = Some true -> dlike nodes s = true.
Proof. exact like_match_sound. Qed.
Print Assumptions C29_like_match_sound_partial.

(* ... and on strings without malformed runes the machine's answer, whenever it finishes within its fuel, IS the
   declarative meaning of the pattern: '%' any sequence of runes, '_' one rune, a literal one rune of equal weight -
   for every weight assignment (soundness and completeness; the proof carries the depth-first-search history of the
   backtracking stack).  Termination within a computed fuel bound is not proved (the statement excludes running out). *)
Theorem C29_like_match_equals_declarative_meaning :
  forall fuel nodes ws r, like_match fuel nodes (map Good ws) = Some r -> r = dlike nodes (map Good ws).
Proof. exact like_match_correct. Qed.
Print Assumptions C29_like_match_equals_declarative_meaning.

Example C29_like_nonvacuous :
  (like_match 100 [NRune 72; NRune (-1); NRune 76; NAny; NRune 79] (map Good [72; 69; 76; 76; 79]) = Some true /\
   like_match 100 [NAny; NRune 66; NAny; NRune 67; NAny] (map Good [65; 88; 66; 88; 67]) = Some true /\
   like_match 100 [NAny; NRune 66] (map Good [66; 65]) = Some false /\
   like_match 100 [NAny] [Good 1; Bad] = Some false /\ like_match 100 [] [] = Some true)%Z.
Proof. exact like_examples. Qed.
Print Assumptions C29_like_nonvacuous.

(* non-vacuity: decoding (2-, 3-, 4-byte characters, an invalid byte), little-endian weights, an ASCII
   case-folding weight function *)
Example C29_nonvacuous :
  (runes false [97; 195; 169; 230; 151; 165; 240; 159; 152; 128; 255; 65] = [97; 233; 26085; 128512; 65533; 65] /\
   runes true [97; 195; 169] = [97; 195; 169] /\
   le32 (-2)%Z = [254; 255; 255; 255] /\ le32 513%Z = [1; 2; 0; 0])%N /\
  (compare ascii_ci_weight false [97; 66; 99] [65; 98; 67] = Eq /\ compare ascii_ci_weight false [97] [97; 97] = Lt /\
   compare ascii_ci_weight false [98] [65; 65] = Gt /\
   weight_string ascii_ci_weight false [97; 66] = [65; 0; 0; 0; 66; 0; 0; 0])%N.
Proof. exact (conj runes_examples ci_example). Qed.
Print Assumptions C29_nonvacuous.
