(* C09 — Result values conform to the result schema.
   Only statements, each closed by [exact], each followed by Print Assumptions.
   [type_of]/[nullable] are the type and nullability the engine reports for an expression (columns, literals, unary minus,
   + - * DIV %, comparisons, AND/OR/NOT, IS NULL, IN, BETWEEN, CASE, NULLIF, IFNULL, COALESCE, IF, GREATEST/LEAST, CAST,
   CONCAT/UPPER/SUBSTRING/LENGTH); [eval] its value on a row; [well_typed] the guard that excludes the typing rules of the
   code that are refuted below; [schema_of false] / [schema_of true] the result schema of a relational statement under
   the rules of the code / the rules under which the property holds. *)
From Coq Require Import List ZArith Bool.
Import ListNotations.
From GMS Require Import Expr.C09Typing Expr.C09TypingProofs Rel.C09Rel Rel.C09Witness.
Open Scope Z_scope.

(* every value an expression returns is a valid value of the type reported for it *)
Theorem C09_eval_has_type : forall s r e x,
  conforms s r = true -> well_typed s e = true -> eval s r e = Ok x -> has_type (type_of s e) x = true.
Proof. exact eval_has_type. Qed.
Print Assumptions C09_eval_has_type.

(* an expression reported NOT NULL never evaluates to NULL — for EVERY expression of the language, no guard *)
Theorem C09_not_null_sound : forall s r e,
  conforms s r = true -> nullable s e = false -> eval s r e <> Ok VNull.
Proof. exact not_null_sound. Qed.
Print Assumptions C09_not_null_sound.

(* projections: every produced row conforms to the reported result schema (type and NOT NULL, column by column) *)
Theorem C09_project_conforms : forall s r, conforms s r = true -> forall es out,
  forallb (well_typed s) es = true -> eval_all s r es = Some out -> conforms (project_schema s es) out = true.
Proof. exact project_conforms. Qed.
Print Assumptions C09_project_conforms.

(* generalizeNumberTypes: the generalised type of two integer kinds (any widths, signed or unsigned) admits every
   value of both operands; likewise boolean with an integer kind *)
Theorem C09_generalize_integers_sound : forall ka kb,
  holds (TInt ka) (generalize (TInt ka) (TInt kb)) = true /\ holds (TInt kb) (generalize (TInt ka) (TInt kb)) = true.
Proof. exact generalize_integers_sound. Qed.
Print Assumptions C09_generalize_integers_sound.
Theorem C09_holds_sound : forall a t x, holds a t = true -> has_type a x = true -> has_type t (conv_to t x) = true.
Proof. exact holds_sound. Qed.
Print Assumptions C09_holds_sound.

(* the typing rules of the code that the guard excludes are refuted by concrete rows *)
Theorem C09_decimal_times_mod_refuted : exists s r e, violates s r e.
Proof. exact (ex_intro _ _ (ex_intro _ _ (ex_intro _ _ times_mod_refuted))). Qed.
Print Assumptions C09_decimal_times_mod_refuted.
Theorem C09_mod_literal_digits_refuted : exists s r e, violates s r e.
Proof. exact (ex_intro _ _ (ex_intro _ _ (ex_intro _ _ mod_digits_refuted))). Qed.
Print Assumptions C09_mod_literal_digits_refuted.
Theorem C09_decimal_plus_integer_refuted : exists s r e, violates s r e.
Proof. exact (ex_intro _ _ (ex_intro _ _ (ex_intro _ _ decimal_plus_int_refuted))). Qed.
Print Assumptions C09_decimal_plus_integer_refuted.
Theorem C09_unary_minus_unsigned_refuted : exists s r e, violates s r e.
Proof. exact (ex_intro _ _ (ex_intro _ _ (ex_intro _ _ neg_unsigned_refuted))). Qed.
Print Assumptions C09_unary_minus_unsigned_refuted.
Theorem C09_intdiv_mixed_sign_refuted : exists s r e, violates s r e.
Proof. exact (ex_intro _ _ (ex_intro _ _ (ex_intro _ _ intdiv_mixed_refuted))). Qed.
Print Assumptions C09_intdiv_mixed_sign_refuted.
Theorem C09_generalize_decimal_refuted : exists s r e, violates s r e.
Proof. exact (ex_intro _ _ (ex_intro _ _ (ex_intro _ _ generalize_decimal_refuted))). Qed.
Print Assumptions C09_generalize_decimal_refuted.

(* relational layer: every row the evaluator produces conforms to the inferred schema under the correct rules, for all
   statements over projection, filter, inner/left/right join, UNION, GROUP BY + COUNT/SUM/MIN/MAX/AVG, DISTINCT, LIMIT and
   all table contents *)
Theorem C09_rel_conforms : forall q rows, wf_rel q = true -> eval_rel q = Some rows ->
  Forall (fun r => conforms (schema_of true q) r = true) rows.
Proof. exact rel_conforms. Qed.
Print Assumptions C09_rel_conforms.
(* the rules of the code differ from them in nullability only ... *)
Theorem C09_rules_same_types : forall q, map c_ty (schema_of false q) = map c_ty (schema_of true q).
Proof. exact rules_same_types. Qed.
Print Assumptions C09_rules_same_types.
(* ... and are refuted: outer-join padded side, aggregates without a value, derived column of such an aggregate *)
Theorem C09_left_join_code_rule_refuted : exists q, rel_violates q.
Proof. exact (ex_intro _ _ left_join_code_rule_refuted). Qed.
Print Assumptions C09_left_join_code_rule_refuted.
Theorem C09_right_join_code_rule_refuted : exists q, rel_violates q.
Proof. exact (ex_intro _ _ right_join_code_rule_refuted). Qed.
Print Assumptions C09_right_join_code_rule_refuted.
Theorem C09_aggregate_code_rule_refuted : exists q, rel_violates q.
Proof. exact (ex_intro _ _ aggregate_code_rule_refuted). Qed.
Print Assumptions C09_aggregate_code_rule_refuted.
Theorem C09_aggregate_all_null_group_refuted : exists q, rel_violates q.
Proof. exact (ex_intro _ _ aggregate_all_null_group_refuted). Qed.
Print Assumptions C09_aggregate_all_null_group_refuted.
Theorem C09_derived_aggregate_code_rule_refuted : exists q, rel_violates q.
Proof. exact (ex_intro _ _ derived_aggregate_code_rule_refuted). Qed.
Print Assumptions C09_derived_aggregate_code_rule_refuted.

Example C09_nonvacuous :
  let s := [Col (TInt I64) false; Col (TInt I64) true; Col TStr false] in
  let r := [VInt 7; VNull; VStr [97]] in
  let e := ECase [(ECmp Gt (EField 0) (ELit (VInt 1)), ECoalesce (EField 1) (EArith Add (EField 0) (ELit (VInt 1))))] (Some (ELit (VInt 300))) in
  conforms s r = true /\ well_typed s e = true /\ nullable s e = false /\ type_of s e = TInt I64 /\ eval s r e = Ok (VInt 8) /\
  well_typed s (EMod (EField 0) (ELit (VInt 4))) = true /\ eval s r (EMod (EField 0) (ELit (VInt 4))) = Ok (VInt 3) /\
  wf_rel (RGroup [] [(ACount, 0%nat); (ASum, 1%nat)] (RTable s [r])) = true /\
  eval_rel (RGroup [] [(ACount, 0%nat); (ASum, 1%nat)] (RTable s [r])) = Some [[VInt 1; VNull]].
Proof. vm_compute. repeat split; reflexivity. Qed.
Print Assumptions C09_nonvacuous.
