(* C09 — Result values conform to the result schema.
   Only statements, each closed by [exact], each followed by Print Assumptions.
   [type_of]/[nullable] are the type and nullability the engine reports for an expression of the modelled fragment
   (columns, literals, - + * DIV %, = <, IS NULL, COALESCE, IF, CONCAT); [eval] its value on a row. *)
From Coq Require Import List ZArith Bool.
Import ListNotations.
From GMS Require Import Expr.C09Typing Expr.C09TypingProofs.

(* every value an expression returns is a valid value of the type reported for it *)
Theorem C09_eval_has_type : forall s r e x,
  conforms s r = true -> well_typed s e = true -> eval r e = Ok x -> has_type (type_of s e) x = true.
Proof. exact eval_has_type. Qed.
Print Assumptions C09_eval_has_type.

(* an expression reported NOT NULL never evaluates to NULL *)
Theorem C09_not_null_sound : forall s r e,
  conforms s r = true -> well_typed s e = true -> nullable s e = false -> eval r e <> Ok VNull.
Proof. exact not_null_sound. Qed.
Print Assumptions C09_not_null_sound.

(* projections: every produced row conforms to the reported result schema (type and NOT NULL, column by column) *)
Theorem C09_project_conforms : forall s r, conforms s r = true -> forall es out,
  forallb (well_typed s) es = true -> eval_all r es = Some out -> conforms (project_schema s es) out = true.
Proof. exact project_conforms. Qed.
Print Assumptions C09_project_conforms.

(* outer join: matched rows and NULL-padded unmatched rows conform (the padded side is reported nullable) *)
Theorem C09_left_join_conforms : forall l r rl rr, conforms l rl = true -> conforms r rr = true ->
  conforms (left_join_schema l r) (rl ++ rr) = true /\ conforms (left_join_schema l r) (pad rl (length r)) = true.
Proof. exact left_join_conforms. Qed.
Print Assumptions C09_left_join_conforms.

(* set operations: rows of either input conform to the unified schema *)
Theorem C09_union_conforms : forall a b r, same_types a b = true ->
  (conforms a r = true -> conforms (union_schema a b) r = true) /\
  (conforms b r = true -> conforms (union_schema a b) r = true).
Proof. exact union_conforms. Qed.
Print Assumptions C09_union_conforms.

Example C09_nonvacuous :
  let s := [Col TInt false; Col TInt true; Col TStr false] in
  let r := [VInt 7; VNull; VStr [97%Z]] in
  conforms s r = true /\
  well_typed s (ECoalesce (EField 1) (EAdd (EField 0) (ELit (VInt 1)))) = true /\
  nullable s (ECoalesce (EField 1) (EAdd (EField 0) (ELit (VInt 1)))) = false /\
  eval r (ECoalesce (EField 1) (EAdd (EField 0) (ELit (VInt 1)))) = Ok (VInt 8) /\
  nullable s (EIntDiv (EField 0) (ELit (VInt 0))) = true /\ eval r (EIntDiv (EField 0) (ELit (VInt 0))) = Ok VNull /\
  nullable s (EIsNull (EField 1)) = false /\ eval r (EIsNull (EField 1)) = Ok (VInt 1).
Proof. vm_compute. repeat split; reflexivity. Qed.
Print Assumptions C09_nonvacuous.
