(* C31 -- Date and time values parse, format and compute consistently.
   Only statements, each closed by [exact], each followed by Print Assumptions.
   Model: Codec/C31Date.v (proleptic Gregorian day numbers over all of Z; TimeDelta.apply month/year/day
   arithmetic; DATEDIFF/TIMESTAMPDIFF; time.Date normalisation used by STR_TO_DATE). *)
From Coq Require Import List NArith ZArith Bool.
Import ListNotations.
From GMS Require Import Codec.C31Date Codec.C31DateProofs Codec.C31Format Codec.C31FormatProofs Codec.C31Parse Codec.C31ParseInverse.
Open Scope Z_scope.

(* civil calendar round trip, both directions, every day number and every year (no range bound) *)
Theorem C31_days_civil_days : forall z, days_from_civil (civil_from_days z) = z /\ valid_date (civil_from_days z) = true.
Proof. exact days_civil_days. Qed.
Print Assumptions C31_days_civil_days.

Theorem C31_civil_days_civil : forall dt, valid_date dt = true -> civil_from_days (days_from_civil dt) = dt.
Proof. exact civil_days_civil. Qed.
Print Assumptions C31_civil_days_civil.

(* adding then subtracting the same number of days restores the date; the intermediate date is valid *)
Theorem C31_add_sub_days_inverse : forall dt n, valid_date dt = true -> add_days (add_days dt n) (- n) = dt.
Proof. exact add_sub_days_inverse. Qed.
Print Assumptions C31_add_sub_days_inverse.

(* adding then subtracting n months restores the date when no end-of-month clamping occurs *)
Theorem C31_add_sub_months_inverse : forall y m d n,
  valid_date (y, m, d) = true -> no_clamp_months (y, m, d) n = true ->
  add_months (add_months (y, m, d) n) (- n) = (y, m, d).
Proof. exact add_sub_months_inverse. Qed.
Print Assumptions C31_add_sub_months_inverse.

(* the clamping guard is necessary *)
Theorem C31_add_sub_months_with_clamping_refuted : add_months (add_months (2024, 1, 31) 1) (- 1) = (2024, 1, 29).
Proof. exact add_sub_months_clamped. Qed.
Print Assumptions C31_add_sub_months_with_clamping_refuted.

(* DATEDIFF agrees with the difference of day counts: DATEDIFF(d + n days, d) = n, and it is 0 only for equal dates *)
Theorem C31_datediff_is_day_difference : forall dt n, datediff (add_days dt n) dt = n.
Proof. exact datediff_add_days. Qed.
Print Assumptions C31_datediff_is_day_difference.

Theorem C31_datediff_zero_iff_equal : forall a b,
  valid_date a = true -> valid_date b = true -> (datediff a b = 0 <-> a = b).
Proof. exact datediff_zero_iff. Qed.
Print Assumptions C31_datediff_zero_iff_equal.

(* as computed by the code (through time.Duration) DATEDIFF is exact within +-106752 days and saturates beyond *)
Theorem C31_datediff_as_computed_exact : forall a b,
  -106752 <= datediff a b <= 106752 -> datediff_go a b = datediff a b.
Proof. exact datediff_go_exact. Qed.
Print Assumptions C31_datediff_as_computed_exact.

Theorem C31_datediff_as_computed_refuted :
  datediff_go (2337, 10, 4) (1964, 2, 21) = 106752 /\ datediff (2337, 10, 4) (1964, 2, 21) = 136461.
Proof. exact datediff_go_saturates. Qed.
Print Assumptions C31_datediff_as_computed_refuted.

(* TIMESTAMPDIFF: seconds are the difference of second counts; larger units truncate toward zero *)
Theorem C31_timestampdiff_is_second_difference : forall b tb n,
  timestampdiff_seconds b tb (add_days b n) tb = n * 86400.
Proof. exact timestampdiff_seconds_add. Qed.
Print Assumptions C31_timestampdiff_is_second_difference.

Theorem C31_timestampdiff_unit_truncates : forall u b tb a ta,
  0 < u -> let q := timestampdiff_unit u b tb a ta in let s := timestampdiff_seconds b tb a ta in
  Z.abs (q * u) <= Z.abs s /\ Z.abs (s - q * u) < u.
Proof. exact timestampdiff_unit_bounds. Qed.
Print Assumptions C31_timestampdiff_unit_truncates.

(* STR_TO_DATE returns exactly the date for every valid date ... *)
Theorem C31_str_to_date_valid_exact : forall y m d,
  valid_date (y, m, d) = true -> str_to_date_ymd true y m d = Some (y, m, d).
Proof. exact str_to_date_valid_exact. Qed.
Print Assumptions C31_str_to_date_valid_exact.

(* ... but a non-existent date is shifted instead of rejected: '2023-02-30' becomes 2023-03-02 *)
Theorem C31_invalid_dates_rejected_refuted :
  str_to_date_ymd true 2023 2 30 = Some (2023, 3, 2) /\ valid_date (2023, 2, 30) = false.
Proof. exact str_to_date_shifts_invalid. Qed.
Print Assumptions C31_invalid_dates_rejected_refuted.

(* DATE_FORMAT with the canonical complete format '%Y-%m-%d %H:%i:%s' (renderer model of date_format.go):
   19 characters whose fixed-width fields are exactly the value's fields -- the text determines the value *)
Theorem C31_format_canonical_reads_back : forall t,
  in_range t ->
  exists s, render canonical_fmt t = Some s /\ length s = 19%nat /\
            read_canonical s = {| yr := yr t; mo := mo t; dy := dy t; hh := hh t; mi := mi t; ss := ss t; us := 0 |}.
Proof. exact canonical_format_reads_back. Qed.
Print Assumptions C31_format_canonical_reads_back.

(* %y is rendered without padding: one character for years xx00..xx09 *)
Theorem C31_format_y_width : forall y, length (dec (y mod 100)) = (if y mod 100 <? 10 then 1%nat else 2%nat).
Proof. exact y_width. Qed.
Print Assumptions C31_format_y_width.

Theorem C31_format_two_digit_year_refuted :
  render [37; 121; 37; 109]%N {| yr := 2002; mo := 8; dy := 30; hh := 0; mi := 0; ss := 0; us := 0 |} = Some [50; 48; 56]%N.
Proof. exact y_unpadded. Qed.
Print Assumptions C31_format_two_digit_year_refuted.

(* sub-day intervals (MICROSECOND, SECOND, MINUTE, HOUR are multiples of a microsecond): add then subtract restores
   the moment; the sum is exact *)
Theorem C31_add_sub_subday_inverse : forall dt tod n,
  valid_date dt = true -> 0 <= tod < usday ->
  let '(d1, t1) := add_us dt tod n in add_us d1 t1 (- n) = (dt, tod).
Proof. exact add_sub_us_inverse. Qed.
Print Assumptions C31_add_sub_subday_inverse.

Theorem C31_add_subday_exact : forall dt tod n,
  0 <= tod < usday ->
  let '(d1, t1) := add_us dt tod n in 0 <= t1 < usday /\ days_from_civil d1 * usday + t1 = days_from_civil dt * usday + tod + n.
Proof. exact add_us_value. Qed.
Print Assumptions C31_add_subday_exact.

(* DATEDIFF of datetimes only looks at the date parts *)
Theorem C31_datediff_ignores_time_of_day : forall a ta b tb, datediff_dt a ta b tb = datediff_go a b.
Proof. exact datediff_dt_ignores_time. Qed.
Print Assumptions C31_datediff_ignores_time_of_day.

(* THE FORMAT / PARSE INVERSE (first sentence of the property), over the renderer model of date_format.go and the
   parser model of planbuilder/dateparse (Codec/C31Parse.v):  STR_TO_DATE(DATE_FORMAT(d, fmt), fmt) = d  for every
   valid moment d (years 0..9999, microseconds included) and every format that
   - tokenises ([tokens fmt = FOk toks]) into the specifiers %Y %m %c %d %e %H %k %i %s %S %f %T %% and ASCII literal
     characters that are neither digits nor control whitespace ([separated]: no %y, no AM/PM specifiers),
   - follows every greedy numeric specifier (%c %e %H %k %i %s %S %f read ALL following digits) by a literal
     or the end of the format ([separated], the guard that excludes the adjacent-field finding),
   - does not end in a space ([ends_ok]) and determines year, month, day, hour, minute and second ([complete]);
   microseconds must be zero unless the format contains %f. *)
Theorem C31_format_parse_inverse : forall fmt toks m,
  tokens fmt = FOk toks -> separated toks = true -> ends_ok toks = true -> complete toks = true ->
  valid_moment m -> (has_spec 102 toks = true \/ us m = 0) ->
  exists s, render fmt m = Some s /\
            str_to_date s fmt = SVal (yr m, mo m, dy m) (((hh m * 60 + mi m) * 60 + ss m) * 1000000 + us m).
Proof. exact format_parse_inverse. Qed.
Print Assumptions C31_format_parse_inverse.

(* the guard is satisfiable: the canonical format '%Y-%m-%d %H:%i:%s' meets it *)
Example C31_format_parse_inverse_nonvacuous :
  exists toks, tokens canonical_fmt = FOk toks /\ separated toks = true /\ ends_ok toks = true /\ complete toks = true.
Proof. exact canonical_is_guarded. Qed.
Print Assumptions C31_format_parse_inverse_nonvacuous.

(* and both exclusions are necessary: adjacent greedy fields, and the ignored AM/PM flag *)
Theorem C31_format_parse_adjacent_fields_refuted :
  let fmt := [37;89;37;109;37;100;37;72;37;105;37;115]%N in
  let m := {| yr := 2032; mo := 2; dy := 28; hh := 23; mi := 58; ss := 49; us := 0 |} in
  exists s, render fmt m = Some s /\ str_to_date s fmt = SNull.
Proof. exact greedy_adjacent_fails. Qed.
Print Assumptions C31_format_parse_adjacent_fields_refuted.

Theorem C31_format_parse_ampm_refuted :
  let fmt := [37;89;45;37;109;45;37;100;32;37;114]%N in
  let m := {| yr := 2024; mo := 1; dy := 2; hh := 15; mi := 4; ss := 5; us := 0 |} in
  exists s, render fmt m = Some s /\ str_to_date s fmt = SVal (2024, 1, 2) (((3 * 60 + 4) * 60 + 5) * 1000000).
Proof. exact ampm_ignored. Qed.
Print Assumptions C31_format_parse_ampm_refuted.

(* TIMESTAMPDIFF(MONTH) (monthsDiff): zero on equal moments, antisymmetric, and exactly n after adding n months
   without clamping; QUARTER / YEAR divide by 3 / 12 truncating toward zero *)
Theorem C31_months_diff_refl : forall a, months_diff a a = 0.
Proof. exact months_diff_refl. Qed.
Print Assumptions C31_months_diff_refl.

Theorem C31_months_diff_antisymmetric : forall a b, moment_lt a b = true -> months_diff b a = - months_diff a b.
Proof. exact months_diff_antisym. Qed.
Print Assumptions C31_months_diff_antisymmetric.

Theorem C31_months_diff_add_months : forall y m d t n,
  valid_date (y, m, d) = true -> no_clamp_months (y, m, d) n = true -> 0 <= n ->
  months_diff ((y, m, d), t) (add_months (y, m, d) n, t) = n.
Proof. exact months_diff_add_months. Qed.
Print Assumptions C31_months_diff_add_months.

(* ... but the tie-break on equal days of the month ignores the minutes (sql.SecondsPerMinute = 0):
   TIMESTAMPDIFF(MONTH, '1950-04-29 12:22:47', '1950-04-29 12:38:15') = -1 *)
Theorem C31_months_diff_same_day_refuted : months_diff ((1950, 4, 29), 44567) ((1950, 4, 29), 45495) = -1.
Proof. exact months_diff_ignores_minutes. Qed.
Print Assumptions C31_months_diff_same_day_refuted.

(* types.DatetimeType.Convert on 'YYYY-MM-DD' (parseDatetime): exact on existing dates; a non-existent day is
   re-read from a shorter prefix, so CAST('2023-02-30' AS DATE) is 2023-02-03 instead of being rejected *)
Theorem C31_cast_date_valid_exact : forall y m d, valid_date (y, m, d) = true -> cast_date_str y m d = (y, m, d).
Proof. exact cast_date_valid_exact. Qed.
Print Assumptions C31_cast_date_valid_exact.

Theorem C31_cast_invalid_date_rejected_refuted :
  cast_date_str 2023 2 30 = (2023, 2, 3) /\ valid_date (2023, 2, 30) = false.
Proof. exact cast_date_misparses. Qed.
Print Assumptions C31_cast_invalid_date_rejected_refuted.

Example C31_nonvacuous :
  days_from_civil (1970, 1, 1) = 0 /\ civil_from_days 19782 = (2024, 2, 29) /\
  add_months (2024, 1, 15) (-1) = (2023, 12, 15) /\ add_years (2024, 2, 29) 1 = (2025, 2, 28) /\
  no_clamp_months (2024, 1, 15) 1 = true /\ valid_date (2024, 2, 29) = true /\ valid_date (1900, 2, 29) = false.
Proof. repeat split; vm_compute; reflexivity. Qed.
Print Assumptions C31_nonvacuous.
