(* C07 — Grouping and de-duplication use the same equality as '='.
   Only statements, each closed by [exact], each followed by Print Assumptions. *)
From Coq Require Import List ZArith NArith Bool.
Import ListNotations.
From GMS Require Import Phys.C07HashKey Phys.C07HashKeyProofs.

(* integers: the canonical key bytes (strconv.FormatInt) coincide exactly when '=' is TRUE *)
Theorem C07_key_eq_iff_equal_int :
  forall (w : N -> N) (x y : Z), key1 w CNone (HInt x) = key1 w CNone (HInt y) <-> sql_eq w (HInt x) (HInt y) = true.
Proof. exact key_int_iff. Qed.
Print Assumptions C07_key_eq_iff_equal_int.

(* collated strings hashed WITH a schema (GROUP BY, hash lookups): the weight strings coincide exactly when the
   collation identifies the strings; parametric in the rune-weight function (32-bit weights) *)
Theorem C07_key_eq_iff_equal_collated_string :
  forall (w : N -> N), (forall c, (w c < 4294967296)%N) ->
  forall a b, key1 w CStr (HStr a) = key1 w CStr (HStr b) <-> sql_eq w (HStr a) (HStr b) = true.
Proof. exact key_str_schema_iff. Qed.
Print Assumptions C07_key_eq_iff_equal_collated_string.

(* decimals of one scale (values of one DECIMAL column): keys coincide exactly when '=' is TRUE *)
Theorem C07_key_eq_iff_equal_decimal_same_scale :
  forall (w : N -> N) m m' s,
    key1 w CNone (HDec m s) = key1 w CNone (HDec m' s) <-> sql_eq w (HDec m s) (HDec m' s) = true.
Proof. exact key_dec_same_scale_iff. Qed.
Print Assumptions C07_key_eq_iff_equal_decimal_same_scale.

(* decimals in general: refuted by 1.00 vs 1.0000 (apd.Decimal.Text('f') keeps trailing zeros) *)
Theorem C07_key_eq_iff_equal_decimal_refuted :
  forall (w : N -> N), exists m1 s1 m2 s2,
    sql_eq w (HDec m1 s1) (HDec m2 s2) = true /\ key1 w CNone (HDec m1 s1) <> key1 w CNone (HDec m2 s2).
Proof. exact key_dec_refuted. Qed.
Print Assumptions C07_key_eq_iff_equal_decimal_refuted.

(* an integer converted to DECIMAL by a set operation (1 -> "1") against 1.00 *)
Theorem C07_key_eq_iff_equal_int_vs_decimal_refuted :
  forall (w : N -> N), exists x m s,
    sql_eq w (HInt x) (HDec m s) = true /\ key1 w CNone (HDec x 0) <> key1 w CNone (HDec m s).
Proof. exact key_int_dec_refuted. Qed.
Print Assumptions C07_key_eq_iff_equal_int_vs_decimal_refuted.

(* strings hashed WITHOUT a schema (Distinct, UNION/INTERSECT/EXCEPT, hash join): raw bytes, so every collation
   that identifies 'a' and 'A' is not respected *)
Theorem C07_key_eq_iff_equal_raw_string_refuted :
  forall (w : N -> N), w 97%N = w 65%N ->
  exists a b, sql_eq w (HStr a) (HStr b) = true /\ key1 w CNone (HStr a) <> key1 w CNone (HStr b).
Proof. exact key_str_raw_refuted. Qed.
Print Assumptions C07_key_eq_iff_equal_raw_string_refuted.

(* rows: the NUL separator does not keep raw strings containing NUL apart ("a\0","b" vs "a","\0b") *)
Theorem C07_row_key_separator_refuted :
  forall (w : N -> N), exists r1 r2, length r1 = length r2 /\
    Forall2 (fun a b => sql_eq w a b = false) r1 r2 /\ row_key w [] r1 = row_key w [] r2.
Proof. exact row_key_separator_refuted. Qed.
Print Assumptions C07_row_key_separator_refuted.

(* the same rows collide when a string schema is passed (GROUP BY): the NUL rune's weight bytes are zero too *)
Theorem C07_row_key_separator_with_schema_refuted :
  forall (w : N -> N), w 0%N = 0%N ->
    row_key w [CStr; CStr] [HStr [97;0]%N; HStr [98]%N] = row_key w [CStr; CStr] [HStr [97]%N; HStr [0;98]%N].
Proof. exact row_key_separator_schema_refuted. Qed.
Print Assumptions C07_row_key_separator_with_schema_refuted.

(* EXCEPT: the empty row hashed at the end of the right input has the key of the one-column row ('') *)
Theorem C07_except_end_of_input_key_refuted :
  forall (w : N -> N), [] <> [HStr []] /\ row_key w [] [] = row_key w [] [HStr []].
Proof. intros w. split; [discriminate|exact (row_key_eof_refuted w)]. Qed.
Print Assumptions C07_except_end_of_input_key_refuted.

(* COUNT(DISTINCT ..): text followed by ","; trailing-zero decimals split, strings containing "," collide *)
Theorem C07_count_distinct_key_refuted :
  (forall w : N -> N, exists a b, sql_eq w a b = true /\ cd_key [a] <> cd_key [b]) /\
  (exists r1 r2, r1 <> r2 /\ cd_key r1 = cd_key r2).
Proof. split; [exact cd_key_dec_refuted|exact cd_key_separator_refuted]. Qed.
Print Assumptions C07_count_distinct_key_refuted.

(* operators: the seen-set loop of Distinct / UNION / the GROUP BY table keeps exactly one representative per class
   of any relation R that coincides with key equality (instantiate R with '=' via the theorems above) *)
Theorem C07_dedup_one_representative_per_class :
  forall (A K : Type) (key : A -> K) (keq : K -> K -> bool),
    (forall a b, keq a b = true <-> a = b) ->
    forall (R : A -> A -> Prop), (forall x y, key x = key y <-> R x y) ->
    forall l,
      (forall x, In x (dedup key keq l) -> In x l) /\
      (forall x, In x l -> exists y, In y (dedup key keq l) /\ R x y) /\
      (forall (i j : nat) d, (i < j < length (dedup key keq l))%nat -> ~ R (nth i (dedup key keq l) d) (nth j (dedup key keq l) d)).
Proof. intros A K key keq Hk R HR l. exact (dedup_classes key keq Hk R HR l). Qed.
Print Assumptions C07_dedup_one_representative_per_class.

Example C07_nonvacuous :
  let w := fun c : N => c in
  dedup (key1 w CNone) bytes_eqb [HInt 1; HInt 2; HInt 1; HInt (-2); HInt 2] = [HInt 1; HInt 2; HInt (-2)] /\
  dedup (key1 w CNone) bytes_eqb [HDec 100 2; HDec 10000 4; HDec 100 2] = [HDec 100 2; HDec 10000 4].
Proof. vm_compute. split; reflexivity. Qed.
