(* C07 — Grouping and de-duplication use the same equality as '='.
   Only statements, each closed by [exact], each followed by Print Assumptions. *)
From Coq Require Import List ZArith NArith Bool.
Import ListNotations.
From GMS Require Import Phys.C07HashKey Phys.C07HashKeyProofs Phys.C07Ops Phys.C07RowKeyProofs Phys.C07OpsProofs.

(* integers: the canonical key bytes (strconv.FormatInt) coincide exactly when '=' is TRUE *)
Theorem C07_key_eq_iff_equal_int :
  forall (w : N -> N) (x y : Z), key1 w CNone (HInt x) = key1 w CNone (HInt y) <-> sql_eq w (HInt x) (HInt y) = true.
Proof. exact key_int_iff. Qed.
Print Assumptions C07_key_eq_iff_equal_int.

(* collated strings hashed WITH a schema (GROUP BY, hash lookups): the weight strings coincide exactly when the
   collation identifies the strings; parametric in the rune-weight function (32-bit weights) *)
Theorem C07_key_eq_iff_equal_collated_string :
  forall (w : N -> N), (forall c, (w c < 4294967296)%N) ->
  forall a b, key1 w CStr (HStr a) = key1 w CStr (HStr b) <-> sql_eq w (HStr a) (HStr b) = true.
Proof. exact key_str_schema_iff. Qed.
Print Assumptions C07_key_eq_iff_equal_collated_string.

(* decimals of one scale (values of one DECIMAL column): keys coincide exactly when '=' is TRUE *)
Theorem C07_key_eq_iff_equal_decimal_same_scale :
  forall (w : N -> N) m m' s,
    key1 w CNone (HDec m s) = key1 w CNone (HDec m' s) <-> sql_eq w (HDec m s) (HDec m' s) = true.
Proof. exact key_dec_same_scale_iff. Qed.
Print Assumptions C07_key_eq_iff_equal_decimal_same_scale.

(* decimals in general: refuted by 1.00 vs 1.0000 (apd.Decimal.Text('f') keeps trailing zeros) *)
Theorem C07_key_eq_iff_equal_decimal_refuted :
  forall (w : N -> N), exists m1 s1 m2 s2,
    sql_eq w (HDec m1 s1) (HDec m2 s2) = true /\ key1 w CNone (HDec m1 s1) <> key1 w CNone (HDec m2 s2).
Proof. exact key_dec_refuted. Qed.
Print Assumptions C07_key_eq_iff_equal_decimal_refuted.

(* an integer converted to DECIMAL by a set operation (1 -> "1") against 1.00 *)
Theorem C07_key_eq_iff_equal_int_vs_decimal_refuted :
  forall (w : N -> N), exists x m s,
    sql_eq w (HInt x) (HDec m s) = true /\ key1 w CNone (HDec x 0) <> key1 w CNone (HDec m s).
Proof. exact key_int_dec_refuted. Qed.
Print Assumptions C07_key_eq_iff_equal_int_vs_decimal_refuted.

(* strings hashed WITHOUT a schema (Distinct, UNION/INTERSECT/EXCEPT, hash join): raw bytes, so every collation
   that identifies 'a' and 'A' is not respected *)
Theorem C07_key_eq_iff_equal_raw_string_refuted :
  forall (w : N -> N), w 97%N = w 65%N ->
  exists a b, sql_eq w (HStr a) (HStr b) = true /\ key1 w CNone (HStr a) <> key1 w CNone (HStr b).
Proof. exact key_str_raw_refuted. Qed.
Print Assumptions C07_key_eq_iff_equal_raw_string_refuted.

(* rows: the NUL separator does not keep raw strings containing NUL apart ("a\0","b" vs "a","\0b") *)
Theorem C07_row_key_separator_refuted :
  forall (w : N -> N), exists r1 r2, length r1 = length r2 /\
    Forall2 (fun a b => sql_eq w a b = false) r1 r2 /\ row_key w [] r1 = row_key w [] r2.
Proof. exact row_key_separator_refuted. Qed.
Print Assumptions C07_row_key_separator_refuted.

(* the same rows collide when a string schema is passed (GROUP BY): the NUL rune's weight bytes are zero too *)
Theorem C07_row_key_separator_with_schema_refuted :
  forall (w : N -> N), w 0%N = 0%N ->
    row_key w [CStr; CStr] [HStr [97;0]%N; HStr [98]%N] = row_key w [CStr; CStr] [HStr [97]%N; HStr [0;98]%N].
Proof. exact row_key_separator_schema_refuted. Qed.
Print Assumptions C07_row_key_separator_with_schema_refuted.

(* EXCEPT: the empty row hashed at the end of the right input has the key of the one-column row ('') *)
Theorem C07_except_end_of_input_key_refuted :
  forall (w : N -> N), [] <> [HStr []] /\ row_key w [] [] = row_key w [] [HStr []].
Proof. intros w. split; [discriminate|exact (row_key_eof_refuted w)]. Qed.
Print Assumptions C07_except_end_of_input_key_refuted.

(* COUNT(DISTINCT ..): text followed by ","; trailing-zero decimals split, strings containing "," collide *)
Theorem C07_count_distinct_key_refuted :
  (forall w : N -> N, exists a b, sql_eq w a b = true /\ cd_key [a] <> cd_key [b]) /\
  (exists r1 r2, r1 <> r2 /\ cd_key r1 = cd_key r2).
Proof. split; [exact cd_key_dec_refuted|exact cd_key_separator_refuted]. Qed.
Print Assumptions C07_count_distinct_key_refuted.

(* operators: the seen-set loop of Distinct / UNION / the GROUP BY table keeps exactly one representative per class
   of any relation R that coincides with key equality (instantiate R with '=' via the theorems above) *)
Theorem C07_dedup_one_representative_per_class :
  forall (A K : Type) (key : A -> K) (keq : K -> K -> bool),
    (forall a b, keq a b = true <-> a = b) ->
    forall (R : A -> A -> Prop), (forall x y, key x = key y <-> R x y) ->
    forall l,
      (forall x, In x (dedup key keq l) -> In x l) /\
      (forall x, In x l -> exists y, In y (dedup key keq l) /\ R x y) /\
      (forall (i j : nat) d, (i < j < length (dedup key keq l))%nat -> ~ R (nth i (dedup key keq l) d) (nth j (dedup key keq l) d)).
Proof. intros A K key keq Hk R HR l. exact (dedup_classes key keq Hk R HR l). Qed.
Print Assumptions C07_dedup_one_representative_per_class.

Example C07_nonvacuous :
  let w := fun c : N => c in
  dedup (key1 w CNone) bytes_eqb [HInt 1; HInt 2; HInt 1; HInt (-2); HInt 2] = [HInt 1; HInt 2; HInt (-2)] /\
  dedup (key1 w CNone) bytes_eqb [HDec 100 2; HDec 10000 4; HDec 100 2] = [HDec 100 2; HDec 10000 4].
Proof. vm_compute. split; reflexivity. Qed.

(* ---------- rows ---------- *)
(* HashOf row keys (NUL between values, NULL as "<nil>") are injective on '='-classes inside the fragment rows_ok:
   numbers / NULL without a string schema, decimals of one scale per column, raw strings without a NUL byte, different
   from "<nil>" and alone in their collation class, strings under a string schema with rune weights < 2^24 whose low
   byte is not zero.  Without the guard: C07_row_key_separator_refuted above. *)
Theorem C07_row_key_injective_on_classes :
  forall (w : N -> N), (forall c, (w c < 4294967296)%N) ->
  forall r1 r2 sch, rows_ok w sch r1 r2 -> (row_key w sch r1 = row_key w sch r2 <-> rows_eqb w r1 r2 = true).
Proof. exact row_key_injective_on_classes. Qed.
Print Assumptions C07_row_key_injective_on_classes.

Example C07_row_fragment_nonvacuous :
  rows_ok (fun c => c) [] [HInt 1; HStr [97%N]; HNull] [HInt 1; HStr [97%N]; HNull].
Proof. exact rows_ok_example. Qed.

(* ---------- hash.HashOfSimple (HashInTuple, single-key HashLookup) ---------- *)
Theorem C07_simple_key_eq_iff_equal_int :
  forall (w : N -> N) x y,
    simple_key w TInt (HInt x) = simple_key w TInt (HInt y) <-> sql_eq w (HInt x) (HInt y) = true.
Proof. exact simple_key_int_iff. Qed.
Print Assumptions C07_simple_key_eq_iff_equal_int.

(* integers under a DECIMAL(65,sc) compare type, inside the bound 10^(65-sc) of that type *)
Theorem C07_simple_key_eq_iff_equal_int_as_decimal :
  forall (w : N -> N) sc x y,
    (Z.to_N (Z.abs x) < 10 ^ (65 - sc))%N -> (Z.to_N (Z.abs y) < 10 ^ (65 - sc))%N ->
    (simple_key w (TDec sc) (HInt x) = simple_key w (TDec sc) (HInt y) <-> sql_eq w (HInt x) (HInt y) = true).
Proof. exact simple_key_int_as_decimal_iff. Qed.
Print Assumptions C07_simple_key_eq_iff_equal_int_as_decimal.

Theorem C07_simple_key_eq_iff_equal_collated_string :
  forall (w : N -> N), (forall c, (w c < 4294967296)%N) -> forall a b,
    simple_key w TText (HStr a) = simple_key w TText (HStr b) <-> sql_eq w (HStr a) (HStr b) = true.
Proof. exact simple_key_text_iff. Qed.
Print Assumptions C07_simple_key_eq_iff_equal_collated_string.

(* decimals of arbitrary scale: only instances are proved (the general statement "trimmed keys are equal iff the numbers
   are" is NOT proved; it is tied to the code by the correspondence on generated pairs) *)
Theorem C07_simple_key_decimal_collapse_partial :
  forall (w : N -> N),
    simple_key w (TDec 30) (HDec 100 2) = simple_key w (TDec 30) (HDec 10000 4) /\
    simple_key w (TDec 30) (HInt 1) = simple_key w (TDec 30) (HDec 100 2) /\
    simple_key w (TDec 30) (HDec 0 2) = simple_key w (TDec 30) (HInt 0) /\
    simple_key w (TDec 30) (HDec 150 2) <> simple_key w (TDec 30) (HDec 15 2).
Proof. exact simple_key_collapses. Qed.
Print Assumptions C07_simple_key_decimal_collapse_partial.

(* beyond the bound of DECIMAL(65,30) the value is replaced by 0 before hashing: 10^36 and 0 share a key *)
Theorem C07_simple_key_overflow_refuted :
  forall (w : N -> N), exists a b, sql_eq w a b = false /\ simple_key w (TDec 30) a = simple_key w (TDec 30) b.
Proof. exact simple_key_overflow_refuted. Qed.
Print Assumptions C07_simple_key_overflow_refuted.

(* a compare type with fewer fraction digits than the values rounds them; -0.004 at scale 2 is hashed as "-0" *)
Theorem C07_simple_key_rounding_refuted :
  forall (w : N -> N),
    (exists a b, sql_eq w a b = false /\ simple_key w (TDec 1) a = simple_key w (TDec 1) b) /\
    simple_key w (TDec 2) (HDec (-4) 3) = Some [45; 48]%N /\ simple_key w (TDec 2) (HDec 0 2) = Some [48]%N.
Proof. exact simple_key_rounding_refuted. Qed.
Print Assumptions C07_simple_key_rounding_refuted.

(* ---------- operators ---------- *)
(* IntersectIter (INTERSECT ALL): per class, min of the two multiplicities, whenever on the rows in play the class
   relation is key equality *)
Theorem C07_intersect_all_is_min :
  forall (A K : Type) (key : A -> K) (keq : K -> K -> bool), (forall a b, keq a b = true <-> a = b) ->
  forall (eqv : A -> A -> bool) (ls rs : list A),
    (forall x y, In x (ls ++ rs) -> In y (ls ++ rs) -> (eqv x y = true <-> key x = key y)) ->
    forall a, In a (ls ++ rs) ->
      ccount eqv a (intersect_all key keq ls rs) = Nat.min (ccount eqv a ls) (ccount eqv a rs).
Proof. intros A K key keq Hk eqv ls rs H a Ha. exact (intersect_all_is_min key keq Hk eqv ls rs H a Ha). Qed.
Print Assumptions C07_intersect_all_is_min.

(* ExceptIter as written, per key: the nil row hashed at end of input counts as one more right row *)
Theorem C07_except_all_count_as_written :
  forall (A K : Type) (key : A -> K) (keq : K -> K -> bool), (forall a b, keq a b = true <-> a = b) ->
  forall knil ls rs k,
    kcount key keq k (except_all key keq knil ls rs) =
    (kcount key keq k ls - (kcount key keq k rs + (if keq knil k then 1 else 0)))%nat.
Proof. intros A K key keq Hk knil ls rs k. exact (except_all_count key keq Hk knil ls rs k). Qed.
Print Assumptions C07_except_all_count_as_written.

(* EXCEPT ALL: per class, left minus right (monus), provided no left row has the key of the nil row *)
Theorem C07_except_all_is_monus :
  forall (A K : Type) (key : A -> K) (keq : K -> K -> bool), (forall a b, keq a b = true <-> a = b) ->
  forall (eqv : A -> A -> bool) (ls rs : list A),
    (forall x y, In x (ls ++ rs) -> In y (ls ++ rs) -> (eqv x y = true <-> key x = key y)) ->
    forall knil a, In a (ls ++ rs) -> (forall x, In x ls -> key x <> knil) ->
      ccount eqv a (except_all key keq knil ls rs) = (ccount eqv a ls - ccount eqv a rs)%nat.
Proof. intros A K key keq Hk eqv ls rs H knil a Ha Hn. exact (except_all_is_monus key keq Hk eqv ls rs H knil a Ha Hn). Qed.
Print Assumptions C07_except_all_is_monus.

(* distinctIter: per key at most one row, and one iff the key occurs *)
Theorem C07_distinct_count :
  forall (A K : Type) (key : A -> K) (keq : K -> K -> bool), (forall a b, keq a b = true <-> a = b) ->
  forall l k, kcount key keq k (dedup key keq l) = Nat.min 1 (kcount key keq k l).
Proof. intros A K key keq Hk l k. exact (dedup_count key keq Hk l k). Qed.
Print Assumptions C07_distinct_count.

(* UNION: every class of the two inputs exactly once *)
Theorem C07_union_distinct_once :
  forall (A K : Type) (key : A -> K) (keq : K -> K -> bool), (forall a b, keq a b = true <-> a = b) ->
  forall (eqv : A -> A -> bool) (ls rs : list A),
    (forall x y, In x (ls ++ rs) -> In y (ls ++ rs) -> (eqv x y = true <-> key x = key y)) ->
    forall a, In a (ls ++ rs) -> ccount eqv a (union_distinct key keq ls rs) = 1%nat.
Proof. intros A K key keq Hk eqv ls rs H a Ha. exact (union_distinct_once key keq Hk eqv ls rs H a Ha). Qed.
Print Assumptions C07_union_distinct_once.

(* INTERSECT (distinctIter above IntersectIter): once iff the class occurs on both sides *)
Theorem C07_intersect_distinct_def :
  forall (A K : Type) (key : A -> K) (keq : K -> K -> bool), (forall a b, keq a b = true <-> a = b) ->
  forall (eqv : A -> A -> bool) (ls rs : list A),
    (forall x y, In x (ls ++ rs) -> In y (ls ++ rs) -> (eqv x y = true <-> key x = key y)) ->
    forall a, In a (ls ++ rs) ->
      ccount eqv a (intersect_distinct key keq ls rs) = Nat.min 1 (Nat.min (ccount eqv a ls) (ccount eqv a rs)).
Proof. intros A K key keq Hk eqv ls rs H a Ha. exact (intersect_distinct_def key keq Hk eqv ls rs H a Ha). Qed.
Print Assumptions C07_intersect_distinct_def.

(* EXCEPT (distinctIter under both inputs of ExceptIter): once iff the class occurs left and not right *)
Theorem C07_except_distinct_def :
  forall (A K : Type) (key : A -> K) (keq : K -> K -> bool), (forall a b, keq a b = true <-> a = b) ->
  forall (eqv : A -> A -> bool) (ls rs : list A),
    (forall x y, In x (ls ++ rs) -> In y (ls ++ rs) -> (eqv x y = true <-> key x = key y)) ->
    forall knil a, In a (ls ++ rs) -> (forall x, In x ls -> key x <> knil) ->
      ccount eqv a (except_distinct key keq knil ls rs) = (Nat.min 1 (ccount eqv a ls) - Nat.min 1 (ccount eqv a rs))%nat.
Proof. intros A K key keq Hk eqv ls rs H knil a Ha Hn. exact (except_distinct_def key keq Hk eqv ls rs H knil a Ha Hn). Qed.
Print Assumptions C07_except_distinct_def.

(* the same over SQL rows with the HashOf key, the guard being the row fragment above *)
Theorem C07_intersect_all_rows_is_min :
  forall (w : N -> N) sch ls rs a, (forall c, (w c < 4294967296)%N) ->
    (forall x y, In x (ls ++ rs) -> In y (ls ++ rs) -> rows_ok w sch x y) -> In a (ls ++ rs) ->
    ccount (rows_eqb w) a (intersect_all (row_key w sch) bytes_eqb ls rs) =
    Nat.min (ccount (rows_eqb w) a ls) (ccount (rows_eqb w) a rs).
Proof. exact intersect_all_rows_is_min. Qed.
Print Assumptions C07_intersect_all_rows_is_min.

Theorem C07_except_all_rows_is_monus :
  forall (w : N -> N) sch ls rs a, (forall c, (w c < 4294967296)%N) ->
    (forall x y, In x (ls ++ rs) -> In y (ls ++ rs) -> rows_ok w sch x y) -> In a (ls ++ rs) ->
    (forall x, In x ls -> row_key w sch x <> row_key w sch []) ->
    ccount (rows_eqb w) a (except_all (row_key w sch) bytes_eqb (row_key w sch []) ls rs) =
    (ccount (rows_eqb w) a ls - ccount (rows_eqb w) a rs)%nat.
Proof. exact except_all_rows_is_monus. Qed.
Print Assumptions C07_except_all_rows_is_monus.

(* EXCEPT as written: SELECT '' EXCEPT SELECT 'a' is empty *)
Theorem C07_except_empty_string_refuted :
  let key := row_key (fun c => c) [] in
  exists ls rs, (forall l r, In l ls -> In r rs -> key l <> key r) /\ ls <> [] /\
    except_all key bytes_eqb (key []) ls rs = [] /\ except_distinct key bytes_eqb (key []) ls rs = [].
Proof. exact except_empty_string_refuted. Qed.
Print Assumptions C07_except_empty_string_refuted.

(* COUNT(DISTINCT s, u) as written: ('a,','b') and ('a',',b') are counted once *)
Theorem C07_count_distinct_comma_refuted :
  exists r1 r2, r1 <> r2 /\ count_distinct [r1; r2] = 1%nat.
Proof. exact count_distinct_comma_refuted. Qed.
Print Assumptions C07_count_distinct_comma_refuted.

(* HashLookup: the hash join equals the join whenever rows satisfying the condition have equal keys; every emitted
   pair satisfies the condition, so a NULL key (condition never TRUE) never matches *)
Theorem C07_hash_join_is_join :
  forall (L R K : Type) (lkey : L -> K) (rkey : R -> K) (keq : K -> K -> bool) (cond : L -> R -> bool),
    (forall a b, keq a b = true <-> a = b) -> forall ls rs,
    (forall l r, In l ls -> In r rs -> cond l r = true -> lkey l = rkey r) ->
    hash_join lkey rkey keq cond ls rs = nl_join cond ls rs.
Proof. intros L R K lkey rkey keq cond Hk ls rs H. exact (hash_join_is_join lkey rkey keq cond Hk ls rs H). Qed.
Print Assumptions C07_hash_join_is_join.

Theorem C07_hash_join_null_never_matches :
  forall (L R K : Type) (lkey : L -> K) (rkey : R -> K) (keq : K -> K -> bool) (cond : L -> R -> bool),
    (forall a b, keq a b = true <-> a = b) -> forall ls rs l r,
    In (l, r) (hash_join lkey rkey keq cond ls rs) -> In l ls /\ In r rs /\ cond l r = true.
Proof. intros L R K lkey rkey keq cond Hk ls rs l r H. exact (hash_join_sound lkey rkey keq cond Hk ls rs l r H). Qed.
Print Assumptions C07_hash_join_null_never_matches.

(* HashInTuple: x IN (list) by definition, whenever simple-key equality is '=' on the values in play *)
Theorem C07_hash_in_is_in :
  forall (skey : hv -> option (list N)) (eqb : hv -> hv -> bool) l rs,
    (forall v, skey v = None <-> is_null v = true) ->
    (forall r k k', In r rs -> skey l = Some k -> skey r = Some k' -> bytes_eqb k k' = eqb l r) ->
    hash_in skey l rs = in_def eqb l rs.
Proof. exact hash_in_is_in. Qed.
Print Assumptions C07_hash_in_is_in.
