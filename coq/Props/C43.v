(* C43 -- information_schema and SHOW reflect the catalog.
   Only statements, each closed by [exact], each followed by Print Assumptions.
   Model: Sys/C43Catalog.v (catalog kept by the engine + memory backend after a DDL history, row generators of the
   information_schema tables and SHOW statements); proofs: Sys/C43CatalogProofs.v. *)
From Coq Require Import List NArith Bool Arith.
Import ListNotations.
From GMS Require Import Sys.C43Catalog Sys.C43CatalogProofs Sys.C43CatalogHistory.
Open Scope N_scope.

(* TABLES / SHOW FULL TABLES list exactly the tables and views of the catalog, each with its type *)
Theorem C43_tables_exact : forall c r,
  In r (tables_rows c) <->
  (exists t, In t (tables c) /\ r = [tname t; BASE]) \/ (exists v, In v (views c) /\ r = [vname v; VIEWT]).
Proof. exact tables_rows_exact. Qed.
Print Assumptions C43_tables_exact.

(* ... and over ALL DDL histories (rejected statements included) the table names of the catalog are the names created
   and not dropped, renamed along: one statement changes the name list exactly as [names_after] says, a history as
   the fold of it; names stay unique *)
Theorem C43_table_names_after_statement : forall o c, tnames (exec o c) = names_after o c.
Proof. exact step_table_names. Qed.
Print Assumptions C43_table_names_after_statement.

Theorem C43_table_names_follow_history : forall h c, tnames (run h c) = names_fold h c (tnames c).
Proof. exact listed_tables_follow_history. Qed.
Print Assumptions C43_table_names_follow_history.

Theorem C43_table_names_unique : forall h, NoDup (tnames (run h empty)).
Proof. intros h. apply histories_keep_unique_names. constructor. Qed.
Print Assumptions C43_table_names_unique.

(* COLUMNS: the rows of a table are its VISIBLE columns in schema order; every row carries the table's name.  The
   ordinal position is the position in the full schema: 1, 2, ... when the table has no hidden system column, but with a
   gap after a functional index ((c + 1)) -- the faithful model refutes "ordinal positions are 1..n" *)
Theorem C43_columns_exact : forall t,
  map (fun r => (nth 1 r 0, nth 2 r 0)) (table_columns_rows t) = numbered_visible 1 (tcols t) /\
  forall r, In r (table_columns_rows t) -> nth 0 r 0 = tname t.
Proof. intros t. split; [exact (columns_ordinals_exact t) | exact (columns_rows_belong_to_table t)]. Qed.
Print Assumptions C43_columns_exact.

Theorem C43_columns_ordinals_contiguous_partial : forall t, has_hidden t = false ->
  map (fun r => (nth 1 r 0, nth 2 r 0)) (table_columns_rows t) = numbered 1 (colnames t).
Proof. exact columns_ordinals_contiguous. Qed.
Print Assumptions C43_columns_ordinals_contiguous_partial.
(* _partial: tables without hidden system columns only *)

Theorem C43_columns_ordinals_refuted :
  option_map (fun t => map (fun r => (nth 1 r 0, nth 2 r 0)) (table_columns_rows t)) (find_tbl 1 (run h_gap empty))
  = Some [(10, 1); (11, 2); (12, 4)].
Proof. exact ordinal_gap. Qed.
Print Assumptions C43_columns_ordinals_refuted.

(* STATISTICS / SHOW INDEXES: exactly one row per index (PRIMARY included) and key position, with the prefix length and,
   for a functional key part, the expression instead of a column name *)
Theorem C43_statistics_exact : forall t r,
  In r (table_statistics_rows t) <->
  exists i k x, In i (all_idx t) /\ nth_error (icols i) k = Some x /\
    r = [tname t; bN (negb (iuniq i)); iname i; N.of_nat k + 1; col_shown t x; col_nullable t x; sub_part i k; col_expr t x].
Proof. exact statistics_rows_exact. Qed.
Print Assumptions C43_statistics_exact.

(* TABLE_CONSTRAINTS: exactly the checks, the primary key, the unique indexes and the foreign keys of each table *)
Theorem C43_constraints_exact : forall c r,
  In r (table_constraints_rows c) <->
  exists t, In t (tables c) /\
    ((exists k, In k (tchk t) /\ r = [kname k; tname t; T_CHECK])
     \/ (exists i, In i (all_idx t) /\ ((iname i = PRIMARY /\ r = [iname i; tname t; T_PK])
                                       \/ (iname i <> PRIMARY /\ iuniq i = true /\ r = [iname i; tname t; T_UNIQ])))
     \/ (exists f, In f (fks c) /\ ftable f = tname t /\ r = [fname f; tname t; T_FK])).
Proof. exact constraints_rows_exact. Qed.
Print Assumptions C43_constraints_exact.

Theorem C43_routines_exact : forall c, routines_rows c = map (fun p => [pname p; pval p]) (procs c).
Proof. exact routines_rows_exact. Qed.
Print Assumptions C43_routines_exact.

(* The set model for every kind of object.  One statement: views / triggers / routines / foreign keys, and every table
   with its columns, indexes and checks, are afterwards what the statement makes of what was there before (created ones
   appended with the given definition, dropped ones removed, renamed ones renamed, everything else untouched -- also by
   rejected statements, except the leaks spelled out in [fks_after], [idx_after], [chk_after]) *)
Theorem C43_objects_after_statement : forall o c,
  views (exec o c) = views_after o c /\ trigs (exec o c) = trigs_after o c /\
  procs (exec o c) = procs_after o c /\ fks (exec o c) = fks_after o c.
Proof. exact step_other_objects. Qed.
Print Assumptions C43_objects_after_statement.

Theorem C43_tables_after_statement : forall o c m, find_tbl m (exec o c) = tbl_after o c m.
Proof. exact step_tables. Qed.
Print Assumptions C43_tables_after_statement.

Theorem C43_columns_indexes_checks_after_statement : forall o c m,
  option_map tcols (find_tbl m (exec o c)) = cols_after o c m /\
  option_map tidx (find_tbl m (exec o c)) = idx_after o c m /\
  option_map tchk (find_tbl m (exec o c)) = chk_after o c m.
Proof. intros o c m. split; [exact (step_columns o c m) | split; [exact (step_indexes o c m) | exact (step_checks o c m)]]. Qed.
Print Assumptions C43_columns_indexes_checks_after_statement.

(* ... and by induction over ALL histories (from the empty catalog): the objects after h ++ [o] are the set model's
   image of the objects after h *)
Theorem C43_objects_follow_history : forall h o,
  views (run (h ++ [o]) empty) = views_after o (run h empty) /\
  trigs (run (h ++ [o]) empty) = trigs_after o (run h empty) /\
  procs (run (h ++ [o]) empty) = procs_after o (run h empty) /\
  fks (run (h ++ [o]) empty) = fks_after o (run h empty).
Proof. exact history_other_objects. Qed.
Print Assumptions C43_objects_follow_history.

Theorem C43_columns_indexes_checks_follow_history : forall h o m,
  option_map tcols (find_tbl m (run (h ++ [o]) empty)) = cols_after o (run h empty) m /\
  option_map tidx (find_tbl m (run (h ++ [o]) empty)) = idx_after o (run h empty) m /\
  option_map tchk (find_tbl m (run (h ++ [o]) empty)) = chk_after o (run h empty) m.
Proof. exact history_table_objects. Qed.
Print Assumptions C43_columns_indexes_checks_follow_history.

Theorem C43_history_starts_empty :
  views (run [] empty) = [] /\ trigs (run [] empty) = [] /\ procs (run [] empty) = [] /\ fks (run [] empty) = [] /\
  forall m, find_tbl m (run [] empty) = None.
Proof. exact history_starts_empty. Qed.
Print Assumptions C43_history_starts_empty.

(* primary key part order: once the table has a functional index SHOW CREATE TABLE lists the key parts in COLUMN order,
   STATISTICS / SHOW INDEXES / KEY_COLUMN_USAGE in key order *)
Theorem C43_show_create_pk_order_refuted :
  show_create_pk (run (removelast h_pkorder) empty) 1 = Some [11; 10] /\
  show_create_pk (run h_pkorder empty) 1 = Some [10; 11] /\
  option_map pk_cols (find_tbl 1 (run h_pkorder empty)) = Some [11; 10].
Proof. exact pk_order_disagrees. Qed.
Print Assumptions C43_show_create_pk_order_refuted.

(* cascade: an accepted DROP TABLE removes the table, its foreign keys and its triggers (so no listing generated
   from the catalog mentions it any more) and nothing else *)
Theorem C43_drop_table_cascade : forall t c c', step (DropTable t) c = (true, c') ->
  ~ In t (tnames c') /\
  (forall f, In f (fks c') -> ftable f <> t /\ fparent f <> t) /\
  (forall g, In g (trigs c') -> gtable g <> t) /\
  (forall x, In x (tables c') <-> In x (tables c) /\ tname x <> t) /\
  views c' = views c /\ procs c' = procs c.
Proof. exact drop_table_cascade. Qed.
Print Assumptions C43_drop_table_cascade.

(* an accepted RENAME TABLE moves exactly one name *)
Theorem C43_rename_moves_exactly_one : forall t u c c', step (RenameTable t u) c = (true, c') ->
  tnames c' = map (ren t u) (tnames c) /\ In t (tnames c) /\ ~ In u (tnames c) /\
  views c' = views c /\ trigs c' = trigs c /\ procs c' = procs c /\ map fname (fks c') = map fname (fks c).
Proof. exact rename_table_moves_one. Qed.
Print Assumptions C43_rename_moves_exactly_one.

(* Model facts about DDL atomicity.  They are NOT part of C43 (the listings agree with whatever the catalog holds);
   they record where the code -- and therefore the model -- lets a rejected statement change the catalog, which is
   where the driver cuts a history for the implementation-side predicate.  A rejected statement leaves the catalog
   as it was, except the four statements of [no_leak]: *)
Theorem C43_model_rejected_statement_no_effect_partial : forall o c,
  no_leak o c = true -> fst (step o c) = false -> snd (step o c) = c.
Proof. exact rejected_statement_no_effect. Qed.
Print Assumptions C43_model_rejected_statement_no_effect_partial.
(* _partial (of the model fact, not of C43): excluded are CREATE TABLE over a view's name, RENAME TABLE to an existing name, ADD FOREIGN KEY and
   DROP COLUMN, which the code (and therefore the model) lets change the catalog although they fail. *)

Theorem C43_model_note_rejected_create_changes_catalog :
  exists o c, fst (step o c) = false /\ tables (snd (step o c)) <> tables c.
Proof. exact rejected_create_has_effect. Qed.
Print Assumptions C43_model_note_rejected_create_changes_catalog.

Theorem C43_model_note_rejected_rename_rewrites_foreign_keys :
  fst (step (RenameTable 1 3) (run (removelast h_fk) empty)) = false /\
  map fparent (fks (run (removelast h_fk) empty)) = [1] /\ map fparent (fks (run h_fk empty)) = [3].
Proof. exact rejected_rename_rewrites_fk. Qed.
Print Assumptions C43_model_note_rejected_rename_rewrites_foreign_keys.

(* VIEWS lists a subset of the views, all of them while every definition still resolves; a view whose base column was
   renamed exists (TABLES lists it) but is not listed in VIEWS *)
Theorem C43_views_exact_partial : forall c,
  (forall r, In r (views_rows c) -> exists v, In v (views c) /\ r = vname v :: vbase v :: vcols v) /\
  (forallb (view_resolves c) (views c) = true ->
   views_rows c = map (fun v => vname v :: vbase v :: vcols v) (views c)).
Proof. intros c. split; [exact (views_rows_sound c) | exact (views_rows_exact_when_resolving c)]. Qed.
Print Assumptions C43_views_exact_partial.

Theorem C43_views_exact_refuted :
  map vname (views (run h_view empty)) = [30] /\ In [30; VIEWT] (tables_rows (run h_view empty)) /\
  views_rows (run h_view empty) = [].
Proof. exact view_not_listed. Qed.
Print Assumptions C43_views_exact_refuted.

(* SHOW TRIGGERS lists every trigger while each trigger's table exists; RENAME TABLE leaves the trigger on the old
   name, after which neither SHOW TRIGGERS nor information_schema.TRIGGERS can be read and DROP TABLE is refused *)
Theorem C43_show_triggers_exact_partial : forall c, forallb (trig_loads c) (trigs c) = true ->
  show_triggers_rows c = Some (map (fun g => [gname g; gevent g; gtable g; bN (gbefore g); ref_code (gref g)]) (trigs c)).
Proof. exact show_triggers_exact_when_loading. Qed.
Print Assumptions C43_show_triggers_exact_partial.

Theorem C43_triggers_exact_refuted :
  map gname (trigs (run h_trig empty)) = [40] /\ show_triggers_rows (run h_trig empty) = None /\
  is_triggers_rows (run h_trig empty) = None /\ fst (step (DropTable 2) (run h_trig empty)) = false.
Proof. exact triggers_unlistable. Qed.
Print Assumptions C43_triggers_exact_refuted.

(* PRIMARY KEY (11, 12), RENAME COLUMN 12 TO 13: the key listed afterwards is (13, 10), not (11, 13) *)
Theorem C43_primary_key_after_rename_refuted :
  option_map pk_cols (find_tbl 1 (run (removelast h_pk) empty)) = Some [11; 12] /\
  option_map pk_cols (find_tbl 1 (run h_pk empty)) = Some [13; 10].
Proof. exact pk_garbled. Qed.
Print Assumptions C43_primary_key_after_rename_refuted.

(* non-vacuity: a history with accepted CREATE / ALTER / RENAME / DROP statements and its listings *)
Example C43_nonvacuous :
  map (fun o => fst (step o (run [] empty))) [hd (DropTable 0) h_ok] = [true] /\
  tnames (run (firstn 6 h_ok) empty) = [1; 3] /\
  table_constraints_rows (run (firstn 6 h_ok) empty)
    = [[PRIMARY; 1; T_PK]; [50; 1; T_UNIQ]; [60; 3; T_CHECK]; [PRIMARY; 3; T_PK]; [20; 3; T_FK]] /\
  fst (step (DropTable 1) (run (firstn 6 h_ok) empty)) = false /\
  tables_rows (run h_ok empty) = [].
Proof. repeat split; vm_compute; reflexivity. Qed.
