(* C26 — Comparison of values is a consistent total order per type.
   Only statements, each closed by [exact], each followed by Print Assumptions.
   Model: Codec/C26Compare.v (NumberTypeImpl_.Compare, DecimalType_.Compare, CompareNulls). *)
From Coq Require Import ZArith Bool List.
Import ListNotations.
From GMS Require Import Codec.C25Arith Codec.C27Convert Codec.C26Compare Codec.C26CompareProofs.
Open Scope Z_scope.

(* for every integer type (all widths, signed / unsigned) and DECIMAL (column and non-column), over all values
   including NULL, integers of every Go carrier and decimals: *)
Theorem C26_compare_reflexive : forall t a, compare t a a = 0.
Proof. exact compare_refl. Qed.
Print Assumptions C26_compare_reflexive.

Theorem C26_compare_antisymmetric : forall t a b, compare t a b = - compare t b a.
Proof. exact compare_antisym. Qed.
Print Assumptions C26_compare_antisymmetric.

Theorem C26_compare_transitive :
  forall t a b c, wf_type t -> wf a -> wf b -> wf c ->
    compare t a b <= 0 -> compare t b c <= 0 -> compare t a c <= 0.
Proof. exact compare_trans. Qed.
Print Assumptions C26_compare_transitive.

Theorem C26_compare_equality_transitive :
  forall t a b c, wf_type t -> wf a -> wf b -> wf c ->
    compare t a b = 0 -> compare t b c = 0 -> compare t a c = 0.
Proof. exact compare_eq_trans. Qed.
Print Assumptions C26_compare_equality_transitive.

Theorem C26_compare_total : forall t a b, compare t a b = -1 \/ compare t a b = 0 \/ compare t a b = 1.
Proof. exact compare_total. Qed.
Print Assumptions C26_compare_total.

(* "NULL sorts before every non-NULL value" is FALSE of the faithful model: CompareNulls returns +1 for
   (NULL, non-NULL), i.e. NULL is consistently the greatest element (ORDER BY handles NULLs itself) *)
Theorem C26_null_first_refuted :
  forall t x, compare t CNull (CV x) = 1 /\ compare t (CV x) CNull = -1 /\ compare t CNull CNull = 0.
Proof. exact null_sorts_last. Qed.
Print Assumptions C26_null_first_refuted.

(* compare = compare after Convert: holds for column DECIMAL types (both quantize to the column scale) ... *)
Theorem C26_compare_via_convert_column_decimal :
  forall p s x y x' y' fx fy, 0 <= s -> wf_val x -> wf_val y ->
    conv_dec p s true x = COk x' fx -> conv_dec p s true y = COk y' fy ->
    compare (CDec s true) (CV x) (CV y) = compare (CDec s true) (CV x') (CV y').
Proof. exact via_convert_column_decimal. Qed.
Print Assumptions C26_compare_via_convert_column_decimal.

(* ... and is refuted for non-column DECIMAL types (Convert rounds, Compare does not) and for unsigned integer
   types on negative fractions above -0.5 (Compare wraps them to huge values, Convert rounds them to 0) *)
Theorem C26_compare_via_convert_refuted :
  (compare (CDec 2 false) (CV (SD 1001 3)) (CV (SD 1002 3)) = -1 /\
   conv_dec 10 2 false (SD 1001 3) = COk (SD 100 2) InRange /\ conv_dec 10 2 false (SD 1002 3) = COk (SD 100 2) InRange /\
   compare (CDec 2 false) (CV (SD 100 2)) (CV (SD 100 2)) = 0) /\
  (compare (CInt U32) (CV (SD (-499) 3)) (CV (SU 37)) = 1 /\
   conv_int U32 (SD (-499) 3) = COk (SU 0) InRange /\ conv_int U32 (SU 37) = COk (SU 37) InRange /\
   compare (CInt U32) (CV (SU 0)) (CV (SU 37)) = -1).
Proof. exact (conj via_convert_noncolumn_decimal via_convert_unsigned_negative_fraction). Qed.
Print Assumptions C26_compare_via_convert_refuted.

Example C26_nonvacuous :
  compare (CInt I8) (CV (SI 300)) (CV (SI 400)) = -1 /\
  compare (CInt I64) (CV (SU 9223372036854775808)) (CV (SU 18446744073709551615)) = 0 /\
  compare (CInt U8) (CV (SI (-1))) (CV (SU 255)) = 1 /\
  compare (CDec 2 true) (CV (SD 1001 3)) (CV (SD 1002 3)) = 0 /\
  compare (CDec 2 false) (CV (SI 1)) (CV (SD 10 1)) = 0.
Proof. exact nonvacuous_compares. Qed.
Print Assumptions C26_nonvacuous.
