(* C26 — Comparison of values is a consistent total order per type.
   Only statements, each closed by [exact], each followed by Print Assumptions.
   Model: Codec/C26Compare.v (NumberTypeImpl_.Compare, DecimalType_.Compare, CompareNulls). *)
From Coq Require Import ZArith Bool List.
Import ListNotations.
From GMS Require Import Codec.C25Arith Codec.C27Convert Codec.C27Enum Codec.C26Compare Codec.C26CompareProofs.
From GMS Require Import Codec.C32Json Codec.C32JsonCompare.
Open Scope Z_scope.

(* for every integer type (all widths, signed / unsigned), DECIMAL (column and non-column), DATE, DATETIME(p),
   TIMESTAMP(p), YEAR, TIME and strings under a binary collation, over all values including NULL: *)
Theorem C26_compare_reflexive : forall t a, compare t a a = 0.
Proof. exact compare_refl. Qed.
Print Assumptions C26_compare_reflexive.

Theorem C26_compare_antisymmetric : forall t a b, compare t a b = - compare t b a.
Proof. exact compare_antisym. Qed.
Print Assumptions C26_compare_antisymmetric.

Theorem C26_compare_transitive :
  forall t a b c, wf_type t -> wf_for t a -> wf_for t b -> wf_for t c ->
    compare t a b <= 0 -> compare t b c <= 0 -> compare t a c <= 0.
Proof. exact compare_trans. Qed.
Print Assumptions C26_compare_transitive.

Theorem C26_compare_equality_transitive :
  forall t a b c, wf_type t -> wf_for t a -> wf_for t b -> wf_for t c ->
    compare t a b = 0 -> compare t b c = 0 -> compare t a c = 0.
Proof. exact compare_eq_trans. Qed.
Print Assumptions C26_compare_equality_transitive.

Theorem C26_compare_total : forall t a b, compare t a b = -1 \/ compare t a b = 0 \/ compare t a b = 1.
Proof. exact compare_total. Qed.
Print Assumptions C26_compare_total.

(* "NULL sorts before every non-NULL value" is FALSE of the faithful model: CompareNulls returns +1 for
   (NULL, non-NULL), i.e. NULL is consistently the greatest element (ORDER BY handles NULLs itself) *)
Theorem C26_null_first_refuted :
  forall t x, x <> CNull -> compare t CNull x = 1 /\ compare t x CNull = -1 /\ compare t CNull CNull = 0.
Proof. exact null_sorts_last. Qed.
Print Assumptions C26_null_first_refuted.

(* compare = compare after Convert: holds for column DECIMAL types (both quantize to the column scale) ... *)
Theorem C26_compare_via_convert_column_decimal :
  forall p s x y x' y' fx fy, 0 <= s -> wf_val x -> wf_val y ->
    conv_dec p s true x = COk x' fx -> conv_dec p s true y = COk y' fy ->
    compare (CDec s true) (CV x) (CV y) = compare (CDec s true) (CV x') (CV y').
Proof. exact via_convert_column_decimal. Qed.
Print Assumptions C26_compare_via_convert_column_decimal.

(* ... and is refuted for non-column DECIMAL types (Convert rounds, Compare does not) and for unsigned integer
   types on negative fractions above -0.5 (Compare wraps them to huge values, Convert rounds them to 0) *)
Theorem C26_compare_via_convert_refuted :
  (compare (CDec 2 false) (CV (SD 1001 3)) (CV (SD 1002 3)) = -1 /\
   conv_dec 10 2 false (SD 1001 3) = COk (SD 100 2) InRange /\ conv_dec 10 2 false (SD 1002 3) = COk (SD 100 2) InRange /\
   compare (CDec 2 false) (CV (SD 100 2)) (CV (SD 100 2)) = 0) /\
  (compare (CInt U32) (CV (SD (-499) 3)) (CV (SU 37)) = 1 /\
   conv_int U32 (SD (-499) 3) = COk (SU 0) InRange /\ conv_int U32 (SU 37) = COk (SU 37) InRange /\
   compare (CInt U32) (CV (SU 0)) (CV (SU 37)) = -1).
Proof. exact (conj via_convert_noncolumn_decimal via_convert_unsigned_negative_fraction). Qed.
Print Assumptions C26_compare_via_convert_refuted.

(* strings under a binary collation (VARBINARY; utf8mb4_bin on valid UTF-8) are ordered byte-wise, a proper prefix
   first ([cmp_bytes]); the laws above cover them, and equal means identical *)
Theorem C26_binary_collation_equal_iff_identical :
  forall p q, compare CBin (CX (TStr p)) (CX (TStr q)) = 0 <-> p = q.
Proof. exact binary_compare_equal_iff. Qed.
Print Assumptions C26_binary_collation_equal_iff_identical.

(* temporal types are ordered by the microsecond count [us_of] (DATE: truncated to the day; text operands rounded to
   the type's precision); that count is the chronological order over EVERY valid date of the years 1000..9999 *)
Theorem C26_day_count_is_chronological :
  forall y1 m1 d1 y2 m2 d2, valid_date y1 m1 d1 -> valid_date y2 m2 d2 ->
    (y1 < y2 \/ (y1 = y2 /\ (m1 < m2 \/ (m1 = m2 /\ d1 < d2)))) ->
    days_from_civil y1 m1 d1 < days_from_civil y2 m2 d2.
Proof. exact days_strictly_chronological. Qed.
Print Assumptions C26_day_count_is_chronological.

Theorem C26_microsecond_count_is_chronological :
  forall y1 m1 d1 h1 mi1 s1 us1 y2 m2 d2 h2 mi2 s2 us2,
    valid_date y1 m1 d1 -> valid_date y2 m2 d2 -> valid_tod h1 mi1 s1 us1 -> valid_tod h2 mi2 s2 us2 ->
    (y1 < y2 \/ (y1 = y2 /\ (m1 < m2 \/ (m1 = m2 /\ d1 < d2)))) ->
    us_of y1 m1 d1 h1 mi1 s1 us1 < us_of y2 m2 d2 h2 mi2 s2 us2.
Proof. exact us_of_strictly_chronological. Qed.
Print Assumptions C26_microsecond_count_is_chronological.

Theorem C26_same_day_is_chronological :
  forall y m d h1 mi1 s1 us1 h2 mi2 s2 us2, valid_tod h1 mi1 s1 us1 -> valid_tod h2 mi2 s2 us2 ->
    (h1 < h2 \/ (h1 = h2 /\ (mi1 < mi2 \/ (mi1 = mi2 /\ (s1 < s2 \/ (s1 = s2 /\ us1 < us2)))))) ->
    us_of y m d h1 mi1 s1 us1 < us_of y m d h2 mi2 s2 us2.
Proof. exact us_of_same_day_chronological. Qed.
Print Assumptions C26_same_day_is_chronological.

Example C26_temporal_nonvacuous :
  compare (CDatetime 0) (CX (TTime 1500 6 15 0 0 0 0)) (CX (TTime 2000 1 1 0 0 0 0)) = -1 /\
  compare (CDatetime 6) (CX (TTime 9999 12 31 23 59 59 999999)) (CX (TText 2000 1 1 0 0 0 0)) = 1 /\
  compare CDate (CX (TTime 2024 2 29 23 0 0 0)) (CX (TText 2024 2 29 0 0 0 0)) = 0 /\
  compare (CDatetime 0) (CX (TText 2023 1 15 10 30 45 500000)) (CX (TTime 2023 1 15 10 30 46 0)) = 0 /\
  compare CYear (CX (TYearI 69)) (CX (TYearS 70)) = 1 /\
  compare CBin (CX (TStr [97])) (CX (TStr [97; 98])) = -1 /\
  days_from_civil 1970 1 1 = 0 /\ days_from_civil 2000 3 1 = 11017.
Proof. exact nonvacuous_temporal. Qed.
Print Assumptions C26_temporal_nonvacuous.

(* ENUM (by index; values that are not members sort first), SET (by bit mask) and BIT (by value) are ordered by the
   keys of Codec/C27Enum.v through the same [compare]; the laws above cover them.  Their keys on valid values: *)
Theorem C26_enum_set_bit_order_is_by_value :
  forall n a b,
    compare (CEnum n) (CX (TNum a)) (CX (TNum b)) = sgn_cmp (key_enum n a) (key_enum n b) /\
    compare (CSet n) (CX (TNum a)) (CX (TNum b)) = sgn_cmp (key_set n a) (key_set n b) /\
    compare (CBit n) (CX (TNum a)) (CX (TNum b)) = sgn_cmp (key_bit n a) (key_bit n b).
Proof. intros n a b. repeat split. Qed.
Print Assumptions C26_enum_set_bit_order_is_by_value.

(* JSON: the comparison of the C32 model (types.CompareJSON: type precedence, then structural, objects compared on
   their byte-wise sorted form) is a total preorder whose equality is equality of the sorted documents
   (definitions and proofs of Codec/C32Json.v / C32JsonCompare.v, re-stated here) *)
Theorem C26_json_compare_reflexive : forall a, compare_json a a = Eq.
Proof. exact compare_json_refl. Qed.
Print Assumptions C26_json_compare_reflexive.

Theorem C26_json_compare_antisymmetric : forall a b, compare_json b a = CompOpp (compare_json a b).
Proof. exact compare_json_total. Qed.
Print Assumptions C26_json_compare_antisymmetric.

Theorem C26_json_compare_transitive :
  forall a b c, compare_json a b <> Gt -> compare_json b c <> Gt -> compare_json a c <> Gt.
Proof. exact compare_json_trans. Qed.
Print Assumptions C26_json_compare_transitive.

Theorem C26_json_compare_equal_iff : forall a b, compare_json a b = Eq <-> sort_bytewise a = sort_bytewise b.
Proof. exact compare_json_eq_iff. Qed.
Print Assumptions C26_json_compare_equal_iff.

Example C26_nonvacuous :
  compare (CInt I8) (CV (SI 300)) (CV (SI 400)) = -1 /\
  compare (CInt I64) (CV (SU 9223372036854775808)) (CV (SU 18446744073709551615)) = 0 /\
  compare (CInt U8) (CV (SI (-1))) (CV (SU 255)) = 1 /\
  compare (CDec 2 true) (CV (SD 1001 3)) (CV (SD 1002 3)) = 0 /\
  compare (CDec 2 false) (CV (SI 1)) (CV (SD 10 1)) = 0.
Proof. exact nonvacuous_compares. Qed.
Print Assumptions C26_nonvacuous.
