(* C15 — A failed data-modifying statement has no effect.
   Only statements, each closed by [exact], each followed by Print Assumptions.
   Model: Store/C15Editor.v (TableEditorIter + the memory tableEditor's StatementBegin / DiscardChanges /
   StatementComplete / Close); proofs: Store/C15EditorProofs.v.  [T] is the whole table data — rows AND secondary
   index storage — so "unchanged" covers rows, index contents and therefore every read. *)
From Coq Require Import List Bool Arith.
Import ListNotations.
From GMS Require Import Store.C15Editor Store.C15EditorProofs.

(* failure at ANY row position: [pre] is the (arbitrarily long) run of row-edit calls that succeeded before the
   failing one; whatever ApplyEdits would have done, the statement reports the error and the session's table is
   exactly the one before the statement *)
Theorem C15_stmt_atomic_failure_at_any_row_position :
  forall (T E : Type) (apply_opt : nat -> T -> list E -> option T * T) (t : T) (pre post : list (call E)),
    all_good E pre = true ->
    run_stmt T E apply_opt t (pre ++ CBad false :: post) = (RErr, t).
Proof. exact stmt_atomic_at_any_position. Qed.
Print Assumptions C15_stmt_atomic_failure_at_any_row_position.

Theorem C15_stmt_atomic_first_failure_decides :
  forall (T E : Type) (apply_opt : nat -> T -> list E -> option T * T) (t : T) (cs : list (call E)),
    first_bad E cs = Some false -> run_stmt T E apply_opt t cs = (RErr, t).
Proof. exact stmt_atomic. Qed.
Print Assumptions C15_stmt_atomic_first_failure_decides.

(* an injected storage error at the k-th row-edit call, for EVERY k within the statement *)
Theorem C15_stmt_atomic_injected_storage_error_at_every_call :
  forall (T E : Type) (apply_opt : nat -> T -> list E -> option T * T) (t : T) (cs : list (call E)) (k : nat),
    1 <= k <= length cs -> all_good E (firstn (k - 1) cs) = true ->
    run_stmt T E apply_opt t (inject E k cs) = (RErr, t).
Proof. exact stmt_atomic_injected. Qed.
Print Assumptions C15_stmt_atomic_injected_storage_error_at_every_call.

(* a statement all of whose calls succeed applies every one of its row changes (ApplyEdits total) *)
Theorem C15_stmt_all_or_nothing :
  forall (T E : Type) (apply : T -> list E -> T) (t : T) (cs : list (call E)),
    all_good E cs = true -> (forall x, apply x [] = x) ->
    run_stmt T E (total_apply T E apply) t cs = (ROk, apply t (good_edits E cs)).
Proof. exact stmt_all_or_nothing. Qed.
Print Assumptions C15_stmt_all_or_nothing.

(* with a BEFORE INSERT trigger the TARGET table is still restored ... *)
Theorem C15_trigger_statement_restores_target_table :
  forall (T E : Type) (apply_opt : nat -> T -> list E -> option T * T) (A : Type) (audit_edit : A -> E)
         (t other : T) (cs : list (A * call E)),
    first_bad_trig E A cs = Some false ->
    exists other', run_stmt_trig T E apply_opt A audit_edit t other cs = (RErr, t, other').
Proof. exact stmt_trig_target_atomic. Qed.
Print Assumptions C15_trigger_statement_restores_target_table.

(* ... but the rows the trigger wrote into the other table for rows 1..k stay (memory.Session refuses savepoints,
   so triggerRollbackIter cannot undo them): the property is false of the faithful model *)
Theorem C15_trigger_effects_survive_failure_refuted :
  exists (cs : list (nat * call nat)) (other other' : list nat),
    first_bad_trig nat nat cs = Some false /\
    run_stmt_trig (list nat) nat app_apply nat (fun a => a) [] other cs = (RErr, [], other') /\ other' <> other.
Proof.
  exists [(101, CGood 1); (102, CGood 2); (103, CBad false)], [], [101; 102; 103].
  split; [reflexivity|]. split; [exact trigger_effects_survive | discriminate].
Qed.
Print Assumptions C15_trigger_effects_survive_failure_refuted.

(* if ApplyEdits itself fails, StatementComplete returns nil, Close reports the error, and the edits ApplyEdits had
   already made stay in the session's table (not exhibited on the implementation: no fault hook inside ApplyEdits) *)
Theorem C15_apply_edits_failure_leaves_partial_edits_refuted :
  exists (apply_opt : nat -> list nat -> list nat -> option (list nat) * list nat) (cs : list (call nat)) (t' : list nat),
    all_good nat cs = true /\ run_stmt (list nat) nat apply_opt [] cs = (RErr, t') /\ t' <> [].
Proof.
  exists failing_apply, [CGood 1; CGood 2], [1; 1].
  split; [reflexivity|]. split; [exact apply_failure_leaves_partial_edits | discriminate].
Qed.
Print Assumptions C15_apply_edits_failure_leaves_partial_edits_refuted.

(* exhibited on the implementation with memory.VerifC15ResetApplyFault: a one-shot storage error in the ApplyEdits call
   of tableEditor.Close — after StatementComplete applied and published the edits — makes the statement report an
   error although every change is in place ... *)
Theorem C15_apply_error_at_close_reported_after_publish_refuted :
  exists (apply_opt : nat -> list nat -> list nat -> option (list nat) * list nat) (cs : list (call nat)) (t t' : list nat),
    all_good nat cs = true /\ run_stmt (list nat) nat apply_opt t cs = (RErr, t') /\ t' <> t.
Proof.
  exists close_fault_apply, [CGood 1; CGood 2], [7], [7; 1; 2].
  split; [reflexivity|]. split; [exact apply_error_at_close_after_publish | discriminate].
Qed.
Print Assumptions C15_apply_error_at_close_reported_after_publish_refuted.

(* ... while the same one-shot error in StatementComplete's call is swallowed (StatementComplete returns nil) and
   repaired by the retry in Close: the statement succeeds with all changes *)
Example C15_apply_error_in_statement_complete_is_swallowed :
  run_stmt (list nat) nat first_fault_apply [7] [CGood 1; CGood 2] = (ROk, [7; 1; 2]).
Proof. exact apply_error_in_statement_complete_is_swallowed. Qed.
Print Assumptions C15_apply_error_in_statement_complete_is_swallowed.

Example C15_nonvacuous :
  run_stmt (list nat) nat app_apply [7] (inject nat 3 [CGood 1; CGood 2; CGood 3; CGood 4]) = (RErr, [7]) /\
  run_stmt (list nat) nat app_apply [7] [CGood 1; CGood 2; CGood 3; CGood 4] = (ROk, [7; 1; 2; 3; 4]).
Proof. split; reflexivity. Qed.
Print Assumptions C15_nonvacuous.
