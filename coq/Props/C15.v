(* C15 — A failed data-modifying statement has no effect.
   Only statements, each closed by [exact], each followed by Print Assumptions.
   Model: Store/C15Editor.v (TableEditorIter + the memory tableEditor's StatementBegin / DiscardChanges /
   StatementComplete / Close); proofs: Store/C15EditorProofs.v.  [T] is the whole table data — rows AND secondary
   index storage — so "unchanged" covers rows, index contents and therefore every read. *)
From Coq Require Import List Bool Arith.
Import ListNotations.
From Coq Require Import ZArith.
From GMS Require Import Store.C15Editor Store.C15EditorProofs Store.C16Alias.

(* failure at ANY row position: [pre] is the (arbitrarily long) run of row-edit calls that succeeded before the
   failing one; whatever ApplyEdits would have done, the statement reports the error and the session's table is
   exactly the one before the statement *)
Theorem C15_stmt_atomic_failure_at_any_row_position :
  forall (T E : Type) (apply_opt : nat -> T -> list E -> option T * T) (t : T) (pre post : list (call E)),
    all_good E pre = true ->
    run_stmt T E apply_opt t (pre ++ CBad false :: post) = (RErr, t).
Proof. exact stmt_atomic_at_any_position. Qed.
Print Assumptions C15_stmt_atomic_failure_at_any_row_position.

Theorem C15_stmt_atomic_first_failure_decides :
  forall (T E : Type) (apply_opt : nat -> T -> list E -> option T * T) (t : T) (cs : list (call E)),
    first_bad E cs = Some false -> run_stmt T E apply_opt t cs = (RErr, t).
Proof. exact stmt_atomic. Qed.
Print Assumptions C15_stmt_atomic_first_failure_decides.

(* an injected storage error at the k-th row-edit call, for EVERY k within the statement *)
Theorem C15_stmt_atomic_injected_storage_error_at_every_call :
  forall (T E : Type) (apply_opt : nat -> T -> list E -> option T * T) (t : T) (cs : list (call E)) (k : nat),
    1 <= k <= length cs -> all_good E (firstn (k - 1) cs) = true ->
    run_stmt T E apply_opt t (inject E k cs) = (RErr, t).
Proof. exact stmt_atomic_injected. Qed.
Print Assumptions C15_stmt_atomic_injected_storage_error_at_every_call.

(* a statement none of whose calls returns an error to the iterator (accumulated edits, errors handled by the row
   iterator as in ON DUPLICATE KEY UPDATE / REPLACE, mid-statement IndexedAccess applies) applies every one of its row
   changes (ApplyEdits total and compositional) *)
Theorem C15_stmt_all_or_nothing :
  forall (T E : Type) (apply : T -> list E -> T),
    (forall x, apply x [] = x) -> (forall x a b, apply x (a ++ b) = apply (apply x a) b) ->
    forall (t : T) (cs : list (call E)),
      all_good E cs = true -> run_stmt T E (total_apply T E apply) t cs = (ROk, apply t (good_edits E cs)).
Proof. exact stmt_all_or_nothing. Qed.
Print Assumptions C15_stmt_all_or_nothing.

(* the mid-statement apply (tableEditor.IndexedAccess, [CFlush]) and handled errors ([CHandled]) do not weaken
   atomicity AS LONG AS the snapshot is a value copy: an instance of the first theorem with such calls in the prefix *)
Theorem C15_stmt_atomic_with_mid_statement_apply_and_handled_errors :
  forall (T E : Type) (apply_opt : nat -> T -> list E -> option T * T) (t : T) (e1 e2 : E) (post : list (call E)),
    run_stmt T E apply_opt t ([CGood e1; CFlush; CHandled; CGood e2; CFlush] ++ CBad false :: post) = (RErr, t).
Proof. intros. apply stmt_atomic_at_any_position. reflexivity. Qed.
Print Assumptions C15_stmt_atomic_with_mid_statement_apply_and_handled_errors.

(* ... which the implementation's snapshot is not: TableData.copy() shares the index storage rows that the
   mid-statement ApplyEdits patches in place (model Store/C16Alias.v; witness = the self-referential FK finding) *)
Theorem C15_snapshot_restore_with_shared_index_cells_refuted :
  ~ restores 1 w_heap w_data [[10; 1]; [11; 2]]%Z.
Proof. exact restoration_refuted. Qed.
Print Assumptions C15_snapshot_restore_with_shared_index_cells_refuted.

(* INSERT IGNORE (CheckpointingTableEditorIter: every row is its own statement): without a hard error every accepted
   row is applied, ignorable errors skip their row ... *)
Theorem C15_insert_ignore_applies_accepted_rows :
  forall (T E : Type) (apply : T -> list E -> T),
    (forall x, apply x [] = x) -> (forall x a b, apply x (a ++ b) = apply (apply x a) b) ->
    forall (t : T) (cs : list (call E)),
      no_hard E cs = true -> run_stmt_ckpt T E (total_apply T E apply) t cs = (ROk, apply t (good_edits E cs)).
Proof. exact ckpt_success. Qed.
Print Assumptions C15_insert_ignore_applies_accepted_rows.

(* ... but a hard (storage) error at row k reports the error and keeps exactly the rows accepted before it *)
Theorem C15_insert_ignore_hard_error_keeps_earlier_rows :
  forall (T E : Type) (apply : T -> list E -> T),
    (forall x, apply x [] = x) -> (forall x a b, apply x (a ++ b) = apply (apply x a) b) ->
    forall (t : T) (pre post : list (call E)),
      no_hard E pre = true ->
      run_stmt_ckpt T E (total_apply T E apply) t (pre ++ CBad false :: post) = (RErr, apply t (good_edits E pre)).
Proof. exact ckpt_hard_error_keeps_earlier_rows. Qed.
Print Assumptions C15_insert_ignore_hard_error_keeps_earlier_rows.

Theorem C15_insert_ignore_storage_error_is_not_atomic_refuted :
  exists (cs : list (call nat)) (t t' : list nat),
    run_stmt_ckpt (list nat) nat app_apply t cs = (RErr, t') /\ t' <> t.
Proof.
  exists [CGood 1; CBad true; CGood 3; CBad false; CGood 5], [7], [7; 1; 3].
  split; [exact ckpt_keeps_rows_witness | discriminate].
Qed.
Print Assumptions C15_insert_ignore_storage_error_is_not_atomic_refuted.

(* with a BEFORE INSERT trigger the TARGET table is still restored ... *)
Theorem C15_trigger_statement_restores_target_table :
  forall (T E : Type) (apply_opt : nat -> T -> list E -> option T * T) (A : Type) (audit_edit : A -> E)
         (t other : T) (cs : list (option A * call E)),
    first_bad_trig E A cs = Some false ->
    exists other', run_stmt_trig T E apply_opt A audit_edit t other cs = (RErr, t, other').
Proof. exact stmt_trig_target_atomic. Qed.
Print Assumptions C15_trigger_statement_restores_target_table.

(* ... but the rows the trigger wrote into the other table for rows 1..k stay (memory.Session refuses savepoints,
   so triggerRollbackIter cannot undo them): the property is false of the faithful model *)
Theorem C15_trigger_effects_survive_failure_refuted :
  exists (cs : list (option nat * call nat)) (other other' : list nat),
    first_bad_trig nat nat cs = Some false /\
    run_stmt_trig (list nat) nat app_apply nat (fun a => a) [] other cs = (RErr, [], other') /\ other' <> other.
Proof.
  exists [(Some 101, CGood 1); (Some 102, CGood 2); (Some 103, CBad false)], [], [101; 102; 103].
  split; [reflexivity|]. split; [exact trigger_effects_survive | discriminate].
Qed.
Print Assumptions C15_trigger_effects_survive_failure_refuted.

(* the same when the trigger body itself fails (SIGNAL) at row 3: the audit rows of rows 1 and 2 stay *)
Theorem C15_trigger_signal_effects_survive_refuted :
  exists (cs : list (option nat * call nat)) (other other' : list nat),
    first_bad_trig nat nat cs = Some false /\
    run_stmt_trig (list nat) nat app_apply nat (fun a => a) [] other cs = (RErr, [], other') /\ other' <> other.
Proof.
  exists [(Some 101, CGood 1); (Some 102, CGood 2); (None, CGood 3)], [], [101; 102].
  split; [reflexivity|]. split; [exact trigger_signal_effects_survive | discriminate].
Qed.
Print Assumptions C15_trigger_signal_effects_survive_refuted.

(* if ApplyEdits fails persistently, the error is reported and the edits ApplyEdits had already made stay in the
   session's table (a persistent failure is not exhibited on the implementation: the hook is one-shot) *)
Theorem C15_apply_edits_failure_leaves_partial_edits_refuted :
  exists (apply_opt : nat -> list nat -> list nat -> option (list nat) * list nat) (cs : list (call nat)) (t' : list nat),
    all_good nat cs = true /\ run_stmt (list nat) nat apply_opt [] cs = (RErr, t') /\ t' <> [].
Proof.
  exists failing_apply, [CGood 1; CGood 2], [1; 1].
  split; [reflexivity|]. split; [exact apply_failure_leaves_partial_edits | discriminate].
Qed.
Print Assumptions C15_apply_edits_failure_leaves_partial_edits_refuted.

(* exhibited on the implementation with memory.VerifC15ResetApplyFault: a one-shot storage error in the ApplyEdits call
   of tableEditor.Close — after StatementComplete applied and published the edits — makes the statement report an
   error although every change is in place ... *)
Theorem C15_apply_error_at_close_reported_after_publish_refuted :
  exists (apply_opt : nat -> list nat -> list nat -> option (list nat) * list nat) (cs : list (call nat)) (t t' : list nat),
    all_good nat cs = true /\ run_stmt (list nat) nat apply_opt t cs = (RErr, t') /\ t' <> t.
Proof.
  exists close_fault_apply, [CGood 1; CGood 2], [7], [7; 1; 2].
  split; [reflexivity|]. split; [exact apply_error_at_close_after_publish | discriminate].
Qed.
Print Assumptions C15_apply_error_at_close_reported_after_publish_refuted.

(* since /repo 647a7064d an ApplyEdits failure inside StatementComplete is never swallowed: the statement reports it *)
Theorem C15_apply_error_in_statement_complete_is_reported :
  forall (T E : Type) (apply_opt : nat -> T -> list E -> option T * T) (t : T) (cs : list (call E)),
    all_good E cs = true -> (forall t' es, fst (apply_opt 1 t' es) = None) ->
    fst (run_stmt T E apply_opt t cs) = RErr.
Proof. exact stmt_complete_error_is_reported. Qed.
Print Assumptions C15_apply_error_in_statement_complete_is_reported.

(* ... but it is still not atomic: TableEditorIter.Close does not discard after a StatementComplete error, and the
   inner Close (tableEditor.Close) retries ApplyEdits and publishes — reported as failed, fully applied *)
Theorem C15_apply_error_reported_but_applied_by_close_retry_refuted :
  exists (apply_opt : nat -> list nat -> list nat -> option (list nat) * list nat) (cs : list (call nat)) (t t' : list nat),
    all_good nat cs = true /\ run_stmt (list nat) nat apply_opt t cs = (RErr, t') /\ t' <> t.
Proof.
  exists first_fault_apply, [CGood 1; CGood 2], [7], [7; 1; 2].
  split; [reflexivity|]. split; [exact apply_error_in_statement_complete_is_reported_but_applied | discriminate].
Qed.
Print Assumptions C15_apply_error_reported_but_applied_by_close_retry_refuted.

(* the INSERT IGNORE history that used to SUCCEED without its first row now reports the error *)
Example C15_apply_error_in_insert_ignore_is_reported :
  run_stmt_ckpt (list nat) nat first_fault_apply [7] [CGood 1; CBad true; CGood 3] = (RErr, [7; 1]).
Proof. exact apply_error_in_insert_ignore_is_reported. Qed.
Print Assumptions C15_apply_error_in_insert_ignore_is_reported.

Example C15_nonvacuous :
  run_stmt (list nat) nat app_apply [7] (inject nat 3 [CGood 1; CGood 2; CGood 3; CGood 4]) = (RErr, [7]) /\
  run_stmt (list nat) nat app_apply [7] [CGood 1; CGood 2; CGood 3; CGood 4] = (ROk, [7; 1; 2; 3; 4]).
Proof. split; reflexivity. Qed.
Print Assumptions C15_nonvacuous.
