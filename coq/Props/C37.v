(* C37 — Process list and KILL track and cancel exactly the targeted work.
   Model: Sys/ProcessList.v (every ProcessList method is one atomic step; AddConnection is two).
   [well_formed es] = the history is accepted by the specification machine [sstep] (the call discipline
   of server/context.go and server/handler.go, any interleaving across connections, Kill anywhere).
   Only statements, each closed by [exact], each followed by Print Assumptions. *)
From Coq Require Import List NArith ZArith.
Import ListNotations.
From GMS Require Import Sys.ProcessList Sys.ProcessListProofs gen.C37CallSites Sys.C37Discipline.
Open Scope N_scope.

(* Processes() shows only connected sessions, each with exactly its running query (or none) *)
Theorem C37_processes_are_live_sessions_with_their_query :
  forall es g, srun sinit es = Some g ->
  forall p, In p (processes (run init es)) ->
    exists ph, lookup (sess g) (p_conn p) = Some ph /\ ph <> SPending /\ shows ph p.
Proof. exact processes_sound. Qed.
Print Assumptions C37_processes_are_live_sessions_with_their_query.

(* every connected session is shown, with its running query *)
Theorem C37_every_live_session_is_shown :
  forall es g, srun sinit es = Some g ->
  forall c ph, lookup (sess g) c = Some ph -> ph <> SPending ->
    exists p, In p (processes (run init es)) /\ p_conn p = c /\ shows ph p.
Proof. exact processes_complete. Qed.
Print Assumptions C37_every_live_session_is_shown.

Theorem C37_one_entry_per_connection :
  forall es g, srun sinit es = Some g -> NoDup (map p_conn (processes (run init es))).
Proof. exact processes_one_entry_per_connection. Qed.
Print Assumptions C37_one_entry_per_connection.

(* Threads_connected = number of sessions of the history = entries shown + connections that are between
   the two halves of AddConnection (the counter is bumped before the mutex is taken) *)
Theorem C37_threads_connected_eq :
  forall es g, srun sinit es = Some g ->
  let s := run init es in
  tc s = cnt anyv (sess g) /\
  tc s = (Z.of_nat (length (processes s)) + cnt is_pending (sess g))%Z.
Proof. exact threads_connected_eq. Qed.
Print Assumptions C37_threads_connected_eq.

(* Threads_running = number of running queries of the history = entries shown in command Query *)
Theorem C37_threads_running_eq :
  forall es g, srun sinit es = Some g ->
  let s := run init es in
  tr s = cnt is_squery (sess g) /\
  tr s = Z.of_nat (length (filter is_query (processes s))).
Proof. exact threads_running_eq. Qed.
Print Assumptions C37_threads_running_eq.

(* facts about ILL-FORMED API histories (not refutations of the property: the server registers a connection
   before it runs queries and draws pids from a counter, so these calls are outside the discipline and outside the
   property's quantifier): a BeginQuery that returns an error has already incremented Threads_running
   (processlist.go BeginQuery) and nothing decrements it again, so the well-formedness premise of
   C37_threads_running_eq cannot be dropped *)
Theorem C37_failed_begin_unregistered_outside_discipline :
  exists es, snd (step (run init es) (EBeginQ 2 7 1)) = OErrNotRegistered /\
             tr (run init (es ++ [EBeginQ 2 7 1])) <> running_shown (run init (es ++ [EBeginQ 2 7 1])).
Proof. exact failed_begin_unregistered_outside_discipline. Qed.
Print Assumptions C37_failed_begin_unregistered_outside_discipline.

Theorem C37_failed_begin_pid_in_use_outside_discipline :
  exists es, well_formed es /\ snd (step (run init es) (EBeginQ 2 7 1)) = OErrPidUsed /\
             tr (run init (es ++ [EBeginQ 2 7 1])) <> running_shown (run init (es ++ [EBeginQ 2 7 1])).
Proof. exact failed_begin_pid_in_use_outside_discipline. Qed.
Print Assumptions C37_failed_begin_pid_in_use_outside_discipline.

(* under the discipline no call fails or panics: Begin* return the next new context, the rest return *)
Theorem C37_wellformed_calls_succeed :
  forall es g e g', srun sinit es = Some g -> sstep g e = Some g' ->
  good_outcome e (snd (step (run init es) e)) (next (run init es)).
Proof. exact wellformed_calls_succeed. Qed.
Print Assumptions C37_wellformed_calls_succeed.

(* Kill(c), after ANY history: nothing changes except that c's current context (if any) is cancelled *)
Theorem C37_kill_cancels_exactly_target :
  forall es c,
  let s := run init es in
  let s' := fst (step s (EKill c)) in
  procs s' = procs s /\ byq s' = byq s /\ tc s' = tc s /\ tr s' = tr s /\ next s' = next s /\
  forall k, In k (cancelled s') <->
            In k (cancelled s) \/ exists p, lookup (procs s) c = Some p /\ p_kill p = Some k.
Proof. exact kill_cancels_exactly_target. Qed.
Print Assumptions C37_kill_cancels_exactly_target.

(* after ANY history, no call about connection c (Kill, EndQuery, EndOperation, RemoveConnection, ...)
   cancels the current context of another connection *)
Theorem C37_other_connections_never_cancelled :
  forall es e c' p' k',
  let s := run init es in
  conn_of e <> c' -> lookup (procs s) c' = Some p' -> p_kill p' = Some k' ->
  ~ In k' (cancelled s) -> ~ In k' (cancelled (fst (step s e))).
Proof. exact other_connections_never_cancelled. Qed.
Print Assumptions C37_other_connections_never_cancelled.

(* KILL of a connection that runs a query does cancel that query's context *)
Theorem C37_kill_cancels_running_query :
  forall es g c pid q, srun sinit es = Some g -> lookup (sess g) c = Some (SQuery pid q) ->
  let s := run init es in
  exists p k, lookup (procs s) c = Some p /\ p_qpid p = pid /\ p_kill p = Some k /\
              In k (cancelled (fst (step s (EKill c)))).
Proof. exact kill_cancels_running_query. Qed.
Print Assumptions C37_kill_cancels_running_query.

(* a cancellation never leaks into later work: the context returned by BeginQuery/BeginOperation after
   ANY history is new (larger than every cancelled id), is not cancelled, and is the connection's target *)
Theorem C37_cancel_does_not_leak :
  forall es e k,
  let s := run init es in
  snd (step s e) = OCtx k ->
  ~ In k (cancelled (fst (step s e))) /\
  (forall k0, In k0 (cancelled (fst (step s e))) -> k0 < k) /\
  exists p, lookup (procs (fst (step s e))) (conn_of e) = Some p /\ p_kill p = Some k.
Proof. exact new_context_is_fresh_and_live. Qed.
Print Assumptions C37_cancel_does_not_leak.

Theorem C37_contexts_never_reused :
  forall es1 e1 es2 e2 k1 k2,
  snd (step (run init es1) e1) = OCtx k1 ->
  snd (step (run init (es1 ++ e1 :: es2)) e2) = OCtx k2 -> k1 < k2.
Proof. exact contexts_never_reused. Qed.
Print Assumptions C37_contexts_never_reused.

(* ---- where the discipline comes from (checked against /repo's current source on every run) ---- *)

(* the ProcessList call sites of the non-test sources (gen/C37CallSites.v, regenerated by the translator) are exactly
   the ones the specification machine was read from: AddConn / ConnReady / SetDB / RemoveConn, ComPrepare /
   ComPrepareParsed / ComBind, doQuery, the tracked row iterator's callback, the KILL statement, Engine.Close *)
Theorem C37_call_sites_are_the_modelled_ones : sites_eqb call_sites expected_sites = true.
Proof. exact call_sites_are_the_modelled_ones. Qed.
Print Assumptions C37_call_sites_are_the_modelled_ones.

(* every BeginQuery / BeginOperation call site is followed, in the same function, by the deferred EndQuery /
   EndOperation (so the bracket is closed on success, error and cancellation alike) *)
Theorem C37_every_begin_has_its_deferred_end : brackets_ok call_sites = true.
Proof. exact every_begin_has_its_deferred_end. Qed.
Print Assumptions C37_every_begin_has_its_deferred_end.

(* the event sequence of every handler entry point (ConnReady; SetDB; Prepare/Bind; doQuery with one or two
   EndQuery calls), issued for an idle connection with a fresh non-zero pid, extends any accepted history to an
   accepted history — whatever the other connections are doing — and leaves the connection idle *)
Theorem C37_handler_command_accepted :
  forall es g c k, srun sinit es = Some g -> lookup (sess g) c = Some SIdle -> cmd_pid_ok g k ->
  exists g', srun sinit (es ++ cmd_events c k) = Some g' /\ lookup (sess g') c = Some SIdle.
Proof. exact handler_command_accepted. Qed.
Print Assumptions C37_handler_command_accepted.

Theorem C37_connection_open_close_accepted :
  forall es g c h, srun sinit es = Some g ->
  (lookup (sess g) c = None ->
     exists g', srun sinit (es ++ [EAddInc c; EAddIns c h]) = Some g' /\ lookup (sess g') c = Some SIdle) /\
  (lookup (sess g) c = Some SIdle ->
     exists g', srun sinit (es ++ [ERemove c]) = Some g' /\ lookup (sess g') c = None).
Proof. exact connection_open_close_accepted. Qed.
Print Assumptions C37_connection_open_close_accepted.

(* non-vacuity: a well-formed history with interleaved connections, a kill, a repeated EndQuery and a
   ConnectionReady inside an operation bracket *)
Example C37_nonvacuous :
  well_formed demo /\
  processes (run init demo) = [mkProc 1 CQuery 9 3 4 2 8 (Some 2)] /\
  tc (run init demo) = 1%Z /\ tr (run init demo) = 1%Z /\ cancelled (run init demo) = [0].
Proof. exact demo_facts. Qed.
Print Assumptions C37_nonvacuous.
