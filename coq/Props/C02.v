(* C02 — Query results match the SQL definition of the query.
   The definition is Rel/C02Logical.v (eval_query / eval_expr); the engine is tied to it by the
   correspondence run (Corr/C02.v).  The theorems below are about the definition: they state that it has
   the NULL, join, grouping, set-operation, ordering and subquery semantics the property names, for ALL
   databases, environments and queries.  Only statements, each closed by [exact]. *)
From Coq Require Import List ZArith NArith Bool Permutation Sorted.
Import ListNotations.
From GMS Require Import Rel.C02Logical Rel.C02LogicalProofs.
Open Scope Z_scope.

(* x NOT IN (.. NULL ..) is never TRUE: list form and subquery form *)
Theorem C02_not_in_null_never_true :
  forall d en a l v,
    eval_expr d en (ENot (EIn a l)) = Ok v ->
    (exists e, In e l /\ eval_expr d en e = Ok VNull) ->
    v <> VInt 1.
Proof. exact not_in_null_never_true. Qed.
Print Assumptions C02_not_in_null_never_true.

Theorem C02_not_in_subquery_null_never_true :
  forall d en a q v rs r,
    eval_expr d en (ENot (EInQ a q)) = Ok v ->
    eval_query d en q = Ok rs -> In (VNull :: r) rs ->
    v <> VInt 1.
Proof. exact not_in_subquery_null_never_true. Qed.
Print Assumptions C02_not_in_subquery_null_never_true.

(* IN: TRUE iff some element is definitely equal, FALSE iff all are definitely different,
   NULL IN (non-empty) is NULL, x IN (empty) is FALSE *)
Theorem C02_in_null_semantics :
  forall x ys t, in3 x ys = Ok t ->
    (t = TT <-> exists y, In y ys /\ cmp3 OEq x y = Ok TT) /\
    (t = TF <-> forall y, In y ys -> cmp3 OEq x y = Ok TF) /\
    (In VNull ys -> t <> TF) /\
    in3 VNull ys = Ok (match ys with [] => TF | _ => TN end).
Proof.
  intros x ys t H. split; [exact (in3_true_iff x ys t H)|]. split; [exact (in3_false_iff x ys t H)|].
  split; [exact (in3_null_elem x ys t H)|exact (in3_null_lhs ys)].
Qed.
Print Assumptions C02_in_null_semantics.

(* LEFT JOIN keeps every left row: with each match, or padded with NULLs when there is none; nothing else *)
Theorem C02_left_join_pads_null :
  forall d en l r on L R rows,
    eval_query d en l = Ok L -> eval_query d en r = Ok R ->
    eval_query d en (QJoin JLeft l r on) = Ok rows ->
    (forall lr, In lr L ->
       (forall rr, In rr R -> on_true d en on (lr ++ rr) = Ok true -> In (lr ++ rr) rows) /\
       ((forall rr, In rr R -> on_true d en on (lr ++ rr) = Ok false) -> In (lr ++ nulls (qwidth d r)) rows)) /\
    (forall rw, In rw rows -> exists lr, In lr L /\
       ((exists rr, In rr R /\ on_true d en on (lr ++ rr) = Ok true /\ rw = lr ++ rr) \/
        ((forall rr, In rr R -> on_true d en on (lr ++ rr) = Ok false) /\ rw = lr ++ nulls (qwidth d r)))).
Proof. exact left_join_pads_null. Qed.
Print Assumptions C02_left_join_pads_null.

Theorem C02_right_join_mirror :
  forall d en l r on L R rows,
    eval_query d en l = Ok L -> eval_query d en r = Ok R ->
    eval_query d en (QJoin JRight l r on) = Ok rows ->
    (forall rr, In rr R ->
       (forall lr, In lr L -> on_true d en on (lr ++ rr) = Ok true -> In (lr ++ rr) rows) /\
       ((forall lr, In lr L -> on_true d en on (lr ++ rr) = Ok false) -> In (nulls (qwidth d l) ++ rr) rows)) /\
    (forall rw, In rw rows -> exists rr, In rr R /\
       ((exists lr, In lr L /\ on_true d en on (lr ++ rr) = Ok true /\ rw = lr ++ rr) \/
        ((forall lr, In lr L -> on_true d en on (lr ++ rr) = Ok false) /\ rw = nulls (qwidth d l) ++ rr))).
Proof. exact right_join_mirror. Qed.
Print Assumptions C02_right_join_mirror.

(* multiplicities: UNION ALL adds, INTERSECT ALL takes the minimum, EXCEPT ALL subtracts (monus),
   the DISTINCT forms return one copy of each qualifying row (row identity: NULL = NULL, 1 = 1.00) *)
Theorem C02_set_op_multiplicities :
  forall x l r,
    count row_eqb x (set_op SUnion true l r) = (count row_eqb x l + count row_eqb x r)%nat /\
    count row_eqb x (set_op SIntersect true l r) = Nat.min (count row_eqb x l) (count row_eqb x r) /\
    count row_eqb x (set_op SExcept true l r) = (count row_eqb x l - count row_eqb x r)%nat /\
    count row_eqb x (set_op SUnion false l r) = (if mem row_eqb x l || mem row_eqb x r then 1 else 0)%nat /\
    count row_eqb x (set_op SIntersect false l r) = (if mem row_eqb x l && mem row_eqb x r then 1 else 0)%nat /\
    count row_eqb x (set_op SExcept false l r) = (if mem row_eqb x l && negb (mem row_eqb x r) then 1 else 0)%nat.
Proof. exact set_op_multiplicities. Qed.
Print Assumptions C02_set_op_multiplicities.

Theorem C02_distinct_multiplicity :
  forall x rows, count row_eqb x (distinct_if true rows) = (if mem row_eqb x rows then 1 else 0)%nat.
Proof. exact distinct_multiplicity. Qed.
Print Assumptions C02_distinct_multiplicity.

(* HAVING is the WHERE of the grouped rows: a grouped block = its groups, then the same
   filter / project / distinct tail as an ungrouped block *)
Theorem C02_having_is_filter_after_group :
  forall d en src wh keys aggs hav proj dist,
    eval_query d en (QGroup src wh keys aggs hav proj dist) =
      bind (group_rows d en src wh keys aggs) (select_tail d en hav proj dist) /\
    eval_query d en (QSelect src wh proj dist) =
      bind (eval_query d en src) (select_tail d en wh proj dist).
Proof.
  intros. split; [exact (having_is_filter_after_group d en src wh keys aggs hav proj dist)
                 |exact (select_is_tail d en src wh proj dist)].
Qed.
Print Assumptions C02_having_is_filter_after_group.

(* LIMIT n OFFSET m is firstn n (skipn m) of the ordered result; ORDER BY permutes and sorts *)
Theorem C02_limit_offset_slice :
  forall d en q keys n off,
    eval_query d en (QOrder q keys (Some (n, off))) =
    bind (eval_query d en (QOrder q keys None)) (fun rows => Ok (firstn n (skipn off rows))).
Proof. exact limit_offset_slice. Qed.
Print Assumptions C02_limit_offset_slice.

Theorem C02_order_by_sorts :
  forall d en q keys rows,
    eval_query d en q = Ok rows ->
    exists sorted, eval_query d en (QOrder q keys None) = Ok sorted /\
      Permutation sorted rows /\ Sorted (fun a b => row_leb keys a b = true) sorted.
Proof. exact order_by_sorts. Qed.
Print Assumptions C02_order_by_sorts.

(* EXISTS is TRUE iff the subquery returns a row (and never NULL) *)
Theorem C02_exists_iff_nonempty :
  forall d en q v,
    eval_expr d en (EExists q) = Ok v ->
    exists rs, eval_query d en q = Ok rs /\ (v = VInt 1 <-> rs <> []) /\ (v = VInt 0 <-> rs = []).
Proof. exact exists_iff_nonempty. Qed.
Print Assumptions C02_exists_iff_nonempty.

(* scalar subquery: no row = NULL, one row = its value, more = error *)
Theorem C02_scalar_subquery_cardinality :
  forall d en q rs,
    eval_query d en q = Ok rs ->
    eval_expr d en (EScalar q) = match rs with [] => Ok VNull | [r] => first_col r | _ => Err ErrCard end.
Proof. exact scalar_subquery_cardinality. Qed.
Print Assumptions C02_scalar_subquery_cardinality.

(* WHERE a IN (subquery) keeps exactly the rows with a definitely-equal partner (semi join), correlated or
   not; mirrors what unnest_in_subqueries.go must preserve *)
Theorem C02_unnest_in_sound :
  forall d en src a q proj out rows,
    eval_query d en (QSelect src (EInQ a q) proj false) = Ok out ->
    eval_query d en src = Ok rows ->
    exists kept,
      mapM (fun rw => mapM (eval_expr d (rw :: en)) proj) kept = Ok out /\
      forall rw, In rw kept <->
        (In rw rows /\ exists x ys, sub_col d en a q rw x ys /\ exists y, In y ys /\ cmp3 OEq x y = Ok TT).
Proof. exact in_subquery_is_semijoin. Qed.
Print Assumptions C02_unnest_in_sound.

(* WHERE a NOT IN (subquery) keeps exactly the rows all of whose comparisons are definitely FALSE:
   the null-aware anti join (a NULL on either side disqualifies the row unless the subquery is empty) *)
Theorem C02_unnest_not_in_null_aware :
  forall d en src a q proj out rows,
    eval_query d en (QSelect src (ENot (EInQ a q)) proj false) = Ok out ->
    eval_query d en src = Ok rows ->
    exists kept,
      mapM (fun rw => mapM (eval_expr d (rw :: en)) proj) kept = Ok out /\
      forall rw, In rw kept <->
        (In rw rows /\ exists x ys, sub_col d en a q rw x ys /\ forall y, In y ys -> cmp3 OEq x y = Ok TF).
Proof. exact not_in_subquery_is_null_aware_antijoin. Qed.
Print Assumptions C02_unnest_not_in_null_aware.

(* non-vacuity: t0 = {1, 2, NULL}, t1 = {1, NULL}.
   SELECT c0 FROM t0 WHERE c0 NOT IN (SELECT c0 FROM t1) is empty, the IN form returns {1},
   and t0 LEFT JOIN t1 ON t0.c0 = t1.c0 pads 2 and NULL. *)
Definition ex_db : db := [(1%nat, [[VInt 1]; [VInt 2]; [VNull]]); (1%nat, [[VInt 1]; [VNull]])].
Definition ex_sub : query := QSelect (QTable 1) (EConst (VInt 1)) [ECol 0 0] false.
Example C02_nonvacuous :
  eval_query ex_db [] (QSelect (QTable 0) (ENot (EInQ (ECol 0 0) ex_sub)) [ECol 0 0] false) = Ok [] /\
  eval_query ex_db [] (QSelect (QTable 0) (EInQ (ECol 0 0) ex_sub) [ECol 0 0] false) = Ok [[VInt 1]] /\
  eval_query ex_db [] (QJoin JLeft (QTable 0) (QTable 1) (ECmp OEq (ECol 0 0) (ECol 0 1)))
    = Ok [[VInt 1; VInt 1]; [VInt 2; VNull]; [VNull; VNull]].
Proof. repeat split; vm_compute; reflexivity. Qed.
Print Assumptions C02_nonvacuous.

(* ---------------------------------------------------------------------------------------------------------
   exec_refines_definition.  Phys/C02Exec.v models the row iterators of sql/rowexec and sql/iters (table scan,
   FilterIter, ProjectIter, joinIter inner / left outer, the transposed right join of planbuilder/factory.go,
   crossJoinIterator, HashLookup, distinctIter, groupByGroupingIter with count / count-distinct / sum / min /
   max / avg buffers, sortIter, LimitIter, offsetIter, UnionIter, IntersectIter, ExceptIter, per-row InSubquery /
   ExistsSubquery / scalar Subquery) as an executor [exec_env] of physical plans; [plan_of] compiles a C02 query
   to the plan a planner without optimisations builds.  For every database, every environment of outer rows
   (so also for correlated subqueries) and every query of the C02 grammar: the plan returns rows iff the
   definition assigns rows, and then the very same rows in the same order (hence the same bag); the plan fails
   iff the definition raises an error.
   Side condition [ok_query d q]: none for queries without RIGHT JOIN ([wf_query], see
   C02_exec_refines_definition_no_right_join); at a RIGHT JOIN the rows of every table of d must have the
   table's width ([wf_db]) and the set operations in the join's right input must combine equally wide
   branches ([wt_query]) -- the transposing projection splits rows at a static width.
   Not part of the statement: which error is raised; real hash collisions (hash keys are the normalised rows);
   sortIter is the definition's own stable insertion sort (sorting is C04's subject); the analyzer's rewrites
   (unnesting, join planning, pushdown, caching) -- the hash-lookup join is tied to the nested-loop join by a
   separate theorem under a key-soundness premise. *)
From GMS Require Import Phys.C02Exec Phys.C02ExecProofs Phys.C02ExecConverse.

Theorem C02_exec_refines_definition :
  forall d en q rows,
    ok_query d q = true ->
    (exec_env d en (plan_of q) = Ok rows <-> eval_query d en q = Ok rows).
Proof. exact exec_agrees_with_definition_ok. Qed.
Print Assumptions C02_exec_refines_definition.

Theorem C02_exec_refines_definition_no_right_join :
  forall d en q rows,
    wf_query q = true ->
    ok_query d q = true /\ (exec_env d en (plan_of q) = Ok rows <-> eval_query d en q = Ok rows).
Proof.
  intros d en q rows W. split; [exact (proj2 (wf_ok_mut d) q W)|exact (exec_agrees_with_definition d en q rows W)].
Qed.
Print Assumptions C02_exec_refines_definition_no_right_join.

Theorem C02_exec_fails_iff_definition_fails :
  forall d en q,
    ok_query d q = true ->
    ((exists e, exec_env d en (plan_of q) = Err e) <-> (exists e, eval_query d en q = Err e)).
Proof. exact exec_fails_iff_definition_fails_ok. Qed.
Print Assumptions C02_exec_fails_iff_definition_fails.

(* top level: sequence under ORDER BY, bag otherwise (the two comparisons of the differential run) *)
Theorem C02_exec_refines_definition_bag :
  forall d q rows,
    ok_query d q = true -> eval_query d [] q = Ok rows ->
    exists out, exec d (plan_of q) = Ok out /\ Permutation out rows /\
                (forall q' keys lim, q = QOrder q' keys lim -> out = rows).
Proof. exact exec_refines_bag. Qed.
Print Assumptions C02_exec_refines_definition_bag.

(* expressions, including per-row IN / EXISTS / scalar subqueries *)
Theorem C02_expr_refines_definition :
  forall d en e v,
    ok_expr d e = true -> (eval_pexpr d en (cexpr e) = Ok v <-> eval_expr d en e = Ok v).
Proof. exact expr_agrees_with_definition_ok. Qed.
Print Assumptions C02_expr_refines_definition.

(* per-operator facts *)
Theorem C02_filter_iter_keeps_true_rows :
  forall ev rows kept, filter_iter ev rows = Ok kept ->
    forall rw, In rw kept <-> (In rw rows /\ cond_true (ev rw) = Ok true).
Proof. exact filter_iter_true. Qed.
Print Assumptions C02_filter_iter_keeps_true_rows.

Theorem C02_join_iter_is_join :
  forall f wr L R,
    join_iter f false wr L R = inner_join (fun rw => holds (f rw)) L R /\
    join_iter f true wr L R =
      outer_join (fun rw => holds (f rw)) (fun l r => l ++ r) (fun l => l ++ nulls wr) L R /\
    inner_join (fun _ => Ok true) L R = Ok (cross_iter L R).
Proof.
  intros. split; [exact (join_iter_inner_eq f wr L R)|]. split; [exact (join_iter_left_eq f wr L R)|exact (cross_join_ok L R)].
Qed.
Print Assumptions C02_join_iter_is_join.

(* the transposed plan of a RIGHT JOIN: B LEFT JOIN A on the physical rows with the re-indexed condition, then
   the column projection, gives A RIGHT JOIN B (rows of B of width wr) *)
Theorem C02_transposed_join_is_right_join :
  forall ev wl wr L R rows0,
    (forall r, In r R -> length r = wr) ->
    join_iter (fun x => ev (transpose_row wr x)) true wl R L = Ok rows0 ->
    outer_join (fun rw => holds (ev rw)) (fun r l => l ++ r) (fun r => nulls wl ++ r) R L =
    Ok (map (transpose_row wr) rows0).
Proof. intros ev wl wr L R rows0. exact (transposed_join_conv ev ev wl wr L R rows0 (fun x v H => H)). Qed.
Print Assumptions C02_transposed_join_is_right_join.

(* the rows of a query have its static width (used for the transposing projection) *)
Theorem C02_query_rows_have_static_width :
  forall d, wf_db d = true ->
  forall q, wt_query d q = true -> forall en rows, eval_query d en q = Ok rows ->
  forall r, In r rows -> length r = qwidth d q.
Proof. exact query_width. Qed.
Print Assumptions C02_query_rows_have_static_width.

Theorem C02_hash_join_is_nested_loop_join :
  forall d en lo l r lk rk on L R rows,
    exec_env d en l = Ok L -> exec_env d en r = Ok R ->
    (forall x, In x L -> exists k, hash_key (fun rw => mapM (eval_pexpr d (rw :: en)) lk) x = Ok k) ->
    (forall y, In y R -> exists k, hash_key (fun rw => mapM (eval_pexpr d (rw :: en)) rk) y = Ok k) ->
    (forall x y, In x L -> In y R -> cond_true (eval_pexpr d ((x ++ y) :: en) on) = Ok true ->
       exists k, hash_key (fun rw => mapM (eval_pexpr d (rw :: en)) lk) x = Ok (Some k) /\
                 hash_key (fun rw => mapM (eval_pexpr d (rw :: en)) rk) y = Ok (Some k)) ->
    exec_env d en (PJoin lo l r on) = Ok rows ->
    exec_env d en (PHashJoin lo l r lk rk on) = Ok rows.
Proof. exact hash_join_plan_ok. Qed.
Print Assumptions C02_hash_join_is_nested_loop_join.

Theorem C02_distinct_iter_is_dedup :
  forall rows, distinct_iter [] rows = dedup row_eqb rows.
Proof. exact distinct_iter_ok. Qed.
Print Assumptions C02_distinct_iter_is_dedup.

(* the streaming group table (get-or-create buffers per key, updateBuffers per row, evalBuffers at the end)
   computes the definition's groups in first-seen order with the definition's aggregates *)
Theorem C02_group_by_iter_is_grouping :
  forall (E : Type) (ev ev' : row -> E -> res val) aggsE kf kf' n kept keyed grows,
    sub kf kf' ->
    (forall fe, In fe aggsE -> sub (fun rw => ev rw (snd fe)) (fun rw => ev' rw (snd fe))) ->
    mapM (fun rw => do k <- kf rw; Ok (k, rw)) kept = Ok keyed ->
    mapM (fun g : row * list row => do avs <- def_avs ev aggsE (snd g); Ok (fst g ++ avs)) (groups_of n keyed) = Ok grows ->
    group_by_iter kf' (paggs ev' aggsE) n kept = Ok grows.
Proof. exact (@group_by_ok). Qed.
Print Assumptions C02_group_by_iter_is_grouping.

Theorem C02_agg_buffer_is_aggregate :
  forall f args,
    (forall av, agg f args = Ok av ->
       exists b, foldM (buf_update f) args (buf_init f) = Ok b /\ buf_eval b = av) /\
    (forall b, foldM (buf_update f) args (buf_init f) = Ok b -> agg f args = Ok (buf_eval b)).
Proof. intros f args. split; [exact (agg_stream f args)|exact (agg_stream_conv f args)]. Qed.
Print Assumptions C02_agg_buffer_is_aggregate.

Theorem C02_limit_offset_iter_is_slice :
  forall n off rows, limit_iter O n (offset_iter off rows) = firstn n (skipn off rows).
Proof. exact limit_offset_ok. Qed.
Print Assumptions C02_limit_offset_iter_is_slice.

Theorem C02_set_op_iters :
  forall l r,
    union_iter false l r = set_op SUnion true l r /\
    union_iter true l r = set_op SUnion false l r /\
    intersect_iter l r = set_op SIntersect true l r /\
    distinct_iter [] (intersect_iter l r) = set_op SIntersect false l r /\
    except_iter false l r = set_op SExcept true l r /\
    except_iter true l r = set_op SExcept false l r.
Proof.
  intros l r. split; [reflexivity|]. split; [exact (distinct_iter_ok (l ++ r))|].
  split; [exact (intersect_iter_ok l r)|]. split; [exact (intersect_distinct_ok l r)|].
  split; [exact (except_iter_ok false l r)|exact (except_iter_ok true l r)].
Qed.
Print Assumptions C02_set_op_iters.

Theorem C02_in_loop_is_in3 :
  forall x ys, in_loop x ys false false = in3 x ys.
Proof. exact in_loop_in3. Qed.
Print Assumptions C02_in_loop_is_in3.

(* non-vacuity: t0(id, grp), t1(id, amount);
   SELECT grp, COUNT( * ), SUM(amount), MIN(amount), AVG(amount), COUNT(DISTINCT t1.id)
   FROM t0 LEFT JOIN t1 ON t0.id = t1.id
   WHERE t0.id IN (SELECT DISTINCT id FROM t1) OR EXISTS (SELECT id FROM t1 WHERE t1.amount < t0.id)
   GROUP BY grp HAVING COUNT( * ) >= 1 ORDER BY 1 LIMIT 5 OFFSET 0
   is in the fragment, the definition gives it three rows, and so does the executor; the same for
   (SELECT id FROM t0 EXCEPT SELECT id FROM t1) UNION ALL (SELECT id FROM t0 INTERSECT SELECT id FROM t1);
   the hash-lookup join on t0.id = t1.id returns the rows of the nested-loop join;
   t0 RIGHT JOIN (t1 UNION ALL t1) ON t0.id = t1.id satisfies the side condition and is executed transposed. *)
Definition ex2_db : db :=
  [(2%nat, [[VInt 1; VInt 10]; [VInt 2; VInt 10]; [VInt 3; VInt 20]; [VNull; VInt 20]; [VInt 5; VNull]]);
   (2%nat, [[VInt 1; VDec 150 2]; [VInt 1; VDec 250 2]; [VInt 3; VDec 400 2]; [VInt 7; VDec 100 2]; [VNull; VDec 999 2]])].
Definition ex2_join : query := QJoin JLeft (QTable 0) (QTable 1) (ECmp OEq (ECol 0 0) (ECol 0 2)).
Definition ex2_where : expr :=
  EOr (EInQ (ECol 0 0) (QSelect (QTable 1) (EConst (VInt 1)) [ECol 0 0] true))
      (EExists (QSelect (QTable 1) (ECmp OLt (ECol 0 1) (ECol 1 0)) [ECol 0 0] false)).
Definition ex2_q : query :=
  QOrder (QGroup ex2_join ex2_where [ECol 0 1]
            [(ACountStar, EConst (VInt 1)); (ASum, ECol 0 3); (AMin, ECol 0 3); (AAvg, ECol 0 3); (ACountDistinct, ECol 0 2)]
            (ECmp OGe (ECol 0 1) (EConst (VInt 1)))
            [ECol 0 0; ECol 0 1; ECol 0 2; ECol 0 3; ECol 0 4; ECol 0 5] false)
         [(0%nat, false)] (Some (5%nat, 0%nat)).
Definition ex2_ids (t : nat) : query := QSelect (QTable t) (EConst (VInt 1)) [ECol 0 0] false.
Definition ex2_set : query :=
  QSetOp SUnion true (QSetOp SExcept false (ex2_ids 0) (ex2_ids 1)) (QSetOp SIntersect false (ex2_ids 0) (ex2_ids 1)).
Definition ex2_right : query :=
  QJoin JRight (QTable 0) (QSetOp SUnion true (QTable 1) (QTable 1)) (ECmp OEq (ECol 0 0) (ECol 0 2)).
Example C02_exec_refines_nonvacuous :
  ok_query ex2_db ex2_right = true /\ wf_query ex2_right = false /\
  eval_query ex2_db [] (QSelect ex2_right (ECmp OLe (ECol 0 3) (EConst (VInt 2))) [ECol 0 0; ECol 0 1; ECol 0 2; ECol 0 3] true) =
    Ok [[VInt 1; VInt 10; VInt 1; VDec 150 2]; [VNull; VNull; VInt 7; VDec 100 2]] /\
  exec ex2_db (plan_of ex2_right) = eval_query ex2_db [] ex2_right /\
  wf_query ex2_q = true /\
  eval_query ex2_db [] ex2_q =
    Ok [[VNull; VInt 1; VNull; VNull; VNull; VInt 0];
        [VInt 10; VInt 3; VDec 400 2; VDec 150 2; VDec 2000000 6; VInt 1];
        [VInt 20; VInt 1; VDec 400 2; VDec 400 2; VDec 4000000 6; VInt 1]] /\
  exec ex2_db (plan_of ex2_q) = eval_query ex2_db [] ex2_q /\
  wf_query ex2_set = true /\
  eval_query ex2_db [] ex2_set = Ok [[VInt 2]; [VInt 5]; [VInt 1]; [VInt 3]; [VNull]] /\
  exec ex2_db (plan_of ex2_set) = eval_query ex2_db [] ex2_set /\
  exec ex2_db (PHashJoin true (PTable 0) (PTable 1) [PCol 0 0] [PCol 0 0] (PCmp OEq (PCol 0 0) (PCol 0 2))) =
    eval_query ex2_db [] ex2_join.
Proof. repeat split; vm_compute; reflexivity. Qed.
Print Assumptions C02_exec_refines_nonvacuous.
