(* C23 - Triggers fire exactly once per affected row, inside the statement.
   Only statements, each closed by [exact], each followed by Print Assumptions.
   Model: Store/C23Trigger.v (per affected row: BEFORE triggers in firing order, the row operation, AFTER triggers in
   firing order; ANY trigger list, ANY table, ANY statement of the three kinds). *)
From Coq Require Import List ZArith Bool.
Import ListNotations.
From GMS Require Import Store.C23Trigger Store.C23TriggerProofs Store.C23Order Store.C23OrderProofs Store.C23Rich Store.C23RichProofs.
Open Scope Z_scope.

(* UPDATE: the audit rows of the statement, by tag, are exactly one block (BEFORE triggers in order, then AFTER triggers in
   order) per matching row, in row order; and every matching row stores what the BEFORE triggers left in NEW *)
Theorem C23_update_fires_once_per_row_in_order :
  forall ts c m tb,
    map tag_of (snd (upd_rows ts c m tb)) = flat_map (fun _ => row_tags ts) (filter m tb) /\
    fst (upd_rows ts c m tb) = map (fun r => if m r then final_new (befores ts) (fst r, snd r + c) else r) tb.
Proof. exact update_fires_once_per_row_in_order. Qed.
Print Assumptions C23_update_fires_once_per_row_in_order.

Theorem C23_delete_fires_once_per_row_in_order :
  forall ts m tb,
    map tag_of (snd (del_rows ts m tb)) = flat_map (fun _ => row_tags ts) (filter m tb) /\
    fst (del_rows ts m tb) = filter (fun r => negb (m r)) tb.
Proof. exact delete_fires_once_per_row_in_order. Qed.
Print Assumptions C23_delete_fires_once_per_row_in_order.

(* INSERT that succeeds: one block per inserted row, and the rows stored are the rows as the BEFORE triggers left them *)
Theorem C23_insert_fires_once_per_row_in_order :
  forall ts rows tb log0 tb' log,
    ins_rows ts rows tb log0 = (tb', log, false) ->
    map tag_of log = map tag_of log0 ++ flat_map (fun _ => row_tags ts) rows /\
    (forall r, In r tb' <-> In r tb \/ In r (map (fun r => final_new (befores ts) r) rows)).
Proof. exact insert_fires_once_per_row_in_order. Qed.
Print Assumptions C23_insert_fires_once_per_row_in_order.

(* a BEFORE trigger's changes to NEW are what gets stored / what later triggers see: the k-th BEFORE trigger logs OLD and
   NEW as left by the k triggers fired before it; the final NEW is the composition of all SETs *)
Theorem C23_old_new_values_correct :
  forall ts old new k t, nth_error ts k = Some t ->
    nth_error (fst (run_before ts old new)) k =
      Some (t_tag t, get (t_x t) old (final_new (firstn k ts) new), get (t_y t) old (final_new (firstn k ts) new)).
Proof. exact run_before_sees. Qed.
Print Assumptions C23_old_new_values_correct.

Theorem C23_before_new_is_stored :
  forall ts old new, snd (run_before ts old new) = final_new ts new.
Proof. exact run_before_new. Qed.
Print Assumptions C23_before_new_is_stored.

(* firing order: creation order; FOLLOWS right after, PRECEDES right before the named trigger *)
Theorem C23_order_creation :
  forall l acc, order_triggers (map (fun t => (t, NoClause)) l) acc = acc ++ l.
Proof. exact order_triggers_creation. Qed.
Print Assumptions C23_order_creation.

Theorem C23_order_follows_precedes :
  forall x g l1 a l2, (forall b, In b l1 -> t_tag b <> g) -> t_tag a = g ->
    place_after x g (l1 ++ a :: l2) = l1 ++ a :: x :: l2 /\ place_before x g (l1 ++ a :: l2) = l1 ++ x :: a :: l2.
Proof. intros; split; [exact (place_after_spec x g l1 a l2 H H0)|exact (place_before_spec x g l1 a l2 H H0)]. Qed.
Print Assumptions C23_order_follows_precedes.

(* False of the faithful model: the triggers' own effects are NOT discarded with a failing statement.
   INSERT INTO t VALUES (3,3),(1,5) fails on the duplicate key 1, t is restored, the three audit rows stay. *)
Theorem C23_effects_atomic_with_statement_refuted :
  exists s tb q tb' log, exec s tb q = (tb', log, true) /\ tb' = tb /\ log <> [].
Proof.
  exists w_trigs, [(1, 11); (2, 12)], (SIns [(3, 3); (1, 5)]), [(1, 11); (2, 12)], [(1, 3, 3); (2, 3, 13); (1, 1, 5)].
  split; [exact effects_not_atomic_witness|split; [reflexivity|discriminate]].
Qed.
Print Assumptions C23_effects_atomic_with_statement_refuted.

Example C23_nonvacuous :
  exec w_trigs [] (SIns [(1, 1); (2, 2)]) = ([(1, 11); (2, 12)], [(1, 1, 1); (2, 1, 11); (1, 2, 2); (2, 2, 12)], false).
Proof. exact nonvacuous_example. Qed.
Print Assumptions C23_nonvacuous.

(* ---- plan.OrderTriggers as it is (Go slice semantics, Store/C23Order.v), ANY number of placement clauses ---- *)
(* no clause among the triggers of the event: the code fires them as MySQL prescribes (creation order per time) *)
Theorem C23_go_order_no_clause_agrees :
  forall l, Forall no_clause l -> go_order l = Some (mysql_order l).
Proof. exact go_order_no_clause. Qed.
Print Assumptions C23_go_order_no_clause_agrees.

(* exactly one clause (trigger x, created after a ++ y :: b, FOLLOWS / PRECEDES y of its own time; any triggers after
   it): the code agrees with MySQL, whatever the list lengths (hence whatever the slice capacities) *)
Theorem C23_go_order_one_clause_agrees :
  forall a y cy b x c l2 g,
    Forall no_clause (a ++ (y, cy) :: b) -> Forall no_clause l2 -> clause_ref c = Some g ->
    (forall e, In e a -> t_tag (fst e) <> g) -> t_tag y = g -> is_before y = is_before x ->
    go_order ((a ++ (y, cy) :: b) ++ (x, c) :: l2) = Some (mysql_order ((a ++ (y, cy) :: b) ++ (x, c) :: l2)).
Proof. exact go_order_one_clause. Qed.
Print Assumptions C23_go_order_one_clause_agrees.

(* two clauses: AFTER tr1, AFTER tr2, AFTER tr3 PRECEDES tr1, BEFORE tr4, BEFORE tr5, BEFORE tr6 FOLLOWS tr4 fires the
   BEFORE triggers 4,5,6 where MySQL prescribes 4,6,5 (the in-place append overwrote triggers[3..], tr6 is never visited) *)
Theorem C23_go_order_second_clause_lost_refuted :
  exists l, option_map (fun p => (map t_tag (fst p), map t_tag (snd p))) (go_order l) = Some ([4; 5; 6], [3; 1; 2]) /\ map t_tag (fst (mysql_order l)) = [4; 6; 5] /\ map t_tag (snd (mysql_order l)) = [3; 1; 2].
Proof.
  exists order_witness. split; [exact order_witness_go|].
  split; [exact (f_equal fst order_witness_mysql)|exact (f_equal snd order_witness_mysql)].
Qed.
Print Assumptions C23_go_order_second_clause_lost_refuted.

(* "exactly once" itself fails: BEFORE tr1, tr2 PRECEDES tr1, tr3 PRECEDES tr1, tr4, tr5 PRECEDES tr4 fires 2,3,1,3,5 -
   tr3 twice and tr4 never, per affected row *)
Theorem C23_go_order_fires_exactly_once_refuted :
  exists l, option_map (fun p => map t_tag (fst p)) (go_order l) = Some [2; 3; 1; 3; 5] /\ map t_tag (fst (mysql_order l)) = [2; 3; 1; 5; 4].
Proof. exists dup_witness. split; [exact dup_witness_go|exact dup_witness_mysql]. Qed.
Print Assumptions C23_go_order_fires_exactly_once_refuted.

(* ---- rich bodies (several statements, IF, conditional SIGNAL, nested INSERT into t2 with its own triggers), primary
   key updates, failing statements (Store/C23Rich.v); ANY trigger lists, ANY nested-insert behaviour [child], both IF
   semantics [blk] ---- *)
(* a statement that succeeds writes exactly one block per affected row, in row order: the bodies of the BEFORE triggers
   in firing order chained through NEW, then the bodies of the AFTER triggers on the stored row (at depth 2 the same
   holds for every nested INSERT: [child2] is such a block); every row operation is done on NEW as the BEFORE triggers
   left it ([stored_new]) *)
Theorem C23_rich_fires_once_per_row_in_order :
  forall child blk ts op rows cur cur' e,
    proc (fun c p => row_step child blk ts op c (fst p) (snd p)) rows cur = (cur', e, Ok) ->
    e = flat_map (fun p => row_effs child blk ts (fst p) (snd p)) rows /\ fold_left (fun c p => match c with
                          | Some c => op (fst p) (stored_new child blk ts (fst p) (snd p)) c
                          | None => None end) rows (Some cur) = Some cur'.
Proof. exact proc_ok_blocks. Qed.
Print Assumptions C23_rich_fires_once_per_row_in_order.

(* the row operation of a row that went through gets NEW as the BEFORE triggers left it *)
Theorem C23_rich_before_new_is_stored :
  forall child blk ts op cur old new cur' e,
    row_step child blk ts op cur old new = (cur', e, Ok) ->
    e = row_effs child blk ts old new /\ op old (stored_new child blk ts old new) cur = Some cur'.
Proof. exact row_step_ok. Qed.
Print Assumptions C23_rich_before_new_is_stored.

(* the engine's IF branch agrees with MySQL's sequential execution when no SET NEW stands before the end of the branch *)
Theorem C23_rich_if_branch_agrees :
  forall child l old new, set_only_last l = true -> run_block child l old new = run_seq child l old new.
Proof. exact run_block_seq. Qed.
Print Assumptions C23_rich_if_branch_agrees.

(* otherwise not: IF NEW.v > 5 THEN SET NEW.v = 5; INSERT INTO audit VALUES (1, NEW.id, NEW.v); END IF stores (2,9) and logs
   9 where MySQL stores (2,5) and logs 5 *)
Theorem C23_rich_if_branch_set_lost_refuted :
  exists s q, rexec s [] q = ([(2, 9)], [EA (1, 2, 9)], Ok) /\ rexec_spec s [] q = ([(2, 5)], [EA (1, 2, 5)], Ok).
Proof. exists if_trigs, (RIns [(2, 9)]). split; [exact if_witness_engine|exact if_witness_mysql]. Qed.
Print Assumptions C23_rich_if_branch_set_lost_refuted.

(* a statement failing in a BEFORE trigger or in the row operation leaves the table as it was ... *)
Theorem C23_rich_before_failure_restores_table :
  forall blk s tb q tb' e, rexec_with blk s tb q = (tb', e, FailRestore) -> tb' = tb.
Proof. exact rexec_restore. Qed.
Print Assumptions C23_rich_before_failure_restores_table.

(* ... but not one failing in an AFTER trigger: rows (1,3), (2,9) of INSERT INTO t VALUES (1,3),(2,9),(3,1) stay *)
Theorem C23_rich_after_failure_keeps_rows_refuted :
  exists s tb q tb' e, rexec s tb q = (tb', e, FailKeep) /\ tb' <> tb.
Proof.
  exists sig_trigs, [], (RIns [(1, 3); (2, 9); (3, 1)]), [(1, 3); (2, 9)], []. split; [exact after_fail_witness|discriminate].
Qed.
Print Assumptions C23_rich_after_failure_keeps_rows_refuted.

(* depth 2: each level fires once per row, the nested block sits where the INSERT INTO t2 stands in the body *)
Example C23_rich_chain_nonvacuous :
  rexec chain_trigs [] (RIns [(1, 3); (2, 9)]) =
    ([(1, 3); (2, 9)],
     [EA (1, 1, 3); EA (11, 1, 3); EC (1, 4); EA (12, 1, 4); EA (2, 1, 3);
      EA (1, 2, 9); EA (11, 2, 9); EC (2, 10); EA (12, 2, 10); EA (2, 2, 9)], Ok).
Proof. exact chain_example. Qed.
Print Assumptions C23_rich_chain_nonvacuous.
