(* C23 - Triggers fire exactly once per affected row, inside the statement.
   Only statements, each closed by [exact], each followed by Print Assumptions.
   Model: Store/C23Trigger.v (per affected row: BEFORE triggers in firing order, the row operation, AFTER triggers in
   firing order; ANY trigger list, ANY table, ANY statement of the three kinds). *)
From Coq Require Import List ZArith Bool.
Import ListNotations.
From GMS Require Import Store.C23Trigger Store.C23TriggerProofs.
Open Scope Z_scope.

(* UPDATE: the audit rows of the statement, by tag, are exactly one block (BEFORE triggers in order, then AFTER triggers in
   order) per matching row, in row order; and every matching row stores what the BEFORE triggers left in NEW *)
Theorem C23_update_fires_once_per_row_in_order :
  forall ts c m tb,
    map tag_of (snd (upd_rows ts c m tb)) = flat_map (fun _ => row_tags ts) (filter m tb) /\
    fst (upd_rows ts c m tb) = map (fun r => if m r then final_new (befores ts) (fst r, snd r + c) else r) tb.
Proof. exact update_fires_once_per_row_in_order. Qed.
Print Assumptions C23_update_fires_once_per_row_in_order.

Theorem C23_delete_fires_once_per_row_in_order :
  forall ts m tb,
    map tag_of (snd (del_rows ts m tb)) = flat_map (fun _ => row_tags ts) (filter m tb) /\
    fst (del_rows ts m tb) = filter (fun r => negb (m r)) tb.
Proof. exact delete_fires_once_per_row_in_order. Qed.
Print Assumptions C23_delete_fires_once_per_row_in_order.

(* INSERT that succeeds: one block per inserted row, and the rows stored are the rows as the BEFORE triggers left them *)
Theorem C23_insert_fires_once_per_row_in_order :
  forall ts rows tb log0 tb' log,
    ins_rows ts rows tb log0 = (tb', log, false) ->
    map tag_of log = map tag_of log0 ++ flat_map (fun _ => row_tags ts) rows /\
    (forall r, In r tb' <-> In r tb \/ In r (map (fun r => final_new (befores ts) r) rows)).
Proof. exact insert_fires_once_per_row_in_order. Qed.
Print Assumptions C23_insert_fires_once_per_row_in_order.

(* a BEFORE trigger's changes to NEW are what gets stored / what later triggers see: the k-th BEFORE trigger logs OLD and
   NEW as left by the k triggers fired before it; the final NEW is the composition of all SETs *)
Theorem C23_old_new_values_correct :
  forall ts old new k t, nth_error ts k = Some t ->
    nth_error (fst (run_before ts old new)) k =
      Some (t_tag t, get (t_x t) old (final_new (firstn k ts) new), get (t_y t) old (final_new (firstn k ts) new)).
Proof. exact run_before_sees. Qed.
Print Assumptions C23_old_new_values_correct.

Theorem C23_before_new_is_stored :
  forall ts old new, snd (run_before ts old new) = final_new ts new.
Proof. exact run_before_new. Qed.
Print Assumptions C23_before_new_is_stored.

(* firing order: creation order; FOLLOWS right after, PRECEDES right before the named trigger *)
Theorem C23_order_creation :
  forall l acc, order_triggers (map (fun t => (t, NoClause)) l) acc = acc ++ l.
Proof. exact order_triggers_creation. Qed.
Print Assumptions C23_order_creation.

Theorem C23_order_follows_precedes :
  forall x g l1 a l2, (forall b, In b l1 -> t_tag b <> g) -> t_tag a = g ->
    place_after x g (l1 ++ a :: l2) = l1 ++ a :: x :: l2 /\ place_before x g (l1 ++ a :: l2) = l1 ++ x :: a :: l2.
Proof. intros; split; [exact (place_after_spec x g l1 a l2 H H0)|exact (place_before_spec x g l1 a l2 H H0)]. Qed.
Print Assumptions C23_order_follows_precedes.

(* False of the faithful model: the triggers' own effects are NOT discarded with a failing statement.
   INSERT INTO t VALUES (3,3),(1,5) fails on the duplicate key 1, t is restored, the three audit rows stay. *)
Theorem C23_effects_atomic_with_statement_refuted :
  exists s tb q tb' log, exec s tb q = (tb', log, true) /\ tb' = tb /\ log <> [].
Proof.
  exists w_trigs, [(1, 11); (2, 12)], (SIns [(3, 3); (1, 5)]), [(1, 11); (2, 12)], [(1, 3, 3); (2, 3, 13); (1, 1, 5)].
  split; [exact effects_not_atomic_witness|split; [reflexivity|discriminate]].
Qed.
Print Assumptions C23_effects_atomic_with_statement_refuted.

Example C23_nonvacuous :
  exec w_trigs [] (SIns [(1, 1); (2, 2)]) = ([(1, 11); (2, 12)], [(1, 1, 1); (2, 1, 11); (1, 2, 2); (2, 2, 12)], false).
Proof. exact nonvacuous_example. Qed.
Print Assumptions C23_nonvacuous.
