(* C14 — Primary and unique keys are enforced exactly.
   Only statements, each closed by [exact], each followed by Print Assumptions.
   Model: Store/C14Editor.v (memory/table_editor.go + the rowexec insert / update / delete iterators). *)
From Coq Require Import List NArith ZArith.
Import ListNotations.
From GMS Require Import Store.C14Editor Store.C14EditorProofs.

(* Over ALL histories of INSERT / INSERT IGNORE / REPLACE / ON DUPLICATE KEY UPDATE / UPDATE / DELETE statements on a
   keyed table: the stored rows never contain two rows with the same primary key AS GO VALUES (columnsMatch equality).
   No guard: ApplyEdits overwrites a stored row with the same key instead of appending, whatever the accumulator holds. *)
Theorem C14_primary_keys_stay_distinct_as_go_values :
  forall sch h rows, keyless sch = false ->
    NoDup (map (key sch) rows) -> NoDup (map (key sch) (run_history sch rows h)).
Proof. exact history_keys_nodup. Qed.
Print Assumptions C14_primary_keys_stay_distinct_as_go_values.

(* hence, when every primary-key column is an integer or has a binary collation, no reachable state holds two rows
   that are equal in the primary key under the collation *)
Theorem C14_no_equal_primary_keys_binary_collation :
  forall sch h, keyless sch = false -> pk_binary sch -> no_equal_keys sch (run_history sch [] h).
Proof. exact history_no_equal_keys_binary. Qed.
Print Assumptions C14_no_equal_primary_keys_binary_collation.

(* without the collation guard the statement is false of the faithful model: 'a' then 'A' under a case-insensitive
   collation are both stored (columnsMatch compares Go strings) *)
Theorem C14_no_equal_primary_keys_refuted :
  exists sch h, keyless sch = false /\ ~ no_equal_keys sch (run_history sch [] h).
Proof. exact (ex_intro _ sch_ci (ex_intro _ h_ci missed_duplicate_ci)). Qed.
Print Assumptions C14_no_equal_primary_keys_refuted.

(* exactness of a plain multi-row INSERT (primary key and unique indexes, Go-value equality, prefixes in bytes):
   when the row-key strings of the statement's rows are injective, the statement is rejected iff some row collides with a
   stored row or with an earlier row of the statement, and otherwise exactly the new rows are added *)
Theorem C14_insert_rejected_iff_collision :
  forall sch rows news, keyless sch = false -> inj_on sch news ->
    impl_exec sch rows (SInsert IPlain news) =
    match spec_insert sch rows news with
    | Some l => (OOk (N.of_nat (length news)) 0, sort_rows sch l)
    | None => (ODupKey, rows)
    end.
Proof. exact insert_plain_exact. Qed.
Print Assumptions C14_insert_rejected_iff_collision.

(* without the injectivity guard it is false: PRIMARY KEY(a,b), INSERT (1,12,0),(11,2,0) into the empty table is
   rejected although the reference accepts both rows (getRowKey prints "112" twice) *)
Theorem C14_insert_rejected_iff_collision_refuted :
  exists sch news, keyless sch = false /\ spec_insert sch [] news = Some news /\
                   impl_exec sch [] (SInsert IPlain news) = (ODupKey, []).
Proof. exact (ex_intro _ sch_ab (ex_intro _ news_ab false_duplicate_composite)). Qed.
Print Assumptions C14_insert_rejected_iff_collision_refuted.

(* unique indexes are NOT protected over all histories: GetByCols answers "not found" as soon as a pending delete
   matches, so REPLACE (1,9),(2,5),(3,5) over (1,5),(2,6),(3,7) with UNIQUE(u) stores u = 5 twice *)
Theorem C14_unique_index_invariant_refuted :
  exists sch h r1 r2 l1 l2 l3,
    run_history sch [] h = l1 ++ r1 :: l2 ++ r2 :: l3 /\ uq_conf (s_uniq sch) [r1] r2 = true.
Proof.
  exact (ex_intro _ sch_u (ex_intro _ h_u (ex_intro _ [VInt 2; VInt 5] (ex_intro _ [VInt 3; VInt 5]
        (ex_intro _ [[VInt 1; VInt 9]] (ex_intro _ [] (ex_intro _ [] unique_freed_value_taken_twice))))))).
Qed.
Print Assumptions C14_unique_index_invariant_refuted.

(* the guard of C14_insert_rejected_iff_collision is satisfiable on a composite key *)
Example C14_nonvacuous :
  inj_on sch_ab [[VInt 1; VInt 2; VInt 0]; [VInt 3; VInt 4; VInt 0]] /\
  impl_exec sch_ab [] (SInsert IPlain [[VInt 1; VInt 2; VInt 0]; [VInt 3; VInt 4; VInt 0]]) =
    (OOk 2 0, [[VInt 1; VInt 2; VInt 0]; [VInt 3; VInt 4; VInt 0]]) /\
  impl_exec sch_ab [[VInt 1; VInt 2; VInt 0]] (SInsert IPlain [[VInt 3; VInt 4; VInt 0]; [VInt 1; VInt 2; VInt 5]]) =
    (ODupKey, [[VInt 1; VInt 2; VInt 0]]).
Proof. split; [exact inj_on_example|split; vm_compute; reflexivity]. Qed.
Print Assumptions C14_nonvacuous.
