(* C14 — Primary and unique keys are enforced exactly.
   Only statements, each closed by [exact], each followed by Print Assumptions.
   Model: Store/C14Editor.v (memory/table_editor.go + the rowexec insert / update / delete iterators). *)
From Coq Require Import List NArith ZArith.
Import ListNotations.
From GMS Require Import Store.C14Editor Store.C14EditorProofs.

(* Over ALL histories of INSERT / INSERT IGNORE / REPLACE / ON DUPLICATE KEY UPDATE / UPDATE / DELETE statements on a
   keyed table: the stored rows never contain two rows with the same primary key AS GO VALUES (columnsMatch equality).
   No guard: ApplyEdits overwrites a stored row with the same key instead of appending, whatever the accumulator holds. *)
Theorem C14_primary_keys_stay_distinct_as_go_values :
  forall sch h rows, keyless sch = false ->
    NoDup (map (key sch) rows) -> NoDup (map (key sch) (run_history sch rows h)).
Proof. exact history_keys_nodup. Qed.
Print Assumptions C14_primary_keys_stay_distinct_as_go_values.

(* hence, when every primary-key column is an integer or has a binary collation, no reachable state holds two rows
   that are equal in the primary key under the collation *)
Theorem C14_no_equal_primary_keys_binary_collation :
  forall sch h, keyless sch = false -> pk_binary sch -> no_equal_keys sch (run_history sch [] h).
Proof. exact history_no_equal_keys_binary. Qed.
Print Assumptions C14_no_equal_primary_keys_binary_collation.

(* without the collation guard the statement is false of the faithful model: 'a' then 'A' under a case-insensitive
   collation are both stored (columnsMatch compares Go strings) *)
Theorem C14_no_equal_primary_keys_refuted :
  exists sch h, keyless sch = false /\ ~ no_equal_keys sch (run_history sch [] h).
Proof. exact (ex_intro _ sch_ci (ex_intro _ h_ci missed_duplicate_ci)). Qed.
Print Assumptions C14_no_equal_primary_keys_refuted.

(* the row key (getRowKey since commit 1b57e874c: every key part is length-prefixed) is injective on rows whose key columns
   hold integers / strings of fixed kinds: length-prefix decoding + injectivity of the decimal rendering *)
Theorem C14_row_key_injective :
  forall sch ks a b, key_kinds sch ks a -> key_kinds sch ks b -> key_str sch a = key_str sch b -> key sch a = key sch b.
Proof. exact row_key_injective. Qed.
Print Assumptions C14_row_key_injective.

(* exactness of a plain multi-row INSERT (primary key and unique indexes, Go-value equality, prefixes in bytes): the
   statement is rejected iff some row collides with a stored row or with an earlier row of the statement, and otherwise
   exactly the new rows are added.  No injectivity guard any more: the rows only have to be well typed in the key. *)
Theorem C14_insert_rejected_iff_collision :
  forall sch ks rows news, keyless sch = false -> Forall (key_kinds sch ks) news ->
    impl_exec sch rows (SInsert IPlain news) =
    match spec_insert sch rows news with
    | Some l => (OOk (N.of_nat (length news)) 0, sort_rows sch l)
    | None => (ODupKey, rows)
    end.
Proof. exact insert_plain_exact_typed. Qed.
Print Assumptions C14_insert_rejected_iff_collision.

(* regression witness of the repaired defect: PRIMARY KEY(a,b), INSERT (1,12,0),(11,2,0) into the empty table is accepted
   (the row keys are "1:12:12" and "2:111:2", formerly "112" twice) *)
Theorem C14_former_key_string_collision_accepted :
  key_str sch_ab [VInt 1; VInt 12; VInt 0] <> key_str sch_ab [VInt 11; VInt 2; VInt 0] /\
  impl_exec sch_ab [] (SInsert IPlain news_ab) = (OOk 2 0, news_ab).
Proof. exact former_false_duplicate_accepted. Qed.
Print Assumptions C14_former_key_string_collision_accepted.

(* unique indexes are NOT protected over all histories: GetByCols answers "not found" as soon as a pending delete
   matches, so REPLACE (1,9),(2,5),(3,5) over (1,5),(2,6),(3,7) with UNIQUE(u) stores u = 5 twice *)
Theorem C14_unique_index_invariant_refuted :
  exists sch h r1 r2 l1 l2 l3,
    run_history sch [] h = l1 ++ r1 :: l2 ++ r2 :: l3 /\ uq_conf (s_uniq sch) [r1] r2 = true.
Proof.
  exact (ex_intro _ sch_u (ex_intro _ h_u (ex_intro _ [VInt 2; VInt 5] (ex_intro _ [VInt 3; VInt 5]
        (ex_intro _ [[VInt 1; VInt 9]] (ex_intro _ [] (ex_intro _ [] unique_freed_value_taken_twice))))))).
Qed.
Print Assumptions C14_unique_index_invariant_refuted.

(* the typing premise of C14_insert_rejected_iff_collision is satisfiable, also on the formerly colliding rows *)
Example C14_nonvacuous :
  Forall (key_kinds sch_ab [KInt; KInt]) news_ab /\
  impl_exec sch_ab [[VInt 1; VInt 12; VInt 0]] (SInsert IPlain [[VInt 11; VInt 2; VInt 0]; [VInt 1; VInt 12; VInt 5]]) =
    (ODupKey, [[VInt 1; VInt 12; VInt 0]]).
Proof. split; [exact key_kinds_example|vm_compute; reflexivity]. Qed.
Print Assumptions C14_nonvacuous.
