(* C22 -- SHOW CREATE output recreates an identical object.
   Only statements, each closed by [exact], each followed by Print Assumptions.
   The model (Lang/ShowCreate.v) is the SHOW CREATE TABLE formatter of go-mysql-server plus a parser for
   exactly the printed sublanguage; the real (vitess) parser and planbuilder are outside the model and are
   tied only by the implementation-side predicate of the driver (drop, re-run, SHOW CREATE again). *)
From Coq Require Import List NArith Bool.
Import ListNotations.
From GMS Require Import Lang.ShowCreate Lang.ShowCreateProofs.
Open Scope N_scope.

(* reading back what SHOW CREATE TABLE printed gives exactly the schema it was printed from: for EVERY
   well-formed schema (any identifiers -- backticks, blanks, keywords, any bytes --, any comments, any
   number of columns / indexes / foreign keys) *)
Theorem C22_parse_print_roundtrip_partial :
  forall t, wf_table t = true -> parse_table (print_table t) = Some t.
Proof. exact parse_print. Qed.
Print Assumptions C22_parse_print_roundtrip_partial.
(* _partial: CHECK constraints, generated columns, expression defaults, b'..'/0x.. defaults, SPATIAL/FULLTEXT/VECTOR
   keys, TEMPORARY and views/triggers/procedures are not in the schema AST. *)

(* hence the printed text determines the schema: two different schemas never print the same *)
Theorem C22_print_injective_partial :
  forall t1 t2, wf_table t1 = true -> wf_table t2 = true -> print_table t1 = print_table t2 -> t1 = t2.
Proof. exact print_injective. Qed.
Print Assumptions C22_print_injective_partial.

(* and printing the re-read schema reproduces the text byte for byte (the round trip is a fixpoint) *)
Theorem C22_print_is_fixpoint_partial :
  forall t, wf_table t = true -> option_map print_table (parse_table (print_table t)) = Some (print_table t).
Proof. exact print_parse_print. Qed.
Print Assumptions C22_print_is_fixpoint_partial.

(* --- defects of the faithful model (excluded by wf_table) --- *)

(* 1. GenerateCreateTableIndexDefinition prints the index comment unescaped: with a quote in it the text
      cannot be read back.  Witness: KEY `k` (`c`) COMMENT 'it's'. *)
Definition idx_comment_witness : table :=
  mktable [116] [mkcol [99] (TyInt IInt false) true false None None []] []
          [mkidx false [107] [([99], None)] [105; 116; 39; 115]] [] None C_utf8mb4_0900_bin [].

Theorem C22_index_comment_quote_refuted :
  exists t, parse_table (print_table t) <> Some t.
Proof.
  exists idx_comment_witness. vm_compute. discriminate.
Qed.
Print Assumptions C22_index_comment_quote_refuted.

(* 2. convertColumnDefaultToString prints an ENUM default as the member index ('%v' of the converted value):
      enum('2','1') DEFAULT '2' prints DEFAULT '1'; re-read, that is member '1', which prints DEFAULT '2'. *)
Definition enum_default_witness : table :=
  mktable [116] [mkcol [104] (TyEnum [[50]; [49]] None) true false (Some (DQuoted [50])) None []] []
          [] [] None C_utf8mb4_0900_bin [].

Theorem C22_enum_default_index_refuted :
  exists t t', parse_table (print_table t) = Some t' /\ str_eqb (print_table t') (print_table t) = false.
Proof.
  exists enum_default_witness.
  exists (mktable [116] [mkcol [104] (TyEnum [[50]; [49]] None) true false (Some (DQuoted [49])) None []] []
          [] [] None C_utf8mb4_0900_bin []).
  split; vm_compute; reflexivity.
Qed.
Print Assumptions C22_enum_default_index_refuted.

(* non-vacuity: a well-formed schema with awkward identifiers, a collation, defaults, comments, keys and a
   foreign key; its text is read back to itself *)
Definition sample : table :=
  mktable [119; 96; 32; 116]
    [mkcol [97; 32; 96] (TyInt IBig true) false true None None [105; 116; 39; 115; 10; 92];
     mkcol [115; 101; 108; 101; 99; 116] (TyVarchar [49; 48] (Some C_utf8mb4_bin)) true false (Some (DQuoted [39; 92])) None [];
     mkcol [100] (TyDatetime 3) true false (Some (DNow 3)) (Some 3) [];
     mkcol [101] (TyEnum [[97; 39]; [98]] None) true false None None []]
    [[97; 32; 96]]
    [mkidx true [107] [([115; 101; 108; 101; 99; 116], Some [53]); ([100], None)] [99]]
    [mkfk [102] [[97; 32; 96]] [112] [[105; 100]] (Some ACascade) (Some ASetNull)]
    (Some [55]) C_utf8mb4_0900_bin [34; 113; 34].

Example C22_nonvacuous :
  wf_table sample = true /\ parse_table (print_table sample) = Some sample.
Proof. split; vm_compute; reflexivity. Qed.
