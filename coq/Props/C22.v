(* C22 -- SHOW CREATE output recreates an identical object.
   Only statements, each closed by [exact], each followed by Print Assumptions.
   The model (Lang/ShowCreate.v) is the SHOW CREATE TABLE formatter of go-mysql-server plus a parser for
   exactly the printed sublanguage; the real (vitess) parser and planbuilder are outside the model and are
   tied only by the implementation-side predicate of the driver (drop, re-run, SHOW CREATE again). *)
From Coq Require Import List NArith Bool.
Import ListNotations.
From GMS Require Import Lang.ShowCreate Lang.ShowCreateProofs Lang.C22Objects.
Open Scope N_scope.

(* reading back what SHOW CREATE TABLE printed gives exactly the schema it was printed from: for EVERY
   well-formed schema (any identifiers -- backticks, blanks, keywords, any bytes --, any comments, any
   number of columns / indexes / foreign keys) *)
Theorem C22_parse_print_roundtrip_partial :
  forall t, wf_table t = true -> parse_table (print_table t) = Some t.
Proof. exact parse_print. Qed.
Print Assumptions C22_parse_print_roundtrip_partial.
(* the schema AST covers CHECK constraints and generated-column / default expressions (opaque parenthesis-balanced text),
   STORED / VIRTUAL generated columns, b'..' and 0x.. defaults and TEMPORARY.
   _partial: SPATIAL/FULLTEXT/VECTOR keys and TARGET_ROW_SIZE are not in the AST; the expression sublanguage is opaque. *)

(* hence the printed text determines the schema: two different schemas never print the same *)
Theorem C22_print_injective_partial :
  forall t1 t2, wf_table t1 = true -> wf_table t2 = true -> print_table t1 = print_table t2 -> t1 = t2.
Proof. exact print_injective. Qed.
Print Assumptions C22_print_injective_partial.

(* and printing the re-read schema reproduces the text byte for byte (the round trip is a fixpoint) *)
Theorem C22_print_is_fixpoint_partial :
  forall t, wf_table t = true -> option_map print_table (parse_table (print_table t)) = Some (print_table t).
Proof. exact print_parse_print. Qed.
Print Assumptions C22_print_is_fixpoint_partial.

(* --- defects of the faithful model (excluded by wf_table) --- *)

(* 1. GenerateCreateTableIndexDefinition prints the index comment unescaped: with a quote in it the text
      cannot be read back.  Witness: KEY `k` (`c`) COMMENT 'it's'. *)
Definition idx_comment_witness : table :=
  mktable false [116] [mkcol [99] (TyInt IInt false) true false None None None []] []
          [mkidx false [107] [([99], None)] [105; 116; 39; 115]] [] [] None C_utf8mb4_0900_bin [].

Theorem C22_index_comment_quote_refuted :
  exists t, parse_table (print_table t) <> Some t.
Proof.
  exists idx_comment_witness. vm_compute. discriminate.
Qed.
Print Assumptions C22_index_comment_quote_refuted.

(* 2. convertColumnDefaultToString prints an ENUM default as the member index ('%v' of the converted value):
      enum('2','1') DEFAULT '2' prints DEFAULT '1'; re-read, that is member '1', which prints DEFAULT '2'. *)
Definition enum_default_witness : table :=
  mktable false [116] [mkcol [104] (TyEnum [[50]; [49]] None) true false None (Some (DQuoted [50])) None []] []
          [] [] [] None C_utf8mb4_0900_bin [].

Theorem C22_enum_default_index_refuted :
  exists t t', parse_table (print_table t) = Some t' /\ str_eqb (print_table t') (print_table t) = false.
Proof.
  exists enum_default_witness.
  exists (mktable false [116] [mkcol [104] (TyEnum [[50]; [49]] None) true false None (Some (DQuoted [49])) None []] []
          [] [] [] None C_utf8mb4_0900_bin []).
  split; vm_compute; reflexivity.
Qed.
Print Assumptions C22_enum_default_index_refuted.

(* 3. with a VIRTUAL generated column SHOW CREATE TABLE prints no CHECK constraint and no table COMMENT (mirrored by
      [shown_checks] / [shown_comment]): they are lost by the round trip.  Witness: (a INT, e INT AS (a) VIRTUAL, CONSTRAINT zc CHECK (a)). *)
Definition virtual_check_witness : table :=
  mktable false [116]
    [mkcol [97] (TyInt IInt false) true false None None None [];
     mkcol [101] (TyInt IInt false) true false (Some ([96; 97; 96], false)) None None []]
    [] [] [] [mkchk [122; 99] [96; 97; 96] true] None C_utf8mb4_0900_bin [].

Theorem C22_virtual_column_hides_checks_refuted :
  exists t t', parse_table (print_table t) = Some t' /\ tchecks t <> tchecks t'.
Proof.
  exists virtual_check_witness. eexists. split; [vm_compute; reflexivity|]. cbn. discriminate.
Qed.
Print Assumptions C22_virtual_column_hides_checks_refuted.

(* ---- SHOW CREATE VIEW / TRIGGER / PROCEDURE ---- *)

(* the view text printed for (name, definition) is read back to exactly that pair when the name has no backtick *)
Theorem C22_view_roundtrip :
  forall name text, no_backtick name = true -> parse_view (print_view name text) = Some (name, text).
Proof. exact view_roundtrip. Qed.
Print Assumptions C22_view_roundtrip.

(* produceCreateViewStatement does not double backticks in the name: v`w cannot be read back, and o`` is read
   back as the different name o` *)
Theorem C22_view_name_backtick_refuted :
  (exists name text, parse_view (print_view name text) = None) /\
  (exists name name' text, parse_view (print_view name text) = Some (name', text) /\ str_eqb name name' = false).
Proof.
  split.
  - exists [118; 96; 119], [120]. vm_compute. reflexivity.
  - exists [111; 96; 96], [111; 96], [120]. split; vm_compute; reflexivity.
Qed.
Print Assumptions C22_view_name_backtick_refuted.

(* triggers / procedures: the stored original statement is echoed; dropping the object and re-running the echoed
   statement yields an object that shows the same text, for every catalog, and leaves every other object alone *)
Theorem C22_stored_program_recreate_echo :
  forall c n s, show_obj c n = Some s ->
    exists c', create_obj (drop_obj c n) n s = Some c' /\ show_obj c' n = Some s /\
               forall m, str_eqb n m = false -> show_obj c' m = show_obj c m.
Proof. exact recreate_echo. Qed.
Print Assumptions C22_stored_program_recreate_echo.

(* non-vacuity: a well-formed schema with awkward identifiers, a collation, defaults, comments, keys and a
   foreign key; its text is read back to itself *)
Definition sample : table :=
  mktable false [119; 96; 32; 116]
    [mkcol [97; 32; 96] (TyInt IBig true) false true None None None [105; 116; 39; 115; 10; 92];
     mkcol [115; 101; 108; 101; 99; 116] (TyVarchar [49; 48] (Some C_utf8mb4_bin)) true false None (Some (DQuoted [39; 92])) None [];
     mkcol [100] (TyDatetime 3) true false None (Some (DNow 3)) (Some 3) [];
     mkcol [101] (TyEnum [[97; 39]; [98]] None) true false None None None [];
     mkcol [103] (TyInt IInt false) true false (Some ([40; 96; 120; 96; 32; 43; 32; 49; 41], true)) None None [118];
     mkcol [104] (TyInt IInt false) true false None (Some (DExpr [40; 96; 120; 96; 32; 42; 32; 50; 41])) None [];
     mkcol [105] (TyBit [53]) true false None (Some (DBit [49; 48; 49])) None [];
     mkcol [106] (TyVarbinary [52]) true false None (Some (DHex [48; 48; 70; 70])) None []]
    [[97; 32; 96]]
    [mkidx true [107] [([115; 101; 108; 101; 99; 116], Some [53]); ([100], None)] [99]]
    [mkfk [102] [[97; 32; 96]] [112] [[105; 100]] (Some ACascade) (Some ASetNull)]
    [mkchk [99; 107] [40; 40; 96; 120; 96; 32; 60; 32; 49; 48; 41; 32; 79; 82; 32; 40; 96; 120; 96; 32; 61; 32; 51; 41; 41] false]
    (Some [55]) C_utf8mb4_0900_bin [34; 113; 34].

Example C22_nonvacuous :
  wf_table sample = true /\ parse_table (print_table sample) = Some sample.
Proof. split; vm_compute; reflexivity. Qed.
