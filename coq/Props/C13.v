(* C13 — DML statements match a reference table model.
   Only statements, each closed by [exact], each followed by Print Assumptions.
   Implementation model: Store/C14Editor.v ([impl_exec]: pkTableEditAccumulator + tableEditor + the rowexec iterators).
   Reference model: Store/C13Refine.v ([spec_exec]: the same statements run row at a time directly on the logical table,
   a list of rows with pairwise different keys = a keyed map; [outcome] carries RowsAffected and Matched). *)
From Coq Require Import List NArith ZArith Permutation.
Import ListNotations.
From GMS Require Import Store.C14Editor Store.C14EditorProofs Store.C13Refine Store.C13RefineProofs.
From GMS Require Import Store.C13Keyless Store.C13KeylessProofs Store.C13Unique Store.C13UniqueHist.

(* One statement (INSERT, INSERT IGNORE, REPLACE, ON DUPLICATE KEY UPDATE, UPDATE, DELETE with WHERE / ORDER BY / LIMIT):
   outcome, counts and stored rows of the editor equal those of the reference, for every keyed table without a unique
   secondary index and with a binary-collated / integer key.  Since getRowKey is length-prefixed (commit 1b57e874c) the
   former guard "row key strings injective" is a theorem (C14_row_key_injective); what remains is typing: the stored
   rows and the statement's rows hold integers / strings of fixed kinds ks in the key columns, and the statement's
   assignments keep it so ([stmt_in_U]; assignments to non-key columns always do, C13_nonkey_assignments_are_typed). *)
Theorem C13_editor_refines_keyed_map :
  forall sch ks, pk_binary sch -> s_uniq sch = [] ->
    forall rows st, Pre sch (key_kinds sch ks) rows -> stmt_in_U (key_kinds sch ks) st ->
      pk_exec sch rows st = spec_exec sch rows st /\ Pre sch (key_kinds sch ks) (snd (spec_exec sch rows st)).
Proof. exact pk_refines_spec_typed. Qed.
Print Assumptions C13_editor_refines_keyed_map.

(* hence every history: the stored rows after each statement are the reference's *)
Theorem C13_history_refines_keyed_map :
  forall sch ks, pk_binary sch -> s_uniq sch = [] ->
    forall h rows, keyless sch = false -> Pre sch (key_kinds sch ks) rows -> Forall (stmt_in_U (key_kinds sch ks)) h ->
      run_history sch rows h = spec_history sch rows h.
Proof. exact history_refines_spec_typed. Qed.
Print Assumptions C13_history_refines_keyed_map.

Theorem C13_nonkey_assignments_are_typed :
  forall sch ks a, (forall x, In x a -> ~ In (fst x) (s_pk sch)) ->
    forall r, key_kinds sch ks r -> key_kinds sch ks (apply_assigns a r).
Proof. exact assigns_nonkey_kinds. Qed.
Print Assumptions C13_nonkey_assignments_are_typed.

(* the general form, for any set U of rows on which the row key is injective (kept: it does not depend on the key format) *)
Theorem C13_editor_refines_keyed_map_on_injective_rows :
  forall sch (U : row -> Prop),
    (forall a b, U a -> U b -> key_str sch a = key_str sch b -> key sch a = key sch b) ->
    pk_binary sch -> s_uniq sch = [] ->
    forall rows st, Pre sch U rows -> stmt_in_U U st ->
      pk_exec sch rows st = spec_exec sch rows st /\ Pre sch U (snd (spec_exec sch rows st)).
Proof. exact pk_refines_spec. Qed.
Print Assumptions C13_editor_refines_keyed_map_on_injective_rows.

(* regression witnesses of the repaired defect: PRIMARY KEY(a,b), rows (1,12,0),(11,2,0) (row keys formerly "112" twice):
   UPDATE t SET c = c + 1 changes both rows, UPDATE t SET a = a + 100, b = b + 100 keeps two rows - as the reference *)
Theorem C13_former_collision_witnesses_refine :
  impl_exec c13_sch c13_rows c13_upd = (OOk 2 2, [[VInt 1; VInt 12; VInt 1]; [VInt 11; VInt 2; VInt 1]]) /\
  spec_exec c13_sch c13_rows c13_upd = (OOk 2 2, [[VInt 1; VInt 12; VInt 1]; [VInt 11; VInt 2; VInt 1]]) /\
  impl_exec c13_sch c13_rows c13_move = (OOk 2 2, [[VInt 101; VInt 112; VInt 0]; [VInt 111; VInt 102; VInt 0]]) /\
  spec_exec c13_sch c13_rows c13_move = (OOk 2 2, [[VInt 101; VInt 112; VInt 0]; [VInt 111; VInt 102; VInt 0]]).
Proof. exact former_witnesses_refine. Qed.
Print Assumptions C13_former_collision_witnesses_refine.

(* the reference keeps the keys of the logical table pairwise different (it is a keyed map), via the refinement *)
Theorem C13_reference_is_a_keyed_map :
  forall sch ks, pk_binary sch -> s_uniq sch = [] ->
    forall rows st, Pre sch (key_kinds sch ks) rows -> stmt_in_U (key_kinds sch ks) st ->
      NoDup (map (key sch) (snd (spec_exec sch rows st))).
Proof.
  exact (fun sch ks Hb Hn rows st HP HS => proj1 (proj2 (pk_refines_spec_typed sch ks Hb Hn rows st HP HS))).
Qed.
Print Assumptions C13_reference_is_a_keyed_map.

(* the premises are satisfiable, on the formerly colliding rows *)
Example C13_nonvacuous :
  pk_binary c13_sch /\ Pre c13_sch (key_kinds c13_sch [KInt; KInt]) c13_rows /\
  stmt_in_U (key_kinds c13_sch [KInt; KInt]) c13_upd.
Proof. exact (conj c13_bin (conj c13_pre c13_upd_typed)). Qed.
Print Assumptions C13_nonvacuous.

(* ================= keyless tables: keylessTableEditAccumulator refines the multiset reference =================
   Reference: Store/C13Keyless.v [ms_exec] - INSERT: rows + news; DELETE: rows - targets; UPDATE: rows - changed +
   map assign changed ("-" removes one occurrence per row), with counts |news| / |targets| / |changed|, matched = |targets|.
   [same_step a b] = same answer (affected, matched) and Permutation of the stored rows. *)

(* one statement, ANY statement of the fragment (all INSERT modes, UPDATE / DELETE with WHERE / ORDER BY / LIMIT), any
   stored rows (duplicates included): the accumulator's cancel-out bookkeeping (Insert cancels a pending delete of an
   equal row, Delete cancels a pending add, deleteHelper removes ONE equal row, ApplyEdits = deletes then adds) yields the
   reference bag and the reference counts.  Premises: no unique index, integer / binary-collated columns. *)
Theorem C13_keyless_editor_refines_multiset :
  forall sch, keyless sch = true -> all_binary sch -> s_uniq sch = [] ->
    forall rows st, same_step (impl_exec sch rows st) (ms_exec sch rows st).
Proof. exact keyless_refines_multiset. Qed.
Print Assumptions C13_keyless_editor_refines_multiset.

(* the reference is a function of the BAG of stored rows (not of the listing) for statements without LIMIT *)
Theorem C13_keyless_reference_respects_bags :
  forall sch st L L', no_limit st -> Permutation L L' -> same_step (ms_exec sch L st) (ms_exec sch L' st).
Proof. exact ms_respects_bags. Qed.
Print Assumptions C13_keyless_reference_respects_bags.

(* hence every history without LIMIT (induction): after each statement the answers are equal and the stored rows are
   the reference's as a bag; the fold_left form gives the final table *)
Theorem C13_keyless_history_refines_multiset :
  forall sch, keyless sch = true -> all_binary sch -> s_uniq sch = [] ->
    forall h rows, Forall no_limit h ->
      Forall2 same_step (trace (impl_exec sch) rows h) (trace (ms_exec sch) rows h) /\
      Permutation (run_history sch rows h) (ms_history sch rows h).
Proof. exact keyless_history_refines_multiset. Qed.
Print Assumptions C13_keyless_history_refines_multiset.

(* every history, LIMIT included: a LIMIT on an unordered table may pick any candidates, so the reference is a relation
   on bags ([bag_step]: some listing of the bag explains answer and new bag); the implementation's trace is a run of it *)
Theorem C13_keyless_history_is_a_multiset_run :
  forall sch, keyless sch = true -> all_binary sch -> s_uniq sch = [] ->
    forall h rows, bag_run sch rows h (trace (impl_exec sch) rows h).
Proof. exact keyless_history_is_bag_run. Qed.
Print Assumptions C13_keyless_history_is_a_multiset_run.

(* not vacuous, and listings do differ: rows (1,0),(2,0),(1,0), UPDATE t SET c0 = c0 + 1 LIMIT 2 *)
Example C13_keyless_nonvacuous :
  all_binary kl_sch /\
  impl_exec kl_sch kl_rows kl_upd = (OOk 2 2, [[VInt 2; VInt 0]; [VInt 1; VInt 0]; [VInt 3; VInt 0]]) /\
  ms_exec kl_sch kl_rows kl_upd = (OOk 2 2, [[VInt 1; VInt 0]; [VInt 2; VInt 0]; [VInt 3; VInt 0]]).
Proof. exact (conj kl_sch_binary kl_witness). Qed.
Print Assumptions C13_keyless_nonvacuous.

(* without the collation premise the statement is false: c0 case-insensitive, rows ('a',1), ('A',2),
   UPDATE t SET c1 = c1 + 1 ORDER BY c1 DESC stores ('A',2), ('A',3): Insert('a',2) cancels the pending Delete('A',2) *)
Theorem C13_keyless_ci_collation_refuted :
  exists sch rows st, keyless sch = true /\ s_uniq sch = [] /\
    ~ Permutation (snd (impl_exec sch rows st)) (snd (ms_exec sch rows st)).
Proof. exact kl_ci_refuted. Qed.
Print Assumptions C13_keyless_ci_collation_refuted.

(* ================= keyed tables WITH unique secondary indexes (any number, prefix lengths included) =================
   The reference rejects a row iff the logical table holds a row with the same unique value ([sp_get_by_cols] is a
   plain find over the logical table; NULLs never collide).  pkTableEditAccumulator.GetByCols instead gives up as soon as
   a pending delete matches, then looks at the pending adds, then at the STORED rows (deleted ones included). *)

(* INSERT, INSERT IGNORE (no pending delete can exist) and DELETE (no probe): reject-iff-duplicate, counts and stored
   rows equal the reference's; no guard beyond the typing premises of C13_editor_refines_keyed_map *)
Theorem C13_unique_index_insert_delete_refine_keyed_map :
  forall sch ks, pk_binary sch ->
    forall rows st, Pre sch (key_kinds sch ks) rows ->
      match st with
      | SInsert IPlain news => Forall (key_kinds sch ks) news
      | SInsert IIgnore news => Forall (key_kinds sch ks) news
      | SDelete _ _ _ => True
      | _ => False
      end ->
      pk_exec sch rows st = spec_exec sch rows st /\ Pre sch (key_kinds sch ks) (snd (spec_exec sch rows st)).
Proof. exact uniq_insert_delete_refines_typed. Qed.
Print Assumptions C13_unique_index_insert_delete_refine_keyed_map.

(* UPDATE (WHERE / ORDER BY / LIMIT) under the guard that excludes the GetByCols defect: the rows written by the
   statement, in the order written, never repeat a unique value ([news_ok]: no value is freed by a delete and then taken
   twice), and the stored rows respect the unique indexes ([urows]).  Then outcome (accepted, or rejected because a new
   row collides with a row of the logical table), counts and stored rows equal the reference's.
   _partial: REPLACE and ON DUPLICATE KEY UPDATE (they delete the row returned by the probe) are not covered. *)
Theorem C13_unique_index_update_refines_keyed_map_partial :
  forall sch ks, pk_binary sch ->
    forall rows a w ord lim, Pre sch (key_kinds sch ks) rows -> urows sch rows ->
      (forall r, key_kinds sch ks r -> key_kinds sch ks (apply_assigns a r)) ->
      news_ok sch (news sch a (targets sch w ord lim rows)) ->
      pk_exec sch rows (SUpdate a w ord lim) = spec_exec sch rows (SUpdate a w ord lim) /\
      Pre sch (key_kinds sch ks) (snd (spec_exec sch rows (SUpdate a w ord lim))).
Proof. exact uniq_update_refines_typed. Qed.
Print Assumptions C13_unique_index_update_refines_keyed_map_partial.

(* the guard is satisfiable and both answers occur: PRIMARY KEY(c0), UNIQUE(c1), rows (1,5), (2,6),
   UPDATE t SET c0 = c0 + 10, c1 = c1 + 1: rejected in storage order (6 is still held by (2,6)), accepted ORDER BY c1 DESC *)
Example C13_unique_index_update_nonvacuous :
  pk_binary uq_sch /\ Pre uq_sch (key_kinds uq_sch [KInt]) uq_rows /\ urows uq_sch uq_rows /\
  news_ok uq_sch (news uq_sch [(0%nat, AAdd 10); (1%nat, AAdd 1)] (targets uq_sch PTrue None None uq_rows)) /\
  pk_exec uq_sch uq_rows uq_shift = (ODupKey, uq_rows) /\
  pk_exec uq_sch uq_rows uq_shift_desc = (OOk 2 2, [[VInt 11; VInt 6]; [VInt 12; VInt 7]]).
Proof.
  exact (conj uq_bin (conj uq_pre (conj uq_urows (conj uq_news_ok
          (conj (proj1 uq_guarded_examples) (proj1 (proj2 (proj2 uq_guarded_examples)))))))).
Qed.
Print Assumptions C13_unique_index_update_nonvacuous.

(* without the guard the refinement is false (both recorded as findings, both inputs in the driver's corpus):
   (1) UPDATE t SET c0 = c0 + 10, c1 = 5 on (1,5), (2,6): the value 5 freed by the pending delete of (1,5) is taken by
       both new rows - stored (11,5), (12,5); the reference rejects;
   (2) REPLACE INTO t VALUES (1,6),(1,7),(2,5) on (1,5): the pending delete of the stored (1,5) is overwritten by the
       delete of the re-added (1,6); the probe for (2,5) finds the stored (1,5) again, REPLACE deletes it once more and
       drops the pending add (1,7): stored (2,5) alone with 6 affected; reference (1,7), (2,5) with 5 affected *)
Theorem C13_unique_index_unguarded_refuted :
  exists sch rows st, pk_exec sch rows st <> spec_exec sch rows st.
Proof.
  exists uq_sch, uq_rows, uq_take. intros E.
  rewrite (proj1 (proj1 uq_unguarded_refuted)), (proj2 (proj1 uq_unguarded_refuted)) in E. discriminate.
Qed.
Print Assumptions C13_unique_index_unguarded_refuted.

Theorem C13_unique_index_witnesses_refuted :
  (pk_exec uq_sch uq_rows uq_take = (OOk 2 2, [[VInt 11; VInt 5]; [VInt 12; VInt 5]]) /\
   spec_exec uq_sch uq_rows uq_take = (ODupKey, uq_rows)) /\
  (pk_exec uq_sch uq_stale_rows uq_stale = (OOk 6 0, [[VInt 2; VInt 5]]) /\
   spec_exec uq_sch uq_stale_rows uq_stale = (OOk 5 0, [[VInt 1; VInt 7]; [VInt 2; VInt 5]])).
Proof. exact uq_unguarded_refuted. Qed.
Print Assumptions C13_unique_index_witnesses_refuted.

(* the reference keeps the stored rows consistent with the unique indexes, for EVERY statement kind (REPLACE and ON
   DUPLICATE KEY UPDATE included) and without any typing premise *)
Theorem C13_reference_respects_unique_indexes :
  forall sch rows st, urows sch rows -> urows sch (snd (spec_exec sch rows st)).
Proof. exact spec_exec_urows. Qed.
Print Assumptions C13_reference_respects_unique_indexes.

(* hence histories on tables with unique indexes (induction): if every statement is an INSERT, INSERT IGNORE, DELETE or an
   UPDATE whose guard holds on the table the reference has reached ([uq_hist_ok]), the stored rows after the history are the
   reference's.  _partial: REPLACE / ON DUPLICATE KEY UPDATE are excluded by [uq_stmt_ok] *)
Theorem C13_unique_index_history_refines_keyed_map_partial :
  forall sch ks, pk_binary sch -> keyless sch = false ->
    forall h rows, Pre sch (key_kinds sch ks) rows -> urows sch rows -> uq_hist_ok sch (key_kinds sch ks) rows h ->
      run_history sch rows h = spec_history sch rows h.
Proof. exact uniq_history_refines. Qed.
Print Assumptions C13_unique_index_history_refines_keyed_map_partial.
