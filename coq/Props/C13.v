(* C13 — DML statements match a reference table model.
   Only statements, each closed by [exact], each followed by Print Assumptions.
   Implementation model: Store/C14Editor.v ([impl_exec]: pkTableEditAccumulator + tableEditor + the rowexec iterators).
   Reference model: Store/C13Refine.v ([spec_exec]: the same statements run row at a time directly on the logical table,
   a list of rows with pairwise different keys = a keyed map; [outcome] carries RowsAffected and Matched). *)
From Coq Require Import List NArith ZArith.
Import ListNotations.
From GMS Require Import Store.C14Editor Store.C14EditorProofs Store.C13Refine Store.C13RefineProofs.

(* One statement (INSERT, INSERT IGNORE, REPLACE, ON DUPLICATE KEY UPDATE, UPDATE, DELETE with WHERE / ORDER BY / LIMIT):
   outcome, counts and stored rows of the editor equal those of the reference, for every keyed table without a unique
   secondary index and with a binary-collated / integer key.  Since getRowKey is length-prefixed (commit 1b57e874c) the
   former guard "row key strings injective" is a theorem (C14_row_key_injective); what remains is typing: the stored
   rows and the statement's rows hold integers / strings of fixed kinds ks in the key columns, and the statement's
   assignments keep it so ([stmt_in_U]; assignments to non-key columns always do, C13_nonkey_assignments_are_typed). *)
Theorem C13_editor_refines_keyed_map :
  forall sch ks, pk_binary sch -> s_uniq sch = [] ->
    forall rows st, Pre sch (key_kinds sch ks) rows -> stmt_in_U (key_kinds sch ks) st ->
      pk_exec sch rows st = spec_exec sch rows st /\ Pre sch (key_kinds sch ks) (snd (spec_exec sch rows st)).
Proof. exact pk_refines_spec_typed. Qed.
Print Assumptions C13_editor_refines_keyed_map.

(* hence every history: the stored rows after each statement are the reference's *)
Theorem C13_history_refines_keyed_map :
  forall sch ks, pk_binary sch -> s_uniq sch = [] ->
    forall h rows, keyless sch = false -> Pre sch (key_kinds sch ks) rows -> Forall (stmt_in_U (key_kinds sch ks)) h ->
      run_history sch rows h = spec_history sch rows h.
Proof. exact history_refines_spec_typed. Qed.
Print Assumptions C13_history_refines_keyed_map.

Theorem C13_nonkey_assignments_are_typed :
  forall sch ks a, (forall x, In x a -> ~ In (fst x) (s_pk sch)) ->
    forall r, key_kinds sch ks r -> key_kinds sch ks (apply_assigns a r).
Proof. exact assigns_nonkey_kinds. Qed.
Print Assumptions C13_nonkey_assignments_are_typed.

(* the general form, for any set U of rows on which the row key is injective (kept: it does not depend on the key format) *)
Theorem C13_editor_refines_keyed_map_on_injective_rows :
  forall sch (U : row -> Prop),
    (forall a b, U a -> U b -> key_str sch a = key_str sch b -> key sch a = key sch b) ->
    pk_binary sch -> s_uniq sch = [] ->
    forall rows st, Pre sch U rows -> stmt_in_U U st ->
      pk_exec sch rows st = spec_exec sch rows st /\ Pre sch U (snd (spec_exec sch rows st)).
Proof. exact pk_refines_spec. Qed.
Print Assumptions C13_editor_refines_keyed_map_on_injective_rows.

(* regression witnesses of the repaired defect: PRIMARY KEY(a,b), rows (1,12,0),(11,2,0) (row keys formerly "112" twice):
   UPDATE t SET c = c + 1 changes both rows, UPDATE t SET a = a + 100, b = b + 100 keeps two rows - as the reference *)
Theorem C13_former_collision_witnesses_refine :
  impl_exec c13_sch c13_rows c13_upd = (OOk 2 2, [[VInt 1; VInt 12; VInt 1]; [VInt 11; VInt 2; VInt 1]]) /\
  spec_exec c13_sch c13_rows c13_upd = (OOk 2 2, [[VInt 1; VInt 12; VInt 1]; [VInt 11; VInt 2; VInt 1]]) /\
  impl_exec c13_sch c13_rows c13_move = (OOk 2 2, [[VInt 101; VInt 112; VInt 0]; [VInt 111; VInt 102; VInt 0]]) /\
  spec_exec c13_sch c13_rows c13_move = (OOk 2 2, [[VInt 101; VInt 112; VInt 0]; [VInt 111; VInt 102; VInt 0]]).
Proof. exact former_witnesses_refine. Qed.
Print Assumptions C13_former_collision_witnesses_refine.

(* the reference keeps the keys of the logical table pairwise different (it is a keyed map), via the refinement *)
Theorem C13_reference_is_a_keyed_map :
  forall sch ks, pk_binary sch -> s_uniq sch = [] ->
    forall rows st, Pre sch (key_kinds sch ks) rows -> stmt_in_U (key_kinds sch ks) st ->
      NoDup (map (key sch) (snd (spec_exec sch rows st))).
Proof.
  exact (fun sch ks Hb Hn rows st HP HS => proj1 (proj2 (pk_refines_spec_typed sch ks Hb Hn rows st HP HS))).
Qed.
Print Assumptions C13_reference_is_a_keyed_map.

(* the premises are satisfiable, on the formerly colliding rows *)
Example C13_nonvacuous :
  pk_binary c13_sch /\ Pre c13_sch (key_kinds c13_sch [KInt; KInt]) c13_rows /\
  stmt_in_U (key_kinds c13_sch [KInt; KInt]) c13_upd.
Proof. exact (conj c13_bin (conj c13_pre c13_upd_typed)). Qed.
Print Assumptions C13_nonvacuous.
