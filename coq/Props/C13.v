(* C13 — DML statements match a reference table model.
   Only statements, each closed by [exact], each followed by Print Assumptions.
   Implementation model: Store/C14Editor.v ([impl_exec]: pkTableEditAccumulator + tableEditor + the rowexec iterators).
   Reference model: Store/C13Refine.v ([spec_exec]: the same statements run row at a time directly on the logical table,
   a list of rows with pairwise different keys = a keyed map; [outcome] carries RowsAffected and Matched). *)
From Coq Require Import List NArith ZArith.
Import ListNotations.
From GMS Require Import Store.C14Editor Store.C14EditorProofs Store.C13Refine Store.C13RefineProofs.

(* One statement (INSERT, INSERT IGNORE, REPLACE, ON DUPLICATE KEY UPDATE, UPDATE, DELETE with WHERE / ORDER BY / LIMIT):
   outcome, counts and stored rows of the editor equal those of the reference, for every keyed table without a unique
   secondary index and with a binary-collated / integer key, under the guard that the row key strings are injective on a
   set U of rows that contains the stored rows and the statement's rows and is closed under the statement's assignments. *)
Theorem C13_editor_refines_keyed_map :
  forall sch (U : row -> Prop),
    (forall a b, U a -> U b -> key_str sch a = key_str sch b -> key sch a = key sch b) ->
    pk_binary sch -> s_uniq sch = [] ->
    forall rows st, Pre sch U rows -> stmt_in_U U st ->
      pk_exec sch rows st = spec_exec sch rows st /\ Pre sch U (snd (spec_exec sch rows st)).
Proof. exact pk_refines_spec. Qed.
Print Assumptions C13_editor_refines_keyed_map.

(* hence every history: the stored rows after each statement are the reference's *)
Theorem C13_history_refines_keyed_map :
  forall sch (U : row -> Prop),
    (forall a b, U a -> U b -> key_str sch a = key_str sch b -> key sch a = key sch b) ->
    pk_binary sch -> s_uniq sch = [] ->
    forall h rows, keyless sch = false -> Pre sch U rows -> Forall (stmt_in_U U) h ->
      run_history sch rows h = spec_history sch rows h.
Proof. exact history_refines_spec. Qed.
Print Assumptions C13_history_refines_keyed_map.

(* Without the injectivity guard the refinement is false of the faithful model.  PRIMARY KEY(a,b), rows (1,12,0),(11,2,0):
   UPDATE t SET c = c + 1 reports 2 changed rows but changes one (the second row's Delete removes the first row's
   pending add, both have row key "112") ... *)
Theorem C13_editor_refines_keyed_map_refuted :
  exists sch rows st, keyless sch = false /\ keys_nodup sch rows /\
    impl_exec sch rows st = (OOk 2 2, [[VInt 1; VInt 12; VInt 0]; [VInt 11; VInt 2; VInt 1]]) /\
    spec_exec sch rows st = (OOk 2 2, [[VInt 1; VInt 12; VInt 1]; [VInt 11; VInt 2; VInt 1]]).
Proof. exact (ex_intro _ c13_sch (ex_intro _ c13_rows (ex_intro _ c13_upd lost_update_witness))). Qed.
Print Assumptions C13_editor_refines_keyed_map_refuted.

(* ... and UPDATE t SET a = a + 100, b = b + 100 turns two rows into three *)
Theorem C13_update_creates_row_refuted :
  exists sch rows st,
    impl_exec sch rows st =
      (OOk 2 2, [[VInt 1; VInt 12; VInt 0]; [VInt 101; VInt 112; VInt 0]; [VInt 111; VInt 102; VInt 0]]) /\
    spec_exec sch rows st = (OOk 2 2, [[VInt 101; VInt 112; VInt 0]; [VInt 111; VInt 102; VInt 0]]).
Proof. exact (ex_intro _ c13_sch (ex_intro _ c13_rows (ex_intro _ c13_move row_created_witness))). Qed.
Print Assumptions C13_update_creates_row_refuted.

(* the reference keeps the keys of the logical table pairwise different (it is a keyed map), via the refinement *)
Theorem C13_reference_is_a_keyed_map :
  forall sch (U : row -> Prop),
    (forall a b, U a -> U b -> key_str sch a = key_str sch b -> key sch a = key sch b) ->
    pk_binary sch -> s_uniq sch = [] ->
    forall rows st, Pre sch U rows -> stmt_in_U U st -> NoDup (map (key sch) (snd (spec_exec sch rows st))).
Proof.
  exact (fun sch U Hi Hb Hn rows st HP HS => proj1 (proj2 (pk_refines_spec sch U Hi Hb Hn rows st HP HS))).
Qed.
Print Assumptions C13_reference_is_a_keyed_map.

(* the guard is satisfiable: a composite key, a universe of four rows closed under SET c2 = 7 *)
Example C13_nonvacuous :
  (forall a b, c13_U a -> c13_U b -> key_str c13_sch a = key_str c13_sch b -> key c13_sch a = key c13_sch b) /\
  pk_binary c13_sch /\ (forall r, c13_U r -> c13_U (apply_assigns [(2%nat, AConst (VInt 7))] r)) /\
  impl_exec c13_sch [[VInt 1; VInt 2; VInt 0]; [VInt 3; VInt 4; VInt 0]] (SUpdate [(2%nat, AConst (VInt 7))] PTrue None None)
    = (OOk 2 2, [[VInt 1; VInt 2; VInt 7]; [VInt 3; VInt 4; VInt 7]]).
Proof. exact (conj c13_U_inj (conj c13_bin (conj c13_U_closed eq_refl))). Qed.
Print Assumptions C13_nonvacuous.
