(* C04 — ORDER BY output is ordered and LIMIT/OFFSET select the right slice.
   Only statements, each closed by [exact], each followed by Print Assumptions.
   [compare_rows ks] is RowSorter.CompareRows for the sort conditions ks; [ssort] the stable ordering that
   sort.Stable produces; [topn ops] is GetTopNRows over ANY priority queue [ops] meeting [heap_spec]
   (container/heap enters only through that specification); [plan_sort]/[plan_topn] are the two executed plan
   shapes Limit(Offset(Sort)) and Offset(TopN(n+m)). *)
From Coq Require Import List Arith NArith ZArith Bool Permutation.
Import ListNotations.
From GMS Require Import Phys.C04Sort Phys.C04SortProofs Phys.C04TopNProofs.

(* CompareRows is a total preorder for every list of sort conditions (mixed ASC/DESC, NULLs, all key types) *)
Theorem C04_compare_rows_total_preorder : forall ks, preorder (compare_rows ks).
Proof. exact compare_rows_po. Qed.
Print Assumptions C04_compare_rows_total_preorder.

(* NULLs first for ASC, last for DESC *)
Theorem C04_nulls_first_asc_last_desc : forall col ty a b,
  nth col a VNull = VNull -> nth col b VNull <> VNull ->
  compare_rows [SKey col ty false false] a b = Lt /\ compare_rows [SKey col ty true false] a b = Gt.
Proof. exact null_placement. Qed.
Print Assumptions C04_nulls_first_asc_last_desc.

(* the sort: a permutation of the input in which no row is followed, at any distance, by a smaller one *)
Theorem C04_sort_is_sorted_permutation : forall ks xs,
  Permutation (ssort (compare_rows ks) xs) xs /\
  forall i j d, i < j -> j < length xs ->
    compare_rows ks (nth i (ssort (compare_rows ks) xs) d) (nth j (ssort (compare_rows ks) xs) d) <> Gt.
Proof.
  intros ks xs. split; [exact (ssort_perm _ xs)|].
  intros i j d Hij Hj. apply sorted_nth; [exact (ssort_sorted _ (compare_rows_po ks) xs)|exact Hij|].
  rewrite ssort_length. exact Hj.
Qed.
Print Assumptions C04_sort_is_sorted_permutation.

(* stability: rows that tie on all keys keep their input order *)
Theorem C04_sort_is_stable : forall ks p xs,
  filter (eqvb (compare_rows ks) p) (ssort (compare_rows ks) xs) = filter (eqvb (compare_rows ks) p) xs.
Proof. exact (fun ks => ssort_stable _ (compare_rows_po ks)). Qed.
Print Assumptions C04_sort_is_stable.

(* a stable merge sort computes the same list (so the choice of stable algorithm is immaterial) *)
Theorem C04_merge_sort_agrees : forall ks xs, msort (compare_rows ks) xs = ssort (compare_rows ks) xs.
Proof. exact (fun ks => msort_eq _ (compare_rows_po ks)). Qed.
Print Assumptions C04_merge_sort_agrees.

(* top-N heap: for every priority queue meeting the specification, every n and every input *)
Theorem C04_topn_is_prefix_of_sort : forall ks (ops : heap_ops) (HS : heap_spec (compare_rows ks) ops) n xs,
  topn ops n xs = firstn n (ssort (compare_rows ks) xs).
Proof. exact (fun ks => topn_eq _ (compare_rows_po ks)). Qed.
Print Assumptions C04_topn_is_prefix_of_sort.

(* the specification is satisfiable: the list-backed queue used to run the model meets it *)
Theorem C04_list_heap_meets_spec : forall ks, heap_spec (compare_rows ks) (list_heap (compare_rows ks)).
Proof. exact (fun ks => list_heap_spec _ (compare_rows_po ks)). Qed.
Print Assumptions C04_list_heap_meets_spec.

(* the limit-1 scan of topRowIter *)
Theorem C04_top1_is_first_of_sort : forall ks xs, top1 (compare_rows ks) xs = firstn 1 (ssort (compare_rows ks) xs).
Proof. exact (fun ks => top1_eq _ (compare_rows_po ks)). Qed.
Print Assumptions C04_top1_is_first_of_sort.

(* LimitIter over offsetIter *)
Theorem C04_limit_offset_select_window : forall (n m : nat) (child : list row),
  limit_iter 0 (Z.of_nat n) (offset_iter (Z.of_nat m) child) = firstn n (skipn m child).
Proof. exact limit_offset_eq. Qed.
Print Assumptions C04_limit_offset_select_window.

(* both executed plan shapes return rows m+1..m+n of the stable ordering *)
Theorem C04_plans_return_window_of_sort : forall ks n m xs,
  plan_sort (compare_rows ks) (Some (Z.of_nat n)) (Z.of_nat m) xs = firstn n (skipn m (ssort (compare_rows ks) xs)) /\
  plan_topn (compare_rows ks) n m xs = firstn n (skipn m (ssort (compare_rows ks) xs)).
Proof. exact (fun ks n m xs => conj (plan_sort_eq _ n m xs) (plan_topn_eq _ (compare_rows_po ks) n m xs)). Qed.
Print Assumptions C04_plans_return_window_of_sort.

(* the property: the output is rows m+1..m+n of an ordering of the input consistent with the keys *)
Theorem C04_order_by_limit_offset : forall ks n m xs,
  is_slice (compare_rows ks) xs m n (plan_sort (compare_rows ks) (Some (Z.of_nat n)) (Z.of_nat m) xs) /\
  is_slice (compare_rows ks) xs m n (plan_topn (compare_rows ks) n m xs) /\
  is_slice (compare_rows ks) xs m (length xs) (plan_sort (compare_rows ks) None (Z.of_nat m) xs).
Proof. exact (fun ks => plans_are_slices _ (compare_rows_po ks)). Qed.
Print Assumptions C04_order_by_limit_offset.

(* ties may be broken differently (index order): the decidable check used on observed outputs is exactly
   "window of SOME consistent ordering" *)
Theorem C04_valid_slice_iff : forall ks xs m n o,
  valid_slice (compare_rows ks) row_eqb xs m n o = true <-> is_slice (compare_rows ks) xs m n o.
Proof. exact (fun ks => valid_slice_iff _ (compare_rows_po ks) row_eqb row_eqb_spec). Qed.
Print Assumptions C04_valid_slice_iff.

(* index order instead of a sort (replaceIdxSort): when all conditions have one direction and are, position by
   position, a prefix of the index columns, the memory index storage (rows stably sorted by the index columns, NULLs
   first) read forwards - or backwards for DESC - is a permutation of the table ordered under the ORDER BY comparator *)
Theorem C04_index_scan_sorted : forall ks idx rows, idx_guard ks idx = true ->
  Permutation (plan_index ks idx rows) rows /\ sorted (compare_rows ks) (plan_index ks idx rows).
Proof. exact index_scan_sorted. Qed.
Print Assumptions C04_index_scan_sorted.

(* ... hence Limit(Offset(IndexedTableAccess)) returns rows m+1..m+n of an ordering consistent with the keys *)
Theorem C04_index_plan_is_slice : forall ks idx rows m n, idx_guard ks idx = true ->
  is_slice (compare_rows ks) rows m n (firstn n (skipn m (plan_index ks idx rows))).
Proof. exact index_plan_is_slice. Qed.
Print Assumptions C04_index_plan_is_slice.

(* non-vacuity: ties, NULLs, DESC, a window that cuts through a tie class; a different tie-break is accepted,
   a wrong row is not *)
Example C04_nonvacuous :
  let ks := [SKey 1 KInt true false; SKey 2 KCi false false] in
  let r (i : Z) (a : val) (s : list N) : row := [VInt i; a; VStr s] in
  let xs := [r 1%Z (VInt 3%Z) [98%N]; r 2%Z VNull [97%N]; r 3%Z (VInt 3%Z) [66%N]; r 4%Z (VInt 5%Z) [97%N]; r 5%Z (VInt 3%Z) [65%N]] in
  plan_topn (compare_rows ks) 2 1 xs = [r 5%Z (VInt 3%Z) [65%N]; r 1%Z (VInt 3%Z) [98%N]] /\
  plan_sort (compare_rows ks) (Some 2%Z) 1%Z xs = [r 5%Z (VInt 3%Z) [65%N]; r 1%Z (VInt 3%Z) [98%N]] /\
  valid_slice (compare_rows ks) row_eqb xs 1 2 [r 5%Z (VInt 3%Z) [65%N]; r 3%Z (VInt 3%Z) [66%N]] = true /\
  valid_slice (compare_rows ks) row_eqb xs 1 2 [r 1%Z (VInt 3%Z) [98%N]; r 3%Z (VInt 3%Z) [66%N]] = false /\
  ssort (compare_rows ks) xs = [r 4%Z (VInt 5%Z) [97%N]; r 5%Z (VInt 3%Z) [65%N]; r 1%Z (VInt 3%Z) [98%N]; r 3%Z (VInt 3%Z) [66%N]; r 2%Z VNull [97%N]].
Proof. vm_compute. repeat split; reflexivity. Qed.
Print Assumptions C04_nonvacuous.
