(* C24 -- Stored procedures follow structured-program semantics.
   Only statements, each closed by [exact], each followed by Print Assumptions.
   [exec] is the structured big-step definition, [parse] mirrors procedures.Parse/ConvertStmt, [run]/[call] mirror
   procedures.Call/execOp (Lang/C24Proc.v).
   The unguarded compiler-correctness statement is false of the faithful model: each [_refuted] theorem below documents
   one construct the guard of [C24_guarded_compiler_correct] excludes. *)
From Coq Require Import List ZArith NArith Bool.
Import ListNotations.
From GMS Require Import Lang.C24Proc Lang.C24ProcProofs Lang.C24Sim Lang.C24Equiv.
Open Scope Z_scope.

(* pc_in_bounds (all operation lists, all states whose registered handlers carry a non-negative DECLARE counter [hok],
   runs of any length, error handling by EXIT/CONTINUE handlers included): if every If/Goto index lies in [0, len] the
   interpreter never hits "negative function counter" and never indexes the operation list out of range *)
Theorem C24_pc_in_bounds : forall ops, targets_ok ops = true ->
  forall fuel counter st, hok st -> -1 <= counter -> run ops fuel counter st <> MPanic.
Proof. exact pc_in_bounds. Qed.
Print Assumptions C24_pc_in_bounds.

(* scope_balance is false: LEAVE of a labelled BEGIN..END block skips its ScopeEnd, the block's variables shadow the
   outer ones for the rest of the procedure (definition: @u0 = 1; compiled machine: @u0 = 2, two scopes left) *)
Theorem C24_leave_block_scope_balance_refuted :
  (exists st, exec 20 leak_prog (init_state [] []) = (ONormal, st) /\ assocN 0%N (users st) = Some (Some 1))
  /\ (exists st, call leak_prog 100 [] [] = MDone st /\ assocN 0%N (users st) = Some (Some 2) /\ length (scopes st) = 2%nat).
Proof. exact leave_block_leaks_scope. Qed.
Print Assumptions C24_leave_block_scope_balance_refuted.

(* the same off-by-one for the Goto that skips an ELSE branch ending with a block *)
Theorem C24_else_block_scope_balance_refuted :
  (exists st, exec 20 else_block_prog (init_state [] []) = (ONormal, st) /\ assocN 0%N (users st) = Some (Some 1))
  /\ (exists st, call else_block_prog 100 [] [] = MDone st /\ assocN 0%N (users st) = Some (Some 2) /\ length (scopes st) = 2%nat).
Proof. exact else_block_leaks_scope. Qed.
Print Assumptions C24_else_block_scope_balance_refuted.

(* compiler correctness is false when a label is reused after a LOOP/REPEAT: the compile-time label table is never
   popped, ITERATE resolves to the finished loop; the definition terminates with @u0 = 3, the machine does not finish *)
Theorem C24_reused_label_agreement_refuted :
  (exists st, exec 50 stale_prog (init_state [] []) = (ONormal, st) /\ assocN 0%N (users st) = Some (Some 3))
  /\ call stale_prog 3000 [] [] = MNoFuel
  /\ targets_ok (parse stale_prog) = true.
Proof. exact stale_label_diverges. Qed.
Print Assumptions C24_reused_label_agreement_refuted.

Theorem C24_initial_state_ok : forall ps us, hok (init_state ps us).
Proof. exact hok_init. Qed.
Print Assumptions C24_initial_state_ok.

(* EXIT handlers leave their block without popping it: definition @u0 = 1, machine @u0 = 2 and two scopes left *)
Theorem C24_exit_handler_scope_balance_refuted :
  (exists st, exec 20 exit_leak_prog (init_state [] []) = (ONormal, st) /\ assocN 0%N (users st) = Some (Some 1)
              /\ assocN 1%N (users st) = None)
  /\ (exists st, call exit_leak_prog 100 [] [] = MDone st /\ assocN 0%N (users st) = Some (Some 2)
                 /\ assocN 1%N (users st) = None /\ length (scopes st) = 2%nat).
Proof. exact exit_handler_leaks_scope. Qed.
Print Assumptions C24_exit_handler_scope_balance_refuted.

(* with nested handlers the outermost one runs instead of the most local one *)
Theorem C24_most_local_handler_refuted :
  (exists st, exec 20 nested_handler_prog (init_state [] []) = (ONormal, st) /\ assocN 0%N (users st) = Some (Some 20))
  /\ (exists st, call nested_handler_prog 100 [] [] = MDone st /\ assocN 0%N (users st) = Some (Some 10)).
Proof. exact outermost_handler_wins. Qed.
Print Assumptions C24_most_local_handler_refuted.

(* a handler whose statement returns rows (SET @u = ...) restarts the procedure for ever *)
Theorem C24_handler_with_rows_terminates_refuted :
  (exists st, exec 20 restart_prog (init_state [] []) = (ONormal, st) /\ assocN 1%N (users st) = Some (Some 2))
  /\ call restart_prog 3000 [] [] = MNoFuel.
Proof. exact handler_with_rows_restarts. Qed.
Print Assumptions C24_handler_with_rows_terminates_refuted.

(* non-vacuity for handlers and for a LOOP starting with a shadowing block left by ITERATE: agreement *)
Example C24_handler_agreement_nonvacuous :
  exists st1 st2, exec 30 handler_good_prog (init_state [] []) = (ONormal, st1) /\
    call handler_good_prog 200 [] [] = MDone st2 /\ users st1 = users st2 /\ users st1 = [(0%N, Some 1)].
Proof. exact handler_good_agrees. Qed.
Print Assumptions C24_handler_agreement_nonvacuous.

Example C24_loop_block_agreement_nonvacuous :
  exists st1 st2, exec 60 loop_block_prog (init_state [] []) = (ONormal, st1) /\
    call loop_block_prog 500 [] [] = MDone st2 /\ users st1 = users st2 /\ users st1 = [(0%N, Some 1)]
    /\ length (scopes st2) = 1%nat.
Proof. exact loop_block_agrees. Qed.
Print Assumptions C24_loop_block_agreement_nonvacuous.

(* REPEAT leaves the loop when UNTIL evaluates to NULL (definition: @u0 = 3, machine: @u0 = 1) *)
Theorem C24_repeat_until_null_refuted :
  (exists st, exec 40 until_null_prog (init_state [] []) = (ONormal, st) /\ assocN 0%N (users st) = Some (Some 3))
  /\ (exists st, call until_null_prog 200 [] [] = MDone st /\ assocN 0%N (users st) = Some (Some 1)).
Proof. exact until_null_leaves_loop. Qed.
Print Assumptions C24_repeat_until_null_refuted.

(* ITERATE of a REPEAT whose body ends with a block: the forward jump from the first copy skips that block's ScopeEnd *)
Theorem C24_iterate_repeat_scope_balance_refuted :
  (exists st, exec 30 iterate_repeat_prog (init_state [] []) = (ONormal, st) /\ assocN 0%N (users st) = Some (Some 1))
  /\ (exists st, call iterate_repeat_prog 100 [] [] = MDone st /\ assocN 0%N (users st) = Some (Some 2) /\ length (scopes st) = 2%nat).
Proof. exact iterate_repeat_leaks_scope. Qed.
Print Assumptions C24_iterate_repeat_scope_balance_refuted.

(* ---------- guarded compiler correctness ----------
   [guard p]: p is built from blocks (unlabelled), DECLARE, SET, SET @u, IF (whose ELSE branch does not end with a block),
   WHILE, REPEAT (UNTIL syntactically non-NULL, not a target of ITERATE), LOOP (non-empty body not starting with a
   jump), LEAVE / ITERATE of enclosing loops only; no handlers; loop labels pairwise distinct; no labelled LOOP / REPEAT
   inside a REPEAT body.  For such p: whenever the structured definition terminates normally, the compiled procedure
   (procedures.Parse + the interpreter) terminates too and ends in exactly the same state, whatever fuel lets it finish.
   (Not proved: that the definition terminates whenever the machine does.) *)
Theorem C24_guarded_compiler_correct : forall p, guard p ->
  forall ps us f st', exec f p (init_state ps us) = (ONormal, st') ->
  (exists fuel, call p fuel ps us = MDone st') /\ (forall fuel r, call p fuel ps us = MDone r -> r = st').
Proof. exact guarded_compiler_correct. Qed.
Print Assumptions C24_guarded_compiler_correct.

(* the simulation behind it, for every guarded statement placed anywhere in a program: normal completion reaches the end
   of its code; LEAVE / ITERATE arrive at a Goto whose remaining walk performs the pops of the blocks being left *)
Theorem C24_forward_simulation : forall f, P1 f /\ P2 f.
Proof. exact sim_all. Qed.
Print Assumptions C24_forward_simulation.

(* the two-phase compiler with placeholders and the never-popped label stack equals the one-pass compiler under the guard *)
Theorem C24_parse_is_one_pass_compile : forall p, guard p -> parse p = compile' [] 0 p.
Proof. exact parse_compile'. Qed.
Print Assumptions C24_parse_is_one_pass_compile.

(* scope_balance under the guard *)
Theorem C24_guarded_scope_balance : forall p, guard p ->
  forall ps us f st', exec f p (init_state ps us) = (ONormal, st') ->
  forall fuel r, call p fuel ps us = MDone r -> length (scopes r) = 1%nat.
Proof. exact guarded_scope_balance. Qed.
Print Assumptions C24_guarded_scope_balance.

(* the guard is satisfiable by programs with nested blocks, shadowing, WHILE with ITERATE and LEAVE, LOOP, REPEAT *)
Example C24_guard_nonvacuous : guard good_prog /\ guard guard_prog2 /\
  exists st, exec 80 guard_prog2 (init_state [] []) = (ONormal, st) /\ users st = [(0%N, Some 6); (1%N, Some 3)].
Proof. exact guard_examples. Qed.
Print Assumptions C24_guard_nonvacuous.

(* non-vacuity: nested block, WHILE with ITERATE and LEAVE, shadowing -- machine and definition agree, scopes balanced *)
Example C24_agreement_nonvacuous :
  targets_ok (parse good_prog) = true /\
  exists st1 st2, exec 50 good_prog (init_state [] []) = (ONormal, st1) /\ call good_prog 500 [] [] = MDone st2 /\
    users st1 = users st2 /\ users st1 = [(0%N, Some 4); (1%N, Some 4)] /\ length (scopes st2) = 1%nat.
Proof. exact good_prog_agrees. Qed.
Print Assumptions C24_agreement_nonvacuous.
