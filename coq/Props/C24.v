(* C24 -- Stored procedures follow structured-program semantics.
   Only statements, each closed by [exact], each followed by Print Assumptions.
   [exec] is the structured big-step definition, [parse] mirrors procedures.Parse/ConvertStmt, [run]/[call] mirror
   procedures.Call/execOp (Lang/C24Proc.v).
   NOT proved (see props/C24.json "partial"): the general compiler-correctness theorem
     forall s well-labelled, call s = exec s
   -- it is false of the faithful model (two refutations below); the guarded version is future work. *)
From Coq Require Import List ZArith NArith Bool.
Import ListNotations.
From GMS Require Import Lang.C24Proc Lang.C24ProcProofs.
Open Scope Z_scope.

(* pc_in_bounds (all operation lists, all states, runs of any length): if every If/Goto index lies in [0, len] the
   interpreter never hits "negative function counter" and never indexes the operation list out of range *)
Theorem C24_pc_in_bounds : forall ops, targets_ok ops = true ->
  forall fuel counter st, -1 <= counter < zlen ops \/ counter = -1 -> run ops fuel counter st <> MPanic.
Proof. exact pc_in_bounds. Qed.
Print Assumptions C24_pc_in_bounds.

(* scope_balance is false: LEAVE of a labelled BEGIN..END block skips its ScopeEnd, the block's variables shadow the
   outer ones for the rest of the procedure (definition: @u0 = 1; compiled machine: @u0 = 2, two scopes left) *)
Theorem C24_leave_block_scope_balance_refuted :
  (exists st, exec 20 leak_prog (init_state [] []) = (ONormal, st) /\ assocN 0%N (users st) = Some (Some 1))
  /\ (exists st, call leak_prog 100 [] [] = MDone st /\ assocN 0%N (users st) = Some (Some 2) /\ length (scopes st) = 2%nat).
Proof. exact leave_block_leaks_scope. Qed.
Print Assumptions C24_leave_block_scope_balance_refuted.

(* compiler correctness is false when a label is reused after a LOOP/REPEAT: the compile-time label table is never
   popped, ITERATE resolves to the finished loop; the definition terminates with @u0 = 3, the machine does not finish *)
Theorem C24_reused_label_agreement_refuted :
  (exists st, exec 50 stale_prog (init_state [] []) = (ONormal, st) /\ assocN 0%N (users st) = Some (Some 3))
  /\ call stale_prog 3000 [] [] = MNoFuel
  /\ targets_ok (parse stale_prog) = true.
Proof. exact stale_label_diverges. Qed.
Print Assumptions C24_reused_label_agreement_refuted.

(* non-vacuity: nested block, WHILE with ITERATE and LEAVE, shadowing -- machine and definition agree, scopes balanced *)
Example C24_agreement_nonvacuous :
  targets_ok (parse good_prog) = true /\
  exists st1 st2, exec 50 good_prog (init_state [] []) = (ONormal, st1) /\ call good_prog 500 [] [] = MDone st2 /\
    users st1 = users st2 /\ users st1 = [(0%N, Some 4); (1%N, Some 4)] /\ length (scopes st2) = 1%nat.
Proof. exact good_prog_agrees. Qed.
Print Assumptions C24_agreement_nonvacuous.
