(* C24 -- Stored procedures follow structured-program semantics.
   Only statements, each closed by [exact], each followed by Print Assumptions.
   [exec] is the structured big-step definition, [parse] mirrors procedures.Parse/ConvertStmt, [run]/[call] mirror
   procedures.Call/execOp (Lang/C24Proc.v).
   NOT proved (see props/C24.json "partial"): the general compiler-correctness theorem
     forall s well-labelled, call s = exec s
   -- it is false of the faithful model (two refutations below); the guarded version is future work. *)
From Coq Require Import List ZArith NArith Bool.
Import ListNotations.
From GMS Require Import Lang.C24Proc Lang.C24ProcProofs.
Open Scope Z_scope.

(* pc_in_bounds (all operation lists, all states whose registered handlers carry a non-negative DECLARE counter [hok],
   runs of any length, error handling by EXIT/CONTINUE handlers included): if every If/Goto index lies in [0, len] the
   interpreter never hits "negative function counter" and never indexes the operation list out of range *)
Theorem C24_pc_in_bounds : forall ops, targets_ok ops = true ->
  forall fuel counter st, hok st -> -1 <= counter -> run ops fuel counter st <> MPanic.
Proof. exact pc_in_bounds. Qed.
Print Assumptions C24_pc_in_bounds.

(* scope_balance is false: LEAVE of a labelled BEGIN..END block skips its ScopeEnd, the block's variables shadow the
   outer ones for the rest of the procedure (definition: @u0 = 1; compiled machine: @u0 = 2, two scopes left) *)
Theorem C24_leave_block_scope_balance_refuted :
  (exists st, exec 20 leak_prog (init_state [] []) = (ONormal, st) /\ assocN 0%N (users st) = Some (Some 1))
  /\ (exists st, call leak_prog 100 [] [] = MDone st /\ assocN 0%N (users st) = Some (Some 2) /\ length (scopes st) = 2%nat).
Proof. exact leave_block_leaks_scope. Qed.
Print Assumptions C24_leave_block_scope_balance_refuted.

(* the same off-by-one for the Goto that skips an ELSE branch ending with a block *)
Theorem C24_else_block_scope_balance_refuted :
  (exists st, exec 20 else_block_prog (init_state [] []) = (ONormal, st) /\ assocN 0%N (users st) = Some (Some 1))
  /\ (exists st, call else_block_prog 100 [] [] = MDone st /\ assocN 0%N (users st) = Some (Some 2) /\ length (scopes st) = 2%nat).
Proof. exact else_block_leaks_scope. Qed.
Print Assumptions C24_else_block_scope_balance_refuted.

(* compiler correctness is false when a label is reused after a LOOP/REPEAT: the compile-time label table is never
   popped, ITERATE resolves to the finished loop; the definition terminates with @u0 = 3, the machine does not finish *)
Theorem C24_reused_label_agreement_refuted :
  (exists st, exec 50 stale_prog (init_state [] []) = (ONormal, st) /\ assocN 0%N (users st) = Some (Some 3))
  /\ call stale_prog 3000 [] [] = MNoFuel
  /\ targets_ok (parse stale_prog) = true.
Proof. exact stale_label_diverges. Qed.
Print Assumptions C24_reused_label_agreement_refuted.

Theorem C24_initial_state_ok : forall ps us, hok (init_state ps us).
Proof. exact hok_init. Qed.
Print Assumptions C24_initial_state_ok.

(* EXIT handlers leave their block without popping it: definition @u0 = 1, machine @u0 = 2 and two scopes left *)
Theorem C24_exit_handler_scope_balance_refuted :
  (exists st, exec 20 exit_leak_prog (init_state [] []) = (ONormal, st) /\ assocN 0%N (users st) = Some (Some 1)
              /\ assocN 1%N (users st) = None)
  /\ (exists st, call exit_leak_prog 100 [] [] = MDone st /\ assocN 0%N (users st) = Some (Some 2)
                 /\ assocN 1%N (users st) = None /\ length (scopes st) = 2%nat).
Proof. exact exit_handler_leaks_scope. Qed.
Print Assumptions C24_exit_handler_scope_balance_refuted.

(* with nested handlers the outermost one runs instead of the most local one *)
Theorem C24_most_local_handler_refuted :
  (exists st, exec 20 nested_handler_prog (init_state [] []) = (ONormal, st) /\ assocN 0%N (users st) = Some (Some 20))
  /\ (exists st, call nested_handler_prog 100 [] [] = MDone st /\ assocN 0%N (users st) = Some (Some 10)).
Proof. exact outermost_handler_wins. Qed.
Print Assumptions C24_most_local_handler_refuted.

(* a handler whose statement returns rows (SET @u = ...) restarts the procedure for ever *)
Theorem C24_handler_with_rows_terminates_refuted :
  (exists st, exec 20 restart_prog (init_state [] []) = (ONormal, st) /\ assocN 1%N (users st) = Some (Some 2))
  /\ call restart_prog 3000 [] [] = MNoFuel.
Proof. exact handler_with_rows_restarts. Qed.
Print Assumptions C24_handler_with_rows_terminates_refuted.

(* non-vacuity for handlers and for a LOOP starting with a shadowing block left by ITERATE: agreement *)
Example C24_handler_agreement_nonvacuous :
  exists st1 st2, exec 30 handler_good_prog (init_state [] []) = (ONormal, st1) /\
    call handler_good_prog 200 [] [] = MDone st2 /\ users st1 = users st2 /\ users st1 = [(0%N, Some 1)].
Proof. exact handler_good_agrees. Qed.
Print Assumptions C24_handler_agreement_nonvacuous.

Example C24_loop_block_agreement_nonvacuous :
  exists st1 st2, exec 60 loop_block_prog (init_state [] []) = (ONormal, st1) /\
    call loop_block_prog 500 [] [] = MDone st2 /\ users st1 = users st2 /\ users st1 = [(0%N, Some 1)]
    /\ length (scopes st2) = 1%nat.
Proof. exact loop_block_agrees. Qed.
Print Assumptions C24_loop_block_agreement_nonvacuous.

(* non-vacuity: nested block, WHILE with ITERATE and LEAVE, shadowing -- machine and definition agree, scopes balanced *)
Example C24_agreement_nonvacuous :
  targets_ok (parse good_prog) = true /\
  exists st1 st2, exec 50 good_prog (init_state [] []) = (ONormal, st1) /\ call good_prog 500 [] [] = MDone st2 /\
    users st1 = users st2 /\ users st1 = [(0%N, Some 4); (1%N, Some 4)] /\ length (scopes st2) = 1%nat.
Proof. exact good_prog_agrees. Qed.
Print Assumptions C24_agreement_nonvacuous.
