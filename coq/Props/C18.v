(* C18 - Foreign keys keep referential integrity.
   Only statements, each closed by [exact], each followed by Print Assumptions.
   RI fks d: every non-NULL child key of every foreign key matches an existing parent row.
   exec_res is the model of ForeignKeyHandler / ForeignKeyEditor (Store/C18FK.v) for ANY foreign key graph over the
   tables (chains, diamonds, self references) and ANY actions. *)
From Coq Require Import List ZArith Bool.
Import ListNotations.
From GMS Require Import Store.C18FK Store.C18FKProofs.
Open Scope Z_scope.

(* INSERT: every declared key is checked (CheckReference); a successful insert keeps referential integrity *)
Theorem C18_insert_preserves_ri :
  forall fks d t r d', RI fks d -> exec_res fks d (SInsert t r) = Ok d' -> RI fks d'.
Proof. exact insert_preserves_ri. Qed.
Print Assumptions C18_insert_preserves_ri.

(* UPDATE of a key column of a child row (including rows of self-referencing tables) *)
Theorem C18_update_key_column_preserves_ri :
  forall fks d t k c v d', RI fks d -> exec_res fks d (SUpdCol t k c v) = Ok d' -> RI fks d'.
Proof. exact update_column_preserves_ri. Qed.
Print Assumptions C18_update_key_column_preserves_ri.

(* DELETE from a table whose referencing keys are all RESTRICT / NO ACTION (any graph otherwise) *)
Theorem C18_delete_restrict_preserves_ri :
  forall fks d t k d',
    (forall f, In f fks -> parent f = t -> restrictish (ondel f) = true) ->
    RI fks d -> exec_res fks d (SDelete t k) = Ok d' -> RI fks d'.
Proof. exact delete_restrict_preserves_ri. Qed.
Print Assumptions C18_delete_restrict_preserves_ri.

(* a statement that fails (key violation, duplicate id, depth limit) has no effect *)
Theorem C18_failed_statement_no_effect :
  forall fks d s e, snd (exec fks d s) = Some e -> fst (exec fks d s) = d.
Proof. exact failed_statement_no_effect. Qed.
Print Assumptions C18_failed_statement_no_effect.

(* the executable integrity check is the proposition *)
Theorem C18_ri_checker_correct : forall fks d, ri_ok fks d = true <-> RI fks d.
Proof. exact ri_ok_spec. Qed.
Print Assumptions C18_ri_checker_correct.

(* PARTIAL.  The full statement
     forall fks d s d', RI fks d -> exec_res fks d s = Ok d' -> RI fks d'
   is proved above for INSERT, for UPDATE of a key column and for DELETE under RESTRICT / NO ACTION.  Not proved: DELETE and
   UPDATE of a parent id through CASCADE / SET NULL chains (induction on the cascade fuel with the invariant "integrity
   except for references to the rows being removed") and cascade_exact.  For those the model is tied to the engine and
   to an independent reachability fixpoint only by the correspondence.  The example below runs a cascade through a
   diamond with a self reference and checks integrity by computation. *)
Example C18_cascade_example_partial :
  run ex_fks [[]; []; []] ex_h = [[]; []; [(21, None, None)]] /\
  ri_ok ex_fks (run ex_fks [[]; []; []] (firstn 5 ex_h)) = true /\
  ri_ok ex_fks (run ex_fks [[]; []; []] ex_h) = true.
Proof. exact cascade_example. Qed.
Print Assumptions C18_cascade_example_partial.
