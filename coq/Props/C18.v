(* C18 - Foreign keys keep referential integrity.
   Only statements, each closed by [exact], each followed by Print Assumptions.
   RI fks d: every non-NULL child key of every foreign key matches an existing parent row.
   exec_res is the model of ForeignKeyHandler / ForeignKeyEditor (Store/C18FK.v) for ANY foreign key graph over the
   tables (chains, diamonds, self references) and ANY actions. *)
From Coq Require Import List ZArith Bool.
Import ListNotations.
From GMS Require Import Store.C18FK Store.C18FKProofs Store.C18FKCascade.
Open Scope Z_scope.

(* INSERT: every declared key is checked (CheckReference); a successful insert keeps referential integrity *)
Theorem C18_insert_preserves_ri :
  forall fks d t r d', RI fks d -> exec_res fks d (SInsert t r) = Ok d' -> RI fks d'.
Proof. exact insert_preserves_ri. Qed.
Print Assumptions C18_insert_preserves_ri.

(* UPDATE of a key column of a child row (including rows of self-referencing tables) *)
Theorem C18_update_key_column_preserves_ri :
  forall fks d t k c v d', RI fks d -> exec_res fks d (SUpdCol t k c v) = Ok d' -> RI fks d'.
Proof. exact update_column_preserves_ri. Qed.
Print Assumptions C18_update_key_column_preserves_ri.

(* DELETE from a table whose referencing keys are all RESTRICT / NO ACTION (any graph otherwise) *)
Theorem C18_delete_restrict_preserves_ri :
  forall fks d t k d',
    (forall f, In f fks -> parent f = t -> restrictish (ondel f) = true) ->
    RI fks d -> exec_res fks d (SDelete t k) = Ok d' -> RI fks d'.
Proof. exact delete_restrict_preserves_ri. Qed.
Print Assumptions C18_delete_restrict_preserves_ri.

(* a statement that fails (key violation, duplicate id, depth limit) has no effect *)
Theorem C18_failed_statement_no_effect :
  forall fks d s e, snd (exec fks d s) = Some e -> fst (exec fks d s) = d.
Proof. exact failed_statement_no_effect. Qed.
Print Assumptions C18_failed_statement_no_effect.

(* the executable integrity check is the proposition *)
Theorem C18_ri_checker_correct : forall fks d, ri_ok fks d = true <-> RI fks d.
Proof. exact ri_ok_spec. Qed.
Print Assumptions C18_ri_checker_correct.

(* THE MAIN THEOREM.  For EVERY foreign key graph (chains, diamonds, cycles, self references), every assignment of
   RESTRICT / NO ACTION / CASCADE / SET NULL and every statement of the model - INSERT, DELETE that cascades to any depth,
   UPDATE of a parent id that cascades, UPDATE of a key column - a statement that succeeds on a database with unique
   primary keys and referential integrity leaves unique primary keys and referential integrity.  Induction on the
   cascade fuel; running out of fuel is the depth-limit error, and an error has no effect (C18_failed_statement_no_effect). *)
Theorem C18_ri_preserved :
  forall fks d s d', uniq d -> RI fks d -> exec_res fks d s = Ok d' -> RI fks d' /\ uniq d'.
Proof. exact ri_preserved. Qed.
Print Assumptions C18_ri_preserved.

(* hence after ANY history of statements, from any database with integrity - in particular from the empty one *)
Theorem C18_ri_invariant_all_histories :
  forall fks h d, uniq d -> RI fks d -> RI fks (run fks d h) /\ uniq (run fks d h).
Proof. exact ri_invariant. Qed.
Print Assumptions C18_ri_invariant_all_histories.

Theorem C18_ri_from_empty : forall fks n h, RI fks (run fks (repeat [] n) h).
Proof. exact ri_from_empty. Qed.
Print Assumptions C18_ri_from_empty.

(* the prescribed child changes, as far as proved: a cascading DELETE only removes rows and sets key columns to NULL
   (every surviving row is an original row, same id, each key column unchanged or NULL; primary keys stay unique), the
   deleted row is gone, and every row that disappeared is referenced by nobody afterwards *)
Theorem C18_cascade_delete_only_removes_or_nulls :
  forall fks n d t r d', uniq d -> del n fks d t r = Ok d' ->
    (sub_db d' d /\ uniq d' /\ B fks d d') /\ gone d' t (rid r).
Proof. exact del_ok_all. Qed.
Print Assumptions C18_cascade_delete_only_removes_or_nulls.

(* PARTIAL.  cascade_exact - equality of the result with the reference fixpoint (delete the set reachable through CASCADE
   keys, NULL the SET NULL frontier, fail iff a RESTRICT key is hit) - is NOT proved; the statement above gives its
   "nothing else changes" half, the driver's independent fixpoint checks the rest on the engine.  The example below
   runs a cascade through a diamond with a self reference. *)
Example C18_cascade_example_partial :
  run ex_fks [[]; []; []] ex_h = [[]; []; [(21, None, None)]] /\
  ri_ok ex_fks (run ex_fks [[]; []; []] (firstn 5 ex_h)) = true /\
  ri_ok ex_fks (run ex_fks [[]; []; []] ex_h) = true.
Proof. exact cascade_example. Qed.
Print Assumptions C18_cascade_example_partial.
