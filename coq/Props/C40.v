(* C40 — Authentication accepts exactly the valid credentials.
   Only statements, each closed by [exact], each followed by Print Assumptions.
   [H] is the hash function (crypto/sha1 in the code); what is assumed about it is a premise of each theorem:
   [len20 H] (20-byte digests) and, for the honest-client theorems, [bytes256 H] (digest bytes are bytes).
   Sys/C40Sha1.v proves both for SHA-1, so the *_sha1 corollaries have no premise about the hash. *)
From Coq Require Import List NArith Bool.
Import ListNotations.
From GMS Require Import Sys.Auth Sys.AuthProofs Sys.C40Sha1.
Open Scope N_scope.

Definition len20 (H : bytes -> bytes) : Prop := forall x, length (H x) = 20%nat.
Definition bytes256 (H : bytes -> bytes) : Prop := forall x, Forall (fun b => b < 256) (H x).

(* the honest client (SHA1(pw) XOR SHA1(salt ++ SHA1(SHA1(pw)))) is accepted against the string CREATE USER stores *)
Theorem C40_honest_client_accepted :
  forall H, len20 H -> bytes256 H -> forall salt pw, pw <> [] ->
    validate H (client_response H salt pw) salt (stored_auth H pw) = true.
Proof. exact honest_client_accepted. Qed.
Print Assumptions C40_honest_client_accepted.

(* for EVERY response (any length): accepted iff it has at least 20 bytes, the stored string decodes to a hash and
   H (first 20 response bytes XOR H(salt ++ hash)) = hash.  Bytes beyond the 20th are ignored, as in the code: an
   oversized response is judged on its first 20 bytes. *)
Theorem C40_accept_iff :
  forall H, len20 H -> forall resp salt auth,
    validate H resp salt auth = true <->
    auth <> [] /\ (20 <= length resp)%nat /\
    exists hash, hex_decode (strip_star auth) = Some hash /\
                 H (xor_bytes (H (salt ++ hash)) (firstn 20 resp)) = hash.
Proof. exact validate_accept_iff. Qed.
Print Assumptions C40_accept_iff.

(* for a 20-byte response: accepted iff the client exhibited a preimage of the stored hash under the scramble *)
Theorem C40_accept_iff_client_knows_preimage :
  forall H, len20 H -> forall resp salt auth, length resp = 20%nat ->
    (validate H resp salt auth = true <->
     auth <> [] /\ exists hash stage1, hex_decode (strip_star auth) = Some hash /\ length stage1 = 20%nat /\
                                       H stage1 = hash /\ resp = xor_bytes stage1 (H (salt ++ hash))).
Proof. exact validate_accept_preimage. Qed.
Print Assumptions C40_accept_iff_client_knows_preimage.

(* malformed credentials are rejected: every response shorter than the digest gets the verdict false (the function is
   total: since a87f03e51 the length guard precedes the XOR loop) *)
Theorem C40_malformed_response_rejected :
  forall H, len20 H -> forall resp salt auth, (length resp < 20)%nat -> validate H resp salt auth = false.
Proof. exact validate_short_response_rejected. Qed.
Print Assumptions C40_malformed_response_rejected.

(* host patterns: the regexp built by matchesHostPattern means "'%' = any run of non-newline bytes, rest literal" *)
Theorem C40_host_pattern_meaning : forall p h, glob p h = true <-> gmatch p h.
Proof. exact glob_spec. Qed.
Print Assumptions C40_host_pattern_meaning.

(* account selection, for every account table: the selected account is in the table, has the client's name or
   is anonymous, and its host matches; no account is selected iff none is selectable *)
Theorem C40_match_selects_account :
  forall users name host,
    (forall u, get_user users name host = Some u -> In u users /\ selectable u name host) /\
    (get_user users name host = None <-> forall u, In u users -> ~ selectable u name host).
Proof. intros users name host. split; [intros u; exact (get_user_sound users name host u)|exact (get_user_none_iff users name host)]. Qed.
Print Assumptions C40_match_selects_account.

Theorem C40_exact_account_first :
  forall users name host u, get_user users name host = Some u ->
    (exists v, In v users /\ u_host v = norm_host host /\ u_name v = name) ->
    u_host u = norm_host host /\ u_name u = name.
Proof. exact get_user_exact_first. Qed.
Print Assumptions C40_exact_account_first.

Theorem C40_named_account_before_anonymous :
  forall users name host u, get_user users name host = Some u -> u_name u <> name ->
    u_name u = [] /\
    forall v, In v users -> u_name v = name -> host_matches host (norm_host host) (u_host v) = false.
Proof. exact get_user_named_before_anonymous. Qed.
Print Assumptions C40_named_account_before_anonymous.

(* the login decision (MySQLDb.ValidateHash / UserEntryWithHash, accounts enabled) *)
Theorem C40_login_accept_iff :
  forall H users name host salt resp n h,
    login H true users name host salt resp = Accept n h <->
    exists u, get_user users name host = Some u /\ u_locked u = false /\ credentials_ok H u salt resp /\
              n = u_name u /\ h = u_host u.
Proof. exact login_accept_iff. Qed.
Print Assumptions C40_login_accept_iff.

(* the session runs as the matched account *)
Theorem C40_session_runs_as_matched_account :
  forall H users name host salt resp n h,
    login H true users name host salt resp = Accept n h ->
    exists u, In u users /\ selectable u name host /\ u_locked u = false /\ n = u_name u /\ h = u_host u.
Proof. exact login_session_identity. Qed.
Print Assumptions C40_session_runs_as_matched_account.

Theorem C40_unknown_account_rejected :
  forall H users name host salt resp,
    (forall u, In u users -> ~ selectable u name host) -> login H true users name host salt resp = Deny.
Proof. exact login_unknown_rejected. Qed.
Print Assumptions C40_unknown_account_rejected.

Theorem C40_locked_rejected :
  forall H users name host salt resp u,
    get_user users name host = Some u -> u_locked u = true -> login H true users name host salt resp = Deny.
Proof. exact login_locked_rejected. Qed.
Print Assumptions C40_locked_rejected.

Theorem C40_empty_password_rule :
  forall H users name host salt resp u,
    get_user users name host = Some u -> u_locked u = false -> u_auth u = [] ->
    (login H true users name host salt resp = Accept (u_name u) (u_host u) <-> resp = []) /\
    (resp <> [] -> login H true users name host salt resp = Deny).
Proof. exact login_empty_password_rule. Qed.
Print Assumptions C40_empty_password_rule.

(* wrong, missing or malformed credentials are rejected: whenever the credentials are not valid for the selected account *)
Theorem C40_invalid_credentials_rejected :
  forall H users name host salt resp u,
    get_user users name host = Some u -> ~ credentials_ok H u salt resp ->
    login H true users name host salt resp = Deny.
Proof. exact login_invalid_credentials_rejected. Qed.
Print Assumptions C40_invalid_credentials_rejected.

Theorem C40_login_malformed_response_rejected :
  forall H, len20 H -> forall users name host salt resp,
    resp <> [] -> (length resp < 20)%nat -> login H true users name host salt resp = Deny.
Proof. exact login_malformed_response_rejected. Qed.
Print Assumptions C40_login_malformed_response_rejected.

Theorem C40_login_honest_client_accepted :
  forall H, len20 H -> bytes256 H -> forall users name host salt pw u,
    get_user users name host = Some u -> u_locked u = false -> u_auth u = stored_auth H pw ->
    login H true users name host salt (client_response H salt pw) = Accept (u_name u) (u_host u).
Proof. exact login_honest_client_accepted. Qed.
Print Assumptions C40_login_honest_client_accepted.

(* the instance the code uses *)
Theorem C40_sha1_meets_the_premises : len20 sha1 /\ bytes256 sha1.
Proof. split; [exact sha1_length|exact sha1_bytes]. Qed.
Print Assumptions C40_sha1_meets_the_premises.

(* non-vacuity: a concrete account table and login (with SHA-1) that is accepted, and wrong password / non-matching host /
   truncated response / oversized response with an honest prefix (accepted on its first 20 bytes) *)
Example C40_nonvacuous :
  let pw := [112;119] in
  let u := mkUser [117] [49;48;46;37] (stored_auth sha1 pw) false s_native in
  let salt := [1;2;3;4;5;6;7;8;9;10;11;12;13;14;15;16;17;18;19;20] in
  login sha1 true [u] [117] [49;48;46;48;46;48;46;53] salt (client_response sha1 salt pw) = Accept [117] [49;48;46;37]
  /\ login sha1 true [u] [117] [49;48;46;48;46;48;46;53] salt (client_response sha1 salt [112;120]) = Deny
  /\ login sha1 true [u] [117] [49;49;46;48;46;48;46;53] salt (client_response sha1 salt pw) = Deny
  /\ login sha1 true [u] [117] [49;48;46;48;46;48;46;53] salt [1;2;3] = Deny
  /\ login sha1 true [u] [117] [49;48;46;48;46;48;46;53] salt (firstn 19 (client_response sha1 salt pw)) = Deny
  /\ login sha1 true [u] [117] [49;48;46;48;46;48;46;53] salt (client_response sha1 salt pw ++ [7]) = Accept [117] [49;48;46;37].
Proof. vm_compute. repeat split. Qed.
