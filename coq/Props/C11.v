(* C11 — Repeated queries reflect the current data; no stale results.
   Model: Phys/C11Cache.v (unkeyed plan-node caches as in plan.CachedResults / rowexec.cachedResultsIter and
   the plan.Subquery result cache; statements planned afresh; prepared statements keep the AST only).
   Only statements, each closed by [exact]. *)
From Coq Require Import List ZArith NArith Bool.
Import ListNotations.
From GMS Require Import Rel.C02Logical Phys.C11Cache Phys.C11CacheProofs.

(* an unkeyed cache filled at EOF and replayed for every later outer row is invisible whenever the cached
   subtree does not depend on the outer row (the planner's guard), whatever the parent does with the rows
   and however often it stops early *)
Theorem C11_cache_transparent :
  forall (B : Type) (sub : row -> res (list row)) (k : row -> list row -> res B)
         (exhausts : row -> list row -> bool),
    outer_independent sub ->
    forall outer, loop_cached sub k exhausts None outer = loop_uncached sub k outer.
Proof. exact (@cache_transparent). Qed.
Print Assumptions C11_cache_transparent.

(* the guard is necessary: a correlated subtree behind the same cache returns stale rows *)
Theorem C11_cache_without_guard_refuted :
  exists (sub : row -> res (list row)) outer,
    loop_cached sub id_k (fun _ _ => true) None outer <> loop_uncached sub id_k outer.
Proof. exact cache_unsound_without_guard. Qed.
Print Assumptions C11_cache_without_guard_refuted.

(* so is "finalized only at EOF": caching a partially read iterator is wrong even under the guard *)
Theorem C11_finalize_before_eof_refuted :
  exists (sub : row -> res (list row)) readn outer,
    outer_independent sub /\ loop_eager sub id_k readn None outer <> loop_uncached sub id_k outer.
Proof. exact finalize_only_at_eof_needed. Qed.
Print Assumptions C11_finalize_before_eof_refuted.

(* the two uses: WHERE a IN (uncorrelated subquery) with the Subquery result cache, and a nested-loop join
   over a CachedResults right child, coincide with the SQL definition (C02) *)
Theorem C11_in_subquery_cache_transparent :
  forall d en a q rows bs,
    (forall r r', eval_query d (r :: en) q = eval_query d (r' :: en) q) ->
    in_filter_plain d en a q rows = Ok bs ->
    in_filter_cached d en a q rows = Ok bs.
Proof. exact in_subquery_cache_transparent. Qed.
Print Assumptions C11_in_subquery_cache_transparent.

Theorem C11_cached_join_is_join :
  forall onf right L R, (forall l, right l = Ok R) -> nlj_cached onf right L = inner_join onf L R.
Proof. exact nlj_cache_transparent. Qed.
Print Assumptions C11_cached_join_is_join.

(* for ALL histories of DML / DDL / prepares / queries in any number of sessions: a query returns what the
   executor computes from the table contents current at that moment, nothing else of the history matters *)
Theorem C11_no_cross_statement_state :
  forall exec st h sid q,
    snd (run exec st (h ++ [OQuery sid q])) = snd (run exec st h) ++ [exec (db_after (sdb st) h) q].
Proof. exact no_cross_statement_state. Qed.
Print Assumptions C11_no_cross_statement_state.

Theorem C11_prepared_uses_current_data :
  forall exec st h1 h2 sid n q,
    no_reprepare sid n h2 = true ->
    snd (run exec st (h1 ++ OPrepare sid n q :: h2 ++ [OExecute sid n])) =
    snd (run exec st (h1 ++ OPrepare sid n q :: h2)) ++ [exec (db_after (sdb st) (h1 ++ OPrepare sid n q :: h2)) q].
Proof. exact prepared_uses_current_data. Qed.
Print Assumptions C11_prepared_uses_current_data.

Theorem C11_deterministic_requery :
  forall exec st h sid sid' q,
    exists r, snd (run exec st (h ++ [OQuery sid q; OQuery sid' q])) = snd (run exec st h) ++ [r; r].
Proof. exact deterministic_requery. Qed.
Print Assumptions C11_deterministic_requery.

(* non-vacuity: t0 = {1}; query, insert 2, re-query (plain and prepared before the insert) *)
Definition ex_q : query := QSelect (QTable 0) (EInQ (ECol 0 0) (QSelect (QTable 0) (EConst (VInt 1)) [ECol 0 0] false)) [ECol 0 0] false.
Example C11_nonvacuous :
  snd (run exec_def {| sdb := [(1%nat, [[VInt 1]])]; prepared := [] |}
           [OPrepare 0 7 ex_q; OQuery 0 ex_q; OInsert 0 [[VInt 2]]; OQuery 1 ex_q; OExecute 0 7])
  = [Ok [[VInt 1]]; Ok [[VInt 1]; [VInt 2]]; Ok [[VInt 1]; [VInt 2]]].
Proof. vm_compute. reflexivity. Qed.
Print Assumptions C11_nonvacuous.
